//go:build verif

package main

import (
	"fmt"
	"strings"

	"golang.org/x/perf/internal/verifh/hx"
)

// GenFile is one generated input file.
type GenFile struct {
	Name    string
	Content string
}

// Case is one benchstat invocation: flags, file arguments, file contents.
type Case struct {
	Files []GenFile
	Flags []string // e.g. -row .name
	Args  []string // file arguments, possibly label=path or repeated, or "-" (standard input)
	WantUnits []string // "wide" cases: the units that must survive the -filter (nil = not judged)
	Stdin string   // name of the generated file whose content is fed to standard input for "-"
	Tags  map[string]bool
}

func (c *Case) tag(t string) {
	if c.Tags == nil {
		c.Tags = map[string]bool{}
	}
	c.Tags[t] = true
}

var (
	cfgPool = map[string][]string{
		"goos":   {"linux", "darwin"},
		"goarch": {"amd64", "arm64"},
		"pkg":    {"p/a", "p/b"},
		"commit": {"c1", "c2", "c10"},
		"note":   {"before", "after"},
		"toolchain": {"go1.21", "go1.22"},
	}
	cfgKeys   = []string{"goos", "goarch", "pkg", "commit", "note"}
	baseNames = []string{"Encode", "Decode", "Sort", "Hash"}
	formats   = []string{"json", "gob"}
	sizes     = []string{"1k", "2k", "10", "1Mi"}
	// block sizes that tie numerically under different spellings (parseNum: 4k = 4K = 4000 = 4e3)
	bsPool = []string{"4k", "4K", "4000", "4e3", "8k", "8000"}
	unitPool  = []string{"ns/op", "B/op", "widgets", "MB/s", "allocs/op", "ns/frob"}
	magPool   = []float64{100, 200, 1000, 3.5, 0, 12345678, 0.002}
	noisePool = []float64{1, 1, 1, 1.01, 0.99, 1.1, 0.9, 1.5}

	tablePool  = []string{".config", "goos", "pkg", "", ".config,.name", "commit", ".file", "goos,goarch", ".config@alpha"}
	rowPool    = []string{"/bs@num,.name", "/bs@num,/format", ".name@alpha,/bs@num", ".fullname", ".name", "/format", ".name,/size", ".fullname@alpha", "/size@num", "pkg,.name", ".name@alpha,/format", "/gomaxprocs", "/size@(1k 10 2k)"}
	colPool    = []string{"toolchain", "/bs@num", "/bs@num,.file", ".file", "goos", "/format", "commit", ".file@alpha", "/format@(gob json)", "note", "pkg", "commit@num", "/size", ".name"}
	ignorePool = []string{"", ".file", "commit", "goos,commit", "note", "/size", ".fullname", "pkg", ".config", "/format,/size", ".name"}
	filterPool = []string{"*", ".name:Encode", "/format:json", "-.name:Sort", "goos:linux", ".unit:B/op", ".unit:(sec/op OR widgets)", "-/size:1k", ".file:a.txt OR .file:b.txt", "pkg:p/a AND -.name:Hash"}
	alphaPool  = []string{"0.05", "0.01", "0.5", "1", "0", "0.2"}
	confPool   = []string{"0.95", "0.5", "0.99", "0", "1", "0.8"}
	badFlags   = [][]string{{"-row", ".unit"}, {"-alpha", "2"}, {"-confidence", "-1"}, {"-col", ".config@(a b)"}, {"-row", ".name@bogus"}, {"-format", "xml"}, {"-filter", "a:("}, {"-ignore", ".fullname@fixed"}}
)

func fnum(v float64) string { return fmt.Sprintf("%v", v) }

// genCase builds one random case. Small shapes are preferred so that the quick tier
// covers many flag combinations; shapes grow with `big`.
func genCase(r *hx.Rand, big bool) *Case {
	switch r.Intn(30) {
	case 3:
		return genRecordless(r)
	case 0:
		return genFixed2(r)
	case 1:
		return genWide(r)
	case 2:
		return genManyResidues(r)
	}
	c := &Case{}
	nfiles := 1 + r.Intn(4)
	if !big && r.Chance(1, 2) {
		nfiles = 1 + r.Intn(2)
	}
	// per-case pool of benchmark names
	nb := 1 + r.Intn(6)
	if !big && nb > 4 {
		nb = 1 + r.Intn(4)
	}
	// "holes" mode: >= 3 files (columns), every benchmark missing from exactly one of them, so
	// that rows lack a cell in the first, a middle or the last column
	holesMode := r.Chance(1, 8)
	if holesMode {
		nfiles = 3 + r.Intn(2)
		c.tag("holes")
	}
	// "collide" mode: multi-field projections whose value tuples have colliding concatenations
	// (("1","10") vs ("11","0"), ("x","") vs ("","x"))
	collideMode := !holesMode && r.Chance(1, 10)
	// "cfgclear" mode: a file-configuration key is set in the results seen first and cleared
	// (`key:`) later, or the other way round; it is the column, row or table key, so that an
	// EMPTY value is observed second (or first) and tables go from a value back to empty
	clearMode := !holesMode && !collideMode && r.Chance(1, 8)
	clearKey := hx.Pick(r, []string{"toolchain", "note", "commit"})
	clearSetFirst := r.Bool()
	// "cfgonly" mode: a row/column projection that consists of .config only, on an input whose
	// FIRST result has no file configuration at all (the projection has no field yet when the first
	// key is made); later blocks bring goos:/goarch:/... lines
	cfgOnlyMode := !holesMode && !collideMode && !clearMode && r.Chance(1, 8)
	// "scales" mode: >= 3 columns whose centres in one row have different magnitudes (different
	// SI/IEC prefixes) and zeros, so that the row's common scale matters
	scalesMode := !holesMode && !collideMode && !clearMode && !cfgOnlyMode && r.Chance(1, 10)
	if scalesMode {
		nfiles = 3 + r.Intn(2)
		c.tag("scales")
	}
	// "specials" mode: +Inf, -Inf and -0 among the measurements; "nan" mode: also NaN, but only
	// in single-column runs (one file, no -col, no duplicate path): two compared cells with a NaN
	// make go-moremath's U test loop forever (reported, see notes/C14.md)
	specialsMode := r.Chance(1, 6)
	nanMode := specialsMode && r.Chance(1, 2)
	if nanMode {
		c.tag("nan")
	}
	// "ties" mode: differently spelled but numerically equal values in a non-last @num field
	tiesMode := r.Chance(1, 8)
	var names []string
	seen := map[string]bool{}
	for len(names) < nb {
		n := hx.Pick(r, baseNames)
		if r.Chance(2, 3) {
			n += "/format=" + hx.Pick(r, formats)
		}
		if r.Chance(1, 3) {
			n += "/size=" + hx.Pick(r, sizes)
		}
		if tiesMode {
			n += "/bs=" + hx.Pick(r, bsPool[:4])
		} else if r.Chance(1, 3) {
			n += "/bs=" + hx.Pick(r, bsPool)
		}
		switch r.Intn(4) {
		case 0:
			n += "-8"
		case 1:
			n += "-16"
		}
		if !seen[n] {
			seen[n] = true
			names = append(names, n)
		}
	}
	if collideMode {
		c.tag("collide")
		names = []string{"Enc/a=1/b=10", "Enc/a=11/b=0", "Enc/a=x", "Enc/b=x", "Enc/a=1/b=1", "Enc/a=11/b=", "Dec/a=1/b=10", "Dec/a=110"}
		if r.Chance(1, 2) {
			names = names[:4+r.Intn(5)]
		}
	}
	dropIn := map[string]int{}
	if holesMode {
		for len(names) < 3 {
			names = append(names, fmt.Sprintf("Extra%d", len(names)))
		}
		for i, n := range names {
			dropIn[n] = (i + r.Intn(2)) % nfiles
		}
	}
	bigWanted := r.Chance(1, 12)
	nu := 1 + r.Intn(3)
	if bigWanted {
		nu = 3
		if len(names) > 3 {
			names = names[:3]
		}
	}
	var units []string
	for len(units) < nu {
		u := hx.Pick(r, unitPool)
		dup := false
		for _, x := range units {
			dup = dup || x == u
		}
		if !dup {
			units = append(units, u)
		}
	}
	// base magnitude per (name, unit): shared by all files so that ratios are meaningful,
	// with an occasional per-file shift
	mag := map[string]float64{}
	hasZero := false
	_ = hasZero
	for _, n := range names {
		for _, u := range units {
			m := hx.Pick(r, magPool)
			if r.Chance(1, 25) && m != 0 {
				m = -m
				c.tag("negative")
			}
			if m == 0 {
				c.tag("zero")
				hasZero = true
			}
			mag[n+"|"+u] = m
		}
	}
	fileNames := []string{"a.txt", "b.txt", "c.txt", "d.txt"}
	scaleMag := map[string]float64{}
	if scalesMode {
		for _, n := range names {
			for _, u := range units {
				for fi := 0; fi < nfiles; fi++ {
					scaleMag[fmt.Sprintf("%s|%s|%d", n, u, fi)] = hx.Pick(r, []float64{0, 0, 1536, 3221225472, 2.5e-7, 1000, 5e6, 1, -1536, 7e10})
				}
			}
		}
	}
	// "counts" mode: every file was produced with its own -count (6..25), so the cells of one
	// table have different sample sizes
	countsMode := bigWanted || r.Chance(1, 4)
	// "bigcells": 17..64 values per cell and three units per line (sort beyond the insertion-sort
	// regime, slices that grow by append many times)
	bigCells := bigWanted
	if countsMode {
		c.tag("counts")
	}
	if bigCells {
		c.tag("bigcells")
	}
	exactUnit := ""
	exactFile, exactBlock := r.Intn(nfiles), 0
	if r.Chance(1, 3) {
		exactUnit = hx.Pick(r, units)
		c.tag("exact")
		switch {
		case nfiles > 1 && exactFile == nfiles-1:
			c.tag("meta-last")
		case nfiles > 1 && exactFile == 0:
			c.tag("meta-first")
		case nfiles > 1:
			c.tag("meta-middle")
		}
	}
	for fi := 0; fi < nfiles; fi++ {
		var sb strings.Builder
		nblocks := 1 + r.Intn(3)
		shift := 1.0
		if r.Chance(1, 2) {
			shift = hx.Pick(r, []float64{1, 2, 0.5, 1.25})
		}
		cfg := map[string]string{}
		fileCount := 6 + r.Intn(20)
		if bigCells {
			fileCount = 17 + r.Intn(48)
		}
		for bi := 0; bi < nblocks; bi++ {
			// configuration lines of this block
			if clearMode {
				if nblocks < 2 {
					nblocks = 2 + r.Intn(2)
				}
				set := (bi%2 == 0) == clearSetFirst
				if set {
					v := hx.Pick(r, cfgPool[clearKey])
					cfg[clearKey] = v
					fmt.Fprintf(&sb, "%s: %s\n", clearKey, v)
				} else if bi > 0 || r.Chance(1, 2) {
					delete(cfg, clearKey)
					fmt.Fprintf(&sb, "%s:\n", clearKey)
				}
			}
			if cfgOnlyMode && fi == 0 && nblocks < 2 {
				nblocks = 2 + r.Intn(2)
			}
			for _, k := range cfgKeys {
				if clearMode && k == clearKey {
					continue
				}
				if cfgOnlyMode && fi == 0 && bi == 0 {
					continue // the first result of the run has no file configuration
				}
				if (bi == 0 && r.Chance(1, 2)) || (bi > 0 && r.Chance(1, 4)) {
					v := hx.Pick(r, cfgPool[k])
					if bi == 0 && fi > 0 && r.Chance(2, 3) && k != "note" && k != "commit" {
						v = cfgPool[k][0] // mostly identical environment across files
					}
					cfg[k] = v
					fmt.Fprintf(&sb, "%s: %s\n", k, v)
				} else if bi > 0 && cfg[k] != "" && r.Chance(1, 12) {
					delete(cfg, k)
					fmt.Fprintf(&sb, "%s:\n", k)
					c.tag("cfgdel")
				}
			}
			if bi > 0 {
				c.tag("blocks")
			}
			if exactUnit != "" && bi == exactBlock && (fi == exactFile || r.Chance(1, 5)) {
				fmt.Fprintf(&sb, "Unit %s assume=exact\n", exactUnit)
			}
			if r.Chance(1, 10) {
				fmt.Fprintf(&sb, "Unit %s better=%s assume=nothing\n", hx.Pick(r, units), hx.Pick(r, []string{"higher", "lower"}))
				c.tag("unitmeta")
			}
			sb.WriteString("\n")
			// benchmark lines
			var lines []string
			for _, n := range names {
				if holesMode {
					if dropIn[n] == fi {
						continue
					}
				} else if r.Chance(1, 5) {
					c.tag("missing")
					continue // missing benchmark in this block
				}
				ns := 1 + r.Intn(6)
				if r.Chance(1, 6) {
					ns = 6 + r.Intn(6)
				}
				if countsMode {
					ns = fileCount
				}
				for s := 0; s < ns; s++ {
					var l strings.Builder
					fmt.Fprintf(&l, "Benchmark%s %d", n, 1+r.Intn(1000))
					for _, u := range units {
						if r.Chance(1, 15) {
							c.tag("unitmissing")
							continue
						}
						v := mag[n+"|"+u] * shift * hx.Pick(r, noisePool)
						if scalesMode {
							v = scaleMag[fmt.Sprintf("%s|%s|%d", n, u, fi)]
						}
						if exactUnit == u && r.Chance(4, 5) {
							v = mag[n+"|"+u] * shift
						}
						vs := fnum(v)
						if specialsMode && r.Chance(1, 6) {
							pool := []string{"+Inf", "-Inf", "Inf"}
							if nanMode {
								pool = append(pool, "NaN", "NaN", "NaN")
							}
							pool = append(pool, "-0", "0") // both zeros may share a cell (F27)
							vs = hx.Pick(r, pool)
							c.tag("specials")
						}
						fmt.Fprintf(&l, " %s %s", vs, u)
					}
					lines = append(lines, l.String())
				}
			}
			if r.Chance(1, 3) {
				// interleave
				for i := len(lines) - 1; i > 0; i-- {
					j := r.Intn(i + 1)
					lines[i], lines[j] = lines[j], lines[i]
				}
				c.tag("interleaved")
			}
			if r.Chance(1, 30) {
				lines = append(lines, "BenchmarkBroken 1 x ns/op")
				c.tag("syntaxerr")
			}
			for _, l := range lines {
				sb.WriteString(l)
				sb.WriteString("\n")
			}
		}
		c.Files = append(c.Files, GenFile{fileNames[fi], sb.String()})
	}
	// file arguments
	for fi := range c.Files {
		n := c.Files[fi].Name
		switch {
		case r.Chance(1, 8):
			c.Args = append(c.Args, hx.Pick(r, []string{"old", "new", "L", "x y"})+"="+n)
			c.tag("label")
		default:
			c.Args = append(c.Args, n)
		}
	}
	if r.Chance(1, 12) {
		// one input comes from standard input: `benchstat old.txt -`
		i := r.Intn(len(c.Args))
		if !strings.Contains(c.Args[i], "=") {
			c.Stdin = c.Args[i]
			c.Args[i] = "-"
			c.tag("stdin")
		}
	}
	if r.Chance(1, 8) {
		c.Args = append(c.Args, c.Files[r.Intn(len(c.Files))].Name)
		c.tag("duppath")
	}
	if r.Chance(1, 20) {
		c.Args = append(c.Args, "L="+c.Files[0].Name)
		c.tag("duplabel")
	}
	if r.Chance(1, 12) {
		// the same path twice or thrice, possibly next to a labelled use of it
		f := c.Files[r.Intn(len(c.Files))].Name
		switch r.Intn(3) {
		case 0:
			c.Args = []string{f, f}
		case 1:
			c.Args = []string{f, f, f}
		default:
			c.Args = []string{f, "new=" + f, f}
		}
		c.Stdin = ""
		c.tag("samepath")
	}
	// flags
	if cfgOnlyMode {
		c.tag("cfgonly")
		c.Flags = append(c.Flags, hx.Pick(r, [][]string{{"-table", ".file", "-col", ".config"}, {"-table", ".file", "-row", ".config"},
			{"-table", "", "-col", ".config", "-row", ".fullname"}, {"-table", ".file", "-col", ".config", "-ignore", ".fullname"},
			{"-table", ".file", "-row", ".config", "-col", ".name"}, {"-table", "", "-row", ".config", "-ignore", ".file"},
			{"-table", ".file", "-col", ".config@alpha"}})...)
	} else if clearMode {
		c.tag("cfgclear")
		c.Flags = append(c.Flags, hx.Pick(r, [][]string{nil, {"-col", clearKey}, {"-col", clearKey, "-ignore", ".file"}, {"-row", clearKey + ",.fullname"}, {"-table", clearKey},
			{"-table", "goos," + clearKey}, {"-col", clearKey + ",.file"}})...)
	} else if collideMode {
		c.Flags = append(c.Flags, hx.Pick(r, [][]string{{"-row", "/a,/b"}, {"-col", "/a,/b", "-row", ".name"}, {"-row", ".name,/a,/b"}, {"-row", "/a,/b,.name"},
			{"-table", "/a,/b", "-row", ".name"}})...)
	} else if holesMode && r.Chance(1, 2) {
		// default projection: one column per file
	} else if tiesMode {
		c.tag("numties")
		c.Flags = append(c.Flags, hx.Pick(r, [][]string{{"-row", "/bs@num,.name"}, {"-row", "/bs@num,/format"}, {"-col", "/bs@num,.file", "-row", ".name"},
			{"-row", "/bs@num,.fullname"}, {"-table", "/bs@num,.config", "-row", ".name"}})...)
	} else if r.Chance(2, 3) {
		add := func(name string, pool []string, num, den int) {
			if r.Chance(num, den) {
				c.Flags = append(c.Flags, "-"+name, hx.Pick(r, pool))
				c.tag("f-" + name)
			}
		}
		add("filter", filterPool, 1, 3)
		add("table", tablePool, 1, 3)
		add("row", rowPool, 1, 2)
		add("col", colPool, 1, 2)
		add("ignore", ignorePool, 1, 2)
		add("alpha", alphaPool, 1, 4)
		add("confidence", confPool, 1, 4)
		if r.Chance(1, 25) {
			c.Flags = append(c.Flags, hx.Pick(r, badFlags)...)
			c.tag("badflag")
		}
	} else {
		c.tag("defaults")
	}
	return c
}

// corpusCases are fixed inputs run first: the repo's golden shapes and the witnesses of
// the findings recorded in notes/C14.md.
func corpusCases() []*Case {
	mk := func(flags []string, files ...string) *Case {
		c := &Case{Flags: flags}
		names := []string{"a.txt", "b.txt", "c.txt"}
		for i, f := range files {
			c.Files = append(c.Files, GenFile{names[i], f})
			c.Args = append(c.Args, names[i])
		}
		c.tag("corpus")
		return c
	}
	rep := func(l string, n int) string { return strings.Repeat(l+"\n", n) }
	return []*Case{
		// issue19565 shape: benchmark sets differ both ways
		mk([]string{"-col", "note"}, "note: before\n\n"+rep("BenchmarkA 10 100 ns/op", 6)+rep("BenchmarkB 10 10000 ns/op", 6)+
			"\nnote: after\n\n"+rep("BenchmarkA 10 100 ns/op", 6)+rep("BenchmarkC 10 10000 ns/op", 6)),
		// column with MORE benchmarks than the baseline
		mk(nil, rep("BenchmarkA 10 100 ns/op", 3), rep("BenchmarkA 10 100 ns/op", 3)+rep("BenchmarkC 10 400 ns/op", 3)),
		// column with FEWER benchmarks than the baseline
		mk(nil, rep("BenchmarkA 10 100 ns/op", 3)+rep("BenchmarkC 10 400 ns/op", 3), rep("BenchmarkA 10 100 ns/op", 3)),
		// residue: -row .name merges sub-benchmarks
		mk([]string{"-row", ".name"}, "goos: linux\n\nBenchmarkE/format=json-8 1 5 ns/op\nBenchmarkE/format=gob-8 1 7 ns/op\n"),
		// merging files by -col goos is requested: no warning
		mk([]string{"-col", "goos"}, "goos: linux\n\nBenchmarkE 1 5 ns/op\n", "goos: linux\n\nBenchmarkE 1 6 ns/op\n"),
		// zero baselines and zero/zero
		mk(nil, "BenchmarkZ 1 0 ns/op\nBenchmarkY 1 0 ns/op\nBenchmarkX 1 4 ns/op\n", "BenchmarkZ 1 0 ns/op\nBenchmarkY 1 3 ns/op\nBenchmarkX 1 8 ns/op\n"),
		// old/new produced with different -count: cells of different sample sizes in one run
		mk(nil, rep("BenchmarkA 10 100 ns/op", 6)+rep("BenchmarkB 10 250 ns/op", 9), rep("BenchmarkA 10 101 ns/op", 25)+rep("BenchmarkB 10 240 ns/op", 17)),
		mk([]string{"-confidence", "0.99"}, rep("BenchmarkA 10 100 ns/op", 7)+rep("BenchmarkB 10 250 ns/op", 12)+rep("BenchmarkC 10 3 ns/op", 20),
			rep("BenchmarkA 10 101 ns/op", 8)+rep("BenchmarkB 10 240 ns/op", 13)+rep("BenchmarkC 10 4 ns/op", 21)),
		// unit metadata only in the FIRST of two files: it holds for the whole run
		mk(nil, "Unit text-bytes assume=exact\n\nBenchmarkSize 1 100 text-bytes\n", "BenchmarkSize 1 105 text-bytes\n"),
		// ... only in the middle file of three, with better=
		mk(nil, "BenchmarkSize 1 100 text-bytes\n", "Unit text-bytes assume=exact better=lower\nBenchmarkSize 1 105 text-bytes\n", "BenchmarkSize 1 110 text-bytes\n"),
		// numerically tied spellings in a non-last @num field: the order must still be total
		mk([]string{"-row", "/bs@num,.name"}, rep("BenchmarkEncode/bs=4k 1 10 ns/op", 3)+rep("BenchmarkEncode/bs=4K 1 11 ns/op", 3)+rep("BenchmarkEncode/bs=4000 1 12 ns/op", 3)+
			rep("BenchmarkEncode/bs=4e3 1 13 ns/op", 3)+rep("BenchmarkEncode/bs=8k 1 14 ns/op", 3)+rep("BenchmarkEncode/bs=8000 1 15 ns/op", 3)+rep("BenchmarkDecode/bs=4k 1 16 ns/op", 3)),
		mk([]string{"-col", "/bs@num,.file", "-row", ".name"}, rep("BenchmarkEncode/bs=4k 1 10 ns/op", 3)+rep("BenchmarkEncode/bs=4K 1 11 ns/op", 3)+rep("BenchmarkEncode/bs=4000 1 12 ns/op", 3),
			rep("BenchmarkEncode/bs=4e3 1 13 ns/op", 3)+rep("BenchmarkEncode/bs=4K 1 11 ns/op", 3)),
		// three columns with a hole in the first, the middle and the last column
		mk(nil, rep("BenchmarkA 1 10 ns/op", 2)+rep("BenchmarkB 1 20 ns/op", 2)+rep("BenchmarkD 1 40 ns/op", 2),
			rep("BenchmarkA 1 11 ns/op", 2)+rep("BenchmarkC 1 31 ns/op", 2)+rep("BenchmarkD 1 41 ns/op", 2),
			rep("BenchmarkA 1 12 ns/op", 2)+rep("BenchmarkB 1 22 ns/op", 2)+rep("BenchmarkC 1 32 ns/op", 2)),
		// value tuples whose concatenations collide must stay distinct keys
		mk([]string{"-row", "/a,/b"}, rep("BenchmarkEnc/a=1/b=10 1 10 ns/op", 2)+rep("BenchmarkEnc/a=11/b=0 1 20 ns/op", 2)+rep("BenchmarkEnc/a=x 1 30 ns/op", 2)+rep("BenchmarkEnc/b=x 1 40 ns/op", 2)),
		mk([]string{"-col", "/a,/b", "-row", ".name"}, rep("BenchmarkEnc/a=1/b=10 1 10 ns/op", 2)+rep("BenchmarkEnc/a=11/b=0 1 20 ns/op", 2)+rep("BenchmarkEnc/a=x 1 30 ns/op", 2)+rep("BenchmarkEnc/b=x 1 40 ns/op", 2)),
		// flag validation at and beyond the ends of [0, 1]
		mk([]string{"-confidence", "1.5"}, rep("BenchmarkA 1 10 ns/op", 6), rep("BenchmarkA 1 11 ns/op", 6)),
		mk([]string{"-confidence", "2"}, rep("BenchmarkA 1 10 ns/op", 6), rep("BenchmarkA 1 11 ns/op", 6)),
		mk([]string{"-alpha", "1.5"}, rep("BenchmarkA 1 10 ns/op", 6), rep("BenchmarkA 1 11 ns/op", 6)),
		mk([]string{"-alpha", "-0.1"}, rep("BenchmarkA 1 10 ns/op", 6), rep("BenchmarkA 1 11 ns/op", 6)),
		mk([]string{"-confidence", "-0.5"}, rep("BenchmarkA 1 10 ns/op", 6), rep("BenchmarkA 1 11 ns/op", 6)),
		mk([]string{"-alpha", "1", "-confidence", "1"}, rep("BenchmarkA 1 10 ns/op", 6), rep("BenchmarkA 1 11 ns/op", 6)),
		mk([]string{"-alpha", "0.3"}, "BenchmarkA 1 10 ns/op\nBenchmarkA 1 12 ns/op\nBenchmarkA 1 11 ns/op\nBenchmarkA 1 13 ns/op\n", "BenchmarkA 1 14 ns/op\nBenchmarkA 1 12.5 ns/op\nBenchmarkA 1 15 ns/op\n"),
		// the column key is set in the results seen first and cleared later: the column of the
		// first-observed value is the baseline
		mk([]string{"-col", "toolchain", "-ignore", ".file"}, "toolchain: go1.21\n\n"+rep("BenchmarkA 1 10 ns/op", 3)+"\ntoolchain:\n\n"+rep("BenchmarkA 1 12 ns/op", 3)),
		mk([]string{"-col", "toolchain", "-ignore", ".file"}, rep("BenchmarkA 1 10 ns/op", 3)+"\ntoolchain: go1.21\n\n"+rep("BenchmarkA 1 12 ns/op", 3)),
		// tables (linux,""), (linux,x), (darwin,""): a table key field going back to empty must be printed
		mk(nil, "goos: linux\n\n"+rep("BenchmarkA 1 10 ns/op", 2)+"\nnote: x\n\n"+rep("BenchmarkA 1 11 ns/op", 2)+"\ngoos: darwin\nnote:\n\n"+rep("BenchmarkA 1 12 ns/op", 2)+
			"\ngoos: linux\nnote: x\n\n"+rep("BenchmarkB 1 13 ns/op", 2)),
		// NaN, infinities and -0 among the measurements
		mk(nil, "BenchmarkA 1 5 widgets\nBenchmarkA 1 3 widgets\nBenchmarkA 1 NaN widgets\nBenchmarkB 1 +Inf widgets\nBenchmarkB 1 2 widgets\nBenchmarkB 1 NaN widgets\nBenchmarkB 1 7 widgets\nBenchmarkC 1 1 widgets\nBenchmarkC 1 NaN widgets\nBenchmarkC 1 8 widgets\nBenchmarkC 1 6 widgets\nBenchmarkC 1 2 widgets\n"),
		mk([]string{"-row", ".name"}, "BenchmarkA/x=1 1 NaN widgets\nBenchmarkA/x=2 1 4 widgets\nBenchmarkA/x=3 1 -Inf widgets\nBenchmarkA/x=4 1 9 widgets\nBenchmarkB 1 -0 widgets\nBenchmarkB 1 1 widgets\nBenchmarkB 1 NaN widgets\nBenchmarkB 1 5 widgets\nBenchmarkB 1 3 widgets\n"),
		mk(nil, "BenchmarkA 1 +Inf widgets\nBenchmarkA 1 3 widgets\nBenchmarkA 1 4 widgets\nBenchmarkB 1 2 widgets\n", "BenchmarkA 1 -Inf widgets\nBenchmarkA 1 4 widgets\nBenchmarkA 1 -0 widgets\nBenchmarkB 1 Inf widgets\n"),
		// F28 witness: compared cells containing NaN (hung in go-moremath's U test)
		mk(nil, "BenchmarkA 1 5 widgets\nBenchmarkA 1 3 widgets\nBenchmarkA 1 NaN widgets\n", "BenchmarkA 1 NaN widgets\nBenchmarkA 1 4 widgets\nBenchmarkA 1 9 widgets\n"),
		mk(nil, "BenchmarkA 1 5 widgets\nBenchmarkA 1 3 widgets\nBenchmarkA 1 NaN widgets\nBenchmarkB 1 2 widgets\n", "BenchmarkA 1 1 widgets\nBenchmarkA 1 4 widgets\nBenchmarkA 1 9 widgets\nBenchmarkB 1 NaN widgets\n"),
		// F27 witness: +0 and -0 in one cell under assume=exact, both line orders
		mk(nil, "Unit widgets assume=exact\nBenchmarkA 1 0 widgets\nBenchmarkA 1 -0 widgets\n"),
		mk(nil, "Unit widgets assume=exact\nBenchmarkA 1 -0 widgets\nBenchmarkA 1 0 widgets\n"),
		mk(nil, "BenchmarkA 1 0 widgets\nBenchmarkA 1 -0 widgets\nBenchmarkA 1 0 widgets\n", "BenchmarkA 1 -0 widgets\nBenchmarkA 1 0 widgets\n"),
		// standard input as one of the inputs
		func() *Case {
			c := mk(nil, rep("BenchmarkA 1 10 ns/op", 3), rep("BenchmarkA 1 12 ns/op", 3))
			c.Args[1], c.Stdin = "-", "b.txt"
			return c
		}(),
		// -col / -row .config only, first result without any file configuration
		mk([]string{"-table", ".file", "-col", ".config"}, rep("BenchmarkA 1 10 ns/op", 3)+"\ngoos: linux\ngoarch: amd64\n\n"+rep("BenchmarkA 1 12 ns/op", 3)+
			"\ngoos: darwin\n\n"+rep("BenchmarkA 1 14 ns/op", 3)+"\ngoarch: arm64\n\n"+rep("BenchmarkA 1 16 ns/op", 3)),
		mk([]string{"-table", ".file", "-row", ".config"}, rep("BenchmarkA 1 10 ns/op", 3)+"\ngoos: linux\n\n"+rep("BenchmarkA 1 12 ns/op", 3)+
			"\ngoos: darwin\ngoarch: arm64\n\n"+rep("BenchmarkA 1 14 ns/op", 3)+"\ngoos: aix\n\n"+rep("BenchmarkA 1 16 ns/op", 3)+"\ngoos: zos\n\n"+rep("BenchmarkA 1 18 ns/op", 3)),
		// the same path twice and thrice, and a labelled + unlabelled mix
		func() *Case { c := mk(nil, rep("BenchmarkA 1 10 ns/op", 6)); c.Args = []string{"a.txt", "a.txt"}; return c }(),
		func() *Case { c := mk(nil, rep("BenchmarkA 1 10 ns/op", 6)); c.Args = []string{"a.txt", "a.txt", "a.txt"}; return c }(),
		func() *Case { c := mk(nil, rep("BenchmarkA 1 10 ns/op", 6)); c.Args = []string{"a.txt", "x=a.txt", "a.txt"}; return c }(),
		// unequal sample sizes: 10 baseline runs vs 6 faster and 7 slower runs
		mk(nil, "BenchmarkA 1 100 ns/op\nBenchmarkA 1 101 ns/op\nBenchmarkA 1 102 ns/op\nBenchmarkA 1 103 ns/op\nBenchmarkA 1 104 ns/op\nBenchmarkA 1 105 ns/op\nBenchmarkA 1 106 ns/op\nBenchmarkA 1 107 ns/op\nBenchmarkA 1 108 ns/op\nBenchmarkA 1 109 ns/op\n",
			"BenchmarkA 1 50 ns/op\nBenchmarkA 1 51 ns/op\nBenchmarkA 1 52 ns/op\nBenchmarkA 1 53 ns/op\nBenchmarkA 1 54 ns/op\nBenchmarkA 1 55 ns/op\n",
			"BenchmarkA 1 150 ns/op\nBenchmarkA 1 151 ns/op\nBenchmarkA 1 152 ns/op\nBenchmarkA 1 153 ns/op\nBenchmarkA 1 154 ns/op\nBenchmarkA 1 155 ns/op\nBenchmarkA 1 156 ns/op\n"),
		// a row with a zero and two magnitudes of different prefixes: the row scale is that of the smallest non-zero
		mk(nil, "BenchmarkA 1 0 B/op\nBenchmarkB 1 3221225472 B/op\n", "BenchmarkA 1 1536 B/op\nBenchmarkB 1 0 B/op\n", "BenchmarkA 1 3221225472 B/op\nBenchmarkB 1 1536 B/op\n"),
		mk(nil, "BenchmarkA 1 -1536 B/op\n", "BenchmarkA 1 2 B/op\n", "BenchmarkA 1 3221225472 B/op\n"),
		// a cell fed by more than 8 distinct residues, the second varying field arriving last
		func() *Case {
			var sb strings.Builder
			sb.WriteString("goos: linux\n")
			for b := 0; b < 8; b++ {
				fmt.Fprintf(&sb, "commit: k%02d\n\nBenchmarkFam/size=1 1 %d ns/op\n", b, 100+b)
				if b == 7 {
					sb.WriteString("BenchmarkFam/size=2 1 207 ns/op\n")
				}
				sb.WriteString("\n")
			}
			return mk([]string{"-table", "goos", "-row", ".name"}, sb.String())
		}(),
		func() *Case {
			var sb strings.Builder
			sb.WriteString("cpu: A\n\n")
			for sz := 1; sz <= 12; sz++ {
				fmt.Fprintf(&sb, "BenchmarkFam/size=%d 1 %d ns/op\n", sz, 100+sz)
			}
			sb.WriteString("\ncpu: B\n\nBenchmarkFam/size=3 1 150 ns/op\n")
			return mk([]string{"-table", "goos", "-row", ".name"}, sb.String())
		}(),
		// two fixed orders in one run: both lists filter
		mk([]string{"-row", "/a@(y x)", "-col", "/b@(2 1)"}, func() string {
			var sb strings.Builder
			for _, a := range []string{"x", "y", "z"} {
				for _, b := range []string{"1", "2", "3"} {
					fmt.Fprintf(&sb, "BenchmarkM/a=%s/b=%s 1 %d ns/op\n", a, b, 10+len(sb.String())%7)
				}
			}
			return sb.String()
		}()),
		// exactly 32 value/unit pairs on a line, filtered by unit
		func() *Case {
			var sb strings.Builder
			sb.WriteString("BenchmarkW 1")
			for u := 0; u < 32; u++ {
				fmt.Fprintf(&sb, " %d m%02d", 1+u, u)
			}
			c := mk([]string{"-filter", ".unit:m05"}, sb.String()+"\n")
			c.WantUnits = []string{"m05"}
			return c
		}(),
		// big tables (> 256 cells): 300 benchmarks x 6 runs in one column; a 20 x 13 sweep
		func() *Case {
			var sb strings.Builder
			for b := 0; b < 300; b++ {
				for run := 0; run < 6; run++ {
					fmt.Fprintf(&sb, "BenchmarkB%03d 1 %d ns/op\n", b, 100+b*3+(run*7)%11)
				}
			}
			c := mk(nil, sb.String())
			c.tag("bigtable")
			return c
		}(),
		func() *Case {
			var sb strings.Builder
			for run := 0; run < 2; run++ {
				for sz := 0; sz < 20; sz++ {
					for im := 0; im < 13; im++ {
						fmt.Fprintf(&sb, "BenchmarkSweep/size=%d/impl=i%02d 1 %d ns/op\n", 1<<uint(sz%10)+sz, im, 50+sz*13+im+run)
					}
				}
			}
			c := mk([]string{"-row", "/size", "-col", "/impl"}, sb.String())
			c.tag("bigtable")
			return c
		}(),
		// record-less inputs (empty; configuration only; PASS/ok only) at every position
		func() *Case {
			c := mk(nil, rep("BenchmarkA 1 10 ns/op", 3), "", rep("BenchmarkA 1 12 ns/op", 3))
			return c
		}(),
		func() *Case {
			c := mk(nil, "goos: linux\npkg: p\n", rep("BenchmarkA 1 10 ns/op", 3), rep("BenchmarkA 1 12 ns/op", 3))
			return c
		}(),
		func() *Case {
			c := mk(nil, rep("BenchmarkA 1 10 ns/op", 3), rep("BenchmarkA 1 12 ns/op", 3), "PASS\nok  \tp/a\t1.234s\n")
			c.Args = []string{"old=a.txt", "new=b.txt", "skip=c.txt"}
			return c
		}(),
		// exact assumption
		mk([]string{"-col", "note"}, "Unit text-bytes assume=exact\nnote: before\n\nBenchmarkSize 1 100 text-bytes\nBenchmarkN 1 100 text-bytes\nBenchmarkN 1 101 text-bytes\n\nnote: after\n\nBenchmarkSize 1 105 text-bytes\nBenchmarkN 1 101 text-bytes\n"),
	}
}

// genFixed2: TWO (or three) flags with fixed value orders in one run — each list is also a
// filter — with and without an explicit -filter.
func genFixed2(r *hx.Rand) *Case {
	c := &Case{}
	c.tag("fixed2")
	var sb strings.Builder
	sb.WriteString("goos: linux\n\n")
	for _, f := range []string{"json", "gob", "xml"} {
		for _, s := range []string{"1k", "2k", "10"} {
			for _, n := range []string{"Encode", "Decode"} {
				for i := 0; i < 1+r.Intn(3); i++ {
					fmt.Fprintf(&sb, "Benchmark%s/format=%s/size=%s 1 %d ns/op\n", n, f, s, 10+r.Intn(90))
				}
			}
		}
	}
	c.Files = []GenFile{{"a.txt", sb.String()}}
	c.Args = []string{"a.txt"}
	c.Flags = append(c.Flags, hx.Pick(r, [][]string{
		{"-row", "/format@(gob json)", "-col", "/size@(2k 1k)"},
		{"-table", "/format@(json)", "-row", ".name", "-col", "/size@(1k 2k)"},
		{"-row", "/format@(gob json)", "-col", "/size", "-ignore", ".name@(Encode)"},
		{"-row", "/format@(xml)", "-col", "/size@(10 1k)", "-table", ".name@(Decode Encode)"},
		{"-col", "/format@(json gob)", "-row", ".name@(Encode)", "-ignore", "/size@(1k)"},
		{"-table", "/size@(2k)", "-row", "/format@(gob xml json)", "-col", ".name"}})...)
	if r.Chance(1, 2) {
		c.Flags = append([]string{"-filter", hx.Pick(r, []string{"goos:linux", "-.name:Hash", "/size:(1k OR 2k OR 10)"})}, c.Flags...)
	}
	return c
}

// genWide: result lines with exactly 31, 32, 33, 64 or 96 value/unit pairs under -filter .unit terms.
func genWide(r *hx.Rand) *Case {
	c := &Case{}
	c.tag("wide")
	n := hx.Pick(r, []int{31, 32, 33, 64, 96, 32, 64})
	var sb strings.Builder
	for line := 0; line < 1+r.Intn(3); line++ {
		sb.WriteString("BenchmarkW 1")
		for u := 0; u < n; u++ {
			fmt.Fprintf(&sb, " %d m%02d", 1+u+line, u)
		}
		sb.WriteString("\n")
	}
	c.Files = []GenFile{{"a.txt", sb.String()}}
	c.Args = []string{"a.txt"}
	all := func(pred func(int) bool) []string {
		out := []string{}
		for u := 0; u < n; u++ {
			if pred(u) {
				out = append(out, fmt.Sprintf("m%02d", u))
			}
		}
		return out
	}
	k := r.Intn(n)
	last := n - 1
	switch r.Intn(5) {
	case 0:
		c.Flags = []string{"-filter", fmt.Sprintf(".unit:m%02d", k)}
		c.WantUnits = all(func(u int) bool { return u == k })
	case 1:
		c.Flags = []string{"-filter", fmt.Sprintf("-.unit:m%02d", k)}
		c.WantUnits = all(func(u int) bool { return u != k })
	case 2:
		c.Flags = []string{"-filter", fmt.Sprintf(".unit:(m00 OR m%02d)", last)}
		c.WantUnits = all(func(u int) bool { return u == 0 || u == last })
	case 3:
		c.Flags = []string{"-filter", fmt.Sprintf(".name:W AND -.unit:m%02d", last)}
		c.WantUnits = all(func(u int) bool { return u != last })
	default:
		c.Flags = []string{"-filter", "*"}
		c.WantUnits = all(func(u int) bool { return true })
	}
	return c
}

// genManyResidues: cells fed by MORE THAN 8 distinct residue keys, the field that varies last
// arriving late (eight or more `commit:` blocks, the last with two sizes; a 12-size family under
// cpu: A then one result under cpu: B), with -row .name style projections.
func genManyResidues(r *hx.Rand) *Case {
	c := &Case{}
	c.tag("manyres")
	var sb strings.Builder
	sb.WriteString("goos: linux\n")
	if r.Chance(1, 2) {
		nb := hx.Pick(r, []int{8, 8, 9, 10, 12})
		for b := 0; b < nb; b++ {
			fmt.Fprintf(&sb, "commit: k%02d\n\n", b)
			lines := []string{fmt.Sprintf("BenchmarkFam/size=1 1 %d ns/op", 100+b)}
			if b == nb-1 || r.Chance(1, 10) {
				lines = append(lines, fmt.Sprintf("BenchmarkFam/size=2 1 %d ns/op", 200+b))
			}
			if r.Bool() {
				lines[0], lines[len(lines)-1] = lines[len(lines)-1], lines[0]
			}
			sb.WriteString(strings.Join(lines, "\n") + "\n\n")
		}
		c.Flags = hx.Pick(r, [][]string{{"-table", "goos", "-row", ".name"}, {"-row", ".name", "-table", "goos", "-ignore", ".file"}, {"-table", "goos", "-row", ".name", "-col", ".file"}})
	} else {
		sb.WriteString("cpu: A\n\n")
		for sz := 1; sz <= 12; sz++ {
			fmt.Fprintf(&sb, "BenchmarkFam/size=%d 1 %d ns/op\n", sz, 100+sz)
		}
		sb.WriteString("\ncpu: B\n\n")
		fmt.Fprintf(&sb, "BenchmarkFam/size=%d 1 150 ns/op\n", 1+r.Intn(12))
		c.Flags = hx.Pick(r, [][]string{{"-table", "goos", "-row", ".name"}, {"-row", ".name", "-table", ""}})
	}
	c.Files = []GenFile{{"a.txt", sb.String()}}
	c.Args = []string{"a.txt"}
	return c
}

// genRecordless: 2-4 inputs of which one or two yield NO record (0 bytes; configuration lines
// only; `PASS` / `ok` lines only), at any position, labelled or not.
func genRecordless(r *hx.Rand) *Case {
	c := &Case{}
	c.tag("recordless")
	n := 2 + r.Intn(3)
	names := []string{"a.txt", "b.txt", "c.txt", "d.txt"}
	empties := map[int]bool{r.Intn(n): true}
	if n > 2 && r.Chance(1, 3) {
		empties[r.Intn(n)] = true
	}
	for i := 0; i < n; i++ {
		content := ""
		if empties[i] {
			content = hx.Pick(r, []string{"", "goos: linux\ngoarch: amd64\npkg: p/a\n", "PASS\nok  \tp/a\t0.5s\n", "goos: linux\nPASS\n", "\n\n"})
		} else {
			var sb strings.Builder
			if r.Bool() {
				sb.WriteString("goos: linux\n\n")
			}
			for _, b := range []string{"A", "B"} {
				for k := 0; k < 1+r.Intn(4); k++ {
					fmt.Fprintf(&sb, "Benchmark%s 1 %d ns/op\n", b, 10+i*3+r.Intn(5))
				}
			}
			content = sb.String()
		}
		c.Files = append(c.Files, GenFile{names[i], content})
		if r.Chance(1, 4) {
			c.Args = append(c.Args, fmt.Sprintf("L%d=%s", i, names[i]))
		} else {
			c.Args = append(c.Args, names[i])
		}
	}
	if r.Chance(1, 3) {
		c.Flags = hx.Pick(r, [][]string{{"-row", ".name"}, {"-col", ".file@alpha"}, {"-ignore", "goos"}})
	}
	return c
}
