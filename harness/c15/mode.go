//go:build verif

package main

// see harness/c14/mode.go; the other .go files of this directory are copies made by sync.sh.
const prop = "C15"

const (
	quickCases    = 160
	thoroughCases = 800
)
