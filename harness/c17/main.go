//go:build verif

// C17 harness: the legacy benchstat library (golang.org/x/perf/benchstat) observed through its
// public API: Collection.AddResults, Collection.Tables() (called twice per case), FormatText,
// FormatCSV.  The number parsers (strconv.Atoi/ParseFloat), the significance test and
// stats.GeoMean are recorded on the case line as data for the model (their correctness is the
// concern of C03, C11/C12 and libm).
package main

import (
	"bytes"
	"errors"
	"fmt"
	"math"
	"os"
	"sort"
	"strconv"
	"strings"
	"syscall"
	"time"
	"unicode"

	"golang.org/x/perf/benchstat"
	"golang.org/x/perf/internal/stats"
	"golang.org/x/perf/internal/verifh/hx"
	"golang.org/x/perf/storage/benchfmt"
)

func canon(f float64) string {
	if math.IsNaN(f) {
		return "7ff8000000000001"
	}
	return hx.F64(f)
}

func canonZ(f float64) string {
	if f == 0 {
		return hx.F64(0)
	}
	return canon(f)
}

func bitsList(xs []float64, sep string) string {
	parts := make([]string, len(xs))
	for i, x := range xs {
		parts[i] = canon(x)
	}
	return strings.Join(parts, sep)
}

func bitsListD(xs []float64) string {
	if len(xs) == 0 {
		return "-"
	}
	return bitsList(xs, ",")
}

// ---------------------------------------------------------------- case description

type result struct {
	cfg     int
	content string
	nl, lb  map[string]string
}

type tcase struct {
	alpha   float64
	geo     bool
	split   []string
	order   string // "-", "n", "d", "rn", "rd", "rrn", ...
	test    string // "-", "u", "t", "n", "c"
	cfgs    []string
	results []result
	tags    map[string]bool
	noguard bool // the non-finite family runs the real tests unguarded (a hang becomes a crash line)
}

var errCustom = errors.New("boom: custom")

func customTest(old, new *benchstat.Metrics) (float64, error) {
	if len(old.RValues) < 3 {
		return 0.5, errCustom
	}
	return benchstat.UTest(old, new)
}

var errNaNRetained = errors.New("NaN among the retained values")

// guard wraps a DeltaTest: stats.MannWhitneyUTest does not terminate when a sample contains NaN
// (its tie-counting loop compares merged[i] == v1).  NaN can never be among RValues on a correct
// computeStats (NaN fails the fence test), so the guard is inert there; if NaN does get through,
// the row shows this error instead of hanging the run and the S judge reports the retained values.
func guard(t benchstat.DeltaTest) benchstat.DeltaTest {
	if os.Getenv("VERIF_C17_NOGUARD") != "" { // self-test of the per-case time limit
		return t
	}
	return func(old, new *benchstat.Metrics) (float64, error) {
		for _, v := range old.RValues {
			if math.IsNaN(v) {
				return -1, errNaNRetained
			}
		}
		for _, v := range new.RValues {
			if math.IsNaN(v) {
				return -1, errNaNRetained
			}
		}
		return t(old, new)
	}
}

func (tc *tcase) hasNaNInput() bool {
	for _, r := range tc.results {
		for _, f := range strings.Fields(r.content) {
			if v, err := strconv.ParseFloat(f, 64); err == nil && math.IsNaN(v) {
				return true
			}
		}
	}
	return false
}

func (tc *tcase) deltaTest() benchstat.DeltaTest {
	if tc.noguard {
		switch tc.test {
		case "u":
			return benchstat.UTest
		case "t":
			return benchstat.TTest
		case "n":
			return benchstat.NoDeltaTest
		}
		return nil
	}
	switch tc.test {
	case "u":
		return guard(benchstat.UTest)
	case "t":
		return guard(benchstat.TTest)
	case "n":
		return benchstat.NoDeltaTest
	case "c":
		return guard(customTest)
	}
	// "-": leave DeltaTest nil (the default, UTest) unless the input contains a NaN value
	if tc.hasNaNInput() {
		return guard(benchstat.UTest)
	}
	return nil
}

func mkOrder(s string) benchstat.Order {
	if s == "-" || s == "" {
		return nil
	}
	var o benchstat.Order
	switch s[len(s)-1] {
	case 'n':
		o = benchstat.ByName
	default:
		o = benchstat.ByDelta
	}
	for i := 0; i < len(s)-1; i++ {
		o = benchstat.Reverse(o)
	}
	return o
}

func (tc *tcase) collection() *benchstat.Collection {
	c := &benchstat.Collection{Alpha: tc.alpha, AddGeoMean: tc.geo, SplitBy: tc.split,
		DeltaTest: tc.deltaTest(), Order: mkOrder(tc.order)}
	byCfg := make([][]*benchfmt.Result, len(tc.cfgs))
	for _, r := range tc.results {
		byCfg[r.cfg] = append(byCfg[r.cfg], &benchfmt.Result{Content: r.content,
			NameLabels: benchfmt.Labels(r.nl), Labels: benchfmt.Labels(r.lb)})
	}
	for i, name := range tc.cfgs {
		c.AddResults(name, byCfg[i])
	}
	return c
}

func labelStr(m map[string]string) string {
	keys := make([]string, 0, len(m))
	for k := range m {
		keys = append(keys, k)
	}
	sort.Strings(keys)
	parts := make([]string, len(keys))
	for i, k := range keys {
		parts[i] = hx.HexS(k) + "." + hx.HexS(m[k])
	}
	return strings.Join(parts, ";")
}

// ---------------------------------------------------------------- dumps

func dedup(ss []string) []string {
	var out []string
	seen := map[string]bool{}
	for _, s := range ss {
		if !seen[s] {
			seen[s] = true
			out = append(out, s)
		}
	}
	return out
}

func quart(vals []float64) string {
	s := stats.Sample{Xs: vals}
	return canonZ(s.Percentile(0.25)) + "." + canonZ(s.Percentile(0.75))
}

func dumpMetric(m *benchstat.Metrics) string {
	return fmt.Sprintf("%s:%d:%s:%s:%s:%s", hx.HexS(m.Unit), len(m.Values), bitsList(m.RValues, "."),
		canon(m.Min), canon(m.Mean), canon(m.Max))
}

// dump prints the obs lines of one Tables() call.
func dump(id int, call int, c *benchstat.Collection, tables []*benchstat.Table) []string {
	var out []string
	var bm []string
	for _, g := range c.Groups {
		bm = append(bm, hx.HexS(g)+":"+strings.Join(hexEach(c.Benchmarks[g]), "."))
	}
	out = append(out, fmt.Sprintf("hdr configs=%s groups=%s units=%s bm=%s nt=%d", hx.HexListS(c.Configs), hx.HexListS(c.Groups),
		hx.HexListS(c.Units), strings.Join(bm, ";"), len(tables)))
	for _, cfg := range dedup(c.Configs) {
		for _, u := range c.Units {
			for _, g := range c.Groups {
				for _, b := range c.Benchmarks[g] {
					m := c.Metrics[benchstat.Key{Config: cfg, Group: g, Benchmark: b, Unit: u}]
					if m == nil {
						continue
					}
					out = append(out, fmt.Sprintf("m cfg=%s g=%s b=%s u=%s vals=%s rv=%s min=%s mean=%s max=%s q=%s",
						hx.HexS(cfg), hx.HexS(g), hx.HexS(b), hx.HexS(u), bitsListD(m.Values), bitsListD(m.RValues),
						canon(m.Min), canon(m.Mean), canon(m.Max), quart(m.Values)))
				}
			}
		}
	}
	for i, t := range tables {
		ond := 0
		if t.OldNewDelta {
			ond = 1
		}
		unit := ""
		if i < len(tableUnits(c, tables)) {
			unit = tableUnits(c, tables)[i]
		}
		out = append(out, fmt.Sprintf("t=%d unit=%s metric=%s ond=%d cfgs=%s grps=%s nrows=%d", i, hx.HexS(unit), hx.HexS(t.Metric), ond,
			hx.HexListS(t.Configs), hx.HexListS(t.Groups), len(t.Rows)))
		for j, r := range t.Rows {
			ms := make([]string, len(r.Metrics))
			for k, m := range r.Metrics {
				ms[k] = dumpMetric(m)
			}
			fm := make([]string, len(r.Metrics))
			for k, m := range r.Metrics {
				fm[k] = hx.HexS(m.Format(r.Scaler))
			}
			out = append(out, fmt.Sprintf("t=%d r=%d b=%s g=%s ms=%s pd=%s d=%s n=%s c=%d fm=%s", i, j, hx.HexS(r.Benchmark), hx.HexS(r.Group),
				strings.Join(ms, ";"), canon(r.PctDelta), hx.HexS(r.Delta), hx.HexS(r.Note), r.Change, strings.Join(fm, ";")))
		}
	}
	return out
}

func hexEach(ss []string) []string {
	out := make([]string, len(ss))
	for i, s := range ss {
		out[i] = hx.HexS(s)
	}
	return out
}

// tableUnits recovers the unit of each returned table: the Table does not name it, but every
// non-geomean row's non-empty metric carries it; fall back to matching Metric names in unit order.
func tableUnits(c *benchstat.Collection, tables []*benchstat.Table) []string {
	out := make([]string, len(tables))
	for i, t := range tables {
		for _, r := range t.Rows {
			for _, m := range r.Metrics {
				if m.Unit != "" {
					out[i] = m.Unit
				}
			}
		}
	}
	return out
}

// ---------------------------------------------------------------- oracles recorded for the model

type oracle struct {
	tests map[string]string
	tkeys []string
	geos  map[string]string
	gkeys []string
}

func newOracle() *oracle { return &oracle{tests: map[string]string{}, geos: map[string]string{}} }

func (o *oracle) record(c *benchstat.Collection) {
	dt := c.DeltaTest
	if dt == nil {
		dt = benchstat.UTest
	}
	for _, u := range c.Units {
		if len(c.Configs) == 2 {
			for _, g := range c.Groups {
				for _, b := range c.Benchmarks[g] {
					old := c.Metrics[benchstat.Key{Config: c.Configs[0], Group: g, Benchmark: b, Unit: u}]
					new := c.Metrics[benchstat.Key{Config: c.Configs[1], Group: g, Benchmark: b, Unit: u}]
					if old == nil || new == nil {
						continue
					}
					k := bitsList(old.RValues, ".") + "/" + bitsList(new.RValues, ".")
					if _, ok := o.tests[k]; ok {
						continue
					}
					p, err := dt(old, new)
					var res string
					switch err {
					case nil:
						res = "p" + canon(p)
					case benchstat.ErrZeroVariance:
						res = "z"
					case benchstat.ErrSampleSize:
						res = "s"
					case benchstat.ErrSamplesEqual:
						res = "e"
					default:
						res = "o" + hx.HexS(err.Error())
					}
					o.tests[k] = res
					o.tkeys = append(o.tkeys, k)
				}
			}
		}
		for _, cfg := range c.Configs {
			var means []float64
			for _, g := range c.Groups {
				for _, b := range c.Benchmarks[g] {
					m := c.Metrics[benchstat.Key{Config: cfg, Group: g, Benchmark: b, Unit: u}]
					if m != nil && m.Mean != 0 {
						means = append(means, m.Mean)
					}
				}
			}
			if len(means) == 0 {
				continue
			}
			k := bitsList(means, ".")
			if _, ok := o.geos[k]; ok {
				continue
			}
			o.geos[k] = canon(stats.GeoMean(means))
			o.gkeys = append(o.gkeys, k)
		}
	}
}

func (o *oracle) String() (string, string) {
	var ts, gs []string
	for _, k := range o.tkeys {
		ts = append(ts, k+"="+o.tests[k])
	}
	for _, k := range o.gkeys {
		gs = append(gs, k+"="+o.geos[k])
	}
	t, g := strings.Join(ts, ","), strings.Join(gs, ",")
	if t == "" {
		t = "-"
	}
	if g == "" {
		g = "-"
	}
	return t, g
}

// ---------------------------------------------------------------- running one case

// caseLimit is the wall-clock limit of one case inside the real code.  A case that does not come
// back is reported as `crash <id> timeout …`; the runaway goroutine cannot be stopped, so the
// harness flushes its output and re-executes itself, resuming at the next case id (the PRNG
// stream is regenerated, so the remaining cases are the same).  At most maxTimeouts re-executions
// happen per shard; then the shard stops.
const caseLimit = 3 * time.Second
const maxTimeouts = 8

type caseOut struct {
	lines   []string
	crashed string
}

// inputLine is the case line of a case that produced no output (panic, timeout): inputs only.
func inputLine(id int, tc *tcase) string {
	var rs []string
	for _, r := range tc.results {
		rs = append(rs, fmt.Sprintf("%d:%s:%s:%s", r.cfg, hx.HexS(r.content), labelStr(r.nl), labelStr(r.lb)))
	}
	res := "-"
	if len(rs) > 0 {
		res = strings.Join(rs, ",")
	}
	return fmt.Sprintf("case %d crashed=1 alpha=%s geo=%d split=%s order=%s test=%s cfgs=%s res=%s tag=crash",
		id, hx.F64(tc.alpha), b2i(tc.geo), hx.HexListS(tc.split), tc.order, tc.test, hx.HexListS(tc.cfgs), res)
}

func runCase(id int, tc *tcase) {
	done := make(chan caseOut, 1)
	go func() { done <- execCase(id, tc) }()
	select {
	case out := <-done:
		if out.crashed != "" {
			hx.Printf("%s\n", inputLine(id, tc))
			hx.Printf("crash %d %s\n", id, strings.ReplaceAll(out.crashed, "\n", " "))
			return
		}
		for _, l := range out.lines {
			hx.Printf("%s\n", l)
		}
	case <-time.After(caseLimit):
		hx.Printf("%s\n", inputLine(id, tc))
		hx.Printf("crash %d timeout: the case did not finish within %s (hang inside Collection.Tables / FormatText / FormatCSV)\n", id, caseLimit)
		hx.Flush()
		nt, _ := strconv.Atoi(os.Getenv("VERIF_C17_TIMEOUTS"))
		nt++
		if nt >= maxTimeouts {
			fmt.Fprintf(os.Stderr, "c17: %d cases timed out in this shard; stopping the shard at case %d\n", nt, id)
			os.Exit(0)
		}
		os.Setenv("VERIF_C17_TIMEOUTS", strconv.Itoa(nt))
		os.Setenv("VERIF_C17_RESUME", strconv.Itoa(id+1))
		exe, err := os.Executable()
		if err == nil {
			err = syscall.Exec(exe, os.Args, os.Environ())
		}
		fmt.Fprintf(os.Stderr, "c17: cannot re-execute after a timeout: %v\n", err)
		os.Exit(0)
	}
}

func execCase(id int, tc *tcase) (out caseOut) {
	var lines []string
	crashed := ""
	func() {
		defer func() {
			if e := recover(); e != nil {
				crashed = fmt.Sprint(e)
			}
		}()
		if tc.noguard {
			// pre-flight with the guarded tests: if NaN got among the retained values the real
			// U test would not return; keep the guard then (the judge reports `nan-retained`),
			// otherwise run the real, unguarded tests.
			tc.noguard = false
			c0 := tc.collection()
			c0.Tables()
			safe := true
			for _, m := range c0.Metrics {
				for _, v := range m.RValues {
					if math.IsNaN(v) {
						safe = false
					}
				}
			}
			tc.noguard = safe
			if !safe {
				tc.tags["nan-retained-guarded"] = true
			}
		}
		c := tc.collection()
		o := newOracle()
		t1 := c.Tables()
		o.record(c)
		d1 := dump(id, 1, c, t1)
		var tb, cb, cnb bytes.Buffer
		benchstat.FormatText(&tb, t1)
		benchstat.FormatCSV(&cb, t1, false)
		benchstat.FormatCSV(&cnb, t1, true)
		t2 := c.Tables()
		o.record(c)
		d2 := dump(id, 2, c, t2)

		// number table: every field of every content line
		var nums []string
		seen := map[string]bool{}
		for _, r := range tc.results {
			for _, f := range strings.Fields(r.content) {
				if seen[f] {
					continue
				}
				seen[f] = true
				n, _ := strconv.Atoi(f)
				pf := "!"
				if v, err := strconv.ParseFloat(f, 64); err == nil {
					pf = canon(v)
				}
				nums = append(nums, fmt.Sprintf("%s:%d:%s", hx.HexS(f), n, pf))
			}
		}
		var rs []string
		for _, r := range tc.results {
			rs = append(rs, fmt.Sprintf("%d:%s:%s:%s", r.cfg, hx.HexS(r.content), labelStr(r.nl), labelStr(r.lb)))
		}
		// tags
		for _, d := range d1 {
			if strings.HasPrefix(d, "m ") {
				v, _ := hx.Field(d, "vals")
				rv, _ := hx.Field(d, "rv")
				if v != rv {
					tc.tags["outlier"] = true
				}
			}
			if strings.Contains(d, " r=") {
				if dd, _ := hx.Field(d, "d"); dd != "" && dd != hx.HexS("~") {
					tc.tags["sig"] = true
				} else if dd == hx.HexS("~") {
					tc.tags["insig"] = true
				}
				if strings.Contains(d, "ms=:0::") || strings.Contains(d, ";:0::") {
					tc.tags["missing"] = true
				}
				if bb, _ := hx.Field(d, "b"); bb == hx.HexS("[Geo mean]") {
					tc.tags["geomean"] = true
				}
			}
		}
		tc.tags[fmt.Sprintf("nc%d", len(tc.cfgs))] = true
		if len(tc.split) > 0 {
			tc.tags["split"] = true
		}
		if tc.order != "-" {
			tc.tags["order-"+tc.order] = true
		}
		tc.tags["test-"+tc.test] = true
		var tags []string
		for t := range tc.tags {
			tags = append(tags, t)
		}
		sort.Strings(tags)
		ts, gs := o.String()
		join := func(ss []string) string {
			if len(ss) == 0 {
				return "-"
			}
			return strings.Join(ss, ",")
		}
		lines = append(lines, fmt.Sprintf("case %d alpha=%s geo=%d split=%s order=%s test=%s cfgs=%s res=%s nums=%s tests=%s geos=%s tag=%s",
			id, hx.F64(tc.alpha), b2i(tc.geo), hx.HexListS(tc.split), tc.order, tc.test, hx.HexListS(tc.cfgs),
			join(rs), join(nums), ts, gs, strings.Join(tags, "+")))
		for _, d := range d1 {
			lines = append(lines, fmt.Sprintf("obs %d call=1 %s", id, d))
		}
		for _, d := range d2 {
			lines = append(lines, fmt.Sprintf("obs %d call=2 %s", id, d))
		}
		lines = append(lines, fmt.Sprintf("obs %d text=%s", id, hx.Hex(tb.Bytes())))
		lines = append(lines, fmt.Sprintf("obs %d csv=%s", id, hx.Hex(cb.Bytes())))
		lines = append(lines, fmt.Sprintf("obs %d csvnr=%s", id, hx.Hex(cnb.Bytes())))
		lines = append(lines, fmt.Sprintf("sobs %d stats1=ok stats2=ok tabs1=ok tabs2=ok same=1 viaconfig=%d hist=%s", id, viaConfig(id, tc, d1), history(id, tc, d1)))
	}()
	return caseOut{lines: lines, crashed: crashed}
}



// history: stateful-API / aliasing family, judged on the implementation alone (the spec line
// demands hist=ok).  d1 is the dump of a fresh collection that got all data before its first Tables().
//   incremental: one config added at a time with a Tables() call after each addition — the final
//                dump (values in input order, retained values, statistics, tables) equals d1;
//   options:     Order/AddGeoMean/Alpha/DeltaTest changed, Tables(), restored, Tables() — equals d1;
//   render:      text, CSV, HTML, text on one result vs CSV, HTML, text on a fresh one — same bytes,
//                and the collection dumps the same afterwards.
func history(id int, tc *tcase, d1 []string) string {
	same := func(a, b []string) bool {
		if len(a) != len(b) {
			return false
		}
		for i := range a {
			if a[i] != b[i] {
				return false
			}
		}
		return true
	}
	byCfg := make([][]*benchfmt.Result, len(tc.cfgs))
	for _, r := range tc.results {
		byCfg[r.cfg] = append(byCfg[r.cfg], &benchfmt.Result{Content: r.content,
			NameLabels: benchfmt.Labels(r.nl), Labels: benchfmt.Labels(r.lb)})
	}
	c := &benchstat.Collection{Alpha: tc.alpha, AddGeoMean: tc.geo, SplitBy: tc.split,
		DeltaTest: tc.deltaTest(), Order: mkOrder(tc.order)}
	for i, name := range tc.cfgs {
		c.AddResults(name, byCfg[i])
		c.Tables()
	}
	if !same(dump(id, 1, c, c.Tables()), d1) {
		return "incremental"
	}
	c.Order, c.AddGeoMean, c.Alpha, c.DeltaTest = benchstat.Reverse(benchstat.ByDelta), !tc.geo, 0.9, guard(benchstat.TTest)
	c3 := tc.collection()
	c3.Order, c3.AddGeoMean, c3.Alpha, c3.DeltaTest = benchstat.Reverse(benchstat.ByDelta), !tc.geo, 0.9, guard(benchstat.TTest)
	if !same(dump(id, 1, c, c.Tables()), dump(id, 1, c3, c3.Tables())) { // the changed options take effect as on a fresh collection
		return "options-changed"
	}
	c.Order, c.AddGeoMean, c.Alpha, c.DeltaTest = mkOrder(tc.order), tc.geo, tc.alpha, tc.deltaTest()
	if !same(dump(id, 1, c, c.Tables()), d1) {
		return "options"
	}
	t := c.Tables()
	var ta, ca, ha, tb bytes.Buffer
	benchstat.FormatText(&ta, t)
	benchstat.FormatCSV(&ca, t, false)
	benchstat.FormatHTML(&ha, t)
	benchstat.FormatText(&tb, t)
	c2 := tc.collection()
	t2 := c2.Tables()
	var t2b, c2b, h2b bytes.Buffer
	benchstat.FormatCSV(&c2b, t2, false)
	benchstat.FormatHTML(&h2b, t2)
	benchstat.FormatText(&t2b, t2)
	if !bytes.Equal(ta.Bytes(), tb.Bytes()) || !bytes.Equal(ta.Bytes(), t2b.Bytes()) ||
		!bytes.Equal(ca.Bytes(), c2b.Bytes()) || !bytes.Equal(ha.Bytes(), h2b.Bytes()) {
		return "render"
	}
	if !same(dump(id, 1, c, c.Tables()), d1) {
		return "render-state"
	}
	return "ok"
}

// viaConfig feeds the same lines through Collection.AddConfig (the benchfmt reader path) and reports
// whether Tables() gives the same dump as through AddResults.  Applicable when no result carries labels
// (SplitBy empty) and no line starts with white space (the reader takes the name up to the first space).
func viaConfig(id int, tc *tcase, d1 []string) int {
	if len(tc.split) > 0 {
		return 1
	}
	for _, r := range tc.results {
		if r.content == "" || strings.TrimLeftFunc(r.content, unicode.IsSpace) != r.content || strings.ContainsAny(r.content, "\n\r") {
			return 1
		}
	}
	c := &benchstat.Collection{Alpha: tc.alpha, AddGeoMean: tc.geo, DeltaTest: tc.deltaTest(), Order: mkOrder(tc.order)}
	for i, name := range tc.cfgs {
		var sb strings.Builder
		for _, r := range tc.results {
			if r.cfg == i {
				sb.WriteString(r.content)
				sb.WriteString("\n")
			}
		}
		data := []byte(sb.String())
		keep := append([]byte(nil), data...)
		c.AddConfig(name, data)
		c.Tables()
		if !bytes.Equal(data, keep) { // in=kept: the caller's buffer is neither retained nor modified
			return 0
		}
	}
	d := dump(id, 1, c, c.Tables())
	if len(d) != len(d1) {
		return 0
	}
	for i := range d {
		if d[i] != d1[i] {
			return 0
		}
	}
	return 1
}

func b2i(b bool) int {
	if b {
		return 1
	}
	return 0
}

// ---------------------------------------------------------------- generators

var benchNames = []string{"BenchmarkFoo", "BenchmarkBar-8", "BenchmarkBaz/sub=1-4", "BenchmarkQux-16", "BenchmarkA", "BenchmarkZ-2",
	"BenchmarkMid", "Benchmark", "BenchmarkÜber-8", "Benchmarkfoo", "BenchmarkFoo-8"}
var junkLines = []string{"PASS", "ok  \tpkg\t1.2s", "benchmarkLower 1 2 ns/op", "BenchmarkShort 1 2", "goos: linux", "", "   ",
	"NotABenchmark 10 20 ns/op 3 B/op", "BenchmarkOdd 5 7 ns/op 9"}
var unitPool = []string{"ns/op", "MB/s", "B/op", "allocs/op", "ns/GC", "widgets", "x-MB/s", "speed", "custom-ns/op", "bytes", "y-B/op", "µs/frob",
	"7", "1e3", "NaN"} // units that parse as numbers: the value/unit pairing must still advance by two fields
var cfgPool = []string{"old.txt", "new.txt", "a", "b", "dir/one.txt", "dir/two.txt", ""}
var seps = []string{" ", " ", " ", " ", "\t", "  ", " \t ", " ", " "}

func fmtVal(r *hx.Rand, v float64) string {
	switch r.Intn(6) {
	case 0:
		return strconv.FormatFloat(v, 'g', -1, 64)
	case 1:
		return strconv.FormatFloat(v, 'f', 2, 64)
	case 2:
		return strconv.FormatFloat(v, 'e', 4, 64)
	default:
		return strconv.FormatFloat(v, 'f', r.Intn(4), 64)
	}
}

var oddVals = []string{"NaN", "+Inf", "-Inf", "1e400", "abc", "-0", "0x1p-2", "1_000", "0", "0.0", "1e-320", "-5", "1e300", "inf", ".5", "5.", "1e+06", "٣"}

type benchPlan struct {
	name   string
	units  []string
	base   []float64
	kind   int // 0 noisy, 1 constant, 2 small integers, 3 zeros, 4 negative, 5 mixed sign
	labels map[string]string
	nl     map[string]string
}

func genCase(r *hx.Rand) *tcase {
	tc := &tcase{tags: map[string]bool{}}
	// settings
	switch r.Intn(8) {
	case 0:
		tc.alpha = 0.05
	case 1:
		tc.alpha = 0.01
	case 2:
		tc.alpha = 0.5
	case 3:
		tc.alpha = hx.Pick(r, []float64{1, 1, 1, 2, 1e-9, -2, math.Copysign(0, -1), 0.2})
	default:
		tc.alpha = 0
	}
	tc.geo = r.Bool()
	switch r.Intn(6) {
	case 0:
		tc.split = []string{"pkg"}
	case 1:
		tc.split = []string{"goos", "pkg"}
	case 2:
		tc.split = []string{"size"}
	}
	tc.order = hx.Pick(r, []string{"-", "-", "-", "n", "d", "rn", "rd", "rrn", "rrd", "d"})
	tc.test = hx.Pick(r, []string{"-", "-", "u", "t", "t", "n", "c"})
	// configs
	nc := hx.Pick(r, []int{1, 2, 2, 2, 2, 2, 3, 4})
	names := append([]string(nil), cfgPool...)
	for i := 0; i < nc; i++ {
		j := i + r.Intn(len(names)-i)
		names[i], names[j] = names[j], names[i]
		tc.cfgs = append(tc.cfgs, names[i])
	}
	if nc >= 2 && r.Chance(1, 16) { // the same config name twice
		tc.cfgs[1] = tc.cfgs[0]
		tc.tags["dupcfg"] = true
	}
	// benchmarks
	nb := 1 + r.Intn(6)
	if r.Chance(1, 12) {
		nb = 18 + r.Intn(10) // more than one insertion-sort block of sort.SliceStable
		tc.tags["manyrows"] = true
	}
	var plans []benchPlan
	for i := 0; i < nb; i++ {
		p := benchPlan{name: hx.Pick(r, benchNames)}
		if nb > 6 || r.Chance(1, 3) {
			p.name = fmt.Sprintf("Benchmark%c%d", 'A'+r.Intn(26), r.Intn(40))
			if r.Bool() {
				p.name += fmt.Sprintf("-%d", 1<<uint(r.Intn(5)))
			}
		}
		nu := 1 + r.Intn(3)
		for j := 0; j < nu; j++ {
			if r.Chance(2, 3) {
				p.units = append(p.units, unitPool[r.Intn(4)])
			} else {
				p.units = append(p.units, hx.Pick(r, unitPool))
			}
			b := math.Round(math.Exp(r.Float()*14)*100) / 100
			if r.Chance(1, 3) { // spread over every range of the scalers: ns..s, unit..T
				b *= math.Pow(10, float64(r.Intn(9)))
			}
			p.base = append(p.base, b)
		}
		p.kind = hx.Pick(r, []int{0, 0, 0, 0, 1, 2, 2, 3, 4, 5})
		if len(tc.split) > 0 {
			p.labels = map[string]string{}
			p.nl = map[string]string{}
			if r.Chance(3, 4) {
				p.labels["pkg"] = hx.Pick(r, []string{"p/one", "p/two", ""})
			}
			if r.Chance(1, 2) {
				p.labels["goos"] = hx.Pick(r, []string{"linux", "darwin"})
			}
			if r.Chance(1, 2) {
				p.nl["size"] = hx.Pick(r, []string{"10", "1k"})
			}
			if r.Chance(1, 4) {
				p.nl["pkg"] = "fromname"
			}
			if r.Chance(1, 4) {
				p.labels["size"] = "lbl"
			}
		}
		plans = append(plans, p)
	}
	// per config factor (so that some comparisons are significant)
	for ci := range tc.cfgs {
		factor := 1.0
		if ci > 0 {
			factor = hx.Pick(r, []float64{1, 1, 0.5, 0.9, 1.1, 2, 1.02, 0.98})
		}
		if r.Chance(1, 20) {
			continue // a config without any result
		}
		var lines []result
		for _, p := range plans {
			if r.Chance(1, 6) {
				continue // benchmark missing in this config
			}
			reps := hx.Pick(r, []int{1, 2, 3, 4, 5, 5, 5, 6, 8, 10, 12})
			pf := factor
			if r.Chance(1, 4) {
				pf = 1
			}
			for k := 0; k < reps; k++ {
				var sb strings.Builder
				if r.Chance(1, 20) {
					sb.WriteString(hx.Pick(r, seps))
				}
				sb.WriteString(p.name)
				sb.WriteString(hx.Pick(r, seps))
				switch r.Intn(40) {
				case 0:
					sb.WriteString("0")
				case 1:
					sb.WriteString("x")
				case 2:
					sb.WriteString("99999999999999999999")
				case 3:
					sb.WriteString("-3")
				case 4:
					sb.WriteString("+7")
				default:
					sb.WriteString(strconv.Itoa(1 + r.Intn(100000)))
				}
				for j, u := range p.units {
					if r.Chance(1, 12) {
						continue // this unit missing on this line
					}
					var v float64
					switch p.kind {
					case 0:
						v = p.base[j] * pf * (1 + (r.Float()-0.5)*0.06)
						if r.Chance(1, 8) {
							v *= hx.Pick(r, []float64{3, 0.2, 1.5, 10})
						}
					case 1:
						v = p.base[j] * pf
					case 2:
						v = float64(int(p.base[j])%7+r.Intn(5)) * float64(int(pf*2))
						if r.Chance(1, 10) {
							v += 12
						}
					case 3:
						v = 0
						if r.Chance(1, 5) {
							v = float64(r.Intn(3))
						}
					case 4:
						v = -p.base[j] * pf * (1 + (r.Float()-0.5)*0.06)
					default:
						v = (r.Float() - 0.5) * p.base[j] * pf
					}
					sb.WriteString(hx.Pick(r, seps))
					if r.Chance(1, 40) {
						sb.WriteString(hx.Pick(r, oddVals))
					} else if p.kind == 1 {
						sb.WriteString(strconv.FormatFloat(v, 'g', -1, 64)) // constants stay constant (zero variance)
					} else {
						sb.WriteString(fmtVal(r, v))
					}
					sb.WriteString(hx.Pick(r, seps))
					sb.WriteString(u)
				}
				if r.Chance(1, 25) {
					sb.WriteString(" 17") // dangling value without unit
				}
				if r.Chance(1, 30) {
					sb.WriteString(" ")
				}
				res := result{cfg: ci, content: sb.String(), nl: p.nl, lb: p.labels}
				if len(tc.split) > 0 && r.Chance(1, 10) { // label changes from line to line
					res.lb = map[string]string{"pkg": "p/three"}
				}
				lines = append(lines, res)
			}
			if r.Chance(1, 10) {
				lines = append(lines, result{cfg: ci, content: hx.Pick(r, junkLines)})
			}
		}
		if r.Chance(1, 3) { // interleave: shuffle lightly so that repeated benchmarks are not contiguous
			for k := 0; k < len(lines)/2; k++ {
				a, b := r.Intn(len(lines)), r.Intn(len(lines))
				lines[a], lines[b] = lines[b], lines[a]
			}
			tc.tags["interleaved"] = true
		}
		tc.results = append(tc.results, lines...)
	}
	return tc
}


// genNonFinite: the family of NaN / ±Inf measurement values ("NaN", "Inf" are accepted by
// strconv.ParseFloat).  Small collections, every value non-finite with probability ~1/3, the real
// UTest / TTest unguarded: stats.MannWhitneyUTest does not terminate on a sample containing NaN,
// so if NaN ever reached RValues the case would hit the per-case time limit and be reported as a
// crash line.
func genNonFinite(r *hx.Rand) *tcase {
	tc := &tcase{tags: map[string]bool{"nonfinite": true}, noguard: true}
	tc.alpha = hx.Pick(r, []float64{0, 0.05, 1})
	tc.geo = r.Bool()
	tc.order = hx.Pick(r, []string{"-", "-", "n", "d", "rd"})
	tc.test = hx.Pick(r, []string{"-", "u", "u", "t", "t", "n"})
	nc := hx.Pick(r, []int{1, 2, 2, 2, 3})
	for i := 0; i < nc; i++ {
		tc.cfgs = append(tc.cfgs, []string{"old", "new", "third"}[i])
	}
	nb := 1 + r.Intn(3)
	texts := []string{"NaN", "nan", "+Inf", "-Inf", "Inf", "inf", "-inf", "Infinity", "1e999", "-1e999"}
	for ci := range tc.cfgs {
		for b := 0; b < nb; b++ {
			name := fmt.Sprintf("BenchmarkN%d", b)
			reps := 1 + r.Intn(9)
			density := hx.Pick(r, []int{1, 3, 3, 6})
			for k := 0; k < reps; k++ {
				var sb strings.Builder
				sb.WriteString(name + " 1")
				for _, u := range []string{"ns/op", "MB/s"}[:1+r.Intn(2)] {
					v := float64(10+r.Intn(5)) * float64(1+ci)
					if r.Chance(1, 10) {
						v *= 7
					}
					if r.Chance(1, density) {
						sb.WriteString(" " + hx.Pick(r, texts) + " " + u)
					} else {
						sb.WriteString(" " + strconv.FormatFloat(v, 'f', -1, 64) + " " + u)
					}
				}
				tc.results = append(tc.results, result{cfg: ci, content: sb.String()})
			}
		}
	}
	return tc
}

// fixed cases: the F9 witness of DESIGN.md section 5 and a few hand-written shapes.
func fixedCases() []*tcase {
	mk := func(cfgs []string, lines [][]string) *tcase {
		tc := &tcase{order: "-", test: "-", cfgs: cfgs, tags: map[string]bool{"fixed": true}}
		for ci, ls := range lines {
			for _, l := range ls {
				tc.results = append(tc.results, result{cfg: ci, content: l})
			}
		}
		return tc
	}
	var out []*tcase
	out = append(out, mk([]string{"old", "new"}, [][]string{
		{"BenchmarkX 1 10 ns/op", "BenchmarkX 1 11 ns/op", "BenchmarkX 1 12 ns/op", "BenchmarkX 1 13 ns/op", "BenchmarkX 1 100 ns/op"},
		{"BenchmarkX 1 20 ns/op", "BenchmarkX 1 21 ns/op", "BenchmarkX 1 22 ns/op", "BenchmarkX 1 23 ns/op"}}))
	sp := mk([]string{"old", "new"}, [][]string{
		{"BenchmarkX 1 10 MB/s 5 x-MB/s 3 speed", "BenchmarkX 1 11 MB/s 5 x-MB/s 3 speed", "BenchmarkX 1 10.5 MB/s 5.5 x-MB/s 3.5 speed", "BenchmarkX 1 10.7 MB/s 5.2 x-MB/s 3.1 speed"},
		{"BenchmarkX 1 20 MB/s 9 x-MB/s 7 speed", "BenchmarkX 1 21 MB/s 9.5 x-MB/s 7 speed", "BenchmarkX 1 22 MB/s 9.7 x-MB/s 7.5 speed", "BenchmarkX 1 20.5 MB/s 9.1 x-MB/s 7.7 speed"}})
	out = append(out, sp)
	g := mk([]string{"a", "b"}, [][]string{
		{"BenchmarkP 1 0 allocs/op 4 ns/op", "BenchmarkQ 1 3 allocs/op 5 ns/op", "BenchmarkR 1 7 allocs/op 6 ns/op"},
		{"BenchmarkP 1 0 allocs/op 4 ns/op", "BenchmarkQ 1 4 allocs/op 5 ns/op", "BenchmarkR 1 9 allocs/op 7 ns/op"}})
	g.geo = true
	out = append(out, g)
	// one retained value on one side (1 vs 3..6 values), nothing retained on one side, under every built-in test:
	// the note must be the documented reason "(too few samples)" (TTest: n <= 1, UTest: n = 0)
	for _, test := range []string{"t", "u", "-", "n"} {
		for k := 3; k <= 6; k++ {
			var many []string
			for j := 0; j < k; j++ {
				many = append(many, fmt.Sprintf("BenchmarkX 1 %d ns/op %d.5 MB/s", 20+j, 7+j))
			}
			one := []string{"BenchmarkX 1 10 ns/op 3 MB/s"}
			a := mk([]string{"old", "new"}, [][]string{one, many})
			b := mk([]string{"old", "new"}, [][]string{many, one})
			c := mk([]string{"old", "new"}, [][]string{{"BenchmarkX 1 NaN ns/op", "BenchmarkX 1 10 ns/op"}, many}) // nothing retained on one side
			for _, tc := range []*tcase{a, b, c} {
				tc.test = test
				tc.noguard = true
				tc.tags["fewsamples"] = true
				out = append(out, tc)
			}
		}
	}
	// overflow corner of stats.Mean: Max − Min is not representable, the float mean becomes +Inf
	ovfA := mk([]string{"old", "new"}, [][]string{
		{"BenchmarkX 1 -1.7976931348623157e308 ns/op", "BenchmarkX 1 1.7976931348623157e308 ns/op"},
		{"BenchmarkX 1 1 ns/op", "BenchmarkX 1 2 ns/op"}})
	ovfA.tags["overflow"] = true
	out = append(out, ovfA)
	ovfB := mk([]string{"old", "new"}, [][]string{
		{"BenchmarkX 1 -1e308 ns/op", "BenchmarkX 1 1e308 ns/op", "BenchmarkX 1 1.5e308 ns/op"},
		{"BenchmarkX 1 1 ns/op", "BenchmarkX 1 2 ns/op"}})
	ovfB.tags["overflow"] = true
	out = append(out, ovfB)
	// the C11 witness shape {1,NaN} vs {2,3} and friends, through the collection (real UTest, unguarded)
	for _, w := range [][][]string{
		{{"BenchmarkX 1 1 ns/op", "BenchmarkX 1 NaN ns/op"}, {"BenchmarkX 1 2 ns/op", "BenchmarkX 1 3 ns/op"}},
		{{"BenchmarkX 1 NaN ns/op"}, {"BenchmarkX 1 2 ns/op"}},
		{{"BenchmarkX 1 1 ns/op", "BenchmarkX 1 2 ns/op", "BenchmarkX 1 +Inf ns/op"}, {"BenchmarkX 1 2 ns/op", "BenchmarkX 1 3 ns/op", "BenchmarkX 1 -Inf ns/op"}},
		{{"BenchmarkX 1 1 ns/op", "BenchmarkX 1 2 ns/op", "BenchmarkX 1 3 ns/op", "BenchmarkX 1 4 ns/op", "BenchmarkX 1 5 ns/op", "BenchmarkX 1 6 ns/op", "BenchmarkX 1 7 ns/op", "BenchmarkX 1 8 ns/op", "BenchmarkX 1 9 ns/op", "BenchmarkX 1 NaN ns/op"},
			{"BenchmarkX 1 2 ns/op", "BenchmarkX 1 3 ns/op", "BenchmarkX 1 4 ns/op", "BenchmarkX 1 5 ns/op", "BenchmarkX 1 NaN ns/op", "BenchmarkX 1 NaN ns/op"}},
		{{"BenchmarkX 1 Inf ns/op", "BenchmarkX 1 Inf ns/op"}, {"BenchmarkX 1 Inf ns/op", "BenchmarkX 1 1 ns/op"}},
	} {
		for _, test := range []string{"-", "t"} {
			tc := mk([]string{"old", "new"}, w)
			tc.test = test
			tc.noguard = true
			tc.geo = true
			tc.tags["nonfinite"] = true
			out = append(out, tc)
		}
	}
	return out
}

func main() {
	defer hx.Flush()
	shard, _ := strconv.Atoi(os.Getenv("VERIF_SHARD"))
	nshards, _ := strconv.Atoi(os.Getenv("VERIF_NSHARDS"))
	if nshards <= 0 {
		nshards = 1
	}
	resume, _ := strconv.Atoi(os.Getenv("VERIF_C17_RESUME"))
	r := hx.NewRand(17)
	id := 0
	for _, tc := range fixedCases() {
		if id%nshards == shard && id >= resume {
			runCase(id, tc)
		}
		id++
	}
	nn := hx.N(60, 1200)
	rn := hx.NewRand(1717)
	for i := 0; i < nn; i++ {
		tc := genNonFinite(rn)
		if id%nshards == shard && id >= resume {
			runCase(id, tc)
		}
		id++
	}
	n := hx.N(400, 8000)
	for i := 0; i < n; i++ {
		tc := genCase(r) // every shard walks the same PRNG stream
		if id%nshards == shard && id >= resume {
			runCase(id, tc)
		}
		id++
	}
}
