//go:build verif

// C09 harness: key order (Key.Less, SortKeys) over projections mixing the four kinds of order.
package main

import (
	"fmt"
	"sort"
	"strconv"
	"strings"

	"golang.org/x/perf/benchfmt"
	"golang.org/x/perf/benchproc"
	"golang.org/x/perf/internal/verifh/hx"
)

var pool = []string{"", "1", "1.0", "1k", "1Ki", "0x10", "NaN", "nan", "-0", "abc", "12abc", "1.2.3k", "10", "9",
	// blanks are part of a value: leading/trailing blanks and tabs, whitespace-only
	"1 ", " 1", "abc ", " abc", " ", "\t", "1\t", "a b"}

// every prefix letter, with and without i, with and without b/B; fractional and huge mantissas
var prefixPool = func() []string {
	var l []string
	for _, p := range []string{"k", "K", "M", "G", "T", "P", "E", "Z", "Y"} {
		l = append(l, "1"+p, "1"+p+"i", "2"+p+"B", "3"+p+"ib", "1.5"+p+"i", ".5"+p)
	}
	return append(l, "1Yi", "999Y", "1Zi", "3Zi", "999Yi", "1023Zi", "1000Z", "1", "1000000000000000000000", "")
}()

// near-ties across prefixes and spellings; float literals next to suffixed forms
var tiePool = []string{"1024Ki", "1Mi", "1.048576M", "1048576", "1000k", "1M", "1e6", "1000000", "1048576.0", "1024K", "1Ki", "1.024k",
	"1024", "1e3", "1k", "1000", "0.001M", "1kB", "1Kb", "1024Yi", "1.0Zi", "1024Zi", "1Yi", "1e24", "1Y", "1000Z"}

// literals and non-literals around strconv.ParseFloat
var litPool = []string{"Inf", "-inf", "+Infinity", "infinit", "NaN", "nan", "+nan", "1e999", "-5", "-5k", "1_000", "1__0", "0x1p4", "0x10", "0x_1p0",
	"1e-400", ".", "1.", ".5", "1.2.3", "5ms", "x9G", "-0", "0", "+1", "1e5", "1E2k", "12abc", "abc", "", "1e400M"}

// zero-padded all-digit values of different lengths next to decimals and suffixed spellings of nearby
// numbers: the numeric order is by VALUE (08 < 9 < 0010 = 10 < 16 < 100), whatever the spelling
var padPool = []string{"007", "08", "9", "10", "100", "0010", "000", "0", "8", "16", "008", "8.5", "9.0", "0.5",
	"7", "07", "1e1", "10.0", "0.01k", "1k", "0100", "99", "099", "16.0", "015", "15"}

// genuine numbers written with 33-80 bytes: long integers, long fractions, zero-padded, with suffixes
var longPool = []string{
	"340282366920938463463374607431768211456",                                          // 2^128 written out
	"0.00000000000000000000000000000000001",                                            // 1e-35
	"100000000000000000000000000000000",                                                // 1 and 32 zeros
	"000000000000000000000000000000000007",                                             // 7, 36 bytes
	"1.00000000000000000000000000000000Y",                                              // 1e24
	"0000000000000000000000000000000000000000000000000000016",                          // 16, 55 bytes
	"3.1415926535897932384626433832795028841971693993751058209749445923",               // 66 bytes
	"12345678901234567890123456789012345678901234567890123456789012345678901234567890", // 80 bytes
	"0.000000000000000000000000000000000000000000000000000000000000000000000001k",
	"00000000000000000000000000000001.5Ki", "7", "16", "1e35", "1e-35", "1Y", "NaN", "abc", "1e32", "3.14",
}

// values a few ulps apart: neighbours of k-suffixed spellings, 0.1+0.2-style sums, adjacent float64s
var ulpPool = []string{"4030", "4.03k", "4.030000000000001e3", "4.0300000000000002e3", "3e-1", "0.30000000000000004", "0.3",
	"0.30000000000000001", "0.1", "0.10000000000000002", "1", "1.0000000000000002", "1.0000000000000004", "0.9999999999999999",
	"1e3", "1k", "1.0000000000000002k", "999.9999999999999", "2.2k", "2200", "2.2000000000000003e3", "1.1k", "1100", "1100.0000000000002"}

// integer spellings beyond ±2^53 that collapse to one float64, next to non-integer spellings of the
// same float: equal as numbers (parseNum yields the same float64), so they tie and fall back to byte order
var bigIntPool = []string{"-9007199254740993", "-9007199254740992", "-9007199254740992.5", "9007199254740992", "+9007199254740993",
	"9007199254740991.9", "9007199254740993", "9007199254740992.0", "9007199254740994", "-1700000000000000100", "-1700000000000000001",
	"-1700000000000000001.5", "1700000000000000001", "1700000000000000000", "1.7e18", "9.007199254740992e15", "-9007199254740994",
	"9223372036854775807", "9223372036854775808", "9223372036854775806.5", "1", "-1"}

// pickValues chooses the values of a scenario from one themed pool (or a mix).
func pickValues(r *hx.Rand) []string {
	var src []string
	pad := false
	switch r.Intn(16) {
	case 8, 9:
		src = padPool
		pad = true
	case 10, 11:
		src = longPool
		pad = true
	case 12, 13:
		src = ulpPool
		pad = true
	case 14, 15:
		src = bigIntPool
		pad = true
	case 0, 1, 2:
		src = pool
	case 3, 4:
		src = prefixPool
	case 5:
		src = tiePool
	case 6:
		src = litPool
	default:
		src = append(append(append(append(append(append(append(append([]string(nil), pool...), prefixPool...), tiePool...), litPool...), padPool...), longPool...), ulpPool...), bigIntPool...)
	}
	preferNum = pad
	nv := 2 + r.Intn(4)
	if pad {
		nv += 2 // enough values for a padded one, a shorter one and another spelling in between
	}
	vals := make([]string, nv)
	for i := range vals {
		vals[i] = hx.Pick(r, src)
	}
	return vals
}

var keyPool = []string{"a", "b", "/x", "/y", ".name", ".fullname", ".config", "a", "/x", ".config"}

// preferNum is set by pickValues for the numeric value families (padded, long, ulp-neighbours): most
// of their fields are then ordered @num.
var preferNum bool

func genSpec(r *hx.Rand, vals []string, dupOK bool) SpecT {
	k := hx.Pick(r, keyPool)
	s := SpecT{Key: k, Order: "first"}
	if preferNum && r.Chance(2, 3) {
		s.Order = "num"
		return s
	}
	switch x := r.Intn(20); {
	case x < 7:
	case x < 11:
		s.Order = "alpha"
	case x < 16:
		s.Order = "num"
	default:
		if k == ".config" {
			s.Order = "num"
			break
		}
		s.Order = "fixed"
		// a permutation of (most of) the scenario's values
		perm := append([]string(nil), vals...)
		for i := len(perm) - 1; i > 0; i-- {
			j := r.Intn(i + 1)
			perm[i], perm[j] = perm[j], perm[i]
		}
		n := 1 + r.Intn(len(perm))
		s.Fixed = perm[:n]
		if dupOK && r.Chance(1, 2) {
			s.Fixed = append(s.Fixed, perm[r.Intn(n)])
			if r.Bool() {
				s.Fixed = append([]string{perm[r.Intn(n)]}, s.Fixed...)
			}
		}
	}
	return s
}

func genResult(r *hx.Rand, vals []string, i int, unitProj bool) ResT {
	name := hx.Pick(r, []string{"B", "B", "C"})
	if r.Chance(3, 5) {
		name += "/x=" + hx.Pick(r, vals)
	}
	if r.Chance(2, 5) {
		name += "/y=" + hx.Pick(r, vals)
	}
	if r.Chance(1, 6) {
		name += hx.Pick(r, []string{"-4", "-8"})
	}
	var res ResT
	res.Name = name
	keys := []string{"a", "b"}
	if i >= 2 {
		keys = append(keys, "c")
	}
	if i >= 3 {
		keys = append(keys, "d")
	}
	// occasionally a different slot order
	if r.Chance(1, 4) {
		keys[0], keys[len(keys)-1] = keys[len(keys)-1], keys[0]
	}
	for _, k := range keys {
		if !r.Chance(7, 10) {
			continue
		}
		v := hx.Pick(r, vals)
		if v == "" && !r.Chance(1, 8) {
			continue // a missing key; rarely a present key with an empty value
		}
		res.Cfg = append(res.Cfg, CfgT{k, v, !r.Chance(1, 12)})
	}
	res.Units = []string{"ns/op"}
	if r.Chance(1, 8) {
		// a result without measurements: ProjectValues on a .unit projection runs the closures
		// (fields may appear) but makes no key
		res.Units = nil
		return res
	}
	if unitProj || r.Chance(1, 4) {
		res.Units = append(res.Units, "B/op")
		if r.Chance(1, 3) {
			res.Units = append(res.Units, "ns/op")
		}
	}
	return res
}

func genScenario(r *hx.Rand) Scenario {
	var sc Scenario
	// the values of this scenario: a few of the pool, so that equal keys and ties occur
	vals := pickValues(r)
	konly := r.Chance(1, 5) // K-only scenario: duplicates in fixed lists, no filtering, interleaving
	sc.S = !konly
	nproj := 1
	if r.Chance(1, 3) {
		nproj = 2
	}
	var parses [][]SpecT
	var withUnit []bool
	for i := 0; i < nproj; i++ {
		n := 1 + r.Intn(3)
		if r.Chance(1, 15) {
			n = 0
		}
		var specs []SpecT
		for j := 0; j < n; j++ {
			s := genSpec(r, vals, konly)
			if s.Order == "fixed" {
				// duplicate-free lists in S scenarios
				if !konly {
					seen := map[string]bool{}
					var l []string
					for _, f := range s.Fixed {
						if !seen[f] {
							seen[f] = true
							l = append(l, f)
						}
					}
					s.Fixed = l
				}
				sc.Tags = append(sc.Tags, "fixed")
			}
			if s.Order == "num" {
				sc.Tags = append(sc.Tags, "num")
			}
			if s.Key == ".config" {
				sc.Tags = append(sc.Tags, "config")
			}
			specs = append(specs, s)
		}
		parses = append(parses, specs)
		withUnit = append(withUnit, r.Chance(1, 6))
	}
	residue := r.Chance(1, 8)
	anyUnit := false
	for _, u := range withUnit {
		anyUnit = anyUnit || u
	}
	nres := 3 + r.Intn(6)
	results := make([]ResT, nres)
	for i := range results {
		results[i] = genResult(r, vals, i, anyUnit)
		if i > 0 && r.Chance(1, 6) {
			results[i] = results[r.Intn(i)] // an exact repeat
		}
	}
	if !konly {
		keep := passesFilters(parses, withUnit, results)
		var kept []ResT
		for i, k := range keep {
			if k {
				kept = append(kept, results[i])
			}
		}
		results = kept
	}
	for i, specs := range parses {
		k := byte('P')
		if withUnit[i] {
			k = 'U'
			sc.Tags = append(sc.Tags, "unit")
		}
		sc.Ops = append(sc.Ops, Op{Kind: k, Specs: specs})
		if konly && i == 0 && len(results) > 0 && r.Chance(1, 3) {
			// interleave: project before the second expression is parsed
			sc.Ops = append(sc.Ops, Op{Kind: 'J', Proj: 0, Res: results[0]})
			sc.Tags = append(sc.Tags, "interleave")
		}
	}
	if residue {
		sc.Ops = append(sc.Ops, Op{Kind: 'R'})
		sc.Tags = append(sc.Tags, "residue")
	}
	nq := 0
	for i, res := range results {
		sc.Ops = append(sc.Ops, Op{Kind: 'A', Res: res})
		// a query in the middle of the stream (all observables of all projections as they are now)
		if nq < 2 && i+1 < len(results) && r.Chance(1, 4) {
			sc.Ops = append(sc.Ops, Op{Kind: 'Q'})
			sc.Tags = append(sc.Tags, "query")
			nq++
		}
	}
	return sc
}

// genUnlisted: a fixed order projected WITHOUT the implied filter (K-only precondition, but the
// strict-total-order clause is judged by S): the list reverses byte order and an unlisted
// non-empty value lies bytewise between two listed ones.
func genUnlisted(r *hx.Rand) Scenario {
	all := append(append([]string(nil), pool...), "linux", "darwin", "freebsd", "amd64", "arm64", "x", "y", "zz")
	seen := map[string]bool{"": true}
	var vs []string
	for len(vs) < 3+r.Intn(3) {
		v := hx.Pick(r, all)
		if !seen[v] {
			seen[v] = true
			vs = append(vs, v)
		}
	}
	sort.Strings(vs)
	// listed: every other value, in descending byte order; the rest stay unlisted
	var listed []string
	for i := len(vs) - 1; i >= 0; i -= 2 {
		listed = append(listed, vs[i])
	}
	key := hx.Pick(r, []string{"a", "/x"})
	specs := []SpecT{{Key: key, Order: "fixed", Fixed: listed}}
	if r.Bool() {
		specs = append(specs, SpecT{Key: "b", Order: hx.Pick(r, []string{"first", "alpha"})})
	}
	sc := Scenario{S: false, Tags: []string{"fixed", "unlisted"}}
	sc.Ops = append(sc.Ops, Op{Kind: 'P', Specs: specs})
	perm := append([]string(nil), vs...)
	for i := len(perm) - 1; i > 0; i-- {
		j := r.Intn(i + 1)
		perm[i], perm[j] = perm[j], perm[i]
	}
	for _, v := range perm {
		res := ResT{Name: "B", Units: []string{"ns/op"}}
		if key == "a" {
			res.Cfg = append(res.Cfg, CfgT{"a", v, true})
		} else {
			res.Name = "B/x=" + v
		}
		if r.Bool() {
			res.Cfg = append(res.Cfg, CfgT{"b", hx.Pick(r, vs), true})
		}
		sc.Ops = append(sc.Ops, Op{Kind: 'A', Res: res})
	}
	return sc
}

// bigCase: ONE default-ordered field with far more than 65536 distinct values observed in non-byte
// order (decreasing numerals). Only probes are printed: Less(k[i], k[j]) must be i < j (first
// observation order), and SortKeys of all keys must start with the first and end with the last
// observed value. The driver computes the expected answers arithmetically from the case line.
func bigCase(id, n int, r *hx.Rand) {
	var pp benchproc.ProjectionParser
	p, err := pp.Parse("a", nil)
	if err != nil {
		panic(err)
	}
	keys := make([]benchproc.Key, n)
	index := make(map[benchproc.Key]int, n)
	for i := 0; i < n; i++ {
		res := &benchfmt.Result{Name: benchfmt.Name("B"),
			Config: []benchfmt.Config{{Key: "a", Value: []byte(strconv.Itoa(n - i)), File: true}}}
		keys[i] = p.Project(res)
		index[keys[i]] = i
	}
	pairs := [][2]int{{0, 65536}, {1, 65537}, {65535, 65536}, {65536, 0}, {65537, 1}, {0, 1}, {65536, 65537}, {n - 1, 0}, {0, n - 1}, {65536, 65535}}
	for i := 0; i < 12; i++ {
		pairs = append(pairs, [2]int{r.Intn(n), r.Intn(n)})
	}
	var ps []string
	bits := make([]byte, len(pairs))
	for i, pr := range pairs {
		ps = append(ps, strconv.Itoa(pr[0])+"-"+strconv.Itoa(pr[1]))
		bits[i] = '0'
		if keys[pr[0]].Less(keys[pr[1]]) {
			bits[i] = '1'
		}
	}
	sorted := append([]benchproc.Key(nil), keys...)
	for i := len(sorted) - 1; i > 0; i-- {
		j := r.Intn(i + 1)
		sorted[i], sorted[j] = sorted[j], sorted[i]
	}
	benchproc.SortKeys(sorted)
	hx.Printf("case %d big=%d pairs=%s s=1 tag=big\n", id, n, strings.Join(ps, ","))
	hx.Printf("sobs %d probe=%s first=%d second=%d last=%d\n", id, string(bits), index[sorted[0]], index[sorted[1]], index[sorted[n-1]])
}

// wideCase: a `.config` group with MORE THAN 64 sub-fields (70-130 file keys) and keys that differ
// only in field 64, 65 or 100: Key.Less and SortKeys must order them by that field.
func wideCase(r *hx.Rand, order string) Scenario {
	nk := 70 + r.Intn(61)
	sc := Scenario{S: true, Tags: []string{"wide", "config"}}
	sc.Ops = append(sc.Ops, Op{Kind: 'P', Specs: []SpecT{{Key: ".config", Order: order}}})
	mk := func(idx int, v string) ResT {
		res := ResT{Name: "B", Units: []string{"ns/op"}}
		for i := 0; i < nk; i++ {
			val := "v"
			if i == idx {
				val = v
			}
			res.Cfg = append(res.Cfg, CfgT{fmt.Sprintf("k%03d", i), val, true})
		}
		return res
	}
	results := []ResT{mk(-1, ""), mk(64, "z"), mk(64, "y"), mk(65, "x"), mk(64, "10"), mk(63, "9")}
	if nk > 100 {
		results = append(results[:5], mk(100, "w"))
	}
	for _, res := range results {
		sc.Ops = append(sc.Ops, Op{Kind: 'A', Res: res})
	}
	return sc
}

func main() {
	defer hx.Flush()
	r := hx.NewRand(9)
	shuf := hx.NewRand(90)
	id := 0
	shard, nshards := shardOf()
	for _, sc := range corpusScenarios("C09") {
		if id%nshards == shard {
			runScenario(id, sc, shuf)
		}
		id++
	}
	if shard == 0 {
		bigCase(id, hx.N(66000, 131073), shuf)
	}
	id++
	for _, o := range []string{"first", "alpha", "num"} {
		if id%nshards == shard {
			runScenario(id, wideCase(r, o), shuf)
		}
		id++
	}
	n := hx.N(1500, 40000)
	for i := 0; i < n; i++ {
		sc := genScenario(r)
		if i%15 == 7 {
			sc = genUnlisted(r)
		}
		if id%nshards == shard {
			runScenario(id, sc, shuf)
		}
		id++
	}
}
