//go:build verif

package texttab

import "sort"

// VerifSpanOrder returns the permutation that Format's (unstable) sort of the cells by span
// will produce: sort.Slice is deterministic in the slice length and the outcomes of less, so
// running the same comparator over a copy of the cells tagged with their index replays it.
// Call it before Format (Format leaves the cells in row/column order).
func VerifSpanOrder(t *Table) []int {
	type tagged struct {
		span, idx int
	}
	ps := make([]tagged, len(t.cells))
	for i, c := range t.cells {
		ps[i] = tagged{int(c.span), i}
	}
	sort.Slice(ps, func(i, j int) bool {
		return ps[i].span < ps[j].span
	})
	out := make([]int, len(ps))
	for i, p := range ps {
		out[i] = p.idx
	}
	return out
}

// VerifNumCells is the number of cells added so far.
func VerifNumCells(t *Table) int { return len(t.cells) }

// VerifSpanOrderOf is VerifSpanOrder for a bare sequence of spans (the cells of a table that
// is built inside another package, e.g. by benchtab.Table.ToText).
func VerifSpanOrderOf(spans []int) []int {
	type tagged struct {
		span, idx int
	}
	ps := make([]tagged, len(spans))
	for i, s := range spans {
		ps[i] = tagged{s, i}
	}
	sort.Slice(ps, func(i, j int) bool {
		return ps[i].span < ps[j].span
	})
	out := make([]int, len(ps))
	for i, p := range ps {
		out[i] = p.idx
	}
	return out
}
