//go:build verif

package benchtab

import (
	"encoding/hex"
	"fmt"
	"strings"

	"golang.org/x/perf/benchunit"
)

func verifHex(s string) string { return hex.EncodeToString([]byte(s)) }

func verifErrs(lists ...[]error) string {
	var out []string
	for _, l := range lists {
		for _, e := range l {
			out = append(out, verifHex(e.Error()))
		}
	}
	return strings.Join(out, ",")
}

// VerifView dumps the cells view of a Table: labels, column key values and the cell STRINGS as
// ToText and ToCSV obtain them (RowScaler/Format, fmt.Sprint, PctRangeString, FormatDelta,
// Comparison.String, warnings). The assembly into text and CSV is what the model does.
//
//	unit=<hex> nf=<n> cols=<key;key…> rows=<row|row…> sum=<label~scell~…>
//	key  = hex,hex…            row = label~cell~cell…
//	cell = - | ct:cc:range:warns:- | ct:cc:range:warns:delta/p/warns      warns = hex,hex…
//	scell = - | hasSummary:st:sc:hasRatio:ratio:warns
func VerifView(t *Table) string {
	var sb strings.Builder
	nf := 0
	var keys []string
	if len(t.Cols) > 0 {
		fields := t.Cols[0].Projection().FlattenedFields()
		nf = len(fields)
		for _, k := range t.Cols {
			var vs []string
			for _, f := range fields {
				vs = append(vs, verifHex(k.Get(f)))
			}
			keys = append(keys, strings.Join(vs, ","))
		}
	}
	fmt.Fprintf(&sb, "unit=%s nf=%d nk=%d cols=%s", verifHex(t.Unit), nf, len(t.Cols), strings.Join(keys, ";"))
	unitClass := benchunit.ClassOf(t.Unit)
	var rows []string
	for _, row := range t.Rows {
		parts := []string{verifHex(row.StringValues())}
		scalar := t.RowScaler(row, unitClass)
		for _, col := range t.Cols {
			cell, ok := t.Cells[TableKey{row, col}]
			if !ok {
				parts = append(parts, "-")
				continue
			}
			d := "-"
			if cell.Baseline != nil {
				d = fmt.Sprintf("%s/%s/%s",
					verifHex(cell.Comparison.FormatDelta(cell.Baseline.Summary.Center, cell.Summary.Center)),
					verifHex(cell.Comparison.String()), verifErrs(cell.Comparison.Warnings))
			}
			parts = append(parts, fmt.Sprintf("%s:%s:%s:%s:%s",
				verifHex(scalar.Format(cell.Summary.Center)), verifHex(fmt.Sprint(cell.Summary.Center)),
				verifHex(cell.Summary.PctRangeString()), verifErrs(cell.Sample.Warnings, cell.Summary.Warnings), d))
		}
		rows = append(rows, strings.Join(parts, "~"))
	}
	r := strings.Join(rows, "|")
	if len(rows) == 0 {
		r = "-"
	}
	fmt.Fprintf(&sb, " nr=%d rows=%s", len(rows), r)
	parts := []string{verifHex(t.SummaryLabel)}
	for _, col := range t.Cols {
		ts, ok := t.Summary[col]
		if !ok {
			parts = append(parts, "-")
			continue
		}
		b := func(x bool) int {
			if x {
				return 1
			}
			return 0
		}
		parts = append(parts, fmt.Sprintf("%d:%s:%s:%d:%s:%s", b(ts.HasSummary),
			verifHex(benchunit.Scale(ts.Summary, unitClass)), verifHex(fmt.Sprint(ts.Summary)),
			b(ts.HasRatio), verifHex(fmt.Sprintf("%+.2f%%", (ts.Ratio-1)*100)), verifErrs(ts.Warnings)))
	}
	fmt.Fprintf(&sb, " sum=%s", strings.Join(parts, "~"))
	return sb.String()
}

// VerifSpans is the sequence of spans of the texttab cells ToText is expected to add, computed
// from the Table's data only (used to replay the unstable sort; a wrong guess can only make the
// correspondence fail, never pass).
func VerifCellCounts(t *Table) (rowCells []int) {
	for _, row := range t.Rows {
		n := 1
		for exp, col := range t.Cols {
			cell, ok := t.Cells[TableKey{row, col}]
			if !ok {
				continue
			}
			n += 3
			if exp > 0 && cell.Baseline != nil {
				n += 3
			}
		}
		rowCells = append(rowCells, n)
	}
	if len(t.Rows) > 1 {
		n := 1
		for exp, col := range t.Cols {
			ts, ok := t.Summary[col]
			if !ok {
				continue
			}
			if ts.HasSummary {
				n++
			}
			if exp > 0 {
				n++
			}
			n++
		}
		rowCells = append(rowCells, n)
	}
	return
}
