//go:build verif

// C16 harness: texttab.Format on generated table shapes, benchproc.NewKeyHeader trees,
// benchstat text vs CSV end to end.
package main

import (
	"bytes"
	"encoding/csv"
	"fmt"
	"strconv"
	"strings"

	"os"
	"path/filepath"

	"golang.org/x/perf/benchfmt"
	"golang.org/x/perf/benchmath"
	"golang.org/x/perf/benchproc"
	"golang.org/x/perf/cmd/benchstat/internal/benchtab"
	"golang.org/x/perf/cmd/benchstat/internal/texttab"
	"golang.org/x/perf/internal/verifh/hx"
)

var id int

// ---------------------------------------------------------------- raw tables

type op struct {
	kind byte // r c s k
	n    int
	val  string
	opts []string // "L" "C" "R" "M<raw margin>"
	b    bool
}

func (o op) String() string {
	switch o.kind {
	case 'r':
		return "r"
	case 'c':
		return "c" + strconv.Itoa(o.n)
	case 'k':
		if o.b {
			return fmt.Sprintf("k%d:1", o.n)
		}
		return fmt.Sprintf("k%d:0", o.n)
	}
	var os []string
	for _, x := range o.opts {
		if x[0] == 'M' {
			os = append(os, "M"+hx.HexS(x[1:]))
		} else {
			os = append(os, x)
		}
	}
	return fmt.Sprintf("s%d:%s:%s", o.n, hx.HexS(o.val), strings.Join(os, "/"))
}

func opsString(ops []op) string {
	if len(ops) == 0 {
		return "-"
	}
	parts := make([]string, len(ops))
	for i, o := range ops {
		parts[i] = o.String()
	}
	return strings.Join(parts, ",")
}

func apply(t *texttab.Table, o op) {
	switch o.kind {
	case 'r':
		t.Row()
	case 'c':
		t.Col(o.n)
	case 'k':
		t.SetShrink(o.n, o.b)
	case 's':
		var opts []texttab.CellOption
		for _, x := range o.opts {
			switch x[0] {
			case 'L':
				opts = append(opts, texttab.Left)
			case 'C':
				opts = append(opts, texttab.Center)
			case 'R':
				opts = append(opts, texttab.Right)
			case 'M':
				opts = append(opts, texttab.LeftMargin(x[1:]))
			}
		}
		t.Span(o.n, o.val, opts...)
	}
}

func intsString(l []int) string {
	if len(l) == 0 {
		return "-"
	}
	parts := make([]string, len(l))
	for i, x := range l {
		parts[i] = strconv.Itoa(x)
	}
	return strings.Join(parts, ",")
}

// runTab builds the table with the real texttab, formats it and prints case/obs/sobs.
func runTab(ops []op, tags map[string]bool) {
	var out string
	fresh := "same"
	var perm []int
	func() {
		defer func() {
			if e := recover(); e != nil {
				out = "!panic"
			}
		}()
		var t texttab.Table
		for _, o := range ops {
			apply(&t, o)
		}
		perm = texttab.VerifSpanOrder(&t)
		var buf bytes.Buffer
		if err := t.Format(&buf); err != nil {
			out = "!err"
			return
		}
		out = hx.Hex(buf.Bytes())
		// state: Format sorts the table's cells in place. Formatting the same table again, and
		// formatting a table that was already formatted half-way through its construction, must
		// give the bytes a fresh table gives.
		var again bytes.Buffer
		if err := t.Format(&again); err != nil || !bytes.Equal(again.Bytes(), buf.Bytes()) {
			fresh = "diff:again"
		}
		for k := len(ops) / 2; k < len(ops); k++ {
			if ops[k].kind != 'r' {
				continue
			}
			var t2 texttab.Table
			for _, o := range ops[:k] {
				apply(&t2, o)
			}
			var sink, late bytes.Buffer
			t2.Format(&sink)
			for _, o := range ops[k:] {
				apply(&t2, o)
			}
			if err := t2.Format(&late); err != nil || !bytes.Equal(late.Bytes(), buf.Bytes()) {
				fresh = "diff:midformat"
			}
			break
		}
	}()
	hx.Printf("case %d kind=tab ops=%s perm=%s text=%s tag=%s\n", id, opsString(ops), intsString(perm), out, tagString(tags))
	hx.Printf("obs %d out=%s\n", id, out)
	// spec vocabulary: a call sequence that moves to an earlier column must be refused (panic);
	// everything else must be laid out
	if out == "!panic" {
		hx.Printf("sobs %d layout=panic fresh=%s\n", id, fresh)
	} else {
		hx.Printf("sobs %d layout=ok fresh=%s\n", id, fresh)
	}
	id++
}

func tagString(tags map[string]bool) string {
	var l []string
	for _, k := range []string{"wide", "back", "span", "shrinkonly", "shrink", "mb", "inv", "missing", "margin", "blank", "emptyrow", "bs", "big"} {
		if tags[k] {
			l = append(l, k)
		}
	}
	if len(l) == 0 {
		return "trivial"
	}
	return strings.Join(l, "+")
}

var asciiWords = []string{"a", "ab", "x", "sec/op", "vs base", "1.234µ", "~", "geomean", "Encode/format=json-48", "B/op", "12", "+3.50%", "(p=0.008 n=5)", "old.txt", "0", "a b", "-", "wwwwwwwwwwwwwwwwwwww"}
var mbWords = []string{"é", "│", "±", "¹ ²", "世界", "µs", "ñandú", "𝛼𝛽", "a b", "¹"}
var invWords = []string{"\xff", "a\x80b", "\xe2\x82x", "\xc0\xaf", "\xed\xa0\x80!", "x\xf5y", "\x80"}
var blankWords = []string{" ", "  ", "\t", " ", "　 "}
var margins = []string{"", " ", " │ ", "  ", " ± ", "│", "é", " │", "   ", "::"}

func genValue(r *hx.Rand, tags map[string]bool) string {
	switch k := r.Intn(20); {
	case k < 2:
		return ""
	case k < 3:
		tags["blank"] = true
		return hx.Pick(r, blankWords)
	case k < 11:
		return hx.Pick(r, asciiWords)
	case k < 14:
		n := r.Intn(14)
		return strings.Repeat("w", n)
	case k < 18:
		tags["mb"] = true
		s := hx.Pick(r, mbWords)
		if r.Bool() {
			s += hx.Pick(r, asciiWords)
		}
		return s
	default:
		tags["inv"] = true
		return hx.Pick(r, invWords)
	}
}

func genOpts(r *hx.Rand, tags map[string]bool) []string {
	var opts []string
	switch r.Intn(4) {
	case 0:
		opts = append(opts, "R")
	case 1:
		opts = append(opts, "C")
	case 2:
		if r.Bool() {
			opts = append(opts, "L")
		}
	}
	if r.Chance(1, 3) {
		tags["margin"] = true
		m := hx.Pick(r, margins)
		if r.Chance(1, 10) {
			tags["mb"] = true
			m = hx.Pick(r, mbWords)
		}
		opts = append(opts, "M"+m)
		if r.Chance(1, 4) { // option order matters: last one wins
			opts = append(opts, hx.Pick(r, []string{"L", "C", "R"}))
		}
	}
	return opts
}

// genTable: rows x cols random table.
func genTable(r *hx.Rand, maxRows, maxCols int) ([]op, map[string]bool) {
	tags := map[string]bool{}
	rows, cols := 1+r.Intn(maxRows), 1+r.Intn(maxCols)
	if rows*cols > 80 {
		tags["big"] = true
	}
	var ops []op
	type span struct{ col, n int }
	var spans []span
	pSkip := r.Intn(4)     // of 8
	pSpan := 1 + r.Intn(4) // of 8
	for i := 0; i < rows; i++ {
		ops = append(ops, op{kind: 'r'})
		if r.Chance(1, 12) {
			tags["emptyrow"] = true
			ops = append(ops, op{kind: 'r'})
			if r.Chance(1, 3) {
				continue
			}
		}
		for c := 0; c < cols; {
			if r.Chance(pSkip, 8) {
				tags["missing"] = true
				c++
				continue
			}
			n := 1
			if cols-c >= 2 && r.Chance(pSpan, 8) {
				n = 2 + r.Intn(cols-c-1)
				if n > 4 && r.Bool() {
					n = 2 + r.Intn(3)
				}
				tags["span"] = true
				spans = append(spans, span{c, n})
			}
			ops = append(ops, op{kind: 'c', n: c})
			ops = append(ops, op{kind: 's', n: n, val: genValue(r, tags), opts: genOpts(r, tags)})
			c += n
		}
	}
	// shrink pattern
	switch r.Intn(4) {
	case 0: // none
	case 1, 2:
		for c := 0; c < cols; c++ {
			if r.Chance(1, 3) {
				tags["shrink"] = true
				ops = append(ops, op{kind: 'k', n: c, b: true})
			}
		}
		if r.Chance(1, 6) {
			ops = append(ops, op{kind: 'k', n: r.Intn(cols + 3), b: false})
		}
	default: // every column under some spanning cell is a shrink column
		if len(spans) > 0 {
			s := spans[r.Intn(len(spans))]
			tags["shrink"] = true
			tags["shrinkonly"] = true
			for c := s.col; c < s.col+s.n; c++ {
				ops = append(ops, op{kind: 'k', n: c, b: true})
			}
		}
	}
	// rarely: a move to an earlier column in the middle of a row (must panic)
	if r.Chance(1, 40) && len(ops) > 3 {
		i := 1 + r.Intn(len(ops)-1)
		if ops[i].kind == 'c' && ops[i].n > 0 && ops[i-1].kind == 's' {
			tags["back"] = true
			ops[i].n = r.Intn(ops[i].n)
		}
	}
	// rarely: the same table with every column but the first 255 columns further right
	if r.Chance(1, 40) {
		tags["wide"] = true
		for i := range ops {
			if (ops[i].kind == 'c' || ops[i].kind == 'k') && ops[i].n >= 1 {
				ops[i].n += 255
			}
		}
	}
	// shrink marks may come anywhere in the call sequence: move them to the front sometimes
	if r.Chance(1, 3) {
		var ks, rest []op
		for _, o := range ops {
			if o.kind == 'k' {
				ks = append(ks, o)
			} else {
				rest = append(rest, o)
			}
		}
		ops = append(ks, rest...)
	}
	return ops, tags
}

// genBenchstatShape mimics the call sequence of benchtab.Table.ToText with random widths
// and random missing delta cells (the F14 shape: "vs base" spans three shrink columns).
func genBenchstatShape(r *hx.Rand) ([]op, map[string]bool) {
	tags := map[string]bool{"bs": true, "span": true, "shrink": true, "margin": true, "mb": true}
	ncols := 1 + r.Intn(3)
	nrows := 1 + r.Intn(4)
	startCol := func(exp int) int {
		if exp == 0 {
			return 1
		}
		return 1 + 3 + (exp-1)*6
	}
	rEdge := startCol(ncols + 1)
	var ops []op
	num := func() string {
		return hx.Pick(r, []string{"1.718µ", "12", "1.000", "123.4Mi", "2.5k", "7"})
	}
	// header level
	ops = append(ops, op{kind: 'r'})
	for i := 0; i < ncols; i++ {
		l, rr := startCol(i), startCol(i+1)
		name := hx.Pick(r, []string{"a", "old.txt", "new-experiment.txt", "b.txt", "é"})
		ops = append(ops, op{kind: 'c', n: l}, op{kind: 's', n: rr - l, val: name, opts: []string{"C", "M │ "}})
	}
	ops = append(ops, op{kind: 'c', n: rEdge}, op{kind: 's', n: 1, val: "", opts: []string{"M │"}})
	// unit row
	ops = append(ops, op{kind: 'r'})
	unit := hx.Pick(r, []string{"sec/op", "B/op", "x", "allocs/op"})
	cur := 0
	for i := 0; i < ncols; i++ {
		l := startCol(i)
		ops = append(ops, op{kind: 'c', n: l}, op{kind: 's', n: 3, val: unit, opts: []string{"C", "M │ "}})
		cur = l + 3
		if i > 0 {
			ops = append(ops, op{kind: 's', n: 3, val: "vs base", opts: []string{"L", "M  "}})
			cur += 3
		}
		for j := l + 1; j < cur; j++ {
			ops = append(ops, op{kind: 'k', n: j, b: true})
		}
	}
	ops = append(ops, op{kind: 'c', n: rEdge}, op{kind: 's', n: 1, val: "", opts: []string{"M │"}})
	// which columns have delta cells at all
	hasDelta := make([]bool, ncols)
	for i := range hasDelta {
		hasDelta[i] = r.Chance(1, 2)
	}
	for j := 0; j < nrows; j++ {
		ops = append(ops, op{kind: 'r'}, op{kind: 's', n: 1, val: hx.Pick(r, []string{"A", "Encode", "Decode/size=10-8", "B"})})
		for i := 0; i < ncols; i++ {
			if r.Chance(1, 4) {
				tags["missing"] = true
				continue
			}
			ops = append(ops, op{kind: 'c', n: startCol(i)})
			ops = append(ops, op{kind: 's', n: 1, val: num(), opts: []string{"R"}})
			ops = append(ops, op{kind: 's', n: 1, val: hx.Pick(r, []string{"1%", "12%", "∞"}), opts: []string{"R", "M ± "}})
			ops = append(ops, op{kind: 's', n: 1, val: hx.Pick(r, []string{"", "", "¹", "¹ ²"})})
			if i > 0 && hasDelta[i] && r.Chance(3, 4) {
				ops = append(ops, op{kind: 's', n: 1, val: hx.Pick(r, []string{"~", "-17.20%", "+3.1%"}), opts: []string{"R"}})
				ops = append(ops, op{kind: 's', n: 1, val: "(p=0.008 n=5)"})
				ops = append(ops, op{kind: 's', n: 1, val: hx.Pick(r, []string{"", "³"})})
			}
		}
	}
	for i := 1; i < ncols; i++ {
		if !hasDelta[i] {
			tags["shrinkonly"] = true
		}
	}
	return ops, tags
}

func tabCases(r *hx.Rand) {
	// fixed witnesses first
	runTab(nil, map[string]bool{})
	runTab([]op{{kind: 'r'}, {kind: 's', n: 1, val: ""}}, map[string]bool{"blank": true})
	// F14 witness: a spanning cell over shrink columns only
	runTab([]op{{kind: 'r'}, {kind: 's', n: 1, val: "x"}, {kind: 's', n: 2, val: "vs base"}, {kind: 's', n: 1, val: "y"},
		{kind: 'r'}, {kind: 's', n: 1, val: "1"}, {kind: 'c', n: 3}, {kind: 's', n: 1, val: "2"},
		{kind: 'k', n: 1, b: true}, {kind: 'k', n: 2, b: true}}, map[string]bool{"span": true, "shrink": true, "shrinkonly": true})
	// N16 witness (fixed by 8783093): an empty right-aligned value with a visible margin, last on its line
	runTab([]op{{kind: 'r'}, {kind: 's', n: 1, val: "abc"}, {kind: 'r'}, {kind: 's', n: 1, val: "", opts: []string{"R", "M|"}}},
		map[string]bool{"margin": true})
	runTab([]op{{kind: 'r'}, {kind: 's', n: 1, val: "abcdef"}, {kind: 'r'}, {kind: 's', n: 1, val: "", opts: []string{"C", "M|"}}},
		map[string]bool{"margin": true})
	// C16-V: column indices and spans above 255 (benchstat reaches layout column 256 with 42 inputs)
	runTab([]op{{kind: 'r'}, {kind: 's', n: 1, val: "a"}, {kind: 'c', n: 256}, {kind: 's', n: 1, val: "b"}, {kind: 'c', n: 300}, {kind: 's', n: 1, val: "cc", opts: []string{"R"}},
		{kind: 'r'}, {kind: 's', n: 1, val: "x"}, {kind: 'c', n: 256}, {kind: 's', n: 1, val: "yyy"}, {kind: 'c', n: 300}, {kind: 's', n: 1, val: "z", opts: []string{"R"}}},
		map[string]bool{"wide": true, "missing": true})
	runTab([]op{{kind: 'r'}, {kind: 'c', n: 1}, {kind: 's', n: 260, val: "a header over 260 columns", opts: []string{"C", "M │ "}}, {kind: 'c', n: 261}, {kind: 's', n: 1, val: "", opts: []string{"M │"}},
		{kind: 'r'}, {kind: 's', n: 1, val: "row"}, {kind: 'c', n: 5}, {kind: 's', n: 1, val: "v", opts: []string{"R"}}, {kind: 'c', n: 258}, {kind: 's', n: 1, val: "w", opts: []string{"R"}},
		{kind: 'k', n: 257, b: true}, {kind: 'k', n: 6, b: true}},
		map[string]bool{"wide": true, "span": true, "shrink": true, "margin": true})
	// moving to an earlier column panics
	runTab([]op{{kind: 'r'}, {kind: 'c', n: 3}, {kind: 's', n: 1, val: "a"}, {kind: 'c', n: 1}}, map[string]bool{"missing": true, "back": true})
	// … because otherwise a later cell can be put on top of an earlier one
	runTab([]op{{kind: 'r'}, {kind: 'c', n: 3}, {kind: 's', n: 1, val: "aaaa"}, {kind: 'c', n: 1}, {kind: 's', n: 3, val: "bbbbbbbb"},
		{kind: 'r'}, {kind: 's', n: 1, val: "x"}, {kind: 's', n: 1, val: "y"}, {kind: 's', n: 1, val: "z"}}, map[string]bool{"span": true, "back": true})
	n := hx.N(2500, 60000)
	for i := 0; i < n; i++ {
		var ops []op
		var tags map[string]bool
		switch {
		case i%5 == 4:
			ops, tags = genBenchstatShape(r)
		case i%5 == 3:
			ops, tags = genTable(r, 3, 4) // small shapes: dense coverage of the distribution loop
		default:
			ops, tags = genTable(r, 8, 10)
		}
		runTab(ops, tags)
	}
}

// ---------------------------------------------------------------- key headers

func showNodes(ns []*benchproc.KeyHeaderNode) string {
	if len(ns) == 0 {
		return "-"
	}
	var sb strings.Builder
	var rec func(n *benchproc.KeyHeaderNode)
	rec = func(n *benchproc.KeyHeaderNode) {
		fmt.Fprintf(&sb, "{%d:%s:%d:%d", n.Field, hx.HexS(n.Value), n.Start, n.Len)
		for _, c := range n.Children {
			rec(c)
		}
		sb.WriteString("}")
	}
	for _, n := range ns {
		rec(n)
	}
	return sb.String()
}

var khValues = []string{"a", "b", "", "é", "a b", "c"}

// values a "@num" order cannot tell apart: 1000/1k, 1/1.0, go1.2/go1.20 (fuzzy number parser),
// two non-numeric values
var numTies = []string{"1000", "1k", "1", "1.0", "go1.2", "go1.20", "x", "y", "2"}

// khNum marks which fields of the next runKh/hdr projection are ordered "@num" (non-injective)
var khNum []bool

func projNames(names []string) string {
	out := make([]string, len(names))
	for i, n := range names {
		out[i] = n
		if i < len(khNum) && khNum[i] {
			out[i] += "@num"
		}
	}
	return strings.Join(out, ",")
}

func runKh(vals [][]string, nf int, tag string) {
	defer func() {
		if e := recover(); e != nil {
			hx.Printf("crash %d %v\n", id, e)
			id++
		}
	}()
	names := []string{"f0", "f1", "f2", "f3"}[:nf]
	var pp benchproc.ProjectionParser
	proj, err := pp.Parse(projNames(names), nil)
	if err != nil {
		panic(err)
	}
	var keys []benchproc.Key
	for _, v := range vals {
		res := &benchfmt.Result{Name: benchfmt.Name("X")}
		for j, name := range names {
			res.SetConfig(name, v[j])
		}
		keys = append(keys, proj.Project(res))
	}
	emitKh(keys, proj, tag)
}

// emitKh prints case/obs/sobs for the header tree of real keys of one projection
func emitKh(keys []benchproc.Key, proj *benchproc.Projection, tag string) {
	kh := benchproc.NewKeyHeader(keys)
	// the field values as the real keys report them
	fields := proj.FlattenedFields()
	var ks []string
	for _, k := range keys {
		var fs []string
		for _, f := range fields {
			fs = append(fs, hx.HexS(k.Get(f)))
		}
		ks = append(ks, strings.Join(fs, ","))
	}
	hx.Printf("case %d kind=kh nf=%d nk=%d keys=%s tag=%s\n", id, len(fields), len(keys), strings.Join(ks, ";"), tag)
	hx.Printf("obs %d tree=%s\n", id, showNodes(kh.Top))
	// spec vocabulary: the header cells of every level, left to right, as ToText walks them
	var lv []string
	nodes := kh.Top
	for len(nodes) > 0 {
		var next []*benchproc.KeyHeaderNode
		var cells []string
		for _, n := range nodes {
			cells = append(cells, fmt.Sprintf("%s:%d:%d", hx.HexS(n.Value), n.Start, n.Len))
			next = append(next, n.Children...)
		}
		lv = append(lv, strings.Join(cells, ","))
		nodes = next
	}
	for len(lv) < len(fields) && len(keys) == 0 {
		lv = append(lv, "-")
	}
	if len(lv) == 0 {
		lv = []string{"-"}
	}
	// state and aliasing: a second NewKeyHeader over the same slice gives the same tree, leaves the
	// first tree and the caller's key slice as they were
	fresh := "same"
	before := append([]benchproc.Key(nil), keys...)
	first := showNodes(kh.Top)
	kh2 := benchproc.NewKeyHeader(keys)
	if showNodes(kh2.Top) != first || showNodes(kh.Top) != first {
		fresh = "diff:tree"
	}
	for i := range before {
		if before[i] != keys[i] {
			fresh = "diff:keys"
		}
	}
	if len(kh.Keys) != len(keys) {
		fresh = "diff:len"
	}
	hx.Printf("sobs %d lv=%s fresh=%s\n", id, strings.Join(lv, "/"), fresh)
	id++
}

// mixedProjs: column projections that mix the `.config` GROUP with explicit keys, in both orders and
// with the group between two explicit keys: the storage order of a key's values (allocation order of
// the fields) then differs from the flattened field order.
var mixedProjs = []string{".config,/impl", "/impl,.config", "/a,.config,/impl", ".config,/impl,/a", "/impl,/a,.config"}

// mixedKeys builds real keys for one of mixedProjs from results whose file-config keys are
// discovered at different times (later results bring config keys the earlier ones did not have).
func mixedKeys(r *hx.Rand, spec string) ([]benchproc.Key, *benchproc.Projection) {
	var pp benchproc.ProjectionParser
	proj, err := pp.Parse(spec, nil)
	if err != nil {
		panic(err)
	}
	nk := 2 + r.Intn(7)
	cfgKeys := []string{"goos", "goarch", "pkg"}
	var keys []benchproc.Key
	for i := 0; i < nk; i++ {
		name := fmt.Sprintf("X/impl=%s/a=%s", hx.Pick(r, []string{"a", "b", "c"}), hx.Pick(r, []string{"1", "2"}))
		res := &benchfmt.Result{Name: benchfmt.Name(name)}
		ncfg := 1 + r.Intn(3)
		if i < nk/2 {
			ncfg = 1 // the later config keys are discovered late
		}
		for c := 0; c < ncfg; c++ {
			res.Config = append(res.Config, benchfmt.Config{Key: cfgKeys[c],
				Value: []byte(hx.Pick(r, [][]string{{"linux", "darwin"}, {"amd64", "arm64"}, {"p", "q"}}[c])), File: true})
		}
		k := proj.Project(res)
		if i > 0 && r.Chance(1, 3) {
			k = keys[len(keys)-1] // adjacent equal keys are legal input for a header
		}
		keys = append(keys, k)
	}
	return keys, proj
}

func khCases(r *hx.Rand) {
	// the example of the doc comment and repeated values in non-adjacent positions
	runKh([][]string{{"1", "1", "1"}, {"1", "1", "2"}, {"2", "2", "2"}, {"2", "3", "3"}}, 3, "multi")
	runKh([][]string{{"a"}, {"b"}, {"a"}}, 1, "repeat")
	runKh([][]string{{"a", "x"}, {"b", "x"}, {"b", "x"}, {"a", "x"}}, 2, "multi+repeat+samechild")
	runKh(nil, 0, "trivial")
	// C16-I witnesses: distinct values that tie under the field's order stay separate header cells
	khNum = []bool{true}
	runKh([][]string{{"1000"}, {"1k"}, {"1"}, {"1.0"}}, 1, "keys+numtie")
	khNum = []bool{true, false}
	runKh([][]string{{"x", "a"}, {"y", "a"}, {"go1.2", "b"}, {"go1.20", "b"}}, 2, "keys+multi+numtie")
	khNum = nil
	// C16-Q: the .config group before / after / between explicit keys
	for i := 0; i < hx.N(200, 4000); i++ {
		spec := mixedProjs[i%len(mixedProjs)]
		keys, proj := mixedKeys(r, spec)
		emitKh(keys, proj, "keys+multi+cfggroup")
	}
	n := hx.N(800, 30000)
	for i := 0; i < n; i++ {
		nf := r.Intn(5)
		nk := r.Intn(9)
		if r.Chance(1, 20) {
			nk = 9 + r.Intn(20)
		}
		alpha := 1 + r.Intn(4)
		vals := make([][]string, nk)
		tags := map[string]bool{}
		khNum = make([]bool, nf)
		for b := range khNum {
			khNum[b] = r.Chance(1, 4)
			if khNum[b] {
				tags["numtie"] = true
			}
		}
		for a := range vals {
			vals[a] = make([]string, nf)
			for b := range vals[a] {
				vals[a][b] = khValues[r.Intn(alpha)]
				if khNum[b] {
					vals[a][b] = numTies[r.Intn(2+2*alpha)%len(numTies)]
				}
			}
			if a > 0 && r.Chance(1, 3) { // long common prefixes
				copy(vals[a], vals[a-1][:r.Intn(nf+1)])
			}
		}
		if nf >= 2 {
			tags["multi"] = true
		}
		for a := 2; a < nk; a++ {
			for b := 0; b < a-1; b++ {
				if nf > 0 && vals[a][0] == vals[b][0] && vals[a-1][0] != vals[a][0] {
					tags["repeat"] = true
				}
			}
		}
		if nk > 0 && nf > 0 {
			tags["keys"] = true
		}
		var tl []string
		for _, k := range []string{"keys", "multi", "repeat", "numtie"} {
			if tags[k] {
				tl = append(tl, k)
			}
		}
		tag := "trivial"
		if len(tl) > 0 {
			tag = strings.Join(tl, "+")
		}
		runKh(vals, nf, tag)
	}
	khNum = nil
}

// ---------------------------------------------------------------- benchstat text vs CSV

// spanHint replays Format's unstable sort for the table ToText builds from t: the spans of the
// cells in the order ToText adds them, derived from the Table's data and the real KeyHeader.
func spanHint(t *benchtab.Table) []int {
	startCol := func(exp int) int {
		if exp == 0 {
			return 1
		}
		return 1 + 3 + (exp-1)*6
	}
	var spans []int
	kh := benchproc.NewKeyHeader(t.Cols)
	nodes := kh.Top
	for len(nodes) > 0 {
		var next []*benchproc.KeyHeaderNode
		for _, n := range nodes {
			spans = append(spans, startCol(n.Start+n.Len)-startCol(n.Start))
			next = append(next, n.Children...)
		}
		spans = append(spans, 1)
		nodes = next
	}
	for i := range t.Cols {
		spans = append(spans, 3)
		if i > 0 {
			spans = append(spans, 3)
		}
	}
	spans = append(spans, 1)
	for _, n := range benchtab.VerifCellCounts(t) {
		for i := 0; i < n; i++ {
			spans = append(spans, 1)
		}
	}
	return texttab.VerifSpanOrderOf(spans)
}

// runTable: one benchtab.Table rendered both ways by the real code; the case line carries the
// cells view for the model.
func runTable(t *benchtab.Table, tag string) {
	myid := id
	id++
	view := benchtab.VerifView(t)
	hx.Printf("case %d kind=tbl %s perm=%s start=1 tag=%s\n", myid, view, intsString(spanHint(t)), tag)
	text := "!panic"
	func() {
		defer func() {
			if e := recover(); e != nil {
				hx.Printf("crash %d ToText: %v\n", myid, e)
			}
		}()
		var tb bytes.Buffer
		if err := t.ToText(&tb, false); err != nil {
			text = "!err"
			return
		}
		text = hx.Hex(tb.Bytes())
	}()
	csvOut, warn, n := "!panic", "", 0
	func() {
		defer func() {
			if e := recover(); e != nil {
				hx.Printf("crash %d ToCSV: %v\n", myid, e)
			}
		}()
		var cb, wb bytes.Buffer
		w := csv.NewWriter(&cb)
		n = t.ToCSV(w, 1, &wb)
		w.Flush()
		csvOut, warn = hx.Hex(cb.Bytes()), hx.Hex(wb.Bytes())
	}()
	hx.Printf("obs %d text=%s csv=%s warn=%s n=%d\n", myid, text, csvOut, warn, n)
	// state and aliasing: the same Table rendered again (text after CSV, CSV after text) gives the
	// same bytes, and rendering leaves the Table (keys, cells, summaries: its view) unchanged
	fresh := "same"
	func() {
		defer func() {
			if e := recover(); e != nil {
				fresh = "diff:panic"
			}
		}()
		colsBefore := append([]benchproc.Key(nil), t.Cols...)
		rowsBefore := append([]benchproc.Key(nil), t.Rows...)
		var tb2, cb2, wb2, tb3 bytes.Buffer
		w := csv.NewWriter(&cb2)
		n2 := t.ToCSV(w, 1, &wb2)
		w.Flush()
		if text != "!panic" {
			t.ToText(&tb2, false)
			t.ToText(&tb3, false)
			if hx.Hex(tb2.Bytes()) != text || !bytes.Equal(tb2.Bytes(), tb3.Bytes()) {
				fresh = "diff:text"
			}
		}
		if csvOut != "!panic" && (hx.Hex(cb2.Bytes()) != csvOut || hx.Hex(wb2.Bytes()) != warn || n2 != n) {
			fresh = "diff:csv"
		}
		if benchtab.VerifView(t) != view {
			fresh = "diff:view"
		}
		if len(colsBefore) != len(t.Cols) || len(rowsBefore) != len(t.Rows) {
			fresh = "diff:keys"
		}
		for i := range colsBefore {
			if i < len(t.Cols) && colsBefore[i] != t.Cols[i] {
				fresh = "diff:cols"
			}
		}
		for i := range rowsBefore {
			if i < len(t.Rows) && rowsBefore[i] != t.Rows[i] {
				fresh = "diff:rows"
			}
		}
	}()
	hx.Printf("sobs %d agree=ok hdr=ok layout=ok fresh=%s\n", myid, fresh)
}

// benchstatTables drives the pipeline of cmd/benchstat/main.go in-process.
// curTableBy is the -table projection of the runs that follow (default as in benchstat)
var curTableBy = ".config"

func benchstatTables(paths []string, rowBy, colBy string) (*benchtab.Tables, error) {
	filter, err := benchproc.NewFilter("*")
	if err != nil {
		return nil, err
	}
	var parser benchproc.ProjectionParser
	tableBy, _, err := parser.ParseWithUnit(curTableBy, filter)
	if err != nil {
		return nil, err
	}
	rowP, err := parser.Parse(rowBy, filter)
	if err != nil {
		return nil, err
	}
	colP, err := parser.Parse(colBy, filter)
	if err != nil {
		return nil, err
	}
	residue := parser.Residue()
	thresholds := benchmath.DefaultThresholds
	stat := benchtab.NewBuilder(tableBy, rowP, colP, residue)
	files := benchfmt.Files{Paths: paths, AllowStdin: false, AllowLabels: true}
	for files.Scan() {
		switch rec := files.Result(); rec := rec.(type) {
		case *benchfmt.Result:
			if ok, _ := filter.Apply(rec); !ok {
				continue
			}
			stat.Add(rec)
		}
	}
	if err := files.Err(); err != nil {
		return nil, err
	}
	return stat.ToTables(benchtab.TableOpts{Confidence: 0.95, Thresholds: &thresholds, Units: files.Units()}), nil
}

// unitMask, when non-zero, fixes which units the following sampleLines calls report
// (bit 0 ns/op, bit 1 B/op, bit 2 allocs/op): files reporting different units give the tables of
// ONE run different column sets.
var unitMask int

func maskedLines(sb *strings.Builder, r *hx.Rand, name string, scale float64) {
	n := 1 + r.Intn(7)
	base := []float64{3.2, 1718, 1.5e6, 0.85, 1023}[r.Intn(5)] * scale
	for i := 0; i < n; i++ {
		fmt.Fprintf(sb, "Benchmark%s-8 \t%d", name, 1+r.Intn(1000))
		if unitMask&1 != 0 {
			fmt.Fprintf(sb, "\t%s ns/op", strconv.FormatFloat(base*(1+0.02*(r.Float()-0.5)), 'g', 5, 64))
		}
		if unitMask&2 != 0 {
			fmt.Fprintf(sb, "\t%d B/op", 1+r.Intn(5000000))
		}
		if unitMask&4 != 0 {
			fmt.Fprintf(sb, "\t%d allocs/op", 1+r.Intn(30))
		}
		sb.WriteString("\n")
	}
}

func sampleLines(sb *strings.Builder, r *hx.Rand, name string, scale float64, tags map[string]bool) {
	if unitMask != 0 {
		maskedLines(sb, r, name, scale)
		return
	}
	n := 1 + r.Intn(7)
	if r.Chance(1, 3) {
		n = 6 + r.Intn(5) // enough samples for a significant difference
	}
	base := []float64{3.2, 1718, 1.5e6, 2.4e9, 0.85, 99.99, 1023, 47}[r.Intn(8)] * scale
	noise := []float64{0, 0.001, 0.02, 0.3}[r.Intn(4)]
	units := r.Intn(3)
	// zero measurements: the column has no geomean (HasSummary false), ratios are not > 0 ("?")
	zeroNs, zeroB, zeroAllocs := r.Chance(1, 7), r.Chance(1, 4), r.Chance(1, 4)
	if zeroNs || (tags["units"] && units >= 1 && (zeroB || zeroAllocs)) {
		tags["zero"] = true
	}
	for i := 0; i < n; i++ {
		v := base * (1 + noise*(r.Float()-0.5))
		if zeroNs {
			v = 0
		}
		fmt.Fprintf(sb, "Benchmark%s-8 \t%d\t%s ns/op", name, 1+r.Intn(1000), strconv.FormatFloat(v, 'g', 4+r.Intn(4), 64))
		if units >= 1 && tags["units"] {
			b := r.Intn(5000000)
			if zeroB {
				b = 0
			}
			fmt.Fprintf(sb, "\t%d B/op", b)
			if units >= 2 {
				a := 1 + r.Intn(30)
				if zeroAllocs {
					a = 0
				}
				fmt.Fprintf(sb, "\t%d allocs/op", a)
			}
		}
		sb.WriteString("\n")
	}
}

func genFile(r *hx.Rand, benches []string, pkgs []string, scale float64, tags map[string]bool) string {
	var sb strings.Builder
	sb.WriteString("goos: linux\n")
	for _, pkg := range pkgs {
		if pkg != "" {
			fmt.Fprintf(&sb, "pkg: %s\n", pkg)
		}
		for _, b := range benches {
			sampleLines(&sb, r, b, scale, tags)
		}
	}
	return sb.String()
}

// scenario = input files and projections
type scenario struct {
	paths        []string
	rowBy, colBy string
	tags         map[string]bool
}

// filesScenario: columns are files (the classic benchstat use), optional extra header level.
func filesScenario(r *hx.Rand, dir string) scenario {
	tags := map[string]bool{}
	if r.Chance(1, 3) {
		tags["units"] = true
	}
	nfiles := 1 + r.Intn(3)
	all := []string{"A", "Encode/size=10", "Decode", "B/k=1/j=x", "C"}
	pool := all[:1+r.Intn(4)]
	pkgs := []string{""}
	if r.Chance(1, 4) {
		tags["tables"] = true
		pkgs = []string{"p/one", "p/two"}
	}
	f14 := nfiles >= 2 && r.Chance(1, 3)
	// units present in different files: the tables of this run have different column sets with the
	// same first column (and often the same number of columns)
	var masks []int
	if nfiles == 3 && r.Chance(1, 2) {
		f14 = false
		tags["colsets"] = true
		masks = [][]int{{3, 1, 2}, {7, 1, 2}, {7, 3, 5}, {3, 2, 1}, {7, 6, 1}, {7, 4, 2}}[r.Intn(6)]
	}
	noteFile := -1
	if nfiles >= 2 && r.Chance(1, 5) {
		noteFile = r.Intn(nfiles)
		tags["emptykey"] = true
		tags["tables"] = true
	}
	var paths []string
	labels := []string{"old", "new", "exp-with-a-long-name"}
	for f := 0; f < nfiles; f++ {
		var benches []string
		for _, b := range pool {
			if r.Chance(5, 6) {
				benches = append(benches, b)
			} else {
				tags["missing"] = true
			}
		}
		if f14 {
			// the F14 shape: the baseline shares no benchmark with the later columns
			tags["nodelta"] = true
			if f == 0 {
				benches = []string{"A"}
			} else {
				benches = []string{"Zed", "Y"}[:1+r.Intn(2)]
			}
		}
		scale := 1.0
		if r.Chance(1, 2) {
			scale = []float64{0.5, 0.9, 1.1, 2, 1000}[r.Intn(5)]
		}
		p := filepath.Join(dir, fmt.Sprintf("f%d.txt", f))
		if len(masks) > 0 {
			unitMask = masks[f]
		}
		content := genFile(r, benches, pkgs, scale, tags)
		if f == noteFile {
			// a file key only this file has: the other files' tables carry it with an EMPTY value
			content = "note: " + hx.Pick(r, []string{"first", "first run, cold cache", "a,b", "6\" pipe", "\"q\""}) + "\n" + content
		}
		os.WriteFile(p, []byte(content), 0o666)
		unitMask = 0
		if r.Chance(2, 3) {
			paths = append(paths, labels[f]+"="+p)
		} else {
			paths = append(paths, p)
		}
	}
	colBy := ".file"
	switch r.Intn(5) {
	case 0:
		tags["levels2"] = true
		colBy = "goos,.file"
	case 1:
		if len(pkgs) > 1 {
			tags["levels2"] = true
			colBy = "pkg,.file"
		}
	}
	if nfiles > 1 {
		tags["compare"] = true
	}
	return scenario{paths, ".fullname", colBy, tags}
}

// treeScenario: columns are keyed by 2-4 keys (sub-name keys /a /b /c /d, optionally led by a
// file-config key or followed by .file): an unbalanced tree whose nodes have 1..4 children.
// Rows optionally by several keys too.
func treeScenario(r *hx.Rand, dir string) scenario {
	tags := map[string]bool{}
	if r.Chance(1, 4) {
		tags["units"] = true
	}
	depth := 2 + r.Intn(3)
	nameKeys := []string{"a", "b", "c", "d"}[:depth]
	cfgLead := r.Chance(1, 4) // the top level is a file-config key "cfg" instead of /a
	numLevel := -1            // one level ordered "@num" with values the order cannot tell apart
	if r.Chance(1, 3) {
		numLevel = r.Intn(depth)
		tags["numtie"] = true
	}
	longVals := r.Chance(1, 5) // header cells wider than the columns under them
	if longVals {
		tags["widehdr"] = true
	}
	tiePool := [][]string{{"1000", "1k", "2", "1"}, {"1", "1.0", "3", "2"}, {"go1.2", "go1.20", "go1.3", "7"}, {"x", "y", "1", "z"}}[r.Intn(4)]
	// leaves of a random unbalanced tree, at most 9
	var leaves [][]string
	var rec func(prefix []string, level int)
	rec = func(prefix []string, level int) {
		if level == depth {
			leaves = append(leaves, append([]string(nil), prefix...))
			return
		}
		k := 1 + r.Intn(4)
		if level > 0 && r.Chance(1, 3) {
			k = 1
		}
		for i := 0; i < k && len(leaves) < 9; i++ {
			v := fmt.Sprintf("%s%d", strings.ToUpper(nameKeys[level]), i+1)
			if level == numLevel {
				v = tiePool[i%4]
			} else if longVals {
				v = fmt.Sprintf("a-rather-long-configuration-value-%s%d", nameKeys[level], i+1)
			} else if r.Chance(1, 8) {
				v = fmt.Sprintf("%s%d", strings.ToUpper(nameKeys[level]), 1+r.Intn(2)) // repeats under different parents
			}
			rec(append(prefix, v), level+1)
		}
	}
	rec(nil, 0)
	multiRow := r.Chance(1, 2)
	rowNames := []string{"X", "Yy", "Zed"}[:1+r.Intn(3)]
	rowKeys := []string{""}
	if multiRow {
		tags["multirow"] = true
		rowKeys = []string{"1", "2", "30"}[:1+r.Intn(3)]
	}
	var sb strings.Builder
	sb.WriteString("goos: linux\n")
	curCfg := ""
	for _, rn := range rowNames {
		for _, rk := range rowKeys {
			for _, leaf := range leaves {
				if r.Chance(1, 7) {
					tags["missing"] = true
					continue
				}
				name := rn
				for i, v := range leaf {
					if i == 0 && cfgLead {
						if v != curCfg {
							fmt.Fprintf(&sb, "cfg: %s\n", v)
							curCfg = v
						}
						continue
					}
					name += "/" + nameKeys[i] + "=" + v
				}
				if rk != "" {
					name += "/r=" + rk
				}
				sampleLines(&sb, r, name, 1, tags)
			}
		}
	}
	p := filepath.Join(dir, "tree.txt")
	os.WriteFile(p, []byte(sb.String()), 0o666)
	paths := []string{p}
	var cols []string
	for i, k := range nameKeys {
		c := "/" + k
		if i == 0 && cfgLead {
			c = "cfg"
		}
		if i == numLevel {
			c += "@num"
		}
		cols = append(cols, c)
	}
	if r.Chance(1, 5) && depth < 4 {
		// a second file with the same benchmarks: .file as the innermost level
		p2 := filepath.Join(dir, "tree2.txt")
		os.WriteFile(p2, []byte(sb.String()), 0o666)
		paths = []string{"one=" + p, "two=" + p2}
		cols = append(cols, ".file")
		depth++
	}
	tags[fmt.Sprintf("levels%d", depth)] = true
	if len(leaves) > 1 {
		tags["compare"] = true
	}
	rowBy := ".fullname"
	if multiRow {
		rowBy = ".name,/r"
	}
	return scenario{paths, rowBy, strings.Join(cols, ","), tags}
}

// cfgScenario: -table "" -row .name -col <mix of the .config group and explicit sub-name keys>; the
// file-config keys are discovered at different times (a later block brings a new key).
func cfgScenario(r *hx.Rand, dir string, spec string) scenario {
	tags := map[string]bool{"cfggroup": true, "compare": true}
	var sb strings.Builder
	blocks := [][]string{{"goos: linux"}, {"goos: darwin"}, {"goos: linux", "goarch: arm64"}, {"goos: darwin", "goarch: arm64", "pkg: p"}}
	nb := 2 + r.Intn(3)
	impls := []string{"a", "b", "c"}[:1+r.Intn(3)]
	for b := 0; b < nb; b++ {
		for _, l := range blocks[b] {
			sb.WriteString(l + "\n")
		}
		for _, name := range []string{"X", "Yy"}[:1+r.Intn(2)] {
			for _, im := range impls {
				if r.Chance(1, 6) {
					tags["missing"] = true
					continue
				}
				sampleLines(&sb, r, fmt.Sprintf("%s/impl=%s/a=%d", name, im, 1+r.Intn(2)), 1, tags)
			}
		}
	}
	p := filepath.Join(dir, "cfg.txt")
	os.WriteFile(p, []byte(sb.String()), 0o666)
	return scenario{[]string{p}, ".name", spec, tags}
}

func tagList(tags map[string]bool, order []string) string {
	var tl []string
	for _, k := range order {
		if tags[k] {
			tl = append(tl, k)
		}
	}
	if len(tl) == 0 {
		return "trivial"
	}
	return strings.Join(tl, "+")
}

var e2eTags = []string{"quotedkey", "wide", "tie", "emptykey", "cfggroup", "warn30", "colsets", "widehdr", "numtie", "zero", "compare", "nodelta", "missing", "tables", "levels2", "levels3", "levels4", "levels5", "multirow", "units", "warn"}

func runScenario(sc scenario) {
	myid := id
	id++
	tables, err := benchstatTables(sc.paths, sc.rowBy, sc.colBy)
	if err != nil {
		hx.Printf("case %d kind=e2e err=%s tag=err\n", myid, hx.HexS(err.Error()))
		return
	}
	text := "!panic"
	var crash string
	func() {
		defer func() {
			if e := recover(); e != nil {
				crash = fmt.Sprint(e)
			}
		}()
		var tb bytes.Buffer
		if err := tables.ToText(&tb, false); err != nil {
			text = "!err"
			return
		}
		text = tb.String()
	}()
	var cb, wb bytes.Buffer
	func() {
		defer func() {
			if e := recover(); e != nil {
				crash += " ToCSV:" + fmt.Sprint(e)
			}
		}()
		tables.ToCSV(&cb, &wb)
	}()
	if strings.Contains(text, "¹") {
		sc.tags["warn"] = true
	}
	tag := tagList(sc.tags, e2eTags)
	if crash != "" {
		hx.Printf("case %d kind=e2e row=%s col=%s csv=%s warn=%s tag=%s\n", myid, hx.HexS(sc.rowBy), hx.HexS(sc.colBy), hx.Hex(cb.Bytes()), hx.Hex(wb.Bytes()), tag)
		hx.Printf("crash %d %s\n", myid, strings.ReplaceAll(crash, "\n", " "))
	} else {
		hx.Printf("case %d kind=e2e row=%s col=%s text=%s csv=%s warn=%s tag=%s\n", myid, hx.HexS(sc.rowBy), hx.HexS(sc.colBy), hx.HexS(text), hx.Hex(cb.Bytes()), hx.Hex(wb.Bytes()), tag)
		hx.Printf("sobs %d agree=ok hdr=ok layout=ok fresh=%s\n", myid, rerender(tables, sc, text, cb.Bytes(), wb.Bytes()))
	}
	// every table on its own: model rendering vs real rendering
	for _, t := range tables.Tables {
		runTable(t, tag)
	}
}

// rerender: the whole output again after every table of the run was rendered on its own (A, B, …
// then A, B again in one process), and the output of a second, fresh pipeline run over the same files.
func rerender(tables *benchtab.Tables, sc scenario, text string, csvBytes, warnBytes []byte) (fresh string) {
	fresh = "same"
	defer func() {
		if e := recover(); e != nil {
			fresh = "diff:panic"
		}
	}()
	check := func(ts *benchtab.Tables, what string) {
		var tb, cb, wb bytes.Buffer
		ts.ToCSV(&cb, &wb)
		ts.ToText(&tb, false)
		if tb.String() != text {
			fresh = "diff:text:" + what
		}
		if !bytes.Equal(cb.Bytes(), csvBytes) || !bytes.Equal(wb.Bytes(), warnBytes) {
			fresh = "diff:csv:" + what
		}
	}
	check(tables, "again")
	t2, err := benchstatTables(sc.paths, sc.rowBy, sc.colBy)
	if err != nil {
		return "diff:pipeline"
	}
	check(t2, "freshrun")
	check(tables, "afterfresh")
	return
}

func e2eCases(r *hx.Rand) {
	dir := filepath.Join("e2e", os.Getenv("VERIF_SHARD"))
	os.MkdirAll(dir, 0o777)
	// the coordinator's witness: three header levels, a non-leaf node preceded by a node with more children
	os.WriteFile(filepath.Join(dir, "w.txt"), []byte("BenchmarkX/a=A1/b=B1/c=C1-8 1 1 ns/op\nBenchmarkX/a=A1/b=B1/c=C2-8 1 2 ns/op\nBenchmarkX/a=A1/b=B2/c=C3-8 1 3 ns/op\n"), 0o666)
	runScenario(scenario{[]string{filepath.Join(dir, "w.txt")}, ".fullname", "/a,/b,/c", map[string]bool{"levels3": true, "compare": true}})
	// testdata/zero.txt-like: a non-baseline column without geomean, two rows (text prints the geomean row) and one row
	os.WriteFile(filepath.Join(dir, "z.txt"), []byte("note: base\nBenchmarkA-8 1 5 ns/op 3 B/op\nBenchmarkB-8 1 7 ns/op 4 B/op\nnote: zero\nBenchmarkA-8 1 0 ns/op 0 B/op\nBenchmarkB-8 1 8 ns/op 0 B/op\nnote: pos\nBenchmarkA-8 1 6 ns/op 2 B/op\nBenchmarkB-8 1 9 ns/op 5 B/op\n"), 0o666)
	runScenario(scenario{[]string{filepath.Join(dir, "z.txt")}, ".fullname", "note", map[string]bool{"zero": true, "compare": true}})
	os.WriteFile(filepath.Join(dir, "z1.txt"), []byte("note: base\nBenchmarkA-8 1 5 ns/op\nnote: zero\nBenchmarkA-8 1 0 ns/op\nnote: pos\nBenchmarkA-8 1 6 ns/op\n"), 0o666)
	runScenario(scenario{[]string{filepath.Join(dir, "z1.txt")}, ".fullname", "note", map[string]bool{"zero": true, "compare": true}})
	// C16-N witness: a.txt reports ns/op and B/op, b.txt only ns/op, c.txt only B/op: two tables in one
	// run with the same first column and the same number of columns but different second columns
	os.WriteFile(filepath.Join(dir, "a.txt"), []byte("BenchmarkX-8 1 5 ns/op 30 B/op\nBenchmarkY-8 1 6 ns/op 40 B/op\n"), 0o666)
	os.WriteFile(filepath.Join(dir, "b.txt"), []byte("BenchmarkX-8 1 7 ns/op\nBenchmarkY-8 1 8 ns/op\n"), 0o666)
	os.WriteFile(filepath.Join(dir, "c.txt"), []byte("BenchmarkX-8 1 50 B/op\nBenchmarkY-8 1 60 B/op\n"), 0o666)
	runScenario(scenario{[]string{filepath.Join(dir, "a.txt"), filepath.Join(dir, "b.txt"), filepath.Join(dir, "c.txt")}, ".fullname", ".file",
		map[string]bool{"colsets": true, "compare": true, "units": true}})
	// C16-O witness: a unit declared assume=exact with 40 benchmarks whose values differ — every row
	// gets its own "exact distribution expected, but values range from X to Y" (> 30 distinct warnings in one table)
	{
		var a, b strings.Builder
		a.WriteString("Unit ns/op assume=exact\n")
		b.WriteString("Unit ns/op assume=exact\n")
		for k := 0; k < 40; k++ {
			fmt.Fprintf(&a, "BenchmarkE%02d-8 1 %d ns/op\nBenchmarkE%02d-8 1 %d ns/op\n", k, 100+k, k, 200+2*k)
			fmt.Fprintf(&b, "BenchmarkE%02d-8 1 %d ns/op\nBenchmarkE%02d-8 1 %d ns/op\n", k, 300+k, k, 300+k)
		}
		os.WriteFile(filepath.Join(dir, "exact-a.txt"), []byte(a.String()), 0o666)
		os.WriteFile(filepath.Join(dir, "exact-b.txt"), []byte(b.String()), 0o666)
		runScenario(scenario{[]string{"old=" + filepath.Join(dir, "exact-a.txt"), "new=" + filepath.Join(dir, "exact-b.txt")}, ".fullname", ".file",
			map[string]bool{"compare": true, "warn30": true}})
	}
	// C16-V: many inputs — benchstat uses six layout columns per input, column 256 is reached with 42
	wides := []int{44}
	if hx.Tier() == "thorough" {
		wides = []int{42, 43, 44, 50, 90}
	}
	for _, nin := range wides {
		var paths []string
		for f := 0; f < nin; f++ {
			p := filepath.Join(dir, fmt.Sprintf("w%02d.txt", f))
			os.WriteFile(p, []byte(fmt.Sprintf("BenchmarkA-8 1 %d ns/op\nBenchmarkB-8 1 %d ns/op\n", 100+f, 2000+3*f)), 0o666)
			paths = append(paths, fmt.Sprintf("i%02d=%s", f, p))
		}
		runScenario(scenario{paths, ".fullname", ".file", map[string]bool{"wide": true, "compare": true}})
	}
	// C16-U: geomean (and per-row) deltas that sit on two-decimal ties: old 200000, new 200000+10k
	ks := []int{13, 19, 21, 31}
	for len(ks) < hx.N(14, 60) {
		ks = append(ks, 1+r.Intn(60))
	}
	if hx.Tier() == "thorough" {
		ks = nil
		for k := 1; k <= 60; k++ {
			ks = append(ks, k)
		}
	}
	for _, k := range ks {
		os.WriteFile(filepath.Join(dir, "t-old.txt"), []byte("BenchmarkA-8 1 200000 ns/op\nBenchmarkB-8 1 200000 ns/op\n"), 0o666)
		os.WriteFile(filepath.Join(dir, "t-new.txt"), []byte(fmt.Sprintf("BenchmarkA-8 1 %d ns/op\nBenchmarkB-8 1 %d ns/op\n", 200000+10*k, 200000+10*k)), 0o666)
		runScenario(scenario{[]string{"old=" + filepath.Join(dir, "t-old.txt"), "new=" + filepath.Join(dir, "t-new.txt")}, ".fullname", ".file",
			map[string]bool{"tie": true, "compare": true}})
	}
	// C16-S: a table key whose value is EMPTY for some tables: a file key present in one file only
	// (both file orders), a sub-name table key absent from some names
	os.WriteFile(filepath.Join(dir, "n1.txt"), []byte("note: first\nBenchmarkA-8 1 1 ns/op\nBenchmarkB-8 1 2 ns/op\n"), 0o666)
	os.WriteFile(filepath.Join(dir, "n2.txt"), []byte("BenchmarkA-8 1 3 ns/op\nBenchmarkB-8 1 4 ns/op\n"), 0o666)
	runScenario(scenario{[]string{filepath.Join(dir, "n1.txt"), filepath.Join(dir, "n2.txt")}, ".fullname", ".file", map[string]bool{"emptykey": true, "tables": true}})
	runScenario(scenario{[]string{filepath.Join(dir, "n2.txt"), filepath.Join(dir, "n1.txt")}, ".fullname", ".file", map[string]bool{"emptykey": true, "tables": true}})
	os.WriteFile(filepath.Join(dir, "k.txt"), []byte("BenchmarkA/k=1-8 1 1 ns/op\nBenchmarkA/k=2-8 1 2 ns/op\nBenchmarkB-8 1 3 ns/op\nBenchmarkA/k=1-8 1 2 ns/op\n"), 0o666)
	curTableBy = "/k"
	runScenario(scenario{[]string{filepath.Join(dir, "k.txt")}, ".name", ".file", map[string]bool{"emptykey": true, "tables": true}})
	os.WriteFile(filepath.Join(dir, "k2.txt"), []byte("BenchmarkB-8 1 3 ns/op\nBenchmarkA/k=1-8 1 1 ns/op\nBenchmarkA/k=2-8 1 2 ns/op\n"), 0o666)
	runScenario(scenario{[]string{filepath.Join(dir, "k2.txt")}, ".name", ".file", map[string]bool{"emptykey": true, "tables": true}})
	curTableBy = ".config"
	// C16-Y: table-key values that need CSV quoting (commas, double quotes, a quote at the start,
	// leading/trailing blanks) — the key line must be ONE record with ONE field in the CSV
	noteVals := []string{"first run, cold cache", "a,b,c", "6\" pipe", "\"quoted\"", "\"", "x, \"y\", z", "  padded  ", "tab\there", ",", "plain"}
	for i := 0; i+1 < len(noteVals); i += 2 {
		os.WriteFile(filepath.Join(dir, "y1.txt"), []byte("note: "+noteVals[i]+"\nBenchmarkA-8 1 1 ns/op\nBenchmarkB-8 1 2 ns/op\n"), 0o666)
		os.WriteFile(filepath.Join(dir, "y2.txt"), []byte("note: "+noteVals[i+1]+"\nBenchmarkA-8 1 3 ns/op\n"), 0o666)
		runScenario(scenario{[]string{filepath.Join(dir, "y1.txt"), filepath.Join(dir, "y2.txt")}, ".fullname", ".file", map[string]bool{"quotedkey": true, "tables": true}})
	}
	// C10-R shape: a row with a zero centre next to two magnitudes of different prefixes (>= 3 columns)
	os.WriteFile(filepath.Join(dir, "s0.txt"), []byte("BenchmarkX-8 1 0 B/op 0 ns/op\nBenchmarkY-8 1 7 B/op 3 ns/op\n"), 0o666)
	os.WriteFile(filepath.Join(dir, "s1.txt"), []byte("BenchmarkX-8 1 5 B/op 12 ns/op\nBenchmarkY-8 1 9 B/op 4 ns/op\n"), 0o666)
	os.WriteFile(filepath.Join(dir, "s2.txt"), []byte("BenchmarkX-8 1 3221225472 B/op 5000000000 ns/op\nBenchmarkY-8 1 8 B/op 5 ns/op\n"), 0o666)
	runScenario(scenario{[]string{filepath.Join(dir, "s0.txt"), filepath.Join(dir, "s1.txt"), filepath.Join(dir, "s2.txt")}, ".fullname", ".file",
		map[string]bool{"zero": true, "compare": true, "units": true}})
	// C16-Q witness and family: -table "" -row .name -col .config,/impl (and the other orders)
	curTableBy = ""
	os.WriteFile(filepath.Join(dir, "q.txt"), []byte("goos: linux\nBenchmarkX/impl=a-8 1 1 ns/op\nBenchmarkX/impl=b-8 1 2 ns/op\ngoos: darwin\nBenchmarkX/impl=a-8 1 3 ns/op\n"), 0o666)
	runScenario(scenario{[]string{filepath.Join(dir, "q.txt")}, ".name", ".config,/impl", map[string]bool{"cfggroup": true, "compare": true}})
	for i := 0; i < hx.N(25, 500); i++ {
		runScenario(cfgScenario(r, dir, mixedProjs[i%len(mixedProjs)]))
	}
	curTableBy = ".config"
	n := hx.N(150, 3000)
	for i := 0; i < n; i++ {
		if i%2 == 0 {
			runScenario(treeScenario(r, dir))
		} else {
			runScenario(filesScenario(r, dir))
		}
	}
}

// ---------------------------------------------------------------- header-only tables

// hdrCases: benchtab.Table values with column keys only (no rows): ToText prints the header
// levels and the unit line, which the model assembles from its KeyHeader.
func hdrCases(r *hx.Rand) {
	run := func(vals [][]string, nf int, unit string, tag string) {
		names := []string{"f0", "f1", "f2", "f3", "f4"}[:nf]
		var pp benchproc.ProjectionParser
		proj, err := pp.Parse(projNames(names), nil)
		if err != nil {
			panic(err)
		}
		var keys []benchproc.Key
		for _, v := range vals {
			res := &benchfmt.Result{Name: benchfmt.Name("X")}
			for j, name := range names {
				res.SetConfig(name, v[j])
			}
			keys = append(keys, proj.Project(res))
		}
		t := &benchtab.Table{Unit: unit, Cols: keys, Cells: map[benchtab.TableKey]*benchtab.TableCell{}, Summary: map[benchproc.Key]*benchtab.TableSummary{}, SummaryLabel: "geomean"}
		if len(keys) == 0 {
			// ToCSV indexes t.Cols[0]; a table without columns is never built by the Builder
			return
		}
		runTable(t, tag)
	}
	run([][]string{{"A1", "B1", "C1"}, {"A1", "B1", "C2"}, {"A1", "B2", "C3"}}, 3, "sec/op", "levels3+unbalanced")
	run([][]string{{"a"}, {"b"}, {"a"}}, 1, "B/op", "repeat")
	khNum = []bool{true, false}
	run([][]string{{"1000", "p"}, {"1k", "p"}, {"1", "q"}, {"1.0", "q"}}, 2, "sec/op", "levels2+numtie")
	khNum = nil
	for i := 0; i < hx.N(150, 3000); i++ {
		keys, _ := mixedKeys(r, mixedProjs[i%len(mixedProjs)])
		t := &benchtab.Table{Unit: "sec/op", Cols: keys, Cells: map[benchtab.TableKey]*benchtab.TableCell{}, Summary: map[benchproc.Key]*benchtab.TableSummary{}, SummaryLabel: "geomean"}
		// a table's columns are distinct keys
		var cols []benchproc.Key
		seen := map[benchproc.Key]bool{}
		for _, k := range keys {
			if !seen[k] {
				seen[k] = true
				cols = append(cols, k)
			}
		}
		t.Cols = cols
		runTable(t, "cfggroup")
	}
	n := hx.N(500, 10000)
	for i := 0; i < n; i++ {
		nf := 1 + r.Intn(5)
		nk := 1 + r.Intn(9)
		alpha := 1 + r.Intn(4)
		vals := make([][]string, nk)
		khNum = make([]bool, nf)
		numtie := false
		for b := range khNum {
			khNum[b] = r.Chance(1, 4)
			numtie = numtie || khNum[b]
		}
		for a := range vals {
			vals[a] = make([]string, nf)
			for b := range vals[a] {
				vals[a][b] = []string{"a", "bb", "", "é", "long value", "c"}[r.Intn(alpha)]
				if b < len(khNum) && khNum[b] {
					vals[a][b] = numTies[r.Intn(2+2*alpha)%len(numTies)]
				}
			}
			if a > 0 && r.Chance(2, 3) { // long common prefixes: deep unbalanced trees
				copy(vals[a], vals[a-1][:r.Intn(nf+1)])
			}
		}
		tag := fmt.Sprintf("levels%d", nf)
		if numtie {
			tag += "+numtie"
		}
		run(vals, nf, hx.Pick(r, []string{"sec/op", "B/op", "x", ""}), tag)
	}
	khNum = nil
}

// ---------------------------------------------------------------- hand-made tables: many warnings

// handCases: benchtab.Table values assembled by hand (real Keys, made-up cells) so that a table
// carries up to 14 DISTINCT warning messages: footnote numbers with two digits, cells with
// several footnotes, warnings on comparisons and summaries.
func handCases(r *hx.Rand) {
	n := hx.N(120, 2500)
	for i := 0; i < n; i++ {
		func() {
			defer func() {
				if e := recover(); e != nil {
					hx.Printf("crash %d hand table: %v\n", id, e)
					id++
				}
			}()
			ncols, nrows := 1+r.Intn(3), 1+r.Intn(4)
			nmsg := 1 + r.Intn(14)
			wmax := 2
			if i%3 == 0 {
				nmsg = 10 + r.Intn(5)
			}
			if i%5 == 4 { // 30-45 distinct messages in one table
				nmsg = 30 + r.Intn(16)
				ncols, nrows, wmax = 2+r.Intn(2), 6+r.Intn(6), 4
			}
			warn := func(max int) []error {
				max = max * wmax / 2
				var out []error
				for k := r.Intn(max + 1); k > 0; k-- {
					out = append(out, fmt.Errorf("made-up warning number %d", 1+r.Intn(nmsg)))
				}
				return out
			}
			var cp, rp benchproc.ProjectionParser
			colProj, err := cp.Parse("f0", nil)
			if err != nil {
				panic(err)
			}
			rowProj, err := rp.Parse(".fullname", nil)
			if err != nil {
				panic(err)
			}
			var cols, rows []benchproc.Key
			for c := 0; c < ncols; c++ {
				res := &benchfmt.Result{Name: benchfmt.Name("X")}
				res.SetConfig("f0", []string{"base", "exp", "third"}[c])
				cols = append(cols, colProj.Project(res))
			}
			for k := 0; k < nrows; k++ {
				name := fmt.Sprintf("R%d", k)
				if k < 4 {
					name = []string{"A", "Bb", "C/x=1", "Dddd"}[k]
				}
				res := &benchfmt.Result{Name: benchfmt.Name(name)}
				rows = append(rows, rowProj.Project(res))
			}
			t := &benchtab.Table{Unit: hx.Pick(r, []string{"sec/op", "B/op"}), Cols: cols, Rows: rows,
				Cells: map[benchtab.TableKey]*benchtab.TableCell{}, Summary: map[benchproc.Key]*benchtab.TableSummary{}, SummaryLabel: "geomean"}
			for _, row := range rows {
				var base *benchtab.TableCell
				for c, col := range cols {
					if r.Chance(1, 6) {
						continue
					}
					v := []float64{1.5e-6, 3.25e-3, 42, 1.1e6}[r.Intn(4)] * (1 + r.Float())
					cell := &benchtab.TableCell{
						Sample:  &benchmath.Sample{Values: []float64{v}, Warnings: warn(2)},
						Summary: benchmath.Summary{Center: v, Lo: v * 0.97, Hi: v * 1.02, Confidence: 0.95, Warnings: warn(2)},
					}
					if c == 0 {
						base = cell
					} else if base != nil {
						cell.Baseline = base
						cell.Comparison = benchmath.Comparison{P: r.Float(), N1: 5, N2: 6, Alpha: 0.05, Warnings: warn(2)}
					}
					t.Cells[benchtab.TableKey{Row: row, Col: col}] = cell
				}
			}
			for c, col := range cols {
				t.Summary[col] = &benchtab.TableSummary{HasSummary: r.Chance(5, 6), Summary: 1e-3 * (1 + r.Float()),
					HasRatio: c > 0 && r.Chance(3, 4), Ratio: 0.5 + r.Float(), Warnings: warn(2)}
			}
			tag := "hand"
			if nmsg >= 10 {
				tag += "+manywarn"
			}
			if nmsg >= 30 {
				tag += "+warn30"
			}
			runTable(t, tag)
		}()
	}
}

func main() {
	defer hx.Flush()
	r := hx.NewRand(16)
	tabCases(r)
	khCases(hx.NewRand(1016))
	e2eCases(hx.NewRand(2016))
	hdrCases(hx.NewRand(3016))
	handCases(hx.NewRand(4016))
}
