import Proofs.C05
