import Proofs.C06
#print axioms C06.match_pure
