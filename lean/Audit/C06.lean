import Proofs.C06
#print axioms C06.denote_and_or
#print axioms C06.eval_test
#print axioms C06.test_out_of_range
#print axioms C06.all_iff
#print axioms C06.any_iff
#print axioms C06.all_any_zero
#print axioms C06.apply_spec
#print axioms C06.apply_zero
#print axioms C06.match_pure
#print axioms C06.value_list_sugar
#print axioms C06.fixed_projection_filter
#print axioms C06.fixed_projection_removes
#print axioms C06.fixed_projection_keeps
