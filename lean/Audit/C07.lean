import Proofs.C07
#print axioms C07.quoted_word_scan
#print axioms C07.quote_expressible
#print axioms C07.quote_expressible_partial
#print axioms C07.bare_word_ok
#print axioms C07.parse_total
#print axioms C07.error_offset_in_range
#print axioms C07.error_is_final
#print axioms C07.unterminated_quote_rejected
#print axioms C07.unterminated_regexp_rejected
#print axioms C07.missing_colon_rejected
#print axioms C07.empty_fixed_list_rejected
#print axioms C07.unknown_order_rejected
#print axioms C07.unit_in_projection_rejected
#print axioms C07.config_in_filter_rejected
#print axioms C07.first_token_error_rejects
#print axioms C07.unterminated_quote_text_rejected
