import Proofs.C07
#print axioms C07.placeholder
