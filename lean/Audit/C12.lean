import Proofs.C12
#print axioms C12.mean_incremental_exact
#print axioms C12.variance_exact
