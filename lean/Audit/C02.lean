import Proofs.C02
#print axioms C02.placeholder
