import Proofs.C02
import Proofs.C02Closed
import Proofs.Facts.C02
#print axioms C02.store_step
#print axioms C02.store_refines_map
#print axioms C02.store_refines_map_from_empty
#print axioms C02.store_independent_of_stale_slots
#print axioms C02.files_labels
#print axioms C02.splitField_is_first_piece
#print axioms C02.fields_are_pieces
#print axioms C02.line_grammar
#print axioms C02.nonascii_never_ascii
#print axioms C02.reader_refines_spec
#print axioms C02.ignored_lines_inert
#print axioms C02.scan_iterates
#print axioms C02.pending_new
#print axioms C02.fields_fuel_sufficient
#print axioms C02.files_no_leak
#print axioms C02.files_refine_spec
#print axioms C02.units_carry
#print axioms C02.reader_refines_spec_limited
#print axioms C02.limit_inactive
#print axioms C02.limit_boundary
#print axioms C02.files_no_leak_limited
#print axioms C02.closed_reader_refines_spec
#print axioms C02.closed_files_refine_spec
#print axioms C02.closed_values_reported
#print axioms C02.closed_values_correctly_rounded_partial
#print axioms C02.Facts.max_line_agrees
#print axioms C02.Facts.too_long_message_agrees
#print axioms C02.Facts.syntax_error_format_pinned
#print axioms C02.Facts.unknown_file_name_agrees
#print axioms C02.Facts.space_mask_agrees
#print axioms C02.Facts.prefixes_agree
#print axioms C02.Facts.bench_line_messages_agree
#print axioms C02.Facts.unit_line_messages_agree
#print axioms C02.Facts.key_value_shape_agrees
#print axioms C02.Facts.files_labels_agree
