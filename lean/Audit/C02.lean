import Proofs.C02
#print axioms C02.store_step
#print axioms C02.store_refines_map
#print axioms C02.store_refines_map_from_empty
#print axioms C02.store_independent_of_stale_slots
#print axioms C02.files_labels
#print axioms C02.reader_refines_spec
#print axioms C02.ignored_lines_inert
#print axioms C02.scan_iterates
#print axioms C02.pending_new
#print axioms C02.fields_fuel_sufficient
#print axioms C02.files_no_leak
#print axioms C02.files_refine_spec
#print axioms C02.units_carry
