import Proofs.C05
import Proofs.C05Store
#print axioms C05.parts_concat
#print axioms C05.parts_eq_spec
#print axioms C05.parts_shape
#print axioms C05.base_eq_parts_fst
#print axioms C05.name_key
#print axioms C05.fullname_key
#print axioms C05.subname_key
#print axioms C05.gomaxprocs_key
#print axioms C05.config_key
#print axioms C05.fullname_excluding_spec
#print axioms C05.config_key_after_history
#print axioms C05.config_key_indexed
#print axioms C05.config_after_api_history
#print axioms C05.config_key_after_api_history
