import Proofs.C05
#print axioms C05.parts_concat
