import Proofs.C09
import Proofs.Facts.C09
#print axioms C09.SignOfWeakOrder.ofRank
#print axioms C09.less_strict_total
#print axioms C09.four_kinds_are_weak_orders
#print axioms C09.less_strict_total_four_kinds
#print axioms C09.sorted_perm_unique
#print axioms C09.sort_independent_of_arrangement
#print axioms C09.alpha_spec
#print axioms C09.ltBytes_iff_lex
#print axioms C09.num_spec
#print axioms C09.fixed_spec
#print axioms C09.fixed_spec_nodup
#print axioms C09.first_order_is_observation_order
#print axioms C09.key_less_strict_total
#print axioms C09.sortKeys_independent
#print axioms C09.parseNum_spec_order
#print axioms C09.less_strict_total_spec_num
#print axioms C09.first_order_is_first_occurrence
#print axioms C09.first_order_is_stream_order
#print axioms C09.Facts.num_order_agrees
#print axioms C09.Facts.num_conds_pinned
#print axioms C09.Facts.less_structure_agrees
