import Proofs.C11
#print axioms C11.errors_spec_empty
#print axioms C11.choose_eq
