import Proofs.C01
#print axioms C01.write_err_silent
