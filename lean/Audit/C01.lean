import Proofs.C01
#print axioms C01.writer_state_tracks_config
#print axioms C01.writer_state_tracks_config_history
#print axioms C01.writer_reader_inv
#print axioms C01.roundtrip_history
#print axioms C01.roundtrip_lines
#print axioms C01.internal_never_file
#print axioms C01.roundtrip_text_partial
#print axioms C01.writeFileConfig_spec
#print axioms C01.history_lines
#print axioms C01.history_clean
#print axioms C01.decodeRune_cut
#print axioms C01.fmtInt_token
