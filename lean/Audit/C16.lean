import Proofs.C16
#print axioms C16.widths_fit
#print axioms C16.widths_fit_margin
#print axioms C16.widths_fit_format
#print axioms C16.widths_fit_prefix_counterexample
#print axioms C16.keyheader_partition
#print axioms C16.keyheader_level_cover
#print axioms C16.columns_align
#print axioms C16.no_trailing_blanks_partial
#print axioms C16.text_csv_same_view_partial
#print axioms C16.builder_order
#print axioms C16.columns_align_format
#print axioms C16.no_trailing_blanks
#print axioms C16.text_csv_same_view
#print axioms C16.header_cells_span_keys
#print axioms C16.text_csv_same_view_summary
