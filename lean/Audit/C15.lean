import Proofs.C15
#print axioms C15.toTablesSched_eq_toTables
#print axioms C15.toTables_order_independent
#print axioms C15.toTables_order_independent_stream
#print axioms C15.render_function_of_tables
#print axioms C15.line_permutation_cells
#print axioms C15.caches_are_memo
#print axioms C15.caches_are_memo_seq
#print axioms C15.cells1_lookup
#print axioms C15.sums2_lookup
