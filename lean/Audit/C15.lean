import Proofs.C15
#print axioms C15.toTablesSched_eq_toTables
#print axioms C15.toTables_order_independent
#print axioms C15.toTables_order_independent_stream
#print axioms C15.render_function_of_tables
#print axioms C15.line_permutation_cells
#print axioms C15.caches_are_memo
#print axioms C15.caches_are_memo_seq
#print axioms C15.cells1_lookup
#print axioms C15.sums2_lookup
#print axioms C15.cellResidue_perm
#print axioms C15.line_permutation_statistics
#print axioms C15.line_permutation_comparison
#print axioms C15.line_permutation_table
#print axioms C15.baseline_depends_on_first_observation
#print axioms C15L.sortFloats_eq_of_perm
#print axioms C15L.clean_of_no_nan_no_mixed_zero
#print axioms C15L.f64Less_iff
