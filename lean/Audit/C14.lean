import Proofs.C14
import Proofs.Facts.C14
#print axioms C14.cells_are_groupBy
#print axioms C14.measurement_in_one_cell
#print axioms C14.default_projection
#print axioms C14.baseline_is_first_sorted_col
#print axioms C14.comparison_against_same_row_baseline
#print axioms C14.sample_perm
#print axioms C14.ratio_rules
#print axioms C14.geomean_row_spec
#print axioms C14.geoMean_spec
#print axioms C14.residue_warning_exact
#print axioms C14.cell_sampleWarnings
#print axioms C14.cells_are_groupBy_raw
#print axioms C14.rows_sorted_by_key_less
#print axioms C14.Facts.flag_defaults_agree
#print axioms C14.Facts.flag_set_agrees
#print axioms C14.Facts.float_defaults_agree
#print axioms C14.Facts.validation_pinned
