import Proofs.C03
#print axioms C03.atof_fast_no_overflow
#print axioms C03.atof_fast_correct
#print axioms C03.atoi_fast_correct
#print axioms C03.parseUint_correct
#print axioms C03.parseInt_correct
#print axioms C03.parseInt_bounds
#print axioms C03.atoi_correct
#print axioms C03.special_correct
#print axioms C03.readFloat_value_partial
#print axioms C03.expLoop_exact
#print axioms C03.pow10_table_exact
#print axioms C03.exact_path_correct_partial
#print axioms C03.errors_become_syntax_errors
#print axioms C03.mantLoop_inv
#print axioms C03.parseFloatSpec_digits
#print axioms C03.ofInt_eq_ofDecimal
