import Proofs.C18
import Proofs.Facts.C18
#print axioms C18.series_order_independent
#print axioms C18.series_order_independent_results
#print axioms C18.cells_iteration_order_independent
#print axioms C18.axes_order_independent
#print axioms C18.cells_hold_exactly_matching_measurements
#print axioms C18.cells_insertion_order_independent
#print axioms C18.replace_latest_wins
#print axioms C18.combine_concatenates
#print axioms C18.bootstrap_ordered
#print axioms C18.bootstrap_unordered_witness
#print axioms C18.bootstrap_unordered_witness_f64
#print axioms C18.bootstrap_rounding_witness_f64
#print axioms C18.bootstrap_within_ratio_range
#print axioms C18.seed_function_of_samples
#print axioms C18.seed_mirror
#print axioms C18.date_same_instant_same_string
#print axioms C18.normalised_sort_is_chronological
#print axioms C18.year_10000_sorts_first
#print axioms C18.Facts.rot_agrees
#print axioms C18.Facts.hash_source_pinned
#print axioms C18.Facts.compact_form_agrees
#print axioms C18.Facts.respell_agrees
#print axioms C18.Facts.input_layout_agrees
#print axioms C18.Facts.output_layout_agrees
#print axioms C18.Facts.layouts_pinned
