import Proofs.C08
#print axioms C08.intern_inv
#print axioms C08.key_eq_iff
#print axioms C08.key_stable
#print axioms C08.key_eq_iff_stream
#print axioms C08.get_is_extracted_partial
#print axioms C08.get_is_extracted_single
#print axioms C08.project_values_no_unit
#print axioms C08.project_values_only_unit
#print axioms C08.nonsingular_spec
#print axioms C08.nonsingular_order
#print axioms C08.fullExcluded_perm_invariant
#print axioms C08.exclusion_order_independent_partial
