import Proofs.C10
#print axioms C10.fmtFixed_half_ulp
#print axioms C10.fmtFixed_mono
#print axioms C10.boundary_table
#print axioms C10.classOf_spec
#print axioms F64.rne_half_unit
#print axioms F64.rne_scale
#print axioms F64.rne_mono_rat
