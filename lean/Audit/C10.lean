import Proofs.C10
import Proofs.Lemmas.C10Lift
import Proofs.Lemmas.F64Exact
#print axioms C10.fmtFixed_half_ulp
#print axioms C10.fmtFixed_mono
#print axioms C10.boundary_table
#print axioms C10.classOf_spec
#print axioms F64.rne_half_unit
#print axioms F64.rne_scale
#print axioms F64.rne_mono_rat
#print axioms C10.printedK_mono
#print axioms C10.row_lift
#print axioms C10.row_lift_lower
#print axioms C10.sigfig_lift
#print axioms C10.tables_posFin
#print axioms F64.shiftOf_spec
#print axioms F64.shiftOf_antitone
#print axioms F64.roundMag_mono
#print axioms F64.div_mono
#print axioms F64.val_mono
#print axioms F64.roundMag_exact
#print axioms F64.mul_one
