import Proofs.C10
import Proofs.Lemmas.C10Lift
import Proofs.Lemmas.F64Exact
import Proofs.Lemmas.F64Text
import Proofs.Lemmas.F64Shortest
import Proofs.Lemmas.F64Arith
import Proofs.Lemmas.F64Dec
import Proofs.Lemmas.F64Sign
#print axioms C10.fmtFixed_half_ulp
#print axioms C10.fmtFixed_mono
#print axioms C10.boundary_table
#print axioms C10.classOf_spec
#print axioms F64.rne_half_unit
#print axioms F64.rne_scale
#print axioms F64.rne_mono_rat
#print axioms C10.printedK_mono
#print axioms C10.row_lift
#print axioms C10.row_lift_lower
#print axioms C10.sigfig_lift
#print axioms C10.tables_posFin
#print axioms F64.shiftOf_spec
#print axioms F64.shiftOf_antitone
#print axioms F64.roundMag_mono
#print axioms F64.div_mono
#print axioms F64.val_mono
#print axioms F64.roundMag_exact
#print axioms F64.mul_one
#print axioms C10.printedK_abs
#print axioms C10.row_lift_signed
#print axioms C10.row_lift_lower_signed
#print axioms C10.fmtFixed_neg
#print axioms C10.format_neg
#print axioms F64.lt_iff_sval
#print axioms F64.roundQ_mono
#print axioms F64.roundQ_exact
#print axioms F64.add_eq
#print axioms F64.add_comm
#print axioms F64.mul_eq
#print axioms F64.div_eq_roundQ
#print axioms F64.ofDecimal_eq
#print axioms F64.parse_of_within_half_ulp
#print axioms F64.Text.parse_fmtFixed
#print axioms F64.Text.fmtFixed_reads_back
#print axioms F64.shortest_reads_back
#print axioms F64.exists_isShortest
#print axioms F64.shortestLen_le_17
