import Proofs.C04
import Proofs.Facts.C04
#print axioms C04.tidy_fastpaths_agree
#print axioms C04.tidy_uncached_spec
#print axioms C04.tidy_spec
#print axioms C04.tidy_value_spec
#print axioms C04.no_ns_MB_substring
#print axioms C04.reader_reports_base_unit
#print axioms C04.reader_is_report
#print axioms C04.reported_unit_value_independent
#print axioms C04.unit_filter_matches_either
#print axioms C04.tidy_idempotent_unit
#print axioms C04.reported_unit_is_base
#print axioms C04.passes_through_untouched
#print axioms C04.metadata_lookup_tidy_invariant
#print axioms C04.getBetter_tidy_invariant
#print axioms C04.getBetter_default_literal
#print axioms C04.metadata_recorded_found
#print axioms C04.tidy_idempotent_partial
#print axioms F64.mul_nan_canon
#print axioms C04.tidy_idempotent
#print axioms C04.Facts.fast_table_agrees
#print axioms C04.Facts.prefilter_agrees
#print axioms C04.Facts.edit_constants_agree
#print axioms C04.Facts.apply_expr_agrees
#print axioms C04.Facts.mayNeedTidy_agrees
#print axioms C04.Facts.scan_agrees
#print axioms C04.zero_edit_is_identity
