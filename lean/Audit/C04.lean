import Proofs.C04
#print axioms C04.tidy_fastpaths_agree
