import Proofs.C04
#print axioms C04.tidy_fastpaths_agree
#print axioms C04.tidy_uncached_spec
#print axioms C04.tidy_spec
#print axioms C04.tidy_value_spec
#print axioms C04.no_ns_MB_substring
#print axioms C04.reader_reports_base_unit
#print axioms C04.reader_is_report
#print axioms C04.reported_unit_value_independent
#print axioms C04.unit_filter_matches_either
