import Proofs.C20
import Proofs.Facts.C20
#print axioms C20.reachable_wf
#print axioms C20.single_fault_atomic
#print axioms C20.fault_is_reported
#print axioms C20.single_fault_atomic_full
#print axioms C20.success_complete
#print axioms C20.stored_file_format
#print axioms C20.success_keeps_earlier
#print axioms C20.ids_format_monotone
#print axioms C20.renderId_shape
#print axioms C20.id_has_request_day
#print axioms C20.single_fault_atomic_ops
#print axioms C20.success_complete_ops
#print axioms C20.replace_upload_effect
#print axioms C20.id_never_reused
#print axioms C20.ids_monotone_after_reindex
#print axioms C20.ids_unique_all_interleavings
#print axioms C20.Facts.upload_id_format_agrees
#print axioms C20.Facts.flushG_eq
#print axioms C20.Facts.flush_threshold_agrees
#print axioms C20.Facts.db_constants_pinned
