import Proofs.C20
#print axioms C20.failed_upload_leaves_records
