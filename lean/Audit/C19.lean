import Proofs.C19
#print axioms C19.merge_is_conjunction_generic
#print axioms C19.merge_is_conjunction_partial
#print axioms C19.merge_empty_value_counterexample
#print axioms C19.merge_keeps_key
#print axioms C19.splitwords_quote
#print axioms C19.splitwords_addToQuery
#print axioms C19.splitwords_spec
#print axioms C19.query_result_spec
#print axioms C19.query_unsat_spec
