import Proofs.C19
#print axioms C19.merge_is_conjunction_generic
#print axioms C19.merge_is_conjunction_partial
#print axioms C19.merge_empty_value_counterexample
#print axioms C19.merge_keeps_key
#print axioms C19.splitwords_quote
#print axioms C19.splitwords_addToQuery
#print axioms C19.splitwords_spec
#print axioms C19.query_result_spec
#print axioms C19.query_unsat_spec
#print axioms C19.printer_reader_roundtrip_partial
#print axioms C19.printer_reader_blank_counterexample
#print axioms C19.printer_reader_cr_counterexample
#print axioms C19.coalesce_spec_partial
#print axioms C19.sameLabels_counterexample
#print axioms C19.listing_spec_partial
