import Proofs.C19
#print axioms C19.placeholder
