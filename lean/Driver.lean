import Driver.C05
