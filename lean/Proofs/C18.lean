/-
C18 — comparison series depend only on the result set; bootstrap summaries are sane.
Property theorems only (helpers: Proofs/Lemmas/C18*.lean).
-/
import Proofs.Lemmas.C18Range
import Proofs.Lemmas.C18Date
import Proofs.Lemmas.C18Series
import Proofs.Lemmas.C18Order
import Proofs.Lemmas.C18Build
import Proofs.Lemmas.C18Assemble

namespace C18
open Series.Boot Series Series.Date

/-! ## Bootstrap summaries (exact arithmetic instance `rat` of the algorithm that the
correspondence run ties to the real code through its float64 instance) -/

/-- **bootstrap_ordered** — low ≤ centre ≤ high for every sample, resample count N ≥ 1, PRNG
stream and confidence in [0,1] with N·p ≤ (N−1)/2, p = (1−confidence)/2, i.e. confidence ≥ 1/N.
The hypothesis is forced: outside it the property fails (next theorems; recorded defect N3). -/
theorem bootstrap_ordered (nu de : List Rat) (conf : Rat) (n : Nat) (stream : List Nat)
    (hn : 0 < n) (h1 : conf ≤ 1)
    (hN3 : 2 * ((n : Rat) * ((1 - conf) / 2)) ≤ (n : Rat) - 1) :
    (ratio rat nu de conf n stream).low ≤ (ratio rat nu de conf n stream).center ∧
    (ratio rat nu de conf n stream).center ≤ (ratio rat nu de conf n stream).high := by
  unfold ratio
  have hlen : (sort rat (ratios rat nu de n stream)).length = n := by
    rw [(sort_perm _).length_eq, ratios_length]
  have hne : sort rat (ratios rat nu de n stream) ≠ [] := by
    intro h; rw [h] at hlen; simp at hlen; omega
  have hm := mono_of_pairwise (sort_sorted (ratios rat nu de n stream))
  have hnq : (1 : Rat) ≤ (n : Rat) := by exact_mod_cast hn
  -- N·(1-conf) ≤ N-1 gives conf ≥ 1/N > 0
  have hc0 : 0 ≤ conf := by
    by_contra hc
    have : (n : Rat) * (1 - conf) > (n : Rat) * 1 := by
      apply mul_lt_mul_of_pos_left _ (by linarith)
      linarith
    nlinarith
  rw [summarize_low, summarize_high, summarize_center]
  constructor
  · apply low_le_median hm hne (by linarith)
    rw [hlen]; exact hN3
  · apply median_le_high hm hne <;> linarith

/-- **bootstrap_unordered_witness** — outside the hypothesis of `bootstrap_ordered` the order
fails: two resamples with ratios 0 and 1 at confidence 1/10 give low = 9/10 > centre = 1/2. -/
theorem bootstrap_unordered_witness :
    (summarize rat [0, 1] (1 / 10)).center < (summarize rat [0, 1] (1 / 10)).low := by
  decide +kernel

/-- the same witness in float64, as the real code computes it (ratios 3/7 and 2.5, confidence 0.1:
Low = 2.29… > Center = 1.46…) -/
theorem bootstrap_unordered_witness_f64 :
    F64.lt (summarize f64 [0x3FDB6DB6DB6DB6DB, 0x4004000000000000] 0x3FB999999999999A).center
           (summarize f64 [0x3FDB6DB6DB6DB6DB, 0x4004000000000000] 0x3FB999999999999A).low = true := by
  decide +kernel

/-- in float64 the interpolation between two *equal* neighbours can round one ulp away: three
resamples all equal to c = 0x3FEC609F22374D71 at confidence 0.8 give Low = c − 1ulp, below every
attainable ratio (recorded defect N3R) -/
theorem bootstrap_rounding_witness_f64 :
    (summarize f64 [0x3FEC609F22374D71, 0x3FEC609F22374D71, 0x3FEC609F22374D71] 0x3FE999999999999A).low
      = 0x3FEC609F22374D70 := by
  decide +kernel

/-- **bootstrap_within_ratio_range** — for positive measurements (numerators in [nl, nh],
denominators in [dl, dh], 0 < nl, 0 < dl) the three summary values lie between the smallest and the
largest attainable ratio nl/dh and nh/dl, for every N ≥ 1, confidence in [0,1] and PRNG stream
(long enough for the N resamples). -/
theorem bootstrap_within_ratio_range (nu de : List Rat) (conf : Rat) (n : Nat) (stream : List Nat)
    (nl nh dl dh : Rat) (hnu : Within nl nh nu) (hde : Within dl dh de) (hnu0 : nu ≠ []) (hde0 : de ≠ [])
    (hnl : 0 < nl) (hdl : 0 < dl) (hn : 0 < n) (hs : n * (nu.length + de.length) ≤ stream.length)
    (h0 : 0 ≤ conf) (h1 : conf ≤ 1) :
    (nl / dh ≤ (ratio rat nu de conf n stream).low ∧ (ratio rat nu de conf n stream).low ≤ nh / dl) ∧
    (nl / dh ≤ (ratio rat nu de conf n stream).center ∧ (ratio rat nu de conf n stream).center ≤ nh / dl) ∧
    (nl / dh ≤ (ratio rat nu de conf n stream).high ∧ (ratio rat nu de conf n stream).high ≤ nh / dl) := by
  unfold ratio
  have hw : Within (nl / dh) (nh / dl) (sort rat (ratios rat nu de n stream)) :=
    within_of_perm (sort_perm _) (ratios_within hnu hde hnu0 hde0 hnl hdl n stream hs)
  have hne : sort rat (ratios rat nu de n stream) ≠ [] := by
    intro h
    have hlen : (sort rat (ratios rat nu de n stream)).length = n := by
      rw [(sort_perm _).length_eq, ratios_length]
    rw [h] at hlen; simp at hlen; omega
  rw [summarize_low, summarize_high, summarize_center]
  refine ⟨percentile_within hw hne (by linarith) (by linarith), median_within hw hne,
    percentile_within hw hne (by linarith) (by linarith)⟩

example : Within 1 3 [1, 2, 3] := by intro v hv; simp at hv; rcases hv with rfl | rfl | rfl <;> norm_num

/-- **seed_function_of_samples** — reproducibility: the bootstrap of a comparison is a function of
the two samples, the confidence and N alone: the PRNG is seeded with `seed nu de`, which reads
nothing but the value bits, so equal samples give equal summaries for any generator `rng`
(math/rand, a deterministic function of its seed, is the parameter). -/
theorem seed_function_of_samples (rng : UInt64 → List Nat) (nu de nu' de' : List F64.Bits) (conf : F64.Bits) (n : Nat)
    (hnu : nu = nu') (hde : de = de') :
    seed nu de = seed nu' de' ∧
    ratio f64 nu de conf n (rng (seed nu de)) = ratio f64 nu' de' conf n (rng (seed nu' de')) := by
  subst hnu; subst hde; exact ⟨rfl, rfl⟩

/-- the seed is symmetric in the two samples (a product of the two hashes): a point whose samples
mirror another point's draws from the *same* generator stream — harmless as long as every point is
bootstrapped from its own samples, which is what the search layer checks per point -/
theorem seed_mirror (nu de : List F64.Bits) : seed nu de = seed de nu := by
  unfold seed; exact UInt64.mul_comm _ _

/-! ## Dates -/

/-- **date_same_instant_same_string** — the normalised string is a function of the instant
(seconds since the epoch, nanoseconds) alone: two inputs, in either accepted format and with any
zone offsets or fraction spellings, that denote the same instant normalise to the same string. -/
theorem date_same_instant_same_string (s1 s2 : Bytes) (p1 p2 : Parsed)
    (h1 : parse s1 = some p1) (h2 : parse s2 = some p2) (hi : instant p1 = instant p2) :
    normalize s1 = normalize s2 := by
  simp [normalize, h1, h2, hi]

/-- the compact form, the Z form and an offset form of one instant -/
example : normalize "20200101T000000".toUTF8.toList = normalize "2020-01-01T01:00:00+01:00".toUTF8.toList ∧
    normalize "2019-12-31T19:00:00.000-05:00".toUTF8.toList = normalize "2020-01-01T00:00:00Z".toUTF8.toList := by
  decide +kernel

/-- UTC fields in the range the fixed-width layout can hold -/
structure InRange (u : UTC) : Prop where
  y0 : 0 ≤ u.year
  y1 : u.year < 10000
  mo : u.month < 100
  d : u.day < 100
  h : u.hour < 100
  mi : u.min < 100
  s : u.sec < 100
  ns : u.nanos < 10 ^ 9

/-- chronological order of UTC wall-clock fields -/
def FieldsLt (u v : UTC) : Prop :=
  u.year < v.year ∨ (u.year = v.year ∧ (u.month < v.month ∨ (u.month = v.month ∧ (u.day < v.day ∨ (u.day = v.day ∧
  (u.hour < v.hour ∨ (u.hour = v.hour ∧ (u.min < v.min ∨ (u.min = v.min ∧ (u.sec < v.sec ∨ (u.sec = v.sec ∧
  u.nanos < v.nanos)))))))))))

/-- **normalised_sort_is_chronological** — for UTC years 0000–9999 the output layout is order
preserving: if the fields of u precede those of v then the string of u sorts (bytewise) before
the string of v.  Year/month/day/hour/minute/second are fixed-width zero-padded; the fraction
is variable-width but '+' < '.' < digits makes "…:05+00:00" < "…:05.5+00:00" < "…:05.55+00:00".
(That the field order is the order of instants is calendar arithmetic of package time: it is
checked on generated pairs by the search layer, not proved.  Outside years 0–9999 the property
fails on the real code: "-0001-…" and "10000-…".) -/
theorem normalised_sort_is_chronological (u v : UTC) (hu : InRange u) (hv : InRange v) (h : FieldsLt u v) :
    formatCodes u < formatCodes v := by
  unfold formatCodes
  rw [fmtYear_of_range hu.y0 hu.y1, fmtYear_of_range hv.y0 hv.y1]
  simp only [List.append_assoc]
  rcases h with h | ⟨e, h⟩
  · have h0 := hu.y0
    have h1 := hv.y1
    have ha : u.year.natAbs < v.year.natAbs := by omega
    have hb : v.year.natAbs < 10000 := by omega
    exact lex_of_lt_same_len (pad4_lt ha hb) rfl _ _
  rw [e]
  refine lex_append_left _ (lex_append_left _ ?_)
  rcases h with h | ⟨e, h⟩
  · exact lex_of_lt_same_len (pad2_lt h hv.mo) rfl _ _
  rw [e]
  refine lex_append_left _ (lex_append_left _ ?_)
  rcases h with h | ⟨e, h⟩
  · exact lex_of_lt_same_len (pad2_lt h hv.d) rfl _ _
  rw [e]
  refine lex_append_left _ (lex_append_left _ ?_)
  rcases h with h | ⟨e, h⟩
  · exact lex_of_lt_same_len (pad2_lt h hv.h) rfl _ _
  rw [e]
  refine lex_append_left _ (lex_append_left _ ?_)
  rcases h with h | ⟨e, h⟩
  · exact lex_of_lt_same_len (pad2_lt h hv.mi) rfl _ _
  rw [e]
  refine lex_append_left _ (lex_append_left _ ?_)
  rcases h with h | ⟨e, h⟩
  · exact lex_of_lt_same_len (pad2_lt h hv.s) rfl _ _
  rw [e]
  exact lex_append_left _ (fracPart_lt h hv.ns)

/-- outside the year range the layout is not order preserving: year −1 prints as "-0001…" which
does not have the fixed width, and year 10000 prints five digits and sorts before 9999 -/
theorem year_10000_sorts_first :
    formatCodes { year := 10000, month := 1, day := 1, hour := 0, min := 0, sec := 0, nanos := 0 } <
    formatCodes { year := 9999, month := 12, day := 31, hour := 23, min := 59, sec := 59, nanos := 0 } := by
  decide +kernel

/-! ## Comparison series -/

/-- **replace_latest_wins** — under DUPE_REPLACE the comparison stored for a (benchmark, series)
point is the (trial, test) contribution addressed to it whose normalised experiment date no other
contribution exceeds, for every builder state, table and map iteration order. -/
theorem replace_latest_wins (env : Env) (ho : StrictOrder env.lt) (it : Iter) (b : Builder) (t : TKey)
    (sk : Bytes × Bytes) (hne : (contribs env it b t).filter (fun c => c.key = sk) ≠ []) :
    ∃ c ∈ (contribs env it b t).filter (fun c => c.key = sk),
      alookup sk ((contribs env it b t).foldl (step env .replace) {}).cells = some (fresh c) ∧
      ∀ c' ∈ (contribs env it b t).filter (fun c => c.key = sk), env.lt c.date c'.date = false := by
  rw [cells_lookup_foldl]
  generalize (contribs env it b t).filter (fun c => c.key = sk) = F at *
  cases F with
  | nil => exact absurd rfl hne
  | cons c0 F =>
    obtain ⟨c, hc, hf, hm⟩ := replace_fold_max env ho F c0
    exact ⟨c, hc, by simpa [alookup, stepCell, fresh] using hf, hm⟩

/-- **combine_concatenates** — under DUPE_COMBINE the numerator of a point is the concatenation
of the numerators of all contributions addressed to it (in visiting order) and the denominator is
`combineCells` folded over their optional denominators: a missing baseline counts as empty
(the code after commit 54a57f9). -/
theorem combine_concatenates (env : Env) (it : Iter) (b : Builder) (t : TKey) (sk : Bytes × Bytes)
    (c0 : Contrib) (F : List Contrib) (hF : (contribs env it b t).filter (fun c => c.key = sk) = c0 :: F) :
    ∃ d, alookup sk ((contribs env it b t).foldl (step env .combine) {}).cells =
      some { num := (c0 :: F).flatMap (·.num), den := (F.map (·.den)).foldl combineDen c0.den, date := d } := by
  rw [cells_lookup_foldl, hF]
  obtain ⟨d, hd⟩ := combine_fold env F (fresh c0)
  exact ⟨d, by simpa [alookup, stepCell, fresh] using hd⟩

/-- **cells_iteration_order_independent** — DUPE_REPLACE, ANY builder state (not only reachable
ones): for any two map iteration orders every (benchmark, series) cell of the table ends up the
same, provided duplicates of a point have distinct normalised experiment dates.  (Subsumed, for
reachable states, by `series_order_independent`; kept because it needs no invariant.) -/
theorem cells_iteration_order_independent (env : Env) (ho : StrictOrder env.lt) (it1 it2 : Iter)
    (hv1 : it1.Valid) (hv2 : it2.Valid) (b : Builder) (t : TKey)
    (hdist : ∀ x ∈ contribs env Iter.id b t, ∀ y ∈ contribs env Iter.id b t,
      x.key = y.key → x.date = y.date → x = y)
    (sk : Bytes × Bytes) :
    alookup sk ((contribs env it1 b t).foldl (step env .replace) {}).cells =
    alookup sk ((contribs env it2 b t).foldl (step env .replace) {}).cells := by
  rw [cells_lookup_foldl, cells_lookup_foldl]
  have p1 := contribs_perm env it1 hv1 b t
  have p2 := contribs_perm env it2 hv2 b t
  have p : ((contribs env it1 b t).filter (fun c => c.key = sk)).Perm ((contribs env it2 b t).filter (fun c => c.key = sk)) :=
    (p1.trans p2.symm).filter _
  apply replace_fold_perm env ho p
  intro x hx y hy hd
  have hx' := List.mem_filter.mp hx
  have hy' := List.mem_filter.mp hy
  have kx : x.key = sk := by simpa using hx'.2
  have ky : y.key = sk := by simpa using hy'.2
  exact hdist x (p1.mem_iff.mp hx'.1) y (p1.mem_iff.mp hy'.1) (kx.trans ky.symm) hd

/-- **series_order_independent** — the comparison series depend only on the *set* of results:
for any two insertion orders `evs1 ~ evs2` of the projected measurements, both duplicate policies,
and any two map iteration orders (of the tables, of each table's trials, of each trial's tests —
arbitrary permutations), `AllComparisonSeries` returns the same value: the same error outcome,
the same tables in the same order, and per table the same Benchmarks, Series, HashPairs and the same
points with the same date and the same numerator / denominator *multisets* (`TableOut` holds the
samples sorted by bit pattern).  Hypothesis: the well-formedness `Spec.Series.WF` (W1–W5, W3c for
combine) — each clause excludes a shape on which the real code IS order dependent (notes/C18.md);
`TotalOrder env.le` holds for Go's string order (`bytesLe_totalOrder`). -/
theorem series_order_independent (env : Env) (ho : TotalOrder env.le) (o : Opts) (pol : Policy)
    (evs1 evs2 : List Ev) (hp : evs1.Perm evs2) (hwf : Spec.Series.WF env o pol evs1 = true)
    (it1 it2 : Iter) (hv1 : it1.Valid) (hv2 : it2.Valid) :
    allSeries env pol it1 (build o evs1) = allSeries env pol it2 (build o evs2) := by
  have hw := WFp_of_WF hwf
  unfold allSeries
  rw [datesOk_congr env o pol hp hw, sortTableKeys_congr env ho o pol hp hw it1 it2 hv1 hv2]
  split
  · congr 1
    apply List.map_congr_left
    intro t _
    exact tableOut_congr env ho o pol hp hw it1 it2 hv1 hv2 t
  · rfl

/-- the same, for results added in any order (a result contributes one measurement per unit) -/
theorem series_order_independent_results (env : Env) (ho : TotalOrder env.le) (o : Opts) (pol : Policy)
    (rs1 rs2 : List (List Ev)) (hp : rs1.Perm rs2) (hwf : Spec.Series.WF env o pol rs1.flatten = true)
    (it1 it2 : Iter) (hv1 : it1.Valid) (hv2 : it2.Valid) :
    allSeries env pol it1 (build o rs1.flatten) = allSeries env pol it2 (build o rs2.flatten) :=
  series_order_independent env ho o pol _ _ hp.flatten hwf it1 it2 hv1 hv2

/-- a non-trivial well-formed instance: the F10 shape (experiment 1 has a numerator only,
experiment 2 numerator and baseline, same series point) under both policies' common clauses -/
example :
    let env : Env := { norm := Series.Date.normalize, le := bytesLe }
    let o : Opts := { num := "num".toUTF8.toList, den := "den".toUTF8.toList }
    let mk (role exp : String) (v : UInt64) : Ev :=
      { unit := "sec".toUTF8.toList, table := [], bench := "Foo".toUTF8.toList, exp := exp.toUTF8.toList,
        ser := "2020-02-02T00:00:00Z".toUTF8.toList, cmp := role.toUTF8.toList, nh := "abc".toUTF8.toList,
        dh := "def".toUTF8.toList, val := v }
    Spec.Series.WF env o .replace
      [mk "num" "2020-01-01T00:00:00Z" 1, mk "num" "20200102T000000" 2, mk "den" "20200102T000000" 3] = true := by
  decide +kernel

/-- the Benchmarks and Series axes of a table do not depend on the map iteration order -/
theorem axes_order_independent (env : Env) (ho : TotalOrder env.le) (it1 it2 : Iter)
    (hv1 : it1.Valid) (hv2 : it2.Valid) (pol : Policy) (b : Builder) (t : TKey) :
    (tableOut env pol it1 b t).benches = (tableOut env pol it2 b t).benches ∧
    (tableOut env pol it1 b t).series = (tableOut env pol it2 b t).series := by
  constructor
  · apply sortSet_ext env ho
    intro a
    simp only [List.mem_map]
    constructor
    · rintro ⟨k, hk, rfl⟩
      exact ⟨k, (hv2.trials _).mem_iff.mpr ((hv1.trials _).mem_iff.mp hk), rfl⟩
    · rintro ⟨k, hk, rfl⟩
      exact ⟨k, (hv1.trials _).mem_iff.mpr ((hv2.trials _).mem_iff.mp hk), rfl⟩
  · apply sortSet_ext env ho
    intro a
    have p := (contribs_perm env it1 hv1 b t).trans (contribs_perm env it2 hv2 b t).symm
    exact (p.map _).mem_iff

example : Iter.id.Valid := ⟨fun _ => List.Perm.refl _, fun _ => List.Perm.refl _, fun _ => List.Perm.refl _⟩
example : Iter.rev.Valid := ⟨fun l => List.reverse_perm l, fun l => List.reverse_perm l, fun l => List.reverse_perm l⟩

/-- the environment the driver runs (Go string order) satisfies the order hypotheses above -/
example (norm : Bytes → Option Bytes) : TotalOrder ({ norm := norm, le := bytesLe } : Env).le := bytesLe_totalOrder
example (norm : Bytes → Option Bytes) : StrictOrder ({ norm := norm, le := bytesLe } : Env).lt :=
  strictOrder_of_total _ bytesLe_totalOrder

/-- **cells_hold_exactly_matching_measurements** — after `Add`ing any sequence of measurements,
the numerator cell of (unit, table, benchmark, experiment, numerator hash) holds exactly the values
of the measurements whose unit, table keys, benchmark, experiment, role and hash match — no more,
no fewer, in insertion order — and the baseline cell of (unit, table, benchmark, experiment)
exactly the denominator-role measurements of that trial together with the denominator hash of the
first of them (`Spec.Series.trialBase`, the definition the specification uses). -/
theorem cells_hold_exactly_matching_measurements (o : Opts) (evs : List Ev) (k : TrialKey) (h : Bytes) :
    (alookup (k, h) (build o evs).tests =
      (match evs.filter (fun e => !e.isDen o && e.isNum o && decide ((k, h) = (e.trial, e.nh))) with
       | [] => none
       | l => some (l.map (·.val)))) ∧
    alookup k (build o evs).base = Spec.Series.trialBase o evs k := by
  constructor
  · exact tests_exact o evs (k, h)
  · rw [base_exact]; rfl

/-- **cells_insertion_order_independent** — the multiset of values of every numerator cell and of
every baseline cell does not depend on the order in which the measurements were added.
(Together with `series_order_independent_partial` this leaves, for the full
`series_order_independent`, the two bookkeeping fields that *are* insertion-order dependent on
ill-formed data — the baseline hash (first denominator wins, W2) and hashToOrder (last cell-creating
numerator wins, W1) — and the assembly step from cells to points; see the GAP note there.) -/
theorem cells_insertion_order_independent (o : Opts) (evs1 evs2 : List Ev) (hp : evs1.Perm evs2) :
    (∀ key, (alookup key (build o evs1).tests).map sortBits = (alookup key (build o evs2).tests).map sortBits) ∧
    (∀ k, (alookup k (build o evs1).base).map (fun b => sortBits b.2) =
          (alookup k (build o evs2).base).map (fun b => sortBits b.2)) :=
  cells_perm o evs1 evs2 hp

end C18
