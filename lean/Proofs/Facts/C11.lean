/-
C11 — regenerated tie for internal/stats/utest.go.

`Generated/UTestFacts.lean` is re-extracted from /repo/internal/stats/utest.go on every check run:
the initial values of `MannWhitneyExactLimit` / `MannWhitneyTiesExactLimit`, every branch
condition of `MannWhitneyUTest` and `labeledMerge` in numeric form, the continuity-correction
table and the divisors. The theorems below tie them to `Model/Stats/UStat.lean`: the conditions
are *interpreted* (`FactsLib.evalCond`) and proved equal to the model's conditions for all inputs, so
a changed operator, operand, limit or constant makes this module fail to build.
-/
import Model.Stats.UStat
import Generated.UTestFacts
import Proofs.Facts.Common

namespace C11.Facts
open Stats.UStat Generated FactsLib

/-- The limits the C11 theorems, examples and the driver's defaults are stated at (50, 25) are the
initial values in the source. -/
theorem limits_agree : UTestFacts.exactLimit = 50 ∧ UTestFacts.tiesExactLimit = 25 := by decide

/-- environment of `methodCond`: 0:hasTies 1:n1 2:n2 3:limit 4:tiesLimit -/
def methodEnv (hasTies : Bool) (n1 n2 limit tiesLimit : Nat) : Nat → Int
  | 0 => if hasTies then 1 else 0 | 1 => n1 | 2 => n2 | 3 => limit | 4 => tiesLimit | _ => 0

/-- **method_cond_agrees** — the model's `exactBranch` is the source's branch condition
(`!hasTies && n1 <= L && n2 <= L || hasTies && n1 <= TL && n2 <= TL`), for all inputs. -/
theorem method_cond_agrees (hasTies : Bool) (n1 n2 limit tiesLimit : Nat) :
    exactBranch hasTies n1 n2 limit tiesLimit =
      evalCond (methodEnv hasTies n1 n2 limit tiesLimit) UTestFacts.methodCond := by
  cases hasTies <;>
    simp [exactBranch, evalCond, evalAtom, operand, cmpI, methodEnv, UTestFacts.methodCond]

/-- the branch taken at the real limits switches exactly at 50 / 25 -/
theorem method_boundary_at_limits :
    let L := UTestFacts.exactLimit; let TL := UTestFacts.tiesExactLimit
    exactBranch false 50 50 L TL = true ∧ exactBranch false 51 1 L TL = false ∧
    exactBranch false 1 51 L TL = false ∧ exactBranch true 25 25 L TL = true ∧
    exactBranch true 26 1 L TL = false ∧ exactBranch true 1 26 L TL = false := by decide

/-- `n1 == 0 || n2 == 0` — the model's empty-sample test in `mannWhitney` -/
theorem size_cond_agrees (n1 n2 : Nat) :
    decide (n1 = 0 ∨ n2 = 0) = evalCond (fun | 1 => n1 | 2 => n2 | _ => 0) UTestFacts.sizeCond := by
  simp [evalCond, evalAtom, operand, cmpI, UTestFacts.sizeCond]

/-- the remaining single-comparison conditions, as (lhs, operator, rhs) codes: `len(T) == 1`
(model: `rs.T.length = 1`), `U1 == U2` (`twoU1 = twoU2`), `σ_U == 0` (`s2 = 0`), `i > rank1`
(`decide (i' > rank1)`), `nx1 != 0` (`r.2.1 ≠ 0`), `x1[i] < x2[j]` (`x < y`), `merged[i] == v1`
(`w = v`). -/
theorem simple_conds_agree :
    UTestFacts.allEqualExactCond = [[(false, 5, 4, 1001)]] ∧
    UTestFacts.symmetricCond = [[(false, 6, 4, 7)]] ∧
    UTestFacts.sigmaZeroCond = [[(false, 8, 4, 1000)]] ∧
    UTestFacts.hasTiesCond = [[(false, 9, 1, 10)]] ∧
    UTestFacts.nx1Cond = [[(false, 11, 5, 1000)]] ∧
    UTestFacts.mergeCond = [[(false, 12, 3, 13)]] ∧
    UTestFacts.tieRunCond = [[(false, 14, 4, 15)]] := ⟨rfl, rfl, rfl, rfl, rfl, rfl, rfl⟩

/-- doubled continuity correction from the regenerated table: `numer op= [sign(numer)·] c`,
with `d = 2·numer` -/
def twoNumerG (tbl : List (Nat × Nat × Bool × (Bool × Nat × Int))) (alt : Nat) (d : Int) : Int :=
  match tbl.find? (·.1 == alt) with
  | none => d
  | some r =>
    let c2 : Int := ((2 * (frac r.2.2.2).1 / (frac r.2.2.2).2 : Nat) : Int)    -- 2·c
    let s : Int := if r.2.2.1 then (if d = 0 then 0 else if d < 0 then -1 else 1) else 1
    if r.2.1 == 1 then d + s * c2 else d - s * c2

def altCode : Alt → Nat | .less => 0 | .differs => 1 | .greater => 2

/-- **continuity_agrees** — the model's `twoNumer` is the source's continuity-correction switch
(constants 0.5, operators `-=`/`+=`, `mathSign` on the two-sided case only) and `μ_U = n1·n2/2`. -/
theorem continuity_agrees (alt : Alt) (twoU1 : Int) (n1 n2 : Nat) :
    twoNumer alt twoU1 n1 n2 =
      twoNumerG UTestFacts.continuity (altCode alt)
        (twoU1 - ((2 * (n1 * n2) / UTestFacts.meanDivisor : Nat) : Int)) := by
  have h2 : ∀ k : Nat, 2 * k / UTestFacts.meanDivisor = k := by
    intro k; simp [UTestFacts.meanDivisor]
  rw [h2]
  cases alt <;>
    simp [twoNumer, twoNumerG, altCode, UTestFacts.continuity, frac, List.find?] <;> omega

/-- `σ_U² = … / 12`, exact two-sided `CDF(Usmall) * 2`, one-sided greater steps by `dist.Step()` -/
theorem formula_constants_agree :
    UTestFacts.sigmaDivisor = 12 ∧ UTestFacts.exactTwoSidedFactor = 2 ∧ UTestFacts.meanDivisor = 2 ∧
    UTestFacts.greaterExactExpr = "1 - dist.CDF(U1-dist.Step())" := ⟨by decide, by decide, by decide, rfl⟩

end C11.Facts
