/-
C04 — regenerated tie for benchunit/tidy.go.

`Generated/TidyFacts.lean` is re-extracted from /repo/benchunit/tidy.go by /verif/extract on every
check run. The theorems below are kernel-checked agreements between those facts and the constants
the hand-written model `Model/Unit/Tidy.lean` hard-codes: a changed constant, table row, operator
or pre-filter string in the Go source changes the generated file and makes this module fail to
build (P layer broken).
-/
import Model.Unit.Tidy
import Generated.TidyFacts

namespace C04.Facts
open Unit.Tidy Unit.Parse Generated

/-- Go string bytes as emitted by the extractor → model `Bytes` -/
def bytes (l : List Nat) : Bytes := l.map UInt8.ofNat

/-- a Go decimal literal (negative, mantissa, decimal exponent) → the float64 constant the
compiler produces (correctly rounded) -/
def f64 (d : Bool × Nat × Int) : F64.Bits := F64.ofDecimal d.1 d.2.1 d.2.2

/-- The model's fast-path table is the `switch unit` of tidyUnit, row for row, with the factor
literals rounded to float64. -/
theorem fast_table_agrees :
    fastTable = TidyFacts.fastTable.map (fun r => (bytes r.1, bytes r.2.1, f64 r.2.2)) := by
  decide +kernel

/-- The model's pre-filter strings, its shape `!(Contains || Contains)` and its result
`(unit, 1)` are the source's. -/
theorem prefilter_agrees :
    TidyFacts.prefilter.map bytes = [sNs, sMB] ∧ TidyFacts.prefilterNegated = true ∧
    TidyFacts.prefilterOpN = 6 ∧ TidyFacts.prefilterReturnsUnit = true ∧
    f64 TidyFacts.prefilterFactor = F64.one := by
  decide +kernel

/-- The edit table `switch p.tok` as constants: token, `len(…)`, replacement, operator and the
float64 of the factor literal; initial factor 1; the denominator is skipped; edits are applied
last-to-first; `Tidy` multiplies. -/
theorem edit_constants_agree :
    TidyFacts.edits.map (fun r => (bytes r.1, r.2.1, bytes r.2.2.1, r.2.2.2.1, f64 r.2.2.2.2)) =
      [(sNs, sNs.length, sSec, 0, f1e9), (sMB, sMB.length, sB, 1, f1e6)] ∧
    f64 TidyFacts.initFactor = F64.one ∧ TidyFacts.denomSkipped = true ∧
    TidyFacts.editsAppliedLastFirst = true ∧ TidyFacts.tidyValueIsMul = true := by
  decide +kernel

/-- `strings.Contains(unit, s₁) || strings.Contains(unit, s₂)` interpreted from the regenerated
substring list -/
def mayNeedTidyG (u : Bytes) : Bool := (TidyFacts.prefilter.map bytes).any (Bytes.contains u ·)

theorem mayNeedTidy_agrees (u : Bytes) : mayNeedTidy u = mayNeedTidyG u := by
  simp [mayNeedTidy, mayNeedTidyG, prefilter_agrees.1]

/-- source text of the slice expression modelled by `applyEdit?` and of `Tidy`'s value -/
theorem apply_expr_agrees :
    TidyFacts.applyExpr = "unit[:e.pos] + e.replace + unit[e.pos+e.len:]" ∧
    TidyFacts.tidyValueExpr = "value * factor" := ⟨rfl, rfl⟩

/-! ### the scan loop interpreted from the regenerated table equals the model's `scan` -/

abbrev Row := List Nat × Nat × List Nat × Nat × (Bool × Nat × Int)

def stepFactor (r : Row) (f : F64.Bits) : F64.Bits :=
  if r.2.2.2.1 == 0 then F64.div f (f64 r.2.2.2.2) else F64.mul f (f64 r.2.2.2.2)

/-- `for p.next() { if p.denom { continue }; switch p.tok { <table> } }` -/
def scanG (tbl : List Row) (skipDenom : Bool) : List Tok → List Edit → F64.Bits → List Edit × F64.Bits
  | [], es, f => (es, f)
  | t :: ts, es, f =>
    if skipDenom && t.denom then scanG tbl skipDenom ts es f
    else match tbl.find? (fun r => bytes r.1 == t.tok) with
      | some r => scanG tbl skipDenom ts (es ++ [⟨t.pos, r.2.1, bytes r.2.2.1⟩]) (stepFactor r f)
      | none => scanG tbl skipDenom ts es f

theorem f1e9_is_literal : f64 (false, 1, 9) = f1e9 := by decide +kernel
theorem f1e6_is_literal : f64 (false, 1, 6) = f1e6 := by decide +kernel

theorem lookup_ns (t : Tok) (h : t.tok = sNs) :
    TidyFacts.edits.find? (fun r => bytes r.1 == t.tok) = some ([110, 115], 2, [115, 101, 99], 0, (false, 1, 9)) := by
  have e1 : (bytes [110, 115] == t.tok) = true := by rw [h]; decide
  simp only [TidyFacts.edits, List.find?, e1]

theorem lookup_mb (t : Tok) (h : t.tok = sMB) :
    TidyFacts.edits.find? (fun r => bytes r.1 == t.tok) = some ([77, 66], 2, [66], 1, (false, 1, 6)) := by
  have e1 : (bytes [110, 115] == t.tok) = false := by rw [h]; decide
  have e2 : (bytes [77, 66] == t.tok) = true := by rw [h]; decide
  simp only [TidyFacts.edits, List.find?, e1, e2]

theorem lookup_none (t : Tok) (h1 : t.tok ≠ sNs) (h2 : t.tok ≠ sMB) :
    TidyFacts.edits.find? (fun r => bytes r.1 == t.tok) = none := by
  have hns : bytes [110, 115] = sNs := by decide
  have hmb : bytes [77, 66] = sMB := by decide
  have e1 : (bytes [110, 115] == t.tok) = false := by
    rw [hns]; exact beq_eq_false_iff_ne.mpr (Ne.symm h1)
  have e2 : (bytes [77, 66] == t.tok) = false := by
    rw [hmb]; exact beq_eq_false_iff_ne.mpr (Ne.symm h2)
  simp only [TidyFacts.edits, List.find?, e1, e2]

/-- **scan_agrees** — for every token list, the loop driven by the table re-extracted from
tidy.go computes exactly what the hand-written `scan` computes. -/
theorem scan_agrees (ts : List Tok) (es : List Edit) (f : F64.Bits) :
    scan ts es f = scanG TidyFacts.edits TidyFacts.denomSkipped ts es f := by
  induction ts generalizing es f with
  | nil => rfl
  | cons t ts ih =>
    have hsec : bytes [115, 101, 99] = sSec := by decide
    have hb : bytes [66] = sB := by decide
    have hskip : TidyFacts.denomSkipped = true := rfl
    simp only [scan, scanG, hskip, Bool.true_and]
    by_cases hd : t.denom = true
    · simp only [hd, if_true, ih, hskip]
    · by_cases h1 : t.tok = sNs
      · have e1 : (t.tok == sNs) = true := by simp [h1]
        simp only [hd, e1, lookup_ns t h1, ih, hskip, stepFactor, f1e9_is_literal, hsec]
        simp [sNs]
      · by_cases h2 : t.tok = sMB
        · have e1 : (t.tok == sNs) = false := by simp [h1]
          have e2 : (t.tok == sMB) = true := by simp [h2]
          simp only [hd, e1, e2, lookup_mb t h2, ih, hskip, stepFactor, f1e6_is_literal, hb]
          simp [sMB]
        · have e1 : (t.tok == sNs) = false := by simp [h1]
          have e2 : (t.tok == sMB) = false := by simp [h2]
          simp only [hd, e1, e2, lookup_none t h1 h2, ih, hskip]
          simp

end C04.Facts
