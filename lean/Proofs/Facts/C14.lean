/-
C14 — regenerated tie for the flag defaults of cmd/benchstat/main.go.

`Generated/CmdFacts.lean` is re-extracted on every check run (the `-alpha` default is resolved
through `benchmath.DefaultThresholds.CompareAlpha` in benchmath/sample.go; float defaults are
rendered the way package flag prints them). The theorems compare them with the defaults of the
model's `Tab.Flags` structure (Model/Tab/Pipeline.lean), the one `C14.default_projection` is
about and the driver prints on the `defaults` case.
-/
import Model.Tab.Pipeline
import Generated.CmdFacts
import Proofs.Facts.Common

namespace C14.Facts
open Tab Generated

/-- **flag_defaults_agree** — every default of `Tab.Flags` is the default in the source -/
theorem flag_defaults_agree :
    ({} : Flags).table = CmdFacts.tableDefault ∧ ({} : Flags).row = CmdFacts.rowDefault ∧
    ({} : Flags).col = CmdFacts.colDefault ∧ ({} : Flags).ignore = CmdFacts.ignoreDefault ∧
    ({} : Flags).filter = CmdFacts.filterDefault ∧ ({} : Flags).alpha = CmdFacts.alphaDefault ∧
    ({} : Flags).confidence = CmdFacts.confidenceDefault ∧ ({} : Flags).format = CmdFacts.formatDefault :=
  ⟨rfl, rfl, rfl, rfl, rfl, rfl, rfl, rfl⟩

/-- the command has exactly the flags `Tab.Flags` has fields for, and the table is consistent
with the per-flag definitions -/
theorem flag_set_agrees :
    CmdFacts.flagNames = ["table", "row", "col", "ignore", "filter", "alpha", "confidence", "format"] ∧
    CmdFacts.flags.map (fun f => (f.1, f.2.2.1)) =
      [("table", CmdFacts.tableDefault), ("row", CmdFacts.rowDefault), ("col", CmdFacts.colDefault),
       ("ignore", CmdFacts.ignoreDefault), ("filter", CmdFacts.filterDefault), ("alpha", CmdFacts.alphaDefault),
       ("confidence", CmdFacts.confidenceDefault), ("format", CmdFacts.formatDefault)] := ⟨rfl, rfl⟩

/-- the numeric defaults: alpha = 0.05 and confidence = 0.95 as float64 bit patterns -/
theorem float_defaults_agree :
    CmdFacts.floatDefaults.map (fun d => FactsLib.f64 d.2) = [0x3FA999999999999A, 0x3FEE666666666666] := by
  decide +kernel

/-- validation: `x < 0 || x > 1` for both, `-format` ∈ {text, csv} (not part of the model; pinned) -/
theorem validation_pinned :
    CmdFacts.alphaRangeCond = [[(false, 0, 3, 1000)], [(false, 0, 1, 1001)]] ∧
    CmdFacts.confidenceRangeCond = [[(false, 1, 3, 1000)], [(false, 1, 1, 1001)]] ∧
    CmdFacts.formats = ["text", "csv"] := ⟨rfl, rfl, rfl⟩

end C14.Facts
