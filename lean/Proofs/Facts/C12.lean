/-
C12 — regenerated tie for the numeric constants of /repo/internal/stats: normaldist.go InvCDF
(Acklam coefficients, region bounds, conditions), beta.go betacf (ε, iteration cap, tiny guard),
sample.go Percentile/IQR (R8 constants 1/3.0, caps, quartiles), dist.go InvCDF (xtol, bracketing),
alg.go bisectBool.

`Generated/DistFacts.lean` is re-extracted on every check run; every constant is the exact
fraction of the Go constant expression. The theorems compare them with the constants of
`Model/Stats/{Dists,Beta,Descr}.lean` in BOTH number systems of the model: as exact rationals
(`Rat` instance, the one the C12 theorems are about) and as float64 bit patterns (`Fl` instance,
the one the correspondence run executes). Conditions are interpreted over any `Arith α`.
-/
import Model.Stats.Dists
import Model.Stats.Beta
import Model.Stats.Descr
import Generated.DistFacts
import Proofs.Facts.Common

namespace C12.Facts
open Stats Stats.Arith Generated FactsLib

variable {α : Type} [Arith α]

/-- a Go constant (negative, numerator, denominator) in the number system α -/
def ofC (c : Bool × Nat × Nat) : α := if c.1 then neg (ofFrac c.2.1 c.2.2) else ofFrac c.2.1 c.2.2

def bitsOf (x : Fl) : F64.Bits := x.bits

/-! ### NormalDist.InvCDF -/

theorem inv_names_agree :
    DistFacts.invNames = ["a1", "a2", "a3", "a4", "a5", "a6", "b1", "b2", "b3", "b4", "b5",
      "c1", "c2", "c3", "c4", "c5", "c6", "d1", "d2", "d3", "d4", "plow", "phigh"] := rfl

open Stats.Dists.NInv in
/-- the model's 21 coefficients and 2 region bounds, in the order of `invNames` -/
def modelInvConsts : List α :=
  [a1, a2, a3, a4, a5, a6, b1, b2, b3, b4, b5, c1, c2, c3, c4, c5, c6, d1, d2, d3, d4, plow, phigh]

/-- **inv_consts_agree_exact** — as exact rationals (incl. `phigh = 1 - plow` = 0.97575) -/
theorem inv_consts_agree_exact :
    (modelInvConsts : List Rat) = DistFacts.invConsts.map ofC := by decide +kernel

/-- **inv_consts_agree_f64** — as float64 bit patterns -/
theorem inv_consts_agree_f64 :
    (modelInvConsts : List Fl).map bitsOf = DistFacts.invConsts.map (fun c => bitsOf (ofC c)) := by
  decide +kernel

/-- comparison by operator code in any number system -/
def cmpA (op : Nat) (a b : α) : Bool :=
  match op with
  | 0 => le b a | 1 => lt b a | 2 => le a b | 3 => lt a b | 4 => eq a b | 5 => !eq a b | _ => false

def operandA (env : Nat → α) (c : Nat) : α := if c ≥ 1000 then ofNat (c - 1000) else env c

def evalAtomA (env : Nat → α) (a : Atom) : Bool :=
  let v := cmpA a.2.2.1 (operandA env a.2.1) (operandA env a.2.2.2)
  if a.1 then !v else v

def evalCondA (env : Nat → α) (c : Cond) : Bool := c.any fun conj => conj.all (evalAtomA env)

/-- **inv_range_conds_agree** — `p < 0 || p > 1`, `p == 0`, `p == 1` as in `NInv.invCDF` -/
theorem inv_range_conds_agree (p : α) :
    (lt p (ofNat 0) || lt (ofNat 1) p) = evalCondA (fun _ => p) DistFacts.invRangeCond ∧
    eq p (ofNat 0) = evalCondA (fun _ => p) DistFacts.invZeroCond ∧
    eq p (ofNat 1) = evalCondA (fun _ => p) DistFacts.invOneCond := by
  simp [evalCondA, evalAtomA, operandA, cmpA, DistFacts.invRangeCond, DistFacts.invZeroCond,
    DistFacts.invOneCond]

/-- **inv_region_conds_agree** — `p < plow`, `phigh < p` as in `NInv.approx` -/
theorem inv_region_conds_agree (p plow phigh : α) :
    lt p plow = evalCondA (fun | 0 => p | 1 => plow | _ => phigh) DistFacts.invLowCond ∧
    lt phigh p = evalCondA (fun | 0 => p | 1 => plow | _ => phigh) DistFacts.invHighCond := by
  simp [evalCondA, evalAtomA, operandA, cmpA, DistFacts.invLowCond, DistFacts.invHighCond]

/-- `q := p - 0.5`, `math.Sqrt(-2 * math.Log(…))` in both regions, and the four formulas -/
theorem inv_shape_agrees :
    (ofC DistFacts.invCentre : Rat) = Dists.half ∧
    bitsOf (ofC DistFacts.invCentre) = bitsOf Dists.half ∧
    DistFacts.invLogFactor.map (ofC : _ → Rat) = [neg (ofNat 2), neg (ofNat 2)] ∧
    DistFacts.invLogFactor.map (fun c => bitsOf (ofC c)) = [bitsOf (neg (ofNat 2)), bitsOf (neg (ofNat 2))] ∧
    DistFacts.invFormulas =
      ["(((((c1*q+c2)*q+c3)*q+c4)*q+c5)*q+c6)/((((d1*q+d2)*q+d3)*q+d4)*q+1)",
       "-(((((c1*q+c2)*q+c3)*q+c4)*q+c5)*q+c6)/((((d1*q+d2)*q+d3)*q+d4)*q+1)",
       "(((((a1*r+a2)*r+a3)*r+a4)*r+a5)*r+a6)*q/(((((b1*r+b2)*r+b3)*r+b4)*r+b5)*r+1)",
       "x-u/(1+x*u/2)"] :=
  ⟨by decide +kernel, by decide +kernel, by decide +kernel, by decide +kernel, rfl⟩

/-! ### betacf -/

/-- **beta_consts_agree** — `maxIterations = 200`, `epsilon = 3e-14` (exact and float64), loop
from m = 1, the tiny guard is `math.SmallestNonzeroFloat64` (model: 2^-1074) -/
theorem beta_consts_agree :
    DistFacts.betaMaxIterations = Beta.maxIterations ∧
    (ofC DistFacts.betaEpsilon : Rat) = Beta.epsilon ∧
    bitsOf (ofC DistFacts.betaEpsilon) = bitsOf Beta.epsilon ∧
    DistFacts.betaLoopStart = 1 ∧
    DistFacts.betaTinyValue = "math.SmallestNonzeroFloat64" ∧
    bitsOf Beta.tiny = 1 :=
  ⟨by decide, by decide +kernel, by decide +kernel, by decide, rfl, by decide +kernel⟩

/-- **beta_conds_agree** — `math.Abs(z) < tiny` (raiseZero), `math.Abs(hfac-1) < epsilon`
(convergence) — both strict — and `m <= maxIterations` -/
theorem beta_conds_agree (absz tiny d eps : α) (m cap : Nat) :
    lt absz tiny = evalCondA (fun | 0 => absz | _ => tiny) DistFacts.betaTinyCond ∧
    lt d eps = evalCondA (fun | 4 => d | _ => eps) DistFacts.betaConvergedCond ∧
    decide (m ≤ cap) = evalCond (fun | 2 => m | _ => cap) DistFacts.betaLoopCond := by
  simp [evalCondA, evalAtomA, operandA, cmpA, evalCond, evalAtom, operand, cmpI,
    DistFacts.betaTinyCond, DistFacts.betaConvergedCond, DistFacts.betaLoopCond]

/-- the loop runs for m = 1 … maxIterations: `cfLoop` is started with that fuel at m = 1 -/
theorem beta_loop_agrees (x a b : α) :
    Beta.betacf x a b =
      Beta.cfLoop x a b DistFacts.betaMaxIterations DistFacts.betaLoopStart (Beta.initState x a b) := rfl

/-! ### Sample.Percentile / IQR -/

/-- the interpolation of `Percentile` with the regenerated R8 constants `A + p·(N + B)` -/
def interpG (xs : List Rat) (p : Rat) : Rat :=
  let A : Rat := ofC (DistFacts.pctR8.getD 0 (false, 0, 1))
  let B : Rat := ofC (DistFacts.pctR8.getD 1 (false, 0, 1))
  let n := A + p * ((xs.length : Rat) + B)
  let k := n.floor
  let frac := n - (k : Rat)
  let env : Nat → Int := fun | 1 => k | _ => xs.length
  if evalCond env DistFacts.pctFirstCond then xs.getD 0 0
  else if evalCond env DistFacts.pctLastCond then xs.getD (xs.length - 1) 0
  else xs.getD (k.toNat - 1) 0 + frac * (xs.getD k.toNat 0 - xs.getD (k.toNat - 1) 0)

def probeXs : List Rat := [0, 1, 4, 9, 16, 25, 36, 49]
def probePs : List Rat := [1/100, 1/16, 1/10, 1/4, 1/3, 1/2, 2/3, 3/4, 9/10, 15/16, 99/100]

/-- **percentile_r8_agrees** — `1/3.0 + pctile*(N+1/3.0)`, `k <= 0`, `k >= len(s.Xs)`: the model's
`Descr.interp` (exact instance) = the interpolation with the regenerated constants on probes that
reach the first-element, last-element and interior branches, for 1 … 8 elements. -/
theorem percentile_r8_agrees :
    ((List.range 8).all fun j => probePs.all fun p =>
      Descr.interp (probeXs.take (j + 1)) p == interpG (probeXs.take (j + 1)) p) = true := by
  decide +kernel

/-- as float64: both 1/3.0 are the model's `ofFrac 1 3` -/
theorem percentile_r8_f64 :
    DistFacts.pctR8.map (fun c => bitsOf (ofC c)) = [bitsOf (ofFrac 1 3), bitsOf (ofFrac 1 3)] := by
  decide +kernel

/-- **percentile_caps_agree** — `pctile <= 0`, `pctile >= 1` -/
theorem percentile_caps_agree (p : α) :
    le p (ofNat 0) = evalCondA (fun _ => p) DistFacts.pctLowCond ∧
    le (ofNat 1) p = evalCondA (fun _ => p) DistFacts.pctHighCond := by
  simp [evalCondA, evalAtomA, operandA, cmpA, DistFacts.pctLowCond, DistFacts.pctHighCond]

/-- **iqr_agrees** — IQR = Percentile(0.75) − Percentile(0.25), on the probe samples -/
theorem iqr_agrees :
    ((List.range 8).all fun j =>
      let xs := probeXs.take (j + 1)
      match Descr.iqr xs true, Descr.percentile xs true (ofC (DistFacts.iqrPercentiles.getD 0 (false, 0, 1))),
            Descr.percentile xs true (ofC (DistFacts.iqrPercentiles.getD 1 (false, 0, 1))) with
      | some r, some a, some b => r == a - b
      | _, _, _ => false) = true := by
  decide +kernel

/-! ### generic InvCDF and bisectBool -/

/-- **gen_consts_agree** — `xtol = 1e-16` (exact and float64), `xdelta := 1.0`, `xdelta *= 2` in
both loops, midpoint `/ 2` -/
theorem gen_consts_agree :
    (ofC DistFacts.genXtol : Rat) = Dists.xtol ∧
    bitsOf (ofC DistFacts.genXtol) = bitsOf Dists.xtol ∧
    (ofC DistFacts.genXdeltaStart : Rat) = ofNat 1 ∧
    DistFacts.genXdeltaGrowth.map (ofC : _ → Rat) = [ofNat 2, ofNat 2] ∧
    (ofC DistFacts.bisectMidDivisor : Rat) = ofNat 2 :=
  ⟨by decide +kernel, by decide +kernel, by decide +kernel, by decide +kernel, by decide +kernel⟩

/-- **gen_conds_agree** — the comparisons of the generic `InvCDF` (`y < 0 || y > 1`, `y1 < y`,
`hiY < y`, `y <= loY`, `dist.CDF(x) < y`) and of `bisectBool` (`high-low <= xtol`,
`mid == high || mid == low`) as in `Dists.invCDF` / `bracketUp` / `bracketDown` / `bisectLoop` -/
theorem gen_conds_agree (y y1 hiY loY cx d xtol mid high low : α) :
    (lt y (ofNat 0) || lt (ofNat 1) y) = evalCondA (fun _ => y) DistFacts.genRangeCond ∧
    lt y1 y = evalCondA (fun | 0 => y | _ => y1) DistFacts.genDirectionCond ∧
    lt hiY y = evalCondA (fun | 0 => y | _ => hiY) DistFacts.genUpCond ∧
    le y loY = evalCondA (fun | 0 => y | _ => loY) DistFacts.genDownCond ∧
    lt cx y = evalCondA (fun | 0 => y | _ => cx) DistFacts.genPredicate ∧
    le d xtol = evalCondA (fun | 0 => d | _ => xtol) DistFacts.bisectDoneCond ∧
    (eq mid high || eq mid low) =
      evalCondA (fun | 2 => mid | 3 => high | _ => low) DistFacts.bisectStuckCond := by
  simp [evalCondA, evalAtomA, operandA, cmpA, DistFacts.genRangeCond, DistFacts.genDirectionCond,
    DistFacts.genUpCond, DistFacts.genDownCond, DistFacts.genPredicate, DistFacts.bisectDoneCond,
    DistFacts.bisectStuckCond]

/-- the Bool comparisons of `bisectBool` (`flow == fhigh` panics, `fmid == flow` moves low) -/
theorem bisect_bool_conds_agree :
    DistFacts.bisectPanicCond = [[(false, 5, 4, 6)]] ∧ DistFacts.bisectLowCond = [[(false, 7, 4, 5)]] :=
  ⟨rfl, rfl⟩

end C12.Facts
