/-
C01 — regenerated tie for the format verbs of benchfmt/writer.go.

`Generated/WriteFacts.lean` is re-extracted on every check run: every `fmt.Fprintf` format of
`writeResult`, `writeFileConfig` and `writeUnitMetadata` (as format elements), their argument
expressions, and the count of `WriteByte('\n')`. The theorems state, for ALL inputs, that the
lines the model `Model/Fmt/Writer.lean` prints (it keeps lines without their newline; `render`
appends it) are those formats applied to the same arguments.
-/
import Model.Fmt.Writer
import Generated.WriteFacts
import Proofs.Facts.Common

namespace C01.Facts
open Fmt Generated FactsLib

def tok (l : List (List (Nat × Nat × Nat))) (i : Nat) : List (Nat × Nat × Nat) := l.getD i []

/-- **config_lines_agree** — `"%s: %s\n"` (changed / new key) and `"%s:\n"` (deleted key, file
config turned internal): all four call sites -/
theorem config_lines_agree (key value : Bytes) :
    delLine key ++ [10] = renderG (tok WriteFacts.fileConfigTokens 0) [key] ∧
    kvLine key value ++ [10] = renderG (tok WriteFacts.fileConfigTokens 1) [key, value] ∧
    delLine key ++ [10] = renderG (tok WriteFacts.fileConfigTokens 2) [key] ∧
    kvLine key value ++ [10] = renderG (tok WriteFacts.fileConfigTokens 3) [key, value] := by
  simp [delLine, kvLine, renderG, tok, WriteFacts.fileConfigTokens, List.flatMap]

/-- **unit_line_agrees** — `"Unit %s %s=%s\n"` of (OrigUnit, Key, Value) -/
theorem unit_line_agrees (m : UnitMeta) :
    unitLine m ++ [10] = renderG (tok WriteFacts.unitTokens 0) [m.origUnit, m.key, m.value] := by
  have h : unitPrefix = [85, 110, 105, 116] := rfl
  simp [unitLine, renderG, tok, WriteFacts.unitTokens, List.flatMap, h]

/-- **bench_line_agrees** — `"Benchmark%s %d"` of (Name, Iters), then `" %v %s"` per value -/
theorem bench_line_agrees (P : WParams) (r : Res) :
    benchLine P r =
      renderG (tok WriteFacts.resultTokens 0) [r.name, fmtInt r.iters] ++
      r.values.flatMap (fun v => renderG (tok WriteFacts.resultTokens 1) [P.fmtNum v.written.1, v.written.2]) := by
  have h : benchmarkPrefix = [66, 101, 110, 99, 104, 109, 97, 114, 107] := rfl
  simp [benchLine, renderG, tok, WriteFacts.resultTokens, List.flatMap, h]

/-- both value formats are the same; which pair is printed is decided by `val.OrigUnit == ""`;
argument expressions and newline counts (pinned) -/
theorem writer_shape_pinned :
    tok WriteFacts.resultTokens 1 = tok WriteFacts.resultTokens 2 ∧
    WriteFacts.origUnitCond = "val.OrigUnit == \"\"" ∧
    WriteFacts.resultArgs = [["res.Name", "res.Iters"], ["val.Value", "val.Unit"], ["val.OrigValue", "val.OrigUnit"]] ∧
    WriteFacts.fileConfigArgs = [["key"], ["key", "cfg.Value"], ["key"], ["cfg.Key", "cfg.Value"]] ∧
    WriteFacts.unitArgs = [["m.OrigUnit", "m.Key", "m.Value"]] ∧
    WriteFacts.resultNewlines = 1 ∧ WriteFacts.fileConfigNewlines = 2 :=
  ⟨by decide, rfl, rfl, rfl, rfl, rfl, rfl⟩

/-- the original value/unit is printed exactly when an original unit was recorded -/
theorem written_value_agrees (v : Val) :
    v.written = if v.origUnit == [] then (v.value, v.unit) else (v.origValue, v.origUnit) := by
  cases h : v.origUnit <;> simp [Val.written, h]

end C01.Facts
