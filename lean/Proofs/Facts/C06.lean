/-
C06 — regenerated tie for the special keys of benchproc/filter.go (`.unit`, `.config`) and of
benchproc/extract.go newExtractor (`.config`, `.unit`, `.name`, `.fullname`, `/gomaxprocs`, the `/`
prefix) against `Model/Proc/Extract.lean` / `Model/Proc/FilterEval.lean`.

`Generated/ParseFacts.lean` (shared with C07 and C09) is re-extracted on every check run.
-/
import Model.Proc.Extract
import Model.Proc.FilterEval
import Generated.ParseFacts
import Proofs.Facts.Common

namespace C06.Facts
open Proc.Extract Generated FactsLib

/-- **filter_special_keys_agree** — the keys `NewFilter` treats specially are the model's
`dotUnit` (unit match) and `dotConfig` (rejected) -/
theorem filter_special_keys_agree :
    ParseFacts.filterSpecialKeys.map bytes = [dotUnit, dotConfig] := by decide

/-- **extractor_keys_agree** — the keys `newExtractor` dispatches on, in source order -/
theorem extractor_keys_agree :
    ParseFacts.extractorKeys.map bytes = [dotConfig, dotUnit, dotName, dotFullname, gomaxprocsKey] := by
  decide

def rv : ResView := { name := [88, 47, 97, 61, 49, 45, 52], config := [([107], [118])] }   -- "X/a=1-4", k=v

/-- the outcome of the model extractor: (0, value) / (1, []) empty key / (2, []) not an extractor -/
def view (k : Bytes) : Nat × Bytes :=
  match extract k rv with
  | .ok b => (0, b)
  | .error .emptyKey => (1, [])
  | .error .notExtractor => (2, [])

/-- **extractor_dispatch_agrees** — the model extractor on the regenerated keys: the first two
are not extractors, `.name` gives the base name, `.fullname` the whole name, `/gomaxprocs` the
`-N` suffix, any other `/key` a sub-name, anything else a file configuration key -/
theorem extractor_dispatch_agrees :
    (ParseFacts.extractorKeys.map fun k => view (bytes k)) =
      [(2, []), (2, []), (0, [88]), (0, rv.name), (0, [52])] ∧
    view [47, 97] = (0, [49]) ∧ view [107] = (0, [118]) ∧ view [] = (1, []) := by
  refine ⟨by decide +kernel, by decide +kernel, by decide +kernel, by decide +kernel⟩

end C06.Facts
