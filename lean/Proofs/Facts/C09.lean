/-
C09 — regenerated tie for benchproc/sort.go: the result conventions of `builtinOrders["num"]`,
the names of the built-in orders, and the structure of `less`.

`Generated/ParseFacts.lean` (shared with C06 and C07) is re-extracted on every check run.
`parseNum` (regexp + SI/IEC multipliers) is NOT modelled (`Model/Proc/Sort.lean` takes its result
class as a parameter), so its constants have no counterpart and are not extracted.
-/
import Model.Proc.Sort
import Generated.ParseFacts
import Proofs.Facts.Common

namespace C09.Facts
open Proc.Sort Generated FactsLib

/-- probe `parseNum`: "e" is an error, "n" NaN, one digit its value -/
def pn (s : Bytes) : NumC :=
  if s == [101] then .err else if s == [110] then .nan else .val ((s.headD 48).toNat - 48)

def R (i : Nat) : Int := ParseFacts.numResults.getD i 7

/-- **num_order_agrees** — the values `builtinOrders["num"]` returns, in source order
(`<` or non-NaN before NaN ↦ R0, `>` or NaN after non-NaN ↦ R1, unordered floats ↦ R2, both
unparseable ↦ R3, float before non-float ↦ R4, else R5), are what the model's `cmpNum` returns -/
theorem num_order_agrees :
    cmpNum pn [49] [50] = R 0 ∧ cmpNum pn [49] [110] = R 0 ∧
    cmpNum pn [50] [49] = R 1 ∧ cmpNum pn [110] [49] = R 1 ∧
    cmpNum pn [49] [49] = R 2 ∧ cmpNum pn [110] [110] = R 2 ∧
    cmpNum pn [101] [101] = R 3 ∧
    cmpNum pn [49] [101] = R 4 ∧ cmpNum pn [110] [101] = R 4 ∧
    cmpNum pn [101] [49] = R 5 ∧ cmpNum pn [101] [110] = R 5 ∧
    ParseFacts.numResults.length = 6 := by decide

theorem num_conds_pinned :
    ParseFacts.numCondsS = ["erra == nil && errb == nil", "aa < bb || (!math.IsNaN(aa) && math.IsNaN(bb))",
      "aa > bb || (math.IsNaN(aa) && !math.IsNaN(bb))", "erra != nil && errb != nil", "erra == nil"] ∧
    ParseFacts.builtinOrdersS = ["alpha", "num"] := ⟨rfl, rfl⟩

/-- **less_structure_agrees** — `less`: bounds checks, `aa != bb`, `cmp != 0 → cmp < 0`, the
string fallback `aa < bb`, equal tuples ↦ false; the model's `lessBy` on probes with a constant
comparator c ∈ {−1, 0, 1} -/
theorem less_structure_agrees :
    ParseFacts.lessCondsS = ["node.idx < len(a)", "node.idx < len(b)", "aa != bb", "cmp != 0"] ∧
    ParseFacts.lessReturnsS = "cmp < 0;aa < bb;false;" ∧
    (let f : Field := ⟨[], 0, .alpha, []⟩
     lessBy (fun _ _ _ => -1) [f] [[98]] [[97]] = true ∧ lessBy (fun _ _ _ => 1) [f] [[97]] [[98]] = false ∧
     lessBy (fun _ _ _ => 0) [f] [[97]] [[98]] = true ∧ lessBy (fun _ _ _ => 0) [f] [[98]] [[97]] = false ∧
     lessBy (fun _ _ _ => -1) [f] [[97]] [[97]] = false ∧ lessBy (fun _ _ _ => -1) [f] [] [[97]] = true ∧
     lessBy (fun _ _ _ => -1) [] [[97]] [[98]] = false) := by
  refine ⟨rfl, rfl, by decide +kernel⟩

end C09.Facts
