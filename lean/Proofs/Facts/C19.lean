/-
C19 — regenerated tie for storage/db/db.go as modelled by `Model/Storage/Fmt.lean`: the flush
threshold on queued label arguments (`insertLabel`), the number of arguments per label row, and
the upload id format (`NewUpload`).

`Generated/DbFacts.lean` is re-extracted on every check run (shared with C20). Both constants are
hard-coded inside model definitions (`Upload.insertLabel`, `processUpload`), so the theorems
compare those functions, for all inputs, with interpreters of the regenerated facts.
-/
import Model.Storage.Fmt
import Generated.DbFacts
import Proofs.Facts.Common

namespace C19.Facts
open Storage.Fmt Storage.Query Generated FactsLib

/-- `fmt.Sprintf(format, args…)` from the regenerated elements; `%d` is rendered by `dec` -/
def renderG (tokens : List (Nat × Nat × Nat)) (args : List Bytes) : Bytes :=
  tokens.flatMap fun t =>
    if t.1 == 2 then [UInt8.ofNat t.2.1] else args.getD t.2.1 []

/-- the regenerated flush condition on a queue of `n` arguments -/
def flushG (n : Nat) : Bool :=
  evalCond (fun | 0 => (n : Int) | _ => (DbFacts.flushThreshold : Int)) DbFacts.flushCond

theorem flushG_eq (n : Nat) : flushG n = decide (n ≥ 990) := by
  simp [flushG, evalCond, evalAtom, operand, cmpI, DbFacts.flushCond, DbFacts.flushThreshold]
  omega

/-- **flush_threshold_agrees** — `insertLabel` flushes exactly when
`len(u.insertLabelArgs) >= 990`, and queues 4 arguments per label -/
theorem flush_threshold_agrees (u : Upload) (k v : Bytes) :
    (u.insertLabel k v).labelArgs =
      (if flushG u.labelArgs then 0 else u.labelArgs) + DbFacts.labelArgsPerRow := by
  rw [flushG_eq]
  by_cases h : u.labelArgs ≥ 990 <;> simp [Upload.insertLabel, Upload.flush, h, DbFacts.labelArgsPerRow]

/-- … and the flush forgets `lastResult` (so the next record starts a new row) -/
theorem flush_resets_last (u : Upload) (k v : Bytes) :
    (u.insertLabel k v).lastResult = if flushG u.labelArgs then none else u.lastResult := by
  rw [flushG_eq]
  by_cases h : u.labelArgs ≥ 990 <;> simp [Upload.insertLabel, Upload.flush, h]

/-- **upload_id_format_agrees** — the id `processUpload` assigns is
`fmt.Sprintf("%s.%d", day, num)` with the regenerated format, for every state and request -/
theorem upload_id_format_agrees (db : DB) (day user : Bytes) (files : List FileIn) :
    (processUpload db day user files).2.1 =
      renderG DbFacts.idTokens [day, natToDec (nextSeq db day)] := by
  have hr : renderG DbFacts.idTokens [day, natToDec (nextSeq db day)] =
      day ++ [46] ++ natToDec (nextSeq db day) := by
    simp [renderG, DbFacts.idTokens, List.flatMap]
  rw [hr]
  unfold processUpload
  simp only []
  repeat' split
  all_goals rfl

theorem db_constants_pinned :
    DbFacts.flushCalled = true ∧ DbFacts.idIncrements = true ∧ DbFacts.idFormat = "%s.%d" ∧
    DbFacts.idArgs = ["day", "num"] ∧ DbFacts.idReadBack = "lastID[len(day)+1:]" ∧
    DbFacts.recordArgsPerRow = 3 ∧
    DbFacts.flushInserts.map (·.2.1) = [DbFacts.recordArgsPerRow, DbFacts.labelArgsPerRow] :=
  ⟨rfl, rfl, rfl, rfl, rfl, rfl, by decide⟩

end C19.Facts
