/-
Shared interpreters for the numeric forms emitted by /verif/extract (core Lean only).

* comparison-operator codes: 0:`>=` 1:`>` 2:`<=` 3:`<` 4:`==` 5:`!=`; 8: bare boolean operand
* a condition is a disjunction of conjunctions of atoms `(negated, lhs code, operator code, rhs code)`;
  operand codes are listed in the generated file; `1000+n` is the integer literal `n`.
-/
import Model.Base.F64

namespace FactsLib

/-- Go string bytes as emitted by the extractor → `List UInt8` -/
def bytes (l : List Nat) : List UInt8 := l.map UInt8.ofNat

/-- a Go decimal literal (negative, mantissa, decimal exponent) → the float64 constant the
compiler produces (correctly rounded) -/
def f64 (d : Bool × Nat × Int) : F64.Bits := F64.ofDecimal d.1 d.2.1 d.2.2

/-- a Go decimal literal as an exact fraction (numerator, denominator), sign dropped -/
def frac (d : Bool × Nat × Int) : Nat × Nat :=
  if d.2.2 ≥ 0 then (d.2.1 * 10 ^ d.2.2.toNat, 1) else (d.2.1, 10 ^ (-d.2.2).toNat)

/-- comparison by operator code on integers -/
def cmpI (op : Nat) (a b : Int) : Bool :=
  match op with
  | 0 => decide (a ≥ b) | 1 => decide (a > b) | 2 => decide (a ≤ b) | 3 => decide (a < b)
  | 4 => decide (a = b) | 5 => decide (a ≠ b) | _ => false

/-- comparison by operator code on float64 bit patterns (Go semantics: NaN compares false) -/
def cmpF (op : Nat) (a b : F64.Bits) : Bool :=
  match op with
  | 0 => F64.le b a | 1 => F64.lt b a | 2 => F64.le a b | 3 => F64.lt a b
  | 4 => F64.eq a b | 5 => !F64.eq a b | _ => false

abbrev Atom := Bool × Nat × Nat × Nat
abbrev Cond := List (List Atom)

/-- operand lookup: integer literals are `1000+n`, everything else comes from the environment -/
def operand (env : Nat → Int) (c : Nat) : Int := if c ≥ 1000 then ((c - 1000 : Nat) : Int) else env c

def evalAtom (env : Nat → Int) (a : Atom) : Bool :=
  let v := if a.2.2.1 == 8 then decide (operand env a.2.1 ≠ 0)
           else cmpI a.2.2.1 (operand env a.2.1) (operand env a.2.2.2)
  if a.1 then !v else v

/-- `c₁₁ && c₁₂ && … || c₂₁ && … || …` -/
def evalCond (env : Nat → Int) (c : Cond) : Bool := c.any fun conj => conj.all (evalAtom env)

/-- the same over float64 operands (`1000+n` / `2000+n`: the literals n / -n) -/
def operandF (env : Nat → F64.Bits) (c : Nat) : F64.Bits :=
  if c ≥ 2000 then F64.ofInt (-((c - 2000 : Nat) : Int))
  else if c ≥ 1000 then F64.ofInt ((c - 1000 : Nat) : Int) else env c

def evalAtomF (env : Nat → F64.Bits) (a : Atom) : Bool :=
  let v := cmpF a.2.2.1 (operandF env a.2.1) (operandF env a.2.2.2)
  if a.1 then !v else v

def evalCondF (env : Nat → F64.Bits) (c : Cond) : Bool := c.any fun conj => conj.all (evalAtomF env)

/-- `fmt.Sprintf(format, args…)` from format elements `(0|1, i, _)` = argument i (already
rendered), `(2, b, _)` = the byte b -/
def renderG (tokens : List (Nat × Nat × Nat)) (args : List (List UInt8)) : List UInt8 :=
  tokens.flatMap fun t => if t.1 == 2 then [UInt8.ofNat t.2.1] else args.getD t.2.1 []

end FactsLib
