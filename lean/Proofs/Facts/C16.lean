/-
C16 — regenerated tie for the text/CSV rendering constants of
cmd/benchstat/internal/benchtab/table.go (ToText, ToCSV, superscript) and
cmd/benchstat/internal/texttab/table.go (Span's default margin, lpad).

`Generated/TabFacts.lean` is re-extracted on every check run: the column-group sizes
(label/center/delta), every `LeftMargin` string (" │ ", " │", "  ", " ± "), "vs base", the
alignment of every Span/Cell call, the superscript digit table, the footnote line format and
join, the CSV cell-reference scheme ('A' + x%26), the CSV warning format and header literals, the
default margin of texttab. The theorems compare them with `Model/Tab/Render.lean` and
`Model/Tab/TextTab.lean`: named constants by value, inlined ones by building the model's tables.
-/
import Model.Tab.Render
import Generated.TabFacts
import Proofs.Facts.Common

namespace C16.Facts
open Tab.Render Tab.TextTab Generated FactsLib

/-! ### column groups -/

def startColG (cols : Nat × Nat × Nat) (exp : Nat) : Nat :=
  if exp == 0 then cols.1 else cols.1 + cols.2.1 + (exp - 1) * (cols.2.1 + cols.2.2)

/-- **column_groups_agree** — `startCol` of ToText (1, 3, 3) and ToCSV (1, 2, 2), group widths -/
theorem column_groups_agree :
    ((List.range 12).all fun e => textStartCol e == startColG TabFacts.textCols e &&
      csvStartCol e == startColG TabFacts.csvCols e) = true ∧
    textGroupWidth 0 = TabFacts.textCols.2.1 ∧ textGroupWidth 1 = TabFacts.textCols.2.1 + TabFacts.textCols.2.2 ∧
    csvGroupWidth 0 = TabFacts.csvCols.2.1 ∧ csvGroupWidth 1 = TabFacts.csvCols.2.1 + TabFacts.csvCols.2.2 := by
  decide

/-! ### margins, alignment -/

/-- **margins_agree** — the six LeftMargin strings, in source order -/
theorem margins_agree :
    TabFacts.margins.map bytes = [barMargin, edgeMargin, barMargin, [0x20, 0x20], edgeMargin, pmMargin] ∧
    bytes TabFacts.vsBase = vsBase := by decide

/-- what the model's builder records for a cell: (col, span, value, margin, alignment code) -/
def cellsOf (ops : List Op) : List (Nat × Nat × Bytes × Bytes × Nat) :=
  match build ops with
  | none => []
  | some t => t.cells.map fun c =>
      (c.col, c.span, c.value, c.margin, match c.align with | .left => 0 | .center => 1 | .right => 2)

def mg (i : Nat) : Bytes := bytes (TabFacts.margins.getD i [])

/-- alignment code of the i-th Span/Cell call of ToText (no option = Left) -/
def al (i : Nat) : Nat :=
  let a := (TabFacts.textCalls.getD i ("", "", 0, "")).2.2.1
  if a < 0 then 0 else a.toNat

/-- **header_rows_agree** — a header level and the unit row as the model builds them: span
`centerCols` centred with " │ ", "vs base" over `deltaCols` left-aligned with "  ", right edge " │" -/
theorem header_rows_agree :
    let c := TabFacts.textCols.2.1
    let d := TabFacts.textCols.2.2
    cellsOf (levelOps 10 [.mk 0 [107] 0 2 []]) =
      [(1, c + (c + d), [107], mg 0, al 1), (10, 1, [], mg 1, al 2)] ∧
    cellsOf (unitRowOps 10 2 [117]) =
      [(1, c, [117], mg 2, al 3), (1 + c, c, [117], mg 2, al 3), (1 + c + c, d, bytes TabFacts.vsBase, mg 3, al 4),
       (10, 1, [], mg 4, al 5)] := by
  refine ⟨by decide +kernel, by decide +kernel⟩

def dc : DataCell := ⟨[49], [49], [50], [], some ⟨[51], [52], []⟩⟩

/-- **data_cells_agree** — a measurement cell with a baseline: centre right-aligned, range
right-aligned with " ± ", delta right-aligned, "(p…)" default, the warning cells default -/
theorem data_cells_agree :
    cellsOf (Op.row :: Op.span 1 [120] [] :: (dataCellOps [] 1 dc).2) =
      [(0, 1, [120], bytes TabFacts.noMargin, al 6),
       (textStartCol 1, 1, [49], bytes TabFacts.defaultMargin, al 7),
       (textStartCol 1 + 1, 1, [50], mg 5, al 8),
       (textStartCol 1 + 2, 1, [], bytes TabFacts.noMargin, al 0),
       (textStartCol 1 + 3, 1, [51], bytes TabFacts.defaultMargin, al 9),
       (textStartCol 1 + 4, 1, [40, 52, 41], bytes TabFacts.defaultMargin, al 10),
       (textStartCol 1 + 5, 1, [], bytes TabFacts.noMargin, al 0)] := by decide +kernel

/-- the alignment / margin of every Span/Cell call of ToText in source order (pinned; the rows
above run the model on the same calls) -/
theorem text_calls_pinned :
    TabFacts.textCalls.map (fun c => (c.1, c.2.2.1, c.2.2.2)) =
      [("1", -1, "<none>"), ("r-l", 1, " │ "), ("1", -1, " │"), ("centerCols", 1, " │ "),
       ("deltaCols", 0, "  "), ("1", -1, " │"), ("1", -1, "<none>"), ("1", 2, "<none>"), ("1", 2, " ± "),
       ("1", 2, "<none>"), ("1", -1, "<none>"), ("1", -1, "<none>"), ("1", 2, "<none>"), ("1", 2, "<none>"),
       ("1", -1, "<none>")] ∧
    TabFacts.shrinkLoop = "j := l + 1; j < o.CurCol(); j++ { o.SetShrink(j, true) }" ∧
    TabFacts.textFormats = ["%+.2f%%", "%s %s\n"] := ⟨rfl, rfl, rfl⟩

/-- **shrink_columns_agree** — interior columns of each group shrink, the first of each group and
the label column do not -/
theorem shrink_columns_agree :
    ((build (unitRowOps 10 2 [117])).map fun t => (List.range 10).map t.isShrink) =
      some [false, false, true, true, false, true, true, true, true, true] := by decide +kernel

/-! ### footnotes -/

def superG (i : Nat) : Bytes :=
  let b := TabFacts.superBase.getD 0 10
  if i == 0 then bytes (TabFacts.superDigits.getD 0 [])
  else ((Nat.toDigits b i).map fun c => bytes (TabFacts.superDigits.getD (c.toNat - 48) [])).flatten

/-- **superscript_agrees** — the digit table ⁰¹²³⁴⁵⁶⁷⁸⁹ (UTF-8) and base 10 -/
theorem superscript_agrees :
    (List.range 10).map superDigit = TabFacts.superDigits.map bytes ∧
    ([0, 1, 9, 10, 11, 99, 100, 1234567890, 405].all fun i => superscript i == superG i) = true ∧
    TabFacts.superBuf = 20 ∧ TabFacts.superBase = [10, 10] := by
  refine ⟨by decide +kernel, by decide +kernel, by decide, by decide⟩

/-- **footnote_lines_agree** — `fmt.Fprintf(w, "%s %s\n", superscript(i+1), msg)` per warning, and
the footnote marks of a cell joined by " " -/
theorem footnote_lines_agree :
    footnoteLines [[97], [98, 99]] =
      renderG TabFacts.footnoteTokens [superscript 1, [97]] ++ renderG TabFacts.footnoteTokens [superscript 2, [98, 99]] ∧
    joinSp [[97], [98], [99]] = [97] ++ bytes TabFacts.footnoteJoin ++ [98] ++ bytes TabFacts.footnoteJoin ++ [99] := by
  refine ⟨by decide +kernel, by decide +kernel⟩

/-! ### CSV -/

/-- little-endian digits of x in base b (fuel = x suffices for b ≥ 2) -/
def digitsLE (b : Nat) : Nat → Nat → List Nat
  | 0, _ => []
  | fuel + 1, x => if x == 0 then [] else (x % b) :: digitsLE b fuel (x / b)

def colNameG (x : Nat) : Bytes :=
  let a := TabFacts.csvNameParts.getD 0 0
  if x == 0 then [UInt8.ofNat (TabFacts.csvNameParts.getD 3 0)]
  else if TabFacts.csvNameParts.getD 1 1 != TabFacts.csvNameParts.getD 2 2 then []
  else ((digitsLE (TabFacts.csvNameParts.getD 1 1) 10 x).reverse.map fun d => UInt8.ofNat (a + d))

/-- **csv_cell_reference_agrees** — the column label built from `len(row)` ('A' + x%26 per digit,
"A" for 0) -/
theorem csv_cell_reference_agrees :
    ((List.range 120).all fun x => colName x == colNameG x) = true ∧
    colName 700 = colNameG 700 ∧ TabFacts.csvNameParts = [65, 26, 26, 65] ∧ TabFacts.csvNameBuf = 10 := by
  refine ⟨by decide +kernel, by decide +kernel, by decide, by decide⟩

/-- **csv_warning_line_agrees** — `fmt.Fprintf(warnings, "%s%d: %s\n", colName, row, msg)` -/
theorem csv_warning_line_agrees (x r : Nat) (m : Bytes) :
    warnLine (x, r, m) = renderG TabFacts.csvWarnTokens [colName x, natDigits r, m] := by
  simp [warnLine, renderG, TabFacts.csvWarnTokens, List.flatMap]

/-- **csv_header_agrees** — the unit row: unit, "CI", and for exp > 0 "vs base", "P"; "?" for a
missing ratio -/
theorem csv_header_agrees :
    let L (i : Nat) : Bytes := bytes (TabFacts.csvLiterals.getD i [])
    csvUnitRow 2 [117] = [L 0, [117], L 1, [117], L 1, L 2, L 3] ∧
    (csvSumCols 0 [[115]] [] 1 [some ⟨false, [], [], false, [], []⟩]).1 = [[115], L 0, L 0, L 0, L 0, L 4] := by
  refine ⟨by decide +kernel, by decide +kernel⟩

/-! ### texttab -/

/-- **default_margin_agrees** — `Span`: " " unless the cell is in column 0 or empty -/
theorem default_margin_agrees :
    cellsOf [Op.row, Op.span 1 [97] [], Op.span 1 [98] [], Op.span 1 [] []] =
      [(0, 1, [97], bytes TabFacts.noMargin, 0), (1, 1, [98], bytes TabFacts.defaultMargin, 0),
       (2, 1, [], bytes TabFacts.noMargin, 0)] ∧
    TabFacts.noMarginCond = "t.curCol == 0 || len(value) == 0" := ⟨by decide +kernel, rfl⟩

/-- **centre_padding_agrees** — `l := (w - runes(s)) / 2` -/
theorem centre_padding_agrees :
    ([(3 : Int), 4, 5, 6, 9, 10].all fun w =>
      lpad .center [120, 121] w == spaces ((w - 2) / (TabFacts.centreDivisor : Int)).toNat ++ [120, 121]) = true ∧
    TabFacts.padFormats = ["%*s%s", "%*s"] := ⟨by decide +kernel, rfl⟩

end C16.Facts
