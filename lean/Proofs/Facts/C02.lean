/-
C02 — regenerated tie for benchfmt/reader.go and benchfmt/files.go.

`Generated/ReadFacts.lean` is re-extracted on every check run: the scanner limit (no
`Scanner.Buffer` call ⇒ `bufio.MaxScanTokenSize`, value and `ErrTooLong` text read from the Go
standard library), the I/O error and SyntaxError formats, the `isSpace` bit mask, the literal
prefixes `Benchmark` / `Unit`, the separators of `parseKeyValueLine`, every syntax-error message,
the unit-metadata conflict format, the `=` of `key=value`, and the `#N` disambiguation / label
separator / stdin name of `Files`. The theorems compare them with `Model/Fmt/{Rune,Reader,
ReaderLimit,Files}.lean`: named constants by value, inlined ones by running the model on probes.
-/
import Model.Fmt.Reader
import Model.Fmt.ReaderLimit
import Model.Fmt.Files
import Generated.ReadFacts
import Proofs.Facts.Common

namespace C02.Facts
open Fmt Generated FactsLib

/-! ### scanner limit and error formats -/

/-- **max_line_agrees** — the reader never calls `Scanner.Buffer`, so lines are limited by
`bufio.MaxScanTokenSize` = the model's `maxToken` -/
theorem max_line_agrees :
    ReadFacts.scannerBufferCalled = false ∧ ReadFacts.scannerCtor = "bufio.NewScanner(ior)" ∧
    maxToken = ReadFacts.maxScanTokenSize := ⟨rfl, rfl, by decide⟩

/-- **too_long_message_agrees** — `fmt.Errorf("%s:%d: %w", fileName, line, bufio.ErrTooLong)` -/
theorem too_long_message_agrees (fileName : Bytes) (line : Nat) :
    tooLongMsg fileName line =
      renderG ReadFacts.ioErrTokens [fileName, decimal line, bytes ReadFacts.errTooLong] := by
  have h : tooLongSuffix = [58, 32] ++ bytes ReadFacts.errTooLong := by decide +kernel
  simp [tooLongMsg, renderG, ReadFacts.ioErrTokens, List.flatMap, h]

theorem syntax_error_format_pinned :
    ReadFacts.syntaxErrorFormat = "%s:%d: %s" ∧ ReadFacts.syntaxErrorTokens = ReadFacts.ioErrTokens :=
  ⟨rfl, by decide⟩

/-- `if fileName == "" { fileName = "<unknown>" }` -/
theorem unknown_file_name_agrees :
    (RState.zero.reset [] []).fileName = bytes ReadFacts.unknownFileName ∧
    (RState.zero.reset [120] []).fileName = [120] := by
  refine ⟨by decide +kernel, by decide +kernel⟩

/-! ### white space, prefixes -/

/-- **space_mask_agrees** — the `isSpace` constant and the six bytes it marks; `asciiSpace`
agrees with membership for every byte -/
theorem space_mask_agrees :
    asciiSpaceMask = ReadFacts.isSpaceMask ∧
    ((List.range 256).all fun c => asciiSpace (UInt8.ofNat c) == ReadFacts.isSpaceBytes.contains c) = true ∧
    ((List.range 128).all fun c => UC.ascii.space c == ReadFacts.isSpaceBytes.contains c) = true ∧
    ReadFacts.isSpaceTests = ["(isSpace>>x[i])&1!=0", "(isSpace>>rest[0])&1==0"] := by
  refine ⟨by decide, by decide +kernel, by decide +kernel, rfl⟩

/-- **prefixes_agree** — `"Benchmark"`, `"Unit"`, `line[len("Benchmark"):]` -/
theorem prefixes_agree :
    benchmarkPrefix = bytes ReadFacts.benchmarkPrefix ∧ unitPrefix = bytes ReadFacts.unitPrefix ∧
    ReadFacts.benchmarkSkip = benchmarkPrefix.length ∧ ReadFacts.unitLineComparesWith = "unitPrefix" := by
  refine ⟨by decide, by decide, by decide, rfl⟩

/-! ### messages, by running the model -/

def msg (i : Nat) : Bytes := bytes (ReadFacts.messages.getD i [])

/-- oracles for the probes: ASCII classes; `1` parses, `x` is a syntax error, `r` a range error -/
def O : Oracles where
  uc := UC.ascii
  atoi := fun s => if s == [120] then .error .syntax else if s == [114] then .error .range else .ok 1
  atof := fun s => if s == [120] then .error .syntax else if s == [114] then .error .range else .ok 0
  tidy := fun v u => (v, u)

def B (l : List Nat) : Bytes := benchmarkPrefix ++ bytes l

/-- **bench_line_messages_agree** — the five messages of parseBenchmarkLine (with the
`bytesconv.ErrSyntax` / `ErrRange` texts appended where the source appends `err.Err.Error()`),
and the skipped 9 bytes -/
theorem bench_line_messages_agree :
    parseBenchmarkLine O (B [88, 32]) = .err (msg 0) ∧                                   -- "BenchmarkX "
    parseBenchmarkLine O (B [88, 32, 120]) = .err (msg 1 ++ bytes ReadFacts.errSyntax) ∧   -- "BenchmarkX x"
    parseBenchmarkLine O (B [88, 32, 114]) = .err (msg 1 ++ bytes ReadFacts.errRange) ∧    -- "BenchmarkX r"
    parseBenchmarkLine O (B [88, 32, 49]) = .err (msg 2) ∧                               -- "BenchmarkX 1"
    parseBenchmarkLine O (B [88, 32, 49, 32, 120, 32, 117]) = .err (msg 3 ++ bytes ReadFacts.errSyntax) ∧
    parseBenchmarkLine O (B [88, 32, 49, 32, 114, 32, 117]) = .err (msg 3 ++ bytes ReadFacts.errRange) ∧
    parseBenchmarkLine O (B [88, 32, 49, 32, 50]) = .err (msg 4) ∧                       -- "BenchmarkX 1 2"
    parseBenchmarkLine O (B [88]) = .skip ∧
    parseBenchmarkLine O (B [88, 32, 49, 32, 50, 32, 117]) = .ok [88] 1 [⟨0, [117], 0, []⟩] := by
  refine ⟨by decide +kernel, by decide +kernel, by decide +kernel, by decide +kernel, by decide +kernel,
    by decide +kernel, by decide +kernel, by decide +kernel, by decide +kernel⟩

def fn : Bytes := [102]          -- "f"

/-- **unit_line_messages_agree** — "missing unit", "expected key=value" (no `=`, or nothing
before it), the conflict message `metadata %s of unit %s already set to %s`, the `=` separator -/
theorem unit_line_messages_agree :
    (parseUnitLine O fn 3 [] []).2 = [.err ⟨fn, 3, msg 5⟩] ∧
    (parseUnitLine O fn 3 [] (bytes [117, 32, 97])).2 = [.err ⟨fn, 3, msg 6⟩] ∧            -- "u a"
    (parseUnitLine O fn 3 [] (bytes [117, 32, 61, 97])).2 = [.err ⟨fn, 3, msg 6⟩] ∧        -- "u =a"
    (parseUnitLine O fn 3 [⟨[117], [97], [117], [98], fn, 1⟩] (bytes [117, 32, 97, 61, 99])).2 =
      [.err ⟨fn, 3, renderG ReadFacts.metadataConflictTokens [[97], [117], [98]]⟩] ∧         -- "u a=c" vs a=b
    (parseUnitLine O fn 3 [] (bytes [117, 32, 97, ReadFacts.unitFieldSep, 99])).2 =
      [.unit ⟨[117], [97], [117], [99], fn, 3⟩] := by
  refine ⟨by decide +kernel, by decide +kernel, by decide +kernel, by decide +kernel, by decide +kernel⟩

/-! ### key: value lines -/

/-- **key_value_shape_agrees** — the value is separated by the regenerated blanks (space, tab),
the key ends at the regenerated rune `:`; first rune lower case, no space / upper case in the key
(conditions pinned, behaviour probed) -/
theorem key_value_shape_agrees :
    ((List.range 256).all fun c => isBlank (UInt8.ofNat c) == ReadFacts.keyValueBlanks.contains c) = true ∧
    parseKeyValueLine UC.ascii (bytes [107, ReadFacts.keyValueSep, 32, 118]) = some ([107], [118]) ∧   -- "k: v"
    parseKeyValueLine UC.ascii (bytes [107, ReadFacts.keyValueSep]) = some ([107], []) ∧
    parseKeyValueLine UC.ascii (bytes [107, ReadFacts.keyValueSep, 118]) = none ∧                      -- "k:v"
    parseKeyValueLine UC.ascii (bytes [75, 58, 32, 118]) = none ∧                                      -- "K: v"
    parseKeyValueLine UC.ascii (bytes [107, 75, 58, 32, 118]) = none ∧                                 -- "kK: v"
    parseKeyValueLine UC.ascii (bytes [107, 32, 58, 32, 118]) = none ∧                                 -- "k : v"
    parseKeyValueLine UC.ascii (bytes [58, 32, 118]) = none ∧                                          -- ": v"
    parseKeyValueLine UC.ascii (bytes [49, 58, 32, 118]) = none ∧                                      -- "1: v"
    ReadFacts.keyValueConds = ["i == 0 && !unicode.IsLower(r)", "unicode.IsSpace(r) || unicode.IsUpper(r)",
      "i > 0 && r == ':'", "len(key) == 0", "len(val) == 0"] := by
  refine ⟨by decide +kernel, by decide +kernel, by decide +kernel, by decide +kernel, by decide +kernel,
    by decide +kernel, by decide +kernel, by decide +kernel, by decide +kernel, rfl⟩

/-! ### Files -/

def pa : Bytes := [97]   -- "a"

/-- **files_labels_agree** — `path#N` disambiguation with the regenerated format, the label
separator `=` and the stdin name `-` -/
theorem files_labels_agree :
    (Files.init [pa, pa, [98]] false false).map (·.label) =
      [renderG ReadFacts.fileLabelTokens [pa, decimal 0], renderG ReadFacts.fileLabelTokens [pa, decimal 1], [98]] ∧
    (parsePath true true ([108] ++ bytes ReadFacts.fileLabelSep ++ pa)) =
      { path := pa, label := [108], isStdin := false, isLabeled := true } ∧
    (parsePath true false ([108] ++ bytes ReadFacts.fileLabelSep ++ pa)).isLabeled = false ∧
    (parsePath true true (bytes ReadFacts.stdinName)).isStdin = true ∧
    (parsePath false true (bytes ReadFacts.stdinName)).isStdin = false ∧
    (parsePath true true pa).isStdin = false ∧
    (Files.init [] true false).map (·.path) = [bytes ReadFacts.stdinName] := by
  refine ⟨by decide +kernel, by decide +kernel, by decide +kernel, by decide +kernel, by decide +kernel,
    by decide +kernel, by decide +kernel⟩

end C02.Facts
