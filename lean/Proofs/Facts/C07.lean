/-
C07 — regenerated tie for the filter/projection tokenizer benchproc/internal/parse/tok.go and
the special keys / order names the parsers test (parse/projection.go, benchproc/projection.go).

`Generated/ParseFacts.lean` (shared with C06 and C09) is re-extracted on every check run. The
theorems compare it with the named constants of `Model/Proc/Tok.lean` and run the model tokenizer
on one probe per operator, token kind, keyword and delimiter.
-/
import Model.Proc.Tok
import Model.Proc.ParseFilter
import Model.Proc.ParseProj
import Generated.ParseFacts
import Proofs.Facts.Common

namespace C07.Facts
open Proc.Tok Generated FactsLib

/-- **op_set_agrees** — `isOp` / `isStartOp` as rune sets, for every rune below 0x300 and the
model's byte-level test for every byte -/
theorem op_set_agrees :
    ((List.range 0x300).all fun r => isOpR r == ParseFacts.opRunes.contains r &&
      isStartOpR r == ((ParseFacts.startOpIncludesOp && ParseFacts.opRunes.contains r) ||
        ParseFacts.startOpExtra.contains r)) = true ∧
    ParseFacts.opRunes = [cLP, cRP, cColon, cAt, cComma].map (·.toNat) ∧
    ParseFacts.startOpExtra = [cDash, cStar].map (·.toNat) := by
  refine ⟨by decide +kernel, by decide, by decide⟩

/-- **token_constants_agree** — token kinds (EOF, 'q', 'A', 'O', 'w', 'r'), keywords, the bytes
that start a regexp / quoted word, the escape byte, the regexp delimiter and bracket bytes -/
theorem token_constants_agree :
    ParseFacts.tokenKinds = [0, kQ, kA, kO, kW, kR].map (·.toNat) ∧
    ParseFacts.keywords.map bytes = [wAND, wOR] ∧
    ParseFacts.nextDelims = [cSlash, cQuote].map (·.toNat) ∧
    ParseFacts.quotedWordChars = [cQuote, cBsl, kQ].map (·.toNat) ∧
    bytes ParseFacts.regexpDelim = [cSlash] ∧
    ParseFacts.regexpBrackets = [cLB, cRB, cLP, cRP, cBsl].map (·.toNat) ∧
    ParseFacts.spaceFastByte = [32] := by decide

def cx (n : Nat) : Ctx := { n := n, compileOK := fun _ => true, isSpaceHi := fun _ => false }

def kindOf (allowRe : Bool) (q : Bytes) : Nat := (next (cx q.length) allowRe q none).tok.kind.toNat

/-- **tokenizer_probes_agree** — the model tokenizer returns every operator rune as its own
kind, and the regenerated kinds on "", `"a"`, `AND`, `OR`, `x`, `/a/`; a leading space byte is
skipped; without `allowRegexp` a `/` starts a bare word -/
theorem tokenizer_probes_agree :
    ((ParseFacts.opRunes ++ ParseFacts.startOpExtra).all fun c => kindOf false [UInt8.ofNat c] == c) = true ∧
    [kindOf true [], kindOf true [34, 97, 34], kindOf true (bytes (ParseFacts.keywords.getD 0 [])),
     kindOf true (bytes (ParseFacts.keywords.getD 1 [])), kindOf true [120], kindOf true [47, 97, 47]] =
      ParseFacts.tokenKinds ∧
    kindOf false (32 :: bytes (ParseFacts.keywords.getD 0 [])) = ParseFacts.tokenKinds.getD 2 0 ∧
    kindOf false [47, 97, 47] = ParseFacts.tokenKinds.getD 4 0 ∧
    kindOf true [97, 110, 100] = ParseFacts.tokenKinds.getD 4 0 := by
  refine ⟨by decide +kernel, by decide +kernel, by decide +kernel, by decide +kernel, by decide +kernel⟩

/-- **special_keys_agree** — `.unit`, `.config`, `.fullname` and the order names `first`,
`fixed`, `alpha`, `num` the parsers compare with -/
theorem special_keys_agree :
    ParseFacts.filterSpecialKeys.map bytes = [kUnit, kConfig] ∧
    (ParseFacts.projSpecialKeys.take 3).map bytes = [kConfig, kFullname, kUnit] ∧
    ParseFacts.projOrders.map bytes = [oFixed, oFirst] ∧
    bytes ParseFacts.defaultOrder = oFirst ∧ bytes ParseFacts.fixedOrder = oFixed ∧
    ParseFacts.builtinOrders.map bytes = [oAlpha, oNum] := by decide

/-- tokenizer messages (an enum in the model; the harness maps the texts) and quoteWord's rune
list: pinned -/
theorem tokenizer_text_pinned :
    ParseFacts.tokenizerMessages = ["missing end quote", "bad escape sequence", "missing close \"/\"",
      "regexp must be followed by space or an operator (unescaped \"/\"?)"] ∧
    ParseFacts.quoteWordRunes = [34, 32, 7, 8] := ⟨rfl, rfl⟩

end C07.Facts
