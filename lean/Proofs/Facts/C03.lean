/-
C03 — regenerated tie for benchfmt/internal/bytesconv (atof.go, decimal.go, atoi.go, ftoa.go) and
the integer fast path of benchfmt/reader.go `atof`.

`Generated/NumFacts.lean` is re-extracted on every check run: the tables `float64pow10`, `leftcheats`
(delta + cutoff digits), `powtab`, the limits 19/16 (mantissa digits), 800 (decimal buffer), 10000
(exponent clamp), 310 / −330 (floatBits exits), 27 and `maxShift` = uintSize − 4, the exact-path
windows (15+22, 22, 1e15), `float64info`, the spellings of `special`, the `Atoi` fast-path length
bound, the `ParseUint`/`ParseInt` cutoffs (constant expressions evaluated with Go's integer
semantics for a 64-bit platform) and the `(math.MaxInt64-10)/10` guard. Tables and named constants
are compared by value; constants inlined in model definitions by running the model
(`Model/Num/*.lean`) and an interpreter of the regenerated facts on boundary probes.
-/
import Model.Num.Atof
import Model.Num.Atoi
import Model.Num.FastPath
import Model.Num.DecSlow
import Generated.NumFacts
import Proofs.Facts.Common

namespace C03.Facts
open Generated FactsLib

/-! ### tables -/

/-- **pow10_table_agrees** — `float64pow10[0..22]`: every literal rounded to float64 -/
theorem pow10_table_agrees :
    (List.range Num.pow10TableLen).map Num.float64pow10 = NumFacts.float64pow10.map f64 ∧
    NumFacts.float64pow10.length = Num.pow10TableLen := by decide +kernel

/-- **leftcheats_agree** — all 61 rows: delta and cutoff digit string -/
theorem leftcheats_agree :
    Num.leftcheats = NumFacts.leftcheats.map (fun r => (r.1, bytes r.2)) := by decide +kernel

/-- **powtab_agrees** — and the sizes: 800-digit buffer, `maxShift` = uintSize − 4 = 60 on a
64-bit platform (the model's platform assumption) -/
theorem powtab_agrees :
    Num.powtab = NumFacts.powtab ∧ Num.bufLen = NumFacts.decimalBufLen ∧
    Num.maxShift = NumFacts.maxShift ∧ NumFacts.uintSize = 64 ∧ NumFacts.intSize = 64 := by decide

/-! ### floatBits -/

/-- the shift the source picks for a decimal exponent `dp` in the first (`down`) or second loop -/
def shiftG (down : Bool) (dp : Int) : Nat :=
  let env : Nat → Int := fun | 0 => dp | 1 => NumFacts.powtab.length | 2 => -dp | _ => 0
  if evalCond env (if down then NumFacts.scaleDownBigCond else NumFacts.scaleUpBigCond) then
    NumFacts.bigShift.getD (if down then 0 else 1) 0
  else NumFacts.powtab.getD (if down then dp else -dp).toNat 0

/-- the binary exponent after one round of a scaling loop, from the regenerated conditions -/
def roundG (down : Bool) (c0 : UInt8) (dp : Int) : Int :=
  let env : Nat → Int := fun | 0 => dp | 3 => c0.toNat | _ => 0
  if evalCond env (if down then NumFacts.scaleDownCond else NumFacts.scaleUpCond) then
    (if down then (shiftG down dp : Int) else -(shiftG down dp : Int))
  else 0

def dpProbes : List Int := (List.range 25).map fun (i : Nat) => (i : Int) - 12

/-- **float_bits_scaling_agrees** — loop conditions `d.dp > 0`, `d.dp < 0 || d.dp == 0 && d.d[0] < '5'`,
the table bound `>= len(powtab)`, `powtab[±dp]` and the fallback 27: one round of the model's
`fbDown` / `fbUp` = the regenerated rule, for dp = −12 … 12 and first digit '4' / '5' -/
theorem float_bits_scaling_agrees :
    (dpProbes.all fun dp => [(52 : UInt8), 53].all fun c =>
      (Num.fbDown 1 { d := [c], dp := dp } 0).2 == roundG true c dp &&
      (Num.fbUp 1 { d := [c], dp := dp } 0).2 == roundG false c dp) = true := by decide +kernel

/-- the "obvious overflow/underflow" exits (`d.dp > 310`, `d.dp < -330`) and `float64info` are
inlined in `Num.floatBits`/`Num.atofHex`/`Num.slowPath`; the exits are shortcuts that do not change
the result, so no probe can see them: pinned to the model's literals. -/
theorem float_bits_exits_pinned :
    NumFacts.overflowExit = (1, 310) ∧ NumFacts.underflowExit = (3, -330) := ⟨rfl, rfl⟩

/-- **float64info_agrees** — mantbits/expbits/bias assemble the model's float64 layout:
1.0, +Inf, the hidden bit and the largest finite exponent -/
theorem float64info_agrees :
    UInt64.ofNat (((0 - NumFacts.bias).toNat) <<< NumFacts.mantbits) = F64.one ∧
    UInt64.ofNat ((2 ^ NumFacts.expbits - 1) <<< NumFacts.mantbits) = F64.posInf ∧
    Num.fbAssemble true 0 (2 ^ NumFacts.expbits - 1 + NumFacts.bias) = F64.negInf ∧
    (Num.atof64exact (2 ^ NumFacts.mantbits - 1) 0 false).isSome = true ∧
    (Num.atof64exact (2 ^ NumFacts.mantbits) 0 false).isSome = false ∧
    NumFacts.exactMantissaCond = "mantissa>>float64info.mantbits != 0" := by
  refine ⟨by decide +kernel, by decide +kernel, by decide +kernel, by decide +kernel, by decide +kernel, rfl⟩

/-! ### readFloat / decimal.set -/

def rep (c : UInt8) (n : Nat) : Bytes := List.replicate n c

/-- **mantissa_cap_agrees** — 19 decimal / 16 hex mantissa digits are kept, the next one sets
`trunc` and moves the exponent by 1 resp. 4 (`dp *= 4; ndMant *= 4`) -/
theorem mantissa_cap_agrees :
    let n := NumFacts.maxMantDigits
    let h := NumFacts.maxMantDigitsHex
    let hx (k : Nat) : Bytes := [48, 120] ++ rep 102 k ++ [112, 48]
    (Num.readFloat (rep 57 n)).mant = 10 ^ n - 1 ∧ (Num.readFloat (rep 57 n)).trunc = false ∧
    (Num.readFloat (rep 57 n)).ok = true ∧
    (Num.readFloat (rep 57 (n + 1))).mant = 10 ^ n - 1 ∧ (Num.readFloat (rep 57 (n + 1))).trunc = true ∧
    (Num.readFloat (rep 57 (n + 1))).exp = 1 ∧
    (Num.readFloat (hx h)).mant = 16 ^ h - 1 ∧ (Num.readFloat (hx h)).trunc = false ∧
    (Num.readFloat (hx h)).ok = true ∧
    (Num.readFloat (hx (h + 1))).mant = 16 ^ h - 1 ∧ (Num.readFloat (hx (h + 1))).trunc = true ∧
    (Num.readFloat (hx (h + 1))).exp = 4 ∧
    NumFacts.hexScale = [("dp", 4), ("ndMant", 4)] := by
  refine ⟨by decide +kernel, by decide +kernel, by decide +kernel, by decide +kernel, by decide +kernel,
    by decide +kernel, by decide +kernel, by decide +kernel, by decide +kernel, by decide +kernel,
    by decide +kernel, by decide +kernel, rfl⟩

/-- `if e < clamp { e = e*10 + digit }` over a digit string (underscores skipped) -/
def expLoopG (clamp : Nat) (ds : Bytes) : Nat :=
  ds.foldl (fun e c => if c == 95 then e else if e < clamp then e * 10 + (c.toNat - 48) else e) 0

def expProbes : List Bytes :=
  [[57, 57, 57, 57], [49, 48, 48, 48, 48], [57, 57, 57, 57, 57], [49, 48, 48, 48, 48, 48],
   [49, 50, 51, 52, 53, 54, 55], [49, 95, 48, 95, 48, 48, 48, 49], [48, 48, 48, 57, 57, 57, 57, 57, 57],
   [57, 57, 57, 57, 48], [49, 48, 48, 48, 49, 57], [48]]

/-- **exp_clamp_agrees** — the exponent clamp 10000 of `readFloat` and of `decimal.set` (the model
uses one `expLoop` for both) -/
theorem exp_clamp_agrees :
    (expProbes.all fun ds => (Num.expLoop ds 0).1 == expLoopG NumFacts.expClamp ds &&
      (Num.expLoop ds 0).1 == expLoopG NumFacts.expClampSet ds) = true := by decide +kernel

/-- **decimal_buffer_agrees** — `decimal.set` keeps `len(b.d)` = 800 digits: digit 800 is stored,
digit 801 sets `trunc` -/
theorem decimal_buffer_agrees :
    let n := NumFacts.decimalBufLen
    ((Num.decSet (rep 57 n)).map fun d => (d.d.length, d.trunc)) = some (n, false) ∧
    ((Num.decSet (rep 57 (n + 1))).map fun d => (d.d.length, d.trunc)) = some (n, true) := by
  refine ⟨by decide +kernel, by decide +kernel⟩

/-! ### special -/

def specialG (s : Bytes) : Option F64.Bits :=
  match s with
  | [] => none
  | c :: _ =>
    match NumFacts.specials.find? (fun r => r.1.any (· == c.toNat)) with
    | none => none
    | some r =>
      if r.2.1.any (fun t => Num.equalIgnoreCase s (bytes t)) then
        some (if r.2.2 == 0 then F64.posInf else if r.2.2 == 1 then F64.negInf else F64.nan)
      else none

def upper (s : Bytes) : Bytes := s.map fun c => if 97 ≤ c && c ≤ 122 then c - 32 else c

/-- every spelling, its upper-case and mixed-case forms, with a byte appended / removed / another
sign, and the cross combinations (`+nan`, `-nan`, `ninf`) -/
def specialProbes : List Bytes :=
  let sp := NumFacts.specials.flatMap fun r => r.2.1.map bytes
  (sp.flatMap fun s => [s, upper s, upper (s.take 2) ++ s.drop 2, s ++ [121], s.dropLast, 43 :: s, s.drop 1]) ++
    [[], [43], [45], [110], [105], bytes [43, 110, 97, 110], bytes [45, 110, 97, 110],
     bytes [110, 105, 110, 102], bytes [73, 78, 70, 73, 78, 73, 84], bytes [48]]

/-- **special_agrees** — the spellings `±inf`, `±infinity`, `nan` (any case), their values and
the first-byte dispatch -/
theorem special_agrees : (specialProbes.all fun s => Num.special s == specialG s) = true := by
  decide +kernel

/-! ### atof64exact -/

/-- `atof64exact` from the regenerated table, windows, pre-scale rule and magnitude test -/
def exactG (mantissa : Nat) (exp : Int) (neg : Bool) : Option F64.Bits :=
  let p10 (k : Int) : F64.Bits := f64 (NumFacts.float64pow10.getD k.toNat (false, 0, 0))
  if mantissa >>> NumFacts.mantbits != 0 then none
  else
    let f0 := F64.ofInt mantissa
    let f := if neg then F64.neg f0 else f0
    if exp == 0 then some f
    else if cmpI NumFacts.mulWindow.1 exp 0 && cmpI NumFacts.mulWindow.2.1 exp NumFacts.mulWindow.2.2 then
      let ps := NumFacts.preScale
      let (f, exp) := if cmpI ps.1 exp ps.2.1 then (F64.mul f (p10 (exp - ps.2.2.1)), ps.2.2.2) else (f, exp)
      if NumFacts.exactMagnitude.any (fun m => cmpF m.1 f (f64 m.2)) then none
      else some (F64.mul f (p10 exp))
    else if cmpI NumFacts.divWindow.1 exp 0 && cmpI NumFacts.divWindow.2.1 exp NumFacts.divWindow.2.2 then
      some (F64.div f (p10 (-exp)))
    else none

def exactMants : List Nat := [1, 3, 999999999999999, 1000000000000000, 1000000000000001, 2 ^ 52 - 1, 123456789]
def exactExps : List Int := (List.range 66).map fun (i : Nat) => (i : Int) - 25

/-- **exact_path_agrees** — windows `0 < exp <= 15+22`, `-22 <= exp < 0`, the pre-scale
`exp > 22 → f *= 10^(exp-22); exp = 22`, the test `f > 1e15 || f < -1e15`, the table look-ups, one
multiplication / division: model = regenerated on 7 mantissas × exp −25 … 40 × both signs -/
theorem exact_path_agrees :
    (exactMants.all fun m => exactExps.all fun e => [false, true].all fun ng =>
      Num.atof64exact m e ng == exactG m e ng) = true := by decide +kernel

theorem exact_formulas_pinned :
    NumFacts.exactFormulas = ["f*float64pow10[exp]", "f/float64pow10[-exp]"] ∧
    NumFacts.optimize = true ∧ NumFacts.optimizeGuards = 1 := ⟨rfl, rfl, rfl⟩

/-! ### atoi.go and reader.go atof -/

/-- **atoi_fast_path_agrees** — `Atoi` takes its fast path iff the source condition holds (the
`intSize == 64` disjunct: `0 < sLen && sLen < 19`), for every input -/
theorem atoi_fast_path_agrees (s : Bytes) :
    Num.atoiFastApplies s =
      evalCond (fun | 0 => s.length | _ => NumFacts.intSize) NumFacts.atoiFastCond := by
  have h : (((s.length : Nat) : Int) < 19) = (s.length < 19) := by apply propext; omega
  simp [Num.atoiFastApplies, evalCond, evalAtom, operand, cmpI, NumFacts.atoiFastCond, NumFacts.intSize, h]

/-- **uint_cutoffs_agree** — `math.MaxUint64/10 + 1`, `uint64(1)<<uint(64) - 1` (wraps to
2^64 − 1), `uint64(1 << uint(63))`, `(math.MaxInt64-10)/10` -/
theorem uint_cutoffs_agree :
    Num.uintCutoff = NumFacts.uintCutoff10 ∧ Num.uintMaxVal = NumFacts.uintMaxVal64 ∧
    NumFacts.intCutoff64 = 2 ^ 63 ∧ Num.atofGuard = NumFacts.atofGuard := by decide +kernel

/-- **atof_guard_agrees** — reader.go `atof`: `digit >= 10` fails, `val > guard` fails, for all inputs -/
theorem atof_guard_agrees (ch : UInt8) (rest : Bytes) (val : Int) :
    Num.atofLoop (ch :: rest) val =
      if evalCond (fun _ => ((ch - 48).toNat : Int)) NumFacts.atofDigitCond then none
      else if evalCond (fun | 1 => val | _ => NumFacts.atofGuard) NumFacts.atofGuardCond then none
      else Num.atofLoop rest (Num.wrap64 (val * 10 + (((ch - 48).toNat : Nat) : Int))) := by
  have hg : NumFacts.atofGuard = Num.atofGuard := by decide +kernel
  have hD : evalCond (fun _ => ((ch - 48).toNat : Int)) NumFacts.atofDigitCond = decide ((ch - 48) ≥ 10) := by
    have e : ((10 : Int) ≤ ((ch - 48).toNat : Int)) = ((10 : UInt8) ≤ ch - 48) := by
      apply propext
      rw [UInt8.le_iff_toNat_le]
      simp
      omega
    simp [evalCond, evalAtom, operand, cmpI, NumFacts.atofDigitCond, e]
  have hG : evalCond (fun | 1 => val | _ => NumFacts.atofGuard) NumFacts.atofGuardCond =
      decide (val > Num.atofGuard) := by
    simp [evalCond, evalAtom, operand, cmpI, NumFacts.atofGuardCond, hg]
  rw [hD, hG]
  simp [Num.atofLoop]

/-- the remaining comparisons of ParseUint / ParseInt / Atoi in numeric form -/
theorem atoi_conds_pinned :
    NumFacts.atoiDigitCond = [[(false, 8, 1, 1009)]] ∧
    NumFacts.uintDigitCond = [[(false, 6, 0, 7)]] ∧
    NumFacts.uintMulOverflowCond = [[(false, 2, 0, 3)]] ∧
    NumFacts.uintAddOverflowCond = [[(false, 4, 3, 2)], [(false, 4, 1, 5)]] ∧
    NumFacts.intRangeConds = ["!neg && un >= cutoff", "neg && un > cutoff"] ∧
    NumFacts.atofStep = "(val*10)+int64(digit)" := ⟨rfl, rfl, rfl, rfl, rfl, rfl⟩

end C03.Facts
