/-
C17 — regenerated tie for the legacy benchstat library (benchstat/data.go computeStats,
table.go Tables/metricOf/metricSuffix, scaler.go NewScaler/timeScaler).

`Generated/LegacyFacts.lean` is re-extracted on every check run. The theorems tie it to
`Model/Legacy/Collection.lean` and `Model/Legacy/Text.lean`: float constants by bit pattern
(`F64.ofDecimal` of the source literal), conditions by interpretation for all inputs, string
tables by value, and the two scaler cascades (hard-coded inside `newScaler`/`timeScaler`) by
evaluating the model and an interpreter of the regenerated rows on probes at, just below and just
above every threshold.
-/
import Model.Legacy.Text
import Generated.LegacyFacts
import Proofs.Facts.Common

namespace C17.Facts
open Legacy Generated FactsLib

/-! ### data.go computeStats -/

/-- quartile arguments 0.25 / 0.75 and the fence factor 1.5 (both bounds), `q1 - …`, `q3 + …` -/
theorem fence_constants_agree :
    LegacyFacts.quartiles.map f64 = [c0_25, c0_75] ∧
    LegacyFacts.fenceLo.1 = 0 ∧ f64 LegacyFacts.fenceLo.2 = c1_5 ∧
    LegacyFacts.fenceHi.1 = 1 ∧ f64 LegacyFacts.fenceHi.2 = c1_5 := by decide +kernel

def quartile (i : Nat) : F64.Bits := f64 (LegacyFacts.quartiles.getD i (false, 0, 0))

/-- the model's fence from the regenerated constants: `(q1 - k·(q3-q1), q3 + k·(q3-q1))` -/
def fenceOfG (vs : List F64.Bits) : F64.Bits × F64.Bits :=
  let q1 := percentile vs (quartile 0)
  let q3 := percentile vs (quartile 1)
  let app (b : Nat × (Bool × Nat × Int)) (q : F64.Bits) :=
    if b.1 == 0 then F64.sub q (F64.mul (f64 b.2) (F64.sub q3 q1)) else F64.add q (F64.mul (f64 b.2) (F64.sub q3 q1))
  (app LegacyFacts.fenceLo q1, app LegacyFacts.fenceHi q3)

theorem fence_of_agrees (vs : List F64.Bits) : fenceOf vs = fenceOfG vs := by
  have h := fence_constants_agree
  have h0 : quartile 0 = c0_25 := by decide +kernel
  have h1 : quartile 1 = c0_75 := by decide +kernel
  simp [fenceOf, fenceOfG, h0, h1, h.2.1, h.2.2.1, h.2.2.2.1, h.2.2.2.2]

/-- **fence_cond_agrees** — `inFence` is the source's `lo <= value && value <= hi`, for all floats -/
theorem fence_cond_agrees (lo hi v : F64.Bits) :
    inFence lo hi v = evalCondF (fun | 0 => lo | 1 => v | _ => hi) LegacyFacts.fenceCond := by
  simp [inFence, evalCondF, evalAtomF, operandF, cmpF, LegacyFacts.fenceCond]

/-! ### table.go Tables -/

/-- **alpha_agrees** — `effAlpha` is `if alpha == 0 { alpha = 0.05 }` with the source's literal -/
theorem alpha_agrees (a : F64.Bits) :
    effAlpha a = if evalCondF (fun _ => a) LegacyFacts.alphaZeroCond then f64 LegacyFacts.defaultAlpha else a := by
  have h : f64 LegacyFacts.defaultAlpha = c0_05 := by decide +kernel
  have z : F64.ofInt 0 = F64.posZero := by decide +kernel
  simp [effAlpha, evalCondF, evalAtomF, operandF, cmpF, LegacyFacts.alphaZeroCond, h, z]

/-- **significant_cond_agrees** — `pval < alpha` (strict), as the model's `lt pval alpha` -/
theorem significant_cond_agrees (pval alpha : F64.Bits) :
    F64.lt pval alpha = evalCondF (fun | 0 => alpha | _ => pval) LegacyFacts.significantCond := by
  simp [evalCondF, evalAtomF, operandF, cmpF, LegacyFacts.significantCond]

/-- `new.Mean == old.Mean`, `pval != -1`, `len(c.Configs) == 2` in numeric form; the -1 is the
model's `cNeg1`; `((new/old) - 1.0) * 100.0` uses the model's `one`, `c100` -/
theorem table_constants_agree :
    LegacyFacts.meanEqualCond = [[(false, 2, 4, 3)]] ∧
    LegacyFacts.pvalNoteCond = [[(false, 1, 5, 2001)]] ∧
    LegacyFacts.oldNewDeltaCond = [[(false, 4, 4, 1002)]] ∧
    operandF (fun _ => 0) 2001 = cNeg1 ∧
    f64 LegacyFacts.pctMinus = F64.one ∧ f64 LegacyFacts.pctTimes = c100 :=
  ⟨rfl, rfl, rfl, by decide +kernel, by decide +kernel, by decide +kernel⟩

/-- the improvement rule `pct < 0 == (table.Metric != "speed")` → +1 else −1 -/
def changeG (pct : F64.Bits) (metric : Str) : Int :=
  let l := cmpF LegacyFacts.changeLeftOp pct (f64 LegacyFacts.changeLeftRhs)
  let r := if LegacyFacts.changeRightOp == 5 then metric != bytes LegacyFacts.speedMetric
           else metric == bytes LegacyFacts.speedMetric
  let c := if LegacyFacts.changeMidOp == 4 then l == r else l != r
  if c then LegacyFacts.changeThen else LegacyFacts.changeElse

theorem speed_name_agrees : bytes LegacyFacts.speedMetric = speed := by decide +kernel

/-- **change_agrees** — the model's `change` expression in `deltaPart` is the source's -/
theorem change_agrees (pct : F64.Bits) (metric : Str) :
    (if (F64.lt pct F64.posZero) == (metric != speed) then (1 : Int) else -1) = changeG pct metric := by
  have z : f64 LegacyFacts.changeLeftRhs = F64.posZero := by decide +kernel
  simp [changeG, LegacyFacts.changeLeftOp, LegacyFacts.changeRightOp, LegacyFacts.changeMidOp,
    LegacyFacts.changeThen, LegacyFacts.changeElse, cmpF, z, speed_name_agrees]

/-- the `metricSuffix` map (source order of the literal) -/
theorem metric_suffix_agrees :
    metricSuffix = LegacyFacts.metricSuffix.map (fun r => (bytes r.1, bytes r.2)) := by decide +kernel

/-- `metricOf` maps exactly MB/s (and a literal "speed") to the speed metric, through the
regenerated table and name -/
theorem speed_units_agree :
    (LegacyFacts.metricSuffix.filter (fun r => r.2 == LegacyFacts.speedMetric)).map (·.1) = LegacyFacts.prescaleUnits ∧
    LegacyFacts.prescaleUnits = LegacyFacts.rateUnits ∧
    (LegacyFacts.prescaleUnits.all fun u => metricOf (bytes u) == speed) = true := by decide +kernel

/-! ### scaler.go: the cascades, by probes -/

def hasBaseUnitG (s unit : Str) : Bool := s == unit || hasSuffix s ([45] ++ unit)

/-- first row whose condition holds (`default` = operator 9) -/
def pick {β : Type} (rows : List (Nat × (Bool × Nat × Int) × β)) (x : F64.Bits) : Option β :=
  (rows.find? fun r => r.1 == 9 || cmpF r.1 x (f64 r.2.1)).map (·.2.2)

/-- (time?, precision, scale, suffix before the unit-dependent additions) from the regenerated facts -/
def scalerG (val : F64.Bits) (unit : Str) : Option (Bool × Nat × F64.Bits × String) :=
  if LegacyFacts.timeUnits.any (fun u => hasBaseUnitG unit (bytes u)) then
    (pick LegacyFacts.timeRows (F64.div val (f64 LegacyFacts.timeDivisor))).map fun r =>
      (true, r.1, F64.ofInt r.2.1, r.2.2)
  else
    let pre := if LegacyFacts.prescaleUnits.any (fun u => hasBaseUnitG unit (bytes u))
               then f64 LegacyFacts.prescale else f64 LegacyFacts.prescaleDefault
    (pick LegacyFacts.scalerRows (F64.mul val pre)).map fun r =>
      (false, r.1, F64.div (f64 r.2.1) pre, r.2.2)

/-- probes: every threshold of both cascades shifted by 10^k, and its two float neighbours -/
def probeVals (k : Int) : List F64.Bits :=
  ((LegacyFacts.scalerRows.map (·.2.1)) ++ (LegacyFacts.timeRows.map (·.2.1))).flatMap fun t =>
    let v := F64.ofDecimal false t.2.1 (t.2.2 + k)
    if t.2.1 == 0 then [] else [v - 1, v, v + 1]

def unitX : Str := [120]                      -- "x"
def unitYns : Str := [121, 45, 110, 115, 47, 111, 112]   -- "y-ns/op"
def unitZMB : Str := [122, 45, 77, 66, 47, 115]          -- "z-MB/s"

/-- model and regenerated cascade agree on (time?, precision, scale) -/
def agreeNum (v : F64.Bits) (u : Str) : Bool :=
  let s := newScaler v u
  match scalerG v u with
  | some g => s.time == g.1 && s.prec == g.2.1 && s.scale == g.2.2.1
  | none => false

/-- … and on the suffix, for units where the model appends nothing -/
def agreeSuffix (v : F64.Bits) (u : Str) : Bool :=
  match scalerG v u with
  | some g => (newScaler v u).suffix == g.2.2.2
  | none => false

def timeUnitList : List Str := LegacyFacts.timeUnits.map bytes ++ [unitYns]
def rateUnitList : List Str := LegacyFacts.prescaleUnits.map bytes ++ [unitZMB]

/-- **scaler_cascade_agrees** — thresholds, comparison operators, precisions, scales and suffixes
of the `NewScaler` cascade as modelled = as in the source, on 3 probes per threshold (unit "x"). -/
theorem scaler_cascade_agrees : ((probeVals 0).all fun v => agreeNum v unitX) = true := by
  decide +kernel

theorem scaler_cascade_suffix_agrees : ((probeVals 0).all fun v => agreeSuffix v unitX) = true := by
  decide +kernel

/-- **time_cascade_agrees** — the `timeScaler` cascade, its divisor 1e9, scale products and unit
suffixes, and the unit names that select it (`ns/op`, `ns/GC`, and a `-` suffixed form) -/
theorem time_cascade_agrees :
    ((probeVals 9).all fun v => timeUnitList.all fun u => agreeNum v u) = true := by
  decide +kernel

theorem time_cascade_suffix_agrees :
    ((probeVals 9).all fun v => timeUnitList.all fun u => agreeSuffix v u) = true := by
  decide +kernel

/-- **rate_prescale_agrees** — `MB/s` (and `-MB/s` suffixed units) prescale by 1e6 -/
theorem rate_prescale_agrees :
    ((probeVals (-6)).all fun v => rateUnitList.all fun u => agreeNum v u) = true := by
  decide +kernel

/-- names whose handling appends to the suffix (string append is not kernel-evaluable):
pinned to the literals the model `newScaler` uses -/
theorem suffix_units_pinned :
    LegacyFacts.byteUnitsS = ["B/op", "bytes/op", "bytes"] ∧ LegacyFacts.byteSuffix = "B" ∧
    LegacyFacts.rateUnitsS = ["MB/s"] ∧ LegacyFacts.rateSuffix = "B/s" ∧
    LegacyFacts.hasBaseUnitExpr = "s == unit || strings.HasSuffix(s, \"-\"+unit)" :=
  ⟨rfl, rfl, rfl, rfl, rfl⟩

end C17.Facts
