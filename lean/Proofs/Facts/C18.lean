/-
C18 — regenerated tie for benchseries/benchseries.go: the rotation constant of `Cell.hash` (the
bootstrap seed), the compact date form (`noPuncDate` and its respelling), the input layout
(`time.RFC3339Nano`, value taken from the Go standard library by the extractor) and the output
layout `RFC3339NanoNoZ`.

`Generated/SeriesFacts.lean` is re-extracted on every check run. The model
(`Model/Series/Bootstrap.lean`, `Model/Series/Date.lean`) hard-codes all of these inside its
definitions; the theorems compare the model with interpreters of the regenerated facts — for all
inputs where that is a rewriting proof, on probe families otherwise.
-/
import Model.Series.Bootstrap
import Model.Series.Date
import Generated.SeriesFacts
import Proofs.Facts.Common

namespace C18.Facts
open Series Series.Date Generated FactsLib

/-! ### the seed hash -/

/-- `xlow := (x >> (64 - rot)) & (1<<rot - 1); x = (x << rot) ^ xlow ^ bits(v)` -/
def hashStepG (rot : Nat) (x v : UInt64) : UInt64 :=
  let xlow := (x >>> UInt64.ofNat (64 - rot)) &&& (((1 : UInt64) <<< UInt64.ofNat rot) - 1)
  ((x <<< UInt64.ofNat rot) ^^^ xlow) ^^^ v

/-- **rot_agrees** — the model's hash round is the source's with the regenerated `rot`, for all
states and values -/
theorem rot_agrees (x v : UInt64) : Boot.hashStep x v = hashStepG SeriesFacts.rot x v := by
  have h1 : UInt64.ofNat (64 - SeriesFacts.rot) = 41 := by decide
  have h2 : UInt64.ofNat SeriesFacts.rot = 23 := by decide
  have h3 : ((1 : UInt64) <<< (23 : UInt64)) - 1 = 0x7FFFFF := by decide
  simp only [Boot.hashStep, hashStepG, h1, h2, h3]

theorem hash_source_pinned :
    SeriesFacts.hashRound = ["xlow := (x >> (64 - rot)) & (1<<rot - 1)",
      "x = (x << rot) ^ xlow ^ int64(math.Float64bits(v))"] ∧
    SeriesFacts.seedExpr = "c.Numerator.hash() * c.Denominator.hash()" := ⟨rfl, rfl⟩

/-! ### the compact form -/

/-- anchored match of (lo, hi, count) classes -/
def matchG : List (Nat × Nat × Nat) → Bytes → Bool
  | [], s => s.isEmpty
  | (lo, hi, n) :: rest, s =>
    decide (n ≤ s.length) && (s.take n).all (fun c => decide (lo ≤ c.toNat) && decide (c.toNat ≤ hi)) &&
      matchG rest (s.drop n)

def respellG (pieces : List (Nat × Nat × Nat × List Nat)) (s : Bytes) : Bytes :=
  pieces.flatMap fun p => if p.1 == 0 then (s.drop p.2.1).take (p.2.2.1 - p.2.1) else bytes p.2.2.2

def baseCompact : Bytes := bytes [50, 48, 50, 49, 49, 50, 50, 57, 84, 50, 49, 51, 50, 49, 50]   -- "20211229T213212"

/-- probes: the compact date with every position replaced by each of `0 9 / : T a -`, plus
shortened and lengthened forms -/
def compactProbes : List Bytes :=
  ((List.range 15).flatMap fun i => [48, 57, 47, 58, 84, 97, 45].map fun c => baseCompact.set i c) ++
    [baseCompact, baseCompact.take 14, baseCompact ++ [48], [], baseCompact.drop 1, 32 :: baseCompact]

/-- **compact_form_agrees** — `noPuncDate` as modelled by `isCompact` -/
theorem compact_form_agrees :
    (compactProbes.all fun s => isCompact s == matchG SeriesFacts.compactForm s) = true := by
  decide +kernel

/-- **respell_agrees** — the slices and literals of the respelling, for every input -/
theorem respell_agrees (s : Bytes) : respell s = respellG SeriesFacts.respell s := by
  simp [respell, respellG, SeriesFacts.respell, bytes, List.flatMap]

/-! ### the input layout -/

/-- `time.Parse` driven by the regenerated layout elements, using the model's element parsers -/
def parseFields : List (Nat × Nat × Nat) → Bytes → Parsed → Option (Parsed × Bytes)
  | [], s, p => some (p, s)
  | (code, a, _) :: rest, s, p =>
    match code with
    | 0 => (lit (UInt8.ofNat a) s).bind fun s => parseFields rest s p
    | 1 => (digitsN 4 s).bind fun (v, s) => parseFields rest s { p with year := v }
    | 2 => (digitsN 2 s).bind fun (v, s) => parseFields rest s { p with month := v }
    | 3 => (digitsN 2 s).bind fun (v, s) => parseFields rest s { p with day := v }
    | 4 => (num12 s).bind fun (v, s) => parseFields rest s { p with hour := v }
    | 5 => (digitsN 2 s).bind fun (v, s) => parseFields rest s { p with min := v }
    | 6 => (digitsN 2 s).bind fun (v, s) => parseFields rest s { p with sec := v }
    | 7 => let (ns, s) := fraction s; parseFields rest s { p with nanos := ns }
    | 10 => (zone s).bind fun (off, s) => parseFields rest s { p with offset := off }
    | _ => none

def parseG (tokens : List (Nat × Nat × Nat)) (s : Bytes) : Option Parsed :=
  (parseFields tokens s ⟨0, 0, 0, 0, 0, 0, 0, 0⟩).bind fun (p, s) =>
    if s ≠ [] then none
    else if p.month < 1 || p.month > 12 || p.hour ≥ 24 || p.min ≥ 60 || p.sec ≥ 60 then none
    else if p.day < 1 || p.day > daysIn p.month p.year then none
    else some p

def str (l : List Nat) : Bytes := bytes l

/-- probe inputs: well-formed dates in every zone form and malformed ones (each element damaged) -/
def parseProbes : List Bytes :=
  [ "2021-12-29T21:32:12Z", "2021-12-29T21:32:12+00:00", "2021-12-29T21:32:12.5-07:00",
    "2021-12-29T21:32:12,123456789+05:30", "2021-12-29T21:32:12.1234567891Z", "2021-12-29T1:32:12Z",
    "2020-02-29T00:00:00Z", "2021-02-29T00:00:00Z", "2021-13-01T00:00:00Z", "2021-12-32T00:00:00Z",
    "2021-12-29T24:00:00Z", "2021-12-29T23:60:00Z", "2021-12-29T23:59:60Z", "2021-12-29 21:32:12Z",
    "2021/12/29T21:32:12Z", "2021-12-29T21-32-12Z", "21-12-29T21:32:12Z", "2021-1-29T21:32:12Z",
    "2021-12-9T21:32:12Z", "2021-12-29T21:3:12Z", "2021-12-29T21:32:1Z", "2021-12-29T21:32:12",
    "2021-12-29T21:32:12z", "2021-12-29T21:32:12+0000", "2021-12-29T21:32:12+25:00",
    "2021-12-29T21:32:12Z ", "2021-12-29T21:32:12.Z", "", "20211229T213212", "0000-01-01T00:00:00Z",
    "9999-12-31T23:59:59.999999999-23:59" ].map String.toUTF8 |>.map (·.toList)

/-- **input_layout_agrees** — `parseRFC` is `time.Parse` with the elements of the regenerated
input layout (`time.RFC3339Nano`), in that order -/
theorem input_layout_agrees :
    (parseProbes.all fun s => parseRFC s == parseG SeriesFacts.inputTokens s) = true := by
  decide +kernel

/-! ### the output layout -/

def padN (w n : Nat) : List Nat :=
  let ds := (Nat.toDigits 10 n).map Char.toNat
  List.replicate (w - ds.length) 48 ++ ds

def trimZeros (ds : List Nat) : List Nat := (ds.reverse.dropWhile (· == 48)).reverse

/-- `Time.Format` of a UTC time driven by the regenerated layout elements -/
def formatG (tokens : List (Nat × Nat × Nat)) (u : UTC) : List Nat :=
  tokens.flatMap fun (code, a, b) =>
    match code with
    | 0 => [a]
    | 1 => (if u.year < 0 then [45] else []) ++ padN 4 u.year.natAbs
    | 2 => padN 2 u.month | 3 => padN 2 u.day | 4 => padN 2 u.hour | 5 => padN 2 u.min | 6 => padN 2 u.sec
    | 7 => let ds := trimZeros ((padN 9 u.nanos).take b); if ds.isEmpty then [] else a :: ds
    | 8 => a :: (padN 9 u.nanos).take b
    | 9 => [43, 48, 48, 58, 48, 48]
    | 10 => [90]
    | _ => [63]

def utcProbes : List UTC :=
  [0, 1, 10, 120000000, 123456789, 500000000, 999999999, 100, 999999990].flatMap fun ns =>
    [ ⟨2021, 12, 29, 21, 32, 12, ns⟩, ⟨1970, 1, 1, 0, 0, 0, ns⟩, ⟨999, 2, 3, 4, 5, 6, ns⟩,
      ⟨0, 10, 10, 10, 10, 10, ns⟩, ⟨12345, 6, 7, 8, 9, 59, ns⟩, ⟨-44, 3, 15, 12, 0, 0, ns⟩ ]

/-- **output_layout_agrees** — `formatCodes` is `Format(RFC3339NanoNoZ)` of a UTC time, element
by element of the regenerated output layout -/
theorem output_layout_agrees :
    SeriesFacts.outputInUTC = true ∧
    (utcProbes.all fun u => formatCodes u == formatG SeriesFacts.outputTokens u) = true := by
  decide +kernel

theorem layouts_pinned :
    SeriesFacts.inputLayoutName = "time.RFC3339Nano" ∧
    SeriesFacts.inputLayout = "2006-01-02T15:04:05.999999999Z07:00" ∧
    SeriesFacts.outputLayoutName = "RFC3339NanoNoZ" ∧
    SeriesFacts.outputLayout = "2006-01-02T15:04:05.999999999-07:00" ∧
    SeriesFacts.readBackLayoutName = "RFC3339NanoNoZ" ∧
    SeriesFacts.compactRegex = "^[0-9]{8}T[0-9]{6}$" := ⟨rfl, rfl, rfl, rfl, rfl, rfl⟩

end C18.Facts
