/-
C13 — regenerated tie for benchmath/anone.go (uTestMinP, uTestSamples, medianSamples/medianSamplesAbove, medianCI,
assumeNothing.Compare/Summary) and benchmath/sample.go (DefaultThresholds).

`Generated/NothingFacts.lean` is re-extracted on every check run; the theorems tie it to
`Model/Math/Nothing.lean`: the `uTestMinP` table by float64 bit pattern of every literal, the
conditions/limits of `uTestSamples` and `medianSamples` by running the model and an interpreter of
the regenerated facts on boundary probes, single comparisons for all inputs.
-/
import Model.Math.Nothing
import Generated.NothingFacts
import Proofs.Facts.Common

namespace C13.Facts
open Math Math.Nothing Generated FactsLib

/-- **utest_minp_agrees** — the model's table is the source's `uTestMinP[1..9]`, literal by
literal (correctly rounded), at indices 1..9 with `len(uTestMinP) = 10`. -/
theorem utest_minp_agrees :
    uTestMinP = NothingFacts.uTestMinP.map (fun e => f64 e.2) ∧
    NothingFacts.uTestMinP.map (·.1) = List.range' 1 9 ∧
    NothingFacts.uTestMinPLen = uTestMinP.length + 1 := by decide +kernel

def opOf (n : Nat) : Op := if n == 0 then .ge else .gt

/-- `uTestSamples` from the regenerated facts: first listed index (not skipped) whose condition
holds, else (fallback operator, len(uTestMinP)) -/
def uTestSamplesG (alpha : F64.Bits) : Op × Nat :=
  match NothingFacts.uTestMinP.find? (fun e =>
      !(evalCond (fun _ => e.1) NothingFacts.uTestSkipCond) &&
      evalCondF (fun | 1 => f64 e.2 | _ => alpha) NothingFacts.uTestFoundCond) with
  | some e => (opOf NothingFacts.uTestFoundOp, e.1)
  | none => (opOf NothingFacts.uTestFallbackOp, NothingFacts.uTestMinPLen)

/-- probes: 0, 2, NaN, and every table value with its two float neighbours -/
def alphaProbes : List F64.Bits :=
  [F64.posZero, F64.ofInt 2, F64.nan, F64.negZero] ++
    NothingFacts.uTestMinP.flatMap fun e => let v := f64 e.2; [v - 1, v, v + 1]

/-- **utest_samples_agrees** — operator `minP <= alpha`, skipped index 0, returned operators and
the fallback `len(uTestMinP)`: model = source on every boundary probe. -/
theorem utest_samples_agrees : (alphaProbes.all fun a => uTestSamples a == uTestSamplesG a) = true := by
  decide +kernel

/-- `medianSamplesAbove` from the regenerated facts over a table of (LoOrder, HiOrder) for
n = start, start+1, …: the source loop runs from max(start, have + step) -/
def medianSamplesAboveG (needTab : List (Nat × Nat)) (have_ : Nat) : Op × Nat :=
  let env (n : Nat) (e : Nat × Nat) : Nat → Int
    | 0 => n | 1 => NothingFacts.medianLimit | 2 => e.1 | _ => e.2
  let first := max NothingFacts.medianStart (have_ + NothingFacts.medianHaveStep)
  let rec go (fuel n : Nat) (tab : List (Nat × Nat)) : Op × Nat :=
    match fuel, tab with
    | 0, _ => (opOf NothingFacts.medianFallbackOp, NothingFacts.medianLimit)
    | _, [] => (opOf NothingFacts.medianFallbackOp, NothingFacts.medianLimit)
    | fuel + 1, e :: rest =>
      if n < first then go fuel (n + 1) rest
      else if !(evalCond (env n e) NothingFacts.medianLoopCond) then
        (opOf NothingFacts.medianFallbackOp, NothingFacts.medianLimit)
      else if evalCond (env n e) NothingFacts.medianFoundCond then (opOf NothingFacts.medianFoundOp, n)
      else go fuel (n + 1) rest
  go 100 NothingFacts.medianStart needTab

/-- probe tables of 60 rows: no hit before row j; at row j (n = j+2) the orders are
(1, n) [hit], (0, n) [LoOrder boundary], (1, n+1) [HiOrder boundary]; a hit follows at row j+1 -/
def medianProbes : List (List (Nat × Nat)) :=
  (List.range 55).flatMap fun j =>
    let pre := List.replicate j (0, 0)
    let post := (1, j + 3) :: List.replicate (58 - j) (0, 0)
    [pre ++ (1, j + 2) :: post, pre ++ (0, j + 2) :: post, pre ++ (1, j + 3) :: post]

/-- probe tables with EARLIER hits as well (every row from 2 up to row j a hit): the `have` bound
alone must skip them -/
def medianProbesDense : List (List (Nat × Nat)) :=
  (List.range 55).map fun j => (List.range 60).map fun i => if i ≤ j then (1, i + 2) else (0, 0)

/-- rows probed with a size at hand: the start of the range, the middle, and every row around the
limit (n = j + 2 = 50 is row 48); keeps the kernel evaluation under ~10 s -/
def probeRows : List Nat := [0, 1, 2, 3, 10, 25, 40, 46, 47, 48, 49, 50, 51, 54]

/-- sizes at hand probed around every row -/
def haveProbes (j : Nat) : List Nat := [0, 1, j, j + 1, j + 2, j + 3, 49, 50, 51]

/-- **median_samples_agrees** — start max(2, have+1), limit 50, `n <= limit`,
`0 < LoOrder && HiOrder <= n`, returned operators and fallback: model = source on boundary probes
around every n and every size at hand; `medianSamples` delegates with have = 0; Summary asks for a
size above `len(s.Values)`. -/
theorem median_samples_agrees :
    ((probeRows.flatMap fun j => (haveProbes j).flatMap fun h =>
        ((medianProbes.drop (3 * j)).take 3 ++ (medianProbesDense.drop j).take 1).map fun t => (t, h)).all
      fun th => medianSamplesAbove th.1 th.2 == medianSamplesAboveG th.1 th.2) = true ∧
    (medianProbes.all fun t => medianSamples t == medianSamplesAboveG t NothingFacts.medianDelegateHave) = true ∧
    NothingFacts.summaryNeedAboveLen = true := by
  refine ⟨by decide +kernel, by decide +kernel, rfl⟩

/-- median = quantile 0.5 (the model's `half`) -/
theorem median_quantile_agrees : f64 NothingFacts.medianQuantile = half := by decide +kernel

/-- **compare_warn_cond_agrees** — `cmp.P > cmp.Alpha` is the model's `F64.lt alpha p` -/
theorem compare_warn_cond_agrees (p alpha : F64.Bits) :
    F64.lt alpha p = evalCondF (fun | 0 => p | _ => alpha) NothingFacts.compareWarnCond := by
  simp [evalCondF, evalAtomF, operandF, cmpF, NothingFacts.compareWarnCond]

/-- **compare_few_cond_agrees** — `cmp.N1 < n && cmp.N2 < n` -/
theorem compare_few_cond_agrees (n1 n2 n : Nat) :
    (decide (n1 < n) && decide (n2 < n)) =
      evalCond (fun | 2 => n1 | 3 => n2 | _ => n) NothingFacts.compareFewCond := by
  simp [evalCond, evalAtom, operand, cmpI, NothingFacts.compareFewCond]

/-- `math.Min(1, 2*math.Min(…))`, `P: 1` on error, `DefaultThresholds.CompareAlpha = 0.05` (the
value the driver's summary cases use), the ±∞ warning condition -/
theorem compare_constants_agree :
    f64 NothingFacts.twoSidedCap = F64.one ∧ f64 NothingFacts.twoSidedFactor = two ∧
    f64 NothingFacts.errorP = F64.one ∧
    f64 NothingFacts.defaultCompareAlpha = 0x3FA999999999999A ∧
    NothingFacts.summaryWarnCond = "math.IsInf(lo, 0) || math.IsInf(hi, 0)" :=
  ⟨by decide +kernel, by decide +kernel, by decide +kernel, by decide +kernel, rfl⟩

end C13.Facts
