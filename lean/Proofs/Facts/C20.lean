/-
C20 — regenerated tie for storage/db/db.go as modelled by `Model/Storage/Upload.lean`: the
upload id format (`renderId`) and the flush threshold of `Tx.insertLabel` (which counts queued
label ROWS; the source counts queued ARGUMENTS, 4 per row).

`Generated/DbFacts.lean` is re-extracted on every check run (shared with C19).
-/
import Model.Storage.Upload
import Generated.DbFacts
import Proofs.Facts.Common

namespace C20.Facts
open Storage.Upload Generated FactsLib

/-- `fmt.Sprintf(format, args…)` from the regenerated elements (arguments already rendered) -/
def renderG (tokens : List (Nat × Nat × Nat)) (args : List Bytes) : Bytes :=
  tokens.flatMap fun t =>
    if t.1 == 2 then [UInt8.ofNat t.2.1] else args.getD t.2.1 []

/-- **upload_id_format_agrees** — `renderId` is `fmt.Sprintf("%s.%d", day, num)` with the
regenerated format, for every key -/
theorem upload_id_format_agrees (k : UKey) :
    renderId k = renderG DbFacts.idTokens [natBytes k.day, natBytes k.seq] := by
  simp [renderId, renderG, DbFacts.idTokens, List.flatMap]

/-- the regenerated flush condition on a queue of `n` arguments -/
def flushG (n : Nat) : Bool :=
  evalCond (fun | 0 => (n : Int) | _ => (DbFacts.flushThreshold : Int)) DbFacts.flushCond

theorem flushG_eq (n : Nat) : flushG n = decide (n ≥ 990) := by
  simp [flushG, evalCond, evalAtom, operand, cmpI, DbFacts.flushCond, DbFacts.flushThreshold]
  omega

/-- **flush_threshold_agrees** — `Tx.insertLabel` flushes exactly when the queued label arguments
(`labelArgsPerRow` per queued row) satisfy the source's `len(u.insertLabelArgs) >= 990` -/
theorem flush_threshold_agrees (t : Tx) (key : Bytes) :
    t.insertLabel key =
      (if flushG (DbFacts.labelArgsPerRow * t.pendLab.length) then t.flush else some t).map
        (fun t => { t with pendLab := t.pendLab ++ [(t.recordid, key)] }) := by
  rw [flushG_eq]
  by_cases h : 4 * t.pendLab.length ≥ 990 <;>
    simp [Tx.insertLabel, DbFacts.labelArgsPerRow, h]

theorem db_constants_pinned :
    DbFacts.flushCalled = true ∧ DbFacts.idIncrements = true ∧ DbFacts.idFormat = "%s.%d" ∧
    DbFacts.idArgs = ["day", "num"] ∧ DbFacts.idReadBack = "lastID[len(day)+1:]" :=
  ⟨rfl, rfl, rfl, rfl, rfl⟩

end C20.Facts
