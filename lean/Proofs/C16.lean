/-
C16 — text tables are laid out without loss and agree with the CSV rendering.
Property theorems only; helper lemmas live in Proofs/Lemmas/C16*.lean.
-/
import Proofs.Lemmas.C16Fit
import Proofs.Lemmas.C16Header

namespace C16
open Tab.TextTab

/-! ### widths_fit -/

/-- **widths_fit** (full strength, current code incl. b5d6dcd): after the width pass EVERY cell
of the table has room for its column's margin plus its whole value,
`Σ ws[col..col+span) ≥ lmargin[col] + runes(value)` — for every order in which the unstable sort
may have left the cells (`ordered` is arbitrary, not even sortedness by span is needed) and every
order `sortCols` in which the columns under a spanning cell are taken (any permutation). -/
theorem widths_fit (sortCols : List Int → List Nat → List Nat)
    (hperm : ∀ ws l, (sortCols ws l).Perm l)
    (t : Table) (ordered : List Cell) (c : Cell) (hc : c ∈ ordered)
    (hspan : 1 ≤ c.span) (hcols : c.col + c.span ≤ t.cols) :
    (runeCount c.value : Int) + ((layoutOf true sortCols t ordered).lm.getD c.col 0 : Nat)
      ≤ sumRange (layoutOf true sortCols t ordered).ws c.col c.span := by
  have := foldl_cellStep_fits t.isShrink sortCols hperm (lmargins t.cols t.cells) ordered
    (List.replicate t.cols 0) c hc hspan (by simpa using hcols)
  exact this

/-- the margin term of `widths_fit` covers the cell's own margin -/
theorem widths_fit_margin (grow : Bool) (sortCols : List Int → List Nat → List Nat)
    (t : Table) (ordered : List Cell) (c : Cell) (hc : c ∈ t.cells) (hcol : c.col < t.cols) :
    runeCount c.margin ≤ (layoutOf grow sortCols t ordered).lm.getD c.col 0 := by
  exact lmargins_ge t.cells (List.replicate t.cols 0) c hc (by simpa using hcol)

/-- the column order Go's `sort.Slice` produces on short slices is a permutation -/
theorem insertCol_perm (ws : List Int) (c : Nat) : ∀ l, (insertCol ws c l).Perm (c :: l) := by
  intro l
  induction l with
  | nil => exact List.Perm.refl _
  | cons d ds ih =>
    unfold insertCol
    split
    · exact List.Perm.refl _
    · exact (List.Perm.cons d ih).trans (List.Perm.swap c d ds)

theorem insertSortCols_perm (ws : List Int) (l : List Nat) : (insertSortCols ws l).Perm l := by
  unfold insertSortCols
  have : ∀ (l acc : List Nat), (l.foldl (fun acc c => insertCol ws c acc) acc).Perm (l ++ acc) := by
    intro l
    induction l with
    | nil => intro acc; exact List.Perm.refl _
    | cons c rest ih =>
      intro acc
      simp only [List.foldl_cons, List.cons_append]
      refine (ih _).trans ?_
      refine (List.Perm.append_left rest (insertCol_perm ws c acc)).trans ?_
      exact List.perm_middle
  simpa using this l []

/-- `widths_fit` for `Table.Format` as it is run (`format` uses `insertSortCols`). -/
theorem widths_fit_format (t : Table) (ordered : List Cell) (c : Cell) (hc : c ∈ ordered)
    (hspan : 1 ≤ c.span) (hcols : c.col + c.span ≤ t.cols) :
    Fits (layoutOf true insertSortCols t ordered).lm (layoutOf true insertSortCols t ordered).ws c :=
  widths_fit insertSortCols insertSortCols_perm t ordered c hc hspan hcols

/-- the F14 witness: `x | vs base (2 cols) | y` over `1 | | | 2` with columns 1 and 2 shrink -/
def f14Table : Table :=
  ((build [.row, .span 1 [120] [], .span 2 [118, 115, 32, 98, 97, 115, 101] [], .span 1 [121] [],
           .row, .span 1 [49] [], .col 3, .span 1 [50] [],
           .setShrink 1 true, .setShrink 2 true]).getD {})

/-- **widths_fit fails on the pre-b5d6dcd width pass** (`grow = false`): the cell that spans
only shrink columns gets no room (needs 8, gets 0). -/
theorem widths_fit_prefix_counterexample :
    ∃ c ∈ f14Table.cells, 1 ≤ c.span ∧ c.col + c.span ≤ f14Table.cols ∧
      ¬ Fits (layoutOf false insertSortCols f14Table f14Table.cells).lm
             (layoutOf false insertSortCols f14Table f14Table.cells).ws c := by
  refine ⟨{ row := 0, col := 1, span := 2, value := [118, 115, 32, 98, 97, 115, 101], margin := [0x20], align := .left }, ?_, ?_, ?_, ?_⟩
  · decide
  · decide
  · decide
  · decide

/-- … and the same table is fine under the current code (non-trivial instance of `widths_fit`). -/
example : ∀ c ∈ f14Table.cells,
    Fits (layoutOf true insertSortCols f14Table f14Table.cells).lm
         (layoutOf true insertSortCols f14Table f14Table.cells).ws c := by decide

/-! ### keyheader_partition -/

open Tab.KeyHeader in
theorem newKeyHeader_eq_walk (keys : List (List Bytes)) (nf : Nat) :
    newKeyHeader keys nf = walk keys nf 0 0 keys.length := by
  unfold newKeyHeader
  split
  · rename_i h
    have : keys = [] := by simpa using h
    subst this
    cases nf <;> simp [walk, runs]
  · rfl

open Tab.KeyHeader in
/-- **keyheader_partition** (full strength): the forest `NewKeyHeader` returns is `Good`, i.e.
recursively for every node list below a parent covering `[start, start+len)` (the top list:
`[0, len(keys))`): the nodes are non-empty, contiguous, disjoint and cover exactly the parent's
range (`Tiles` — hence they refine the level above); each node's `Field` is its level, its
`Value` is the value of that field in EVERY key it covers; neighbouring siblings have different
values; and the tree is exactly `nfields` levels deep. -/
theorem keyheader_partition (keys : List (List Bytes)) (nf : Nat) :
    Good keys nf 0 0 keys.length (newKeyHeader keys nf) := by
  rw [newKeyHeader_eq_walk]
  exact walk_good keys nf 0 0 keys.length

open Tab.KeyHeader in
/-- consequence used by the table header: at EVERY level k < nfields the header cells, read left
to right as `ToText` walks them, tile `[0, len(keys))` — every column is under exactly one header
cell per level. -/
theorem keyheader_level_cover (keys : List (List Bytes)) (nf k : Nat) (hk : k < nf) :
    Tiles 0 keys.length (nodeSpans (level (newKeyHeader keys nf) k)) := by
  have hg := keyheader_partition keys nf
  obtain ⟨fuel, rfl⟩ : ∃ fuel, nf = (fuel + k) + 1 := ⟨nf - 1 - k, by omega⟩
  simp only [Good] at hg
  have := level_tiles keys k fuel 1 (newKeyHeader keys (fuel + k + 1)) 0 keys.length
    (by simpa using hg.1) (fun x hx => (hg.2.2 x hx).2.2)
  exact this

/-- non-trivial instance: the example of the doc comment of keyheader.go -/
example : (Tab.KeyHeader.level (Tab.KeyHeader.newKeyHeader
    [[[49], [49], [49]], [[49], [49], [50]], [[50], [50], [50]], [[50], [51], [51]]] 3) 1).map
      (fun x => (x.value, x.start, x.len)) = [([49], 0, 2), ([50], 2, 1), ([51], 3, 1)] := by decide

end C16
