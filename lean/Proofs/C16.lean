/-
C16 — text tables are laid out without loss and agree with the CSV rendering.
Property theorems only; helper lemmas live in Proofs/Lemmas/C16*.lean.
-/
import Proofs.Lemmas.C16Fit
import Proofs.Lemmas.C16Header
import Proofs.Lemmas.C16Offs
import Proofs.Lemmas.C16Build
import Proofs.Lemmas.C16Lines
import Model.Tab.Render
import Proofs.Lemmas.C16Render
import Proofs.Lemmas.C16HeaderOps

namespace C16
open Tab.TextTab

/-! ### widths_fit -/

/-- **widths_fit** (full strength, current code incl. b5d6dcd): after the width pass EVERY cell
of the table has room for its column's margin plus its whole value,
`Σ ws[col..col+span) ≥ lmargin[col] + runes(value)` — for every order in which the unstable sort
may have left the cells (`ordered` is arbitrary, not even sortedness by span is needed) and every
order `sortCols` in which the columns under a spanning cell are taken (any permutation). -/
theorem widths_fit (sortCols : List Int → List Nat → List Nat)
    (hperm : ∀ ws l, (sortCols ws l).Perm l)
    (t : Table) (ordered : List Cell) (c : Cell) (hc : c ∈ ordered)
    (hspan : 1 ≤ c.span) (hcols : c.col + c.span ≤ t.cols) :
    (runeCount c.value : Int) + ((layoutOf true sortCols t ordered).lm.getD c.col 0 : Nat)
      ≤ sumRange (layoutOf true sortCols t ordered).ws c.col c.span := by
  have := foldl_cellStep_fits t.isShrink sortCols hperm (lmargins t.cols t.cells) ordered
    (List.replicate t.cols 0) c hc hspan (by simpa using hcols)
  exact this

/-- the margin term of `widths_fit` covers the cell's own margin -/
theorem widths_fit_margin (grow : Bool) (sortCols : List Int → List Nat → List Nat)
    (t : Table) (ordered : List Cell) (c : Cell) (hc : c ∈ t.cells) (hcol : c.col < t.cols) :
    runeCount c.margin ≤ (layoutOf grow sortCols t ordered).lm.getD c.col 0 := by
  exact lmargins_ge t.cells (List.replicate t.cols 0) c hc (by simpa using hcol)

/-- the column order Go's `sort.Slice` produces on short slices is a permutation -/
theorem insertCol_perm (ws : List Int) (c : Nat) : ∀ l, (insertCol ws c l).Perm (c :: l) := by
  intro l
  induction l with
  | nil => exact List.Perm.refl _
  | cons d ds ih =>
    unfold insertCol
    split
    · exact List.Perm.refl _
    · exact (List.Perm.cons d ih).trans (List.Perm.swap c d ds)

theorem insertSortCols_perm (ws : List Int) (l : List Nat) : (insertSortCols ws l).Perm l := by
  unfold insertSortCols
  have : ∀ (l acc : List Nat), (l.foldl (fun acc c => insertCol ws c acc) acc).Perm (l ++ acc) := by
    intro l
    induction l with
    | nil => intro acc; exact List.Perm.refl _
    | cons c rest ih =>
      intro acc
      simp only [List.foldl_cons, List.cons_append]
      refine (ih _).trans ?_
      refine (List.Perm.append_left rest (insertCol_perm ws c acc)).trans ?_
      exact List.perm_middle
  simpa using this l []

/-- `widths_fit` for `Table.Format` as it is run (`format` uses `insertSortCols`). -/
theorem widths_fit_format (t : Table) (ordered : List Cell) (c : Cell) (hc : c ∈ ordered)
    (hspan : 1 ≤ c.span) (hcols : c.col + c.span ≤ t.cols) :
    Fits (layoutOf true insertSortCols t ordered).lm (layoutOf true insertSortCols t ordered).ws c :=
  widths_fit insertSortCols insertSortCols_perm t ordered c hc hspan hcols

/-- the F14 witness: `x | vs base (2 cols) | y` over `1 | | | 2` with columns 1 and 2 shrink -/
def f14Table : Table :=
  ((build [.row, .span 1 [120] [], .span 2 [118, 115, 32, 98, 97, 115, 101] [], .span 1 [121] [],
           .row, .span 1 [49] [], .col 3, .span 1 [50] [],
           .setShrink 1 true, .setShrink 2 true]).getD {})

/-- **widths_fit fails on the pre-b5d6dcd width pass** (`grow = false`): the cell that spans
only shrink columns gets no room (needs 8, gets 0). -/
theorem widths_fit_prefix_counterexample :
    ∃ c ∈ f14Table.cells, 1 ≤ c.span ∧ c.col + c.span ≤ f14Table.cols ∧
      ¬ Fits (layoutOf false insertSortCols f14Table f14Table.cells).lm
             (layoutOf false insertSortCols f14Table f14Table.cells).ws c := by
  refine ⟨{ row := 0, col := 1, span := 2, value := [118, 115, 32, 98, 97, 115, 101], margin := [0x20], align := .left }, ?_, ?_, ?_, ?_⟩
  · decide
  · decide
  · decide
  · decide

/-- … and the same table is fine under the current code (non-trivial instance of `widths_fit`). -/
example : ∀ c ∈ f14Table.cells,
    Fits (layoutOf true insertSortCols f14Table f14Table.cells).lm
         (layoutOf true insertSortCols f14Table f14Table.cells).ws c := by decide

/-! ### columns_align -/

/-- **columns_align** (full strength at the level of the pieces `Format` writes): take the layout
computed from ANY order `ordered` of the cells (so in particular any order among equal-span
cells) and any list `sorted` of cells of the table in row-major order without overlaps inside a
row (`Before`; this is what the final sort by (row, col) yields for cells added through the
builder with spans ≥ 1). Then for every cell the emission loop does not skip, `CellOK` holds at
the writer's position: the pad in front of the cell is non-negative and brings the writer exactly
to `offs[col]` (same offset on every line), the margin is right-justified and whole in the
column's margin width, the value is written whole after `k` blanks (`k = 0` left-aligned, value
ending exactly at `offs[col+span]` right-aligned, `k = ⌊slack/2⌋` centred), the writer's offset
bookkeeping equals the number of runes written, and the cell ends at or before `offs[col+span]`
— which is at or before the next cell's column, so no two cells overlap. Widths are counted per
piece (`runeCount`); pieces that end in an incomplete UTF-8 sequence could fuse with the next
piece in a rune-counting viewer, that case is excluded in the S oracle, not here. -/
theorem columns_align (sortCols : List Int → List Nat → List Nat)
    (hperm : ∀ ws l, (sortCols ws l).Perm l)
    (t : Table) (ordered sorted : List Cell)
    (hsorted : sorted.Pairwise Before)
    (hmem : ∀ c ∈ sorted, c ∈ ordered ∧ c ∈ t.cells ∧ 1 ≤ c.span ∧ c.col + c.span ≤ t.cols) :
    EmitOK (layoutOf true sortCols t ordered).offs (layoutOf true sortCols t ordered).lm {} sorted := by
  have hnn := widthPass_nonneg true t.isShrink sortCols (lmargins t.cols t.cells) t.cols ordered
  have hlen := widthPass_length true t.isShrink sortCols (lmargins t.cols t.cells) t.cols ordered
  apply emitOK_of
  · exact fun i j hij hj => offsets_mono _ hnn i j hij hj
  · exact fun i => offsets_nonneg _ hnn i
  · exact hsorted
  · intro c hc
    obtain ⟨ho, ht, hs, hcol⟩ := hmem c hc
    refine ⟨?_, ?_, ?_⟩
    · simp only [layoutOf]; rw [offsets_length, hlen]; omega
    · exact widths_fit_margin true sortCols t ordered c ht (by omega)
    · have hf := widths_fit sortCols hperm t ordered c ho hs hcol
      have hd := offsets_diff (layoutOf true sortCols t ordered).ws 0 c.col c.span
        (by simp only [layoutOf]; rw [hlen]; exact hcol)
      simp only [layoutOf] at hf hd ⊢
      omega
  · intro c _
    exact ⟨Nat.zero_le _, fun _ => offsets_nonneg _ hnn _⟩

/-- non-trivial instance: the F14 table in builder order is row-major without overlaps -/
example : f14Table.cells.Pairwise Before := by
  unfold Before; decide

/-- **builder_order**: whatever sequence of `Row/Col/Cell/Span/SetShrink` calls built the table
(without panicking), its cells are in row-major order, cells of one row do not overlap
(`a.col + a.span ≤ b.col` for `a` before `b`), and every cell lies inside `cols`. -/
theorem builder_order (ops : List Op) (t : Table) (h : build ops = some t) :
    t.cells.Pairwise Before ∧ ∀ c ∈ t.cells, c.col + c.span ≤ t.cols := by
  have := build_inv ops t h
  exact ⟨this.1, fun c hc => (this.2 c hc).2⟩

/-- **columns_align_format** (full strength, no order hypothesis left): for a table built through
the builder API with spans ≥ 1 and ANY permutation `ordered` of its cells (what the unstable sort
by span may leave), the list `Format` iterates over after its final sort by (row, col) IS the
builder order, and every printed cell is written with the geometry `CellOK` of `columns_align`. -/
theorem columns_align_format (ops : List Op) (t : Table) (hb : build ops = some t)
    (hspan : ∀ c ∈ t.cells, 1 ≤ c.span) (ordered : List Cell) (hperm : ordered.Perm t.cells) :
    ordered.mergeSort cellLe = t.cells ∧
    EmitOK (layoutOf true insertSortCols t ordered).offs (layoutOf true insertSortCols t ordered).lm {}
      (ordered.mergeSort cellLe) := by
  obtain ⟨hp, hcols⟩ := builder_order ops t hb
  have hs := mergeSort_restores t.cells ordered hp hspan hperm
  refine ⟨hs, ?_⟩
  rw [hs]
  exact columns_align insertSortCols insertSortCols_perm t ordered t.cells hp
    (fun c hc => ⟨hperm.symm.subset hc, hc, hspan c hc, hcols c hc⟩)

/-! ### no_trailing_blanks -/

theorem getLast?_append_ne_nil {α : Type} (l l' : List α) (h : l' ≠ []) :
    (l ++ l').getLast? = l'.getLast? := by
  rw [List.getLast?_append]
  cases l' with
  | nil => exact absurd rfl h
  | cons a as => simp [List.getLast?_cons_cons, List.getLast?_eq_some_getLast]

/-- **no_trailing_blanks_partial**: the last byte written for a printed cell is the last byte of
the cell's own text (margin followed by value) — the engine never writes padding AFTER content
(cells are only padded on the left; an empty value is not padded at all since 8783093), and a
printed cell has some text. Since the pieces of a line's last printed cell are the last pieces of
that line (the only other pieces `emitCell` writes are newlines), a line ends in a blank only if
the text of its last cell does. Gap (hence `_partial`): the step from pieces to the lines of the
flattened output is argued here, not formalised; the S oracle checks it on the real text. -/
theorem no_trailing_blanks_partial (offs : List Int) (lm : List Nat) (off : Int) (c : Cell)
    (hok : CellOK offs lm off c) (hpr : skipped c = false) :
    c.margin ++ c.value ≠ [] ∧
    ((cellPieces offs lm off c).1.flatten).getLast? = (c.margin ++ c.value).getLast? := by
  have hne : c.margin ++ c.value ≠ [] := by
    intro h
    have h1 : c.margin = [] := (List.append_eq_nil_iff.mp h).1
    have h2 : c.value = [] := (List.append_eq_nil_iff.mp h).2
    have : skipped c = true := by simp [skipped, h1, h2, isBlank, allSpaceAux]
    rw [this] at hpr; cases hpr
  refine ⟨hne, ?_⟩
  obtain ⟨_, k, hp, _, he, _, _, _, _⟩ := hok
  rw [hp]
  by_cases hv : c.value = []
  · have hk := he hv
    subst hk
    have hm : c.margin ≠ [] := by intro h; exact hne (by simp [h, hv])
    simp only [hv, List.append_nil, spaces, List.replicate_zero, List.flatten_cons, List.flatten_nil]
    rw [← List.append_assoc, getLast?_append_ne_nil _ _ hm]
  · simp only [List.flatten_cons, List.flatten_nil, List.append_nil]
    rw [← List.append_assoc, ← List.append_assoc, getLast?_append_ne_nil _ _ hv,
      getLast?_append_ne_nil _ _ hv]

/-- **no_trailing_blanks** (full strength, on the bytes `Format` returns): for a table built
through the builder API with spans ≥ 1, formatted under any order left by the unstable sort, if
every printed cell is single-line and its own text (margin then value) does not end in a blank,
then in the output no blank is immediately followed by a newline — no line ends in blanks (every
line, the last included, is terminated by a newline). -/
theorem no_trailing_blanks (ops : List Op) (t : Table) (hb : build ops = some t)
    (hspan : ∀ c ∈ t.cells, 1 ≤ c.span) (ordered : List Cell) (hperm : ordered.Perm t.cells)
    (hclean : ∀ c ∈ t.cells, skipped c = false → CleanCell c) :
    noBlankNL (format t ordered) = true := by
  obtain ⟨hs, hok⟩ := columns_align_format ops t hb hspan ordered hperm
  unfold format emit
  simp only
  rw [hs] at hok ⊢
  have h := emit_fold_outOK _ _ t.cells {} hok hclean ⟨rfl, by simp⟩
  rw [List.flatten_append]
  split
  · simpa using h.1
  · have := outOK_newlines _ 1 h
    simpa using this.1

/-- non-trivial instance: the cells of the F14 table are clean -/
example : ∀ c ∈ f14Table.cells, skipped c = false → CleanCell c := by
  unfold CleanCell cellText; decide

/-! ### text_csv_same_view -/

open Tab.Render in
/-- **text_csv_same_view_partial**: in BOTH renderings the physical column groups of the logical
columns follow the label column without gaps or overlaps — group `exp` ends exactly where group
`exp+1` starts — so a cell of one logical column can never land under another one, and the text
group is the CSV group plus one warnings column per sub-group. Gap (hence `_partial`): the
assembly of the cell strings (labels, scaled numbers, deltas, p-values, footnotes) is not modelled
here; that both outputs show the same tables, labels, cells, deltas, p-values, warnings and
numbers to the printed precision is checked end to end by the S oracle `Spec.TextCsv.judge` on
the real renderings. -/
theorem text_csv_same_view_partial (exp : Nat) :
    textStartCol 0 = 1 ∧ csvStartCol 0 = 1 ∧
    textStartCol exp + textGroupWidth exp = textStartCol (exp + 1) ∧
    csvStartCol exp + csvGroupWidth exp = csvStartCol (exp + 1) ∧
    textGroupWidth exp = csvGroupWidth exp + csvGroupWidth exp / 2 := by
  unfold textStartCol csvStartCol textGroupWidth csvGroupWidth
  cases exp with
  | zero => simp
  | succ n => simp; omega

open Tab.Render in
/-- **text_csv_same_view** (measurement rows, full strength): let `(label, cells)` be a row of the
cells view. Whatever table ToText has built so far (`t`) and whatever is in its warning list
(`wl`), the calls ToText makes for the row never panic, and BOTH renderings show the same view:
 * the label is the texttab cell at column 0 of the new row and field 0 of the CSV record;
 * for every cell `c` present at logical column `i`: the centre is the right-aligned texttab
   cell at `textStartCol i` (scaled spelling) and CSV field `csvStartCol i` (unscaled spelling of
   the same number — their numeric agreement is C10's and the S oracle's business); the range is
   the right-aligned cell with margin " ± " at `textStartCol i + 1` and CSV field
   `csvStartCol i + 1`, the same string;
 * if `i > 0` and the cell has a baseline: the delta is at `textStartCol i + 3` / CSV field
   `csvStartCol i + 2` (same string), the p-value string at `textStartCol i + 4` in parentheses /
   CSV field `csvStartCol i + 3`.
Cells absent from the view contribute nothing to either rendering (`placedRow`, `csvDataCols`
skip them), and no field or cell written for one column is overwritten by another
(`csvDataCols_fields`, `dataCols_cells`). The two presentation differences are outside the rows:
the summary row (`toTextOps`: only when `rows.length > 1`; `toCsv`: always) and the warnings
(text: footnote cells at `+2`/`+5` and `footnoteLines`; CSV: `csvWarn` lines, second stream). -/
theorem text_csv_same_view (wl : List Bytes) (t : Table) (label : Bytes)
    (cells : List (Option DataCell)) (rowNo : Nat) (w : List Bytes) :
    ∃ t', runOps t (dataRowOps wl (label, cells)).2 = some t' ∧
      mkCell t.row.curRow 0 label [] ∈ t'.cells ∧
      (csvDataCols rowNo [label] w 0 cells).1.getD 0 [] = label ∧
      ∀ i c, cells[i]? = some (some c) →
        mkCell t.row.curRow (textStartCol i) c.centerText [.right] ∈ t'.cells ∧
        (csvDataCols rowNo [label] w 0 cells).1.getD (csvStartCol i) [] = c.centerCsv ∧
        mkCell t.row.curRow (textStartCol i + 1) c.range [.right, .margin pmMargin] ∈ t'.cells ∧
        (csvDataCols rowNo [label] w 0 cells).1.getD (csvStartCol i + 1) [] = c.range ∧
        ∀ d, i > 0 → c.delta = some d →
          mkCell t.row.curRow (textStartCol i + 3) d.delta [.right] ∈ t'.cells ∧
          (csvDataCols rowNo [label] w 0 cells).1.getD (csvStartCol i + 2) [] = d.delta ∧
          mkCell t.row.curRow (textStartCol i + 4) ([0x28] ++ d.p ++ [0x29]) [] ∈ t'.cells ∧
          (csvDataCols rowNo [label] w 0 cells).1.getD (csvStartCol i + 3) [] = d.p := by
  -- text side: Row(), Cell(label), then the columns
  let t2 := (t.row).span 1 label []
  have hcur : t2.curCol ≤ textStartCol 0 := by simp [t2, Table.span, Table.row, textStartCol]
  obtain ⟨t', h1, h2, h3⟩ := dataCols_cells cells wl 0 t2 hcur
  have hrow : t2.curRow = t.row.curRow := rfl
  have hlab : mkCell t.row.curRow 0 label [] ∈ t2.cells := by
    simp [t2, Table.span, Table.row, mkCell]
  have hcsv := csvDataCols_fields rowNo cells [label] w 0 (by simp [csvStartCol])
  refine ⟨t', ?_, ?_, ?_, ?_⟩
  · simp only [dataRowOps]
    rw [show [Op.row, Op.span 1 label []] ++ (dataColsOps wl 0 cells).2
          = Op.row :: Op.span 1 label [] :: (dataColsOps wl 0 cells).2 from rfl,
      runOps_cons, Table.step, Option.bind_some, runOps_cons, Table.step, Option.bind_some]
    exact h1
  · rw [h2]; exact List.mem_append_left _ hlab
  · have := hcsv.1 0 (by simp)
    simpa using this
  · intro i c hi
    obtain ⟨wl', hmem⟩ := placedRow_mem t2.curRow cells wl 0 i c hi
    simp only [Nat.zero_add] at hmem
    have hin : ∀ x ∈ placed t2.curRow (textStartCol i) (cellStrings wl' i c), x ∈ t'.cells := by
      intro x hx; rw [h2]; exact List.mem_append_right _ (hmem x hx)
    have hcr := placed_center_range t2.curRow (textStartCol i) wl' i c
    have hf := hcsv.2 i c hi
    simp only [Nat.zero_add] at hf
    have hlen2 : 2 ≤ (csvStrings i c).length := by unfold csvStrings; simp
    refine ⟨hin _ hcr.1, ?_, hin _ hcr.2, ?_, ?_⟩
    · have := hf 0 (by omega)
      simpa [csvStrings] using this
    · have := hf 1 (by omega)
      simpa [csvStrings] using this
    · intro d hpos hd
      have hdl := placed_delta t2.curRow (textStartCol i) wl' i c d hpos hd
      have hlen4 : (csvStrings i c).length = 4 := by unfold csvStrings; simp [hpos, hd]
      refine ⟨hin _ hdl.1, ?_, hin _ hdl.2, ?_⟩
      · have := hf 2 (by omega)
        simpa [csvStrings, hpos, hd] using this
      · have := hf 3 (by omega)
        simpa [csvStrings, hpos, hd] using this

open Tab.Render in
/-- **text_csv_same_view_summary** (the summary/geomean row, full strength): for the summary label
and the per-column summaries of the cells view, on any texttab table and warning list: ToText's
calls for the row never panic; the label is texttab cell (row, 0) and CSV field 0; and for every
column `i` that has a summary entry `s`:
 * if `s.hasSummary`, the geomean is the right-aligned texttab cell at `textStartCol i` and CSV
   field `csvStartCol i` (scaled / unscaled spelling); if not, that CSV field is BLANK;
 * CSV field `csvStartCol i + 1` (under "CI") is blank — whether or not there is a geomean;
 * if `i > 0`, the summary delta (or "?") is the texttab cell at `textStartCol i + 3` — the column
   the "vs base" header starts at — and CSV field `csvStartCol i + 2` (under "vs base"), the same
   string, and CSV field `csvStartCol i + 3` (under "P") is blank.
So text and CSV agree on which column holds the geomean and which the delta, in particular for
columns WITHOUT a geomean (the C16-C seed breaks exactly the third clause). -/
theorem text_csv_same_view_summary (wl : List Bytes) (t : Table) (label : Bytes)
    (sums : List (Option SumCell)) (rowNo : Nat) (w : List Bytes) :
    ∃ t', runOps t ([Op.row, Op.span 1 label []] ++ (sumColsOps wl 0 sums).2) = some t' ∧
      mkCell t.row.curRow 0 label [] ∈ t'.cells ∧
      (csvSumCols rowNo [label] w 0 sums).1.getD 0 [] = label ∧
      ∀ i s, sums[i]? = some (some s) →
        (s.hasSummary = true → mkCell t.row.curRow (textStartCol i) s.sumText [.right] ∈ t'.cells ∧
          (csvSumCols rowNo [label] w 0 sums).1.getD (csvStartCol i) [] = s.sumCsv) ∧
        (s.hasSummary = false → (csvSumCols rowNo [label] w 0 sums).1.getD (csvStartCol i) [] = []) ∧
        (csvSumCols rowNo [label] w 0 sums).1.getD (csvStartCol i + 1) [] = [] ∧
        (i > 0 →
          mkCell t.row.curRow (textStartCol i + 3) (ratioStr s) (ratioOpts s) ∈ t'.cells ∧
          (csvSumCols rowNo [label] w 0 sums).1.getD (csvStartCol i + 2) [] = ratioStr s ∧
          (csvSumCols rowNo [label] w 0 sums).1.getD (csvStartCol i + 3) [] = []) := by
  let t2 := (t.row).span 1 label []
  have hcur : t2.curCol ≤ textStartCol 0 := by simp [t2, Table.span, Table.row, textStartCol]
  obtain ⟨t', h1, h2, h3⟩ := sumCols_cells sums wl 0 t2 hcur
  have hlab : mkCell t.row.curRow 0 label [] ∈ t2.cells := by
    simp [t2, Table.span, Table.row, mkCell]
  have hcsv := csvSumCols_fields rowNo sums [label] w 0 (by simp [csvStartCol])
  refine ⟨t', ?_, ?_, ?_, ?_⟩
  · rw [show [Op.row, Op.span 1 label []] ++ (sumColsOps wl 0 sums).2
          = Op.row :: Op.span 1 label [] :: (sumColsOps wl 0 sums).2 from rfl,
      runOps_cons, Table.step, Option.bind_some, runOps_cons, Table.step, Option.bind_some]
    exact h1
  · rw [h2]; exact List.mem_append_left _ hlab
  · have := hcsv.1 0 (by simp)
    simpa using this
  · intro i s hi
    obtain ⟨wl', hmem⟩ := sumPlacedRow_mem t2.curRow sums wl 0 i s hi
    simp only [Nat.zero_add] at hmem
    have hin : ∀ x ∈ sumPlaced t2.curRow wl' i s, x ∈ t'.cells := by
      intro x hx; rw [h2]; exact List.mem_append_right _ (hmem x hx)
    have hrow : t2.curRow = t.row.curRow := rfl
    have hf := hcsv.2.2 i s hi
    simp only [Nat.zero_add] at hf
    have hgw : 2 ≤ csvGroupWidth i := by unfold csvGroupWidth; split <;> omega
    refine ⟨?_, ?_, ?_, ?_⟩
    · intro hs
      refine ⟨?_, ?_⟩
      · rw [← hrow]; apply hin; unfold sumPlaced; simp [hs]
      · have := hf 0 (by omega)
        rw [Nat.add_zero] at this
        rw [this]; unfold sumTail; by_cases h : i > 0 <;> simp [h, hs]
    · intro hs
      have := hf 0 (by omega)
      rw [Nat.add_zero] at this
      rw [this]; unfold sumTail; by_cases h : i > 0 <;> simp [h, hs]
    · rw [hf 1 (by omega)]; unfold sumTail
      by_cases h : i > 0
      · simp [h]
      · cases s.hasSummary <;> simp [h]
    · intro hpos
      have hgw4 : csvGroupWidth i = 4 := by
        unfold csvGroupWidth
        have : (i == 0) = false := by simp; omega
        simp [this]
      refine ⟨?_, ?_, ?_⟩
      · rw [← hrow]; apply hin; unfold sumPlaced; simp [hpos]
      · rw [hf 2 (by omega)]; unfold sumTail; simp [hpos]
      · rw [hf 3 (by omega)]; unfold sumTail; simp [hpos]

/-! ### keyheader_partition -/

open Tab.KeyHeader in
theorem newKeyHeader_eq_walk (keys : List (List Bytes)) (nf : Nat) :
    newKeyHeader keys nf = walk keys nf 0 0 keys.length := by
  unfold newKeyHeader
  split
  · rename_i h
    have : keys = [] := by simpa using h
    subst this
    cases nf <;> simp [walk, runs]
  · rfl

open Tab.KeyHeader in
/-- **keyheader_partition** (full strength): the forest `NewKeyHeader` returns is `Good`, i.e.
recursively for every node list below a parent covering `[start, start+len)` (the top list:
`[0, len(keys))`): the nodes are non-empty, contiguous, disjoint and cover exactly the parent's
range (`Tiles` — hence they refine the level above); each node's `Field` is its level, its
`Value` is the value of that field in EVERY key it covers; neighbouring siblings have different
values; and the tree is exactly `nfields` levels deep. -/
theorem keyheader_partition (keys : List (List Bytes)) (nf : Nat) :
    Good keys nf 0 0 keys.length (newKeyHeader keys nf) := by
  rw [newKeyHeader_eq_walk]
  exact walk_good keys nf 0 0 keys.length

open Tab.KeyHeader in
/-- consequence used by the table header: at EVERY level k < nfields the header cells, read left
to right as `ToText` walks them, tile `[0, len(keys))` — every column is under exactly one header
cell per level. -/
theorem keyheader_level_cover (keys : List (List Bytes)) (nf k : Nat) (hk : k < nf) :
    Tiles 0 keys.length (nodeSpans (level (newKeyHeader keys nf) k)) := by
  have hg := keyheader_partition keys nf
  obtain ⟨fuel, rfl⟩ : ∃ fuel, nf = (fuel + k) + 1 := ⟨nf - 1 - k, by omega⟩
  simp only [Good] at hg
  have := level_tiles keys k fuel 1 (newKeyHeader keys (fuel + k + 1)) 0 keys.length
    (by simpa using hg.1) (fun x hx => (hg.2.2 x hx).2.2)
  exact this

open Tab.KeyHeader Tab.Render in
/-- **header_cells_span_keys** (full strength): ToText's header loop over the KeyHeader of the
column keys, started on ANY texttab table `t`, never panics (no `Col` to an earlier column) and
adds exactly `hdrCells`: one row per tree level and on it, for every node of that level, one
centred cell with margin " │ " whose value is the node's value, whose first physical column is
`textStartCol node.Start` and whose span ends at `textStartCol (node.Start + node.Len)` — exactly
the physical columns of the logical columns (keys) the node covers — followed by the right-edge
cell. With `keyheader_partition` (the node's value is the common field value of the keys it
covers) and `keyheader_level_cover` (the nodes of a level tile all columns) this is: each header
cell spans exactly the columns of the keys it labels, every column is under exactly one header
cell per level. -/
theorem header_cells_span_keys (keys : List (List Bytes)) (nf : Nat) (t : Table) :
    ∃ t', runOps t (headerOps (textStartCol (keys.length + 1)) (nf + 1) (newKeyHeader keys nf)) = some t' ∧
      t'.cells = t.cells ++
        hdrCells (textStartCol (keys.length + 1)) (nf + 1) t.row.curRow (newKeyHeader keys nf) := by
  apply header_run _ keys.length (textStartCol_mono (Nat.le_succ _))
  intro k hk
  by_cases hkn : k < nf
  · exact keyheader_level_cover keys nf k hkn
  · exfalso
    apply hk
    have hg := keyheader_partition keys nf
    cases nf with
    | zero =>
      simp only [Good] at hg
      rw [hg]; exact level_nil k
    | succ f =>
      simp only [Good] at hg
      have hd := level_depth keys f (newKeyHeader keys (f + 1)) (fun x hx => ⟨1, (hg.2.2 x hx).2.2⟩)
      obtain ⟨b, rfl⟩ : ∃ b, k = (f + 1) + b := ⟨k - (f + 1), by omega⟩
      rw [level_add, hd]; exact level_nil b

/-- non-trivial instance: the example of the doc comment of keyheader.go -/
example : (Tab.KeyHeader.level (Tab.KeyHeader.newKeyHeader
    [[[49], [49], [49]], [[49], [49], [50]], [[50], [50], [50]], [[50], [51], [51]]] 3) 1).map
      (fun x => (x.value, x.start, x.len)) = [([49], 0, 2), ([50], 2, 1), ([51], 3, 1)] := by decide

end C16
