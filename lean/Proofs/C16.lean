/-
C16 — text tables are laid out without loss and agree with the CSV rendering.
Property theorems only; helper lemmas live in Proofs/Lemmas/C16*.lean.
-/
import Proofs.Lemmas.C16Fit
import Proofs.Lemmas.C16Header
import Proofs.Lemmas.C16Offs
import Proofs.Lemmas.C16Build
import Proofs.Lemmas.C16Lines
import Model.Tab.Render
import Proofs.Lemmas.C16Render
import Proofs.Lemmas.C16HeaderOps
import Proofs.Lemmas.C16ToText
import Proofs.Lemmas.C16Warn
import Proofs.Lemmas.C16Decode

namespace C16
open Tab.TextTab

/-! ### widths_fit -/

/-- **widths_fit** (full strength, current code incl. b5d6dcd): after the width pass EVERY cell
of the table has room for its column's margin plus its whole value,
`Σ ws[col..col+span) ≥ lmargin[col] + runes(value)` — for every order in which the unstable sort
may have left the cells (`ordered` is arbitrary, not even sortedness by span is needed) and every
order `sortCols` in which the columns under a spanning cell are taken (any permutation). -/
theorem widths_fit (sortCols : List Int → List Nat → List Nat)
    (hperm : ∀ ws l, (sortCols ws l).Perm l)
    (t : Table) (ordered : List Cell) (c : Cell) (hc : c ∈ ordered)
    (hspan : 1 ≤ c.span) (hcols : c.col + c.span ≤ t.cols) :
    (runeCount c.value : Int) + ((layoutOf true sortCols t ordered).lm.getD c.col 0 : Nat)
      ≤ sumRange (layoutOf true sortCols t ordered).ws c.col c.span := by
  have := foldl_cellStep_fits t.isShrink sortCols hperm (lmargins t.cols t.cells) ordered
    (List.replicate t.cols 0) c hc hspan (by simpa using hcols)
  exact this

/-- the margin term of `widths_fit` covers the cell's own margin -/
theorem widths_fit_margin (grow : Bool) (sortCols : List Int → List Nat → List Nat)
    (t : Table) (ordered : List Cell) (c : Cell) (hc : c ∈ t.cells) (hcol : c.col < t.cols) :
    runeCount c.margin ≤ (layoutOf grow sortCols t ordered).lm.getD c.col 0 := by
  exact lmargins_ge t.cells (List.replicate t.cols 0) c hc (by simpa using hcol)

/-- the column order Go's `sort.Slice` produces on short slices is a permutation -/
theorem insertCol_perm (ws : List Int) (c : Nat) : ∀ l, (insertCol ws c l).Perm (c :: l) := by
  intro l
  induction l with
  | nil => exact List.Perm.refl _
  | cons d ds ih =>
    unfold insertCol
    split
    · exact List.Perm.refl _
    · exact (List.Perm.cons d ih).trans (List.Perm.swap c d ds)

theorem insertSortCols_perm (ws : List Int) (l : List Nat) : (insertSortCols ws l).Perm l := by
  unfold insertSortCols
  have : ∀ (l acc : List Nat), (l.foldl (fun acc c => insertCol ws c acc) acc).Perm (l ++ acc) := by
    intro l
    induction l with
    | nil => intro acc; exact List.Perm.refl _
    | cons c rest ih =>
      intro acc
      simp only [List.foldl_cons, List.cons_append]
      refine (ih _).trans ?_
      refine (List.Perm.append_left rest (insertCol_perm ws c acc)).trans ?_
      exact List.perm_middle
  simpa using this l []

/-- `widths_fit` for `Table.Format` as it is run (`format` uses `insertSortCols`). -/
theorem widths_fit_format (t : Table) (ordered : List Cell) (c : Cell) (hc : c ∈ ordered)
    (hspan : 1 ≤ c.span) (hcols : c.col + c.span ≤ t.cols) :
    Fits (layoutOf true insertSortCols t ordered).lm (layoutOf true insertSortCols t ordered).ws c :=
  widths_fit insertSortCols insertSortCols_perm t ordered c hc hspan hcols

/-- the F14 witness: `x | vs base (2 cols) | y` over `1 | | | 2` with columns 1 and 2 shrink -/
def f14Table : Table :=
  ((build [.row, .span 1 [120] [], .span 2 [118, 115, 32, 98, 97, 115, 101] [], .span 1 [121] [],
           .row, .span 1 [49] [], .col 3, .span 1 [50] [],
           .setShrink 1 true, .setShrink 2 true]).getD {})

/-- **widths_fit fails on the pre-b5d6dcd width pass** (`grow = false`): the cell that spans
only shrink columns gets no room (needs 8, gets 0). -/
theorem widths_fit_prefix_counterexample :
    ∃ c ∈ f14Table.cells, 1 ≤ c.span ∧ c.col + c.span ≤ f14Table.cols ∧
      ¬ Fits (layoutOf false insertSortCols f14Table f14Table.cells).lm
             (layoutOf false insertSortCols f14Table f14Table.cells).ws c := by
  refine ⟨{ row := 0, col := 1, span := 2, value := [118, 115, 32, 98, 97, 115, 101], margin := [0x20], align := .left }, ?_, ?_, ?_, ?_⟩
  · decide
  · decide
  · decide
  · decide

/-- … and the same table is fine under the current code (non-trivial instance of `widths_fit`). -/
example : ∀ c ∈ f14Table.cells,
    Fits (layoutOf true insertSortCols f14Table f14Table.cells).lm
         (layoutOf true insertSortCols f14Table f14Table.cells).ws c := by decide

/-! ### columns_align -/

/-- **columns_align** (full strength at the level of the pieces `Format` writes): take the layout
computed from ANY order `ordered` of the cells (so in particular any order among equal-span
cells) and any list `sorted` of cells of the table in row-major order without overlaps inside a
row (`Before`; this is what the final sort by (row, col) yields for cells added through the
builder with spans ≥ 1). Then for every cell the emission loop does not skip, `CellOK` holds at
the writer's position: the pad in front of the cell is non-negative and brings the writer exactly
to `offs[col]` (same offset on every line), the margin is right-justified and whole in the
column's margin width, the value is written whole after `k` blanks (`k = 0` left-aligned, value
ending exactly at `offs[col+span]` right-aligned, `k = ⌊slack/2⌋` centred), the writer's offset
bookkeeping equals the number of runes written, and the cell ends at or before `offs[col+span]`
— which is at or before the next cell's column, so no two cells overlap. Widths are counted per
piece (`runeCount`); pieces that end in an incomplete UTF-8 sequence could fuse with the next
piece in a rune-counting viewer, that case is excluded in the S oracle, not here. -/
theorem columns_align (sortCols : List Int → List Nat → List Nat)
    (hperm : ∀ ws l, (sortCols ws l).Perm l)
    (t : Table) (ordered sorted : List Cell)
    (hsorted : sorted.Pairwise Before)
    (hmem : ∀ c ∈ sorted, c ∈ ordered ∧ c ∈ t.cells ∧ 1 ≤ c.span ∧ c.col + c.span ≤ t.cols) :
    EmitOK (layoutOf true sortCols t ordered).offs (layoutOf true sortCols t ordered).lm {} sorted := by
  have hnn := widthPass_nonneg true t.isShrink sortCols (lmargins t.cols t.cells) t.cols ordered
  have hlen := widthPass_length true t.isShrink sortCols (lmargins t.cols t.cells) t.cols ordered
  apply emitOK_of
  · exact fun i j hij hj => offsets_mono _ hnn i j hij hj
  · exact fun i => offsets_nonneg _ hnn i
  · exact hsorted
  · intro c hc
    obtain ⟨ho, ht, hs, hcol⟩ := hmem c hc
    refine ⟨?_, ?_, ?_⟩
    · simp only [layoutOf]; rw [offsets_length, hlen]; omega
    · exact widths_fit_margin true sortCols t ordered c ht (by omega)
    · have hf := widths_fit sortCols hperm t ordered c ho hs hcol
      have hd := offsets_diff (layoutOf true sortCols t ordered).ws 0 c.col c.span
        (by simp only [layoutOf]; rw [hlen]; exact hcol)
      simp only [layoutOf] at hf hd ⊢
      omega
  · intro c _
    exact ⟨Nat.zero_le _, fun _ => offsets_nonneg _ hnn _⟩

/-- non-trivial instance: the F14 table in builder order is row-major without overlaps -/
example : f14Table.cells.Pairwise Before := by
  unfold Before; decide

/-- **builder_order**: whatever sequence of `Row/Col/Cell/Span/SetShrink` calls built the table
(without panicking), its cells are in row-major order, cells of one row do not overlap
(`a.col + a.span ≤ b.col` for `a` before `b`), and every cell lies inside `cols`. -/
theorem builder_order (ops : List Op) (t : Table) (h : build ops = some t) :
    t.cells.Pairwise Before ∧ ∀ c ∈ t.cells, c.col + c.span ≤ t.cols := by
  have := build_inv ops t h
  exact ⟨this.1, fun c hc => (this.2 c hc).2⟩

/-- **columns_align_format** (full strength, no order hypothesis left): for a table built through
the builder API with spans ≥ 1 and ANY permutation `ordered` of its cells (what the unstable sort
by span may leave), the list `Format` iterates over after its final sort by (row, col) IS the
builder order, and every printed cell is written with the geometry `CellOK` of `columns_align`. -/
theorem columns_align_format (ops : List Op) (t : Table) (hb : build ops = some t)
    (hspan : ∀ c ∈ t.cells, 1 ≤ c.span) (ordered : List Cell) (hperm : ordered.Perm t.cells) :
    ordered.mergeSort cellLe = t.cells ∧
    EmitOK (layoutOf true insertSortCols t ordered).offs (layoutOf true insertSortCols t ordered).lm {}
      (ordered.mergeSort cellLe) := by
  obtain ⟨hp, hcols⟩ := builder_order ops t hb
  have hs := mergeSort_restores t.cells ordered hp hspan hperm
  refine ⟨hs, ?_⟩
  rw [hs]
  exact columns_align insertSortCols insertSortCols_perm t ordered t.cells hp
    (fun c hc => ⟨hperm.symm.subset hc, hc, hspan c hc, hcols c hc⟩)

/-! ### no_trailing_blanks -/

theorem getLast?_append_ne_nil {α : Type} (l l' : List α) (h : l' ≠ []) :
    (l ++ l').getLast? = l'.getLast? := by
  rw [List.getLast?_append]
  cases l' with
  | nil => exact absurd rfl h
  | cons a as => simp [List.getLast?_cons_cons, List.getLast?_eq_some_getLast]

/-- **no_trailing_blanks_partial**: the last byte written for a printed cell is the last byte of
the cell's own text (margin followed by value) — the engine never writes padding AFTER content
(cells are only padded on the left; an empty value is not padded at all since 8783093), and a
printed cell has some text. Since the pieces of a line's last printed cell are the last pieces of
that line (the only other pieces `emitCell` writes are newlines), a line ends in a blank only if
the text of its last cell does. Gap (hence `_partial`): the step from pieces to the lines of the
flattened output is argued here, not formalised; the S oracle checks it on the real text. -/
theorem no_trailing_blanks_partial (offs : List Int) (lm : List Nat) (off : Int) (c : Cell)
    (hok : CellOK offs lm off c) (hpr : skipped c = false) :
    c.margin ++ c.value ≠ [] ∧
    ((cellPieces offs lm off c).1.flatten).getLast? = (c.margin ++ c.value).getLast? := by
  have hne : c.margin ++ c.value ≠ [] := by
    intro h
    have h1 : c.margin = [] := (List.append_eq_nil_iff.mp h).1
    have h2 : c.value = [] := (List.append_eq_nil_iff.mp h).2
    have : skipped c = true := by simp [skipped, h1, h2, isBlank, allSpaceAux]
    rw [this] at hpr; cases hpr
  refine ⟨hne, ?_⟩
  obtain ⟨_, k, hp, _, he, _, _, _, _⟩ := hok
  rw [hp]
  by_cases hv : c.value = []
  · have hk := he hv
    subst hk
    have hm : c.margin ≠ [] := by intro h; exact hne (by simp [h, hv])
    simp only [hv, List.append_nil, spaces, List.replicate_zero, List.flatten_cons, List.flatten_nil]
    rw [← List.append_assoc, getLast?_append_ne_nil _ _ hm]
  · simp only [List.flatten_cons, List.flatten_nil, List.append_nil]
    rw [← List.append_assoc, ← List.append_assoc, getLast?_append_ne_nil _ _ hv,
      getLast?_append_ne_nil _ _ hv]

/-- **no_trailing_blanks** (full strength, on the bytes `Format` returns): for a table built
through the builder API with spans ≥ 1, formatted under any order left by the unstable sort, if
every printed cell is single-line and its own text (margin then value) does not end in a blank,
then in the output no blank is immediately followed by a newline — no line ends in blanks (every
line, the last included, is terminated by a newline). -/
theorem no_trailing_blanks (ops : List Op) (t : Table) (hb : build ops = some t)
    (hspan : ∀ c ∈ t.cells, 1 ≤ c.span) (ordered : List Cell) (hperm : ordered.Perm t.cells)
    (hclean : ∀ c ∈ t.cells, skipped c = false → CleanCell c) :
    noBlankNL (format t ordered) = true := by
  obtain ⟨hs, hok⟩ := columns_align_format ops t hb hspan ordered hperm
  unfold format emit
  simp only
  rw [hs] at hok ⊢
  have h := emit_fold_outOK _ _ t.cells {} hok hclean ⟨rfl, by simp⟩
  rw [List.flatten_append]
  split
  · simpa using h.1
  · have := outOK_newlines _ 1 h
    simpa using this.1

/-- non-trivial instance: the cells of the F14 table are clean -/
example : ∀ c ∈ f14Table.cells, skipped c = false → CleanCell c := by
  unfold CleanCell cellText; decide

/-! ### text_csv_same_view -/

open Tab.Render in
/-- **text_csv_same_view_partial**: in BOTH renderings the physical column groups of the logical
columns follow the label column without gaps or overlaps — group `exp` ends exactly where group
`exp+1` starts — so a cell of one logical column can never land under another one, and the text
group is the CSV group plus one warnings column per sub-group. Gap (hence `_partial`): the
assembly of the cell strings (labels, scaled numbers, deltas, p-values, footnotes) is not modelled
here; that both outputs show the same tables, labels, cells, deltas, p-values, warnings and
numbers to the printed precision is checked end to end by the S oracle `Spec.TextCsv.judge` on
the real renderings. -/
theorem text_csv_same_view_partial (exp : Nat) :
    textStartCol 0 = 1 ∧ csvStartCol 0 = 1 ∧
    textStartCol exp + textGroupWidth exp = textStartCol (exp + 1) ∧
    csvStartCol exp + csvGroupWidth exp = csvStartCol (exp + 1) ∧
    textGroupWidth exp = csvGroupWidth exp + csvGroupWidth exp / 2 := by
  unfold textStartCol csvStartCol textGroupWidth csvGroupWidth
  cases exp with
  | zero => simp
  | succ n => simp; omega

open Tab.Render in
/-- **text_csv_same_view** (measurement rows, full strength): let `(label, cells)` be a row of the
cells view. Whatever table ToText has built so far (`t`) and whatever is in its warning list
(`wl`), the calls ToText makes for the row never panic, and BOTH renderings show the same view:
 * the label is the texttab cell at column 0 of the new row and field 0 of the CSV record;
 * for every cell `c` present at logical column `i`: the centre is the right-aligned texttab
   cell at `textStartCol i` (scaled spelling) and CSV field `csvStartCol i` (unscaled spelling of
   the same number — their numeric agreement is C10's and the S oracle's business); the range is
   the right-aligned cell with margin " ± " at `textStartCol i + 1` and CSV field
   `csvStartCol i + 1`, the same string;
 * if `i > 0` and the cell has a baseline: the delta is at `textStartCol i + 3` / CSV field
   `csvStartCol i + 2` (same string), the p-value string at `textStartCol i + 4` in parentheses /
   CSV field `csvStartCol i + 3`.
Cells absent from the view contribute nothing to either rendering (`placedRow`, `csvDataCols`
skip them), and no field or cell written for one column is overwritten by another
(`csvDataCols_fields`, `dataCols_cells`). The two presentation differences are outside the rows:
the summary row (`toTextOps`: only when `rows.length > 1`; `toCsv`: always) and the warnings
(text: footnote cells at `+2`/`+5` and `footnoteLines`; CSV: `csvWarn` lines, second stream). -/
theorem text_csv_same_view (wl : List Bytes) (t : Table) (label : Bytes)
    (cells : List (Option DataCell)) (rowNo : Nat) (w : List Bytes) :
    ∃ t', runOps t (dataRowOps wl (label, cells)).2 = some t' ∧
      mkCell t.row.curRow 0 label [] ∈ t'.cells ∧
      (csvDataCols rowNo [label] w 0 cells).1.getD 0 [] = label ∧
      ∀ i c, cells[i]? = some (some c) →
        mkCell t.row.curRow (textStartCol i) c.centerText [.right] ∈ t'.cells ∧
        (csvDataCols rowNo [label] w 0 cells).1.getD (csvStartCol i) [] = c.centerCsv ∧
        mkCell t.row.curRow (textStartCol i + 1) c.range [.right, .margin pmMargin] ∈ t'.cells ∧
        (csvDataCols rowNo [label] w 0 cells).1.getD (csvStartCol i + 1) [] = c.range ∧
        ∀ d, i > 0 → c.delta = some d →
          mkCell t.row.curRow (textStartCol i + 3) d.delta [.right] ∈ t'.cells ∧
          (csvDataCols rowNo [label] w 0 cells).1.getD (csvStartCol i + 2) [] = d.delta ∧
          mkCell t.row.curRow (textStartCol i + 4) ([0x28] ++ d.p ++ [0x29]) [] ∈ t'.cells ∧
          (csvDataCols rowNo [label] w 0 cells).1.getD (csvStartCol i + 3) [] = d.p := by
  -- text side: Row(), Cell(label), then the columns
  let t2 := (t.row).span 1 label []
  have hcur : t2.curCol ≤ textStartCol 0 := by simp [t2, Table.span, Table.row, textStartCol]
  obtain ⟨t', h1, h2, h3⟩ := dataCols_cells cells wl 0 t2 hcur
  have hrow : t2.curRow = t.row.curRow := rfl
  have hlab : mkCell t.row.curRow 0 label [] ∈ t2.cells := by
    simp [t2, Table.span, Table.row, mkCell]
  have hcsv := csvDataCols_fields rowNo cells [label] w 0 (by simp [csvStartCol])
  refine ⟨t', ?_, ?_, ?_, ?_⟩
  · simp only [dataRowOps]
    rw [show [Op.row, Op.span 1 label []] ++ (dataColsOps wl 0 cells).2
          = Op.row :: Op.span 1 label [] :: (dataColsOps wl 0 cells).2 from rfl,
      runOps_cons, Table.step, Option.bind_some, runOps_cons, Table.step, Option.bind_some]
    exact h1
  · rw [h2]; exact List.mem_append_left _ hlab
  · have := hcsv.1 0 (by simp)
    simpa using this
  · intro i c hi
    obtain ⟨wl', hmem⟩ := placedRow_mem t2.curRow cells wl 0 i c hi
    simp only [Nat.zero_add] at hmem
    have hin : ∀ x ∈ placed t2.curRow (textStartCol i) (cellStrings wl' i c), x ∈ t'.cells := by
      intro x hx; rw [h2]; exact List.mem_append_right _ (hmem x hx)
    have hcr := placed_center_range t2.curRow (textStartCol i) wl' i c
    have hf := hcsv.2 i c hi
    simp only [Nat.zero_add] at hf
    have hlen2 : 2 ≤ (csvStrings i c).length := by unfold csvStrings; simp
    refine ⟨hin _ hcr.1, ?_, hin _ hcr.2, ?_, ?_⟩
    · have := hf 0 (by omega)
      simpa [csvStrings] using this
    · have := hf 1 (by omega)
      simpa [csvStrings] using this
    · intro d hpos hd
      have hdl := placed_delta t2.curRow (textStartCol i) wl' i c d hpos hd
      have hlen4 : (csvStrings i c).length = 4 := by unfold csvStrings; simp [hpos, hd]
      refine ⟨hin _ hdl.1, ?_, hin _ hdl.2, ?_⟩
      · have := hf 2 (by omega)
        simpa [csvStrings, hpos, hd] using this
      · have := hf 3 (by omega)
        simpa [csvStrings, hpos, hd] using this

open Tab.Render in
/-- **text_csv_same_view_summary** (the summary/geomean row, full strength): for the summary label
and the per-column summaries of the cells view, on any texttab table and warning list: ToText's
calls for the row never panic; the label is texttab cell (row, 0) and CSV field 0; and for every
column `i` that has a summary entry `s`:
 * if `s.hasSummary`, the geomean is the right-aligned texttab cell at `textStartCol i` and CSV
   field `csvStartCol i` (scaled / unscaled spelling); if not, that CSV field is BLANK;
 * CSV field `csvStartCol i + 1` (under "CI") is blank — whether or not there is a geomean;
 * if `i > 0`, the summary delta (or "?") is the texttab cell at `textStartCol i + 3` — the column
   the "vs base" header starts at — and CSV field `csvStartCol i + 2` (under "vs base"), the same
   string, and CSV field `csvStartCol i + 3` (under "P") is blank.
So text and CSV agree on which column holds the geomean and which the delta, in particular for
columns WITHOUT a geomean (the C16-C seed breaks exactly the third clause). -/
theorem text_csv_same_view_summary (wl : List Bytes) (t : Table) (label : Bytes)
    (sums : List (Option SumCell)) (rowNo : Nat) (w : List Bytes) :
    ∃ t', runOps t ([Op.row, Op.span 1 label []] ++ (sumColsOps wl 0 sums).2) = some t' ∧
      mkCell t.row.curRow 0 label [] ∈ t'.cells ∧
      (csvSumCols rowNo [label] w 0 sums).1.getD 0 [] = label ∧
      ∀ i s, sums[i]? = some (some s) →
        (s.hasSummary = true → mkCell t.row.curRow (textStartCol i) s.sumText [.right] ∈ t'.cells ∧
          (csvSumCols rowNo [label] w 0 sums).1.getD (csvStartCol i) [] = s.sumCsv) ∧
        (s.hasSummary = false → (csvSumCols rowNo [label] w 0 sums).1.getD (csvStartCol i) [] = []) ∧
        (csvSumCols rowNo [label] w 0 sums).1.getD (csvStartCol i + 1) [] = [] ∧
        (i > 0 →
          mkCell t.row.curRow (textStartCol i + 3) (ratioStr s) (ratioOpts s) ∈ t'.cells ∧
          (csvSumCols rowNo [label] w 0 sums).1.getD (csvStartCol i + 2) [] = ratioStr s ∧
          (csvSumCols rowNo [label] w 0 sums).1.getD (csvStartCol i + 3) [] = []) := by
  let t2 := (t.row).span 1 label []
  have hcur : t2.curCol ≤ textStartCol 0 := by simp [t2, Table.span, Table.row, textStartCol]
  obtain ⟨t', h1, h2, h3⟩ := sumCols_cells sums wl 0 t2 hcur
  have hlab : mkCell t.row.curRow 0 label [] ∈ t2.cells := by
    simp [t2, Table.span, Table.row, mkCell]
  have hcsv := csvSumCols_fields rowNo sums [label] w 0 (by simp [csvStartCol])
  refine ⟨t', ?_, ?_, ?_, ?_⟩
  · rw [show [Op.row, Op.span 1 label []] ++ (sumColsOps wl 0 sums).2
          = Op.row :: Op.span 1 label [] :: (sumColsOps wl 0 sums).2 from rfl,
      runOps_cons, Table.step, Option.bind_some, runOps_cons, Table.step, Option.bind_some]
    exact h1
  · rw [h2]; exact List.mem_append_left _ hlab
  · have := hcsv.1 0 (by simp)
    simpa using this
  · intro i s hi
    obtain ⟨wl', hmem⟩ := sumPlacedRow_mem t2.curRow sums wl 0 i s hi
    simp only [Nat.zero_add] at hmem
    have hin : ∀ x ∈ sumPlaced t2.curRow wl' i s, x ∈ t'.cells := by
      intro x hx; rw [h2]; exact List.mem_append_right _ (hmem x hx)
    have hrow : t2.curRow = t.row.curRow := rfl
    have hf := hcsv.2.2 i s hi
    simp only [Nat.zero_add] at hf
    have hgw : 2 ≤ csvGroupWidth i := by unfold csvGroupWidth; split <;> omega
    refine ⟨?_, ?_, ?_, ?_⟩
    · intro hs
      refine ⟨?_, ?_⟩
      · rw [← hrow]; apply hin; unfold sumPlaced; simp [hs]
      · have := hf 0 (by omega)
        rw [Nat.add_zero] at this
        rw [this]; unfold sumTail; by_cases h : i > 0 <;> simp [h, hs]
    · intro hs
      have := hf 0 (by omega)
      rw [Nat.add_zero] at this
      rw [this]; unfold sumTail; by_cases h : i > 0 <;> simp [h, hs]
    · rw [hf 1 (by omega)]; unfold sumTail
      by_cases h : i > 0
      · simp [h]
      · cases s.hasSummary <;> simp [h]
    · intro hpos
      have hgw4 : csvGroupWidth i = 4 := by
        unfold csvGroupWidth
        have : (i == 0) = false := by simp; omega
        simp [this]
      refine ⟨?_, ?_, ?_⟩
      · rw [← hrow]; apply hin; unfold sumPlaced; simp [hpos]
      · rw [hf 2 (by omega)]; unfold sumTail; simp [hpos]
      · rw [hf 3 (by omega)]; unfold sumTail; simp [hpos]

/-! ### warnings: footnotes of the text, second stream of the CSV -/

open Tab.Render in
/-- **footnote_numbering**: the warning list ToText ends with is the list of DISTINCT messages in
the order in which the row-major traversal first meets them (`foldl addNew []` over
`textWarnStream`: the warnings of every present cell — sample/summary warnings, then those of the
comparison — row by row, then those of the summary row iff it is printed); it has no duplicates and
contains exactly the messages of the stream; and the footnote lines are `<n> <message>` for
n = 1, 2, 3, … in that order (`footnoteLines_append`: appending the n-th message appends exactly
the line `superscript n ++ " " ++ message ++ "\n"`). -/
theorem footnote_numbering (v : View) :
    (toTextOps v).2 = (textWarnStream v).foldl addNew [] ∧
    ((toTextOps v).2).Nodup ∧
    (∀ m, m ∈ (toTextOps v).2 ↔ m ∈ textWarnStream v) ∧
    (∀ (wl : List Bytes) (m : Bytes), footnoteLines (wl ++ [m]) =
      footnoteLines wl ++ (superscript (wl.length + 1) ++ [0x20] ++ m ++ [0x0A])) := by
  have h := toTextOps_snd v
  refine ⟨h, ?_, ?_, footnoteLines_append⟩
  · rw [h]; exact nodup_foldl_addNew _ [] (by simp)
  · intro m; rw [h, mem_foldl_addNew]; simp

open Tab.Render in
/-- **warn_marks_are_numbers**: whenever ToText calls `warn(msgs)` with the list `wl`, the list
only grows at its end, and the superscripts written into the footnote cell (joined by blanks:
`warnCell`) are, message by message, the 1-based positions of the messages in ANY later state
`fin` of the list — in particular in the final list the footnote lines are printed from, because
every later call only appends (`dataColsOps`, `dataRowsOps`, `sumColsOps` all return
`foldl addNew` of their messages over the list they were given). -/
theorem warn_marks_are_numbers (wl msgs fin x : List Bytes) (hfin : fin = msgs.foldl addNew wl ++ x) :
    (∃ y, (warnCell wl msgs).1 = wl ++ y) ∧
    ∃ marks, (warnCell wl msgs).2 = Op.span 1 (joinSp marks) [] ∧ marks.length = msgs.length ∧
      ∀ k, k < msgs.length → ∃ i, findIdx fin (msgs.getD k []) = some i ∧ fin.getD i [] = msgs.getD k [] ∧
        marks.getD k [] = superscript (i + 1) := by
  have hw := warn_fold msgs wl []
  refine ⟨?_, ?_⟩
  · rw [warnCell_fst]; exact foldl_addNew_prefix msgs wl
  · obtain ⟨marks, h1, h2, h3⟩ := hw.2 fin x hfin
    refine ⟨marks, ?_, h2, ?_⟩
    · unfold warnCell; simp only; rw [h1]; simp
    · intro k hk
      obtain ⟨i, hi1, hi2⟩ := h3 k hk
      exact ⟨i, hi1, (findIdx_some_lt fin _ i hi1).2, hi2⟩

open Tab.Render in
/-- all (field index, CSV row number, message) triples of the warnings stream of a table -/
def csvWarnPairs (v : View) (startRow : Nat) : List (Nat × Nat × Bytes) :=
  rowsPairs (startRow + (v.nfields + 1)) v.rows ++
  sumsPairs (startRow + (v.nfields + 1 + v.rows.length)) 0 v.summary

open Tab.Render in
/-- **same_warnings**: the CSV warnings stream is one line `warnLine (field, row, message)` per
warning of every present cell — `field` is the record index of the cell the warning belongs to
(`csvStartCol exp` for the centre, `csvStartCol exp + 2` for the comparison, the very positions of
`text_csv_same_view`), `row` the CSV row of the measurement row — followed by those of the summary
row. Its messages are `rowsMsgs ++ sumsMsgs`, the same stream the text numbers its footnotes from.
Hence, as SETS of messages per table: with more than one row the footnotes of the text are exactly
the messages of the CSV stream; with one row (no geomean row in the text) they are exactly the
messages of the measurement rows, the CSV additionally carrying those of its geomean row. -/
theorem same_warnings (v : View) (startRow : Nat) :
    (toCsv v startRow).warn = (csvWarnPairs v startRow).map warnLine ∧
    (csvWarnPairs v startRow).map (·.2.2) = rowsMsgs v.rows ++ sumsMsgs v.summary ∧
    (v.rows.length > 1 → ∀ m, m ∈ (toTextOps v).2 ↔ m ∈ (csvWarnPairs v startRow).map (·.2.2)) ∧
    (¬ v.rows.length > 1 → ∀ m, m ∈ (toTextOps v).2 ↔
      m ∈ (rowsPairs (startRow + (v.nfields + 1)) v.rows).map (·.2.2)) := by
  have hm : (csvWarnPairs v startRow).map (·.2.2) = rowsMsgs v.rows ++ sumsMsgs v.summary := by
    unfold csvWarnPairs
    rw [List.map_append, rowsPairs_msgs, sumsPairs_msgs]
  have hf := (footnote_numbering v).2.2.1
  refine ⟨toCsv_warn v startRow, hm, ?_, ?_⟩
  · intro hr m
    rw [hf m, hm]; unfold textWarnStream; simp [hr]
  · intro hr m
    rw [hf m, rowsPairs_msgs]; unfold textWarnStream; simp [hr]

open Tab.Render in
/-- the spreadsheet-style column label as the code builds it from the 0-based field index:
digits `'A' + x % 26` of `x` in base 26, so fields 0..25 read A..Z, but field 26 reads "BA"
(a spreadsheet's 27th column is "AA"); beyond column Z this is outside C16's statement -/
theorem colName_behaviour :
    colName 0 = [65] ∧ colName 1 = [66] ∧ colName 25 = [90] ∧ colName 26 = [66, 65] ∧ colName 27 = [66, 66] := by
  decide

/-! ### keyheader_partition -/

open Tab.KeyHeader in
theorem newKeyHeader_eq_walk (keys : List (List Bytes)) (nf : Nat) :
    newKeyHeader keys nf = walk keys nf 0 0 keys.length := by
  unfold newKeyHeader
  split
  · rename_i h
    have : keys = [] := by simpa using h
    subst this
    cases nf <;> simp [walk, runs]
  · rfl

open Tab.KeyHeader in
/-- **keyheader_partition** (full strength): the forest `NewKeyHeader` returns is `Good`, i.e.
recursively for every node list below a parent covering `[start, start+len)` (the top list:
`[0, len(keys))`): the nodes are non-empty, contiguous, disjoint and cover exactly the parent's
range (`Tiles` — hence they refine the level above); each node's `Field` is its level, its
`Value` is the value of that field in EVERY key it covers; neighbouring siblings have different
values; and the tree is exactly `nfields` levels deep. -/
theorem keyheader_partition (keys : List (List Bytes)) (nf : Nat) :
    Good keys nf 0 0 keys.length (newKeyHeader keys nf) := by
  rw [newKeyHeader_eq_walk]
  exact walk_good keys nf 0 0 keys.length

open Tab.KeyHeader in
/-- consequence used by the table header: at EVERY level k < nfields the header cells, read left
to right as `ToText` walks them, tile `[0, len(keys))` — every column is under exactly one header
cell per level. -/
theorem keyheader_level_cover (keys : List (List Bytes)) (nf k : Nat) (hk : k < nf) :
    Tiles 0 keys.length (nodeSpans (level (newKeyHeader keys nf) k)) := by
  have hg := keyheader_partition keys nf
  obtain ⟨fuel, rfl⟩ : ∃ fuel, nf = (fuel + k) + 1 := ⟨nf - 1 - k, by omega⟩
  simp only [Good] at hg
  have := level_tiles keys k fuel 1 (newKeyHeader keys (fuel + k + 1)) 0 keys.length
    (by simpa using hg.1) (fun x hx => (hg.2.2 x hx).2.2)
  exact this

open Tab.KeyHeader in
/-- every non-empty level of the tree `NewKeyHeader` returns tiles the columns (and the levels
from `nfields` on are empty) -/
theorem newKeyHeader_levels_tile (keys : List (List Bytes)) (nf : Nat) :
    ∀ k, level (newKeyHeader keys nf) k ≠ [] → Tiles 0 keys.length (nodeSpans (level (newKeyHeader keys nf) k)) := by
  intro k hk
  by_cases hkn : k < nf
  · exact keyheader_level_cover keys nf k hkn
  · exfalso
    apply hk
    have hg := keyheader_partition keys nf
    cases nf with
    | zero =>
      simp only [Good] at hg
      rw [hg]; exact level_nil k
    | succ f =>
      simp only [Good] at hg
      have hd := level_depth keys f (newKeyHeader keys (f + 1)) (fun x hx => ⟨1, (hg.2.2 x hx).2.2⟩)
      obtain ⟨b, rfl⟩ : ∃ b, k = (f + 1) + b := ⟨k - (f + 1), by omega⟩
      rw [level_add, hd]; exact level_nil b

open Tab.KeyHeader Tab.Render in
/-- **header_cells_span_keys** (full strength): ToText's header loop over the KeyHeader of the
column keys, started on ANY texttab table `t`, never panics (no `Col` to an earlier column) and
adds exactly `hdrCells`: one row per tree level and on it, for every node of that level, one
centred cell with margin " │ " whose value is the node's value, whose first physical column is
`textStartCol node.Start` and whose span ends at `textStartCol (node.Start + node.Len)` — exactly
the physical columns of the logical columns (keys) the node covers — followed by the right-edge
cell. With `keyheader_partition` (the node's value is the common field value of the keys it
covers) and `keyheader_level_cover` (the nodes of a level tile all columns) this is: each header
cell spans exactly the columns of the keys it labels, every column is under exactly one header
cell per level. -/
theorem header_cells_span_keys (keys : List (List Bytes)) (nf : Nat) (t : Table) :
    ∃ t', runOps t (headerOps (textStartCol (keys.length + 1)) (nf + 1) (newKeyHeader keys nf)) = some t' ∧
      t'.cells = t.cells ++
        hdrCells (textStartCol (keys.length + 1)) (nf + 1) t.row.curRow (newKeyHeader keys nf) := by
  obtain ⟨t', h1, h2, _, _⟩ := header_run _ keys.length (textStartCol_mono (Nat.le_succ _)) (nf + 1)
    (newKeyHeader keys nf) t (newKeyHeader_levels_tile keys nf)
  exact ⟨t', h1, h2⟩

open Tab.KeyHeader Tab.Render in
/-- **toText_never_panics** (completes panic-freedom): for EVERY cells view — any column keys,
any rows with cells present or absent in any pattern, any summaries, any warnings — the whole call
sequence of ToText (header loop, unit row, every measurement row, summary row) runs on a fresh
texttab table without ever moving to an earlier column, and the cells it adds are exactly
`textCells v`: the header cells of every level (`hdrCells`), the unit cells over the centre
columns and "vs base" over the delta columns of every non-baseline group (`unitCells`), the right
edges, the label and the placed strings of every measurement row (`rowsPlaced`), and, iff there
is more than one row, the summary row (`sumPlacedRow`). -/
theorem toText_never_panics (v : View) :
    ∃ t, build (toTextOps v).1 = some t ∧ t.cells = textCells v := by
  have hre : textStartCol v.ncols ≤ textStartCol (v.ncols + 1) := textStartCol_mono (Nat.le_succ _)
  obtain ⟨t1, a1, a2, a3, _⟩ := header_run (textStartCol (v.ncols + 1)) v.ncols hre (v.nfields + 1)
    (newKeyHeader v.colKeys v.nfields) {} (newKeyHeader_levels_tile v.colKeys v.nfields)
  have h0 : (({} : Table).row).curRow = 0 := rfl
  rw [h0] at a2 a3
  obtain ⟨t2, b1, b2, b3, _, _⟩ := unit_row_run (textStartCol (v.ncols + 1)) v.ncols hre v.unit t1
  have hne2 : t2.cells ≠ [] := by rw [b2]; simp
  obtain ⟨t3, c1, c2, c3, c4⟩ := data_rows_run v.rows [] t2 hne2
  have hbuild : ∀ ops, build ops = runOps {} ops := fun _ => rfl
  rw [hbuild, toTextOps_fst, runOps_append, runOps_append, runOps_append, a1, Option.bind_some, b1,
    Option.bind_some, c1, Option.bind_some]
  have hcells3 : t3.cells = hdrCells (textStartCol (v.ncols + 1)) (v.nfields + 1) 0 (newKeyHeader v.colKeys v.nfields) ++
      (unitCells (levelCount (v.nfields + 1) (newKeyHeader v.colKeys v.nfields)) v.unit v.ncols ++
        [edgeCell (levelCount (v.nfields + 1) (newKeyHeader v.colKeys v.nfields)) (textStartCol (v.ncols + 1))]) ++
      rowsPlaced (levelCount (v.nfields + 1) (newKeyHeader v.colKeys v.nfields) + 1) [] v.rows := by
    rw [c2, b2, a2, b3, a3]; simp
  by_cases hr : v.rows.length > 1
  · simp only [hr, if_true]
    obtain ⟨t4, d1, d2⟩ := sum_row_run (dataRowsOps [] v.rows).1 v.summaryLabel v.summary t3
    refine ⟨t4, d1, ?_⟩
    have hrow : t3.row.curRow = levelCount (v.nfields + 1) (newKeyHeader v.colKeys v.nfields) + 1 + v.rows.length := by
      rw [row_curRow_succ t3 c4, c3, b3, a3]; omega
    rw [d2, hrow, hcells3]
    simp [textCells, hr]
  · simp only [hr, if_false]
    refine ⟨t3, rfl, ?_⟩
    rw [hcells3]
    simp [textCells, hr]

/-- non-trivial instance: the example of the doc comment of keyheader.go -/
example : (Tab.KeyHeader.level (Tab.KeyHeader.newKeyHeader
    [[[49], [49], [49]], [[49], [49], [50]], [[50], [50], [50]], [[50], [51], [51]]] 3) 1).map
      (fun x => (x.value, x.start, x.len)) = [([49], 0, 2), ([50], 2, 1), ([51], 3, 1)] := by decide

/-! ### both renderings decode to the same view -/

open Tab.Render Tab.KeyHeader in
/-- **decode_same_view** (a single statement for the measurement rows): let `t` be the texttab
table ToText builds for the view (it exists: `toText_never_panics`) and `recs` the records ToCSV
emits. Decode both by POSITION only — text: the value of the cell found at row
`R + 1 + ri` (`R` header rows, then the unit row) and column `textStartCol exp + 0/1/3/4`
(empty if no cell is there; parentheses stripped from the p-value); CSV: field
`csvStartCol exp + 0/1/2/3` of record `nf + 1 + ri`. Then for every measurement row `ri` and
EVERY logical column `exp` (cell present, absent, without comparison, or beyond the row's cells)
both decodings give the entry of the view at (ri, exp): the same label, range, delta and p-value
strings, and as centre the text's resp. the CSV's spelling of the same number. Hence
`decodeText = decodeCsv` up to the centre spelling. (Summary row: `text_csv_same_view_summary`;
the two presentation differences: the summary row is in the text only for tables with more than
one row, and warnings are footnotes in the text / a second stream in the CSV: `same_warnings`.) -/
theorem decode_same_view (v : View) (startRow : Nat) :
    ∃ t, build (toTextOps v).1 = some t ∧
      ∀ ri row, v.rows[ri]? = some row →
        let R := levelCount (v.nfields + 1) (newKeyHeader v.colKeys v.nfields)
        let recs := (toCsv v startRow).recs
        decodeTextLabel t.cells R ri = row.1 ∧ decodeCsvLabel recs v.nfields ri = row.1 ∧
        ∀ exp,
          decodeText t.cells R ri exp = viewEntry true (row.2.getD exp none) exp ∧
          decodeCsv recs v.nfields ri exp = viewEntry false (row.2.getD exp none) exp ∧
          (decodeText t.cells R ri exp).range = (decodeCsv recs v.nfields ri exp).range ∧
          (decodeText t.cells R ri exp).delta = (decodeCsv recs v.nfields ri exp).delta ∧
          (decodeText t.cells R ri exp).p = (decodeCsv recs v.nfields ri exp).p := by
  obtain ⟨t, ht, hcells⟩ := toText_never_panics v
  refine ⟨t, ht, ?_⟩
  intro ri row hrow
  simp only
  rw [hcells]
  -- the CSV record of the row
  have hlt : ri < v.rows.length := by
    rcases Nat.lt_or_ge ri v.rows.length with h | h
    · exact h
    · rw [List.getElem?_eq_none h] at hrow; cases hrow
  have hrec : (toCsv v startRow).recs.getD (v.nfields + 1 + ri) [] = csvRowRec row := by
    rw [toCsv_recs]
    have hl : ((List.range v.nfields).map (csvHeaderRow v.colKeys) ++ [csvUnitRow v.ncols v.unit]).length = v.nfields + 1 := by simp
    rw [List.append_assoc, List.getD_eq_getElem?_getD, List.getElem?_append_right (by omega), hl,
      show v.nfields + 1 + ri - (v.nfields + 1) = ri by omega,
      List.getElem?_append_left (by simpa using hlt), List.getElem?_map, hrow]
    rfl
  have hslots := csvDataCols_slots 0 row.2 [row.1] [] 0 (by simp [csvStartCol])
  have hcsv : ∀ exp j, j < csvGroupWidth exp →
      (csvRowRec row).getD (csvStartCol exp + j) [] = csvSlot (row.2.getD exp none) exp j := by
    intro exp j hj
    unfold csvRowRec
    by_cases he : exp < row.2.length
    · have := hslots.2.2 exp he j (by simpa using hj)
      simpa using this
    · have hnone : row.2.getD exp none = none := by
        simp [List.getD_eq_getElem?_getD, List.getElem?_eq_none (Nat.le_of_not_lt he)]
      rw [hnone]
      have h1 : 1 ≤ csvStartCol exp := by unfold csvStartCol; split <;> omega
      have := hslots.2.1 (csvStartCol exp + j) (by simp; omega)
        (Or.inr (by
          have := @csvStartCol_mono (0 + row.2.length) exp (by omega)
          omega))
      simpa [csvSlot] using this
  have hlabc : decodeCsvLabel (toCsv v startRow).recs v.nfields ri = row.1 := by
    unfold decodeCsvLabel
    rw [hrec]
    have := hslots.1 0 (by simp)
    simpa [csvRowRec] using this
  refine ⟨textVal_label v ri row hrow, hlabc, ?_⟩
  intro exp
  have ht0 := textVal_slot v ri row hrow exp 0 (Or.inl rfl) (by unfold textGroupWidth; split <;> omega)
  have ht1 := textVal_slot v ri row hrow exp 1 (Or.inr (Or.inl rfl)) (by unfold textGroupWidth; split <;> omega)
  have hte := textSlot_entry (row.2.getD exp none) exp
  have hce := csvSlot_entry (row.2.getD exp none) exp
  have hgc : 2 ≤ csvGroupWidth exp := by unfold csvGroupWidth; split <;> omega
  have hc0 := hcsv exp 0 (by omega)
  have hc1 := hcsv exp 1 (by omega)
  have htext : decodeText (textCells v) (levelCount (v.nfields + 1) (newKeyHeader v.colKeys v.nfields)) ri exp
      = viewEntry true (row.2.getD exp none) exp := by
    unfold decodeText
    simp only [Nat.add_zero] at ht0
    rw [ht0, ht1, hte.1, hte.2.1]
    by_cases he : exp > 0
    · have hg6 : textGroupWidth exp = 6 := by
        unfold textGroupWidth
        have : (exp == 0) = false := by simp; omega
        simp [this]
      have ht3 := textVal_slot v ri row hrow exp 3 (Or.inr (Or.inr (Or.inl rfl))) (by omega)
      have ht4 := textVal_slot v ri row hrow exp 4 (Or.inr (Or.inr (Or.inr rfl))) (by omega)
      simp only [he, if_true]
      rw [ht3, ht4, (hte.2.2 he).1, (hte.2.2 he).2]
    · have h0 : exp = 0 := by omega
      subst h0
      simp only [Nat.lt_irrefl, if_false]
      unfold viewEntry
      cases row.2.getD 0 none <;> simp
  have hcsvE : decodeCsv (toCsv v startRow).recs v.nfields ri exp = viewEntry false (row.2.getD exp none) exp := by
    unfold decodeCsv
    simp only
    rw [hrec]
    simp only [Nat.add_zero] at hc0
    rw [hc0, hc1, hce.1, hce.2.1]
    by_cases he : exp > 0
    · have hg4 : csvGroupWidth exp = 4 := by
        unfold csvGroupWidth
        have : (exp == 0) = false := by simp; omega
        simp [this]
      simp only [he, if_true]
      rw [hcsv exp 2 (by omega), hcsv exp 3 (by omega), (hce.2.2 he).1, (hce.2.2 he).2]
    · have h0 : exp = 0 := by omega
      subst h0
      simp only [Nat.lt_irrefl, if_false]
      unfold viewEntry
      cases row.2.getD 0 none <;> simp
  refine ⟨htext, hcsvE, ?_, ?_, ?_⟩ <;>
    (rw [htext, hcsvE]; unfold viewEntry; cases row.2.getD exp none with
      | none => rfl
      | some c => simp only; cases (if exp > 0 then c.delta else none) <;> rfl)

open Tab.Render in
/-- **unit_row** : ToText's column-labels row, run on any texttab table: never panics; for every
logical column one centred cell with the unit over the three centre columns of its group
(`unitCell`: columns `textStartCol i .. +2`, margin " │ "), for every non-baseline column "vs base"
left-aligned over the three delta columns (`vsCell`: `textStartCol i + 3 .. +5`, margin two
blanks), then the right edge; and the shrink marks afterwards are set on exactly the columns of a
group other than its leftmost (`InGroupTail`), every other column keeps its mark. -/
theorem unit_row (rEdge ncols : Nat) (hre : textStartCol ncols ≤ rEdge) (unit : Bytes) (t : Table) :
    ∃ t', runOps t (unitRowOps rEdge ncols unit) = some t' ∧
      t'.cells = t.cells ++ unitCells t.row.curRow unit ncols ++ [edgeCell t.row.curRow rEdge] ∧
      t'.curRow = t.row.curRow ∧
      (∀ j, InGroupTail ncols j → t'.isShrink j = true) ∧
      (∀ j, ¬ InGroupTail ncols j → t'.isShrink j = t.isShrink j) :=
  unit_row_run rEdge ncols hre unit t

end C16
