/-
C16 — text tables are laid out without loss and agree with the CSV rendering.
Property theorems only; helper lemmas live in Proofs/Lemmas/C16*.lean.
-/
import Proofs.Lemmas.C16Fit

namespace C16
open Tab.TextTab

/-! ### widths_fit -/

/-- **widths_fit** (full strength, current code incl. b5d6dcd): after the width pass EVERY cell
of the table has room for its column's margin plus its whole value,
`Σ ws[col..col+span) ≥ lmargin[col] + runes(value)` — for every order in which the unstable sort
may have left the cells (`ordered` is arbitrary, not even sortedness by span is needed) and every
order `sortCols` in which the columns under a spanning cell are taken (any permutation). -/
theorem widths_fit (sortCols : List Int → List Nat → List Nat)
    (hperm : ∀ ws l, (sortCols ws l).Perm l)
    (t : Table) (ordered : List Cell) (c : Cell) (hc : c ∈ ordered)
    (hspan : 1 ≤ c.span) (hcols : c.col + c.span ≤ t.cols) :
    (runeCount c.value : Int) + ((layoutOf true sortCols t ordered).lm.getD c.col 0 : Nat)
      ≤ sumRange (layoutOf true sortCols t ordered).ws c.col c.span := by
  have := foldl_cellStep_fits t.isShrink sortCols hperm (lmargins t.cols t.cells) ordered
    (List.replicate t.cols 0) c hc hspan (by simpa using hcols)
  exact this

/-- the margin term of `widths_fit` covers the cell's own margin -/
theorem widths_fit_margin (grow : Bool) (sortCols : List Int → List Nat → List Nat)
    (t : Table) (ordered : List Cell) (c : Cell) (hc : c ∈ t.cells) (hcol : c.col < t.cols) :
    runeCount c.margin ≤ (layoutOf grow sortCols t ordered).lm.getD c.col 0 := by
  exact lmargins_ge t.cells (List.replicate t.cols 0) c hc (by simpa using hcol)

/-- the column order Go's `sort.Slice` produces on short slices is a permutation -/
theorem insertCol_perm (ws : List Int) (c : Nat) : ∀ l, (insertCol ws c l).Perm (c :: l) := by
  intro l
  induction l with
  | nil => exact List.Perm.refl _
  | cons d ds ih =>
    unfold insertCol
    split
    · exact List.Perm.refl _
    · exact (List.Perm.cons d ih).trans (List.Perm.swap c d ds)

theorem insertSortCols_perm (ws : List Int) (l : List Nat) : (insertSortCols ws l).Perm l := by
  unfold insertSortCols
  have : ∀ (l acc : List Nat), (l.foldl (fun acc c => insertCol ws c acc) acc).Perm (l ++ acc) := by
    intro l
    induction l with
    | nil => intro acc; exact List.Perm.refl _
    | cons c rest ih =>
      intro acc
      simp only [List.foldl_cons, List.cons_append]
      refine (ih _).trans ?_
      refine (List.Perm.append_left rest (insertCol_perm ws c acc)).trans ?_
      exact List.perm_middle
  simpa using this l []

/-- `widths_fit` for `Table.Format` as it is run (`format` uses `insertSortCols`). -/
theorem widths_fit_format (t : Table) (ordered : List Cell) (c : Cell) (hc : c ∈ ordered)
    (hspan : 1 ≤ c.span) (hcols : c.col + c.span ≤ t.cols) :
    Fits (layoutOf true insertSortCols t ordered).lm (layoutOf true insertSortCols t ordered).ws c :=
  widths_fit insertSortCols insertSortCols_perm t ordered c hc hspan hcols

/-- the F14 witness: `x | vs base (2 cols) | y` over `1 | | | 2` with columns 1 and 2 shrink -/
def f14Table : Table :=
  ((build [.row, .span 1 [120] [], .span 2 [118, 115, 32, 98, 97, 115, 101] [], .span 1 [121] [],
           .row, .span 1 [49] [], .col 3, .span 1 [50] [],
           .setShrink 1 true, .setShrink 2 true]).getD {})

/-- **widths_fit fails on the pre-b5d6dcd width pass** (`grow = false`): the cell that spans
only shrink columns gets no room (needs 8, gets 0). -/
theorem widths_fit_prefix_counterexample :
    ∃ c ∈ f14Table.cells, 1 ≤ c.span ∧ c.col + c.span ≤ f14Table.cols ∧
      ¬ Fits (layoutOf false insertSortCols f14Table f14Table.cells).lm
             (layoutOf false insertSortCols f14Table f14Table.cells).ws c := by
  refine ⟨{ row := 0, col := 1, span := 2, value := [118, 115, 32, 98, 97, 115, 101], margin := [0x20], align := .left }, ?_, ?_, ?_, ?_⟩
  · decide
  · decide
  · decide
  · decide

/-- … and the same table is fine under the current code (non-trivial instance of `widths_fit`). -/
example : ∀ c ∈ f14Table.cells,
    Fits (layoutOf true insertSortCols f14Table f14Table.cells).lm
         (layoutOf true insertSortCols f14Table f14Table.cells).ws c := by decide

end C16
