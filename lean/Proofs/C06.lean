import Model.Proc.FilterEval
import Model.Spec.FilterSem

namespace C06
open Proc.FilterEval

theorem match_pure (f : FilterFn) (res : Res) : (filterMatch f res).n = res.values.length := rfl

end C06
