/-
C06 — filters keep exactly the measurements their boolean meaning denotes. Property theorems only.
Helpers: Proofs/Lemmas/C06Bits, C06Mask, C06Eval, C06Walk, C06Match, C06Proj (evaluator);
C06Heap (aliasing); C06Tok, C06Surface, C06Parse, C06ParseInd, C06WF (text level, on top of the
C07 parser model and lemmas, which are imported read-only).

Vocabulary: `walk re e = .ok f` — NewFilter accepted the tree `e` and compiled it to the
closure `f` (`re` is the regexp oracle); `filterMatch f res` — `Filter.Match`;
`filterApply f res` — `Filter.Apply`; `denote re res i e` — ⟦e⟧ res i (Model/Spec/FilterSem);
`filterOfText cx text` — `parse.ParseFilter(text)` through the C07 parser model;
`newFilterText cx re text` — `benchproc.NewFilter(text)` end to end.
All statements hold for every tree / every text of the stated form, every result and every
measurement count (any number of mask words).

Sections: tree level (eval_test … fixed_projection_*), aliasing (heap model), text level
(eval_test_text, text_semantics and its instances value_list_sugar_text, juxtaposition_is_and,
or_is_or, minus_is_not, star_is_true; text_accepted_converts, newFilter_models_agree), regular-expression
values with the matcher as a parameter (text_semantics_rx, regex_term_text) and the parameter-free
anchored-literal sub-language (rxLit_spec, text_semantics_litre, anchored_literal_text).
-/
import Proofs.Lemmas.C06Walk
import Proofs.Lemmas.C06Match
import Proofs.Lemmas.C06Proj
import Proofs.Lemmas.C06ParseInd
import Proofs.Lemmas.C06Heap
import Proofs.Lemmas.C06WF
import Proofs.Lemmas.C06LitRe
import Proofs.Lemmas.C06Rx

namespace C06
open Proc.FilterEval Spec.FilterSem Proc.Extract Proc.Tok Proc.FilterText Proc.FilterHeap C07

theorem matchWF_of (f : FilterFn) (res : Res) (h : OutWF res.values.length (f res)) :
    MatchWF (filterMatch f res) := h

/-- the spec's auxiliary recursions are the ordinary quantifiers over the operand list:
⟦AND es⟧ = ∀ e ∈ es, ⟦e⟧ ; ⟦OR es⟧ = ∃ e ∈ es, ⟦e⟧ (so `*` is true and `-*` false). -/
theorem denote_and_or (re : ReOracle) (res : Res) (i : Nat) (es : List Filter) :
    denote re res i (.and es) = es.all (denote re res i ·) ∧
    denote re res i (.or es) = es.any (denote re res i ·) := by
  simp only [denote]
  induction es with
  | nil => simp [denoteAll, denoteAny]
  | cons e es ih => simp [denoteAll, denoteAny, ih.1, ih.2]

/-- **eval_test**: measurement `i` is matched iff the expression is true at `i`. -/
theorem eval_test (re : ReOracle) (e : Filter) (f : FilterFn) (res : Res) (i : Nat)
    (h : walk re e = .ok f) (hi : i < res.values.length) :
    (filterMatch f res).test i = denote re res i e :=
  (walk_sound re res e f h).2 i hi

/-- `Test` outside `0 ≤ i < n` is false (also for negative arguments). -/
theorem test_out_of_range (f : FilterFn) (res : Res) (i : Int)
    (hi : i < 0 ∨ (res.values.length : Int) ≤ i) : (filterMatch f res).testInt i = false := by
  unfold Match.testInt
  split
  · rfl
  · rename_i hneg
    have h2 : (res.values.length : Int) ≤ i := by omega
    have : i.toNat ≥ (filterMatch f res).n := by simp [filterMatch]; omega
    simp [Match.test, this]

/-- **all_iff** (at least one measurement): `All()` iff the expression holds at every measurement. -/
theorem all_iff (re : ReOracle) (e : Filter) (f : FilterFn) (res : Res)
    (h : walk re e = .ok f) (hn : 0 < res.values.length) :
    (filterMatch f res).all = true ↔ ∀ i, i < res.values.length → denote re res i e = true := by
  obtain ⟨w, t⟩ := walk_sound re res e f h
  rw [all_spec _ (matchWF_of f res w) hn]
  constructor
  · intro hh i hi; rw [← t i hi]; exact hh i hi
  · intro hh i hi; have := hh i hi; rw [← t i hi] at this; exact this

/-- **any_iff** (at least one measurement): `Any()` iff the expression holds at some measurement. -/
theorem any_iff (re : ReOracle) (e : Filter) (f : FilterFn) (res : Res)
    (h : walk re e = .ok f) (hn : 0 < res.values.length) :
    (filterMatch f res).any = true ↔ ∃ i, i < res.values.length ∧ denote re res i e = true := by
  obtain ⟨w, t⟩ := walk_sound re res e f h
  rw [any_spec _ (matchWF_of f res w) hn]
  constructor
  · rintro ⟨i, hi, hh⟩; exact ⟨i, hi, by rw [← t i hi]; exact hh⟩
  · rintro ⟨i, hi, hh⟩; refine ⟨i, hi, ?_⟩; have := t i hi; simp only [outTest] at this; rw [← hh]; exact this

/-- boundary, no measurements: `All`/`Any` show the whole-result boolean for a nil mask; a
non-nil (empty) mask gives `All = true`, `Any = false`. Recorded as a boundary note. -/
theorem all_any_zero (re : ReOracle) (e : Filter) (f : FilterFn) (res : Res)
    (h : walk re e = .ok f) (hn : res.values.length = 0) :
    (filterMatch f res).all = (match (f res).1 with | none => (f res).2 | some _ => true) ∧
    (filterMatch f res).any = (match (f res).1 with | none => (f res).2 | some _ => false) := by
  obtain ⟨w, _⟩ := walk_sound re res e f h
  exact ⟨all_zero _ (matchWF_of f res w) hn, any_zero _ (matchWF_of f res w) hn⟩

/-- Apply for any compiled closure that denotes a predicate `P`. -/
theorem apply_of_denotes (f : FilterFn) (res : Res) (P : Nat → Bool)
    (w : OutWF res.values.length (f res))
    (t : ∀ i, i < res.values.length → outTest res.values.length (f res) i = P i) :
    (filterApply f res).1.values = keepIdx P res.values ∧
    (filterApply f res).1.name = res.name ∧ (filterApply f res).1.config = res.config ∧
    (0 < res.values.length → (filterApply f res).2 = !(keepIdx P res.values).isEmpty) ∧
    (0 < res.values.length → (filterApply f res).2 = (filterMatch f res).any) := by
  have hv : ((filterMatch f res).apply res.values).1 = keepIdx P res.values := by
    rw [apply_values _ (matchWF_of f res w) res.values rfl, keepIdx_eq, keepIdx_eq]
    exact keepFrom_congr _ _ _ _ (fun i _ hi => t i (by omega))
  refine ⟨hv, rfl, rfl, fun hn => ?_, fun hn => ?_⟩
  · have := apply_flag _ (matchWF_of f res w) res.values rfl hn
    simp only [filterApply]; rw [this, hv]
  · exact apply_flag_any _ (matchWF_of f res w) res.values rfl hn

/-- **apply_spec**: `Filter.Apply` keeps precisely the measurements at which the expression
holds, in their original order, leaves name and configuration alone, and (for at least one
measurement) returns whether any measurement remains (= `Any()`). -/
theorem apply_spec (re : ReOracle) (e : Filter) (f : FilterFn) (res : Res) (h : walk re e = .ok f) :
    (filterApply f res).1.values = kept re e res ∧
    (filterApply f res).1.name = res.name ∧ (filterApply f res).1.config = res.config ∧
    (0 < res.values.length → (filterApply f res).2 = !(kept re e res).isEmpty) ∧
    (0 < res.values.length → (filterApply f res).2 = (filterMatch f res).any) := by
  obtain ⟨w, t⟩ := walk_sound re res e f h
  exact apply_of_denotes f res (fun i => denote re res i e) w t

/-- **apply_zero** (boundary): with no measurements nothing is kept and the flag is `All()`,
which is `true` whenever the mask is non-nil (e.g. any expression whose first decisive operand is
a `.unit` term) — "none remain" is then reported as `true`. -/
theorem apply_zero (f : FilterFn) (res : Res) (hn : res.values.length = 0) :
    (filterApply f res).1.values = [] ∧ (filterApply f res).2 = (filterMatch f res).all := by
  have := apply_zero' (filterMatch f res) res.values rfl hn
  simp [filterApply, this]

/-! ### Apply twice -/

mutual
/-- ⟦e⟧ at a measurement depends only on the name, the configuration and that measurement -/
theorem denote_local (re : ReOracle) (res res' : Res) (i j : Nat)
    (hn : res.name = res'.name) (hc : res.config = res'.config) (hv : res.values[i]? = res'.values[j]?) :
    ∀ e, denote re res i e = denote re res' j e
  | .and es => by simp only [denote]; exact denoteAll_local re res res' i j hn hc hv es
  | .or es => by simp only [denote]; exact denoteAny_local re res res' i j hn hc hv es
  | .not e => by simp only [denote]; rw [denote_local re res res' i j hn hc hv e]
  | .mtch key off mt => by
    simp only [denote, termHolds, keyValue, Res.view, hn, hc, hv]
theorem denoteAll_local (re : ReOracle) (res res' : Res) (i j : Nat)
    (hn : res.name = res'.name) (hc : res.config = res'.config) (hv : res.values[i]? = res'.values[j]?) :
    ∀ es, denoteAll re res i es = denoteAll re res' j es
  | [] => by simp [denoteAll]
  | e :: es => by
    simp only [denoteAll]
    rw [denote_local re res res' i j hn hc hv e, denoteAll_local re res res' i j hn hc hv es]
theorem denoteAny_local (re : ReOracle) (res res' : Res) (i j : Nat)
    (hn : res.name = res'.name) (hc : res.config = res'.config) (hv : res.values[i]? = res'.values[j]?) :
    ∀ es, denoteAny re res i es = denoteAny re res' j es
  | [] => by simp [denoteAny]
  | e :: es => by
    simp only [denoteAny]
    rw [denote_local re res res' i j hn hc hv e, denoteAny_local re res res' i j hn hc hv es]
end

/-- every kept element sits at a position where the predicate holds -/
theorem keepFrom_get (p : Nat → Bool) : ∀ (vs : List Value) (k j : Nat) (v : Value),
    (keepFrom p vs k)[j]? = some v → ∃ i, k ≤ i ∧ vs[i - k]? = some v ∧ p i = true
  | [], k, j, v, h => by simp [keepFrom] at h
  | a :: vs, k, j, v, h => by
    rw [keepFrom_cons] at h
    by_cases hp : p k = true
    · simp only [hp, if_true] at h
      cases j with
      | zero =>
        simp at h; subst h
        exact ⟨k, Nat.le_refl _, by simp, hp⟩
      | succ j =>
        simp only [List.getElem?_cons_succ] at h
        obtain ⟨i, h1, h2, h3⟩ := keepFrom_get p vs (k + 1) j v h
        refine ⟨i, by omega, ?_, h3⟩
        have e : i - k = (i - (k + 1)) + 1 := by omega
        rw [e]; simpa using h2
    · simp only [hp] at h
      obtain ⟨i, h1, h2, h3⟩ := keepFrom_get p vs (k + 1) j v h
      refine ⟨i, by omega, ?_, h3⟩
      have e : i - k = (i - (k + 1)) + 1 := by omega
      rw [e]; simpa using h2

/-- **apply_idempotent**: filtering an already filtered result with the same filter keeps every
remaining measurement (`Filter.Apply` twice = once, for the values). -/
theorem apply_idempotent (re : ReOracle) (e : Filter) (f : FilterFn) (res : Res) (h : walk re e = .ok f) :
    (filterApply f (filterApply f res).1).1.values = (filterApply f res).1.values := by
  obtain ⟨hv1, hn1, hc1, _, _⟩ := apply_spec re e f res h
  obtain ⟨hv2, _, _, _, _⟩ := apply_spec re e f (filterApply f res).1 h
  rw [hv2]
  unfold kept
  rw [keepIdx_eq]
  apply keepFrom_all
  intro j _ hj
  have hj' : j < (filterApply f res).1.values.length := by omega
  obtain ⟨v, hv⟩ : ∃ v, (filterApply f res).1.values[j]? = some v := ⟨_, List.getElem?_eq_getElem hj'⟩
  have hk : (keepFrom (fun i => denote re res i e) res.values 0)[j]? = some v := by
    have : (kept re e res)[j]? = some v := by rw [← hv1]; exact hv
    exact this
  obtain ⟨i, _, hi2, hi3⟩ := keepFrom_get _ res.values 0 j v hk
  rw [← denote_local re res (filterApply f res).1 i j hn1.symm hc1.symm (by rw [hv]; simpa using hi2)]
  exact hi3

/-! ### match_pure -/

/-- a result that differs only in the numbers of its measurements -/
def mapPayload (g : Nat → Nat) (res : Res) : Res :=
  { res with values := res.values.map fun v => { v with payload := g v.payload } }

mutual
theorem denote_mapPayload (re : ReOracle) (g : Nat → Nat) (res : Res) (i : Nat) :
    ∀ e, denote re (mapPayload g res) i e = denote re res i e
  | .and es => by simp only [denote]; exact denoteAll_mapPayload re g res i es
  | .or es => by simp only [denote]; exact denoteAny_mapPayload re g res i es
  | .not e => by simp only [denote]; rw [denote_mapPayload re g res i e]
  | .mtch key off mt => by
    simp only [denote, termHolds, mapPayload, keyValue, Res.view, List.getElem?_map]
    cases res.values[i]? <;> simp
theorem denoteAll_mapPayload (re : ReOracle) (g : Nat → Nat) (res : Res) (i : Nat) :
    ∀ es, denoteAll re (mapPayload g res) i es = denoteAll re res i es
  | [] => by simp [denoteAll]
  | e :: es => by simp only [denoteAll]; rw [denote_mapPayload re g res i e, denoteAll_mapPayload re g res i es]
theorem denoteAny_mapPayload (re : ReOracle) (g : Nat → Nat) (res : Res) (i : Nat) :
    ∀ es, denoteAny re (mapPayload g res) i es = denoteAny re res i es
  | [] => by simp [denoteAny]
  | e :: es => by simp only [denoteAny]; rw [denote_mapPayload re g res i e, denoteAny_mapPayload re g res i es]
end

/-- **match_pure**: `Filter.Match` is a function of the name, the configuration and the units
only — it yields a `Match` and no new result (in the model `filterMatch` does not return a `Res`;
only `filterApply` does), and its answers do not depend on the measured numbers. -/
theorem match_pure (re : ReOracle) (e : Filter) (f : FilterFn) (res : Res) (g : Nat → Nat) (i : Nat)
    (h : walk re e = .ok f) :
    (filterMatch f (mapPayload g res)).test i = (filterMatch f res).test i := by
  have hl : (mapPayload g res).values.length = res.values.length := by simp [mapPayload]
  by_cases hi : i < res.values.length
  · rw [eval_test re e f _ i h (by rw [hl]; exact hi), eval_test re e f res i h hi, denote_mapPayload]
  · have h1 : i ≥ (filterMatch f res).n := by simp [filterMatch]; omega
    have h2 : i ≥ (filterMatch f (mapPayload g res)).n := by simp [filterMatch, hl]; omega
    simp [Match.test, h1, h2]

/-! ### value lists -/

/-- **value_list_sugar** (tree level): the tree the parser builds for `k:(a OR b …)` holds iff the
key's value is one of the listed words. -/
theorem value_list_sugar (re : ReOracle) (res : Res) (i : Nat) (key : Bytes) (off : Nat) (vs : List Bytes)
    (hk : key ≠ dotUnit) :
    denote re res i (.or (vs.map fun v => .mtch key off (.lit v))) = decide (keyValue key res ∈ vs) := by
  simp only [denote]
  induction vs with
  | nil => simp [denoteAny]
  | cons v vs ih =>
    simp only [List.map_cons, denoteAny, ih, denote, termHolds, hk, if_false, valueHolds]
    simp [List.mem_cons]

/-! ### fixed-order projections -/

/-- **fixed_projection_filter**: after `Parse` calls that carry fixed value lists, measurement `i`
of a result is matched iff every such field's *projected* value (for `.fullname`: the name with the
individually projected keys removed, commit 55c413e) is in its list and the caller's expression
holds at `i`. -/
theorem fixed_projection_filter (re : ReOracle) (e : Filter) (f : FilterFn) (excl : List Bytes)
    (projs : List (List ProjField)) (res : Res) (i : Nat)
    (h : walk re e = .ok f) (hi : i < res.values.length) :
    (filterMatch (parseAll excl projs f) res).test i =
      (projs.flatten.all (inFixed excl · res) && denote re res i e) := by
  obtain ⟨w, t⟩ := walk_sound re res e f h
  obtain ⟨_, t2⟩ := parseAll_spec excl projs f res res.values.length w
  have := t2 i hi
  simp only [outTest] at this t
  rw [← t i hi]; exact this

/-- **rejected_parse_leaves_filter**: a `Parse` call that rejects one of its fields — also one
that comes AFTER a field with a fixed value list in the same expression — returns the error and
leaves the caller's filter exactly as it was. -/
theorem rejected_parse_leaves_filter (excl : List Bytes) (fields : List ProjField) (user : FilterFn) (err : ProjErr)
    (h : checkFields fields = .error err) : parseCall excl fields user = (user, some err) :=
  parseCall_rejected excl fields user err h

/-- **fixed_projection_history**: after any history of `Parse` calls on one filter, accepted and
rejected ones in any interleaving, measurement `i` is matched iff every fixed field of the
ACCEPTED expressions has its projected value in its list and the caller's expression holds at `i`;
rejected expressions contribute nothing. -/
theorem fixed_projection_history (re : ReOracle) (e : Filter) (f : FilterFn) (excl : List Bytes)
    (projs : List (List ProjField)) (res : Res) (i : Nat)
    (h : walk re e = .ok f) (hi : i < res.values.length) :
    (filterMatch (parseHistory excl projs f) res).test i =
      ((acceptedOf projs).flatten.all (inFixed excl · res) && denote re res i e) := by
  rw [parseHistory_eq]
  exact fixed_projection_filter re e f excl (acceptedOf projs) res i h hi

/-- a result whose projected value is missing from some fixed list is removed entirely -/
theorem fixed_projection_removes (re : ReOracle) (e : Filter) (f : FilterFn) (excl : List Bytes)
    (projs : List (List ProjField)) (res : Res) (h : walk re e = .ok f)
    (hout : projs.flatten.all (inFixed excl · res) = false) :
    (filterApply (parseAll excl projs f) res).1.values = [] ∧
    (0 < res.values.length → (filterApply (parseAll excl projs f) res).2 = false) := by
  obtain ⟨w, t⟩ := walk_sound re res e f h
  obtain ⟨w2, t2⟩ := parseAll_spec excl projs f res res.values.length w
  have hP : ∀ i, i < res.values.length →
      outTest res.values.length (parseAll excl projs f res) i = (fun _ => false) i := by
    intro i hi; rw [t2 i hi, hout]; simp
  obtain ⟨hv, _, _, hf, _⟩ := apply_of_denotes _ res (fun _ => false) w2 hP
  have hk : keepIdx (fun _ => false) res.values = [] := by
    rw [keepIdx_eq]; exact keepFrom_none _ _ _ (fun _ _ _ => rfl)
  exact ⟨by rw [hv, hk], fun hn => by rw [hf hn, hk]; rfl⟩

/-- a result whose projected values are all listed is filtered by the caller's expression alone -/
theorem fixed_projection_keeps (re : ReOracle) (e : Filter) (f : FilterFn) (excl : List Bytes)
    (projs : List (List ProjField)) (res : Res) (h : walk re e = .ok f)
    (hin : projs.flatten.all (inFixed excl · res) = true) :
    (filterApply (parseAll excl projs f) res).1.values = kept re e res ∧
    (0 < res.values.length → (filterApply (parseAll excl projs f) res).2 = !(kept re e res).isEmpty) := by
  obtain ⟨w, t⟩ := walk_sound re res e f h
  obtain ⟨w2, t2⟩ := parseAll_spec excl projs f res res.values.length w
  have hP : ∀ i, i < res.values.length →
      outTest res.values.length (parseAll excl projs f res) i = denote re res i e := by
    intro i hi; rw [t2 i hi, hin, t i hi]; simp
  obtain ⟨hv, _, _, hf, _⟩ := apply_of_denotes _ res (fun i => denote re res i e) w2 hP
  exact ⟨hv, hf⟩

/-! ### non-vacuity: the hypotheses are satisfiable and the statements bite on results that
cross one and two mask words, with mask and boolean operands mixed under a negation -/

def exUnitA : Bytes := [97]
def exUnitB : Bytes := [98]
/-- n measurements, unit "a" at positions divisible by 3 or equal to 32/64, otherwise "b" rescaled from "a" at multiples of 5 -/
def exRes (n : Nat) : Res :=
  { name := [70, 111, 111], config := [],
    values := (List.range n).map fun i =>
      { unit := if i % 3 == 0 || i == 32 || i == 64 then exUnitA else exUnitB,
        origUnit := if i % 5 == 0 then exUnitA else [], payload := i } }
def exRe : ReOracle := fun _ _ => false
/-- `-(.unit:a OR -.name:Foo) .unit:b` : mixes mask and boolean operands under a negation -/
def exExpr : Filter :=
  .and [.not (.or [.mtch dotUnit 0 (.lit exUnitA), .not (.mtch dotName 0 (.lit [70, 111, 111]))]),
        .mtch dotUnit 0 (.lit exUnitB)]

def exMatch (n : Nat) : Option Match :=
  match walk exRe exExpr with
  | .ok f => some (filterMatch f (exRes n))
  | .error _ => none

def exCheck (n : Nat) (ones zeros : List Nat) (all any : Bool) : Bool :=
  match exMatch n with
  | some m => ones.all (m.test ·) && zeros.all (!m.test ·) && m.all == all && m.any == any
  | none => false

example : exCheck 65 [1, 31, 34, 62] [0, 3, 5, 32, 33, 63, 64, 65, 66] false true = true := by decide +kernel
example : exCheck 33 [1, 31] [0, 3, 5, 32, 33] false true = true := by decide +kernel

example : (match walk exRe exExpr with | .ok _ => true | .error _ => false) = true := by decide +kernel

/-- the F12 witness on the repaired code: `.fullname@(Foo Bar)` together with `/size`; the result
`Foo/size=1` projects to `Foo`, is in the list and is kept (its unprojected name is not). -/
def exProjs : List (List ProjField) :=
  [[{ key := dotFullname, fixed := some [[70, 111, 111], [66, 97, 114]] }],
   [{ key := Bytes.ofString "/size", fixed := none }]]
def exResF12 : Res := { name := Bytes.ofString "Foo/size=1", config := [], values := [⟨exUnitA, [], 0⟩] }

example : exProjs.flatten.all (inFixed (fullnameKeysOf exProjs) · exResF12) = true := by decide +kernel
example : projValue (fullnameKeysOf exProjs) dotFullname exResF12 = [70, 111, 111] := by decide +kernel
example : decide (exResF12.name ∈ [[70, 111, 111], [66, 97, 114]]) = false := by decide +kernel

/-! ## the literal sub-language of regular expressions (S oracle for such terms) -/

/-- **litre_spec**: the Lean matcher used by the S layer for regexp terms of the form
`^?literal$?` (also `\\A…\\z`, `(?:literal)`, escaped punctuation) says: the value is
`p ++ literal ++ s` with `p` empty under a start anchor and `s` empty under an end anchor —
"is exactly", "starts with", "ends with", "contains". -/
theorem litre_spec (r : Spec.LitRegexp.LitRe) (v : Bytes) :
    r.matches v = true ↔
      ∃ p s, v = p ++ r.lit ++ s ∧ (r.anchS = true → p = []) ∧ (r.anchE = true → s = []) :=
  litre_matches_spec r v

/-! ## aliasing (heap model, Model/Proc/FilterHeap.lean) -/

/-- **heap_match_refines**: in the heap model (masks are cells updated in place, closures hand
addresses around) `Filter.Match` returns a `Match` that, read right after the call, is the `Match`
of the functional model — so every theorem above also describes the in-place evaluator. -/
theorem heap_match_refines (re : ReOracle) (e : Filter) (f : FilterFn) (res : Res) (h : Heap)
    (hw : walk re e = .ok f) :
    (matchH re e res h).1.read (matchH re e res h).2 = filterMatch f res := by
  obtain ⟨r1, r2⟩ := refE re res e f hw h
  simp only [matchH, HMatch.read, filterMatch]
  rw [r1, r2]

/-- **match_no_alias**: two successive `Match` calls (any filters, any results) on any heap.
(1) cells that existed before a call are never written (`Ext`): masks the caller already holds,
including the `Match` of the first call, keep their contents through the second call;
(2) the mask a call returns was allocated by that call (its address is beyond the old heap);
hence (3) the two returned masks are different cells, and (4) the first `Match` reads the same
before and after the second call. A compiled filter keeps no mask between calls: the evaluator's
only inputs are the tree, the result and the heap. -/
theorem match_no_alias (re : ReOracle) (e1 e2 : Filter) (res1 res2 : Res) (h0 : Heap) :
    Ext h0 (matchH re e1 res1 h0).2 ∧
    Ext (matchH re e1 res1 h0).2 (matchH re e2 res2 (matchH re e1 res1 h0).2).2 ∧
    (∀ a, (matchH re e1 res1 h0).1.addr = some a → h0.length ≤ a ∧ a < (matchH re e1 res1 h0).2.length) ∧
    (∀ a1 a2, (matchH re e1 res1 h0).1.addr = some a1 →
      (matchH re e2 res2 (matchH re e1 res1 h0).2).1.addr = some a2 → a1 < a2) ∧
    (matchH re e1 res1 h0).1.read (matchH re e2 res2 (matchH re e1 res1 h0).2).2 =
      (matchH re e1 res1 h0).1.read (matchH re e1 res1 h0).2 := by
  obtain ⟨x1, f1⟩ := frameE re res1 e1 h0
  obtain ⟨x2, f2⟩ := frameE re res2 e2 (evalH re res1 e1 h0).2
  refine ⟨x1, x2, f1, ?_, ?_⟩
  · intro a1 a2 h1 h2
    have := (f1 a1 h1).2
    have := (f2 a2 h2).1
    simp only [matchH] at *
    omega
  · simp only [matchH, HMatch.read]
    cases ha : (evalH re res1 e1 h0).1.1 with
    | none => rfl
    | some a =>
      have := (f1 a ha).2
      simp only [Option.map_some]
      rw [x2.cell a this]

/-! ## text level: parser model (C07) ∘ evaluator model -/

/-- **eval_test_text**: if the parser model accepts the text with tree `t` and NewFilter compiles
it, measurement `i` is matched iff ⟦t⟧ holds at `i`. -/
theorem eval_test_text (cx : Ctx) (re : ReOracle) (text : Bytes) (t : Filter) (f : FilterFn) (res : Res) (i : Nat)
    (_hp : filterOfText cx text = .ok t) (hw : walk re t = .ok f) (hi : i < res.values.length) :
    (filterMatch f res).test i = denote re res i t :=
  eval_test re t f res i hw hi

/-- the same through `newFilterText` (= `benchproc.NewFilter` on the text) -/
theorem newFilterText_test (cx : Ctx) (re : ReOracle) (text : Bytes) (f : FilterFn)
    (h : newFilterText cx re text = .ok f) :
    ∃ t, filterOfText cx text = .ok t ∧ walk re t = .ok f ∧
      ∀ res i, i < res.values.length → (filterMatch f res).test i = denote re res i t := by
  unfold newFilterText at h
  cases ht : filterOfText cx text with
  | error e => simp [ht] at h
  | ok t =>
    simp only [ht] at h
    cases hw : walk re t with
    | error e => simp [hw] at h
    | ok g =>
      simp only [hw] at h
      cases h
      exact ⟨t, rfl, hw, fun res i hi => eval_test re t f res i hw hi⟩

/-- **text_accepted_converts**: whatever text the parser model accepts has a tree in the evaluator's
vocabulary (`filterOfText` never fails with `badTree`; uses C07's `accepted_tree_wellformed`). -/
theorem text_accepted_converts (cx : Ctx) (q : Bytes) (t : Proc.ParseFilter.Filter)
    (h : Proc.ParseFilter.parseFilter cx q = .ok t) : ∃ t', filterOfText cx q = .ok t' ∧ toTree t = some t' :=
  filterOfText_of_accepted cx q t h

/-- **newFilter_models_agree**: the composed model `newFilterText` (parser model, `toTree`, `walk`)
accepts a text exactly when C07's model of `benchproc.NewFilter` accepts it, for every text. -/
theorem newFilter_models_agree (cx : Ctx) (re : ReOracle) (q : Bytes) :
    isOk (newFilterText cx re q) = isOk (Proc.ParseFilter.newFilter cx q) :=
  newFilterText_accepts_iff cx re q

/-- **text_semantics**: every well-formed expression of the literal fragment — terms `k:v`, value
lists `k:(a OR b …)`, `*`, `-x`, parentheses, juxtaposition / `AND`, `OR`, over bare words that
satisfy C07's bare-word conditions or quoted literals — is accepted by the parser model, and the
tree it builds denotes the ordinary boolean meaning `semE` of the expression. -/
theorem text_semantics (cx : Ctx) (E : List (List (Bool × S))) (hne : E ≠ []) (hok : okE cx E) :
    ∃ t, filterOfText cx (renderE E) = .ok t ∧ ∀ re res i, denote re res i t = semE re res i E :=
  filterOfText_render cx E hne hok

/-- … hence `Test(i)` of the filter compiled from the TEXT is the boolean meaning of the text. -/
theorem text_filter_test (cx : Ctx) (re : ReOracle) (E : List (List (Bool × S))) (hne : E ≠ []) (hok : okE cx E)
    (f : FilterFn) (h : newFilterText cx re (renderE E) = .ok f) (res : Res) (i : Nat) (hi : i < res.values.length) :
    (filterMatch f res).test i = semE re res i E := by
  obtain ⟨t, ht, hd⟩ := text_semantics cx E hne hok
  obtain ⟨t', ht', _, htest⟩ := newFilterText_test cx re _ f h
  rw [ht] at ht'; cases ht'
  rw [htest res i hi, hd]

theorem semT_eq_all (re : ReOracle) (res : Res) (i : Nat) (items : List (Bool × S)) :
    semT re res i items = items.all (fun p => sem re res i p.2) := by
  induction items with
  | nil => simp [semT]
  | cons p r ih => obtain ⟨b, s⟩ := p; simp [semT, ih]

theorem semE_eq_any (re : ReOracle) (res : Res) (i : Nat) (E : List (List (Bool × S))) :
    semE re res i E = E.any (fun a => a.all (fun p => sem re res i p.2)) := by
  induction E with
  | nil => simp [semE]
  | cons a r ih => simp [semE, ih, semT_eq_all]

theorem renderE_single (a : List (Bool × S)) : renderE [a] = renderA a := by rw [renderE]
theorem renderA_single (b : Bool) (s : S) : renderA [(b, s)] = render s := by
  rw [renderA, renderT, List.append_nil]

/-- a word / a regular expression as a value of the surface syntax -/
def SV.word (txt val : Bytes) : SV := { re := false, txt := txt, val := val }
def SV.regex (src : Bytes) : SV := { re := true, txt := cSlash :: (src ++ [cSlash]), val := src }

theorem okV_word {cx : Ctx} {k : UInt8} {txt val : Bytes} (h : Word cx true k txt val) : okV cx (SV.word txt val) :=
  ⟨k, Val.word h, by rcases h.kind with rfl | rfl <;> rfl⟩

theorem okV_regex {cx : Ctx} {src : Bytes} (h : RegexOK cx src) : okV cx (SV.regex src) :=
  ⟨kR, Val.regex src h, rfl⟩

theorem any_termHolds_mem (re : ReOracle) (res : Res) (i : Nat) (kv : Bytes) (hk : kv ≠ dotUnit) :
    ∀ vs : List (Bytes × Bytes),
      vs.any (fun p => termHolds re res i kv (.lit p.2)) = decide (keyValue kv res ∈ vs.map (·.2))
  | [] => by simp
  | p :: r => by
    have ih := any_termHolds_mem re res i kv hk r
    simp only [List.any_cons, List.map_cons, List.mem_cons, ih]
    simp only [termHolds, hk, if_false, valueHolds]
    by_cases hp : keyValue kv res = p.2 <;> simp [hp]

/-- **value_list_sugar_text**: for a key word `k` and words a₁ … aₙ (bare under C07's conditions,
or quoted literals) the text `k:(a₁ OR … OR aₙ)` is accepted and means "the key's value is one of
a₁ … aₙ" (for `.unit`: some aᵢ matches measurement i's unit). (Lists that also contain regular
expressions: `text_semantics`.) -/
theorem value_list_sugar_text (cx : Ctx) {k1 : UInt8} {kt kv : Bytes} (hk : Word cx false k1 kt kv)
    (ws : List (Bytes × Bytes)) (hne : ws ≠ []) (hw : ∀ p, p ∈ ws → ∃ k, Word cx true k p.1 p.2) :
    ∃ t, filterOfText cx (kt ++ cColon :: cLP :: (renderVs (ws.map fun p => SV.word p.1 p.2) ++ [cRP])) = .ok t ∧
      ∀ re res i,
        denote re res i t = ws.any (fun p => termHolds re res i kv (.lit p.2)) ∧
        (kv ≠ dotUnit → denote re res i t = decide (keyValue kv res ∈ ws.map (·.2))) := by
  have hokv : ∀ v, v ∈ ws.map (fun p => SV.word p.1 p.2) → okV cx v := by
    intro v hv
    obtain ⟨p, hp, rfl⟩ := List.mem_map.mp hv
    obtain ⟨k, hk'⟩ := hw p hp
    exact okV_word hk'
  obtain ⟨t, ht, hd⟩ := text_semantics cx [[(false, .list kt kv (ws.map fun p => SV.word p.1 p.2))]] (by simp)
    (by simp only [okE, okT, okS]; exact ⟨by simp, ⟨⟨⟨k1, hk⟩, by simpa using hne, hokv⟩, trivial⟩, trivial⟩)
  rw [renderE_single, renderA_single, render] at ht
  refine ⟨t, ht, fun re res i => ?_⟩
  have h1 : denote re res i t = ws.any (fun p => termHolds re res i kv (.lit p.2)) := by
    rw [hd]; simp [semE, semT, sem, List.any_map, SV.matcher, SV.word, Function.comp_def]
  exact ⟨h1, fun hne' => by rw [h1, any_termHolds_mem re res i kv hne' ws]⟩

/-- **juxtaposition_is_and**: well-formed terms written one after the other, separated by a space
or by ` AND `, are accepted and mean the conjunction of the terms. -/
theorem juxtaposition_is_and (cx : Ctx) (items : List (Bool × S)) (hne : items ≠ []) (hok : okT cx items) :
    ∃ t, filterOfText cx (renderA items) = .ok t ∧
      ∀ re res i, denote re res i t = items.all (fun p => sem re res i p.2) := by
  obtain ⟨t, ht, hd⟩ := text_semantics cx [items] (by simp) (by simp only [okE]; exact ⟨hne, hok, trivial⟩)
  rw [renderE_single] at ht
  exact ⟨t, ht, fun re res i => by rw [hd]; simp [semE, semT_eq_all]⟩

/-- **or_is_or**: juxtapositions separated by ` OR ` mean their disjunction. -/
theorem or_is_or (cx : Ctx) (E : List (List (Bool × S))) (hne : E ≠ []) (hok : okE cx E) :
    ∃ t, filterOfText cx (renderE E) = .ok t ∧
      ∀ re res i, denote re res i t = E.any (fun a => a.all (fun p => sem re res i p.2)) := by
  obtain ⟨t, ht, hd⟩ := text_semantics cx E hne hok
  exact ⟨t, ht, fun re res i => by rw [hd, semE_eq_any]⟩

/-- **minus_is_not**: `-x` is accepted and means the negation of `x`. -/
theorem minus_is_not (cx : Ctx) (m : S) (hok : okS cx m) :
    ∃ t, filterOfText cx (cDash :: render m) = .ok t ∧ ∀ re res i, denote re res i t = !sem re res i m := by
  obtain ⟨t, ht, hd⟩ := text_semantics cx [[(false, .neg m)]] (by simp)
    (by simp only [okE, okT, okS]; exact ⟨by simp, ⟨hok, trivial⟩, trivial⟩)
  rw [renderE_single, renderA_single, render] at ht
  exact ⟨t, ht, fun re res i => by rw [hd]; simp [semE, semT, sem]⟩

/-- **star_is_true**: `*` is accepted and true of every measurement; `-*` is false. -/
theorem star_is_true (cx : Ctx) :
    (∃ t, filterOfText cx [cStar] = .ok t ∧ ∀ re res i, denote re res i t = true) ∧
    (∃ t, filterOfText cx [cDash, cStar] = .ok t ∧ ∀ re res i, denote re res i t = false) := by
  constructor
  · obtain ⟨t, ht, hd⟩ := text_semantics cx [[(false, .star)]] (by simp) (by simp [okE, okT, okS])
    rw [renderE_single, renderA_single, render] at ht
    exact ⟨t, ht, fun re res i => by rw [hd]; simp [semE, semT, sem]⟩
  · obtain ⟨t, ht, hd⟩ := minus_is_not cx .star (by simp [okS])
    rw [render] at ht
    exact ⟨t, ht, fun re res i => by rw [hd]; simp [sem]⟩

/-! ### non-vacuity of the text-level theorems -/

def cx0 : Ctx := { n := 0, compileOK := fun _ => true, isSpaceHi := fun _ => false }

def bUnit : Bytes := [46, 117, 110, 105, 116]          -- .unit
def bNsOp : Bytes := [110, 115, 47, 111, 112]          -- ns/op
def bBop : Bytes := [66, 47, 111, 112]                 -- B/op
def bGoos : Bytes := [103, 111, 111, 115]              -- goos
def bLinux : Bytes := [108, 105, 110, 117, 120]        -- linux

theorem w_unit : Word cx0 false kW bUnit bUnit :=
  Word.bare 46 _ ⟨by decide, by decide, fun _ => by decide, by decide +kernel⟩ (by decide) (by decide)
theorem w_nsop : Word cx0 true kW bNsOp bNsOp :=
  Word.bare 110 _ ⟨by decide, by decide, fun _ => by decide, by decide +kernel⟩ (by decide) (by decide)
theorem w_goos : Word cx0 false kW bGoos bGoos :=
  Word.bare 103 _ ⟨by decide, by decide, fun _ => by decide, by decide +kernel⟩ (by decide) (by decide)
theorem w_linux : Word cx0 true kW bLinux bLinux :=
  Word.bare 108 _ ⟨by decide, by decide, fun _ => by decide, by decide +kernel⟩ (by decide) (by decide)
/-- the quoted literal `"B/op"` -/
theorem w_bop : Word cx0 true kQ (cQuote :: (bBop ++ [cQuote])) bBop :=
  Word.quoted bBop bBop
    (Items.plain (by decide) (by decide) (Items.plain (by decide) (by decide)
      (Items.plain (by decide) (by decide) (Items.plain (by decide) (by decide) Items.nil))))
    (by decide +kernel)

/-- `.unit:(ns/op OR "B/op") AND -goos:linux *` -/
def exE : List (List (Bool × S)) :=
  [[(false, .list bUnit bUnit [SV.word bNsOp bNsOp, SV.word (cQuote :: (bBop ++ [cQuote])) bBop]),
    (true, .neg (.term bGoos bGoos (SV.word bLinux bLinux))),
    (false, .star)]]

theorem exE_ok : okE cx0 exE := by
  simp only [exE, okE, okT, okS]
  refine ⟨by simp, ⟨⟨⟨_, w_unit⟩, by simp, ?_⟩, ⟨⟨_, w_goos⟩, okV_word w_linux⟩, trivial, trivial⟩, trivial⟩
  intro p hp
  simp only [List.mem_cons, List.not_mem_nil, or_false] at hp
  rcases hp with rfl | rfl
  · exact okV_word w_nsop
  · exact okV_word w_bop

example : renderE exE = Bytes.ofString ".unit:(ns/op OR \"B/op\") AND -goos:linux *" := by decide +kernel

/-- the theorem applies to this text … -/
example : ∃ t, filterOfText cx0 (renderE exE) = .ok t ∧ ∀ re res i, denote re res i t = semE re res i exE :=
  text_semantics cx0 exE (by simp [exE]) exE_ok

/-- … and the parser model really evaluates it (kernel computation, end to end from the text):
on `Foo`, goos=darwin, units [ns/op, B/op, x] the filter matches 1 1 0 -/
example :
    (match newFilterText cx0 (fun _ _ => false) (Bytes.ofString ".unit:(ns/op OR \"B/op\") AND -goos:linux *") with
     | .ok f =>
       let m := filterMatch f { name := [70, 111, 111], config := [(bGoos, [100])],
                                 values := [⟨bNsOp, [], 0⟩, ⟨bBop, [], 1⟩, ⟨[120], [], 2⟩] }
       m.test 0 && m.test 1 && !m.test 2
     | .error _ => false) = true := by decide +kernel

/-! ### regular-expression values: the matcher as a parameter -/

/-- what the term `key:/src/` means at measurement `i` when `rx src v` says whether the regular
expression `src` matches `v` (what Go's regexp decides; a parameter) -/
def rxTerm (rx : Bytes → Bytes → Bool) (res : Res) (i : Nat) (kv src : Bytes) : Bool :=
  if kv = dotUnit then
    match res.values[i]? with
    | some v => rx src v.unit || (decide (v.origUnit ≠ []) && rx src v.origUnit)
    | none => false
  else rx src (keyValue kv res)

/-- the meaning of a value of the surface syntax under `rx` -/
def valMeaning (rx : Bytes → Bytes → Bool) (res : Res) (i : Nat) (kv : Bytes) (v : SV) : Bool :=
  if v.re then rxTerm rx res i kv v.val else termHolds (fun _ _ => false) res i kv (.lit v.val)

theorem termHolds_lit_oracle (re re' : ReOracle) (res : Res) (i : Nat) (kv val : Bytes) :
    termHolds re res i kv (.lit val) = termHolds re' res i kv (.lit val) := by
  simp [termHolds, valueHolds]

theorem matcher_meaning (rx : Bytes → Bytes → Bool) (res : Res) (i : Nat) (kv : Bytes) (v : SV) :
    termHolds (oracleOf rx) res i kv v.matcher = valMeaning rx res i kv v := by
  unfold valMeaning SV.matcher
  cases v.re
  · simp only [Bool.false_eq_true, if_false]; exact termHolds_lit_oracle _ _ res i kv v.val
  · simp only [if_true, termHolds, valueHolds, oracleOf_reId, rxTerm]
    by_cases hk : kv = dotUnit
    · simp only [hk, if_true]
      cases res.values[i]? with
      | none => rfl
      | some w => rfl
    · simp [hk]

/-- the meaning of terms and value lists under `rx`, spelled out -/
theorem sem_term_rx (rx : Bytes → Bytes → Bool) (res : Res) (i : Nat) (kt kv : Bytes) (v : SV) :
    sem (oracleOf rx) res i (.term kt kv v) = valMeaning rx res i kv v := by
  rw [sem, matcher_meaning]

theorem sem_list_rx (rx : Bytes → Bytes → Bool) (res : Res) (i : Nat) (kt kv : Bytes) (vs : List SV) :
    sem (oracleOf rx) res i (.list kt kv vs) = vs.any (valMeaning rx res i kv) := by
  rw [sem]; congr 1; funext p; exact matcher_meaning rx res i kv p

/-- **text_semantics_rx**: every well-formed expression — now including regular-expression values
`/src/` in single terms and at every position of a value list, under `-`, juxtaposition/`AND`,
`OR` and parentheses, where `src` scans to the top level (brackets, parentheses, escapes as in
`regexpParseUntil`) and compiles — is accepted by the parser model, and for EVERY matcher `rx`
the tree denotes the ordinary boolean meaning of the expression with `rx` at the regexp leaves
(`sem_term_rx`, `sem_list_rx` spell the leaves out). -/
theorem text_semantics_rx (cx : Ctx) (E : List (List (Bool × S))) (hne : E ≠ []) (hok : okE cx E) :
    ∃ t, filterOfText cx (renderE E) = .ok t ∧
      ∀ (rx : Bytes → Bytes → Bool) res i, denote (oracleOf rx) res i t = semE (oracleOf rx) res i E := by
  obtain ⟨t, ht, hd⟩ := text_semantics cx E hne hok
  exact ⟨t, ht, fun rx res i => hd (oracleOf rx) res i⟩

/-- **regex_term_text**: `key:/src/` is accepted and means "`rx src` matches the key's value"
(for `.unit`: measurement i's unit or written unit). -/
theorem regex_term_text (cx : Ctx) {k1 : UInt8} {kt kv : Bytes} (hk : Word cx false k1 kt kv)
    (src : Bytes) (hre : RegexOK cx src) :
    ∃ t, filterOfText cx (kt ++ cColon :: cSlash :: (src ++ [cSlash])) = .ok t ∧
      ∀ (rx : Bytes → Bytes → Bool) res i, denote (oracleOf rx) res i t = rxTerm rx res i kv src := by
  obtain ⟨t, ht, hd⟩ := text_semantics_rx cx [[(false, .term kt kv (SV.regex src))]] (by simp)
    (by simp only [okE, okT, okS]; exact ⟨by simp, ⟨⟨⟨k1, hk⟩, okV_regex hre⟩, trivial⟩, trivial⟩)
  rw [renderE_single, renderA_single, render] at ht
  refine ⟨t, ht, fun rx res i => ?_⟩
  rw [hd]
  simp only [semE, semT, sem_term_rx, Bool.and_true, Bool.or_false]
  simp [valMeaning, SV.regex]

/-! ### the anchored-literal sub-language: no parameter left -/

/-- **rxLit_spec**: for a source of the literal sub-language the matcher `rxLit` says: the value is
`p ++ literal ++ s`, `p` empty under a start anchor, `s` empty under an end anchor. -/
theorem rxLit_spec (src : Bytes) (r : Spec.LitRegexp.LitRe) (h : Spec.LitRegexp.parse src = some r) (v : Bytes) :
    rxLit src v = true ↔
      ∃ p s, v = p ++ r.lit ++ s ∧ (r.anchS = true → p = []) ∧ (r.anchE = true → s = []) := by
  simp only [rxLit, h]; exact litre_matches_spec r v

/-- **text_semantics_litre**: with the specification-level matcher `rxLit` in place of Go's regexp
the whole chain text → tree → meaning is parameter-free. -/
theorem text_semantics_litre (cx : Ctx) (E : List (List (Bool × S))) (hne : E ≠ []) (hok : okE cx E) :
    ∃ t, filterOfText cx (renderE E) = .ok t ∧
      ∀ res i, denote (oracleOf rxLit) res i t = semE (oracleOf rxLit) res i E := by
  obtain ⟨t, ht, hd⟩ := text_semantics_rx cx E hne hok
  exact ⟨t, ht, fun res i => hd rxLit res i⟩

theorem rxLit_anchored (lit : Bytes) (h : PlainLit lit) (v : Bytes) :
    rxLit (94 :: (lit ++ [36])) v = decide (v = lit) := by
  simp only [rxLit, parse_anchored lit h, Spec.LitRegexp.LitRe.matches]
  by_cases hv : v = lit <;> simp [hv]

theorem regexOK_anchored (cx : Ctx) (lit : Bytes) (h : PlainLit lit)
    (hc : cx.compileOK (94 :: (lit ++ [36])) = true) : RegexOK cx (94 :: (lit ++ [36])) := by
  refine ⟨reState_plain _ ?_, hc⟩
  intro c hcm
  simp only [List.mem_cons, List.mem_append, List.not_mem_nil, or_false] at hcm
  rcases hcm with rfl | hl | rfl
  · decide
  · obtain ⟨h1, _, h3⟩ := h c hl
    refine ⟨h3, ?_, ?_, ?_, ?_, ?_⟩ <;> (intro e; subst e; exact absurd h1 (by decide))
  · decide

/-- **anchored_literal_text**: for a key word (not `.unit`) and a plain literal, the text
`key:/^literal$/` is accepted (given that Go compiles the expression) and, with regular
expressions decided by the specification matcher, holds iff the key's value IS the literal —
and `Test(i)` of the filter compiled from that text says exactly that. (This is the clause
seed C06-G broke: it made such a term mean "contains".) -/
theorem anchored_literal_text (cx : Ctx) {k1 : UInt8} {kt kv : Bytes} (hk : Word cx false k1 kt kv)
    (hkv : kv ≠ dotUnit) (lit : Bytes) (hp : PlainLit lit) (hc : cx.compileOK (94 :: (lit ++ [36])) = true) :
    ∃ t, filterOfText cx (kt ++ cColon :: cSlash :: ((94 :: (lit ++ [36])) ++ [cSlash])) = .ok t ∧
      (∀ res i, denote (oracleOf rxLit) res i t = decide (keyValue kv res = lit)) ∧
      (∀ f, walk (oracleOf rxLit) t = .ok f → ∀ res i, i < res.values.length →
        (filterMatch f res).test i = decide (keyValue kv res = lit)) := by
  obtain ⟨t, ht, hd⟩ := regex_term_text cx hk _ (regexOK_anchored cx lit hp hc)
  have hm : ∀ res i, denote (oracleOf rxLit) res i t = decide (keyValue kv res = lit) := by
    intro res i
    rw [hd rxLit res i]
    simp only [rxTerm, hkv, if_false, rxLit_anchored lit hp]
  exact ⟨t, ht, hm, fun f hw res i hi => by rw [eval_test _ t f res i hw hi, hm]⟩

/-- non-vacuity: `goos:/^linux$/` -/
example : PlainLit bLinux := by
  intro c hc
  simp only [bLinux, List.mem_cons, List.not_mem_nil, or_false] at hc
  rcases hc with rfl | rfl | rfl | rfl | rfl <;> decide

example :
    (match newFilterText cx0 (oracleOf rxLit) (Bytes.ofString "goos:/^linux$/ OR -.unit:(/^B\\/op$/ OR x)") with
     | .ok f =>
       let m := filterMatch f { name := [70], config := [(bGoos, Bytes.ofString "alinux")],
                                 values := [⟨bBop, [], 0⟩, ⟨Bytes.ofString "MB/op", [], 1⟩, ⟨[120], [], 2⟩] }
       !m.test 0 && m.test 1 && !m.test 2
     | .error _ => false) = true := by decide +kernel

end C06
