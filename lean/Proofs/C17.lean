/-
C17 — the legacy benchstat library's tables follow its documented statistics.
Property theorems (helper lemmas: Proofs/Lemmas/C17Stats.lean, C17Sort.lean, C17Order.lean).
Model: Model/Legacy/Collection.lean; specification: Model/Spec/Legacy.lean (part A).
-/
import Model.Legacy.Collection
import Model.Spec.Legacy
import Proofs.Lemmas.C17Stats
import Proofs.Lemmas.C17Sort
import Proofs.Lemmas.C17Order
import Proofs.Lemmas.C17F64
import Proofs.Lemmas.C17Mean

namespace C17
open Legacy F64

/-! ## retained values -/

/-- **retained_spec** — whatever `RValues` held before (it is state carried across `Tables()`
calls), after `computeStats` it is exactly the list of values inside the fence
[q1 − 1.5·IQR, q3 + 1.5·IQR] (R8 quartiles), in input order, each once. -/
theorem retained_spec (m : Metrics) :
    (computeStats m).rvalues = Spec.Legacy.retained m.values := by
  unfold computeStats Spec.Legacy.retained
  simp only [fenceLoop_eq, List.take_zero, List.nil_append, fenceOf_eq]
  rfl

/-- min, max and mean are those of the retained values -/
theorem stats_of_retained (m : Metrics) :
    ((computeStats m).min, (computeStats m).max) = bounds (Spec.Legacy.retained m.values) ∧
    (computeStats m).mean = mean (Spec.Legacy.retained m.values) := by
  have h := retained_spec m
  unfold computeStats at h ⊢
  simp only at h ⊢
  rw [h]
  exact ⟨rfl, rfl⟩

/-- `computeStats` does not touch the raw values -/
theorem computeStats_values (m : Metrics) : (computeStats m).values = m.values := rfl

/-- **retained_spec (idempotence)** — recomputing is the identity: a second `Tables()` call sees
the same statistics.  (With the truncation `m.RValues[:0]` removed — the defect repaired by
152ffa4 — `fenceLoop_eq` yields `old ++ retained` instead and this theorem is false.) -/
theorem computeStats_idempotent (m : Metrics) : computeStats (computeStats m) = computeStats m := by
  unfold computeStats
  simp only [fenceLoop_eq, List.take_zero, List.nil_append]

theorem updateStats_idempotent (c : Coll) : updateStats (updateStats c) = updateStats c := by
  unfold updateStats
  simp only [List.map_map]
  congr 1

/-- **tables_idempotent** — calling `Tables()` again on the collection left by a first call
returns the same collection state and the same tables. -/
theorem tables_idempotent (T : TestFn) (G : GeoFn) (c : Coll) :
    tables T G (tables T G c).1 = tables T G c := by
  unfold tables
  simp only [updateStats_idempotent]

/-- every metric of the collection after `Tables()` carries the specified retained values -/
theorem tables_retained (T : TestFn) (G : GeoFn) (c : Coll) :
    ∀ km ∈ (tables T G c).1.metrics, ∃ m0, (km.1, m0) ∈ c.metrics ∧
      km.2.rvalues = Spec.Legacy.retained m0.values ∧ km.2.values = m0.values := by
  intro km hkm
  unfold tables updateStats at hkm
  simp only [List.mem_map] at hkm
  obtain ⟨⟨k, m0⟩, hmem, rfl⟩ := hkm
  exact ⟨m0, hmem, retained_spec m0, rfl⟩

/-! ## min ≤ mean ≤ max -/

/-- Min and Max are elements of the retained values -/
theorem bounds_mem (rv : List Bits) (hne : rv ≠ []) : (bounds rv).1 ∈ rv ∧ (bounds rv).2 ∈ rv := by
  cases rv with
  | nil => exact absurd rfl hne
  | cons x0 xs =>
    rw [bounds_cons]
    exact foldl_bounds_mem (x0 :: xs) (x0, x0) (x0 :: xs) (List.mem_cons_self ..) (List.mem_cons_self ..)
      (fun _ h => h)

/-- **min_le_mean_le_max_partial** — over an ordered field (ℚ): for non-empty retained values,
Min and Max are elements of the list, bound every element, and
`val Min ≤ (Σ val x)/n ≤ val Max` for the exact mean.
Gap (why `_partial`): `val` is assumed to be an order embedding of the model's float comparison
`F64.lt` (`lt a b ↔ val a < val b`); for `val` = exact rational value of a non-NaN float this is
the IEEE order, which is validated bit-for-bit against Go by the C10/C17 correspondence runs but
not proved in Lean here.  Retained values are never NaN (`retained_not_nan`). -/
theorem min_le_mean_le_max_partial {K : Type} [Field K] [LinearOrder K] [IsStrictOrderedRing K]
    (val : Bits → K) (hemb : ∀ a b, lt a b = true ↔ val a < val b) (rv : List Bits) (hne : rv ≠ []) :
    (bounds rv).1 ∈ rv ∧ (bounds rv).2 ∈ rv ∧
    (∀ x ∈ rv, val (bounds rv).1 ≤ val x ∧ val x ≤ val (bounds rv).2) ∧
    val (bounds rv).1 ≤ (rv.map val).sum / (rv.length : K) ∧
    (rv.map val).sum / (rv.length : K) ≤ val (bounds rv).2 := by
  obtain ⟨hm1, hm2⟩ := bounds_mem rv hne
  have hall : ∀ x ∈ rv, val (bounds rv).1 ≤ val x ∧ val x ≤ val (bounds rv).2 := by
    cases rv with
    | nil => exact absurd rfl hne
    | cons x0 xs =>
      rw [bounds_cons]
      exact (foldl_bounds_extremal val (x0 :: xs) (x0, x0) hemb).2
  refine ⟨hm1, hm2, hall, ?_⟩
  have hlen : (0 : K) < (rv.length : K) := by
    have : 0 < rv.length := List.length_pos_of_ne_nil hne
    exact_mod_cast this
  have hs := sum_bounds (rv.map val) (val (bounds rv).1) (val (bounds rv).2) (by
    intro y hy
    obtain ⟨x, hx, rfl⟩ := List.mem_map.mp hy
    exact hall x hx)
  rw [List.length_map] at hs
  exact ⟨(le_div_iff₀ hlen).mpr hs.1, (div_le_iff₀ hlen).mpr hs.2⟩

/-- a non-trivial instance of the hypotheses: on a two-element list the statement is about ℚ -/
example : (bounds [one, c3]).1 = one ∧ (bounds [one, c3]).2 = c3 := by decide

/-- **min_le_mean_le_max** (exact mean, positive finite retained values) — no hypothesis on the
float order is left: on positive finite floats `F64.lt` is the order of the exact values
(`lt_iff_val`, from the float64 lemma library).  Min and Max are elements of the retained list,
every element lies between them in the float order `F64.le` and in exact value, and the exact
arithmetic mean lies between their exact values. -/
theorem min_le_mean_le_max (rv : List Bits) (hne : rv ≠ []) (hpos : ∀ x ∈ rv, PosFin x) :
    (bounds rv).1 ∈ rv ∧ (bounds rv).2 ∈ rv ∧
    (∀ x ∈ rv, le (bounds rv).1 x = true ∧ le x (bounds rv).2 = true) ∧
    val (bounds rv).1 ≤ (rv.map val).sum / (rv.length : ℚ) ∧
    (rv.map val).sum / (rv.length : ℚ) ≤ val (bounds rv).2 := by
  obtain ⟨hm1, hm2⟩ := bounds_mem rv hne
  have hemb : ∀ a ∈ rv, ∀ b ∈ rv, (lt a b = true ↔ val a < val b) :=
    fun a ha b hb => lt_iff_val a b (hpos a ha) (hpos b hb)
  have hall : ∀ x ∈ rv, val (bounds rv).1 ≤ val x ∧ val x ≤ val (bounds rv).2 := by
    cases rv with
    | nil => exact absurd rfl hne
    | cons x0 xs =>
      rw [bounds_cons]
      exact (foldl_bounds_extremal_on val (x0 :: xs) hemb (x0 :: xs) (x0, x0)
        (List.mem_cons_self ..) (List.mem_cons_self ..) (fun _ h => h)).2
  have hle : ∀ a ∈ rv, ∀ b ∈ rv, val a ≤ val b → le a b = true := by
    intro a ha b hb hab
    rw [le_posFin a b (hpos a ha) (hpos b hb)]
    by_contra hc
    have h1 : lt b a = true := (lt_posFin b a (hpos b hb) (hpos a ha)).mpr (by omega)
    exact absurd ((hemb b hb a ha).mp h1) (not_lt.mpr hab)
  refine ⟨hm1, hm2, fun x hx => ⟨hle _ hm1 _ hx (hall x hx).1, hle _ hx _ hm2 (hall x hx).2⟩, ?_⟩
  have hlen : (0 : ℚ) < (rv.length : ℚ) := by
    have : 0 < rv.length := List.length_pos_of_ne_nil hne
    exact_mod_cast this
  have hs := sum_bounds (rv.map val) (val (bounds rv).1) (val (bounds rv).2) (by
    intro y hy
    obtain ⟨x, hx, rfl⟩ := List.mem_map.mp hy
    exact hall x hx)
  rw [List.length_map] at hs
  exact ⟨(le_div_iff₀ hlen).mpr hs.1, (div_le_iff₀ hlen).mpr hs.2⟩

/-- a non-trivial instance: three positive finite values -/
example : ∀ x ∈ [one, c3, c100], PosFin x := by
  intro x hx
  simp only [List.mem_cons, List.mem_nil_iff, or_false] at hx
  rcases hx with rfl | rfl | rfl <;> exact ⟨by decide, by decide⟩

/-- Min and Max bound every element in signed exact value, for any list without NaN
(±Inf count as ±2^1024); no order hypothesis: `lt_iff_sval`. -/
theorem bounds_sval (rv : List Bits) (hne : rv ≠ []) (hnan : ∀ x ∈ rv, isNaN x = false) :
    (bounds rv).1 ∈ rv ∧ (bounds rv).2 ∈ rv ∧
    ∀ x ∈ rv, sval (bounds rv).1 ≤ sval x ∧ sval x ≤ sval (bounds rv).2 := by
  obtain ⟨hm1, hm2⟩ := bounds_mem rv hne
  refine ⟨hm1, hm2, ?_⟩
  have hemb : ∀ a ∈ rv, ∀ b ∈ rv, (lt a b = true ↔ sval a < sval b) :=
    fun a ha b hb => lt_iff_sval a b (hnan a ha) (hnan b hb)
  cases rv with
  | nil => exact absurd rfl hne
  | cons x0 xs =>
    rw [bounds_cons]
    exact (foldl_bounds_extremal_on sval (x0 :: xs) hemb (x0 :: xs) (x0, x0)
      (List.mem_cons_self ..) (List.mem_cons_self ..) (fun _ h => h)).2

/-- **min_le_mean_le_max_exact** — the `_partial` theorem without its order-embedding hypothesis:
for every non-empty list without NaN (in particular every retained list, `retained_not_nan`),
either sign, zeros and ±Inf (valued ±2^1024) included, the exact mean of the signed values lies
between the values of Min and Max. -/
theorem min_le_mean_le_max_exact (rv : List Bits) (hne : rv ≠ []) (hnan : ∀ x ∈ rv, isNaN x = false) :
    (bounds rv).1 ∈ rv ∧ (bounds rv).2 ∈ rv ∧
    sval (bounds rv).1 ≤ (rv.map sval).sum / (rv.length : ℚ) ∧
    (rv.map sval).sum / (rv.length : ℚ) ≤ sval (bounds rv).2 := by
  obtain ⟨hm1, hm2, hall⟩ := bounds_sval rv hne hnan
  refine ⟨hm1, hm2, ?_⟩
  have hlen : (0 : ℚ) < (rv.length : ℚ) := by
    have : 0 < rv.length := List.length_pos_of_ne_nil hne
    exact_mod_cast this
  have hs := sum_bounds (rv.map sval) (sval (bounds rv).1) (sval (bounds rv).2) (by
    intro y hy
    obtain ⟨x, hx, rfl⟩ := List.mem_map.mp hy
    exact hall x hx)
  rw [List.length_map] at hs
  exact ⟨(le_div_iff₀ hlen).mpr hs.1, (div_le_iff₀ hlen).mpr hs.2⟩

/-- **mean_between_min_max** — the FLOAT mean.  For a non-empty list of finite floats of either
sign (zeros, subnormals included) whose span `Max − Min` does not overflow in float64 and with
fewer than 2^53 elements, `stats.Mean`'s loop `m += (x − m)/float64(i+1)` returns a finite float
with `Min ≤ Mean ≤ Max` in the float comparison `F64.le` (and in exact value).
Every step stays between the running mean and the new value (`step_between`): each operation is
the correctly rounded exact result, rounding is monotone and the identity on floats, and
`R(R(δ)/k) ≤ δ` for k ≥ 2 (`shrink`: a power of two lies between). -/
theorem mean_between_min_max (rv : List Bits) (hne : rv ≠ []) (hfin : ∀ x ∈ rv, isFinite x = true)
    (hspan : isFinite (sub (bounds rv).2 (bounds rv).1) = true) (hlen : rv.length < 2 ^ 53) :
    isFinite (mean rv) = true ∧
    le (bounds rv).1 (mean rv) = true ∧ le (mean rv) (bounds rv).2 = true ∧
    sval (bounds rv).1 ≤ sval (mean rv) ∧ sval (mean rv) ≤ sval (bounds rv).2 := by
  have hnan : ∀ x ∈ rv, isNaN x = false := fun x hx => isNaN_of_finite (hfin x hx)
  obtain ⟨hm1, hm2, hall⟩ := bounds_sval rv hne hnan
  have hlo := hfin _ hm1
  have hhi := hfin _ hm2
  have main : isFinite (mean rv) = true ∧ sval (bounds rv).1 ≤ sval (mean rv) ∧
      sval (mean rv) ≤ sval (bounds rv).2 := by
    cases hrv : rv with
    | nil => exact absurd hrv hne
    | cons x0 xs =>
      rw [hrv] at hall hfin hlen
      rw [← hrv] at hall
      have hx0 := hfin x0 (List.mem_cons_self ..)
      have hK := ofInt_exact (((0 + 1 : Nat) : Int)) (by decide)
      obtain ⟨f0, s0⟩ := step_first x0 (ofInt ((0 + 1 : Nat) : Int)) hx0 hK.2 (by rw [hK.1]; norm_num)
      have hmean : mean (x0 :: xs) = meanLoop xs 1 (add posZero (div (sub x0 posZero) (ofInt ((0 + 1 : Nat) : Int)))) := by
        simp [mean, meanLoop]
      rw [hmean, ← hrv]
      have b0 := hall x0 (by rw [hrv]; exact List.mem_cons_self ..)
      apply meanLoop_between (bounds rv).1 (bounds rv).2 hlo hhi hspan xs 1 _ (le_refl _)
        (by simp only [List.length_cons] at hlen; omega) f0 (by rw [s0]; exact b0.1) (by rw [s0]; exact b0.2)
      intro y hy
      have hy' : y ∈ rv := by rw [hrv]; exact List.mem_cons_of_mem _ hy
      exact ⟨hfin y (List.mem_cons_of_mem _ hy), hall y hy'⟩
  obtain ⟨f, a, b⟩ := main
  have nm := isNaN_of_finite f
  exact ⟨f, (le_iff_sval _ _ (isNaN_of_finite hlo) nm).mpr a, (le_iff_sval _ _ nm (isNaN_of_finite hhi)).mpr b, a, b⟩

/-- **min_le_mean_le_max_float** — the property's "min <= mean <= max" for what `computeStats`
stores: if the retained values of a metric are finite, not empty, and `Max − Min` does not overflow,
then `Min ≤ Mean ≤ Max` holds for the float64 fields (Go's `<=`). -/
theorem min_le_mean_le_max_float (m : Metrics)
    (hne : Spec.Legacy.retained m.values ≠ [])
    (hfin : ∀ x ∈ Spec.Legacy.retained m.values, isFinite x = true)
    (hspan : isFinite (sub (computeStats m).max (computeStats m).min) = true)
    (hlen : m.values.length < 2 ^ 53) :
    le (computeStats m).min (computeStats m).mean = true ∧
    le (computeStats m).mean (computeStats m).max = true ∧ isFinite (computeStats m).mean = true := by
  obtain ⟨hb, hmean⟩ := stats_of_retained m
  have h1 : (computeStats m).min = (bounds (Spec.Legacy.retained m.values)).1 := congrArg Prod.fst hb
  have h2 : (computeStats m).max = (bounds (Spec.Legacy.retained m.values)).2 := congrArg Prod.snd hb
  rw [h1, h2] at hspan
  have hl : (Spec.Legacy.retained m.values).length < 2 ^ 53 :=
    lt_of_le_of_lt (List.length_filter_le _ _) hlen
  obtain ⟨f, a, b, _, _⟩ := mean_between_min_max _ hne hfin hspan hl
  rw [h1, h2, hmean]
  exact ⟨a, b, f⟩

/-- the no-overflow hypothesis cannot be dropped: for {−MaxFloat64, +MaxFloat64} both values are
retained (the fence is (−Inf, +Inf)), `x − m` overflows in the second iteration and the float
Mean is +Inf, above Max. -/
theorem mean_overflow_counterexample :
    let mx : Bits := 0x7FEFFFFFFFFFFFFF
    let m := computeStats { values := [neg mx, mx] }
    m.rvalues = [neg mx, mx] ∧ m.min = neg mx ∧ m.max = mx ∧ m.mean = posInf ∧
    le m.mean m.max = false ∧ isFinite (sub m.max m.min) = false := by
  decide +kernel

/-- the same overflow corner in the quartile interpolation: for {−1e308, 1e308, 1.5e308} the
difference `x[1] − x[0]` overflows, q1 = +Inf, the float fence is empty and nothing is retained
(Min = Mean = Max = NaN) although every value lies inside the exact fence.  `retained_spec`
still holds (it is stated for the float fence); the exact-arithmetic reading of the property
needs the span of the values to be representable. -/
theorem fence_overflow_counterexample :
    let m := computeStats { values := [0xFFE1CCF385EBC8A0, 0x7FE1CCF385EBC8A0, 0x7FEAB36D48E1ACF0] }
    m.rvalues = [] ∧ isNaN m.mean = true ∧ (Spec.Legacy.fence m.values).1 = posInf := by
  decide +kernel

/-- retained values are never NaN: NaN fails the fence test -/
theorem retained_not_nan (vs : List Bits) : ∀ x ∈ Spec.Legacy.retained vs, isNaN x = false := by
  intro x hx
  unfold Spec.Legacy.retained at hx
  have h := (List.mem_filter.mp hx).2
  simp only [Bool.and_eq_true] at h
  have h2 := h.2
  unfold le lt eq at h2
  by_cases hn : isNaN x = true
  · simp [hn] at h2
  · simpa using hn

/-! ## gate, delta value, direction, note -/

theorem append_pct_ne_tilde (s : String) : s ++ "%" ≠ "~" := by
  intro h
  have := congrArg String.toList h
  simp only [String.toList_append] at this
  have h2 := congrArg List.getLast? this
  simp at h2

/-- **delta_gate** — a delta other than "~" appears exactly when the test returned no error and
p < alpha. -/
theorem delta_gate (t : TestRes) (alpha : Bits) (metric : Str) (old new : Metrics) (row : Row) :
    (deltaPart t alpha metric old new row).delta ≠ "~" ↔ Spec.Legacy.shown t alpha = true := by
  unfold deltaPart Spec.Legacy.shown
  cases t with
  | p v =>
    by_cases hlt : lt v alpha = true
    · by_cases heq : eq new.mean old.mean = true
      · simp only [hlt, heq, if_true]
        split <;> simp
      · simp only [hlt, heq, if_true, Bool.false_eq_true, if_false]
        split <;> simp [append_pct_ne_tilde]
    · simp only [hlt, Bool.false_eq_true, if_false]
      split <;> simp [hlt]
  | errZeroVariance => simp only; split <;> simp
  | errSampleSize => simp only; split <;> simp
  | errSamplesEqual => simp only; split <;> simp
  | errOther msg => simp only; split <;> simp

/-- **delta_value** — when shown, the delta is (new mean / old mean − 1)·100 formatted "%+.2f%%"
(and "0.00%" when the two means are equal); otherwise "~" with PctDelta 0 and Change 0. -/
theorem delta_value (t : TestRes) (alpha : Bits) (metric : Str) (old new : Metrics) (row : Row)
    (hc : row.change = 0) :
    let r := deltaPart t alpha metric old new row
    (Spec.Legacy.shown t alpha = true ∧ eq new.mean old.mean = false →
        r.pctDelta = Spec.Legacy.deltaValue old.mean new.mean ∧
        r.delta = fmtF true (Spec.Legacy.deltaValue old.mean new.mean) 2 ++ "%") ∧
    (Spec.Legacy.shown t alpha = true ∧ eq new.mean old.mean = true →
        r.pctDelta = posZero ∧ r.delta = "0.00%" ∧ r.change = 0) ∧
    (Spec.Legacy.shown t alpha = false → r.pctDelta = posZero ∧ r.delta = "~" ∧ r.change = 0) := by
  intro r
  unfold Spec.Legacy.shown Spec.Legacy.deltaValue
  cases t with
  | p v =>
    by_cases hlt : lt v alpha = true
    · by_cases heq : eq new.mean old.mean = true
      · simp only [r, deltaPart, hlt, heq, if_true]
        refine ⟨by simp, ?_, by simp⟩
        intro _; split <;> simp [hc]
      · simp only [r, deltaPart, hlt, heq, if_true, Bool.false_eq_true, if_false]
        refine ⟨?_, by simp [heq], by simp⟩
        intro _; split <;> simp
    · simp only [r, deltaPart, hlt, Bool.false_eq_true, if_false]
      refine ⟨by simp [hlt], by simp [hlt], ?_⟩
      intro _; split <;> simp [hc]
  | errZeroVariance => simp only [r, deltaPart]; refine ⟨by simp, by simp, ?_⟩; intro _; split <;> simp [hc]
  | errSampleSize => simp only [r, deltaPart]; refine ⟨by simp, by simp, ?_⟩; intro _; split <;> simp [hc]
  | errSamplesEqual => simp only [r, deltaPart]; refine ⟨by simp, by simp, ?_⟩; intro _; split <;> simp [hc]
  | errOther msg => simp only [r, deltaPart]; refine ⟨by simp, by simp, ?_⟩; intro _; split <;> simp [hc]

/-- **change_direction** — a shown delta between different means is flagged +1 (better) or −1
(worse) by the metric's direction: for the metric named "speed" a non-negative change is better,
for every other metric a negative change is better. -/
theorem change_direction (t : TestRes) (alpha : Bits) (metric : Str) (old new : Metrics) (row : Row)
    (hs : Spec.Legacy.shown t alpha = true) (hne : eq new.mean old.mean = false) :
    (deltaPart t alpha metric old new row).change =
      (if metric = speed
       then (if lt (Spec.Legacy.deltaValue old.mean new.mean) posZero then -1 else 1)
       else (if lt (Spec.Legacy.deltaValue old.mean new.mean) posZero then 1 else -1)) := by
  unfold Spec.Legacy.shown at hs
  unfold Spec.Legacy.deltaValue
  cases t with
  | p v =>
    simp only at hs
    simp only [deltaPart, hs, hne, if_true, Bool.false_eq_true, if_false]
    by_cases hm : metric = speed
    · by_cases hl : lt (mul (sub (div new.mean old.mean) one) c100) posZero = true
      · split <;> simp [hm, hl]
      · split <;> simp [hm, hl]
    · by_cases hl : lt (mul (sub (div new.mean old.mean) one) c100) posZero = true
      · split <;> simp [hm, hl]
      · split <;> simp [hm, hl]
  | errZeroVariance => simp at hs
  | errSampleSize => simp at hs
  | errSamplesEqual => simp at hs
  | errOther msg => simp at hs

/-- which units display under the metric name "speed": exactly MB/s (and a unit literally
called "speed") — i.e. the specification's `higherIsBetter` -/
theorem metricOf_speed_known :
    metricOf (str "MB/s") = speed ∧ metricOf (str "speed") = speed ∧
    metricOf (str "ns/op") ≠ speed ∧ metricOf (str "B/op") ≠ speed ∧ metricOf (str "ns/GC") ≠ speed ∧
    metricOf (str "x-MB/s") ≠ speed ∧ metricOf (str "allocs/op") ≠ speed := by decide +kernel

/-- the ∀-unit characterisation, as the code defines it: a table's metric is "speed" exactly for
the unit MB/s and for a unit literally called speed — the specification's `higherIsBetter`.
(`x-MB/s` displays as `x-speed`, which is not `speed`.) -/
theorem metricOf_speed_spec (u : Str) : metricOf u = speed ↔ Spec.Legacy.higherIsBetter u = true := by
  rw [metricOf_speed_iff]
  unfold Spec.Legacy.higherIsBetter
  simp

/-- **change_direction_spec** — direction by unit: for the table of unit `u` (metric `metricOf u`)
a shown delta between different means is an improvement iff it is negative, except for the
higher-is-better units, where it is an improvement iff it is not negative. -/
theorem change_direction_spec (t : TestRes) (alpha : Bits) (u : Str) (old new : Metrics) (row : Row)
    (hs : Spec.Legacy.shown t alpha = true) (hne : eq new.mean old.mean = false) :
    (deltaPart t alpha (metricOf u) old new row).change =
      (if Spec.Legacy.higherIsBetter u
       then (if lt (Spec.Legacy.deltaValue old.mean new.mean) posZero then -1 else 1)
       else (if lt (Spec.Legacy.deltaValue old.mean new.mean) posZero then 1 else -1)) := by
  rw [change_direction t alpha (metricOf u) old new row hs hne]
  by_cases h : metricOf u = speed
  · rw [if_pos h, if_pos ((metricOf_speed_spec u).mp h)]
  · have : ¬ Spec.Legacy.higherIsBetter u = true := fun hh => h ((metricOf_speed_spec u).mpr hh)
    rw [if_neg h, if_neg this]

/-- **note_spec** — the note is the reason of an undecided test, or "(p=… n=…+…)" with the
retained sample sizes; empty for the missing test (p = −1). -/
theorem note_spec (t : TestRes) (alpha : Bits) (metric : Str) (old new : Metrics) (row : Row)
    (hn : row.note = "") :
    (deltaPart t alpha metric old new row).note =
      Spec.Legacy.noteOf t old.rvalues.length new.rvalues.length := by
  unfold deltaPart Spec.Legacy.noteOf
  cases t with
  | p v =>
    by_cases hlt : lt v alpha = true
    · by_cases heq : eq new.mean old.mean = true
      · by_cases hp : eq v cNeg1 = true <;> simp [hlt, heq, hn, hp]
      · by_cases hp : eq v cNeg1 = true <;> simp [hlt, heq, hn, hp]
    · by_cases hp : eq v cNeg1 = true <;> simp [hlt, hn, hp]
  | errZeroVariance => simp [hn]
  | errSampleSize => simp [hn]
  | errSamplesEqual => simp [hn]
  | errOther msg =>
    simp only [hn]
    split
    · rename_i h; simp at h
    · rfl

/-! ## first-appearance order -/

/-- **order_first_appearance** (units / groups / configs) — after any sequence of measurements
is added to a collection satisfying the bookkeeping invariant, each list is the first-appearance
list of the corresponding key component, continued from what was there. -/
theorem order_first_appearance (c : Coll) (kvs : List (Key × Bits)) (hinv : Inv c) :
    let c' := kvs.foldl (fun c kv => addValue c kv.1 kv.2) c
    c'.units = (kvs.map (·.1.unit)).foldl addString c.units ∧
    c'.groups = (kvs.map (·.1.group)).foldl addString c.groups ∧
    c'.configs = (kvs.map (·.1.config)).foldl addString c.configs ∧
    Inv c' :=
  addValues_lists c kvs hinv

/-- the empty collection satisfies the invariant, and `firstAppearance` is the fold from [] -/
theorem order_first_appearance_empty (kvs : List (Key × Bits)) :
    (kvs.foldl (fun c kv => addValue c kv.1 kv.2) ({} : Coll)).units
      = Spec.Legacy.firstAppearance (kvs.map (·.1.unit)) :=
  (order_first_appearance {} kvs inv_empty).1

/-- **order_first_appearance (benchmarks)** — `Benchmarks[g]` after any insertion sequence is the
first-appearance list of the benchmark names of the measurements whose group is `g`. -/
theorem benchmarks_first_appearance (c : Coll) (kvs : List (Key × Bits)) (hinv : InvB c) (g : Str) :
    let c' := kvs.foldl (fun c kv => addValue c kv.1 kv.2) c
    benchOf c'.benchmarks g =
      ((kvs.filter (fun kv => decide (kv.1.group = g))).map (·.1.bench)).foldl addString (benchOf c.benchmarks g) ∧
    InvB c' :=
  addValues_bench c kvs hinv g

theorem benchmarks_first_appearance_empty (kvs : List (Key × Bits)) (g : Str) :
    benchOf (kvs.foldl (fun c kv => addValue c kv.1 kv.2) ({} : Coll)).benchmarks g
      = Spec.Legacy.firstAppearance ((kvs.filter (fun kv => decide (kv.1.group = g))).map (·.1.bench)) :=
  (benchmarks_first_appearance {} kvs invB_empty g).1

/-- tables follow unit order: the tables' units are a sublist of the collection's unit list -/
theorem tables_follow_unit_order (T : TestFn) (G : GeoFn) (c : Coll) :
    List.Sublist ((tables T G c).2.map (·.unit)) c.units := by
  unfold tables
  exact tables_units_sublist T G (updateStats c) (effAlpha (updateStats c).alpha)

/-! ## sorting -/

/-- **sort_stable_spec** — for a strict weak order `less` (asymmetric, negatively transitive)
`sortStable` returns a permutation of its input in which no later element is less than an
earlier one, and any two elements `a` before `b` of the input with `¬ less b a` keep their
relative order (stability). -/
theorem sort_stable_spec {α : Type} (less : α → α → Bool)
    (hasym : ∀ a b, less a b = true → less b a = false)
    (hnt : ∀ a b c, less a b = false → less b c = false → less a c = false) (xs : List α) :
    (sortStable less xs).Perm xs ∧
    (sortStable less xs).Pairwise (fun a b => less b a = false) ∧
    ∀ a b, List.Sublist [a, b] xs → less b a = false → List.Sublist [a, b] (sortStable less xs) :=
  ⟨sortStable_perm less xs, sortStable_sorted less hasym hnt xs, sortStable_stable less xs⟩

/-- the hypotheses hold for a non-trivial instance -/
example : (sortStable (fun a b : Nat => decide (a / 10 < b / 10)) [31, 12, 35, 11, 20]) = [12, 11, 20, 31, 35] := by
  decide

/-- **sort_byName_spec** — `ByName` (and any `Reverse` of it, by `reverse_strict_weak`) is a
strict weak order, so sorting rows by name is a stable sort in the sense of `sort_stable_spec`
without further hypotheses. -/
theorem sort_byName_spec (rows : List Row) :
    (sortStable Order.byName.less rows).Perm rows ∧
    (sortStable Order.byName.less rows).Pairwise (fun a b => Order.byName.less b a = false) ∧
    ∀ a b, List.Sublist [a, b] rows → Order.byName.less b a = false →
      List.Sublist [a, b] (sortStable Order.byName.less rows) :=
  sort_stable_spec _ byName_strict_weak.1 byName_strict_weak.2 rows

theorem sort_reverse_byName_spec (rows : List Row) :
    (sortStable (Order.reverse .byName).less rows).Perm rows ∧
    (sortStable (Order.reverse .byName).less rows).Pairwise (fun a b => (Order.reverse .byName).less b a = false) ∧
    ∀ a b, List.Sublist [a, b] rows → (Order.reverse .byName).less b a = false →
      List.Sublist [a, b] (sortStable (Order.reverse .byName).less rows) :=
  sort_stable_spec _ (reverse_strict_weak _ byName_strict_weak).1 (reverse_strict_weak _ byName_strict_weak).2 rows

/-- **sort_order_spec** — for every `Order` (ByName, ByDelta, any nesting of Reverse): if no row of
the table has a NaN sort key `|PctDelta|·Change`, then `Sort` returns a permutation, sorted, and
stable.  (`F64.lt` is a strict weak order off NaN: `lt_iff_okey`.) -/
theorem sort_order_spec (o : Order) (rows : List Row) (hnan : ∀ r ∈ rows, isNaN (dkey r) = false) :
    (sortStable o.less rows).Perm rows ∧
    (sortStable o.less rows).Pairwise (fun a b => o.less b a = false) ∧
    ∀ a b, List.Sublist [a, b] rows → o.less b a = false → List.Sublist [a, b] (sortStable o.less rows) := by
  have hcongr : sortStable o.less rows = sortStable (sless o) rows :=
    sortStable_congr _ _ rows (fun a ha b hb => sless_eq o a b (hnan a ha) (hnan b hb))
  obtain ⟨hp, hs, hst⟩ := sort_stable_spec (sless o) (sless_strict_weak o).1 (sless_strict_weak o).2 rows
  rw [hcongr]
  refine ⟨hp, ?_, ?_⟩
  · apply List.Pairwise.imp_of_mem _ hs
    intro a b ha hb h
    rw [sless_eq o b a (hnan b (hp.subset hb)) (hnan a (hp.subset ha))]
    exact h
  · intro a b hsub hba
    apply hst a b hsub
    have ha : a ∈ rows := hsub.subset (by simp)
    have hb : b ∈ rows := hsub.subset (by simp)
    rw [← sless_eq o b a (hnan b hb) (hnan a ha)]
    exact hba

/-- with a NaN delta `ByDelta` is not a strict weak order and the result need not be sorted:
keys 2, NaN, 1 stay in this order although 1 < 2 -/
theorem byDelta_nan_counterexample :
    let r (pd : Bits) : Row := { pctDelta := pd, change := 1 }
    (sortStable Order.byDelta.less [r 0x4000000000000000, r nan, r one]).map (·.pctDelta)
        = [0x4000000000000000, nan, one] ∧
    Order.byDelta.less (r one) (r 0x4000000000000000) = true ∧
    Order.byDelta.less (r 0x4000000000000000) (r nan) = false ∧
    Order.byDelta.less (r nan) (r one) = false := by
  decide +kernel

/-- `Reverse` swaps the arguments -/
theorem reverse_less (o : Order) (a b : Row) : (Order.reverse o).less a b = o.less b a := rfl

/-! ## geomean -/

/-- **geomean_spec** — (1) only non-zero means enter the geomean; (2) the row is produced iff some
config contributes more than one mean; (3) its metric for a config is `G` of that config's
non-zero means (`G` = stats.GeoMean, i.e. exp of the mean of logs, a parameter), or empty. -/
theorem geomean_spec (G : GeoFn) (c : Coll) (unit : Str) (delta : Bool) :
    (∀ cfg, ∀ x ∈ geoMeansOf c unit cfg, eq x posZero = false) ∧
    ((addGeomean G c unit delta).isSome ↔ ∃ cfg ∈ c.configs, 1 < (geoMeansOf c unit cfg).length) ∧
    (∀ r, addGeomean G c unit delta = some r →
      r.bench = geoRowName ∧
      r.metrics = c.configs.map (fun cfg =>
        if (geoMeansOf c unit cfg).isEmpty then ({} : Metrics)
        else { unit := unit, mean := G (geoMeansOf c unit cfg) })) :=
  ⟨geoMeansOf_nonzero c unit, addGeomean_isSome G c unit delta, addGeomean_metrics G c unit delta⟩

end C17
