/-
C01 — Benchmark records survive a write/read round trip.
Property theorems (helpers are in Proofs/Lemmas/C01*.lean; the reader model and its refinement
theorem come from C02).

Vocabulary
* `Writer.writeAll P h`   the lines the model writer prints for history `h`; `render` = the bytes
* `readAll O fn text`     the C02 model reader (all records `Scan` delivers)
* `observe`, `WF`, …      `Model/Spec/RoundTrip.lean`
* `Obs.abs`               an observation with its file map read as a function (two `Config` lists
                          that denote the same map are the same observation)
* `NumOK O P`             the one hypothesis on number text: printing then parsing gives the number
                          back and a printed number is one field (`%v`/`atof`, `%d`/`Atoi`)
-/
import Model.Fmt.Writer
import Model.Spec.RoundTrip
import Proofs.C02
import Proofs.Lemmas.C01Clean

namespace C01
open Fmt Spec.Format Spec.RoundTrip

/-! ## 1. The writer state tracks the configuration (no assumption on any reader) -/

/-- some parameters, to instantiate statements that do not depend on them -/
def anyOracles : Oracles := ⟨UC.ascii, fun _ => .error .syntax, fun _ => .error .syntax, fun v u => (v, u)⟩

/-- **writer_state_tracks_config (one record).** From any writer state in which `order` lists
the keys of `fileConfig` once each, writing a result whose configuration keys are pairwise
distinct leaves `fileConfig` equal — as a map key ↦ (value, File) — to that configuration,
whichever of the three paths was taken (nothing to do / walk only / walk and new keys), and
keeps the state invariant. -/
theorem writer_state_tracks_config (P : WParams) (w : WState) (r : Res) (hw : WInv w)
    (hnd : (r.config.map Cfg.key).Nodup) :
    (∀ k, (Writer.write P w (.result r)).1.fileConfig.get k = cfgGet r.config k) ∧
    WInv (Writer.write P w (.result r)).1 := by
  simp only [Writer.write, writeResult]
  by_cases hneed : needFileConfig w.fileConfig r.config = true
  · simp only [hneed, ↓reduceIte]
    obtain ⟨hfc, hw', _⟩ := writeFileConfig_spec anyOracles [] w r.config hw hnd
    exact ⟨hfc, winv_first hw' false⟩
  · have hneed' : needFileConfig w.fileConfig r.config = false := by simpa using hneed
    simp only [hneed', Bool.false_eq_true, ↓reduceIte]
    exact ⟨noChange_spec _ _ hw.keys_nodup hnd hneed', winv_first hw false⟩

theorem winv_stateAfter (P : WParams) : ∀ (h : List Rec) (w : WState), WInv w →
    (∀ r, Rec.result r ∈ h → (r.config.map Cfg.key).Nodup) → WInv (Writer.stateAfter P w h) := by
  intro h
  induction h with
  | nil => intro w hw _; exact hw
  | cons rec rest ih =>
    intro w hw hnd
    have hrest : ∀ r, Rec.result r ∈ rest → (r.config.map Cfg.key).Nodup :=
      fun r hr => hnd r (List.mem_cons_of_mem _ hr)
    cases rec with
    | err e => exact ih w hw hrest
    | unit u => exact ih w hw hrest
    | result r =>
      exact ih _ (writer_state_tracks_config P w r hw (hnd r List.mem_cons_self)).2 hrest

theorem stateAfter_append (P : WParams) : ∀ (h1 h2 : List Rec) (w : WState),
    Writer.stateAfter P w (h1 ++ h2) = Writer.stateAfter P (Writer.stateAfter P w h1) h2 := by
  intro h1
  induction h1 with
  | nil => intro h2 w; rfl
  | cons r rs ih => intro h2 w; simp only [List.cons_append, Writer.stateAfter]; exact ih h2 _

/-- **writer_state_tracks_config (histories).** After any history of records with pairwise
distinct keys — additions, changes, deletions, re-additions, file↔internal flips in any order —
that ends with result `r`, the writer's `fileConfig` is exactly `r`'s configuration. -/
theorem writer_state_tracks_config_history (P : WParams) (h : List Rec) (r : Res)
    (hnd : ∀ x, Rec.result x ∈ h ++ [.result r] → (x.config.map Cfg.key).Nodup) (k : Bytes) :
    (Writer.stateAfter P WState.new (h ++ [.result r])).fileConfig.get k = cfgGet r.config k := by
  rw [stateAfter_append]
  have hw := winv_stateAfter P h WState.new winv_new
    (fun x hx => hnd x (List.mem_append_left _ hx))
  simp only [Writer.stateAfter]
  exact (writer_state_tracks_config P _ r hw (hnd r (by simp))).1 k

/-! ## 2. Writer and reader in step -/

theorem finalState_runLines (O : Oracles) (ls : List Bytes) :
    ∀ (st : RState) (m : CMap), Linked st m →
      Linked (finalState O st ls) (runLines O st.fileName m st.units (st.line + 1) ls).1 := by
  induction ls with
  | nil => intro st m hl; exact hl
  | cons l ls ih =>
    intro st m hl
    obtain ⟨hl', hu, hf, hn, _⟩ := scanLine_refines O st m hl l
    have := ih (scanLine O st l).1 _ hl'
    rw [hu, hf, hn] at this
    simpa [finalState, runLines] using this

theorem wf_recs {O : Oracles} {h : List Rec} (hwf : WFnoCR O h = true) :
    (∀ r ∈ h, recOKnoCR O r = true) ∧ distinctPairs (unitKeys h) = true := by
  simp only [WFnoCR, Bool.and_eq_true, List.all_eq_true] at hwf
  exact hwf

theorem wf_good {O : Oracles} {P : WParams} (hnum : NumOK O P) (fn : Bytes) {h : List Rec}
    (hwf : WFnoCR O h = true) : (∀ r ∈ h, RecGood O P fn r) ∧ UnitsFresh [] h :=
  ⟨fun r hr => recGood_of_ok O P fn hnum r ((wf_recs hwf).1 r hr),
   unitsFresh_of_distinct h [] (fun _ _ => rfl) (wf_recs hwf).2⟩

/-- **writer_reader_inv.** For every well-formed history `h` (hence for every prefix of a
history): when the C02 model reader has consumed the lines the writer printed for `h`, its
configuration store satisfies the C02 store invariant and denotes exactly the FILE part of the
writer's `fileConfig` — reader's map = { k ↦ v | fileConfig k = (v, File = true) } — while
`fileConfig`, with both kinds of entries, is the configuration of the last result
(`writer_state_tracks_config_history`) and `order` lists its keys once each. The CR clause of
`WF` is not needed at the level of lines. -/
theorem writer_reader_inv (O : Oracles) (P : WParams) (hnum : NumOK O P) (fn : Bytes) (h : List Rec)
    (hwf : WFnoCR O h = true) :
    let w := Writer.stateAfter P WState.new h
    let st := finalState O (RState.zero.reset fn []) (Writer.writeAll P h)
    WInv w ∧ st.store.Inv ∧ ∀ k, st.store.toMap k = fileOnly (w.fileConfig.get k) := by
  obtain ⟨hgood, hfresh⟩ := wf_good hnum (RState.zero.reset fn []).fileName hwf
  have hi := history_inv O P (RState.zero.reset fn []).fileName h WState.new [] [] 1
    (inv_new O _) hgood hfresh
  have hl := finalState_runLines O (Writer.writeAll P h) (RState.zero.reset fn []) []
    (reset_linked RState.zero fn [])
  refine ⟨hi.winv, hl.inv, fun k => ?_⟩
  rw [hl.map k]
  exact hi.link k

/-! ## 3. The round trip -/

theorem readAll_lines (O : Oracles) (fn : Bytes) (ls : List Bytes) (hc : ∀ l ∈ ls, Clean l) :
    (readAll O fn (render ls)).map aobsRec =
      ((runLines O (displayName fn) [] [] 1 ls).2.2).map aobsS := by
  have h := (C02.reader_refines_spec O fn (render ls)).1
  have e1 : (readAll O fn (render ls)).map aobsRec = ((readAll O fn (render ls)).map Rec.abs).map aobsA := by
    rw [List.map_map]; exact List.map_congr_left (fun r _ => aobsRec_eq r)
  rw [e1, h, List.map_map]
  unfold Spec.Format.read
  rw [lines_render ls hc, readFrom_eq_runLines]
  exact List.map_congr_left (fun r _ => (aobsS_eq r).symm)

/-- **roundtrip_history.** For every finite history `h` of results, unit-metadata records and
syntax errors that is well formed (`WF`) — keys added, changed, deleted, re-added, switched
between file and internal from one result to the next in any order; any measurement bits
(zero, ±Inf, NaN, subnormal …), rescaled or not — the C02 model reader applied to the bytes the
model writer produces delivers exactly `observeWritten h`: the same results in the same order
with the same name, iteration count, measurements as written and file configuration (as a
map), the same unit metadata, and nothing else (no error record, no extra record). -/
theorem roundtrip_history (O : Oracles) (P : WParams) (hnum : NumOK O P) (fn : Bytes) (h : List Rec)
    (hwf : WF O h = true) :
    (observeRead (readAll O fn (render (Writer.writeAll P h)))).map Obs.abs =
      (observeWritten h).map Obs.abs := by
  simp only [WF, Bool.and_eq_true, Bool.not_eq_true'] at hwf
  obtain ⟨hwf, hcr⟩ := hwf
  obtain ⟨hgood, hfresh⟩ := wf_good hnum (displayName fn) hwf
  have hclean : ∀ l ∈ Writer.writeAll P h, Clean l :=
    history_clean O P hnum h WState.new (fun k hk => by simp [WState.new] at hk) (wf_recs hwf).1 hcr
  -- the read-back side: Config lists have distinct keys, so they are maps
  have hnd := (C02.reader_refines_spec O fn (render (Writer.writeAll P h))).2.1
  have e1 : (observeRead (readAll O fn (render (Writer.writeAll P h)))).map Obs.abs =
      (readAll O fn (render (Writer.writeAll P h))).map aobsRec := by
    unfold observeRead
    rw [List.map_map]
    apply List.map_congr_left
    intro r hr
    exact obs_abs_rec r (fun res e => hnd res (e ▸ hr))
  -- the written side
  have e2 : (observeWritten h).map Obs.abs = (kept h).map aobsRec := by
    rw [observeWritten_eq, List.map_map]
    apply List.map_congr_left
    intro r hr
    apply obs_abs_rec r
    intro res e
    have hm : r ∈ h := (List.mem_filter.1 hr).1
    have := (wf_recs hwf).1 r hm
    rw [e] at this
    simp only [recOKnoCR, resOKnoCR, Bool.and_eq_true] at this
    exact distinct_nodup _ this.1.1.1.1
  rw [e1, e2, readAll_lines O fn _ hclean]
  exact history_lines O P (displayName fn) h WState.new [] [] 1 (inv_new O _) hgood hfresh

/-- Same round trip one level up: at the level of LINES the CR clause is not needed — the
line-structured specification reader of C02 applied to the printed lines gives `h` back for
every history satisfying `WFnoCR`. (The CR clause matters only when lines are joined with LF
and split again: N1.) -/
theorem roundtrip_lines (O : Oracles) (P : WParams) (hnum : NumOK O P) (fn : Bytes) (h : List Rec)
    (hwf : WFnoCR O h = true) :
    ((readFrom O fn [] [] 1 (Writer.writeAll P h)).1).map aobsS = (kept h).map aobsRec := by
  obtain ⟨hgood, hfresh⟩ := wf_good hnum fn hwf
  rw [readFrom_eq_runLines]
  exact history_lines O P fn h WState.new [] [] 1 (inv_new O _) hgood hfresh

/-! ## 4. Internal configuration never reappears as file configuration -/

theorem cfgGet_of_mem {config : List Cfg} (hnd : (config.map Cfg.key).Nodup) {c : Cfg} (hc : c ∈ config) :
    cfgGet config c.key = some (c.value, c.file) := by
  induction config with
  | nil => simp at hc
  | cons x xs ih =>
    simp only [List.map_cons, List.nodup_cons] at hnd
    rw [cfgGet_cons]
    simp only [List.mem_cons] at hc
    rcases hc with hc | hc
    · subst hc; simp
    · have hne : x.key ≠ c.key := by
        intro e
        apply hnd.1
        rw [e]
        exact List.mem_map.2 ⟨c, hc, rfl⟩
      simp only [hne, ↓reduceIte]
      exact ih hnd.2 hc

/-- **internal_never_file.** In the round trip of a well-formed history, take the i-th record
written, a result `r`, and the i-th record read back (it exists and is a result `r'`): no key
that is internal configuration in `r` is file configuration in `r'` — whatever the key was in
earlier records (file configuration with the same value included: the case repaired by
40348e7). -/
theorem internal_never_file (O : Oracles) (P : WParams) (hnum : NumOK O P) (fn : Bytes) (h : List Rec)
    (hwf : WF O h = true) (i : Nat) (r : Res) (hi : (kept h)[i]? = some (.result r)) :
    ∃ r', (readAll O fn (render (Writer.writeAll P h)))[i]? = some (.result r') ∧
      ∀ c ∈ r.config, c.file = false → ∀ c' ∈ r'.config, c'.key = c.key → c'.file = false := by
  have hrt := roundtrip_history O P hnum fn h hwf
  have hwf' := hwf
  simp only [WF, Bool.and_eq_true, Bool.not_eq_true'] at hwf'
  have hnd := (C02.reader_refines_spec O fn (render (Writer.writeAll P h))).2.1
  rw [observeWritten_eq] at hrt
  unfold observeRead at hrt
  simp only [List.map_map] at hrt
  have hi' := congrArg (fun l => l[i]?) hrt
  simp only [List.getElem?_map, hi, Option.map_some, Function.comp_apply] at hi'
  cases hg : (readAll O fn (render (Writer.writeAll P h)))[i]? with
  | none => simp [hg] at hi'
  | some rec' =>
    simp only [hg, Option.map_some, Option.some.injEq] at hi'
    have hmem : rec' ∈ readAll O fn (render (Writer.writeAll P h)) := List.mem_of_getElem? hg
    have hrm : Rec.result r ∈ h := (List.mem_filter.1 (List.mem_of_getElem? hi)).1
    have hrnd : (r.config.map Cfg.key).Nodup := by
      have := (wf_recs hwf'.1).1 _ hrm
      simp only [recOKnoCR, resOKnoCR, Bool.and_eq_true] at this
      exact distinct_nodup _ this.1.1.1.1
    cases rec' with
    | err e => simp [observe, Obs.abs] at hi'
    | unit u => simp [observe, Obs.abs] at hi'
    | result r' =>
      refine ⟨r', rfl, fun c hc hf c' hc' hk => ?_⟩
      have hnd' := hnd r' hmem
      have e1 := obs_abs_rec (.result r') (fun res e => by injection e with e; subst e; exact hnd')
      have e2 := obs_abs_rec (.result r) (fun res e => by injection e with e; subst e; exact hrnd)
      simp only [Function.comp_apply] at hi'
      rw [e1, e2] at hi'
      simp only [aobsRec, AObs.result.injEq] at hi'
      have hfm := congrFun hi'.2.2.2 c.key
      unfold fmOf at hfm
      rw [cfgGet_of_mem hrnd hc, hf, ← hk, cfgGet_of_mem hnd' hc'] at hfm
      cases hcf : c'.file with
      | false => rfl
      | true => rw [hcf] at hfm; simp at hfm

/-! ## 5. Texts -/

/-- **roundtrip_text_partial.** Parsing a text, writing the records and parsing the output
again gives the same observation stream as the first parse. PARTIAL: the hypothesis
`WF O (readAll O fn t)` stands for two things —
(a) `reader_results_WF` (NOT proved): every stream the model reader emits satisfies `WFnoCR`
    (keys it accepted are `keyOK`, fields it split off are `tokenOK`, values non-empty without
    leading blank, unit metadata distinct …); the converse direction of `C01Tokens.lean`.
    The check run evaluates `WFnoCR` on every reader-produced history (kind=text/filter): a
    counterexample would surface as an S-layer hit;
(b) `NoCRValue t`: no file-configuration value of the parsed stream ends in CR — without it the
    statement is false on the current code (known finding N1, witness `k: v\r\r\n`). -/
theorem roundtrip_text_partial (O : Oracles) (P : WParams) (hnum : NumOK O P) (fn fn' : Bytes) (t : Bytes)
    (hwf : WF O (readAll O fn t) = true) :
    (observeRead (readAll O fn' (render (Writer.writeAll P (readAll O fn t))))).map Obs.abs =
      (observeWritten (readAll O fn t)).map Obs.abs :=
  roundtrip_history O P hnum fn' (readAll O fn t) hwf

/-! ## 6. Non-vacuity -/

/-- a key `a` (97), a value `1`, a measurement `5 u` -/
def exVal : Val := { value := 5, unit := [117], origValue := 0, origUnit := [] }
def exRes (cfg : List Cfg) : Rec :=
  .result { config := cfg, name := [88], iters := 1, values := [exVal], fileName := [], line := 0 }

/-- a four-record history with delete, re-add and file→internal→file flips -/
def exHistory : List Rec :=
  [ exRes [⟨[97], [49], true⟩, ⟨[98], [50], true⟩, ⟨[46, 102], [120], false⟩],
    exRes [⟨[97], [49], false⟩],                       -- a: file → internal; b, .f deleted
    .unit ⟨[117], [107], [117], [118], [], 0⟩,
    exRes [⟨[98], [51], true⟩, ⟨[97], [49], true⟩],   -- b re-added; a: internal → file
    exRes [] ]

example : WF anyOracles exHistory = true := by decide

/-- what the model writer prints for it (number text: every value prints as `5`) -/
example :
    Writer.writeAll ⟨fun _ => [53]⟩ exHistory =
      [[97, 58, 32, 49], [98, 58, 32, 50], [],
       [66, 101, 110, 99, 104, 109, 97, 114, 107, 88, 32, 49, 32, 53, 32, 117],
       [], [97, 58], [98, 58], [46, 102, 58], [],
       [66, 101, 110, 99, 104, 109, 97, 114, 107, 88, 32, 49, 32, 53, 32, 117],
       [85, 110, 105, 116, 32, 117, 32, 107, 61, 118],
       [], [97, 58, 32, 49], [98, 58, 32, 51], [],
       [66, 101, 110, 99, 104, 109, 97, 114, 107, 88, 32, 49, 32, 53, 32, 117],
       [], [97, 58], [98, 58], [],
       [66, 101, 110, 99, 104, 109, 97, 114, 107, 88, 32, 49, 32, 53, 32, 117]] := by
  decide

/-- N1: the CR clause of `WF` is what fails on `k: v\r` -/
example :
    WFnoCR anyOracles [exRes [⟨[107], [118, 13], true⟩]] = true ∧
    WF anyOracles [exRes [⟨[107], [118, 13], true⟩]] = false := by decide

end C01
