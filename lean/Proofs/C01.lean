/-
C01 — Benchmark records survive a write/read round trip. Property theorems.
-/
import Model.Fmt.Writer
import Model.Spec.RoundTrip
import Proofs.C02

namespace C01
open Fmt Spec.RoundTrip

/-- placeholder while the cycle is brought up -/
theorem write_err_silent (P : WParams) (w : WState) (e : SyntaxErr) :
    Writer.write P w (.err e) = (w, []) := rfl

end C01
