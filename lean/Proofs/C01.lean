/-
C01 — Benchmark records survive a write/read round trip.
Property theorems (helpers are in Proofs/Lemmas/C01*.lean). The reader is C02's MODEL reader
(`Model/Fmt/Reader.lean`: `scanLine`, `readLines`, `readAll`, the slot store of `Result.lean`);
of C02's proofs only the slot-store lemmas (`C02Store.lean`) are used.

Vocabulary
* `Writer.writeAll P h`   the lines the model writer prints for history `h`; `render` = the bytes
* `readAll O fn text`     everything `NewReader(text, fn)` delivers
* `observe`, `WF`, …      `Model/Spec/RoundTrip.lean`
* `Obs.abs`               an observation with its file map read as a function (two `Config` lists
                          that denote the same map are the same observation)
* `NumOKFor O P h`        the one hypothesis on number text, for the numbers occurring in `h`:
                          printing then parsing gives the number back (NaNs identified) and a
                          printed number is one field (`%v`/`atof`, `%d`/`Atoi`)
-/
import Model.Fmt.Writer
import Model.Spec.RoundTrip
import Proofs.Lemmas.C01ReaderWF
import Proofs.Lemmas.C01Num
import Proofs.Lemmas.C01Shortest

namespace C01
open Fmt Spec.RoundTrip Spec.FmtFloat

/-! ## 1. The writer state tracks the configuration (no assumption on any reader) -/

/-- some parameters, to instantiate statements that do not depend on them -/
def anyOracles : Oracles := ⟨UC.ascii, fun _ => .error .syntax, fun _ => .error .syntax, fun v u => (v, u)⟩

/-- **writer_state_tracks_config (one record).** From any writer state in which `order` lists
the keys of `fileConfig` once each, writing a result whose configuration keys are pairwise
distinct leaves `fileConfig` equal — as a map key ↦ (value, File) — to that configuration,
whichever of the three paths was taken (nothing to do / walk only / walk and new keys), and
keeps the state invariant. -/
theorem writer_state_tracks_config (P : WParams) (w : WState) (r : Res) (hw : WInv w)
    (hnd : (r.config.map Cfg.key).Nodup) :
    (∀ k, (Writer.write P w (.result r)).1.fileConfig.get k = cfgGet r.config k) ∧
    WInv (Writer.write P w (.result r)).1 := by
  simp only [Writer.write, writeResult]
  by_cases hneed : needFileConfig w.fileConfig r.config = true
  · simp only [hneed, ↓reduceIte]
    obtain ⟨hfc, hw', _⟩ := writeFileConfig_spec anyOracles w r.config hw hnd
    exact ⟨hfc, winv_first hw' false⟩
  · have hneed' : needFileConfig w.fileConfig r.config = false := by simpa using hneed
    simp only [hneed', Bool.false_eq_true, ↓reduceIte]
    exact ⟨noChange_spec _ _ hw.keys_nodup hnd hneed', winv_first hw false⟩

theorem winv_stateAfter (P : WParams) : ∀ (h : List Rec) (w : WState), WInv w →
    (∀ r, Rec.result r ∈ h → (r.config.map Cfg.key).Nodup) → WInv (Writer.stateAfter P w h) := by
  intro h
  induction h with
  | nil => intro w hw _; exact hw
  | cons rec rest ih =>
    intro w hw hnd
    have hrest : ∀ r, Rec.result r ∈ rest → (r.config.map Cfg.key).Nodup :=
      fun r hr => hnd r (List.mem_cons_of_mem _ hr)
    cases rec with
    | err e => exact ih w hw hrest
    | unit u => exact ih w hw hrest
    | result r =>
      exact ih _ (writer_state_tracks_config P w r hw (hnd r List.mem_cons_self)).2 hrest

theorem stateAfter_append (P : WParams) : ∀ (h1 h2 : List Rec) (w : WState),
    Writer.stateAfter P w (h1 ++ h2) = Writer.stateAfter P (Writer.stateAfter P w h1) h2 := by
  intro h1
  induction h1 with
  | nil => intro h2 w; rfl
  | cons r rs ih => intro h2 w; simp only [List.cons_append, Writer.stateAfter]; exact ih h2 _

/-- **writer_state_tracks_config (histories).** After any history of records with pairwise
distinct keys — additions, changes, deletions, re-additions, file↔internal flips in any order —
that ends with result `r`, the writer's `fileConfig` is exactly `r`'s configuration. -/
theorem writer_state_tracks_config_history (P : WParams) (h : List Rec) (r : Res)
    (hnd : ∀ x, Rec.result x ∈ h ++ [.result r] → (x.config.map Cfg.key).Nodup) (k : Bytes) :
    (Writer.stateAfter P WState.new (h ++ [.result r])).fileConfig.get k = cfgGet r.config k := by
  rw [stateAfter_append]
  have hw := winv_stateAfter P h WState.new winv_new
    (fun x hx => hnd x (List.mem_append_left _ hx))
  simp only [Writer.stateAfter]
  exact (writer_state_tracks_config P _ r hw (hnd r (by simp))).1 k

/-! ## 2. Writer and reader in step -/

theorem wf_recs {O : Oracles} {h : List Rec} (hwf : WFnoCR O h = true) :
    (∀ r ∈ h, recOKnoCR O r = true) ∧ distinctPairs (unitKeys h) = true := by
  simp only [WFnoCR, Bool.and_eq_true, List.all_eq_true] at hwf
  exact hwf

theorem wf_good {O : Oracles} {P : WParams} {h : List Rec} (hnum : NumOKFor O P h)
    (hwf : WFnoCR O h = true) : (∀ r ∈ h, RecGood O P r) ∧ UnitsFresh [] h :=
  ⟨fun r hr => recGood_of_ok O P r (fun res e => hnum res (e ▸ hr)) ((wf_recs hwf).1 r hr),
   unitsFresh_of_distinct h [] (fun _ _ => rfl) (wf_recs hwf).2⟩

/-- the state of `NewReader` before the first line -/
def st0 (fn : Bytes) : RState := RState.zero.reset fn []

theorem st0_store (fn : Bytes) : (st0 fn).store = Store.empty.reset := rfl
theorem st0_units (fn : Bytes) : (st0 fn).units = [] := rfl

/-- **writer_reader_inv.** For every history `h` satisfying `WFnoCR` (hence for every prefix of
a history): when the model reader has consumed the lines the writer printed for `h`, its slot
store satisfies the store invariant of C02 and denotes exactly the FILE part of the writer's
`fileConfig` — reader's map = { k ↦ v | fileConfig k = (v, File = true) } — while `fileConfig`,
with both kinds of entries, is the configuration of the last result
(`writer_state_tracks_config_history`) and `order` lists its keys once each. The CR clause of
`WF` is not needed at the level of lines. -/
theorem writer_reader_inv (O : Oracles) (P : WParams) (fn : Bytes) (h : List Rec)
    (hnum : NumOKFor O P h) (hwf : WFnoCR O h = true) :
    let w := Writer.stateAfter P WState.new h
    let st := finalState O (st0 fn) (Writer.writeAll P h)
    WInv w ∧ st.store.Inv ∧ ∀ k, st.store.toMap k = fileOnly (w.fileConfig.get k) := by
  obtain ⟨hgood, hfresh⟩ := wf_good hnum hwf
  have hi := (history_lines O P h WState.new (st0 fn) (by rw [st0_store]; exact inv_new O _) hgood
    (by rw [st0_units]; exact hfresh)).2
  exact ⟨hi.winv, hi.link.inv, hi.link.map⟩

/-! ## 3. The round trip -/

theorem clean_noLF {ls : List Bytes} (h : ∀ l ∈ ls, Clean l) : ∀ l ∈ ls, Bytes.hasByte l 10 = false :=
  fun l hl => (h l hl).1

/-- **roundtrip_history.** For every finite history `h` of results, unit-metadata records and
syntax errors that is well formed (`WF`) — keys added, changed, deleted, re-added, switched
between file and internal from one result to the next in any order; any measurement bits
(zero, ±Inf, NaN, subnormal …), rescaled or not — the model reader applied to the BYTES the
model writer produces delivers exactly `observeWritten h`: the same results in the same order
with the same name, iteration count, measurements as written and file configuration (as a
map), the same unit metadata, and nothing else (no error record, no extra record). -/
theorem roundtrip_history (O : Oracles) (P : WParams) (fn : Bytes) (h : List Rec)
    (hnum : NumOKFor O P h) (hwf : WF O h = true) :
    (observeRead (readAll O fn (render (Writer.writeAll P h)))).map Obs.abs =
      (observeWritten h).map Obs.abs := by
  simp only [WF, Bool.and_eq_true, Bool.not_eq_true'] at hwf
  obtain ⟨hwf, hcr⟩ := hwf
  obtain ⟨hgood, hfresh⟩ := wf_good hnum hwf
  have hclean : ∀ l ∈ Writer.writeAll P h, Clean l :=
    history_clean O P h WState.new hnum (fun k hk => by simp [WState.new] at hk) (wf_recs hwf).1 hcr
  have hread : readAll O fn (render (Writer.writeAll P h)) = readLines O (st0 fn) (Writer.writeAll P h) := by
    unfold readAll st0
    rw [splitLines_render _ hclean]
  -- the read-back side: Config lists have distinct keys, so they are maps
  have hok := readLines_wf O (Writer.writeAll P h) (st0 fn) (by rw [st0_store]; exact Store.inv_reset _)
    (by rw [st0_store]; exact sgood_reset _ _) (clean_noLF hclean)
  have e1 : (observeRead (readAll O fn (render (Writer.writeAll P h)))).map Obs.abs =
      (readLines O (st0 fn) (Writer.writeAll P h)).map aobsRec := by
    rw [hread]
    unfold observeRead
    rw [List.map_map]
    apply List.map_congr_left
    intro r hr
    apply obs_abs_rec r
    intro res e
    have := hok r hr
    rw [e] at this
    simp only [recOKnoCR, resOKnoCR, Bool.and_eq_true] at this
    exact distinct_nodup _ this.1.1.1.1
  -- the written side
  have e2 : (observeWritten h).map Obs.abs = (kept h).map aobsRec := by
    rw [observeWritten_eq, List.map_map]
    apply List.map_congr_left
    intro r hr
    apply obs_abs_rec r
    intro res e
    have hm : r ∈ h := (List.mem_filter.1 hr).1
    have := (wf_recs hwf).1 r hm
    rw [e] at this
    simp only [recOKnoCR, resOKnoCR, Bool.and_eq_true] at this
    exact distinct_nodup _ this.1.1.1.1
  rw [e1, e2]
  exact (history_lines O P h WState.new (st0 fn) (by rw [st0_store]; exact inv_new O _) hgood
    (by rw [st0_units]; exact hfresh)).1

/-- every line the writer prints for `h` is shorter than the reader's line limit (64 KiB) -/
def LinesFit (P : WParams) (h : List Rec) : Prop := ∀ l ∈ Writer.writeAll P h, l.length < maxToken

/-- **roundtrip_history_limited.** The round trip against the reader WITH its line limit
(`readAllLim`, C02's model of `bufio.Scanner`'s `MaxScanTokenSize`): when no printed line reaches
64 KiB the limited reader delivers the same stream as the unlimited one — hence exactly
`observeWritten h` — and reports no error. (The complement, a printed line of ≥ 65536 bytes, is
class N1L: the real reader stops there with `token too long`.) -/
theorem roundtrip_history_limited (O : Oracles) (P : WParams) (fn : Bytes) (h : List Rec)
    (hnum : NumOKFor O P h) (hwf : WF O h = true) (hfit : LinesFit P h) :
    (observeRead (readAllLim O fn (render (Writer.writeAll P h))).1).map Obs.abs =
      (observeWritten h).map Obs.abs ∧
    (readAllLim O fn (render (Writer.writeAll P h))).2 = none := by
  have hwf' := hwf
  simp only [WF, Bool.and_eq_true, Bool.not_eq_true'] at hwf'
  have hclean : ∀ l ∈ Writer.writeAll P h, Clean l :=
    history_clean O P h WState.new hnum (fun k hk => by simp [WState.new] at hk) (wf_recs hwf'.1).1 hwf'.2
  have hlim : readAllLim O fn (render (Writer.writeAll P h)) =
      (readAll O fn (render (Writer.writeAll P h)), none) := by
    unfold readAllLim readAll
    simp only [splitLinesLim_render _ hclean hfit, splitLines_render _ hclean]
    rfl
  rw [hlim]
  exact ⟨roundtrip_history O P fn h hnum hwf, rfl⟩

/-- Same round trip one level up: at the level of LINES the CR clause is not needed — the
model reader fed with the printed lines gives `h` back for every history satisfying `WFnoCR`.
(The CR clause matters only when lines are joined with LF and split again: N1.) -/
theorem roundtrip_lines (O : Oracles) (P : WParams) (fn : Bytes) (h : List Rec)
    (hnum : NumOKFor O P h) (hwf : WFnoCR O h = true) :
    (readLines O (st0 fn) (Writer.writeAll P h)).map aobsRec = (kept h).map aobsRec := by
  obtain ⟨hgood, hfresh⟩ := wf_good hnum hwf
  exact (history_lines O P h WState.new (st0 fn) (by rw [st0_store]; exact inv_new O _) hgood
    (by rw [st0_units]; exact hfresh)).1

/-! ## 4. Internal configuration never reappears as file configuration -/

/-- **internal_never_file.** In the round trip of a well-formed history, take the i-th record
written, a result `r`, and the i-th record read back (it exists and is a result `r'`): no key
that is internal configuration in `r` is file configuration in `r'` — whatever the key was in
earlier records (file configuration with the same value included: the case repaired by
40348e7). -/
theorem internal_never_file (O : Oracles) (P : WParams) (fn : Bytes) (h : List Rec)
    (hnum : NumOKFor O P h) (hwf : WF O h = true) (i : Nat) (r : Res)
    (hi : (kept h)[i]? = some (.result r)) :
    ∃ r', (readAll O fn (render (Writer.writeAll P h)))[i]? = some (.result r') ∧
      ∀ c ∈ r.config, c.file = false → ∀ c' ∈ r'.config, c'.key = c.key → c'.file = false := by
  have hrt := roundtrip_history O P fn h hnum hwf
  have hwf' := hwf
  simp only [WF, Bool.and_eq_true, Bool.not_eq_true'] at hwf'
  have hrwf := reader_results_WF O fn (render (Writer.writeAll P h))
  rw [observeWritten_eq] at hrt
  unfold observeRead at hrt
  simp only [List.map_map] at hrt
  have hi' := congrArg (fun l => l[i]?) hrt
  simp only [List.getElem?_map, hi, Option.map_some, Function.comp_apply] at hi'
  cases hg : (readAll O fn (render (Writer.writeAll P h)))[i]? with
  | none => simp [hg] at hi'
  | some rec' =>
    simp only [hg, Option.map_some, Option.some.injEq] at hi'
    have hmem : rec' ∈ readAll O fn (render (Writer.writeAll P h)) := List.mem_of_getElem? hg
    have hrm : Rec.result r ∈ h := (List.mem_filter.1 (List.mem_of_getElem? hi)).1
    have hrnd : (r.config.map Cfg.key).Nodup := by
      have := (wf_recs hwf'.1).1 _ hrm
      simp only [recOKnoCR, resOKnoCR, Bool.and_eq_true] at this
      exact distinct_nodup _ this.1.1.1.1
    cases rec' with
    | err e => simp [observe, Obs.abs] at hi'
    | unit u => simp [observe, Obs.abs] at hi'
    | result r' =>
      refine ⟨r', rfl, fun c hc hf c' hc' hk => ?_⟩
      have hnd' : (r'.config.map Cfg.key).Nodup := by
        have := (wf_recs hrwf).1 _ hmem
        simp only [recOKnoCR, resOKnoCR, Bool.and_eq_true] at this
        exact distinct_nodup _ this.1.1.1.1
      have e1 := obs_abs_rec (.result r') (fun res e => by injection e with e; subst e; exact hnd')
      have e2 := obs_abs_rec (.result r) (fun res e => by injection e with e; subst e; exact hrnd)
      simp only [Function.comp_apply] at hi'
      rw [e1, e2] at hi'
      simp only [aobsRec, AObs.result.injEq] at hi'
      have hfm := congrFun hi'.2.2.2 c.key
      unfold fmOf at hfm
      rw [cfgGet_of_mem' hrnd hc, hf, ← hk, cfgGet_of_mem' hnd' hc'] at hfm
      cases hcf : c'.file with
      | false => rfl
      | true => rw [hcf] at hfm; simp at hfm

/-! ## 5. Texts -/

/-- **reader_results_WF** (restated): whatever the text, the stream the reader delivers
satisfies every clause of `WF` but (possibly) the CR clause: keys it accepted are `keyOK`,
fields it split off are `tokenOK`, values are non-empty without LF and without leading
blank/tab, `Config` keys are pairwise distinct, every result has a measurement, unit metadata
is well formed and no (tidied unit, key) setting is delivered twice. -/
theorem reader_results_WF' (O : Oracles) (fn text : Bytes) : WFnoCR O (readAll O fn text) = true :=
  reader_results_WF O fn text

/-- no file-configuration value of the parsed stream ends in CR (the complement of class N1) -/
def NoCRValue (O : Oracles) (fn t : Bytes) : Prop := hasCRValue (readAll O fn t) = false

/-- **roundtrip_text.** For EVERY text `t` whose parsed `key: value` values do not end in CR:
parse, write, parse again — the second parse observes exactly what the first one delivered
(results with names, iteration counts, measurements as written, file configuration; unit
metadata; syntax errors of the input are dropped, none is added). Without `NoCRValue` the
statement is false on the current code (N1: `k: v\r\r\n`). -/
theorem roundtrip_text (O : Oracles) (P : WParams) (fn fn' : Bytes) (t : Bytes)
    (hnum : NumOKFor O P (readAll O fn t)) (hcr : NoCRValue O fn t) :
    (observeRead (readAll O fn' (render (Writer.writeAll P (readAll O fn t))))).map Obs.abs =
      (observeWritten (readAll O fn t)).map Obs.abs := by
  apply roundtrip_history O P fn' (readAll O fn t) hnum
  simp only [WF, Bool.and_eq_true, Bool.not_eq_true']
  exact ⟨reader_results_WF O fn t, hcr⟩

/-! ## 5b. What the writer prints for internal keys, and why the reader is not disturbed -/

/-- Every line of a configuration block is a blank line, the line `key:` for a key the writer
knows, or `key: value` with the value of a FILE entry of the record being written: an internal
entry never contributes a `key: value` line. -/
theorem config_block_lines (w : WState) (config : List Cfg) :
    ∀ l ∈ (writeFileConfig w config).2,
      l = [] ∨ (∃ k ∈ w.order, l = delLine k) ∨
      (∃ k c, c ∈ config ∧ c.file = true ∧ l = kvLine k c.value) := by
  intro l hl
  obtain ⟨_, w2⟩ := walk_sub config w.order w.fileConfig
  obtain ⟨_, n2⟩ := newKeys_sub config (walk config w.order w.fileConfig).2.1 (walk config w.order w.fileConfig).1
  unfold writeFileConfig at hl
  simp only [List.mem_append, List.mem_singleton] at hl
  rcases hl with ((hl | hl) | hl) | hl
  · split at hl
    · simp only [List.mem_singleton] at hl; exact Or.inl hl
    · simp at hl
  · rcases w2 l hl with ⟨k, hk, e⟩ | ⟨k, _, c, hc, hf, e⟩
    · exact Or.inr (Or.inl ⟨k, hk, e⟩)
    · exact Or.inr (Or.inr ⟨k, c, hc, hf, e⟩)
  · split at hl
    · obtain ⟨c, hc, hf, e⟩ := n2 l hl
      exact Or.inr (Or.inr ⟨c.key, c, hc, hf, e⟩)
    · simp at hl
  · exact Or.inl hl

/-- What the writer prints for a key it holds as INTERNAL configuration:
the line `key:` when the key has disappeared from the result, nothing when it is still internal
(changed or not), `key: value` only when it has become file configuration. -/
theorem internal_key_lines (config : List Cfg) (fc : FC) (k v : Bytes) (hk : fc.get k = some (v, false)) :
    (cfgAt config k = none → (walk config [k] fc).2.2 = [delLine k]) ∧
    (∀ c, cfgAt config k = some c → c.file = false → (walk config [k] fc).2.2 = []) ∧
    (∀ c, cfgAt config k = some c → c.file = true → (walk config [k] fc).2.2 = [kvLine k c.value]) := by
  refine ⟨fun h => by simp [walk, h], fun c h hf => ?_, fun c h hf => ?_⟩
  · simp only [walk, h, hk, Option.getD_some, hf]
    split <;> simp
  · simp only [walk, h, hk, Option.getD_some, hf]
    simp

/-- Why that `key:` line does not disturb a reader: for an internal key satisfying the `WF`
clause `internalKeyOK`, the line delivers no record, leaves unit metadata alone and leaves the
reader's configuration — which does not hold the key, internal configuration never having been
printed — exactly as it was (the line is either ignored outright, e.g. `.file:`, or deletes a
key that is not there). -/
theorem internal_delete_line_harmless (O : Oracles) (k : Bytes) (hk : internalKeyOK O k = true)
    (st : RState) (hi : st.store.Inv) (hnone : st.store.toMap k = none) :
    (scanLine O st (delLine k)).2 = [] ∧ (scanLine O st (delLine k)).1.units = st.units ∧
    (scanLine O st (delLine k)).1.store.Inv ∧
    ∀ k', (scanLine O st (delLine k)).1.store.toMap k' = st.store.toMap k' := by
  rcases delOk_of_internal O hk with hd | hd
  · rw [hd st]
    refine ⟨rfl, rfl, (Store.set_spec hi k [] true).1, fun k' => ?_⟩
    simp only
    rw [toMap_set hi]
    by_cases hkk : k' = k
    · subst hkk; simp [hnone]
    · simp [hkk]
  · rw [hd st]
    exact ⟨rfl, rfl, hi, fun _ => rfl⟩

/-! ## 5c. An instance of the number hypothesis -/

/-- **roundtrip_history_spec_numbers.** The round trip with the number parameters instantiated
by SPECIFICATIONS: the reader's `Atoi`/`atof` are C03's `parseIntSpec`/`parseFloatSpec`, the
writer's `%v` is `Spec.FmtFloat.fmtNumSpec` (the shortest decimal in `%e`/`%f` shape that parses
back), `%d` is `fmtInt`. The hypothesis on numbers is then the DECIDABLE check `numCheck h`
(every iteration count survives `%d`/`Atoi`, and the search for the shortest text succeeds for
every measurement of `h`) — the correspondence run observes exactly this for every value it
generates, by comparing `fmtNumSpec` with Go's `%v`. -/
theorem roundtrip_history_spec_numbers (uc : UC) (tidy : UInt64 → Bytes → UInt64 × Bytes) (fn : Bytes)
    (h : List Rec) (hwf : WF (specOracles uc tidy) h = true) (hnum : numCheck h = true) :
    (observeRead (readAll (specOracles uc tidy) fn (render (Writer.writeAll specParams h)))).map Obs.abs =
      (observeWritten h).map Obs.abs :=
  roundtrip_history (specOracles uc tidy) specParams fn h (numOKFor_of_check uc tidy h hnum) hwf

/-- the same for texts: parse (with the specification parsers), write (with the specification of
`%v`), parse again -/
theorem roundtrip_text_spec_numbers (uc : UC) (tidy : UInt64 → Bytes → UInt64 × Bytes) (fn fn' t : Bytes)
    (hnum : numCheck (readAll (specOracles uc tidy) fn t) = true)
    (hcr : NoCRValue (specOracles uc tidy) fn t) :
    (observeRead (readAll (specOracles uc tidy) fn'
        (render (Writer.writeAll specParams (readAll (specOracles uc tidy) fn t))))).map Obs.abs =
      (observeWritten (readAll (specOracles uc tidy) fn t)).map Obs.abs :=
  roundtrip_text (specOracles uc tidy) specParams fn fn' t
    (numOKFor_of_check uc tidy _ hnum) hcr

/-! ## 5d. No existence hypothesis on numbers -/

/-- **shortest_decimal_exists_17.** Every finite non-zero float64 has a shortest decimal
`m·10^e` (least number of significant digits among the decimals in its rounding interval,
nearest to the exact value among those); it has at most 17 significant digits; and it reads
back to exactly the same bits. -/
theorem shortest_decimal_exists_17 (x : F64.Bits) (hx : F64.isFinite x = true) (zx : F64.isZero x = false) :
    ∃ (m : Nat) (e : Int), m < 10 ^ 17 ∧ F64.IsShortestDecimal x m e ∧ F64.ofDecimal (F64.signBit x) m e = x :=
  shortest_exists_17 x hx zx

/-- **roundtrip_history_go.** The round trip with the reader's numbers instantiated by C03's
MODELS of `bytesconv.Atoi` and of the reader's `atof` (`C03.oracles`), for ANY writer number text
`P` of which only `GoFmtOK uc P` is assumed — the correspondence-level fact that Go's `%v` output
for a finite non-zero value is a plain decimal numeral, one field, with the sign of the value and
a value inside its rounding interval (and `NaN`, `+Inf`, `-Inf`, `0`, `-0` for the special
values). No existence or digit-count hypothesis: that such a numeral exists with at most 17
digits is `shortest_decimal_exists_17`; that it reads back is `reads_back_reader`. Iteration
counts are `int`s (`inInt64`). -/
theorem roundtrip_history_go (uc : UC) (tidy : UInt64 → Bytes → UInt64 × Bytes) (P : WParams)
    (hgo : GoFmtOK uc P) (fn : Bytes) (h : List Rec) (hwf : WF (C03.oracles uc tidy) h = true)
    (hit : ∀ r, Rec.result r ∈ h → inInt64 r.iters) :
    (observeRead (readAll (C03.oracles uc tidy) fn (render (Writer.writeAll P h)))).map Obs.abs =
      (observeWritten h).map Obs.abs :=
  roundtrip_history (C03.oracles uc tidy) P fn h (numOKFor_go uc tidy P hgo h hit) hwf

/-- **roundtrip_text_go.** For EVERY text whose parsed `key: value` values do not end in CR:
parse (C03's reader models), write (any `%v` text satisfying `GoFmtOK`), parse again — the
second parse observes exactly what the first delivered. All finite values, NaN and ±Inf are
covered with no hypothesis on the numbers of the text: the iteration counts the reader delivered
are in range (`iters_inInt64`), every measurement's text reads back (`numGood_go`). -/
theorem roundtrip_text_go (uc : UC) (tidy : UInt64 → Bytes → UInt64 × Bytes) (P : WParams)
    (hgo : GoFmtOK uc P) (fn fn' t : Bytes) (hcr : NoCRValue (C03.oracles uc tidy) fn t) :
    (observeRead (readAll (C03.oracles uc tidy) fn'
        (render (Writer.writeAll P (readAll (C03.oracles uc tidy) fn t))))).map Obs.abs =
      (observeWritten (readAll (C03.oracles uc tidy) fn t)).map Obs.abs := by
  apply roundtrip_text (C03.oracles uc tidy) P fn fn' t _ hcr
  apply numOKFor_go uc tidy P hgo
  intro r hr
  exact iters_inInt64 (C03.oracles uc tidy) (fun _ => rfl) _ _ r hr

/-! ## 6. Non-vacuity -/

/-- a key `a` (97), a value `1`, a measurement `5 u` -/
def exVal : Val := { value := 5, unit := [117], origValue := 0, origUnit := [] }
def exRes (cfg : List Cfg) : Rec :=
  .result { config := cfg, name := [88], iters := 1, values := [exVal], fileName := [], line := 0 }

/-- a four-record history with delete, re-add and file→internal→file flips -/
def exHistory : List Rec :=
  [ exRes [⟨[97], [49], true⟩, ⟨[98], [50], true⟩, ⟨[46, 102], [120], false⟩],
    exRes [⟨[97], [49], false⟩],                       -- a: file → internal; b, .f deleted
    .unit ⟨[117], [107], [117], [118], [], 0⟩,
    exRes [⟨[98], [51], true⟩, ⟨[97], [49], true⟩],   -- b re-added; a: internal → file
    exRes [] ]

example : WF anyOracles exHistory = true := by decide

/-- what the model writer prints for it (number text: every value prints as `5`) -/
example :
    Writer.writeAll ⟨fun _ => [53]⟩ exHistory =
      [[97, 58, 32, 49], [98, 58, 32, 50], [],
       [66, 101, 110, 99, 104, 109, 97, 114, 107, 88, 32, 49, 32, 53, 32, 117],
       [], [97, 58], [98, 58], [46, 102, 58], [],
       [66, 101, 110, 99, 104, 109, 97, 114, 107, 88, 32, 49, 32, 53, 32, 117],
       [85, 110, 105, 116, 32, 117, 32, 107, 61, 118],
       [], [97, 58, 32, 49], [98, 58, 32, 51], [],
       [66, 101, 110, 99, 104, 109, 97, 114, 107, 88, 32, 49, 32, 53, 32, 117],
       [], [97, 58], [98, 58], [],
       [66, 101, 110, 99, 104, 109, 97, 114, 107, 88, 32, 49, 32, 53, 32, 117]] := by
  decide

/-- N1: the CR clause of `WF` is what fails on `k: v\r` -/
example :
    WFnoCR anyOracles [exRes [⟨[107], [118, 13], true⟩]] = true ∧
    WF anyOracles [exRes [⟨[107], [118, 13], true⟩]] = false := by decide

/-- the number hypothesis holds for the example history under the specification oracles, and
so do all hypotheses of `roundtrip_history_spec_numbers` -/
example : numCheck exHistory = true ∧ WF (specOracles UC.ascii fun v u => (v, u)) exHistory = true := by
  decide +kernel

/-- special values: what the specification of `%v` prints, and that it parses back -/
example :
    (fmtNumSpec? 0x7FF8000000000123 = some [78, 97, 78]) ∧                -- NaN (payload dropped)
    (fmtNumSpec? 0xFFF0000000000000 = some [45, 73, 110, 102]) ∧          -- -Inf
    (fmtNumSpec? 0x8000000000000000 = some [45, 48]) ∧                    -- -0
    (fmtNumSpec? 0x0000000000000001 = some [53, 101, 45, 51, 50, 52]) ∧   -- 5e-324
    (fmtNumSpec? 0x412E848000000000 = some [49, 101, 43, 48, 54]) ∧       -- 1e+06
    (fmtNumSpec? 0x3FD3333333333334 = some [48, 46, 51, 48, 48, 48, 48, 48, 48, 48, 48, 48, 48, 48, 48, 48, 48, 48, 52]) := by
  decide +kernel

end C01
