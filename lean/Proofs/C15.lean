/-
C15 — benchstat output depends only on its inputs, under every schedule.
Property theorems (helpers in Proofs/Lemmas/C15Sched.lean and the C14 lemma files).

What is proved here is the LOGIC: map iteration orders and goroutine completion orders cannot
influence the tables, because every traversal is sorted by a total order and every goroutine
writes a slot of its own from data nobody writes concurrently. That the goroutines really are
atomic tasks in this sense is data-race freedom — checked at run time by the harness under the
race detector (labelled "runtime part" in notes/C15.md), not a theorem.
-/
import Proofs.Lemmas.C15Sched
import Proofs.Lemmas.C15Floats
import Proofs.C14

namespace C15
open Tab C14L C15L Spec.Cells

variable {κ : Type} [DecidableEq κ]

/-- a schedule is valid when each of its choices is a permutation -/
structure ValidSched (s : Sched) : Prop where
  iter_perm : ∀ (α : Type) (l : List α), (s.iter α l).Perm l
  task_perm : ∀ (α : Type) (l : List α), (s.taskOrder α l).Perm l

/-- `Key.Less` is a total order on the keys present: distinct keys have distinct positions -/
structure RankOK (cfg : Cfg κ) (b : Builder κ (List Bytes) F64.Bits) : Prop where
  tInj : ∀ x y, x ∈ AL.keys b → y ∈ AL.keys b → cfg.rankT x = cfg.rankT y → x = y
  rInj : ∀ t bt, (t, bt) ∈ b → ∀ x y, x ∈ bt.rows → y ∈ bt.rows → cfg.rankR x = cfg.rankR y → x = y
  cInj : ∀ t bt, (t, bt) ∈ b → ∀ x y, x ∈ bt.cols → y ∈ bt.cols → cfg.rankC x = cfg.rankC y → x = y

/-- positions in a sorted list of distinct keys — what the harness passes — are injective -/
theorem rankOK_of_injective (cfg : Cfg κ) (b : Builder κ (List Bytes) F64.Bits)
    (hT : ∀ x y, cfg.rankT x = cfg.rankT y → x = y) (hR : ∀ x y, cfg.rankR x = cfg.rankR y → x = y)
    (hC : ∀ x y, cfg.rankC x = cfg.rankC y → x = y) : RankOK cfg b :=
  ⟨fun x y _ _ h => hT x y h, fun _ _ _ x y _ _ h => hR x y h, fun _ _ _ x y _ _ h => hC x y h⟩

example (orc : Oracles) (b : Builder Nat (List Bytes) F64.Bits) :
    RankOK ({ rankT := id, rankR := id, rankC := fun n => n + 1, unitOf := fun _ => [], assume := fun _ => .nothing,
              fieldNames := [], orc := orc } : Cfg Nat) b :=
  rankOK_of_injective _ _ (fun _ _ h => h) (fun _ _ h => h) (fun _ _ h => Nat.succ.inj h)

theorem validSched_default : ValidSched Sched.default :=
  ⟨fun _ l => List.Perm.refl l, fun _ l => List.Perm.refl l⟩

/-- a non-trivial valid schedule: every map is walked backwards, goroutines finish in reverse -/
example : ValidSched { iter := fun _ l => l.reverse, taskOrder := fun _ l => l.reverse } :=
  ⟨fun _ l => List.reverse_perm l, fun _ l => List.reverse_perm l⟩

section Inner
variable (cfg : Cfg κ) (s : Sched) (hs : ValidSched s)

theorem mkCell_residue_perm (a : Assump) (base : Option κ)
    (bcells : List ((κ × κ) × BCell (List Bytes) F64.Bits)) (k : κ × κ) (c : BCell (List Bytes) F64.Bits)
    (res' : List (List Bytes)) (h : res'.Perm c.residue) :
    mkCell cfg a base bcells k { values := c.values, residue := res' } = mkCell cfg a base bcells k c := by
  unfold mkCell
  simp only
  rw [residueWarning_congr cfg.fieldNames (fun z => h.mem_iff)]

def tasks1Of (skels : List (Skel κ)) := skels.flatMap fun sk => (s.iter _ sk.bcells).map (cellTask cfg s sk)
def cells1Of (skels : List (Skel κ)) := runTasks [] (s.taskOrder _ (tasks1Of cfg s skels))
def tasks2Of (skels : List (Skel κ)) :=
  skels.flatMap fun sk => sk.cols.zipIdx.map (colTask cfg sk (cells1Of cfg s skels))
def sums2Of (skels : List (Skel κ)) := runTasks [] (s.taskOrder _ (tasks2Of cfg s skels))

include hs in
theorem cellTask_eq (sk : Skel κ) (kc : (κ × κ) × BCell (List Bytes) F64.Bits) :
    cellTask cfg s sk kc = ((sk.key, kc.1), mkCell cfg sk.assumption sk.cols.head? sk.bcells kc.1 kc.2) := by
  unfold cellTask
  rw [mkCell_residue_perm cfg _ _ _ _ kc.2 _ (hs.iter_perm _ _)]

include hs in
/-- after the first `wg.Wait` every cell slot holds `summarizeCell` of its own cell — whatever the
iteration order of the cell map and the completion order of the goroutines -/
theorem cells1_lookup (skels : List (Skel κ))
    (huniq : ∀ sk ∈ skels, ∀ sk' ∈ skels, sk.key = sk'.key → sk = sk')
    (hnd : ∀ sk ∈ skels, (AL.keys sk.bcells).Nodup)
    (sk : Skel κ) (hsk : sk ∈ skels) (kc : (κ × κ) × BCell (List Bytes) F64.Bits) (hkc : kc ∈ sk.bcells) :
    AL.lookup (sk.key, kc.1) (cells1Of cfg s skels) =
      some (mkCell cfg sk.assumption sk.cols.head? sk.bcells kc.1 kc.2) := by
  unfold cells1Of
  apply lookup_runTasks_written
  · rw [(hs.task_perm _ _).mem_iff]
    unfold tasks1Of
    rw [List.mem_flatMap]
    refine ⟨sk, hsk, List.mem_map.mpr ⟨kc, (hs.iter_perm _ _).mem_iff.mpr hkc, ?_⟩⟩
    exact cellTask_eq cfg s hs sk kc
  · intro v' hv'
    rw [(hs.task_perm _ _).mem_iff] at hv'
    unfold tasks1Of at hv'
    rw [List.mem_flatMap] at hv'
    obtain ⟨sk', hsk', hm⟩ := hv'
    rw [List.mem_map] at hm
    obtain ⟨kc', hkc', he⟩ := hm
    rw [cellTask_eq cfg s hs] at he
    have hkc'' : kc' ∈ sk'.bcells := (hs.iter_perm _ _).mem_iff.mp hkc'
    simp only [Prod.mk.injEq] at he
    obtain ⟨⟨hk, hc⟩, hv⟩ := he
    have : sk' = sk := huniq sk' hsk' sk hsk hk
    subst this
    have h1 := mem_lookup (hnd sk' hsk') (show (kc.1, kc.2) ∈ sk'.bcells from hkc)
    have h2 := mem_lookup (hnd sk' hsk') (show (kc'.1, kc'.2) ∈ sk'.bcells from hkc'')
    rw [hc] at h2
    rw [h1] at h2
    simp only [Option.some.injEq] at h2
    rw [← hv, hc, h2]

include hs in
theorem cellsOf_eq (skels : List (Skel κ))
    (huniq : ∀ sk ∈ skels, ∀ sk' ∈ skels, sk.key = sk'.key → sk = sk')
    (hnd : ∀ sk ∈ skels, (AL.keys sk.bcells).Nodup) (sk : Skel κ) (hsk : sk ∈ skels) :
    cellsOf (cells1Of cfg s skels) sk =
      sk.bcells.map fun kc => (kc.1, mkCell cfg sk.assumption sk.cols.head? sk.bcells kc.1 kc.2) := by
  unfold cellsOf
  apply filterMap_eq_map_of_forall
  intro kc hkc
  rw [cells1_lookup cfg s hs skels huniq hnd sk hsk kc hkc]
  rfl

include hs in
/-- after the second `wg.Wait` every column slot holds `summarizeCol` of its own column -/
theorem sums2_lookup (skels : List (Skel κ))
    (huniq : ∀ sk ∈ skels, ∀ sk' ∈ skels, sk.key = sk'.key → sk = sk')
    (hcn : ∀ sk ∈ skels, sk.cols.Nodup)
    (sk : Skel κ) (hsk : sk ∈ skels) (ci : κ × Nat) (hci : ci ∈ sk.cols.zipIdx) :
    AL.lookup (sk.key, ci.1) (sums2Of cfg s skels) = some (colTask cfg sk (cells1Of cfg s skels) ci).2 := by
  unfold sums2Of
  apply lookup_runTasks_written
  · rw [(hs.task_perm _ _).mem_iff]
    unfold tasks2Of
    rw [List.mem_flatMap]
    exact ⟨sk, hsk, List.mem_map.mpr ⟨ci, hci, rfl⟩⟩
  · intro v' hv'
    rw [(hs.task_perm _ _).mem_iff] at hv'
    unfold tasks2Of at hv'
    rw [List.mem_flatMap] at hv'
    obtain ⟨sk', hsk', hm⟩ := hv'
    rw [List.mem_map] at hm
    obtain ⟨ci', hci', he⟩ := hm
    have hk : sk'.key = sk.key := by
      have := congrArg (fun x => x.1.1) he; exact this
    have hc : ci'.1 = ci.1 := by
      have := congrArg (fun x => x.1.2) he; exact this
    have : sk' = sk := huniq sk' hsk' sk hsk hk
    subst this
    have hi : ci' = ci := by
      obtain ⟨c', i'⟩ := ci'
      obtain ⟨c, i⟩ := ci
      simp only at hc
      subst hc
      have := zipIdx_idx_unique (hcn sk' hsk') hci' hci
      rw [this]
    subst hi
    have := congrArg (fun x => x.2) he
    exact this.symm

end Inner

/-- **toTables_order_independent**: for every valid schedule — every iteration order of the
table, row, column, cell and residue maps and every completion order of the goroutines of both
fan-outs — `ToTables` produces the tables of the sequential reading; hence any two schedules
produce the same tables. Hypotheses: the Builder is one that `Add` can produce (`WF`; see
`C14.cells_are_groupBy`) and `Key.Less` orders the keys present totally (`RankOK`; C09). -/
theorem toTablesSched_eq_toTables (cfg : Cfg κ) (s : Sched) (hs : ValidSched s)
    (b : Builder κ (List Bytes) F64.Bits) (hwf : WF b) (hr : RankOK cfg b) :
    toTablesSched cfg s b = toTables cfg b := by
  have hkeys : sortKeys cfg.rankT (s.iter κ (AL.keys b)) = sortKeys cfg.rankT (AL.keys b) :=
    (sortKeys_eq_of_perm cfg.rankT (hs.iter_perm _ _).symm hr.tInj).symm
  -- skeletons do not depend on the schedule
  have hskel : ∀ k bt, (k, bt) ∈ b → mkSkel cfg s k bt = mkSkel cfg Sched.default k bt := by
    intro k bt hm
    unfold mkSkel
    simp only [Sched.default]
    rw [(sortKeys_eq_of_perm cfg.rankR (hs.iter_perm _ _).symm (hr.rInj k bt hm)).symm,
      (sortKeys_eq_of_perm cfg.rankC (hs.iter_perm _ _).symm (hr.cInj k bt hm)).symm]
  let ks := sortKeys cfg.rankT (AL.keys b)
  let skels := ks.filterMap fun k => (AL.lookup k b).map (mkSkel cfg s k)
  have hmem : ∀ sk, sk ∈ skels ↔ ∃ k bt, k ∈ ks ∧ AL.lookup k b = some bt ∧ sk = mkSkel cfg s k bt := by
    intro sk
    simp only [skels, List.mem_filterMap, Option.map_eq_some_iff]
    constructor
    · rintro ⟨k, hk, bt, hl, he⟩; exact ⟨k, bt, hk, hl, he.symm⟩
    · rintro ⟨k, bt, hk, hl, he⟩; exact ⟨k, hk, bt, hl, he.symm⟩
  have huniq : ∀ sk ∈ skels, ∀ sk' ∈ skels, sk.key = sk'.key → sk = sk' := by
    intro sk h1 sk' h2 hk
    obtain ⟨k, bt, _, hl, rfl⟩ := (hmem sk).mp h1
    obtain ⟨k', bt', _, hl', rfl⟩ := (hmem sk').mp h2
    have : k = k' := hk
    subst this
    rw [hl] at hl'
    cases hl'
    rfl
  have hnd : ∀ sk ∈ skels, (AL.keys sk.bcells).Nodup := by
    intro sk h1
    obtain ⟨k, bt, _, hl, rfl⟩ := (hmem sk).mp h1
    exact (hwf.2 k bt (lookup_mem hl)).cellsNodup
  have hcn : ∀ sk ∈ skels, sk.cols.Nodup := by
    intro sk h1
    obtain ⟨k, bt, _, hl, rfl⟩ := (hmem sk).mp h1
    rw [hskel k bt (lookup_mem hl)]
    exact sortKeys_nodup cfg.rankC (hwf.2 k bt (lookup_mem hl)).colsNodup
  have hfinal : ∀ k ∈ ks, ∀ bt, AL.lookup k b = some bt →
      ({ key := (mkSkel cfg s k bt).key, unit := (mkSkel cfg s k bt).unit,
         assumption := (mkSkel cfg s k bt).assumption, rows := (mkSkel cfg s k bt).rows,
         cols := (mkSkel cfg s k bt).cols,
         cells := cellsOf (cells1Of cfg s skels) (mkSkel cfg s k bt),
         summary := (mkSkel cfg s k bt).cols.filterMap fun c =>
           (AL.lookup ((mkSkel cfg s k bt).key, c) (sums2Of cfg s skels)).map fun t => (c, t) } : OTable κ)
      = toTable cfg k bt := by
    intro k hk bt hl
    have hsk : mkSkel cfg s k bt ∈ skels := (hmem _).mpr ⟨k, bt, hk, hl, rfl⟩
    have hc := cellsOf_eq cfg s hs skels huniq hnd _ hsk
    have hsum : ((mkSkel cfg s k bt).cols.filterMap fun c =>
          (AL.lookup ((mkSkel cfg s k bt).key, c) (sums2Of cfg s skels)).map fun t => (c, t))
        = (mkSkel cfg s k bt).cols.zipIdx.map fun ci =>
            (ci.1, (colTask cfg (mkSkel cfg s k bt) (cells1Of cfg s skels) ci).2) := by
      apply filterMap_zipIdx
      intro ci hci
      rw [sums2_lookup cfg s hs skels huniq hcn _ hsk ci hci]
      rfl
    rw [hsum]
    simp only [colTask]
    rw [hc, hskel k bt (lookup_mem hl)]
    unfold toTable
    simp only [mkSkel, Sched.default]
  unfold toTablesSched toTables
  simp only [hkeys]
  rw [List.map_filterMap]
  apply filterMap_congr'
  intro k hk
  cases hl : AL.lookup k b with
  | none => rfl
  | some bt =>
    simp only [Option.map_some]
    congr 1
    exact hfinal k hk bt hl

/-- **toTables_order_independent**: any two valid schedules give the same tables. -/
theorem toTables_order_independent (cfg : Cfg κ) (s s' : Sched) (hs : ValidSched s) (hs' : ValidSched s')
    (b : Builder κ (List Bytes) F64.Bits) (hwf : WF b) (hr : RankOK cfg b) :
    toTablesSched cfg s b = toTablesSched cfg s' b := by
  rw [toTablesSched_eq_toTables cfg s hs b hwf hr, toTablesSched_eq_toTables cfg s' hs' b hwf hr]

/-- the same for the Builder of any input stream (`WF` is an invariant of `Add`) -/
theorem toTables_order_independent_stream (cfg : Cfg κ) (s s' : Sched) (hs : ValidSched s) (hs' : ValidSched s')
    (rs : List (Res κ (List Bytes) F64.Bits)) (hr : RankOK cfg (build rs)) :
    toTablesSched cfg s (build rs) = toTablesSched cfg s' (build rs) :=
  toTables_order_independent cfg s s' hs hs' _ (WF_build rs) hr

/-- **render_function_of_tables**: CSV records, CSV warnings and the numbered text footnotes are
functions of the tables value (and of the key tuples) alone, so they too are the same under every
schedule. -/
theorem render_function_of_tables (cfg : Cfg κ) (s s' : Sched) (hs : ValidSched s) (hs' : ValidSched s')
    (b : Builder κ (List Bytes) F64.Bits) (hwf : WF b) (hr : RankOK cfg b)
    (tableFields : List Bytes) (colFields : Nat) (tupleT tupleR tupleC : κ → List Bytes) :
    tablesCSV tableFields colFields tupleT tupleR tupleC (toTablesSched cfg s b) =
      tablesCSV tableFields colFields tupleT tupleR tupleC (toTablesSched cfg s' b) ∧
    (toTablesSched cfg s b).map textFootnotes = (toTablesSched cfg s' b).map textFootnotes := by
  rw [toTables_order_independent cfg s s' hs hs' b hwf hr]
  exact ⟨rfl, rfl⟩

/-- **line_permutation_cells**: permuting the results of the input (in particular the result
lines inside a configuration block) leaves the set of cells and every cell's sample MULTISET
unchanged. Statistics are functions of the sorted sample, so they are unchanged as long as
sorting identifies the multiset (since commit 803247b: no two NaN payloads of one sign in one cell); first-observation
orders — hence row order, and which column is the baseline when columns are ordered by first
observation — may change. -/
theorem line_permutation_cells {ζ ν : Type} [DecidableEq ζ] (rs rs' : List (Res κ ζ ν)) (h : rs.Perm rs') :
    ∀ t r c, (cellValues (build rs) t r c).Perm (cellValues (build rs') t r c) ∧
      hasCell (build rs) t r c = hasCell (build rs') t r c := by
  intro t r c
  have hm : (measOf rs).Perm (measOf rs') := by
    unfold measOf; exact List.Perm.flatMap_right _ h
  have hg : (group (measOf rs) t r c).Perm (group (measOf rs') t r c) := List.Perm.filter _ hm
  obtain ⟨h1, h2, _, _⟩ := C14.cells_are_groupBy rs
  obtain ⟨h1', h2', _, _⟩ := C14.cells_are_groupBy rs'
  refine ⟨?_, ?_⟩
  · rw [h1, h1']; exact List.Perm.map _ hg
  · rw [Bool.eq_iff_iff, h2, h2']
    constructor
    · intro hne he; rw [he] at hg; exact hne (List.Perm.eq_nil hg)
    · intro hne he; rw [he] at hg; exact hne (List.Perm.eq_nil hg.symm)

/-! ### what line permutation leaves invariant — and what it does not -/

/-- the set of residue keys of a cell is permutation invariant -/
theorem cellResidue_perm {ν : Type} (rs rs' : List (Res κ (List Bytes) ν)) (h : rs.Perm rs') (t r c : κ)
    (z : List Bytes) : z ∈ cellResidue (build rs) t r c ↔ z ∈ cellResidue (build rs') t r c := by
  have hm : (measOf rs).Perm (measOf rs') := by
    unfold measOf; exact List.Perm.flatMap_right _ h
  have hg : ((group (measOf rs) t r c).map (·.residue)).Perm ((group (measOf rs') t r c).map (·.residue)) :=
    List.Perm.map _ (List.Perm.filter _ hm)
  have h1 := mem_cellResidue_foldl rs ([] : Builder κ (List Bytes) ν) t r c z
  have h2 := mem_cellResidue_foldl rs' ([] : Builder κ (List Bytes) ν) t r c z
  have e0 : cellResidue ([] : Builder κ (List Bytes) ν) t r c = [] := rfl
  rw [e0] at h1 h2
  simp only [List.not_mem_nil, false_or] at h1 h2
  show z ∈ cellResidue (List.foldl add [] rs) t r c ↔ z ∈ cellResidue (List.foldl add [] rs') t r c
  rw [h1, h2]
  exact hg.mem_iff

/-- **line_permutation_statistics**: for a cell whose sample is CLEAN (the sort key separates its
bit patterns; since commit 803247b orders −0 before +0 this only excludes two NaNs of one sign with
different payloads: `clean_of_one_nan_pattern`, `clean_of_no_nan`) the
SORTED sample is the same after any permutation of the input results, hence so is every statistic
that is a function of the sorted sample. ASSUMPTION ABOUT benchmath, explicit here: `Summary` and
`Compare` read nothing but `Sample.Values` (sorted), the constant thresholds/confidence and the
memo caches (`caches_are_memo`) — that is what the type of `Oracles.summary/compare` says. -/
theorem line_permutation_statistics (orc : Oracles) (a : Assump)
    {ζ : Type} [DecidableEq ζ] (rs rs' : List (Res κ ζ F64.Bits)) (h : rs.Perm rs') (t r c : κ)
    (hc : Clean (cellValues (build rs) t r c)) :
    sortFloats (cellValues (build rs) t r c) = sortFloats (cellValues (build rs') t r c) ∧
    orc.summary a (sortFloats (cellValues (build rs) t r c)) =
      orc.summary a (sortFloats (cellValues (build rs') t r c)) := by
  have := sortFloats_eq_of_perm (line_permutation_cells rs rs' h t r c).1 hc
  exact ⟨this, by rw [this]⟩

/-- and the comparison of two clean cells (e.g. a cell and its baseline) -/
theorem line_permutation_comparison (orc : Oracles) (a : Assump)
    {ζ : Type} [DecidableEq ζ] (rs rs' : List (Res κ ζ F64.Bits)) (h : rs.Perm rs') (t r c c0 : κ)
    (hc : Clean (cellValues (build rs) t r c)) (hc0 : Clean (cellValues (build rs) t r c0)) :
    orc.compare a (sortFloats (cellValues (build rs) t r c0)) (sortFloats (cellValues (build rs) t r c)) =
      orc.compare a (sortFloats (cellValues (build rs') t r c0)) (sortFloats (cellValues (build rs') t r c)) := by
  rw [(line_permutation_statistics orc a rs rs' h t r c hc).1,
    (line_permutation_statistics orc a rs rs' h t r c0 hc0).1]

theorem mkCell_congr (cfg : Cfg κ) (a : Assump) (base : Option κ)
    (cells cells' : List ((κ × κ) × BCell (List Bytes) F64.Bits)) (k : κ × κ) (c c' : BCell (List Bytes) F64.Bits)
    (hv : sortFloats c.values = sortFloats c'.values)
    (hres : ∀ z, z ∈ c.residue ↔ z ∈ c'.residue)
    (hcells : ∀ k2, (AL.lookup k2 cells).map (fun x => sortFloats x.values) =
      (AL.lookup k2 cells').map (fun x => sortFloats x.values)) :
    mkCell cfg a base cells k c = mkCell cfg a base cells' k c' := by
  unfold mkCell
  simp only
  rw [hv, residueWarning_congr cfg.fieldNames hres]
  cases base with
  | none => rfl
  | some bcol =>
    by_cases hk : k.2 = bcol
    · simp [hk]
    · have := hcells (k.1, bcol)
      cases h1 : AL.lookup (k.1, bcol) cells <;> cases h2 : AL.lookup (k.1, bcol) cells' <;>
        simp [h1, h2] at this <;> simp [hk, h1, h2, this]

/-- **line_permutation_table**: if the requested orders rank the keys the same way for both
inputs (`cfg` is shared: orders that do not depend on observation — alpha, num, fixed — or whose
first observations the permutation does not change, e.g. `.file` columns under a permutation
inside files) and samples are clean, then a permutation of the input results leaves the set of
tables, each table's rows and columns, and EVERY CELL — sample, summary, baseline, comparison,
warnings — unchanged. -/
theorem line_permutation_table (cfg : Cfg κ) (rs rs' : List (Res κ (List Bytes) F64.Bits)) (h : rs.Perm rs')
    (hr : RankOK cfg (build rs)) (hclean : ∀ t r c, Clean (cellValues (build rs) t r c)) (t : κ) :
    match AL.lookup t (build rs), AL.lookup t (build rs') with
    | some bt, some bt' =>
      (toTable cfg t bt).rows = (toTable cfg t bt').rows ∧ (toTable cfg t bt).cols = (toTable cfg t bt').cols ∧
      ∀ k, AL.lookup k (toTable cfg t bt).cells = AL.lookup k (toTable cfg t bt').cells
    | none, none => True
    | _, _ => False := by
  have lp := line_permutation_cells rs rs' h t
  have hwf := WF_build rs
  have hwf' := WF_build rs'
  -- a table that exists has a cell
  have exists_cell : ∀ (rs1 : List (Res κ (List Bytes) F64.Bits)) bt, AL.lookup t (build rs1) = some bt →
      ∃ r c, hasCell (build rs1) t r c = true := by
    intro rs1 bt hl
    have hne := NE_build rs1 t bt (lookup_mem hl)
    cases hcs : bt.cells with
    | nil => exact absurd hcs hne
    | cons kc rest =>
      refine ⟨kc.1.1, kc.1.2, ?_⟩
      rw [hasCell_of_lookup _ t bt hl, hcs]
      simp [AL.lookup]
  cases hl : AL.lookup t (build rs) with
  | none =>
    cases hl' : AL.lookup t (build rs') with
    | none => trivial
    | some bt' =>
      obtain ⟨r, c, hc⟩ := exists_cell rs' bt' hl'
      rw [← (lp r c).2] at hc
      simp [hasCell, hl] at hc
  | some bt =>
    cases hl' : AL.lookup t (build rs') with
    | none =>
      obtain ⟨r, c, hc⟩ := exists_cell rs bt hl
      rw [(lp r c).2] at hc
      simp [hasCell, hl'] at hc
    | some bt' =>
      have twf := hwf.2 t bt (lookup_mem hl)
      have twf' := hwf'.2 t bt' (lookup_mem hl')
      have hsome : ∀ r c, (AL.lookup (r, c) bt.cells).isSome = (AL.lookup (r, c) bt'.cells).isSome := by
        intro r c
        rw [← hasCell_of_lookup _ t bt hl, ← hasCell_of_lookup _ t bt' hl']; exact (lp r c).2
      have hkeys : ∀ r c, (r, c) ∈ AL.keys bt.cells ↔ (r, c) ∈ AL.keys bt'.cells := by
        intro r c
        rw [← lookup_isSome_iff_mem_keys, ← lookup_isSome_iff_mem_keys, hsome]
      have hrows : bt.rows.Perm bt'.rows := by
        rw [List.perm_ext_iff_of_nodup twf.rowsNodup twf'.rowsNodup]
        intro r
        rw [twf.rows_iff, twf'.rows_iff]
        exact ⟨fun ⟨c, hc⟩ => ⟨c, (hkeys r c).mp hc⟩, fun ⟨c, hc⟩ => ⟨c, (hkeys r c).mpr hc⟩⟩
      have hcols : bt.cols.Perm bt'.cols := by
        rw [List.perm_ext_iff_of_nodup twf.colsNodup twf'.colsNodup]
        intro c
        rw [twf.cols_iff, twf'.cols_iff]
        exact ⟨fun ⟨r, hc⟩ => ⟨r, (hkeys r c).mp hc⟩, fun ⟨r, hc⟩ => ⟨r, (hkeys r c).mpr hc⟩⟩
      have erows := sortKeys_eq_of_perm cfg.rankR hrows (hr.rInj t bt (lookup_mem hl))
      have ecols := sortKeys_eq_of_perm cfg.rankC hcols (hr.cInj t bt (lookup_mem hl))
      have hsorted : ∀ k2, (AL.lookup k2 bt.cells).map (fun x => sortFloats x.values) =
          (AL.lookup k2 bt'.cells).map (fun x => sortFloats x.values) := by
        intro k2
        obtain ⟨r, c⟩ := k2
        have hs := hsome r c
        have hv := sortFloats_eq_of_perm (lp r c).1 (hclean t r c)
        rw [cellValues_of_lookup _ t bt hl, cellValues_of_lookup _ t bt' hl'] at hv
        cases h1 : AL.lookup (r, c) bt.cells <;> cases h2 : AL.lookup (r, c) bt'.cells <;>
          simp [h1, h2] at hs hv ⊢
        exact hv
      refine ⟨erows, ecols, ?_⟩
      intro k
      rw [C14.toTable_cell, C14.toTable_cell, ← ecols]
      obtain ⟨r, c⟩ := k
      have hs := hsome r c
      cases h1 : AL.lookup (r, c) bt.cells with
      | none =>
        cases h2 : AL.lookup (r, c) bt'.cells with
        | none => rfl
        | some bc' => simp [h1, h2] at hs
      | some bc =>
        cases h2 : AL.lookup (r, c) bt'.cells with
        | none => simp [h1, h2] at hs
        | some bc' =>
          simp only [Option.map_some, Option.some.injEq]
          apply mkCell_congr
          · have := hsorted (r, c); simpa [h1, h2] using this
          · intro z
            have := cellResidue_perm rs rs' h t r c z
            rw [cellResidue_of_lookup _ t bt hl, cellResidue_of_lookup _ t bt' hl'] at this
            simpa [h1, h2] using this
          · exact hsorted

/-! #### the counter-example: a by-first-observation column order -/

/-- rank of a key under the default order: position of its first observation -/
def firstObsRank (obs : List Nat) (k : Nat) : Nat := (obs.eraseDups).idxOf k

def dummyOracles : Oracles :=
  { summary := fun _ s => { center := s.headD 0, centerStr := [], pct := [], warnings := [] },
    compare := fun _ _ _ => { delta := [], str := [], warnings := [] },
    geomean := fun _ => { val := 0, str := [], pct := [] } }

/-- `-col /format` style: columns ranked by first observation in the stream -/
def cfgFirstObs (rs : List (Res Nat (List Bytes) F64.Bits)) : Cfg Nat :=
  { rankT := id, rankR := id, rankC := firstObsRank (rs.map (·.col)), unitOf := fun _ => [],
    assume := fun _ => .nothing, fieldNames := [], orc := dummyOracles }

/-- two result lines of one benchmark (row 0), formats json (column 1) and gob (column 2) -/
def cexLines : List (Res Nat (List Bytes) F64.Bits) :=
  [ { row := 0, col := 1, residue := [], vals := [(0, 0x4014000000000000)] },
    { row := 0, col := 2, residue := [], vals := [(0, 0x401C000000000000)] } ]

/-- **baseline_depends_on_first_observation** (counter-example to "no cell content changes"):
swapping the two lines keeps every cell's sample (`line_permutation_cells`) but, under a
by-first-observation column order, swaps the column order; the cell (row 0, gob) is compared
against json before and is itself the baseline after. So Δ and p of a cell are NOT invariant
under line permutation in general — they are when the column ranks are (`line_permutation_table`). -/
theorem baseline_depends_on_first_observation :
    cexLines.Perm cexLines.reverse ∧
    ((toTables (cfgFirstObs cexLines) (build cexLines)).map (·.cols)) = [[1, 2]] ∧
    ((toTables (cfgFirstObs cexLines.reverse) (build cexLines.reverse)).map (·.cols)) = [[2, 1]] ∧
    ((toTables (cfgFirstObs cexLines) (build cexLines)).map
      fun t => (AL.lookup (0, 2) t.cells).map (·.baseline)) = [some (some (0, 1))] ∧
    ((toTables (cfgFirstObs cexLines.reverse) (build cexLines.reverse)).map
      fun t => (AL.lookup (0, 2) t.cells).map (·.baseline)) = [some none] ∧
    ((toTables (cfgFirstObs cexLines) (build cexLines)).map
      fun t => (AL.lookup (0, 2) t.cells).map (·.sample)) =
    ((toTables (cfgFirstObs cexLines.reverse) (build cexLines.reverse)).map
      fun t => (AL.lookup (0, 2) t.cells).map (·.sample)) := by
  refine ⟨(List.reverse_perm _).symm, ?_, ?_, ?_, ?_, ?_⟩ <;> decide +kernel

/-! ### caches -/

/-- a cache is sound for `f` when every entry it holds is a value of `f` -/
def CacheSound {K V : Type} [DecidableEq K] (f : K → V) (cache : List (K × V)) : Prop :=
  ∀ k v, AL.lookup k cache = some v → v = f k

/-- **caches_are_memo** (`medianCI`, `tidyUnit`): with ANY sound cache state — in particular any
state reachable from the empty cache by earlier calls, in any order, from any goroutine — a lookup
returns exactly the value of the function, and leaves the cache sound. -/
theorem caches_are_memo {K V : Type} [DecidableEq K] (f : K → V) (cache : List (K × V)) (k : K)
    (h : CacheSound f cache) : (memoGet f cache k).1 = f k ∧ CacheSound f (memoGet f cache k).2 := by
  unfold memoGet
  cases hl : AL.lookup k cache with
  | some v => exact ⟨h k v hl, h⟩
  | none =>
    refine ⟨rfl, ?_⟩
    intro k' v' hl'
    rw [lookup_upsert] at hl'
    by_cases hk : k' = k
    · subst hk; simp at hl'; exact hl'.symm
    · simp [hk] at hl'; exact h k' v' hl'

theorem cacheSound_empty {K V : Type} [DecidableEq K] (f : K → V) : CacheSound f [] := by
  intro k v h; simp [AL.lookup] at h

/-- every sequence of calls starting from the empty cache returns the function's values -/
theorem caches_are_memo_seq {K V : Type} [DecidableEq K] (f : K → V) (calls : List K) (cache : List (K × V))
    (h : CacheSound f cache) :
    (calls.foldl (fun (acc : List V × List (K × V)) k =>
        let r := memoGet f acc.2 k; (acc.1 ++ [r.1], r.2)) ([], cache)).1 = calls.map f := by
  have : ∀ (pre : List V) (cache : List (K × V)), CacheSound f cache →
      (calls.foldl (fun (acc : List V × List (K × V)) k =>
        let r := memoGet f acc.2 k; (acc.1 ++ [r.1], r.2)) (pre, cache)).1 = pre ++ calls.map f := by
    induction calls with
    | nil => intro pre cache _; simp
    | cons k rest ih =>
      intro pre cache hc
      obtain ⟨h1, h2⟩ := caches_are_memo f cache k hc
      simp only [List.foldl_cons, List.map_cons]
      rw [ih _ _ h2, h1]
      simp
  simpa using this [] cache h

end C15
