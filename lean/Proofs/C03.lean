/-
C03 — numbers are read as correctly rounded float64 values and exact integers.
Property theorems only; helper lemmas live in Proofs/Lemmas/C03*.lean.

Model:  Model/Num/FastPath.lean, Atoi.lean, Atof.lean  (reader.go `atof`, bytesconv atoi.go, atof.go)
Spec:   Model/Spec/NumText.lean  (`parseFloatSpec`, `parseIntSpec`)
-/
import Proofs.Lemmas.C03Int
import Proofs.Lemmas.C03ReadFloat
import Proofs.Lemmas.C03Special
import Proofs.Lemmas.C03ExactPath
import Proofs.Lemmas.C03Lang4
import Proofs.Lemmas.C03HexSpec
import Proofs.Lemmas.C03Total
import Proofs.Lemmas.C03Decimal
import Proofs.Lemmas.C03DecFB
import Proofs.Lemmas.C03Mirror
import Proofs.Lemmas.C03TrMirror
import Proofs.Lemmas.C03Clamp
import Model.Fmt.Reader

namespace C03
open Num Spec.NumText

/-! ## reader.go `atof`: the integer fast path -/

/-- the same loop over unbounded integers (no `int64` wrap) -/
def atofLoopIdeal : Bytes → Int → Option Int
  | [], val => some val
  | ch :: rest, val =>
    if ch - 48 ≥ 10 then none
    else if val > atofGuard then none
    else atofLoopIdeal rest (val * 10 + ((ch - 48).toNat : Int))

/-- **atof_fast_no_overflow** — under the guard `val > (MaxInt64-10)/10 → fail` the `int64`
accumulation never wraps: the loop over `int64` and the loop over ℤ are the same function
(for every input and every reachable accumulator). -/
theorem atof_fast_no_overflow (x : Bytes) : ∀ n : Nat, (n : Int) ≤ maxInt64 →
    atofLoop x n = atofLoopIdeal x n := by
  induction x with
  | nil => intro n _; rfl
  | cons c x ih =>
    intro n hn
    unfold atofLoop atofLoopIdeal
    simp only []
    by_cases hd : c - 48 ≥ 10
    · simp [hd]
    · by_cases hg : (n : Int) > atofGuard
      · simp [hd, hg]
      · simp only [hd, hg, if_false]
        have hb := byte_digit c
        have hdec : isDec c = true := by have := hb.1; simp [hd] at this; exact this
        have h9 := hb.2.2.2 hdec
        have hv := hb.2.1 hdec
        have hbound : (n : Int) * 10 + ((c - 48).toNat : Int) ≤ maxInt64 := by
          unfold atofGuard maxInt64 at hg; unfold maxInt64; omega
        rw [wrap64_id _ (by unfold maxInt64 at hbound; omega) (by unfold maxInt64 at hbound; omega)]
        have := ih (n * 10 + (c - 48).toNat) (by push_cast; exact hbound)
        push_cast at this; exact this

/-- the fast path's result is the exact integer written, within `int64` -/
theorem atof_fast_value (x : Bytes) (v : Int) (h : atofLoop x 0 = some v) :
    x.all isDec = true ∧ v = (valOf 10 x : Nat) ∧ 0 ≤ v ∧ v ≤ maxInt64 := by
  have := atofLoop_spec x 0 v (by decide) h
  refine ⟨this.1, ?_, ?_, this.2.2⟩
  · rw [valOf_eq]; exact this.2.1
  · rw [this.2.1]; omega

theorem maxInt64_lt_threshold : (9223372036854775807 : Nat) < overflowThreshold := by decide +kernel

/-- **atof_fast_correct** — whenever the reader's integer fast path returns (on a non-empty
field: `parseBenchmarkLine` never passes an empty one), the float it returns is the
specification's value for that text: the exact integer, rounded once. -/
theorem atof_fast_correct (x : Bytes) (hne : x ≠ []) (v : Int) (h : atofLoop x 0 = some v) :
    (readerAtof x).toExcept = parseFloatSpec x := by
  obtain ⟨hall, hv, _, hmax⟩ := atof_fast_value x v h
  have hlt : valOf 10 x < overflowThreshold := by
    have : valOf 10 x ≤ 9223372036854775807 := by unfold maxInt64 at hmax; omega
    exact Nat.lt_of_le_of_lt this maxInt64_lt_threshold
  rw [parseFloatSpec_digits x hne hall hlt]
  unfold readerAtof
  rw [h]
  simp only [FloatRes.toExcept]
  rw [hv, ofInt_eq_ofDecimal]

example : atofLoop [49, 50, 51] 0 = some 123 := by decide +kernel
/-- the guard fires exactly where it must: 9223372036854775799 passes, one more digit fails -/
example : atofLoop (Bytes.ofString "9223372036854775799") 0 = some 9223372036854775799 := by decide +kernel
example : atofLoop (Bytes.ofString "9223372036854775800") 0 = none := by decide +kernel

/-! ## bytesconv.Atoi -/

/-- **atoi_fast_correct** — on every input that takes `Atoi`'s fast path (1–18 bytes) the result
(value or syntax error) is exactly the specification's; the `int` accumulator cannot wrap. -/
theorem atoi_fast_correct (s : Bytes) (h : atoiFastApplies s = true) :
    (atoiFast s).toExcept = parseIntSpec s := atoiFast_eq_spec s h

/-- **parseUint_correct** — `ParseUint(s, 10, 64)` returns n with no error iff s is a non-empty
digit string whose value n = Σ dᵢ·10ⁱ is ≤ MaxUint64; a digit string with a larger value yields
(MaxUint64, range error); everything else is rejected. Never a wrapped value. -/
theorem parseUint_correct (s : Bytes) :
    (s ≠ [] ∧ s.all isDec = true ∧ valOf 10 s ≤ maxUint64 → parseUint s = ⟨valOf 10 s, none⟩) ∧
    (s ≠ [] ∧ s.all isDec = true ∧ valOf 10 s > maxUint64 → parseUint s = ⟨maxUint64, some .range⟩) ∧
    (s = [] ∨ s.all isDec = false → (parseUint s).err ≠ none) ∧
    ((parseUint s).err = none → s ≠ [] ∧ s.all isDec = true ∧ (parseUint s).val = valOf 10 s ∧ valOf 10 s ≤ maxUint64) := by
  refine ⟨?_, ?_, parseUint_reject s, ?_⟩
  · rintro ⟨hne, hall, hle⟩; rw [parseUint_digits s hne hall]; simp [hle]
  · rintro ⟨hne, hall, hgt⟩; rw [parseUint_digits s hne hall]
    have : ¬ valOf 10 s ≤ maxUint64 := by omega
    simp [this]
  · intro h
    by_cases hbad : s = [] ∨ s.all isDec = false
    · exact absurd h (parseUint_reject s hbad)
    · simp only [not_or, Bool.not_eq_false] at hbad
      have hu := parseUint_digits s hbad.1 hbad.2
      by_cases hle : valOf 10 s ≤ maxUint64
      · rw [hu]; simp [hle, hbad.1, hbad.2]
      · rw [hu] at h; simp [hle] at h

/-- **parseInt_correct** — `ParseInt(s, 10, 0)` agrees with the specification: same value when
the specification accepts, an error whenever it rejects. -/
theorem parseInt_correct (s : Bytes) :
    (∀ v, parseIntSpec s = .ok v → parseInt s = ⟨v, none⟩) ∧
    (∀ e, parseIntSpec s = .error e → (parseInt s).err ≠ none) := by
  by_cases hne : s = []
  · subst hne
    refine ⟨fun v h => ?_, fun e _ => by simp [parseInt]⟩
    simp [parseIntSpec, splitSign] at h
  · rw [parseIntSpec_eq, parseInt_eq_body s hne]
    exact parseIntBody_spec _ _

/-- **parseInt_bounds** — a value returned without error lies in the `int64` range and is the
exact integer the text denotes. -/
theorem parseInt_bounds (s : Bytes) (h : (parseInt s).err = none) :
    -(2 ^ 63 : Int) ≤ (parseInt s).val ∧ (parseInt s).val ≤ 2 ^ 63 - 1 ∧
    parseIntSpec s = .ok (parseInt s).val := by
  have hc := parseInt_correct s
  cases hs : parseIntSpec s with
  | error e => exact absurd h (hc.2 e hs)
  | ok v =>
    have := hc.1 v hs
    rw [this]
    have hb := specIntBody_bounds _ _ v (by rw [← parseIntSpec_eq]; exact hs)
    exact ⟨hb.1, hb.2, rfl⟩

/-- **atoi_correct** — `bytesconv.Atoi` as a whole (fast path or `ParseInt`): exactly the
specified integer when the specification accepts, an error otherwise. -/
theorem atoi_correct (s : Bytes) :
    (∀ v, parseIntSpec s = .ok v → atoi s = ⟨v, none⟩) ∧
    (∀ e, parseIntSpec s = .error e → (atoi s).err ≠ none) := by
  unfold atoi
  by_cases hf : atoiFastApplies s = true
  · simp only [hf, if_true]
    have := atoi_fast_correct s hf
    constructor
    · intro v hv
      rw [hv] at this
      unfold IntRes.toExcept at this
      cases he : (atoiFast s).err with
      | none => rw [he] at this; injection this with this; rw [← this]; cases h : atoiFast s; simp_all
      | some e => rw [he] at this; cases this
    · intro e he
      rw [he] at this
      unfold IntRes.toExcept at this
      cases he' : (atoiFast s).err with
      | none => rw [he'] at this; cases this
      | some e => simp
  · simp only [hf, Bool.false_eq_true, if_false]
    exact parseInt_correct s

example : atoi (Bytes.ofString "-9223372036854775808") = ⟨-9223372036854775808, none⟩ := by decide +kernel
example : (atoi (Bytes.ofString "9223372036854775808")).err = some .range := by decide +kernel

/-! ## special values -/

/-- **special_correct** — `special(s)` (the `inf`/`infinity`/`nan` recogniser of atof.go, a switch
on the first byte followed by `equalIgnoreCase`) returns exactly what the specification's table
of spellings says, for every byte string: same accepted set (any letter case, optional sign on
the infinities, none on NaN, nothing longer or shorter) and same values. -/
theorem special_correct (s : Bytes) : special s = specialSpec s := special_eq_spec s

/-! ## readFloat -/

/-- **readFloat_value_partial** — the mantissa loop of `readFloat` (19/16-digit cap, `trunc`,
leading-zero skipping, `dp` bookkeeping, underscores skipped, `uint64` accumulation) against the
exact reference evaluation `refMant` (all digits as one unbounded integer M, F digits after the
point; the text denotes M / B^F, B = 10 or 16). For every text and whatever the loop returns:

* the `uint64` mantissa never wraps (`mant < 2^64`, indeed `< B^ndMant`);
* when `trunc` is false, `mant · B^(nd − ndMant) = M` — the dropped digits were all zeros;
* the decimal-point bookkeeping is exact: with `dp' = dp` if a point was seen, else `nd`,
  `dp' − ndMant = (nd − ndMant) − F`, hence  mant · B^(dp' − ndMant) = M / B^F,
  which is the `exp = dp − ndMant` that `readFloat` returns (×4 for hex, plus the exponent literal).

PARTIAL: the exponent suffix (`expLoop_exact` below covers the digit loop; the sign and the
`e`/`p` dispatch are straight-line code) and the equality of the accepted language with
`Spec.NumText.recognise` are not proved — the correspondence run compares `readFloat`'s six
results and the final value on every generated text instead. -/
theorem readFloat_value_partial (hex : Bool) (s : Bytes) (st : MS) (rest : Bytes)
    (h : mantLoop hex s {} = some (st, rest)) :
    st.mant < 2 ^ 64 ∧
    (st.trunc = false → (refMant hex s 0 0 false).1 = st.mant * baseOf hex ^ (st.nd - st.ndMant)) ∧
    ((if st.sawdot then st.dp else (st.nd : Int)) - st.ndMant
        = ((st.nd - st.ndMant : Nat) : Int) - ((refMant hex s 0 0 false).2 : Nat)) := by
  have inv : Inv hex st (refMant hex s 0 0 false).1 (refMant hex s 0 0 false).2 st.sawdot :=
    mantLoop_inv hex s {} 0 0 (inv_init hex) st rest h
  refine ⟨?_, inv.i1, ?_⟩
  · exact Nat.lt_of_lt_of_le inv.i5
      (Nat.le_trans (Nat.pow_le_pow_right (by cases hex <;> decide) inv.i2.2.1) (base_pow_le hex))
  · have h2 := inv.i2.1
    cases hs : st.sawdot with
    | true => have := inv.i3 hs; simp only [if_true]; omega
    | false => have := inv.i4 hs; simp only [Bool.false_eq_true, if_false, this]; omega

/-- a 20-digit mantissa whose 20th digit is 0 is not truncated and is read exactly -/
example : (mantLoop false (Bytes.ofString "12345678901234567890.5") {}).map (fun p => (p.1.mant, p.1.nd, p.1.trunc))
    = some (1234567890123456789, 21, true) := by decide +kernel
example : refMant false (Bytes.ofString "0.0_25") 0 0 false = (25, 3) := by decide +kernel

/-- the exponent digit loop returns the exact exponent whenever that is below the clamp 10000 -/
theorem expLoop_exact (ds : Bytes) (hd : ds.all isDec = true) : ∀ e, valFrom e ds < 10000 →
    expLoop ds e = (valFrom e ds, []) := by
  induction ds with
  | nil => intro e _; rfl
  | cons c cs ih =>
    intro e hlt
    rw [List.all_cons, Bool.and_eq_true] at hd
    obtain ⟨hb1, hb2, _⟩ := mant_byte_facts c
    obtain ⟨hv, _, h95, _⟩ := hb2 hd.1
    have e95 : (c == 95) = false := by simpa using h95
    have hge := valFrom_ge cs (e * 10 + digVal c)
    rw [valFrom_cons] at hlt
    unfold expLoop
    rw [hb1]
    have he : e < 10000 := by omega
    have hdv : c.toNat - 48 = digVal c := by simp [digVal, hd.1]
    simp only [e95, Bool.false_eq_true, if_false, hd.1, if_true, he, hdv]
    rw [valFrom_cons]
    exact ih hd.2 _ hlt

/-- **expLoop_clamp_correct** — what the clamp `if e < 10000 { e = e*10 + digit }` of the exponent
digit loop (shared by `readFloat` and `decimal.set`) really does: an exponent literal below
100000 is read EXACTLY (the test looks at the value accumulated so far, so a fifth digit is still
taken); of a longer literal the loop keeps the first five significant digits — a number c with
10000 ≤ c ≤ 99999 and 10·c ≤ literal. -/
theorem expLoop_clamp_correct (ds : Bytes) (hd : ds.all isDec = true) :
    expLoop ds 0 = (clampFrom 0 ds, []) ∧
    (valOf 10 ds < 100000 → clampFrom 0 ds = valOf 10 ds) ∧
    (100000 ≤ valOf 10 ds → 10000 ≤ clampFrom 0 ds ∧ clampFrom 0 ds ≤ 99999 ∧ 10 * clampFrom 0 ds ≤ valOf 10 ds) := by
  have h := expLoop_block ds hd 0 []
  rw [List.append_nil] at h
  obtain ⟨c1, c2⟩ := clampFrom_spec ds hd 0 (by decide)
  rw [← valOf_eq] at c1 c2
  exact ⟨by rw [h]; rfl, c1, c2⟩

/-- **readFloat_value** (full strength) — for every byte string s on which `underscoreOK` holds
(the only texts `ParseFloat` hands to `readFloat`):

* accepted language: `readFloat s` reports `ok` exactly when the specification's recogniser
  (`Spec.NumText.recognise`: sign, `0x` prefix, underscore rule, mantissa with optional point,
  `e`/`p` exponent, mandatory `p` for hex) accepts s;
* when both accept: same sign, same `hex` flag, the `uint64` mantissa did not wrap, and — when
  `trunc` is false — (mantissa, exp) denote the same number as the specification's exact
  (M, E): M = mantissa·B^j and exp = E + bits·j, where j is the number of trailing zero digits
  the 19/16-digit cap dropped (B = 10, bits = 1; hex: B = 16, bits = 4), plus `expGapS s`: what
  the clamp of the exponent digit loop adds — 0 for every exponent literal below 100000
  (`expGapS_zero`), clamped literal − literal beyond (`readFloat` stops accumulating at 10000:
  "it doesn't matter if it's not the exact number", which is true only while the mantissa text
  cannot compensate it, see `parseFloat_correct`). A zero mantissa reports exp = 0. -/
theorem readFloat_value (s : Bytes) (hu : underscoreOK s = true) :
    (recognise s = none → (readFloat s).ok = false) ∧
    (∀ p, recognise s = some p → Agrees (readFloat s) p (expGapS s)) :=
  readFloat_recognise s hu

/-- **readFloat_language** — and a text rejected by `underscoreOK` (hence by `ParseFloat`) is not
in the specification's language either. Together with `readFloat_value` and `special_correct`:
`ParseFloat` and `parseFloatSpec` accept exactly the same byte strings. -/
theorem readFloat_language (s : Bytes) (hu : underscoreOK s = false) : recognise s = none :=
  recognise_of_not_uok s hu

example : Agrees (readFloat (Bytes.ofString "-1_2.50e+3")) ⟨true, false, 1250, 1⟩ 0 := by
  refine ⟨by decide +kernel, by decide +kernel, by decide +kernel, by decide +kernel,
    fun _ => ⟨0, by decide +kernel, fun _ => by decide +kernel⟩, fun h => ?_⟩
  have : (readFloat (Bytes.ofString "-1_2.50e+3")).trunc = false := by decide +kernel
  rw [this] at h; cases h

/-! ## atof64exact -/

/-- **pow10_table_exact** — every entry `float64pow10[k]`, k = 0 … 22, is a finite float whose
exact value n/d is 10^k (sign +, n = 10^k·d), and `1e15` likewise. Kernel
evaluation of the 23 entries. (The harness additionally compares the model's table with the
one compiled into bytesconv, bit for bit, on every run.) -/
theorem pow10_table_exact :
    (∀ k, k < pow10TableLen → F64.isFinite (float64pow10 k) = true ∧
        (F64.toRatParts (float64pow10 k)).1 = false ∧
        (F64.toRatParts (float64pow10 k)).2.1 = 10 ^ k * (F64.toRatParts (float64pow10 k)).2.2) ∧
    (F64.toRatParts f1e15).1 = false ∧ (F64.toRatParts f1e15).2.1 = 10 ^ 15 * (F64.toRatParts f1e15).2.2 := by
  decide +kernel

/-- 10^23 is NOT exactly representable — the table cannot be extended (cf. mutation M3) -/
example : (F64.toRatParts (F64.ofDecimal false 1 23)).2.1 ≠ 10 ^ 23 * (F64.toRatParts (F64.ofDecimal false 1 23)).2.2 := by decide +kernel

/-- **exact_path_correct_partial** — the control structure of `atof64exact`: it answers only
when the mantissa is below 2^52 (`mantissa>>mantbits == 0`), and then with the integer itself
(exp = 0), ONE float multiplication by a table entry (0 < exp ≤ 22), or ONE float division by a
table entry (−22 ≤ exp < 0); for 22 < exp ≤ 37 one extra multiplication by 10^(exp−22) guarded by
the `|f| ≤ 1e15` test. `F64.mul`/`F64.div` are by definition `roundRat` of the exact
product/quotient, and by `pow10_table_exact` the table operand is exactly 10^|exp|.

PARTIAL: that `float64(mantissa)` is exact for mantissa < 2^52 and that `roundRat` depends only
on the value of the fraction it is given (so that the one rounding equals
`F64.ofDecimal neg mantissa exp`) is NOT proved; it is checked by the S layer, which compares
the real `atof64exact` with `ofDecimal` on thousands of generated (mantissa, exp) pairs per run,
and by the kernel-evaluated instances below. -/
theorem exact_path_correct_partial (m : Nat) (exp : Int) (neg : Bool) :
    (m >>> 52 ≠ 0 → atof64exact m exp neg = none) ∧
    (m >>> 52 = 0 → exp = 0 → atof64exact m exp neg = some (if neg then F64.neg (F64.ofInt m) else F64.ofInt m)) ∧
    (m >>> 52 = 0 → 0 < exp → exp ≤ 22 →
        atof64exact m exp neg =
          let f := if neg then F64.neg (F64.ofInt m) else F64.ofInt m
          if F64.lt f1e15 f || F64.lt f (F64.neg f1e15) then none
          else some (F64.mul f (float64pow10 exp.toNat))) ∧
    (m >>> 52 = 0 → exp < 0 → -22 ≤ exp →
        atof64exact m exp neg =
          some (F64.div (if neg then F64.neg (F64.ofInt m) else F64.ofInt m) (float64pow10 (-exp).toNat))) ∧
    (exp > 37 ∨ exp < -22 → atof64exact m exp neg = none) := by
  unfold atof64exact
  refine ⟨?_, ?_, ?_, ?_, ?_⟩
  · intro h; simp [h]
  · intro h he; subst he; simp [h]
  · intro h h0 h22
    have e0 : (exp == 0) = false := by simp; omega
    have e1 : ¬ (exp > 22) := by omega
    simp [h, e0, h0, e1]
    omega
  · intro h h0 h22
    have e0 : (exp == 0) = false := by simp; omega
    have e1 : ¬ (exp > 0) := by omega
    simp [h, e0, e1, h0, h22]
  · intro h
    by_cases hm : m >>> 52 = 0
    · have e0 : (exp == 0) = false := by simp; omega
      rcases h with h | h
      · have e1 : ¬ (exp ≤ 37) := by omega
        have e2 : ¬ (exp < 0) := by omega
        simp [hm, e0, e1, e2]
      · have e1 : ¬ (exp > 0) := by omega
        have e2 : ¬ (-22 ≤ exp) := by omega
        simp [hm, e0, e1, e2]
    · simp [hm]

/-- **exact_path_correct** — whenever `atof64exact` answers, its answer is the correctly rounded
value of mantissa·10^exp (`F64.ofDecimal`), for EVERY mantissa, exponent and sign: the guards
(mantissa < 2^52; exp = 0, 0 < exp ≤ 22, 22 < exp ≤ 37 with the 10^(exp−22) pre-scale and the
`|f| ≤ 1e15` test, −22 ≤ exp < 0) make `float64(mantissa)` exact, the pre-scaled product an exact
integer ≤ 10^15, the table operand exact (`pow10_table_exact`), so the ONE final `F64.mul` /
`F64.div` rounds the same rational the specification rounds (`F64.roundMag_congr`: rounding
depends only on the value). Mantissa 0 gives ±0 on every branch. -/
theorem exact_path_correct (m : Nat) (exp : Int) (neg : Bool) (v : F64.Bits)
    (h : atof64exact m exp neg = some v) : v = F64.ofDecimal neg m exp :=
  atof64exact_correct m exp neg v h

/-- kernel-evaluated instances of the single rounding: 2^52−1 scaled by 10^22 / 10^−22,
a three-digit decimal, a tie-prone quotient -/
example : atof64exact 999999999999999 22 false = some (F64.ofDecimal false 999999999999999 22) := by decide +kernel
example : atof64exact 4503599627370495 22 false = none := by decide +kernel
example : atof64exact 4503599627370495 (-22) true = some (F64.ofDecimal true 4503599627370495 (-22)) := by decide +kernel
example : atof64exact 123 (-2) false = some (F64.ofDecimal false 123 (-2)) := by decide +kernel
example : atof64exact 1 37 false = some (F64.ofDecimal false 1 37) := by decide +kernel
example : atof64exact 2 37 false = none := by decide +kernel
example : atof64exact 1 38 false = none := by decide +kernel
example : atof64exact 9 30 false = some (F64.ofDecimal false 9 30) := by decide +kernel

/-! ## atofHex -/

/-- **hex_path_correct** — `atofHex(mantissa, exp, neg, trunc = false)` is the specification of a
hex literal, for EVERY `uint64` mantissa, every exponent and sign: the normalising left shift,
the right shift with sticky bit, the denormalising shift, "round using two bottom bits"
(proved to be round-half-even of the exact value, `rne_of_stick`), the carry to 2^53, the
denormal exponent, overflow, and the assembly of the bits together compute
`F64.ofBinary neg mantissa exp` (ONE rounding of mantissa·2^exp); the range error is reported
exactly when |value| ≥ 2^1024 − 2^970 (`roundMag_inf_iff`: the specification's range rule is
"the rounding saturates"), and then the value is ±Inf. The three `for` loops are run on fuel
64 in the model; that the fuel suffices is part of the proof (`normUp_spec`, `normDown_spec`,
`denorm_spec`). `trunc = true` (more than 16 hex digits with a non-zero dropped digit) is
covered by `atofHex_trunc_correct` and enters `parseFloat_correct`. -/
theorem hex_path_correct (m : Nat) (e : Int) (neg : Bool) (hm : m < 2 ^ 64) :
    (atofHex m e neg false).toExcept = Parsed.eval { neg := neg, hex := true, mant := m, exp := e } ∧
    ((atofHex m e neg false).err = some .range → (atofHex m e neg false).val = F64.inf neg) :=
  atofHex_spec m e neg hm

/-- kernel-evaluated instances of `atofHex`: a tie rounding to even in
both directions, the largest finite value, overflow, the smallest subnormal, underflow of a tie -/
example : atofHex 0x10000000000001 (-4) false false = ⟨F64.ofBinary false 0x10000000000001 (-4), none⟩ := by decide +kernel
example : atofHex 0x30000000000003 (-4) false false = ⟨F64.ofBinary false 0x30000000000003 (-4), none⟩ := by decide +kernel
example : atofHex 0x1fffffffffffff 971 false false = ⟨0x7FEFFFFFFFFFFFFF, none⟩ := by decide +kernel
example : atofHex 0x3fffffffffffff 970 true false = ⟨F64.negInf, some .range⟩ := by decide +kernel
example : atofHex 1 (-1074) false false = ⟨1, none⟩ := by decide +kernel
example : atofHex 1 (-1075) false false = ⟨0, none⟩ := by decide +kernel
example : atofHex 3 (-1075) false false = ⟨2, none⟩ := by decide +kernel
example : atofHex 1 (-1075) false true = ⟨1, none⟩ := by decide +kernel

/-! ## ParseFloat and the reader's atof as a whole -/

/-- **parseFloat_correct** — the model of `bytesconv.ParseFloat(s, 64)` (underscore check →
special values → `readFloat` → hex path / exact path / slow path) returns exactly what
`parseFloatSpec` says — the same float bit for bit, or the same error — for every byte string

* outside the class of finding N3 (more than 800 significant digits before the point),
* whose exponent literal is below 100000 (then the clamp `e < 10000` of the exponent digit loop has
  not dropped a digit, `expLoop_clamp_correct`), OR whose mantissa text is `Moderate`: at most
  9669 significant digits before the point and 9691 after it (hex: 2231 and 2244). Then the
  clamped exponent still drives the value to ±0 / ±Inf + range error exactly as the exact one
  (`clamp_agree`; the bounds are sharp). Outside both — e.g. `0x0.` + 2499 zeros + `1p100000`,
  2 511 bytes, true value 2^90000 — the real code (and strconv) return a finite wrong value:
  finding candidate, see notes/C03.md and `clamp_witness`.

Composition of `readFloat_language`, `special_correct`, `readFloat_value`, `hex_path_correct`
(and its extension to truncated mantissas: when `readFloat` dropped non-zero hex digits the true
value lies strictly between mantissa and mantissa+1, `mantissa |= 1` makes that the sticky
representation, and the same rounding argument applies — `atofHex_trunc_correct`),
`exact_path_correct` and, for the slow path (which in the model IS the specification), the
proof that the two "obvious overflow/underflow" exits of `floatBits` agree with the range rule
and with the rounding of a tiny value to ±0 (`slowPath_spec`). -/
theorem parseFloat_correct (s : Bytes) (hN3 : inClassN3 s = false) (hlit : expLit s < 100000 ∨ Moderate s) :
    (parseFloat s).toExcept = parseFloatSpec s := by
  rw [parseFloat_eq_clamped s hN3, parseFloatSpecG_agree s hlit]

/-- **parseFloat_clamped_correct** — with NO condition on the exponent: `ParseFloat` returns what
the specification says for the same numeral with its exponent literal clamped the way the code
clamps it (`expGapS`; the only deviation from `parseFloatSpec` that remains outside N3). -/
theorem parseFloat_clamped_correct (s : Bytes) (hN3 : inClassN3 s = false) :
    (parseFloat s).toExcept = parseFloatSpecG (expGapS s) s :=
  parseFloat_eq_clamped s hN3

/-- **clamp_witness** — the hypothesis of `parseFloat_correct` cannot be dropped: on the 2 511-byte
text `0x0.` + 2499 zeros + `1p100000` (value 16^-2500·2^100000 = 2^90000) the specification says
range error, while the model of `ParseFloat` — like the real code and like strconv, see
notes/C03.md — returns 1.0: the exponent literal is clamped to 10000 and 4·2500 hex places
compensate exactly that. The text is outside N3, its exponent literal is 100000, and it has
2500 > 2244 digits after the point. Kernel-evaluated. -/
def clampWitness : Bytes := Bytes.ofString "0x0." ++ List.replicate 2499 48 ++ Bytes.ofString "1p100000"

theorem clamp_witness :
    parseFloatSpec clampWitness = .error .range ∧
    (parseFloat clampWitness).toExcept = .ok 0x3FF0000000000000 ∧
    inClassN3 clampWitness = false ∧ expLit clampWitness = 100000 ∧ mantLens clampWitness = (0, 2500) := by
  decide +kernel

/-- **reader_atof_correct** — the same for the reader's `atof` (integer fast path, else
`ParseFloat`) on every non-empty field. -/
theorem reader_atof_correct (x : Bytes) (hne : x ≠ []) (hN3 : inClassN3 x = false)
    (hlit : expLit x < 100000 ∨ Moderate x) :
    (readerAtof x).toExcept = parseFloatSpec x := by
  cases h : atofLoop x 0 with
  | some v => exact atof_fast_correct x hne v h
  | none =>
    unfold readerAtof
    rw [h]
    exact parseFloat_correct x hN3 hlit

example : (parseFloat (Bytes.ofString "0x1.8p1")).toExcept = parseFloatSpec (Bytes.ofString "0x1.8p1") :=
  parseFloat_correct _ (by decide +kernel) (Or.inl (by decide +kernel))

/-- a hex literal with 20 digits (truncated mantissa) and a tie broken by the dropped digit -/
example : (parseFloat (Bytes.ofString "0x1.00000000000008000001p0")).toExcept
    = parseFloatSpec (Bytes.ofString "0x1.00000000000008000001p0") :=
  parseFloat_correct _ (by decide +kernel) (Or.inl (by decide +kernel))

/-! ## the decimal slow path: its rounding step -/

/-- **roundedInteger_correct** — decimal.go `RoundedInteger` with `shouldRoundUp` (the last step of
`floatBits`: after the decimal has been scaled so that its integer part is the 53-bit mantissa,
"extract integer part, rounded appropriately") is round-half-even of the decimal's exact value:
for a trimmed, untruncated decimal 0.d₁…dₙ·10^dp with 0 ≤ dp ≤ 19 the result is the exact
integer when there is no fraction and `F64.rne digits 10^(n−dp)` otherwise — the very
round-half-even `F64.roundMag` (hence the specification) is built from. The model
(Model/Num/Decimal.lean) is tied to the real `RoundedInteger`/`shouldRoundUp` by `kind=rint`
correspondence cases (export hook `VerifRoundedInteger`).

NOT proved (`floatBits_correct`): the scaling loop of `floatBits` and the shift tables of
decimal.go (`leftShift` with its `leftcheats`, `rightShift`) are not modelled; the real slow path
as a whole is compared with the specification by K/S only. -/
theorem roundedInteger_correct (a : Dec) (hd : a.d.all isDec = true) (htrim : a.d.getLast? ≠ some 48)
    (h0 : 0 ≤ a.dp) (h19 : a.dp ≤ 19) (ht : a.trunc = false) :
    roundedInteger a =
      if a.d.length ≤ a.dp.toNat then valOf 10 a.d * 10 ^ (a.dp.toNat - a.d.length)
      else F64.rne (valOf 10 a.d) (10 ^ (a.d.length - a.dp.toNat)) :=
  roundedInteger_rne a hd htrim h0 h19 ht

/-- 2.5 → 2, 3.5 → 4, 2.51 → 3, 0.5 → 0, 1.5 → 2 -/
example : roundedInteger ⟨Bytes.ofString "25", 1, false⟩ = 2 ∧ roundedInteger ⟨Bytes.ofString "35", 1, false⟩ = 4 ∧
    roundedInteger ⟨Bytes.ofString "251", 1, false⟩ = 3 ∧ roundedInteger ⟨Bytes.ofString "5", 0, false⟩ = 0 ∧
    roundedInteger ⟨Bytes.ofString "15", 1, false⟩ = 2 ∧ roundedInteger ⟨Bytes.ofString "25", 1, true⟩ = 3 := by
  decide +kernel

/-! ## the decimal slow path, mirrored (Model/Num/DecSlow.lean) -/

/-- **shift_correct** — `decimal.Shift(k)` (`leftShift`/`rightShift` in steps of at most 60 bits,
with the `leftcheats` table) multiplies the decimal's exact value by 2^k, for k of either sign,
whenever it drops no non-zero digit (`trunc` stays false): value(d') = value(d)·2^k, and d' is
again well-formed (digits only, ≤ 800, no leading zero), non-zero, trimmed, same sign. Includes
`cheat_digits`: the cheat table predicts the number of digits of N·2^k exactly (cutoff = digits
of 5^k, compared lexicographically = comparison of decimal fractions), so every digit lands
where Go writes it. -/
theorem shift_correct (a : Dc) (k : Int) (hk : k ≠ 0) (hk1 : -6000 ≤ k) (hk2 : k ≤ 6000) (hwf : WF a)
    (hne : a.d ≠ []) (ht : a.trunc = false) (ht' : (a.shift k).trunc = false) :
    dval (a.shift k) = dval a * (2 : ℚ) ^ k ∧ WF (a.shift k) ∧ (a.shift k).d ≠ [] ∧ Trimmed (a.shift k) ∧
    (a.shift k).neg = a.neg :=
  shift_exact a k hk hk1 hk2 hwf hne ht ht'

/-- **floatBits_correct** — `decimal.floatBits` returns the correctly rounded float64 of the
decimal's exact value (one `roundMag` with the range rule — what the specification computes),
for every well-formed decimal on whose run no non-zero digit had to be dropped from the
800-digit buffer (`trunc` false at the end; since `trunc` is sticky this is a property of the
run that the model reports and the harness observes on the real code). Scaling loops with
`powtab` (value·2^exp invariant, termination within the fuel, value ends in [1/2, 1)), denormal
shift, 53-bit shift, `RoundedInteger` = `rne`, rounding carry, denormal exponent, both overflow
exits, the `dp > 310` / `dp < -330` shortcuts, assembly of the bits. -/
theorem floatBits_correct' (d0 : Dc) (hwf : WF d0) (ht0 : d0.trunc = false) (hfin : (floatBits d0).trunc = false) :
    (floatBits d0).toExcept =
      if d0.d = [] then .ok (F64.zero d0.neg)
      else evalFrac d0.neg (decFrac (valOf 10 d0.d) (d0.dp - d0.d.length)).1 (decFrac (valOf 10 d0.d) (d0.dp - d0.d.length)).2 :=
  floatBits_correct d0 hwf ht0 hfin

/-- **decSet_correct** — `decimal.set` (atof.go) against the specification's recogniser, for texts
that passed `underscoreOK`: it fails exactly when the recogniser rejects the text or sees a hex
literal; otherwise (mantissa of at most 800 significant digits, exponent literal below the
clamp) it builds a well-formed, untruncated decimal with the numeral's sign and exact value
(or the empty decimal for a zero mantissa). -/
theorem decSet_correct (s : Bytes) (hu : underscoreOK s = true) :
    (recognise s = none → decSet s = none) ∧
    (∀ p, recognise s = some p → p.hex = true → decSet s = none) ∧
    (∀ p, recognise s = some p → p.hex = false → p.mant < 10 ^ 800 →
      ∃ d, decSet s = some d ∧ WF d ∧ d.trunc = false ∧ d.neg = p.neg ∧ (p.mant = 0 → d.d = []) ∧
        (p.mant ≠ 0 → d.d ≠ [] ∧ dval d = valueOf (clampP p (expGapS s)))) :=
  decSet_spec s hu

/-! ### truncating runs: the 800-digit buffer overflows and `trunc` is set -/

/-- **shift_floor_correct** — what ONE buffer-limited shift does (`rightShift` / `leftShift`, at
most 60 bits) when digits fall off the 800-digit buffer: the result is the exact quotient/product
cut to the buffer — `value(d') ≤ value(d)·2^±k < value(d') + 10^(dp' − 800)` — and `trunc` is
set exactly when the step was inexact (unchanged otherwise). -/
theorem shift_floor_correct (a : Dc) (k : Nat) (hk1 : 1 ≤ k) (hk : k ≤ 60) (hwf : WF a) (hne : a.d ≠ []) :
    StepRes a (rightShift a k) (1 / (2 : ℚ) ^ k) ∧ StepRes a (leftShift a k) ((2 : ℚ) ^ k) :=
  ⟨rightShift_floor a k hk1 hk hwf hne, leftShift_floor a k hk1 hk hwf hne⟩

/-- **shift_follows_correct** — a truncating shift keeps FOLLOWING the true value: the decimal
stays at or below it (equal as long as `trunc` is false, strictly below once it is true), and
no dyadic point `I·2^q` (I ≤ 2^55, q ≥ −1075 in the input's frame: every float64, every midpoint
between neighbours, every power of two the loops compare with) ever comes to lie between the
decimal and the true value. (The decimal may drift several units of the 800th digit below the
true value over several shifts; what is exact is the ORDER against those points, which have at
most ~770 significant digits next to a decimal of comparable size.) -/
theorem shift_follows_correct (a : Dc) (k : Int) (hk : k ≠ 0) (hk1 : -120 ≤ k) (hk2 : k ≤ 120) (hwf : WF a)
    (hne : a.d ≠ []) (V : ℚ) (K : Int) (h : Follows a V K) (hdp : a.dp ≤ 700)
    (hmag : (0 ≤ K ∧ 0 ≤ K + k) ∨ (1 / (2 : ℚ) ^ 1062 ≤ dval a ∧ 1 / (2 : ℚ) ^ 1062 ≤ dval a * (2 : ℚ) ^ k)) :
    ShiftOut a (a.shift k) V K k :=
  shift_follows a k hk hk1 hk2 hwf hne V K h hdp hmag

/-- **roundedInteger_trunc_correct** — `RoundedInteger` on a decimal that follows `W` (so with
`trunc` set it lies strictly below `W`, with no half-integer in between) returns the
round-half-even of `W` itself: with `trunc` the code rounds an exact-looking half UP, which is
right because the true value is strictly above it. -/
theorem roundedInteger_trunc_correct (d3 : Dc) (hwf : WF d3) (htrim : Trimmed d3) (hdp : d3.dp ≤ 19)
    (W : ℚ) (K3 : Int) (hK : K3 ≤ 1074) (hf : Follows d3 W K3) (hWlt : W < (2 : ℚ) ^ 53)
    (wn wd : Nat) (hwd : 0 < wd) (hW : (wn : ℚ) / wd = W) :
    roundedInteger { d := d3.d, dp := d3.dp, trunc := d3.trunc } = F64.rne wn wd :=
  roundedInteger_follow d3 hwf htrim hdp W K3 hK hf hWlt wn wd hwd hW

/-- **floatBits_correct_trunc** — `decimal.floatBits` returns the correctly rounded float64 of
the decimal's exact value with the range rule on EVERY run, truncating or not (the run
condition of `floatBits_correct'` is gone). -/
theorem floatBits_correct_trunc (d0 : Dc) (hwf : WF d0) (ht0 : d0.trunc = false) :
    (floatBits d0).toExcept =
      if d0.d = [] then .ok (F64.zero d0.neg)
      else evalFrac d0.neg (decFrac (valOf 10 d0.d) (d0.dp - d0.d.length)).1 (decFrac (valOf 10 d0.d) (d0.dp - d0.d.length)).2 :=
  floatBits_correct_all d0 hwf ht0

/-- **decSet_trunc_correct** — `decimal.set` on ANY recognised decimal text outside the class of
finding N3 (at most 800 significant digits before the point, any number after it): the decimal
it builds is the text's value cut to the 800-digit buffer — `value(d) ≤ V < value(d) +
10^(dp − 800)` — with `trunc` set exactly when a non-zero digit was cut. -/
theorem decSet_trunc_correct (s : Bytes) (hu : underscoreOK s = true) :
    ∀ p, recognise s = some p → p.hex = false → (mantDigits s).1.length ≤ 800 →
      ∃ d, decSet s = some d ∧ WF d ∧ d.neg = p.neg ∧ (p.mant = 0 → d.d = [] ∧ d.trunc = false) ∧
        (p.mant ≠ 0 → d.d ≠ [] ∧ dval d ≤ valueOf (clampP p (expGapS s)) ∧
          valueOf (clampP p (expGapS s)) < dval d + (10 : ℚ) ^ (d.dp - 800) ∧
          (d.trunc = false → dval d = valueOf (clampP p (expGapS s))) ∧
          (d.trunc = true → dval d < valueOf (clampP p (expGapS s)))) :=
  decSet_specT s hu

/-- **slowPath_mirror_correct** — the mirrored multiprecision slow path `d.set(s); d.floatBits()`
computes what the specification says (recogniser verdict; correctly rounded value; range rule)
on every run, truncating or not, for every text outside the class of finding N3. -/
theorem slowPath_mirror_correct (s : Bytes) (hu : underscoreOK s = true)
    (hN3 : inClassN3 s = false) :
    (slowPathMirror s).toExcept =
      match recognise s with
      | none => .error .syntax
      | some p => if p.hex then .error .syntax else (clampP p (expGapS s)).eval :=
  slowPathMirror_all s hu hN3

/-- **parseFloat_mirror_correct** — the FULLY MIRRORED model of `bytesconv.ParseFloat(s, 64)`, with
no specification inside (underscore check, special values, `readFloat`, `atofHex`,
`atof64exact`, `decimal.set`, `Shift`/`leftShift`/`rightShift` with the cheat table,
`floatBits`, `RoundedInteger`), equals `parseFloatSpec` — same bits or same error — for EVERY
byte string outside the class of finding N3 whose exponent literal is below 100000 or whose
mantissa text is `Moderate`: the same two hypotheses as `parseFloat_correct`. No condition on the run (the shifts may overflow the
800-digit buffer and set `trunc`), none on the number of digits (`set` itself may truncate).
The driver runs this model next to the real `ParseFloat` on every case (`pfm=`), so the
correspondence ties it bit for bit. -/
theorem parseFloat_mirror_correct (s : Bytes) (hlit : expLit s < 100000 ∨ Moderate s) (hN3 : inClassN3 s = false) :
    (parseFloatMirror s).toExcept = parseFloatSpec s := by
  rw [parseFloatMirror_clamped s hN3, parseFloatSpecG_agree s hlit]

/-- … and with no condition on the exponent: the mirrored parser = the specification of the
numeral with its exponent literal clamped -/
theorem parseFloat_mirror_clamped_correct (s : Bytes) (hN3 : inClassN3 s = false) :
    (parseFloatMirror s).toExcept = parseFloatSpecG (expGapS s) s :=
  parseFloatMirror_clamped s hN3

/-- the round-3 statement (at most 800 significant digits, runs without truncation only), kept
for reference -/
theorem parseFloat_mirror_correct_partial (s : Bytes) (hlit : expLit s < 100000)
    (hmant : ∀ p, recognise s = some p → p.mant < 10 ^ 800) (hnt : NoTrunc s) :
    (parseFloatMirror s).toExcept = parseFloatSpec s :=
  parseFloatMirror_eq_spec s hlit hmant hnt

/-- … and the reader's `atof` on top of it -/
theorem reader_atof_mirror_correct_ext (x : Bytes) (hne : x ≠ []) (hlit : expLit x < 100000 ∨ Moderate x)
    (hN3 : inClassN3 x = false) :
    (readerAtofMirror x).toExcept = parseFloatSpec x := by
  cases h : atofLoop x 0 with
  | some v =>
    have := atof_fast_correct x hne v h
    unfold readerAtof at this; rw [h] at this
    unfold readerAtofMirror; rw [h]; exact this
  | none =>
    unfold readerAtofMirror
    rw [h]
    exact parseFloat_mirror_correct x hlit hN3

/-- the same with the earlier, narrower hypothesis on the exponent literal (kept under this name and
signature because `Proofs/C02Closed.lean` uses it) -/
theorem reader_atof_mirror_correct (x : Bytes) (hne : x ≠ []) (hlit : expLit x < 10000)
    (hN3 : inClassN3 x = false) :
    (readerAtofMirror x).toExcept = parseFloatSpec x :=
  reader_atof_mirror_correct_ext x hne (Or.inl (by omega)) hN3

/-! ## number errors become per-line syntax errors (reader.go:265-293) -/

def liftErr : NumErr → Fmt.NumErr
  | .syntax => .syntax
  | .range => .range

def liftI (r : IntRes) : Except Fmt.NumErr Int :=
  match r.err with
  | none => .ok r.val
  | some e => .error (liftErr e)

def liftF (r : FloatRes) : Except Fmt.NumErr UInt64 :=
  match r.err with
  | none => .ok r.val
  | some e => .error (liftErr e)

/-- the reader model of C02 (Model/Fmt/Reader.lean) with its number oracles instantiated by
this property's models of `bytesconv.Atoi` and of the reader's `atof` -/
def oracles (uc : Fmt.UC) (tidy : UInt64 → Bytes → UInt64 × Bytes) : Fmt.Oracles :=
  { uc, tidy, atoi := fun b => liftI (atoi b), atof := fun b => liftF (readerAtof b) }

/-- some measurement field (positions 0, 2, 4, … of the value/unit list) fails to parse -/
inductive BadValue : List Bytes → Prop
  | here (f : Bytes) (fs : List Bytes) : (readerAtof f).err ≠ none → BadValue (f :: fs)
  | later (f u : Bytes) (fs : List Bytes) : BadValue fs → BadValue (f :: u :: fs)

theorem parseValues_bad (O : Fmt.Oracles) (hO : O.atof = fun b => liftF (readerAtof b))
    (fs : List Bytes) (hb : BadValue fs) : ∀ acc, ∃ m, Fmt.parseValues O fs acc = .error m := by
  induction hb with
  | here f fs hf =>
    intro acc
    unfold Fmt.parseValues
    rw [hO]
    simp only [liftF]
    cases he : (readerAtof f).err with
    | none => exact absurd he hf
    | some e => exact ⟨_, rfl⟩
  | later f u fs _ ih =>
    intro acc
    unfold Fmt.parseValues
    cases ha : O.atof f with
    | error e => exact ⟨_, rfl⟩
    | ok v => simp only []; exact ih _

/-- **errors_become_syntax_errors** — if the iteration count or any measurement of a
`Benchmark…` line is rejected by the number parsers (syntax or range `NumError`), the line
delivers no `Result`: `Scan` queues either nothing (the "name is the whole line" skip, which
happens before any number is looked at) or exactly one `SyntaxError` record carrying the
reader's file name and the line's number. -/
theorem errors_become_syntax_errors (uc : Fmt.UC) (tidy : UInt64 → Bytes → UInt64 × Bytes)
    (st : Fmt.RState) (line : Bytes) (f : Bytes) (fs : List Bytes)
    (hpre : Bytes.hasPrefix line Fmt.benchmarkPrefix = true)
    (hfields : Fmt.fields uc (Fmt.splitField uc (line.drop 9)).2 = f :: fs)
    (hbad : (atoi f).err ≠ none ∨ BadValue fs) :
    (Fmt.scanLine (oracles uc tidy) st line).2 = [] ∨
    ∃ m, (Fmt.scanLine (oracles uc tidy) st line).2 = [.err ⟨st.fileName, st.line + 1, m⟩] := by
  unfold Fmt.scanLine
  simp only [hpre, if_true]
  have key : Fmt.parseBenchmarkLine (oracles uc tidy) line = .skip ∨
      ∃ m, Fmt.parseBenchmarkLine (oracles uc tidy) line = .err m := by
    unfold Fmt.parseBenchmarkLine
    simp only []
    split
    · exact Or.inl rfl
    · right
      have hf : Fmt.fields (oracles uc tidy).uc (Fmt.splitField (oracles uc tidy).uc (List.drop 9 line)).2 = f :: fs := hfields
      rw [hf]
      simp only []
      cases ha : (oracles uc tidy).atoi f with
      | error e => exact ⟨_, rfl⟩
      | ok it =>
        simp only []
        rcases hbad with hb | hb
        · exfalso
          simp only [oracles, liftI] at ha
          cases he : (atoi f).err with
          | none => exact hb he
          | some e => rw [he] at ha; cases ha
        · obtain ⟨m, hm⟩ := parseValues_bad (oracles uc tidy) rfl fs hb []
          rw [hm]; exact ⟨_, rfl⟩
  rcases key with h | ⟨m, h⟩
  · rw [h]; exact Or.inl rfl
  · rw [h]; exact Or.inr ⟨m, rfl⟩

/-- the messages are the reader's: `"parsing iteration count: " + err.Err.Error()` -/
example : Fmt.NumErr.msg "parsing iteration count: " (liftErr .range)
    = Bytes.ofString "parsing iteration count: value out of range" := by decide +kernel

end C03
