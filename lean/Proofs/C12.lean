/-
C12 — distributions, t-tests and descriptive statistics.  Property theorems only
(helper lemmas: Proofs/Lemmas/C12*.lean).

All theorems are about the EXACT (ℚ) instance of the one program text in Model/Stats/*.lean; the
float64 instance of the same text is tied to the Go code bit for bit by the correspondence check.
Accuracy of the transcendental functions (lgamma, exp, log, erfc, pow, sqrt) and convergence of
the continued fraction within its iteration cap are NOT theorems; they are exercised numerically
by the search layer (see notes/C12.md).
-/
import Proofs.Lemmas.C12Descr

namespace C12
open Stats Stats.Descr

/-- **mean_incremental_exact** — the incremental loop of `stats.Mean` computes Σx/n. -/
theorem mean_incremental_exact (xs : List ℚ) (h : xs ≠ []) :
    mean xs = some (lsum xs / (xs.length : ℚ)) := by
  have hl : 0 < xs.length := List.length_pos_iff.mpr h
  have he : xs.isEmpty = false := by cases xs <;> simp_all
  simp only [mean, he]
  rw [meanLoop_spec xs _ 0 (by omega)]
  simp

/-- **variance_exact** — Welford's loop in `stats.Variance` computes Σ(x − x̄)²/(n − 1). -/
theorem variance_exact (xs : List ℚ) (h : 2 ≤ xs.length) :
    variance xs =
      some (lsum (xs.map fun x => (x - lsum xs / xs.length) * (x - lsum xs / xs.length))
              / ((xs.length : ℚ) - 1)) := by
  have he : xs.isEmpty = false := by cases xs <;> simp_all
  have hn : (xs.length : ℚ) ≠ 0 := by
    have : 0 < xs.length := by omega
    exact_mod_cast this.ne'
  have hle : ¬ xs.length ≤ 1 := by omega
  have hs := varLoop_spec xs 0 0 0 0 0 (by simp) (by simp) (by simp)
  simp only [zero_add] at hs
  have hM : (varLoop (0 : ℚ) 0 0 xs).2 = lsumsq xs - lsum xs ^ 2 / xs.length := by
    field_simp; linarith
  have hc : ((xs.length - 1 : ℕ) : ℚ) = (xs.length : ℚ) - 1 := by
    have : 1 ≤ xs.length := by omega
    push_cast [Nat.cast_sub this]; ring
  have hc1 : (xs.length : ℚ) - 1 ≠ 0 := by
    have : (2 : ℚ) ≤ xs.length := by exact_mod_cast h
    linarith
  unfold variance
  simp only [he, Bool.false_eq_true, if_false, hle, ofNat_rat, div_rat, Nat.cast_zero]
  rw [hM, lsum_sq_dev, hc]
  congr 1
  field_simp
  ring

example : variance [(1 : ℚ), 2, 3, 4] = some (5 / 3) := by decide +kernel

end C12
