/-
C12 — distributions, t-tests and descriptive statistics.  Property theorems only
(helper lemmas: Proofs/Lemmas/C12*.lean).

All theorems are about the EXACT (ℚ) instance of the one program text in Model/Stats/*.lean; the
float64 instance of the same text is tied to the Go code bit for bit by the correspondence check.
Accuracy of the transcendental functions (lgamma, exp, log, erfc, pow, sqrt) and convergence of
the continued fraction within its iteration cap are NOT theorems; they are exercised numerically
by the search layer (see notes/C12.md).
-/
import Proofs.Lemmas.C12Descr
import Model.Stats.TTest

namespace C12
open Stats Stats.Descr

/-- **mean_incremental_exact** — the incremental loop of `stats.Mean` computes Σx/n. -/
theorem mean_incremental_exact (xs : List ℚ) (h : xs ≠ []) :
    mean xs = some (lsum xs / (xs.length : ℚ)) := by
  have hl : 0 < xs.length := List.length_pos_iff.mpr h
  have he : xs.isEmpty = false := by cases xs <;> simp_all
  simp only [mean, he]
  rw [meanLoop_spec xs _ 0 (by omega)]
  simp

/-- **variance_exact** — Welford's loop in `stats.Variance` computes Σ(x − x̄)²/(n − 1). -/
theorem variance_exact (xs : List ℚ) (h : 2 ≤ xs.length) :
    variance xs =
      some (lsum (xs.map fun x => (x - lsum xs / xs.length) * (x - lsum xs / xs.length))
              / ((xs.length : ℚ) - 1)) := by
  have he : xs.isEmpty = false := by cases xs <;> simp_all
  have hn : (xs.length : ℚ) ≠ 0 := by
    have : 0 < xs.length := by omega
    exact_mod_cast this.ne'
  have hle : ¬ xs.length ≤ 1 := by omega
  have hs := varLoop_spec xs 0 0 0 0 0 (by simp) (by simp) (by simp)
  simp only [zero_add] at hs
  have hM : (varLoop (0 : ℚ) 0 0 xs).2 = lsumsq xs - lsum xs ^ 2 / xs.length := by
    field_simp; linarith
  have hc : ((xs.length - 1 : ℕ) : ℚ) = (xs.length : ℚ) - 1 := by
    have : 1 ≤ xs.length := by omega
    push_cast [Nat.cast_sub this]; ring
  have hc1 : (xs.length : ℚ) - 1 ≠ 0 := by
    have : (2 : ℚ) ≤ xs.length := by exact_mod_cast h
    linarith
  unfold variance
  simp only [he, Bool.false_eq_true, if_false, hle, ofNat_rat, div_rat, Nat.cast_zero]
  rw [hM, lsum_sq_dev, hc]
  congr 1
  field_simp
  ring

example : variance [(1 : ℚ), 2, 3, 4] = some (5 / 3) := by decide +kernel


/-! ### t-tests -/
section TTest
open Stats.TTest

theorem abs_rat (a : ℚ) : Arith.abs a = |a| := by
  show ratAbs a = |a|
  unfold ratAbs
  split
  · rw [abs_of_neg ‹_›]
  · rw [abs_of_nonneg (not_lt.mp ‹_›)]

/-- **ttest_formulas (Welch)** — when no error is reported the statistic is
(x̄₁−x̄₂)/√(s₁²/n₁+s₂²/n₂) and the degrees of freedom are Welch–Satterthwaite's
(s₁²/n₁+s₂²/n₂)² / (s₁⁴/(n₁²(n₁−1)) + s₂⁴/(n₂²(n₂−1))), for every `sqrt`. -/
theorem ttest_formulas_welch (sqrt : ℚ → ℚ) (n1 m1 v1 n2 m2 v2 : ℚ)
    (hn : 1 < n1 ∧ 1 < n2) (hv : ¬ (v1 = 0 ∧ v2 = 0)) :
    welch sqrt n1 m1 v1 n2 m2 v2 =
      .ok ⟨(m1 - m2) / sqrt (v1 / n1 + v2 / n2),
           (v1 / n1 + v2 / n2) ^ 2 /
             (v1 ^ 2 / (n1 ^ 2 * (n1 - 1)) + v2 ^ 2 / (n2 ^ 2 * (n2 - 1)))⟩ := by
  have h1 : ¬ (n1 ≤ 1) := not_le.mpr hn.1
  have h2 : ¬ (n2 ≤ 1) := not_le.mpr hn.2
  have hv' : ¬ (v1 = 0 ∧ v2 = 0) := hv
  simp only [welch, TTest.sq, Bool.or_eq_true, le_rat, Bool.and_eq_true, eq_rat, ofNat_rat, Nat.cast_one,
    Nat.cast_zero, h1, h2, or_self, if_false, hv', add_rat, div_rat, mul_rat, sub_rat]
  congr 2
  rw [← pow_two, ← pow_two, ← pow_two, div_pow, div_pow, div_div, div_div]

/-- **ttest_formulas (pooled)** — t = (x̄₁−x̄₂)/√(s_p²(1/n₁+1/n₂)) with
s_p² = ((n₁−1)s₁²+(n₂−1)s₂²)/(n₁+n₂−2) and ν = n₁+n₂−2. -/
theorem ttest_formulas_pooled (sqrt : ℚ → ℚ) (n1 m1 v1 n2 m2 v2 : ℚ)
    (hn : n1 ≠ 0 ∧ n2 ≠ 0) (hv : ¬ (v1 = 0 ∧ v2 = 0)) :
    pooled sqrt n1 m1 v1 n2 m2 v2 =
      .ok ⟨(m1 - m2) / sqrt (((n1 - 1) * v1 + (n2 - 1) * v2) / (n1 + n2 - 2) * (1 / n1 + 1 / n2)),
           n1 + n2 - 2⟩ := by
  simp only [pooled, Bool.or_eq_true, Bool.and_eq_true, eq_rat, ofNat_rat, Nat.cast_one,
    Nat.cast_zero, Nat.cast_ofNat, hn.1, hn.2, or_self, if_false, hv, add_rat, div_rat, mul_rat,
    sub_rat]

/-- **ttest_formulas (one sample)** — t = (x̄−μ₀)/(s/√n) with s = √(s²), ν = n−1
(for any `sqrt`). -/
theorem ttest_formulas_one (sqrt : ℚ → ℚ) (n m v μ0 : ℚ) (hn : n ≠ 0) (hv : v ≠ 0) :
    oneSample sqrt n m v μ0 = .ok ⟨(m - μ0) / (sqrt v / sqrt n), n - 1⟩ := by
  simp only [oneSample, eq_rat, ofNat_rat, Nat.cast_zero, Nat.cast_one, hn, hv, if_false, div_rat,
    mul_rat, sub_rat]
  congr 2
  rw [div_div_eq_mul_div]

/-- **ttest_formulas (paired)** — with d = x₁ − x₂ (elementwise), d̄ = Σd/n and
s_d = √(Σ(d−d̄)²/(n−1)): t = (d̄−μ₀)/(s_d/√n), ν = n−1. -/
theorem ttest_formulas_paired (sqrt : ℚ → ℚ) (x1 x2 : List ℚ) (μ0 : ℚ)
    (hl : x1.length = x2.length) (hn : 2 ≤ x1.length) :
    let d := List.zipWith (· - ·) x1 x2
    let n : ℚ := x1.length
    let dbar := lsum d / n
    let sd := sqrt (lsum (d.map fun x => (x - dbar) * (x - dbar)) / (n - 1))
    sd ≠ 0 →
    paired sqrt x1 x2 μ0 = .ok ⟨(dbar - μ0) / (sd / sqrt n), ((x1.length - 1 : ℕ) : ℚ)⟩ := by
  intro d n dbar sd hsd
  have hd : List.zipWith Arith.sub x1 x2 = d := rfl
  have hdl : d.length = x1.length := by simp [d, hl]
  have hne : d ≠ [] := by
    intro h; rw [h] at hdl; simp at hdl; omega
  have hm := mean_incremental_exact d hne
  have hv := variance_exact d (by omega)
  rw [hdl] at hm hv
  have h1 : ¬ x1.length ≠ x2.length := by simp [hl]
  have h2 : ¬ x1.length ≤ 1 := by omega
  simp only [paired, h1, h2, if_false, hd, hm, hv]
  have hsd' : ¬ sd = 0 := hsd
  simp only [pairedCore, eq_rat, ofNat_rat, Nat.cast_zero, div_rat, mul_rat, sub_rat]
  rw [if_neg hsd']
  congr 2
  rw [div_div_eq_mul_div]

/-- **ttest_tails** — the two-sided p-value is twice the upper tail of |t|, and the two one-sided
p-values add to 1, for ANY distribution function F. -/
theorem ttest_tails (F : ℚ → ℚ) (t : ℚ) :
    pvalue F t .differs = 2 * (1 - F |t|) ∧
    pvalue F t .less + pvalue F t .greater = 1 ∧
    pvalue F t .less = F t := by
  refine ⟨?_, ?_, rfl⟩
  · simp [pvalue, abs_rat]
  · simp [pvalue]

/-- **ttest_errors** — exactly the undersized and zero-variance inputs are reported as errors:
Welch needs more than one value per sample, the pooled and one-sample tests a non-empty sample,
the paired test equal lengths ≥ 2; a test whose variance(s) are all zero reports
`ErrZeroVariance`; every other input yields a result. -/
theorem ttest_errors (sqrt : ℚ → ℚ) (n1 m1 v1 n2 m2 v2 μ0 : ℚ) :
    (welch sqrt n1 m1 v1 n2 m2 v2 = .error .sampleSize ↔ (n1 ≤ 1 ∨ n2 ≤ 1)) ∧
    (welch sqrt n1 m1 v1 n2 m2 v2 = .error .zeroVariance ↔ (1 < n1 ∧ 1 < n2 ∧ v1 = 0 ∧ v2 = 0)) ∧
    (pooled sqrt n1 m1 v1 n2 m2 v2 = .error .sampleSize ↔ (n1 = 0 ∨ n2 = 0)) ∧
    (pooled sqrt n1 m1 v1 n2 m2 v2 = .error .zeroVariance ↔ (n1 ≠ 0 ∧ n2 ≠ 0 ∧ v1 = 0 ∧ v2 = 0)) ∧
    (oneSample sqrt n1 m1 v1 μ0 = .error .sampleSize ↔ n1 = 0) ∧
    (oneSample sqrt n1 m1 v1 μ0 = .error .zeroVariance ↔ (n1 ≠ 0 ∧ v1 = 0)) := by
  refine ⟨?_, ?_, ?_, ?_, ?_, ?_⟩
  · by_cases h : n1 ≤ 1 ∨ n2 ≤ 1
    · simp [welch, h]
    · by_cases hv : v1 = 0 ∧ v2 = 0 <;> simp [welch, h, hv]
  · by_cases h : n1 ≤ 1 ∨ n2 ≤ 1
    · have : ¬ (1 < n1 ∧ 1 < n2 ∧ v1 = 0 ∧ v2 = 0) := by
        rintro ⟨a, b, -⟩; rcases h with h | h <;> linarith
      simp [welch, h, this]
    · have h' : 1 < n1 ∧ 1 < n2 := by
        constructor <;> (by_contra hc; exact h (by first | exact Or.inl (not_lt.mp hc) | exact Or.inr (not_lt.mp hc)))
      by_cases hv : v1 = 0 ∧ v2 = 0
      · simp [welch, h, hv, h'.1, h'.2]
      · have : ¬ (1 < n1 ∧ 1 < n2 ∧ v1 = 0 ∧ v2 = 0) := fun ⟨_, _, a, b⟩ => hv ⟨a, b⟩
        simp [welch, h, hv, this]
  · by_cases h : n1 = 0 ∨ n2 = 0
    · simp [pooled, h]
    · by_cases hv : v1 = 0 ∧ v2 = 0 <;> simp [pooled, h, hv]
  · by_cases h : n1 = 0 ∨ n2 = 0
    · have : ¬ (n1 ≠ 0 ∧ n2 ≠ 0 ∧ v1 = 0 ∧ v2 = 0) := by
        rintro ⟨a, b, -⟩; rcases h with h | h <;> contradiction
      simp [pooled, h, this]
    · have h' : n1 ≠ 0 ∧ n2 ≠ 0 := ⟨fun a => h (Or.inl a), fun a => h (Or.inr a)⟩
      by_cases hv : v1 = 0 ∧ v2 = 0
      · simp [pooled, h, hv, h'.1, h'.2]
      · have : ¬ (n1 ≠ 0 ∧ n2 ≠ 0 ∧ v1 = 0 ∧ v2 = 0) := fun ⟨_, _, a, b⟩ => hv ⟨a, b⟩
        simp [pooled, h, hv, this]
  · by_cases h : n1 = 0
    · simp [oneSample, h]
    · by_cases hv : v1 = 0 <;> simp [oneSample, h, hv]
  · by_cases h : n1 = 0
    · simp [oneSample, h]
    · by_cases hv : v1 = 0 <;> simp [oneSample, h, hv]

/-- **ttest_errors (paired)** -/
theorem ttest_errors_paired (sqrt : ℚ → ℚ) (x1 x2 : List ℚ) (μ0 : ℚ) :
    (paired sqrt x1 x2 μ0 = .error .mismatched ↔ x1.length ≠ x2.length) ∧
    (x1.length = x2.length → x1.length ≤ 1 → paired sqrt x1 x2 μ0 = .error .sampleSize) := by
  constructor
  · by_cases h : x1.length ≠ x2.length
    · simp [paired, h]
    · have hne : paired sqrt x1 x2 μ0 ≠ .error .mismatched := by
        unfold paired
        rw [if_neg h]
        split
        · simp
        · dsimp only
          split
          · unfold pairedCore; split <;> simp
          · simp
      simp only [hne, false_iff]
      exact h
  · intro hl h2
    unfold paired
    rw [if_neg (by simp [hl]), if_pos h2]

end TTest

end C12
