/-
C12 — distributions, t-tests and descriptive statistics.  Property theorems only
(helper lemmas: Proofs/Lemmas/C12*.lean).

All theorems are about the EXACT (ℚ) instance of the one program text in Model/Stats/*.lean; the
float64 instance of the same text is tied to the Go code bit for bit by the correspondence check.
Accuracy of the transcendental functions (lgamma, exp, log, erfc, pow, sqrt) and convergence of
the continued fraction within its iteration cap are NOT theorems; they are exercised numerically
by the search layer (see notes/C12.md).
-/
import Proofs.Lemmas.C12Descr
import Proofs.Lemmas.C12Dist
import Proofs.Lemmas.C12Pct
import Proofs.Lemmas.C12Bisect
import Proofs.Lemmas.C12Lentz
import Proofs.Lemmas.C12Weighted
import Proofs.Lemmas.C12F64c
import Model.Stats.TTest

namespace C12
open Stats Stats.Descr

/-- **mean_incremental_exact** — the incremental loop of `stats.Mean` computes Σx/n. -/
theorem mean_incremental_exact (xs : List ℚ) (h : xs ≠ []) :
    mean xs = some (lsum xs / (xs.length : ℚ)) := by
  have hl : 0 < xs.length := List.length_pos_iff.mpr h
  have he : xs.isEmpty = false := by cases xs <;> simp_all
  simp only [mean, he]
  rw [meanLoop_spec xs _ 0 (by omega)]
  simp

/-- **variance_exact** — Welford's loop in `stats.Variance` computes Σ(x − x̄)²/(n − 1). -/
theorem variance_exact (xs : List ℚ) (h : 2 ≤ xs.length) :
    variance xs =
      some (lsum (xs.map fun x => (x - lsum xs / xs.length) * (x - lsum xs / xs.length))
              / ((xs.length : ℚ) - 1)) := by
  have he : xs.isEmpty = false := by cases xs <;> simp_all
  have hn : (xs.length : ℚ) ≠ 0 := by
    have : 0 < xs.length := by omega
    exact_mod_cast this.ne'
  have hle : ¬ xs.length ≤ 1 := by omega
  have hs := varLoop_spec xs 0 0 0 0 0 (by simp) (by simp) (by simp)
  simp only [zero_add] at hs
  have hM : (varLoop (0 : ℚ) 0 0 xs).2 = lsumsq xs - lsum xs ^ 2 / xs.length := by
    field_simp; linarith
  have hc : ((xs.length - 1 : ℕ) : ℚ) = (xs.length : ℚ) - 1 := by
    have : 1 ≤ xs.length := by omega
    push_cast [Nat.cast_sub this]; ring
  have hc1 : (xs.length : ℚ) - 1 ≠ 0 := by
    have : (2 : ℚ) ≤ xs.length := by exact_mod_cast h
    linarith
  unfold variance
  simp only [he, Bool.false_eq_true, if_false, hle, ofNat_rat, div_rat, Nat.cast_zero]
  rw [hM, lsum_sq_dev, hc]
  congr 1
  field_simp
  ring

example : variance [(1 : ℚ), 2, 3, 4] = some (5 / 3) := by decide +kernel


/-! ### bounds -/

theorem lsum_between (lo hi : ℚ) (xs : List ℚ) (h : ∀ x ∈ xs, lo ≤ x ∧ x ≤ hi) :
    (xs.length : ℚ) * lo ≤ lsum xs ∧ lsum xs ≤ (xs.length : ℚ) * hi := by
  induction xs with
  | nil => simp [lsum]
  | cons x t ih =>
    obtain ⟨a, b⟩ := ih (fun y hy => h y (List.mem_cons_of_mem _ hy))
    obtain ⟨c, d⟩ := h x (List.mem_cons_self)
    simp only [lsum, List.length_cons]
    push_cast
    constructor <;> linarith

theorem boundsLoop_spec (xs : List ℚ) : ∀ mn mx : ℚ,
    (boundsLoop mn mx xs).1 ≤ mn ∧ mx ≤ (boundsLoop mn mx xs).2 ∧
    ∀ x ∈ xs, (boundsLoop mn mx xs).1 ≤ x ∧ x ≤ (boundsLoop mn mx xs).2 := by
  induction xs with
  | nil => intro mn mx; simp [boundsLoop]
  | cons x t ih =>
    intro mn mx
    simp only [boundsLoop, lt_rat]
    obtain ⟨a, b, c⟩ := ih (if x < mn then x else mn) (if mx < x then x else mx)
    have h1 : (if x < mn then x else mn) ≤ mn ∧ (if x < mn then x else mn) ≤ x := by
      split <;> constructor <;> linarith
    have h2 : mx ≤ (if mx < x then x else mx) ∧ x ≤ (if mx < x then x else mx) := by
      split <;> constructor <;> linarith
    refine ⟨by linarith [h1.1], by linarith [h2.1], ?_⟩
    intro y hy
    rcases List.mem_cons.mp hy with e | hm
    · subst e; exact ⟨by linarith [h1.2], by linarith [h2.2]⟩
    · exact c y hm

/-- **mean_between_bounds** — `Bounds` returns a lower and an upper bound of every element, and
the (exact) mean lies between them. -/
theorem mean_between_bounds (xs : List ℚ) (hne : xs ≠ []) :
    ∃ mn mx m, bounds xs = some (mn, mx) ∧ mean xs = some m ∧
      (∀ x ∈ xs, mn ≤ x ∧ x ≤ mx) ∧ mn ≤ m ∧ m ≤ mx := by
  cases xs with
  | nil => exact absurd rfl hne
  | cons x t =>
    obtain ⟨_, _, c⟩ := boundsLoop_spec (x :: t) x x
    obtain ⟨l1, l2⟩ := lsum_between _ _ (x :: t) c
    have hl : (0 : ℚ) < ((x :: t).length : ℚ) := by
      have : 0 < (x :: t).length := by simp
      exact_mod_cast this
    refine ⟨(boundsLoop x x (x :: t)).1, (boundsLoop x x (x :: t)).2, _, rfl,
      mean_incremental_exact (x :: t) hne, c, ?_, ?_⟩
    · rw [le_div_iff₀ hl]; linarith
    · rw [div_le_iff₀ hl]; linarith

/-! ### geometric mean -/

theorem geoLoop_eq (log : ℚ → ℚ) (xs : List ℚ) : ∀ (m : ℚ) (i : ℕ), (∀ x ∈ xs, 0 < x) →
    geoLoop log m i xs = some (meanLoop m i (xs.map log)) := by
  induction xs with
  | nil => intro m i _; rfl
  | cons x t ih =>
    intro m i h
    have hx : ¬ x ≤ 0 := not_le.mpr (h x List.mem_cons_self)
    have : ¬ (Arith.le x (Arith.ofNat 0 : ℚ) = true) := by rw [le_rat]; simpa using hx
    simp only [geoLoop, this, if_false, List.map_cons, meanLoop, Bool.false_eq_true]
    exact ih _ _ (fun y hy => h y (List.mem_cons_of_mem _ hy))

/-- **geomean_structure** — for positive data `GeoMean` is exp of the (exact) arithmetic mean of
the logs, whatever `log` and `exp` are. -/
theorem geomean_structure (log exp : ℚ → ℚ) (xs : List ℚ) (hne : xs ≠ []) (hpos : ∀ x ∈ xs, 0 < x) :
    geoMean log exp xs = some (exp (lsum (xs.map log) / (xs.length : ℚ))) := by
  have he : xs.isEmpty = false := by cases xs <;> simp_all
  have hl : 0 < (xs.map log).length := by simpa using List.length_pos_iff.mpr hne
  unfold geoMean
  simp only [he, Bool.false_eq_true, if_false, ofNat_rat, Nat.cast_zero]
  rw [geoLoop_eq log xs 0 0 hpos, meanLoop_spec _ 0 0 (by omega)]
  simp

/-- a non-positive value makes `GeoMean` NaN -/
theorem geomean_nonpositive (log exp : ℚ → ℚ) (xs : List ℚ) (h : ∃ x ∈ xs, x ≤ 0) :
    geoMean log exp xs = none := by
  have key : ∀ (ys : List ℚ) (m : ℚ) (i : ℕ), (∃ x ∈ ys, x ≤ 0) → geoLoop log m i ys = none := by
    intro ys
    induction ys with
    | nil => intro m i h; obtain ⟨x, hx, _⟩ := h; simp at hx
    | cons y t ih =>
      intro m i h
      by_cases hy : y ≤ 0
      · have : Arith.le y (Arith.ofNat 0 : ℚ) = true := by rw [le_rat]; simpa using hy
        unfold geoLoop
        rw [if_pos this]
      · have : ¬ (Arith.le y (Arith.ofNat 0 : ℚ) = true) := by rw [le_rat]; simpa using hy
        simp only [geoLoop, this, if_false, Bool.false_eq_true]
        obtain ⟨x, hx, hx0⟩ := h
        rcases List.mem_cons.mp hx with e | hm
        · subst e; exact absurd hx0 hy
        · exact ih _ _ ⟨x, hm, hx0⟩
  unfold geoMean
  split
  · rfl
  · rw [key xs _ _ h]; rfl

/-- **geomean_between_bounds** — for ANY monotone `log`, `exp` with exp(log x) = x on the
positives: min ≤ GeoMean ≤ max for bounds lo, hi of positive data; and GeoMean of a constant
positive sample is that constant, exactly. -/
theorem geomean_between_bounds (log exp : ℚ → ℚ)
    (hlog : ∀ u v, 0 < u → u ≤ v → log u ≤ log v) (hexp : ∀ u v, u ≤ v → exp u ≤ exp v)
    (hinv : ∀ u, 0 < u → exp (log u) = u)
    (xs : List ℚ) (hne : xs ≠ []) (lo hi : ℚ) (hlo : 0 < lo) (hb : ∀ x ∈ xs, lo ≤ x ∧ x ≤ hi) :
    ∃ g, geoMean log exp xs = some g ∧ lo ≤ g ∧ g ≤ hi ∧ (lo = hi → g = lo) := by
  have hpos : ∀ x ∈ xs, 0 < x := fun x hx => lt_of_lt_of_le hlo (hb x hx).1
  have hhi : 0 < hi := by
    obtain ⟨x, hx⟩ := List.exists_mem_of_ne_nil xs hne
    exact lt_of_lt_of_le (hpos x hx) (hb x hx).2
  refine ⟨_, geomean_structure log exp xs hne hpos, ?_, ?_, ?_⟩
  all_goals
    have hl : (0 : ℚ) < xs.length := by
      have := List.length_pos_iff.mpr hne; exact_mod_cast this
    have hbl : ∀ y ∈ xs.map log, log lo ≤ y ∧ y ≤ log hi := by
      intro y hy
      obtain ⟨x, hx, rfl⟩ := List.mem_map.mp hy
      exact ⟨hlog _ _ hlo (hb x hx).1, hlog _ _ (hpos x hx) (hb x hx).2⟩
    obtain ⟨l1, l2⟩ := lsum_between _ _ _ hbl
    rw [List.length_map] at l1 l2
    have m1 : log lo ≤ lsum (xs.map log) / xs.length := by rw [le_div_iff₀ hl]; linarith
    have m2 : lsum (xs.map log) / xs.length ≤ log hi := by rw [div_le_iff₀ hl]; linarith
  · calc lo = exp (log lo) := (hinv lo hlo).symm
      _ ≤ _ := hexp _ _ m1
  · calc _ ≤ exp (log hi) := hexp _ _ m2
      _ = hi := hinv hi hhi
  · intro e
    subst e
    have : lsum (xs.map log) / xs.length = log lo := le_antisymm m2 m1
    rw [this, hinv lo hlo]

/-! ### weighted samples -/

/-- **wmean_exact** — the weighted incremental loops of `Sample.Mean` / `Sample.GeoMean` (as of
20422ca: zero weights skipped) compute Σw·x/Σw resp. exp(Σw·log x/Σw) for non-negative weights, and
NaN exactly when the total weight is zero — in particular a leading zero weight is harmless. -/
theorem wmean_exact (xs : List (ℚ × ℚ)) (hw : ∀ p ∈ xs, 0 ≤ p.2) (log exp : ℚ → ℚ) :
    Weighted.wmean xs = (if wsumQ xs = 0 then none else some (wdotQ (fun x => x) xs / wsumQ xs)) ∧
    Weighted.wgeoMean log exp xs =
      (if wsumQ xs = 0 then none else some (exp (wdotQ log xs / wsumQ xs))) := by
  have h1 := wmeanLoop_spec (fun x => x) xs hw 0 0 0 (le_refl _) (by ring)
  have h2 := wmeanLoop_spec log xs hw 0 0 0 (le_refl _) (by ring)
  simp only [zero_add] at h1 h2
  constructor
  · unfold Weighted.wmean
    simp only [ofNat_rat, Nat.cast_zero, eq_rat, h1.1]
    by_cases hz : wsumQ xs = 0
    · simp [hz]
    · simp only [hz, if_false]
      congr 1
      rw [eq_div_iff hz, ← h1.1]; exact h1.2
  · unfold Weighted.wgeoMean
    simp only [ofNat_rat, Nat.cast_zero, eq_rat, h2.1]
    by_cases hz : wsumQ xs = 0
    · simp [hz]
    · simp only [hz, if_false]
      congr 2
      rw [eq_div_iff hz, ← h2.1]; exact h2.2

example : Weighted.wmean [((1 : ℚ), (0 : ℚ)), (2, 1), (3, 1)] = some (5 / 2) := by decide +kernel

/-! ### percentiles -/

/-- value of `Sample.Percentile` on a non-empty sample flagged sorted -/
def pctVal (xs : List ℚ) (p : ℚ) : ℚ :=
  if p ≤ 0 then xs.getD 0 0 else if 1 ≤ p then xs.getD (xs.length - 1) 0 else posVal xs (posOf xs p)

theorem percentile_eq_pctVal (xs : List ℚ) (hne : xs ≠ []) (p : ℚ) :
    percentile xs true p = some (pctVal xs p) := percentile_sorted_eq xs hne p

/-- **percentile_bounded** — on an ascending sample every percentile (any p, including the
clamped p ≤ 0 and p ≥ 1) lies between the minimum `xs[0]` and the maximum `xs[N−1]`. -/
theorem percentile_bounded (xs : List ℚ) (hs : SortedL xs) (hne : xs ≠ []) (p : ℚ) :
    xs.getD 0 0 ≤ pctVal xs p ∧ pctVal xs p ≤ xs.getD (xs.length - 1) 0 := by
  have hl : 0 < xs.length := List.length_pos_iff.mpr hne
  have h0l : xs.getD 0 0 ≤ xs.getD (xs.length - 1) 0 := hs _ _ (Nat.zero_le _) (by omega)
  unfold pctVal
  split
  · exact ⟨le_refl _, h0l⟩
  · split
    · exact ⟨h0l, le_refl _⟩
    · exact posVal_bounded xs hs hl _

/-- **percentile_mono** — on an ascending sample `Percentile` is monotone in p over the whole
real line (clamps included). -/
theorem percentile_mono (xs : List ℚ) (hs : SortedL xs) (hne : xs ≠ []) {p q : ℚ} (hpq : p ≤ q) :
    pctVal xs p ≤ pctVal xs q := by
  have hl : 0 < xs.length := List.length_pos_iff.mpr hne
  have bq := percentile_bounded xs hs hne q
  have bp := percentile_bounded xs hs hne p
  by_cases hp0 : p ≤ 0
  · have : pctVal xs p = xs.getD 0 0 := by simp [pctVal, hp0]
    rw [this]; exact bq.1
  · by_cases hq1 : 1 ≤ q
    · have hq0 : ¬ q ≤ 0 := by linarith
      have : pctVal xs q = xs.getD (xs.length - 1) 0 := by simp [pctVal, hq0, hq1]
      rw [this]; exact bp.2
    · have hp1 : ¬ 1 ≤ p := by linarith
      have hq0 : ¬ q ≤ 0 := by linarith
      have e1 : pctVal xs p = posVal xs (posOf xs p) := by simp [pctVal, hp0, hp1]
      have e2 : pctVal xs q = posVal xs (posOf xs q) := by simp [pctVal, hq0, hq1]
      rw [e1, e2]
      apply posVal_mono xs hs hl
      unfold posOf
      have : (0 : ℚ) ≤ xs.length := Nat.cast_nonneg _
      nlinarith

/-- **percentile_interpolates** — R8: for 0 < p < 1 with position h = 1/3 + p(N+1/3) and
k = ⌊h⌋, 1 ≤ k < N, the value is the convex combination (1−f)·x_k + f·x_{k+1} (1-based order
statistics, f = h − k ∈ [0,1)) and lies between them; and the k-th order statistic is attained
exactly at p_k = (k − 1/3)/(N + 1/3). -/
theorem percentile_interpolates (xs : List ℚ) (hs : SortedL xs) (p : ℚ) (hp : 0 < p ∧ p < 1)
    (k : ℕ) (hk : (posOf xs p).floor = (k : ℤ)) (hk1 : 1 ≤ k) (hkN : k < xs.length) :
    pctVal xs p = (1 - (posOf xs p - k)) * xs.getD (k - 1) 0 + (posOf xs p - k) * xs.getD k 0 ∧
    0 ≤ posOf xs p - k ∧ posOf xs p - k < 1 ∧
    xs.getD (k - 1) 0 ≤ pctVal xs p ∧ pctVal xs p ≤ xs.getD k 0 := by
  have hp0 : ¬ p ≤ 0 := not_le.mpr hp.1
  have hp1 : ¬ 1 ≤ p := not_le.mpr hp.2
  have e1 : pctVal xs p = posVal xs (posOf xs p) := by simp [pctVal, hp0, hp1]
  have c1 : ¬ ((k : ℤ) ≤ 0) := by omega
  have c2 : ¬ ((k : ℤ) ≥ (xs.length : ℤ)) := by omega
  have f0 : 0 ≤ posOf xs p - k := by
    have := Rat.floor_le (posOf xs p); rw [hk] at this; push_cast at this; linarith
  have f1 : posOf xs p - k < 1 := by
    have := Rat.lt_floor_add_one (posOf xs p); rw [hk] at this; push_cast at this; linarith
  have hd := hs (k - 1) k (by omega) hkN
  have ev : posVal xs (posOf xs p) =
      xs.getD (k - 1) 0 + (posOf xs p - k) * (xs.getD k 0 - xs.getD (k - 1) 0) := by
    unfold posVal
    rw [hk, if_neg c1, if_neg c2]
    simp
  rw [e1, ev]
  refine ⟨by ring, f0, f1, by nlinarith, by nlinarith⟩

theorem percentile_at_order_statistic (xs : List ℚ) (k : ℕ) (hk1 : 1 ≤ k) (hkN : k < xs.length) :
    pctVal xs (((k : ℚ) - 1 / 3) / ((xs.length : ℚ) + 1 / 3)) = xs.getD (k - 1) 0 := by
  have hN : (0 : ℚ) < (xs.length : ℚ) + 1 / 3 := by positivity
  have hkq : (1 : ℚ) ≤ k := by exact_mod_cast hk1
  have hkN' : (k : ℚ) + 1 ≤ xs.length := by exact_mod_cast hkN
  have hpos : posOf xs (((k : ℚ) - 1 / 3) / ((xs.length : ℚ) + 1 / 3)) = k := by
    unfold posOf; field_simp; ring
  have hp0 : ¬ (((k : ℚ) - 1 / 3) / ((xs.length : ℚ) + 1 / 3) ≤ 0) := by
    apply not_le.mpr; apply div_pos <;> linarith
  have hp1 : ¬ (1 ≤ ((k : ℚ) - 1 / 3) / ((xs.length : ℚ) + 1 / 3)) := by
    apply not_le.mpr; rw [div_lt_one hN]; linarith
  have hfl : (k : ℚ).floor = (k : ℤ) := by
    have : ((k : ℤ) : ℚ) = (k : ℚ) := by push_cast; rfl
    rw [← this]; exact Rat.floor_intCast _
  have c1 : ¬ ((k : ℤ) ≤ 0) := by omega
  have c2 : ¬ ((k : ℤ) ≥ (xs.length : ℤ)) := by omega
  simp only [pctVal, hp0, hp1, if_false, hpos]
  unfold posVal
  rw [hfl, if_neg c1, if_neg c2]
  simp

/-- the sort used for unsorted samples yields an ascending permutation, so the statements above
apply to `Percentile` of ANY sample through `percentile xs false p = percentile (sortXs xs) true p`
(0 < p < 1) and the minimum/maximum are those of the sample -/
theorem sortXs_sorted_perm (xs : List ℚ) : SortedL (sortXs xs) ∧ (sortXs xs).Perm xs := by
  constructor
  · have hp : List.Pairwise (fun a b : ℚ => Arith.le a b = true) (sortXs xs) := by
      unfold sortXs
      apply List.pairwise_mergeSort
      · intro a b c h1 h2
        rw [le_rat] at *; exact le_trans h1 h2
      · intro a b
        rcases le_total a b with h | h
        · simp [(le_rat a b).mpr h]
        · simp [(le_rat b a).mpr h]
    intro i j hij hj
    rcases Nat.eq_or_lt_of_le hij with e | hlt
    · subst e; exact le_refl _
    · have := List.pairwise_iff_getElem.mp hp i j (by omega) hj hlt
      rw [le_rat] at this
      rw [List.getD_eq_getElem?_getD, List.getD_eq_getElem?_getD,
        List.getElem?_eq_getElem (by omega : i < _), List.getElem?_eq_getElem hj]
      exact this
  · exact List.mergeSort_perm _ _

theorem percentile_unsorted (xs : List ℚ) (p : ℚ) (hp : 0 < p ∧ p < 1) :
    percentile xs false p = percentile (sortXs xs) true p := by
  have h0 : ¬ p ≤ 0 := not_le.mpr hp.1
  have h1 : ¬ 1 ≤ p := not_le.mpr hp.2
  have hl : (sortXs xs).isEmpty = xs.isEmpty := by
    have hlen := (List.mergeSort_perm xs (fun a b => Arith.le a b)).length_eq
    unfold sortXs
    cases hx : xs with
    | nil => simp
    | cons a t =>
      cases hm : ((a :: t).mergeSort fun a b => Arith.le a b) with
      | nil => rw [hx, hm] at hlen; simp at hlen
      | cons _ _ => simp
  unfold percentile
  simp only [hl, le_rat, ofNat_rat, Nat.cast_zero, Nat.cast_one, h0, h1, if_false,
    Bool.false_eq_true, if_true]

/-! ### the float64 instance of the R8 interpolation -/
section FloatPct
open F64

/-- **percentile_float_bounded** — FULL, float64 instance, any signs: for finite floats a ≤ b whose
difference `b - a` does not overflow (spread < MaxFloat64: the complement of finding N12c) and any
finite fraction 0 ≤ frac < 1, the value of `a + frac*(b - a)` as computed in float64 (three
round-to-nearest-even operations) satisfies a ≤ result ≤ b and is not NaN — also when `b - a` is
rounded UP: then frac ≤ 1 − 2^-53 pushes the rounded product onto the float below R(b−a), which is
≤ b − a (`F64.round_mul_le`). -/
theorem percentile_float_bounded (a b frac : Bits) (ha : isFinite a = true) (hb : isFinite b = true)
    (hab : sval a ≤ sval b) (hov : isFinite (sub b a) = true) (hfr : isFinite frac = true)
    (hf0 : 0 ≤ sval frac) (hf1 : sval frac < 1) :
    F64.le a (add a (mul frac (sub b a))) = true ∧ F64.le (add a (mul frac (sub b a))) b = true := by
  obtain ⟨h1, h2, h3⟩ := interp_bounded a b frac ha hb hab hov hfr hf0 hf1
  exact ⟨(le_iff_sval _ _ (isNaN_of_finite ha) h3).mpr h1, (le_iff_sval _ _ h3 (isNaN_of_finite hb)).mpr h2⟩

/-- **percentile_float_within_min_max** — the float64 instance of the model of the interpolation in
`Sample.Percentile` (`Descr.interp`: position 1/3 + p(N+1/3), `Modf`, clamps, interpolation): for
every ascending list of finite floats (any signs) whose adjacent differences do not overflow and
EVERY float p (NaN, ±Inf included) the result lies between xs[0] and xs[N−1] and is not NaN. -/
theorem percentile_float_within_min_max (xs : List Stats.Fl) (hne : 0 < xs.length)
    (hs : FloatSorted xs) (p : Stats.Fl) :
    F64.le (xs.getD 0 ⟨posZero⟩).bits (Stats.Descr.interp xs p).bits = true ∧
    F64.le (Stats.Descr.interp xs p).bits (xs.getD (xs.length - 1) ⟨posZero⟩).bits = true := by
  obtain ⟨h1, h2, h3⟩ := interp_float_within xs hne hs p
  exact ⟨(le_iff_sval _ _ (isNaN_of_finite (hs.fin 0 hne)) h3).mpr h1,
    (le_iff_sval _ _ h3 (isNaN_of_finite (hs.fin _ (by omega)))).mpr h2⟩

/-- `Sample.Bounds` of a non-empty sample flagged sorted, for any number type -/
theorem sampleBounds_sorted_gen {α : Type} [Stats.Arith α] (xs : List α) (d : α) (hne : xs ≠ []) :
    Stats.Descr.sampleBounds xs true = some (xs.getD 0 d, xs.getD (xs.length - 1) d) := by
  cases xs with
  | nil => exact absurd rfl hne
  | cons x t =>
    simp only [Stats.Descr.sampleBounds, if_true, List.getD_cons_zero, List.length_cons,
      Nat.add_sub_cancel]
    congr 2
    rw [List.getLastD_eq_getLast?, List.getLast?_eq_getElem?, List.getD_eq_getElem?_getD]
    simp

/-- **percentile_float_sorted** — the float64 instance of `Sample.Percentile` on a sample flagged
sorted (ascending finite floats of any signs, adjacent differences not overflowing): for EVERY
float p the result is a number between the first and the last element (clamps p ≤ 0, p ≥ 1, NaN p
included). -/
theorem percentile_float_sorted (xs : List Stats.Fl) (hne : xs ≠ []) (hs : FloatSorted xs)
    (p : Stats.Fl) :
    ∃ v, Stats.Descr.percentile xs true p = some v ∧
      F64.le (xs.getD 0 ⟨posZero⟩).bits v.bits = true ∧
      F64.le v.bits (xs.getD (xs.length - 1) ⟨posZero⟩).bits = true := by
  have hl : 0 < xs.length := List.length_pos_iff.mpr hne
  have he : xs.isEmpty = false := by cases xs <;> simp_all
  have f0 := isNaN_of_finite (hs.fin 0 hl)
  have fl := isNaN_of_finite (hs.fin (xs.length - 1) (by omega))
  have h0l : F64.le (xs.getD 0 ⟨posZero⟩).bits (xs.getD (xs.length - 1) ⟨posZero⟩).bits = true :=
    (le_iff_sval _ _ f0 fl).mpr (hs.sorted 0 _ (Nat.zero_le _) (by omega))
  have r0 : F64.le (xs.getD 0 ⟨posZero⟩).bits (xs.getD 0 ⟨posZero⟩).bits = true :=
    (le_iff_sval _ _ f0 f0).mpr (le_refl _)
  have rl : F64.le (xs.getD (xs.length - 1) ⟨posZero⟩).bits (xs.getD (xs.length - 1) ⟨posZero⟩).bits = true :=
    (le_iff_sval _ _ fl fl).mpr (le_refl _)
  unfold Stats.Descr.percentile
  simp only [he, Bool.false_eq_true, if_false, sampleBounds_sorted_gen xs ⟨posZero⟩ hne,
    Option.map_some, if_true]
  split
  · exact ⟨_, rfl, r0, h0l⟩
  · split
    · exact ⟨_, rfl, h0l, rl⟩
    · exact ⟨_, rfl, percentile_float_within_min_max xs hl hs p⟩

/-- a non-trivial instance of the hypotheses: −3, 0.1, 10 -/
example : FloatSorted [⟨0xC008000000000000⟩, ⟨0x3FB999999999999A⟩, ⟨0x4024000000000000⟩] := by
  have key : ∀ i j : Fin 3, i ≤ j →
      F64.le ([(⟨0xC008000000000000⟩ : Stats.Fl), ⟨0x3FB999999999999A⟩, ⟨0x4024000000000000⟩].getD i ⟨posZero⟩).bits
        ([(⟨0xC008000000000000⟩ : Stats.Fl), ⟨0x3FB999999999999A⟩, ⟨0x4024000000000000⟩].getD j ⟨posZero⟩).bits = true := by
    decide +kernel
  have fin : ∀ i : Fin 3, isFinite
      ([(⟨0xC008000000000000⟩ : Stats.Fl), ⟨0x3FB999999999999A⟩, ⟨0x4024000000000000⟩].getD i ⟨posZero⟩).bits = true := by
    decide +kernel
  refine ⟨fun i hi => fin ⟨i, hi⟩, ?_, ?_⟩
  · intro i j hij hj
    have := key ⟨i, by simp at hj; omega⟩ ⟨j, hj⟩ hij
    rwa [le_iff_sval _ _ (isNaN_of_finite (fin ⟨i, by simp at hj; omega⟩)) (isNaN_of_finite (fin ⟨j, hj⟩))] at this
  · intro i hi
    have hi' : i = 0 ∨ i = 1 := by simp at hi; omega
    rcases hi' with rfl | rfl <;> decide +kernel

/-- instances of the rounded-up case by kernel evaluation (now covered by the theorem): `b - a`
rounds up, frac = 1 − 2^-53 (the largest float below 1), and the float64 result is still ≤ b -/
example :
    let a : Bits := 0x3fc24e7fc36a8b62; let b : Bits := 0x40057b8a009ecc70
    sub b a = 0x400456a2046823ba ∧
      (add a (mul 0x3FEFFFFFFFFFFFFF (sub b a))).toNat ≤ b.toNat ∧
      a.toNat ≤ (add a (mul 0x3FEFFFFFFFFFFFFF (sub b a))).toNat := by decide +kernel
example :
    let a : Bits := 0x3fee127eadf83d59; let b : Bits := 0x4000aabe178d478d
    (add a (mul 0x3FEFFFFFFFFFFFFF (sub b a))) = b := by decide +kernel

/-- **percentile_float_overflow** — the bound FAILS for finite data of both signs whose spread
exceeds the float64 range: for xs = [−MaxFloat64, +MaxFloat64] (flagged sorted) the model of
`Sample.Percentile(0.5)` returns +Inf, because `Xs[k] − Xs[k−1]` overflows.  (Replayed on the
real code: finding N12c in notes/C12.md.) -/
theorem percentile_float_overflow :
    (Stats.Descr.percentile [(⟨0xFFEFFFFFFFFFFFFF⟩ : Stats.Fl), ⟨0x7FEFFFFFFFFFFFFF⟩] true
        ⟨0x3FE0000000000000⟩).map (·.bits) = some posInf := by decide +kernel

end FloatPct

/-! ### t-tests -/
section TTest
open Stats.TTest

theorem abs_rat (a : ℚ) : Arith.abs a = |a| := by
  show ratAbs a = |a|
  unfold ratAbs
  split
  · rw [abs_of_neg ‹_›]
  · rw [abs_of_nonneg (not_lt.mp ‹_›)]

/-- **ttest_formulas (Welch)** — when no error is reported the statistic is
(x̄₁−x̄₂)/√(s₁²/n₁+s₂²/n₂) and the degrees of freedom are Welch–Satterthwaite's
(s₁²/n₁+s₂²/n₂)² / (s₁⁴/(n₁²(n₁−1)) + s₂⁴/(n₂²(n₂−1))), for every `sqrt`. -/
theorem ttest_formulas_welch (sqrt : ℚ → ℚ) (n1 m1 v1 n2 m2 v2 : ℚ)
    (hn : 1 < n1 ∧ 1 < n2) (hv : ¬ (v1 = 0 ∧ v2 = 0)) :
    welch sqrt n1 m1 v1 n2 m2 v2 =
      .ok ⟨(m1 - m2) / sqrt (v1 / n1 + v2 / n2),
           (v1 / n1 + v2 / n2) ^ 2 /
             (v1 ^ 2 / (n1 ^ 2 * (n1 - 1)) + v2 ^ 2 / (n2 ^ 2 * (n2 - 1)))⟩ := by
  have h1 : ¬ (n1 ≤ 1) := not_le.mpr hn.1
  have h2 : ¬ (n2 ≤ 1) := not_le.mpr hn.2
  have hv' : ¬ (v1 = 0 ∧ v2 = 0) := hv
  simp only [welch, TTest.sq, Bool.or_eq_true, le_rat, Bool.and_eq_true, eq_rat, ofNat_rat, Nat.cast_one,
    Nat.cast_zero, h1, h2, or_self, if_false, hv', add_rat, div_rat, mul_rat, sub_rat]
  congr 2
  rw [← pow_two, ← pow_two, ← pow_two, div_pow, div_pow, div_div, div_div]

/-- **ttest_formulas (pooled)** — t = (x̄₁−x̄₂)/√(s_p²(1/n₁+1/n₂)) with
s_p² = ((n₁−1)s₁²+(n₂−1)s₂²)/(n₁+n₂−2) and ν = n₁+n₂−2. -/
theorem ttest_formulas_pooled (sqrt : ℚ → ℚ) (n1 m1 v1 n2 m2 v2 : ℚ)
    (hn : n1 ≠ 0 ∧ n2 ≠ 0) (hv : ¬ (v1 = 0 ∧ v2 = 0)) :
    pooled sqrt n1 m1 v1 n2 m2 v2 =
      .ok ⟨(m1 - m2) / sqrt (((n1 - 1) * v1 + (n2 - 1) * v2) / (n1 + n2 - 2) * (1 / n1 + 1 / n2)),
           n1 + n2 - 2⟩ := by
  simp only [pooled, Bool.or_eq_true, Bool.and_eq_true, eq_rat, ofNat_rat, Nat.cast_one,
    Nat.cast_zero, Nat.cast_ofNat, hn.1, hn.2, or_self, if_false, hv, add_rat, div_rat, mul_rat,
    sub_rat]

/-- **ttest_formulas (one sample)** — t = (x̄−μ₀)/(s/√n) with s = √(s²), ν = n−1
(for any `sqrt`). -/
theorem ttest_formulas_one (sqrt : ℚ → ℚ) (n m v μ0 : ℚ) (hn : n ≠ 0) (hv : v ≠ 0) :
    oneSample sqrt n m v μ0 = .ok ⟨(m - μ0) / (sqrt v / sqrt n), n - 1⟩ := by
  simp only [oneSample, eq_rat, ofNat_rat, Nat.cast_zero, Nat.cast_one, hn, hv, if_false, div_rat,
    mul_rat, sub_rat]
  congr 2
  rw [div_div_eq_mul_div]

/-- **ttest_formulas (paired)** — with d = x₁ − x₂ (elementwise), d̄ = Σd/n and
s_d = √(Σ(d−d̄)²/(n−1)): t = (d̄−μ₀)/(s_d/√n), ν = n−1. -/
theorem ttest_formulas_paired (sqrt : ℚ → ℚ) (x1 x2 : List ℚ) (μ0 : ℚ)
    (hl : x1.length = x2.length) (hn : 2 ≤ x1.length) :
    let d := List.zipWith (· - ·) x1 x2
    let n : ℚ := x1.length
    let dbar := lsum d / n
    let sd := sqrt (lsum (d.map fun x => (x - dbar) * (x - dbar)) / (n - 1))
    sd ≠ 0 →
    paired sqrt x1 x2 μ0 = .ok ⟨(dbar - μ0) / (sd / sqrt n), ((x1.length - 1 : ℕ) : ℚ)⟩ := by
  intro d n dbar sd hsd
  have hd : List.zipWith Arith.sub x1 x2 = d := rfl
  have hdl : d.length = x1.length := by simp [d, hl]
  have hne : d ≠ [] := by
    intro h; rw [h] at hdl; simp at hdl; omega
  have hm := mean_incremental_exact d hne
  have hv := variance_exact d (by omega)
  rw [hdl] at hm hv
  have h1 : ¬ x1.length ≠ x2.length := by simp [hl]
  have h2 : ¬ x1.length ≤ 1 := by omega
  simp only [paired, h1, h2, if_false, hd, hm, hv]
  have hsd' : ¬ sd = 0 := hsd
  simp only [pairedCore, eq_rat, ofNat_rat, Nat.cast_zero, div_rat, mul_rat, sub_rat]
  rw [if_neg hsd']
  congr 2
  rw [div_div_eq_mul_div]

/-- **ttest_tails** — the two-sided p-value is twice the upper tail of |t|, and the two one-sided
p-values add to 1, for ANY distribution function F. -/
theorem ttest_tails (F : ℚ → ℚ) (t : ℚ) :
    pvalue F t .differs = 2 * (1 - F |t|) ∧
    pvalue F t .less + pvalue F t .greater = 1 ∧
    pvalue F t .less = F t := by
  refine ⟨?_, ?_, rfl⟩
  · simp [pvalue, abs_rat]
  · simp [pvalue]

/-- **ttest_errors** — exactly the undersized and zero-variance inputs are reported as errors:
Welch needs more than one value per sample, the pooled and one-sample tests a non-empty sample,
the paired test equal lengths ≥ 2; a test whose variance(s) are all zero reports
`ErrZeroVariance`; every other input yields a result. -/
theorem ttest_errors (sqrt : ℚ → ℚ) (n1 m1 v1 n2 m2 v2 μ0 : ℚ) :
    (welch sqrt n1 m1 v1 n2 m2 v2 = .error .sampleSize ↔ (n1 ≤ 1 ∨ n2 ≤ 1)) ∧
    (welch sqrt n1 m1 v1 n2 m2 v2 = .error .zeroVariance ↔ (1 < n1 ∧ 1 < n2 ∧ v1 = 0 ∧ v2 = 0)) ∧
    (pooled sqrt n1 m1 v1 n2 m2 v2 = .error .sampleSize ↔ (n1 = 0 ∨ n2 = 0)) ∧
    (pooled sqrt n1 m1 v1 n2 m2 v2 = .error .zeroVariance ↔ (n1 ≠ 0 ∧ n2 ≠ 0 ∧ v1 = 0 ∧ v2 = 0)) ∧
    (oneSample sqrt n1 m1 v1 μ0 = .error .sampleSize ↔ n1 = 0) ∧
    (oneSample sqrt n1 m1 v1 μ0 = .error .zeroVariance ↔ (n1 ≠ 0 ∧ v1 = 0)) := by
  refine ⟨?_, ?_, ?_, ?_, ?_, ?_⟩
  · by_cases h : n1 ≤ 1 ∨ n2 ≤ 1
    · simp [welch, h]
    · by_cases hv : v1 = 0 ∧ v2 = 0 <;> simp [welch, h, hv]
  · by_cases h : n1 ≤ 1 ∨ n2 ≤ 1
    · have : ¬ (1 < n1 ∧ 1 < n2 ∧ v1 = 0 ∧ v2 = 0) := by
        rintro ⟨a, b, -⟩; rcases h with h | h <;> linarith
      simp [welch, h, this]
    · have h' : 1 < n1 ∧ 1 < n2 := by
        constructor <;> (by_contra hc; exact h (by first | exact Or.inl (not_lt.mp hc) | exact Or.inr (not_lt.mp hc)))
      by_cases hv : v1 = 0 ∧ v2 = 0
      · simp [welch, h, hv, h'.1, h'.2]
      · have : ¬ (1 < n1 ∧ 1 < n2 ∧ v1 = 0 ∧ v2 = 0) := fun ⟨_, _, a, b⟩ => hv ⟨a, b⟩
        simp [welch, h, hv, this]
  · by_cases h : n1 = 0 ∨ n2 = 0
    · simp [pooled, h]
    · by_cases hv : v1 = 0 ∧ v2 = 0 <;> simp [pooled, h, hv]
  · by_cases h : n1 = 0 ∨ n2 = 0
    · have : ¬ (n1 ≠ 0 ∧ n2 ≠ 0 ∧ v1 = 0 ∧ v2 = 0) := by
        rintro ⟨a, b, -⟩; rcases h with h | h <;> contradiction
      simp [pooled, h, this]
    · have h' : n1 ≠ 0 ∧ n2 ≠ 0 := ⟨fun a => h (Or.inl a), fun a => h (Or.inr a)⟩
      by_cases hv : v1 = 0 ∧ v2 = 0
      · simp [pooled, h, hv, h'.1, h'.2]
      · have : ¬ (n1 ≠ 0 ∧ n2 ≠ 0 ∧ v1 = 0 ∧ v2 = 0) := fun ⟨_, _, a, b⟩ => hv ⟨a, b⟩
        simp [pooled, h, hv, this]
  · by_cases h : n1 = 0
    · simp [oneSample, h]
    · by_cases hv : v1 = 0 <;> simp [oneSample, h, hv]
  · by_cases h : n1 = 0
    · simp [oneSample, h]
    · by_cases hv : v1 = 0 <;> simp [oneSample, h, hv]

/-- **ttest_errors (paired)** -/
theorem ttest_errors_paired (sqrt : ℚ → ℚ) (x1 x2 : List ℚ) (μ0 : ℚ) :
    (paired sqrt x1 x2 μ0 = .error .mismatched ↔ x1.length ≠ x2.length) ∧
    (x1.length = x2.length → x1.length ≤ 1 → paired sqrt x1 x2 μ0 = .error .sampleSize) := by
  constructor
  · by_cases h : x1.length ≠ x2.length
    · simp [paired, h]
    · have hne : paired sqrt x1 x2 μ0 ≠ .error .mismatched := by
        unfold paired
        rw [if_neg h]
        split
        · simp
        · dsimp only
          split
          · unfold pairedCore; split <;> simp
          · simp
      simp only [hne, false_iff]
      exact h
  · intro hl h2
    unfold paired
    rw [if_neg (by simp [hl]), if_pos h2]

end TTest

/-! ### distribution functions -/
section Dist
open Stats.Dists Stats.Beta

/-- **tcdf_reflection** — for x < 0 the model of `TDist.CDF` returns 1 − CDF(−x). -/
theorem tcdf_reflection (I : ℚ → ℚ → ℚ → ℚ) (ν x : ℚ) (hx : x < 0) :
    ∃ v, tcdf I ν (-x) = some v ∧ tcdf I ν x = some (1 - v) :=
  ⟨_, (tcdf_neg_eq I ν x hx).2, (tcdf_neg_eq I ν x hx).1⟩

/-- **tcdf_range** — for ANY `I` with values in [0,1] (whatever lgamma/exp/log/the continued
fraction deliver) the t distribution function is defined everywhere, lies in [0,1], is ≥ ½ on the
right and ≤ ½ on the left of 0, and equals ½ at 0. -/
theorem tcdf_range (I : ℚ → ℚ → ℚ → ℚ) (hI : ∀ z a b, 0 ≤ I z a b ∧ I z a b ≤ 1) (ν x : ℚ) :
    ∃ v, tcdf I ν x = some v ∧ 0 ≤ v ∧ v ≤ 1 ∧ (0 ≤ x → 1 / 2 ≤ v) ∧ (x ≤ 0 → v ≤ 1 / 2) := by
  rcases lt_trichotomy x 0 with hx | hx | hx
  · obtain ⟨h0, h1⟩ := tcdfPos_range I hI ν (-x)
    refine ⟨_, (tcdf_neg_eq I ν x hx).1, by linarith, by linarith, fun h => absurd hx (not_lt.mpr h), fun _ => by linarith⟩
  · subst hx
    refine ⟨1 / 2, by simp [tcdf], by norm_num, by norm_num, fun _ => le_refl _, fun _ => le_refl _⟩
  · obtain ⟨h0, h1⟩ := tcdfPos_range I hI ν x
    have hne : ¬ x = 0 := ne_of_gt hx
    refine ⟨tcdfPos I ν x, by simp [tcdf, hne, hx], by linarith, h1, fun _ => h0, fun h => absurd hx (not_lt.mpr h)⟩

theorem tcdf_zero (I : ℚ → ℚ → ℚ → ℚ) (ν : ℚ) : tcdf I ν 0 = some (1 / 2) := by simp [tcdf]

/-- **tcdf_symmetric** — F(−x) = 1 − F(x) for every x, exactly, in the model. -/
theorem tcdf_symmetric (I : ℚ → ℚ → ℚ → ℚ) (ν x : ℚ) :
    ∃ v w, tcdf I ν x = some v ∧ tcdf I ν (-x) = some w ∧ v + w = 1 := by
  rcases lt_trichotomy x 0 with hx | hx | hx
  · obtain ⟨a, b⟩ := tcdf_neg_eq I ν x hx
    exact ⟨_, _, a, b, by ring⟩
  · subst hx
    exact ⟨1 / 2, 1 / 2, tcdf_zero I ν, by simpa using tcdf_zero I ν, by norm_num⟩
  · have hx' : -x < 0 := by linarith
    obtain ⟨a, b⟩ := tcdf_neg_eq I ν (-x) hx'
    rw [neg_neg] at a b
    exact ⟨_, _, b, a, by ring⟩

/-- **ncdf_monotone_range_symmetric** — for ANY antitone, non-negative `erfc` with
erfc(−z) = 2 − erfc(z) (and σ, √2 > 0) the model of `NormalDist.CDF` is monotone, lies in [0,1]
and satisfies F(μ−t) = 1 − F(μ+t). -/
theorem ncdf_monotone_range_symmetric (erfc : ℚ → ℚ) (E : ErfcLike erfc) (s2 μ σ : ℚ)
    (hs : 0 < s2) (hσ : 0 < σ) :
    (∀ x y, x ≤ y → ncdf erfc s2 μ σ x ≤ ncdf erfc s2 μ σ y) ∧
    (∀ x, 0 ≤ ncdf erfc s2 μ σ x ∧ ncdf erfc s2 μ σ x ≤ 1) ∧
    (∀ t, ncdf erfc s2 μ σ (μ - t) = 1 - ncdf erfc s2 μ σ (μ + t)) := by
  have hd : 0 < σ * s2 := mul_pos hσ hs
  refine ⟨?_, ?_, ?_⟩
  · intro x y hxy
    rw [ncdf_eq, ncdf_eq]
    have : -(y - μ) / (σ * s2) ≤ -(x - μ) / (σ * s2) :=
      div_le_div_of_nonneg_right (by linarith) hd.le
    have := E.anti _ _ this
    linarith
  · intro x
    rw [ncdf_eq]
    have h0 := E.nonneg (-(x - μ) / (σ * s2))
    have h1 := E.nonneg (-(-(x - μ) / (σ * s2)))
    rw [E.refl] at h1
    constructor <;> linarith
  · intro t
    rw [ncdf_eq, ncdf_eq]
    have e1 : -(μ - t - μ) / (σ * s2) = -(-(μ + t - μ) / (σ * s2)) := by ring
    rw [e1, E.refl]
    ring

/-- the hypotheses are satisfiable -/
example : ErfcLike (fun _ => 1) := ⟨fun _ _ _ => le_refl _, fun _ => by norm_num, fun _ => by norm_num⟩

/-- **betainc_switch_symmetric** — the two branches of `mathBetaInc` are I_x(a,b) and
1 − I_{1−x}(b,a) of the SAME continued fraction: for any `cf`, any prefactor with
bt(x,a,b) = bt(1−x,b,a), 0 ≤ x ≤ 1, and x not exactly on the switch point (a+1)/(a+b+2), the
values computed for (x,a,b) and (1−x,b,a) add to 1 (and one panics iff the other does). -/
theorem betainc_switch_symmetric (bt : ℚ → ℚ → ℚ → ℚ) (cf : ℚ → ℚ → ℚ → Option ℚ) (x a b : ℚ)
    (hbt : bt x a b = bt (1 - x) b a) (hx : 0 ≤ x ∧ x ≤ 1) (hab : a + b + 2 ≠ 0)
    (hsw : x ≠ (a + 1) / (a + b + 2)) :
    (∃ u, betaInc bt cf x a b = .val u ∧ betaInc bt cf (1 - x) b a = .val (1 - u)) ∨
    (betaInc bt cf x a b = .panic ∧ betaInc bt cf (1 - x) b a = .panic) := by
  have hthr := switch_threshold a b hab
  have h1 : ¬ (x < 0 ∨ 1 < x) := by rintro (h | h) <;> linarith [hx.1, hx.2]
  have h2 : ¬ (1 - x < 0 ∨ 1 < 1 - x) := by rintro (h | h) <;> linarith [hx.1, hx.2]
  have hb : ((0 : ℚ) < x ∧ x < 1) ↔ ((0 : ℚ) < 1 - x ∧ 1 - x < 1) := by
    constructor <;> rintro ⟨p, q⟩ <;> constructor <;> linarith
  have hxx : 1 - (1 - x) = x := by ring
  have hbtv : (if (0 : ℚ) < 1 - x ∧ 1 - x < 1 then bt (1 - x) b a else 0)
      = (if (0 : ℚ) < x ∧ x < 1 then bt x a b else 0) := by
    by_cases h : (0 : ℚ) < x ∧ x < 1
    · rw [if_pos h, if_pos (hb.mp h), hbt]
    · rw [if_neg h, if_neg (fun h' => h (hb.mpr h'))]
  rcases lt_or_gt_of_ne hsw with hlt | hgt
  · have hge : ¬ (1 - x < (b + 1) / (b + a + 2)) := by linarith
    simp only [betaInc, Stats.Beta.one, Stats.Beta.two, Bool.or_eq_true, Bool.and_eq_true, lt_rat,
      ofNat_rat, Nat.cast_zero, Nat.cast_one, Nat.cast_ofNat, h1, h2, if_false, add_rat, div_rat,
      sub_rat, mul_rat, hlt, hge, if_true, hxx, hbtv]
    cases hcf : cf x a b with
    | none => right; simp
    | some v => left; exact ⟨_, rfl, rfl⟩
  · have hlt' : 1 - x < (b + 1) / (b + a + 2) := by linarith
    have hge : ¬ (x < (a + 1) / (a + b + 2)) := not_lt.mpr hgt.le
    simp only [betaInc, Stats.Beta.one, Stats.Beta.two, Bool.or_eq_true, Bool.and_eq_true, lt_rat,
      ofNat_rat, Nat.cast_zero, Nat.cast_one, Nat.cast_ofNat, h1, h2, if_false, add_rat, div_rat,
      sub_rat, mul_rat, hlt', hge, if_true, hbtv]
    cases hcf : cf (1 - x) b a with
    | none => right; simp
    | some v => left; exact ⟨_, rfl, by simp⟩

/-- **invcdf_brackets** — both bracketing loops of the generic `InvCDF` (any CDF, monotone or
not; 0 < xdelta), entered as the code enters them, can only return (loX, hiX) with
cdf(loX) < y ≤ cdf(hiX) and loX < hiX. -/
theorem invcdf_brackets (cdf : ℚ → ℚ) (y : ℚ) (fuel : ℕ) (x0 xd a b : ℚ) (hxd : 0 < xd) :
    (cdf x0 < y → bracketUp cdf y fuel x0 x0 (cdf x0) xd = some (a, b) →
      cdf a < y ∧ y ≤ cdf b ∧ a < b) ∧
    (y ≤ cdf x0 → bracketDown cdf y fuel x0 (cdf x0) x0 xd = some (a, b) →
      cdf a < y ∧ y ≤ cdf b ∧ a < b) :=
  ⟨fun h1 h2 => bracketUp_spec cdf y fuel x0 x0 xd a b hxd h1 h2,
   fun h1 h2 => bracketDown_spec cdf y fuel x0 x0 xd a b hxd h1 h2⟩

/-- **bisect_inverts** — `bisectBool` on the predicate `cdf(x) < y` over a bracket
cdf(lo) < y ≤ cdf(hi), lo < hi, returns (x1, x2) with lo ≤ x1 < x2 ≤ hi and cdf(x1) < y ≤ cdf(x2);
when the fuel covers log2((hi−lo)/xtol) halvings, x2 − x1 ≤ xtol; and for a MONOTONE cdf every z
with y ≤ cdf(z) lies above x1 — so x2, the value `InvCDF` returns, is within xtol of the smallest
point where the distribution function reaches y. -/
theorem bisect_inverts (cdf : ℚ → ℚ) (y lo hi xtol : ℚ) (fuel : ℕ)
    (hlh : lo < hi) (hlo : cdf lo < y) (hhi : y ≤ cdf hi) :
    ∃ x1 x2, bisectBool (fun x => Arith.lt (cdf x) y) lo hi xtol fuel = some (x1, x2) ∧
      lo ≤ x1 ∧ x1 < x2 ∧ x2 ≤ hi ∧ cdf x1 < y ∧ y ≤ cdf x2 ∧
      (hi - lo ≤ xtol * 2 ^ fuel → x2 - x1 ≤ xtol) ∧
      ((∀ u v, u ≤ v → cdf u ≤ cdf v) → ∀ z, y ≤ cdf z → x1 < z) := by
  have f1 : (fun x => Arith.lt (cdf x) y) lo = true := by simpa using hlo
  have f2 : (fun x => Arith.lt (cdf x) y) hi = false := by
    have : ¬ cdf hi < y := not_lt.mpr hhi
    show Arith.lt (cdf hi) y = false
    rw [Bool.eq_false_iff]
    intro hc
    exact this ((lt_rat _ _).mp hc)
  obtain ⟨a, b, c, d, e, g⟩ :=
    bisectLoop_spec (fun x => Arith.lt (cdf x) y) xtol fuel lo hi true hlh f1 (by simpa using f2)
  have d' : cdf (bisectLoop (fun x => Arith.lt (cdf x) y) xtol fuel lo hi true).1 < y :=
    (lt_rat _ _).mp d
  have e' : y ≤ cdf (bisectLoop (fun x => Arith.lt (cdf x) y) xtol fuel lo hi true).2 := by
    apply not_lt.mp
    intro hc
    have := (lt_rat _ _).mpr hc
    rw [this] at e
    simp at e
  refine ⟨(bisectLoop (fun x => Arith.lt (cdf x) y) xtol fuel lo hi true).1,
    (bisectLoop (fun x => Arith.lt (cdf x) y) xtol fuel lo hi true).2, ?_, a, b, c, d', e', g, ?_⟩
  · unfold bisectBool
    rw [f1, f2]
    simp
  · intro hmono z hz
    by_contra hc
    have h1 := hmono _ _ (not_lt.mp hc)
    linarith

/-- **invcdf_inverts** — whenever the model of the generic `InvCDF` returns a finite value x for
0 < y < 1, then y ≤ cdf(x) and some x1 < x has cdf(x1) < y (for a monotone cdf: no point at or
below x1 reaches y). -/
theorem invcdf_inverts (cdf : ℚ → ℚ) (bl bh y x : ℚ) (fuel : ℕ) (hy : 0 < y ∧ y < 1)
    (h : invCDF cdf bl bh fuel y = .val x) :
    y ≤ cdf x ∧ ∃ x1, x1 < x ∧ cdf x1 < y := by
  have c1 : ¬ (y < 0 ∨ 1 < y) := by rintro (h | h) <;> linarith [hy.1, hy.2]
  have c2 : ¬ y = 0 := ne_of_gt hy.1
  have c3 : ¬ y = 1 := ne_of_lt hy.2
  simp only [invCDF, Bool.or_eq_true, lt_rat, ofNat_rat, Nat.cast_zero, Nat.cast_one, c1, if_false,
    eq_rat, c2, c3, isInf_rat, Bool.false_eq_true] at h
  split at h
  · simp at h
  · rename_i loX hiX hbr
    have hb : cdf loX < y ∧ y ≤ cdf hiX ∧ loX < hiX := by
      by_cases hc : cdf 0 < y
      · rw [if_pos hc] at hbr
        exact bracketUp_spec cdf y fuel 0 0 1 loX hiX one_pos hc hbr
      · rw [if_neg hc] at hbr
        exact bracketDown_spec cdf y fuel 0 0 1 loX hiX one_pos (not_lt.mp hc) hbr
    obtain ⟨x1, x2, hbis, _, h12, _, hx1, hx2, _, _⟩ :=
      bisect_inverts cdf y loX hiX (xtol : ℚ) fuel hb.2.2 hb.1 hb.2.1
    rw [hbis] at h
    simp only at h
    injection h with h
    subst h
    exact ⟨hx2, x1, h12, hx1⟩

/-- **invcdf_stateless** — the model of a reused `InvCDF(dist)` closure has no state: the answer
to the k-th query is `invCDF` of that query alone, so two calls with the same p agree whatever was
asked in between (any two histories `pre`, `pre'`).  (In dist.go all variables of the closure body —
`x1, y1, xdelta, loX, …` — are declared inside the body; the correspondence check queries ONE real
closure 1500–3000 times and compares call k with this model and with a fresh closure.) -/
theorem invcdf_stateless {α : Type} [Stats.Arith α] (cdf : α → α) (bl bh : α) (fuel : ℕ) :
    (∀ (ps : List α) (k : ℕ) (hk : k < ps.length),
      (runClosure cdf bl bh fuel ps)[k]? = some (invCDF cdf bl bh fuel ps[k])) ∧
    (∀ (pre pre' : List α) (p : α),
      (runClosure cdf bl bh fuel (pre ++ [p])).getLast? = some (invCDF cdf bl bh fuel p) ∧
      (runClosure cdf bl bh fuel (pre ++ [p])).getLast? =
        (runClosure cdf bl bh fuel (pre' ++ [p])).getLast?) := by
  constructor
  · intro ps k hk
    simp [runClosure, hk]
  · intro pre pre' p
    simp [runClosure]

/-! ### the continued fraction of `betacf` -/

/-- **lentz_is_convergent** — as long as the tiny-value guard `raiseZero` does not fire, the state
of the modified Lentz iteration after the partial numerators e₁ … e_{k+1} is
c = A_{k+1}/A_k, d = B_k/B_{k+1}, h = A_{k+1}/B_{k+1}: h IS the (k+1)-th convergent of
1/(1 + e₁/(1 + e₂/(1 + …))), with A, B the standard Wallis recurrence and
e₁ = −(a+b)x/(a+1), e₂ₘ = m(b−m)x/((a+2m−1)(a+2m)), e₂ₘ₊₁ = −(a+m)(a+b+m)x/((a+2m)(a+2m+1)). -/
theorem lentz_is_convergent (x a b : ℚ) (hg0 : guardInit x a b) (k : ℕ)
    (hg : ∀ j, j < k → guardsOff x a b j) :
    (lstate x a b k).h = cfA (cfNum x a b) (k + 1) / cfB (cfNum x a b) (k + 1) ∧
    (lstate x a b k).c = cfA (cfNum x a b) (k + 1) / cfA (cfNum x a b) k ∧
    (lstate x a b k).d = cfB (cfNum x a b) k / cfB (cfNum x a b) (k + 1) := by
  have hi := lentz_inv x a b hg0 k hg
  have := hi.a0; have := hi.b1
  refine ⟨?_, ?_, ?_⟩
  · rw [eq_div_iff hi.b1]; exact hi.h
  · rw [eq_div_iff hi.a0]; exact hi.c
  · rw [eq_div_iff hi.b1]; exact hi.d

/-- the partial numerators are the ones written in beta.go -/
theorem cfNum_formulas (x a b : ℚ) (m : ℕ) (hm : 1 ≤ m) :
    cfNum x a b 1 = -((a + b) * x / (a + 1)) ∧
    cfNum x a b (2 * m) = m * (b - m) * x / ((a + 2 * m - 1) * (a + 2 * m)) ∧
    cfNum x a b (2 * m + 1) = -(a + m) * (a + b + m) * x / ((a + 2 * m) * (a + 2 * m + 1)) := by
  refine ⟨by simp [cfNum], ?_, ?_⟩
  · rw [cfNum_even x a b m hm]
    simp [numEven, Stats.Beta.one, Stats.Beta.two]
  · rw [cfNum_odd x a b m hm]
    simp [numOdd, Stats.Beta.one, Stats.Beta.two]

/-- **betacf_returns_convergent** — `betacf` returns exactly at the FIRST iteration m ≤ 200 whose
`hfac = d·c` passes the code's test `|hfac − 1| < 3e-14`, and returns that iteration's h; when the
guard never fired up to there, the value is the (2m+1)-th convergent and the tested quantity is the
ratio of the last two convergents. -/
theorem betacf_returns_convergent (x a b v : ℚ) (h : betacf x a b = some v) :
    ∃ m, 1 ≤ m ∧ m ≤ 200 ∧ v = (lstate x a b (2 * m)).h ∧ stopTest x a b m ∧
      (∀ m', 1 ≤ m' → m' < m → ¬ stopTest x a b m') ∧
      (guardInit x a b → (∀ j, j < 2 * m → guardsOff x a b j) →
        v = cfA (cfNum x a b) (2 * m + 1) / cfB (cfNum x a b) (2 * m + 1) ∧
        hfac x a b m = v / (cfA (cfNum x a b) (2 * m) / cfB (cfNum x a b) (2 * m))) := by
  obtain ⟨m, h1, h2, h3, h4, h5⟩ := (cfLoop_spec x a b maxIterations 1 (le_refl _)).1 v h
  refine ⟨m, h1, by unfold maxIterations at h2; omega, h3, h4, h5, ?_⟩
  intro hg0 hg
  have hv := (lentz_is_convergent x a b hg0 (2 * m) hg).1
  rw [← h3] at hv
  refine ⟨hv, ?_⟩
  rw [hv]
  exact hfac_ratio x a b m h1 (lentz_inv x a b hg0 (2 * m) hg) (hg (2 * m - 1) (by omega))

/-- **betacf_panic** — the panic "failed to converge" happens exactly when none of the 200
iterations passes the test. -/
theorem betacf_panic (x a b : ℚ) (h : betacf x a b = none) :
    ∀ m, 1 ≤ m → m ≤ 200 → ¬ stopTest x a b m := by
  intro m h1 h2
  exact (cfLoop_spec x a b maxIterations 1 (le_refl _)).2 h m h1 (by unfold maxIterations; omega)

instance (z : ℚ) : Decidable (GuardOff z) := by unfold GuardOff; infer_instance

/-- the guard hypotheses are satisfiable (x = ½, a = 2, b = ½: first three numerators) -/
example : guardInit (1/2) 2 (1/2) ∧ guardsOff (1/2) 2 (1/2) 0 ∧ guardsOff (1/2) 2 (1/2) 1 := by
  unfold guardInit guardsOff
  decide +kernel

end Dist

end C12
