/-
C05 — name decomposition and key extraction. Property theorems only.
-/
import Model.Fmt.Name
import Model.Proc.Extract
import Model.Spec.Name

namespace C05
open Bytes Fmt.Name

/-! ### splitGomaxprocs -/

theorem splitGoAux_concat (rev suf p g : Bytes) (h : splitGoAux rev suf = some (p, g)) :
    p ++ g = rev.reverse ++ suf := by
  induction rev generalizing suf with
  | nil => simp [splitGoAux] at h
  | cons c rest ih =>
    unfold splitGoAux at h
    split at h
    · simp at h; obtain ⟨rfl, rfl⟩ := h; simp
    · split at h
      · have := ih _ h; simp [this]
      · simp at h

theorem splitGomaxprocs_concat (n : Bytes) :
    (splitGomaxprocs n).1 ++ ((splitGomaxprocs n).2.getD []) = n := by
  unfold splitGomaxprocs
  split
  · rename_i p g h; have := splitGoAux_concat _ _ _ _ h; simpa using this
  · simp

theorem splitSlash_ne_nil (b : Bytes) : splitSlash b ≠ [] := by
  induction b with
  | nil => simp [splitSlash]
  | cons c r ih =>
    unfold splitSlash
    split
    · simp
    · split <;> simp

theorem splitSlash_flatten (b : Bytes) : (splitSlash b).flatten = b := by
  induction b with
  | nil => simp [splitSlash]
  | cons c r ih =>
    unfold splitSlash
    split
    · rename_i h; exact absurd h (splitSlash_ne_nil r)
    · rename_i p ps h
      rw [h] at ih
      split <;> simp_all

/-- **parts_concat**: base followed by the parts reproduces the name byte for byte. -/
theorem parts_concat (n : Bytes) : (parts n).1 ++ (parts n).2.flatten = n := by
  have h1 := splitGomaxprocs_concat n
  unfold parts
  generalize splitGomaxprocs n = sg at h1 ⊢
  obtain ⟨buf, g⟩ := sg
  simp only at h1 ⊢
  have hne := splitSlash_ne_nil buf
  have hfl := splitSlash_flatten buf
  cases hs : splitSlash buf with
  | nil => exact absurd hs hne
  | cons p ps =>
    rw [hs] at hfl
    cases g with
    | none => simp at h1 ⊢; rw [← h1]; simpa using hfl
    | some g =>
      simp at h1 ⊢
      rw [← h1, ← hfl]; simp

end C05
