/-
C05 — name decomposition and key extraction. Property theorems only.
-/
import Model.Fmt.Name
import Model.Proc.Extract
import Model.Spec.Name
import Proofs.Lemmas.C05Name

namespace C05
open Bytes Fmt.Name

/-! ### splitGomaxprocs -/

theorem splitGoAux_concat (rev suf p g : Bytes) (h : splitGoAux rev suf = some (p, g)) :
    p ++ g = rev.reverse ++ suf := by
  induction rev generalizing suf with
  | nil => simp [splitGoAux] at h
  | cons c rest ih =>
    unfold splitGoAux at h
    split at h
    · simp at h; obtain ⟨rfl, rfl⟩ := h; simp
    · split at h
      · have := ih _ h; simp [this]
      · simp at h

theorem splitGomaxprocs_concat (n : Bytes) :
    (splitGomaxprocs n).1 ++ ((splitGomaxprocs n).2.getD []) = n := by
  unfold splitGomaxprocs
  split
  · rename_i p g h; have := splitGoAux_concat _ _ _ _ h; simpa using this
  · simp

theorem splitSlash_ne_nil (b : Bytes) : splitSlash b ≠ [] := by
  induction b with
  | nil => simp [splitSlash]
  | cons c r ih =>
    unfold splitSlash
    split
    · simp
    · split <;> simp

theorem splitSlash_flatten (b : Bytes) : (splitSlash b).flatten = b := by
  induction b with
  | nil => simp [splitSlash]
  | cons c r ih =>
    unfold splitSlash
    split
    · rename_i h; exact absurd h (splitSlash_ne_nil r)
    · rename_i p ps h
      rw [h] at ih
      split <;> simp_all

/-- **parts_concat**: base followed by the parts reproduces the name byte for byte. -/
theorem parts_concat (n : Bytes) : (parts n).1 ++ (parts n).2.flatten = n := by
  have h1 := splitGomaxprocs_concat n
  unfold parts
  generalize splitGomaxprocs n = sg at h1 ⊢
  obtain ⟨buf, g⟩ := sg
  simp only at h1 ⊢
  have hne := splitSlash_ne_nil buf
  have hfl := splitSlash_flatten buf
  cases hs : splitSlash buf with
  | nil => exact absurd hs hne
  | cons p ps =>
    rw [hs] at hfl
    cases g with
    | none => simp at h1 ⊢; rw [← h1]; simpa using hfl
    | some g =>
      simp at h1 ⊢
      rw [← h1, ← hfl]; simp

/-- **parts_eq_spec** — the algorithm of `Name.Parts` (backwards scan for `-N`, forward split at
'/') computes exactly the specified decomposition, for every byte string. -/
theorem parts_eq_spec (n : Bytes) : parts n = Spec.Name.decomp n := by
  unfold parts Spec.Name.decomp
  rw [splitGomaxprocs_eq_spec]
  generalize Spec.Name.gmpSplit n = sg
  obtain ⟨buf, g⟩ := sg
  simp only
  rw [splitSlash_eq_spec]
  cases g <;> simp

/-! ### shape -/

theorem takeWhile_no_slash (b : Bytes) : hasByte (b.takeWhile (· != slash)) slash = false := by
  induction b with
  | nil => simp [hasByte]
  | cons c r ih =>
    by_cases hc : c = slash
    · subst hc; simp [hasByte]
    · simp only [List.takeWhile_cons, bne_iff_ne, ne_eq, hc, not_false_eq_true, decide_true, if_true]
      simp only [hasByte, List.any_cons] at ih ⊢
      simp [hc, ih]

theorem T_all_slashSeg (b : Bytes) : (T b).all Spec.Name.isSlashSeg = true := by
  induction b with
  | nil => simp [T, splitSlash]
  | cons c r ih =>
    rw [T_cons]
    by_cases hc : c = slash
    · subst hc
      simp only [beq_self_eq_true, if_true, List.all_cons, ih, Bool.and_true]
      simp only [Spec.Name.isSlashSeg, beq_self_eq_true, Bool.true_and, Bool.not_eq_true']
      exact takeWhile_no_slash r
    · have : (c == slash) = false := by simpa using hc
      simp [this, ih]

theorem all_takeWhile (p : UInt8 → Bool) (l : Bytes) : (l.takeWhile p).all p = true := by
  induction l with
  | nil => simp
  | cons a t ih =>
    simp only [List.takeWhile_cons]
    split
    · rename_i h; simp [h, ih]
    · simp

theorem gmpSplit_gmp (n buf g : Bytes) (h : Spec.Name.gmpSplit n = (buf, some g)) :
    Spec.Name.isGmpPart g = true := by
  unfold Spec.Name.gmpSplit at h
  simp only at h
  split at h
  · rename_i c r hr
    split at h
    · rename_i hc
      simp at h
      obtain ⟨_, rfl⟩ := h
      simp only [Bool.and_eq_true, Bool.not_eq_true', beq_iff_eq] at hc
      simp only [Spec.Name.isGmpPart, hc.1, beq_self_eq_true, Bool.true_and, Bool.and_eq_true,
        Bool.not_eq_true', List.all_reverse]
      refine ⟨by simpa using hc.2, ?_⟩
      exact all_takeWhile _ _
    · simp at h
  · simp at h

/-- **parts_shape** — the base contains no '/', every part but an optional last one is a
'/'-introduced segment without further '/', and the optional last one is `-` followed by one or
more digits. -/
theorem parts_shape (n : Bytes) : Spec.Name.shapeOK (parts n).1 (parts n).2 = true := by
  rw [parts_eq_spec]
  unfold Spec.Name.decomp
  cases hg : Spec.Name.gmpSplit n with
  | mk buf g =>
    simp only
    have hseg : Spec.Name.segments buf = ((splitSlash buf).headD [], (splitSlash buf).tail) := by
      rw [splitSlash_eq_spec]; simp
    rw [hseg, splitSlash_head]
    simp only [List.headD_cons, List.tail_cons]
    unfold Spec.Name.shapeOK
    rw [takeWhile_no_slash]
    have hall := T_all_slashSeg buf
    cases g with
    | none =>
      simp only [List.append_nil, Bool.not_false, Bool.true_and]
      cases hl : (T buf).getLast? with
      | none => rfl
      | some l =>
        simp only
        have hmem : l ∈ T buf := List.mem_of_getLast? hl
        have h1 : Spec.Name.isSlashSeg l = true := (List.all_eq_true.mp hall) l hmem
        have h2 : (T buf).dropLast.all Spec.Name.isSlashSeg = true := by
          rw [List.all_eq_true] at hall ⊢
          intro x hx; exact hall x (List.dropLast_subset _ hx)
        simp [h1, h2]
    | some g =>
      have hgmp := gmpSplit_gmp n buf g hg
      simp [hall, hgmp]

end C05

namespace C05
open Bytes Fmt.Name Proc.Extract

/-! ### keys -/

/-- **fullname_key** — `.fullname` is the whole name. -/
theorem fullname_key (r : ResView) : extract dotFullname r = .ok r.name := by
  simp [extract, dotFullname, dotConfig, dotUnit, dotName]

/-- `.name` is `Name.Base`. -/
theorem name_key_base (r : ResView) : extract dotName r = .ok (base r.name) := by
  simp [extract, dotFullname, dotConfig, dotUnit, dotName]

/-- **subname_key** — `/k` (any key starting with '/', other than `/gomaxprocs`) is the text after
`/k=` in the first part carrying that prefix, and empty when there is none. -/
theorem subname_key (k : Bytes) (r : ResView) (hk : (slash :: k) ≠ gomaxprocsKey) :
    extract (slash :: k) r = .ok (Spec.Name.subname (slash :: k) (parts r.name).2) := by
  have h1 : ((slash :: k) == dotConfig) = false := by
    simp only [dotConfig, beq_eq_false_iff_ne, ne_eq, List.cons.injEq, not_and]; intro h; exact absurd h (by decide)
  have h2 : ((slash :: k) == dotUnit) = false := by
    simp only [dotUnit, beq_eq_false_iff_ne, ne_eq, List.cons.injEq, not_and]; intro h; exact absurd h (by decide)
  have h3 : ((slash :: k) == dotName) = false := by
    simp only [dotName, beq_eq_false_iff_ne, ne_eq, List.cons.injEq, not_and]; intro h; exact absurd h (by decide)
  have h4 : ((slash :: k) == dotFullname) = false := by
    simp only [dotFullname, beq_eq_false_iff_ne, ne_eq, List.cons.injEq, not_and]; intro h; exact absurd h (by decide)
  have h5 : ((slash :: k) == gomaxprocsKey) = false := by simpa using hk
  simp only [extract, List.isEmpty_cons, h1, h2, h3, h4, h5, Bool.false_eq_true, if_false,
    Bool.or_self, List.head?_cons, if_true]
  simp only [extractNamePart, Bool.false_eq_true, if_false, Spec.Name.subname]
  cases (parts r.name).2.find? (hasPrefix · (slash :: k ++ [eqc])) <;> simp

/-- **config_key** — a plain key (not starting with '/' and none of the reserved dotted names)
is the configured value of that key, and empty when the key is absent. -/
theorem config_key (key : Bytes) (r : ResView) (hne : key ≠ []) (hs : key.head? ≠ some slash)
    (h1 : key ≠ dotConfig) (h2 : key ≠ dotUnit) (h3 : key ≠ dotName) (h4 : key ≠ dotFullname) :
    extract key r = .ok (match r.config.find? (·.1 == key) with
                          | some kv => kv.2
                          | none => []) := by
  have e0 : key.isEmpty = false := by cases key <;> simp_all
  have e1 : (key == dotConfig) = false := by simpa using h1
  have e2 : (key == dotUnit) = false := by simpa using h2
  have e3 : (key == dotName) = false := by simpa using h3
  have e4 : (key == dotFullname) = false := by simpa using h4
  have e5 : (key.head? == some slash) = false := by simpa using hs
  simp only [extract, e0, e1, e2, e3, e4, e5, extractConfig, Bool.false_eq_true, if_false, Bool.or_self]
  cases r.config.find? (·.1 == key) <;> rfl

example : extract [107] { name := [70], config := [([97], [49]), ([107], [120])] } = .ok [120] := by rfl
example : extract [109] { name := [70], config := [([97], [49])] } = .ok [] := by rfl

end C05

namespace C05
open Bytes Fmt.Name Proc.Extract

theorem takeUntilSlash_eq (n : Bytes) : takeUntilSlash n = n.takeWhile (· != slash) := by
  induction n with
  | nil => rfl
  | cons c r ih =>
    unfold takeUntilSlash
    by_cases hc : c = slash
    · subst hc; simp
    · have : (c == slash) = false := by simpa using hc
      simp [this, hc, ih]

theorem takeWhile_of_no_slash (b : Bytes) (h : hasByte b slash = false) :
    b.takeWhile (· != slash) = b := by
  induction b with
  | nil => rfl
  | cons c r ih =>
    simp only [hasByte, List.any_cons, Bool.or_eq_false_iff] at h
    have hc : c ≠ slash := by simpa using h.1
    simp only [List.takeWhile_cons, bne_iff_ne, ne_eq, hc, not_false_eq_true, decide_true, if_true]
    rw [ih (by simpa [hasByte] using h.2)]

theorem takeWhile_append_of_slash (a b : Bytes) (h : hasByte a slash = true) :
    (a ++ b).takeWhile (· != slash) = a.takeWhile (· != slash) := by
  induction a with
  | nil => simp [hasByte] at h
  | cons c r ih =>
    by_cases hc : c = slash
    · subst hc; simp
    · have h' : hasByte r slash = true := by
        simp only [hasByte, List.any_cons, Bool.or_eq_true] at h
        rcases h with h | h
        · exact absurd (by simpa using h) hc
        · simpa [hasByte] using h
      simp only [List.cons_append, List.takeWhile_cons, bne_iff_ne, ne_eq, hc, not_false_eq_true,
        decide_true, if_true]
      rw [ih h']

theorem gmpPart_no_slash (g : Bytes) (h : Spec.Name.isGmpPart g = true) : hasByte g slash = false := by
  cases g with
  | nil => simp [hasByte]
  | cons c r =>
    simp only [Spec.Name.isGmpPart, Bool.and_eq_true, beq_iff_eq, Bool.not_eq_true'] at h
    obtain ⟨⟨hc, _⟩, hall⟩ := h
    subst hc
    simp only [hasByte, List.any_cons, Bool.or_eq_false_iff]
    refine ⟨by decide, ?_⟩
    rw [List.any_eq_false]
    intro x hx
    have hd := (List.all_eq_true.mp hall) x hx
    intro hxs
    have : x = slash := by simpa using hxs
    subst this
    exact absurd hd (by decide)

/-- **base_eq_parts_fst** — `Name.Base` reported on its own is the base that `Name.Parts` returns. -/
theorem base_eq_parts_fst (n : Bytes) : base n = (parts n).1 := by
  have hp : (parts n).1 = (splitGomaxprocs n).1.takeWhile (· != slash) := by
    unfold parts
    generalize splitGomaxprocs n = sg
    obtain ⟨buf, g⟩ := sg
    simp only
    rw [splitSlash_head]
    simp
  have hcat := splitGomaxprocs_concat n
  rw [hp]
  unfold base
  have hspec := splitGomaxprocs_eq_spec n
  cases hsg : splitGomaxprocs n with
  | mk buf g =>
    rw [hsg] at hcat hspec
    simp only at hcat ⊢
    -- the gomaxprocs part, if any, contains no '/'
    have hg : hasByte (g.getD []) slash = false := by
      cases g with
      | none => simp [hasByte]
      | some g => exact gmpPart_no_slash g (gmpSplit_gmp n buf g hspec.symm)
    have hn : hasByte n slash = hasByte buf slash := by
      rw [← hcat]
      simp only [hasByte, List.any_append] at hg ⊢
      simp [hg]
    rw [hn]
    by_cases hb : hasByte buf slash = true
    · simp only [hb, if_true]
      rw [takeUntilSlash_eq, ← hcat, takeWhile_append_of_slash _ _ hb]
    · have hb' : hasByte buf slash = false := by simpa using hb
      simp only [hb', Bool.false_eq_true, if_false]
      rw [takeWhile_of_no_slash _ hb']

/-- **name_key** — `.name` is the base of the decomposition. -/
theorem name_key (r : ResView) : extract dotName r = .ok (parts r.name).1 := by
  rw [name_key_base, base_eq_parts_fst]

theorem head_dash_iff_gmp (l : Bytes) (h : Spec.Name.isSlashSeg l = true ∨ Spec.Name.isGmpPart l = true) :
    (l.head? == some dash) = Spec.Name.isGmpPart l := by
  cases l with
  | nil => simp [Spec.Name.isGmpPart]
  | cons c t =>
    rcases h with h | h
    · simp only [Spec.Name.isSlashSeg, Bool.and_eq_true, beq_iff_eq] at h
      have hc := h.1; subst hc
      have e1 : (Spec.Name.slash == dash) = false := by decide
      have e2 : (Spec.Name.slash == Spec.Name.dash) = false := by decide
      simp [Spec.Name.isGmpPart, e1, e2]
    · simp only [Spec.Name.isGmpPart, Bool.and_eq_true, beq_iff_eq] at h
      have hc := h.1.1; subst hc
      simp [Spec.Name.isGmpPart, h.1.2, h.2]

/-- **gomaxprocs_key** — `/gomaxprocs` is the trailing N of a `-N` part, or else the value of an
explicit `/gomaxprocs=` segment, or empty. -/
theorem gomaxprocs_key (r : ResView) :
    extract gomaxprocsKey r = .ok (Spec.Name.gomaxprocs (parts r.name).2) := by
  have hshape := parts_shape r.name
  have e : extract gomaxprocsKey r = .ok (extractNamePart r.name (gomaxprocsKey ++ [eqc]) true) := by
    simp [extract, gomaxprocsKey, dotConfig, dotUnit, dotName, dotFullname]
  rw [e]
  unfold extractNamePart Spec.Name.gomaxprocs
  simp only [if_true]
  unfold Spec.Name.shapeOK at hshape
  cases hl : (parts r.name).2.getLast? with
  | none =>
    have : (parts r.name).2 = [] := by simpa using hl
    simp [this]
  | some l =>
    rw [hl] at hshape
    simp only [Bool.and_eq_true, Bool.or_eq_true] at hshape
    have hh := head_dash_iff_gmp l hshape.2.2
    simp only [hh]
    by_cases hg : Spec.Name.isGmpPart l = true
    · simp [hg]
    · have hg' : Spec.Name.isGmpPart l = false := by simpa using hg
      simp only [hg', Bool.false_eq_true, if_false, Spec.Name.subname]
      have : gomaxprocsKey = Spec.Name.gomaxprocsKey := rfl
      rw [this]
      cases (parts r.name).2.find? (hasPrefix · (Spec.Name.gomaxprocsKey ++ [eqc])) with
      | none => rfl
      | some p => simp [Spec.Name.gomaxprocsKey]

/-- non-vacuity: an irregular name (`a-b/c=1-4`) decomposes as specified -/
example : parts [97, 45, 98, 47, 99, 61, 49, 45, 52] = ([97, 45, 98], [[47, 99, 61, 49], [45, 52]]) := by decide

end C05

namespace C05
open Bytes Fmt.Name Proc.Extract

/-! ### `.fullname` with excluded keys -/

theorem hasPrefix_append (p rest k : Bytes) (h : hasPrefix p k = true) : hasPrefix (p ++ rest) k = true := by
  induction p generalizing k with
  | nil => cases k <;> simp_all [hasPrefix]
  | cons a as ih =>
    cases k with
    | nil => simp [hasPrefix]
    | cons c cs =>
      simp only [hasPrefix, Bool.and_eq_true] at h
      simp only [List.cons_append, hasPrefix, Bool.and_eq_true]
      exact ⟨h.1, ih cs h.2⟩

theorem contains_of_hasPrefix (b k : Bytes) (h : hasPrefix b k = true) : contains b k = true := by
  cases b with
  | nil => cases k <;> simp_all [contains, hasPrefix]
  | cons c cs => simp [contains, h]

theorem contains_append_left (a b k : Bytes) (h : contains b k = true) : contains (a ++ b) k = true := by
  induction a with
  | nil => simpa using h
  | cons x xs ih => simp [contains, ih]

theorem contains_flatten (ps : List Bytes) (p k : Bytes) (hp : p ∈ ps) (h : hasPrefix p k = true) :
    contains ps.flatten k = true := by
  induction ps with
  | nil => cases hp
  | cons q qs ih =>
    simp only [List.flatten_cons]
    rcases List.mem_cons.mp hp with rfl | hmem
    · exact contains_of_hasPrefix _ _ (hasPrefix_append _ _ _ h)
    · exact contains_append_left _ _ _ (ih hmem)

theorem hasByte_flatten (ps : List Bytes) (p : Bytes) (c : UInt8) (hp : p ∈ ps) (h : p.head? = some c) :
    hasByte ps.flatten c = true := by
  induction ps with
  | nil => cases hp
  | cons q qs ih =>
    simp only [List.flatten_cons, hasByte, List.any_append, Bool.or_eq_true]
    rcases List.mem_cons.mp hp with rfl | hmem
    · left
      cases p with
      | nil => simp at h
      | cons x xs => simp at h; subst h; simp
    · right; simpa [hasByte] using ih hmem

/-- **fullname_excluding_spec** — the `.fullname` extractor with excluded keys (fast path "nothing
to delete" included) equals the specification computed from the decomposition, for every name
and every exclusion list. -/
theorem fullname_excluding_spec (exclude : List Bytes) (n : Bytes) :
    Proc.Extract.fullNameExcluding exclude n
      = Spec.Name.fullNameExcluding exclude (parts n).1 (parts n).2 := by
  have hcat := parts_concat n
  unfold Proc.Extract.fullNameExcluding Spec.Name.fullNameExcluding
  simp only
  generalize hexc : exclude.any (· == dotName) = excName
  generalize hsubs : exclude.filter (·.head? == some slash) = subs
  have hexc' : exclude.any (· == [46, 110, 97, 109, 101]) = excName := by rw [← hexc]; rfl
  have hgk : gomaxprocsKey = Spec.Name.gomaxprocsKey := rfl
  rw [hexc', ← hgk]
  generalize hexcG : subs.any (· == gomaxprocsKey) = excG
  -- the kept-parts predicates coincide
  have hkeep : ∀ part : Bytes,
      (!((subs.map (· ++ [eqc])).any (hasPrefix part ·)) && !(excG && part.head? == some dash))
        = (!(subs.any fun k => hasPrefix part (k ++ [eqc])) && !(excG && part.head? == some dash)) := by
    intro part; simp [List.any_map, Function.comp_def]
  -- when nothing is excluded at all, both sides are the name
  have hall : ∀ (keep : Bytes → Bool), (∀ p ∈ (parts n).2, keep p = true) →
      (parts n).1 ++ ((parts n).2.filter keep).flatten = n := by
    intro keep hk
    rw [List.filter_eq_self.mpr hk]; exact hcat
  by_cases h0 : ((subs.map (· ++ [eqc])).isEmpty && !excName && !excG) = true
  · -- early return of newExtractorFullName
    simp only [h0, if_true]
    simp only [Bool.and_eq_true, Bool.not_eq_true', List.isEmpty_iff, List.map_eq_nil_iff] at h0
    obtain ⟨⟨hs, hn⟩, hg⟩ := h0
    subst hs
    simp only [hn, hg, Bool.false_eq_true, if_false, List.any_nil, Bool.not_false, Bool.false_and,
      Bool.and_self]
    symm; apply hall; intros; rfl
  · simp only [h0, Bool.false_eq_true, if_false]
    unfold extractFullExcluded
    simp only
    by_cases hfound : (excName || (subs.map (· ++ [eqc])).any (contains n ·) || (excG && hasByte n dash)) = true
    · simp only [hfound, Bool.not_true, Bool.false_eq_true, if_false]
      have : (fun part => !((subs.map (· ++ [eqc])).any (hasPrefix part ·)) && !(excG && part.head? == some dash))
           = (fun part => !(subs.any fun k => hasPrefix part (k ++ [eqc])) && !(excG && part.head? == some dash)) :=
        funext hkeep
      rw [this]
    · -- nothing found in the name: every part is kept and the base stays
      have hf : (excName || (subs.map (· ++ [eqc])).any (contains n ·) || (excG && hasByte n dash)) = false := by
        simpa using hfound
      simp only [hf, Bool.not_false, if_true]
      simp only [Bool.or_eq_false_iff] at hf
      obtain ⟨⟨hn, hcont⟩, hgm⟩ := hf
      simp only [hn, Bool.false_eq_true, if_false]
      symm; apply hall
      intro p hp
      simp only [Bool.and_eq_true, Bool.not_eq_true']
      constructor
      · rw [List.any_eq_false]
        intro k hk hpre
        have hc : contains n (k ++ [eqc]) = true := by
          rw [← hcat]
          exact contains_append_left _ _ _ (contains_flatten _ _ _ hp hpre)
        rw [List.any_eq_false] at hcont
        exact hcont (k ++ [eqc]) (List.mem_map.mpr ⟨k, hk, rfl⟩) hc
      · cases hG : excG with
        | false => simp
        | true =>
          simp only [Bool.true_and]
          rw [hG] at hgm
          simp only [Bool.true_and] at hgm
          cases hh : (p.head? == some Spec.Name.dash) with
          | false => rfl
          | true =>
            have hd : p.head? = some dash := by simpa using hh
            have : hasByte n dash = true := by
              rw [← hcat]
              simp only [hasByte, List.any_append, Bool.or_eq_true]
              right; simpa [hasByte] using hasByte_flatten _ _ _ hp hd
            rw [this] at hgm; cases hgm

end C05
