/-
C02 — Reader follows the format's line and scoping rules on every input.
Property theorems (helpers are in Proofs/Lemmas/C02*.lean).
-/
import Model.Fmt.Reader
import Model.Fmt.Files
import Model.Spec.Format
import Proofs.Lemmas.C02Store
import Proofs.Lemmas.C02Spec
import Proofs.Lemmas.C02Files
import Proofs.Lemmas.C02Reader
import Proofs.Lemmas.C02Grammar
import Proofs.Lemmas.C02Limit

namespace C02
open Fmt Spec.Format

/-! ## The configuration slot store -/

/-- One store operation against one map operation: the invariant is kept and the denoted map
changes as the abstract map does. -/
theorem store_step {s : Store} (h : s.Inv) {m : CMap} (hm : ∀ k, s.toMap k = m.get k)
    (op : StoreOp) :
    (s.apply op).Inv ∧ ∀ k, (s.apply op).toMap k = (CMap.applyOp m op).get k := by
  cases op with
  | setFile key v =>
    obtain ⟨hi, hg⟩ := Store.set_spec h key v true
    refine ⟨hi, fun k => ?_⟩
    simp only [Store.apply, CMap.applyOp, Store.toMap, hg, CMap.get_assign]
    by_cases hk : k = key
    · by_cases hv : v = [] <;> simp [hk, hv]
    · simpa [hk, Store.toMap] using hm k
  | setInternal key v =>
    obtain ⟨hi, hg⟩ := Store.set_spec h key v false
    refine ⟨hi, fun k => ?_⟩
    simp only [Store.apply, CMap.applyOp, Store.toMap, hg, CMap.get_assign]
    by_cases hk : k = key
    · by_cases hv : v = [] <;> simp [hk, hv]
    · simpa [hk, Store.toMap] using hm k
  | delete key =>
    obtain ⟨hi, hg⟩ := Store.delete_spec h key
    refine ⟨hi, fun k => ?_⟩
    simp only [Store.apply, CMap.applyOp, Store.toMap, hg, CMap.get_del]
    by_cases hk : k = key
    · simp [hk]
    · simpa [hk, Store.toMap] using hm k

/-- **store_refines_map.** Starting from any store that satisfies the invariant (in particular
the zero `Result`, or a store `Reset` has just wiped — whatever its stale slots hold), every
sequence of `key: value` lines, `SetConfig` calls and deletions leaves a store that
* denotes exactly the map obtained by folding the same operations over an abstract map,
* has pairwise distinct keys in `arr[0..len)` (= `Config` as callers see it),
* has an index that is exactly the inverse of `arr[0..len)` (`Store.Inv.idx`), within capacity,
* and whose `Config` list, read as a map, is that same map. -/
theorem store_refines_map (s0 : Store) (h0 : s0.Inv) (m0 : CMap) (hm : ∀ k, s0.toMap k = m0.get k)
    (ops : List StoreOp) :
    let s := ops.foldl Store.apply s0
    let m := ops.foldl CMap.applyOp m0
    s.Inv ∧ (∀ k, s.toMap k = m.get k) ∧ (s.live.map Cfg.key).Nodup ∧
      (∀ k, cfgGet s.live k = m.get k) := by
  induction ops generalizing s0 m0 with
  | nil =>
    exact ⟨h0, hm, Store.live_keys_nodup h0, fun k => (Store.cfgGet_live h0 k).trans (hm k)⟩
  | cons op ops ih =>
    obtain ⟨h1, hm1⟩ := store_step h0 hm op
    exact ih (s0.apply op) h1 (CMap.applyOp m0 op) hm1

/-- The store of a fresh `Result` denotes the empty map. -/
theorem store_refines_map_from_empty (ops : List StoreOp) :
    let s := ops.foldl Store.apply Store.empty
    s.Inv ∧ ∀ k, cfgGet s.live k = (ops.foldl CMap.applyOp []).get k := by
  have h := store_refines_map Store.empty Store.inv_empty [] (fun k => by
    simp [Store.toMap, Store.get, Store.configIndex, Store.empty, Store.index, Store.live, buildIndex,
      buildIndexFrom, Index.get, CMap.get]) ops
  exact ⟨h.1, h.2.2.2⟩

/-- **Stale slots are inert.** Two stores that satisfy the invariant and denote the same map —
however different their stale slots `arr[len..]`, their capacities and even the order of their
live slots — denote the same map after any sequence of operations. -/
theorem store_independent_of_stale_slots (s1 s2 : Store) (h1 : s1.Inv) (h2 : s2.Inv)
    (heq : ∀ k, s1.toMap k = s2.toMap k) (ops : List StoreOp) :
    ∀ k, (ops.foldl Store.apply s1).toMap k = (ops.foldl Store.apply s2).toMap k := by
  induction ops generalizing s1 s2 with
  | nil => exact heq
  | cons op ops ih =>
    -- run both against the same abstract map: a list of s1's live entries
    let m : CMap := s1.live.map (fun c => (c.key, c.value, c.file))
    have hm1 : ∀ k, s1.toMap k = m.get k := by
      intro k
      rw [← Store.cfgGet_live h1]
      simp only [m, CMap.get, cfgGet]
      induction s1.live with
      | nil => rfl
      | cons c cs ihc =>
        simp only [List.map_cons, List.lookup_cons, List.find?_cons]
        by_cases hk : c.key = k
        · simp [hk]
        · have h1' : (c.key == k) = false := by simpa using hk
          have h2' : (k == c.key) = false := by simpa using fun e => hk e.symm
          simp only [h1', h2']; exact ihc
    have hm2 : ∀ k, s2.toMap k = m.get k := fun k => (heq k).symm.trans (hm1 k)
    obtain ⟨i1, g1⟩ := store_step h1 hm1 op
    obtain ⟨i2, g2⟩ := store_step h2 hm2 op
    exact ih _ _ i1 i2 (fun k => (g1 k).trans (g2 k).symm)

/-- Non-vacuity: a set → delete → re-set history on three keys with slot reuse; the model's
`Config` is `[c↦3, b↦4]` in slot order and the stale slot still holds `b`'s old entry. -/
example :
    let ops := [StoreOp.setFile [97] [49], .setFile [98] [50], .setFile [99] [51], .setFile [97] [],
                .setFile [98] [], .setFile [98] [52]]
    let s := ops.foldl Store.apply Store.empty
    s.live = [⟨[99], [51], true⟩, ⟨[98], [52], true⟩] ∧ s.arr.length = 3 := by
  decide

/-! ## Labels of several files -/

/-- **files_labels.** With `es` the entries of the path list (split at `=` when labels are
allowed) and `labs` the labels the specification assigns:
0. `Files.init` assigns exactly `labs` (and an empty list with stdin allowed is the single input
   stdin, labelled `-`);
1. a labelled entry keeps its label;
2. an unlabelled path that occurs once keeps its name;
3. the occurrences of an unlabelled path `p` that occurs several times are labelled
   `p#0, p#1, …` in order (`same (es.take j) p` is the number of earlier occurrences);
4. provided no unlabelled path is literally `q#n` for a duplicated `q` (`NoClash`; the excluded
   shape is known finding N4), the labels of any two unlabelled entries are different. -/
theorem files_labels (paths : List Bytes) (allowStdin allowLabels : Bool) :
    let es := paths.map (splitEntry allowLabels)
    let labs := labels paths allowLabels
    (¬ (allowStdin = true ∧ paths = []) →
        (Files.init paths allowStdin allowLabels).map (·.label) = labs) ∧
    (Files.init [] true allowLabels).map (·.label) = [[45]] ∧
    (∀ (j : Nat) l p, es[j]? = some (some l, p) → labs[j]? = some l) ∧
    (∀ (j : Nat) p, es[j]? = some (none, p) → same es p = 1 → labs[j]? = some p) ∧
    (∀ (j : Nat) p, es[j]? = some (none, p) → same es p ≠ 1 →
        labs[j]? = some (p ++ [35] ++ decimal (same (es.take j) p))) ∧
    (NoClash es → ∀ (i j : Nat) p q, i < j → es[i]? = some (none, p) → es[j]? = some (none, q) →
        labs[i]? ≠ labs[j]?) := by
  refine ⟨init_labels paths allowStdin allowLabels, by rw [init_implicit_stdin]; rfl, ?_, ?_, ?_, ?_⟩
  · intro j l p h
    simp only [labels]
    rw [labelsFrom_getElem? _ [] _ j _ h]; rfl
  · intro j p h h1
    simp only [labels]
    rw [labelsFrom_getElem? _ [] _ j _ h]
    simp [labelOf, h1]
  · intro j p h h1
    have hb : (same (paths.map (splitEntry allowLabels)) p == 1) = false := by simpa using h1
    simp only [labels]
    rw [labelsFrom_getElem? _ [] _ j _ h]
    simp [labelOf, hb]
  · intro hnc i j p q hij hi hj
    exact labels_distinct _ hnc i j hij p q hi hj

/-- Non-vacuity of `NoClash`, and the reason for it: `a b a` satisfies it and gets the pairwise
distinct labels `a#0 b a#1`; `a a a#0` (N4) does not, and its first and third labels coincide. -/
example : labels [[97], [98], [97]] false = [[97, 35, 48], [98], [97, 35, 49]] := by decide
example : labels [[97], [97], [97, 35, 48]] false = [[97, 35, 48], [97, 35, 49], [97, 35, 48]] := by
  decide

/-! ## The single-line grammar: the scanning algorithms compute the declarative definitions -/

/-- **splitField_is_first_piece.** For every byte string (valid UTF-8 or not) `splitField` —
ASCII bit-mask fast path, `DecodeRune` slow path — returns the runes before the first
white-space rune and the text from the first non-space rune after it. -/
theorem splitField_is_first_piece (uc : UC) (x : Bytes) :
    splitField uc x =
      (enc ((runes x).takeWhile (fun r => !isSp uc r)),
       enc ((afterSp uc (runes x)).dropWhile (isSp uc))) :=
  splitField_spec uc x

/-- **fields_are_pieces.** The fields the `for { f, line = splitField(line) … }` loops of
`parseBenchmarkLine` and `parseUnitLine` see are exactly the non-empty pieces between
white-space runes after the first piece (`firstAndFields`). -/
theorem fields_are_pieces (uc : UC) (x : Bytes) :
    ((splitField uc x).1, fields uc (splitField uc x).2) =
      ((firstAndFields uc x).1, (firstAndFields uc x).2.2) := by
  rw [firstAndFields_eq, fields_after_split, splitField_spec]

/-- **line_grammar.** On every byte string the model's line parsers are the declarative
grammar of `Model/Spec/Format.lean`: key/value lines, benchmark lines (all error exits, the
announcement skip), unit lines (which lines, which fields, which records and metadata). -/
theorem line_grammar (O : Oracles) (line : Bytes) :
    parseKeyValueLine O.uc line = kvLine O.uc line ∧
    parseBenchmarkLine O line = benchLine O line ∧
    (isUnitLine O.uc line).map (fields O.uc) = unitLine O.uc line ∧
    (∀ fn n units rest,
      ((parseUnitLine O fn n units rest).1, (parseUnitLine O fn n units rest).2.map ofRecNoResult) =
        unitRecs O fn n units (fields O.uc rest)) :=
  ⟨(kvLine_eq O.uc line).symm, (benchLine_eq O line).symm, (unitLine_eq O.uc line).symm,
   fun fn n units rest => (unitRecs_eq O fn n units rest).symm⟩

/-- No over-long forms: a non-ASCII lead byte never decodes to an ASCII rune (so `:` and the
ASCII blanks are recognised only as themselves). -/
theorem nonascii_never_ascii (c : UInt8) (rest : Bytes) (h : ¬ c < 0x80) :
    0x80 ≤ (decodeRune (c :: rest)).1 :=
  decodeRune_nonascii c rest h

/-! ## The reader against the specification -/

/-- **reader_refines_spec.** For every text, every file name and every instantiation of the
parameters (Unicode tables, number parsers, unit tidying), the records the model reader
delivers are the specification's records, line for line and in order, up to reading each
result's `Config` list as a map; every `Config` list has pairwise distinct keys (so it *is* a
map); and the unit metadata accumulated at the end is the specification's. Hence: 1-based line
numbers, the latest value per key, removal of keys set to the empty value, positioned errors,
and nothing from ignored lines.
The specification shares no parsing code with the model: its single-line grammar is the
declarative one of `Model/Spec/Format.lean` (`line_grammar` bridges the two). -/
theorem reader_refines_spec (O : Oracles) (fileName text : Bytes) :
    (readAll O fileName text).map Rec.abs = (Spec.Format.read O fileName [] [] text).1.map SRec.abs ∧
    (∀ r, Rec.result r ∈ readAll O fileName text → (r.config.map Cfg.key).Nodup) ∧
    (finalState O (RState.zero.reset fileName []) (splitLines text)).units =
      (Spec.Format.read O fileName [] [] text).2 := by
  have hl := reset_linked RState.zero fileName []
  obtain ⟨h1, h2, _, _⟩ := readLines_refines O (splitLines text) _ _ hl
  rw [read_eq]
  refine ⟨?_, ?_, ?_⟩
  · unfold readAll Spec.FormatM.read
    rw [h1, lines_eq]; rfl
  · exact readLines_nodup O (splitLines text) _ _ hl
  · unfold Spec.FormatM.read
    rw [h2, lines_eq]; rfl

/-- **ignored_lines_inert.** Inserting a line that the format ignores (blank, foreign text,
a bare `Benchmark<name>` announcement, a would-be key with upper case or blanks, …) anywhere
in the input changes nothing but line numbers: the records before it are untouched, the
records after it are the same records with their line number increased by one — same names,
values, configuration (slot order included), errors, unit metadata. Read from right to left
this is deletion. Holds from every reader state, hence at any position of any file. -/
theorem ignored_lines_inert (O : Oracles) (st : RState) (before after : List Bytes) (l : Bytes)
    (h : classify O l = .ignored) :
    readLines O st (before ++ after) =
      readLines O st before ++ readLines O (finalState O st before) after ∧
    readLines O st (before ++ l :: after) =
      readLines O st before ++ (readLines O (finalState O st before) after).map (Rec.bump 1) := by
  rw [classify_eq] at h
  refine ⟨readLines_append O before after st, ?_⟩
  rw [readLines_append]
  congr 1
  simp only [readLines, scanLine_ignored O _ l h, List.nil_append]
  exact readLines_sim O 1 after ⟨rfl, rfl, rfl, rfl⟩

/-- Non-vacuity: a blank line, `PASS`, `BenchmarkFoo` alone and `Key: v` are ignored lines
(for every choice of parameters that agrees with ASCII). -/
example : ∀ l ∈ [[], [80, 65, 83, 83], benchmarkPrefix ++ [70, 111, 111], [75, 101, 121, 58, 32, 118]],
    classify ⟨UC.ascii, fun _ => .error .syntax, fun _ => .error .syntax, fun v u => (v, u)⟩ l = .ignored := by
  decide

/-- **scan_iterates.** `Scan`/`Result` with the `q`/`qPos` queue is an iterator over
`readLines`: with `pending r` = the unread part of the queue followed by the records of the
unread lines, a successful `Scan` delivers the head of `pending` and leaves its tail, and `Scan`
reports false exactly when nothing is pending. No fuel: `fill` recurses on the line list. -/
theorem scan_iterates (O : Oracles) (r : Reader) :
    ((r.scan O).2 = true →
        (r.scan O).1.result = (Reader.pending O r).head? ∧
        Reader.pending O (r.scan O).1 = (Reader.pending O r).tail ∧ Reader.pending O r ≠ []) ∧
    ((r.scan O).2 = false → Reader.pending O r = []) := by
  unfold Reader.scan
  by_cases hq : r.qPos + 1 < r.q.length
  · simp only [hq, ↓reduceIte, Reader.pending, Reader.result]
    have hd : r.q.drop (r.qPos + 1) = r.q[r.qPos + 1] :: r.q.drop (r.qPos + 1 + 1) :=
      List.drop_eq_getElem_cons hq
    refine ⟨fun _ => ⟨?_, ?_, ?_⟩, fun h => by simp at h⟩
    · rw [hd]; simp [List.getElem?_eq_getElem hq]
    · rw [hd]; rfl
    · rw [hd]; exact List.cons_ne_nil _ _
  · simp only [hq, ↓reduceIte, Reader.pending, Reader.result]
    have hd : r.q.drop (r.qPos + 1) = [] := List.drop_eq_nil_of_le (by omega)
    have hf := fill_spec O r.lines r.st
    rw [hd, List.nil_append, ← hf]
    cases hq2 : (fill O r.st r.lines).2.2 with
    | nil =>
      have := fill_empty O r.lines r.st hq2
      simp [this, readLines]
    | cons a q => simp

/-- The queue model started on a text has exactly `readAll` pending. -/
theorem pending_new (O : Oracles) (fileName text : Bytes) :
    Reader.pending O (Reader.new text fileName) = readAll O fileName text := rfl

/-- **reset_is_fresh.** `Reset` at ANY moment — before the first `Scan`, between the records of one
multi-record line, after a fatal error — leaves nothing of the old input in the queue: no record
is available before the next `Scan`, and what is pending is exactly the records of the new
input read from the reset state (whose configuration is the labels alone by `reset_linked`, and
whose only inheritance is the unit metadata of the lines already read). -/
theorem reset_is_fresh (O : Oracles) (r : Reader) (text fileName : Bytes) (kvs : List (Bytes × Bytes)) :
    (r.reset text fileName kvs).result = none ∧
    Reader.pending O (r.reset text fileName kvs) =
      readLines O (r.st.reset fileName kvs) (splitLines text) ∧
    (r.st.reset fileName kvs).units = r.st.units := by
  refine ⟨rfl, ?_, rfl⟩
  simp [Reader.pending, Reader.reset]

/-- **Termination.** Every function of the model is accepted by Lean as structurally recursive
on the remaining bytes / fields / lines (no `partial`, no well-founded recursion), so the model
reader terminates on every input. The one fuel parameter (in `fields`, bounded by the length of
the line plus one) is never exhausted: any larger fuel gives the same fields. -/
theorem fields_fuel_sufficient (uc : UC) (x : Bytes) (n : Nat) (h : x.length < n) :
    fieldsN uc n x = fields uc x :=
  fields_fuel uc x n h

/-! ## Several files through one reader -/

/-- **files_no_leak** (and **units_carry**). Whatever state the reused reader is in when a
sequence of inputs starts — live configuration, stale slots, line counter, file name left by
earlier files — the records of the sequence are the specification's: every file is read as if
on its own, under its own label, from an empty configuration; the one thing handed from file to
file (and the only way `st` enters the right-hand side) is the unit metadata `st.units`.
An input that cannot be opened ends both runs at the same point. -/
theorem files_no_leak (O : Oracles) (fs : FS) (inputs : List Input) :
    ∀ (st : RState) (stdin : Bytes),
      let out := Files.runFrom O fs st stdin inputs
      let sp := readFiles O fs st.units stdin (inputs.map fun i => (i.label, i.path, i.isStdin))
      out.recs.map Rec.abs = sp.recs.map SRec.abs ∧ out.failed = sp.failed ∧
        out.st.units = sp.units := by
  intro st stdin
  simp only [readFiles_eq]
  revert st stdin
  induction inputs with
  | nil => intro st stdin; exact ⟨rfl, rfl, rfl⟩
  | cons inp rest ih =>
    intro st stdin
    simp only [Files.runFrom, Spec.FormatM.readFiles, List.map_cons]
    cases hc : (if inp.isStdin = true then some stdin else fs.open inp.path) with
    | none => exact ⟨rfl, rfl, rfl⟩
    | some text =>
      simp only
      have hl := reset_linked st inp.path [(dotFile, inp.label)]
      obtain ⟨h1, h2, _, _⟩ := readLines_refines O (splitLines text) _ _ hl
      have hread : Spec.FormatM.read O inp.path (CMap.assign [] dotFile inp.label false) st.units text =
          Spec.FormatM.readFrom O (st.reset inp.path [(dotFile, inp.label)]).fileName
            (List.foldl (fun m kv => CMap.assign m kv.1 kv.2 false) [] [(dotFile, inp.label)])
            (st.reset inp.path [(dotFile, inp.label)]).units
            ((st.reset inp.path [(dotFile, inp.label)]).line + 1) (splitLines text) := by
        unfold Spec.FormatM.read; rw [lines_eq]; rfl
      rw [hread]
      have := ih (finalState O (st.reset inp.path [(dotFile, inp.label)]) (splitLines text))
        (if inp.isStdin = true then [] else stdin)
      rw [h2] at this
      obtain ⟨g1, g2, g3⟩ := this
      refine ⟨?_, g2, g3⟩
      simp only [List.map_append]
      rw [h1, g1]

/-- The inputs `Files.init` produces are the inputs of the specification (labels by
`files_labels`), so a whole `Files` run refines `readFiles` on the specification's inputs. -/
theorem files_refine_spec (O : Oracles) (fs : FS) (paths : List Bytes) (allowStdin allowLabels : Bool) :
    let out := Files.run O fs paths allowStdin allowLabels
    let sp := readFiles O fs [] fs.stdin
      ((Files.init paths allowStdin allowLabels).map fun i => (i.label, i.path, i.isStdin))
    out.recs.map Rec.abs = sp.recs.map SRec.abs ∧ out.failed = sp.failed ∧ out.st.units = sp.units :=
  files_no_leak O fs _ RState.zero fs.stdin

/-- **units_carry.** Unit metadata, once set, is never changed or dropped: not by any later
line, and not by `Reset` (which wipes the configuration). -/
theorem units_carry (O : Oracles) (st : RState) (l : Bytes) (fn : Bytes) (kvs : List (Bytes × Bytes)) :
    (∃ more, (scanLine O st l).1.units = st.units ++ more) ∧ (st.reset fn kvs).units = st.units := by
  refine ⟨?_, rfl⟩
  unfold scanLine
  simp only
  split
  · split <;> exact ⟨[], by simp⟩
  · split
    · simp only
      exact parseUnitLine_extends O _ _ _ _
    · split <;> exact ⟨[], by simp⟩

/-! ## Lines of 64 KiB and more -/

/-- **reader_refines_spec_limited.** With `bufio.Scanner`'s token limit modelled
(`Model/Fmt/ReaderLimit.lean`): for EVERY text — over-long lines included — the model reader
delivers the specification's records for the lines before the first line of 65536 bytes or more,
then stops with the specification's fatal error `file:lines-read: bufio.Scanner: token too long`;
without such a line there is no error. No length precondition remains. -/
theorem reader_refines_spec_limited (O : Oracles) (fileName text : Bytes) :
    (readAllLim O fileName text).1.map Rec.abs = (readLimited O fileName [] [] text).1.map SRec.abs ∧
    (readAllLim O fileName text).2 = (readLimited O fileName [] [] text).2.2 ∧
    (finalState O (RState.zero.reset fileName []) (splitLinesLim text).1).units =
      (readLimited O fileName [] [] text).2.1 := by
  have hl := reset_linked RState.zero fileName []
  obtain ⟨h1, h2, _, _⟩ := readLines_refines O (splitLinesLim text).1 _ _ hl
  unfold readAllLim readLimited
  simp only [readFrom_eq]
  rw [← splitLinesLim_eq]
  exact ⟨h1, rfl, h2⟩

/-- **limit_inactive.** If no line reaches 65536 bytes the limited reader is the unlimited one
of `reader_refines_spec`: same records, no error. -/
theorem limit_inactive (O : Oracles) (fileName text : Bytes)
    (h : ∀ p ∈ rawPieces text, p.length < lineLimit) :
    readAllLim O fileName text = (readAll O fileName text, none) := by
  unfold readAllLim readAll
  rw [splitLinesLim_short text h]
  rfl

/-- The boundary in small: with a limit of `maxToken` bytes a run of `maxToken - 1` bytes is a
line and a run of `maxToken` bytes is not (the correspondence run exercises 65534…65537-byte
lines against the real `bufio.Scanner`). -/
theorem limit_boundary (x : Bytes) :
    (x.length < maxToken → (∀ c ∈ x, c ≠ 10) → splitLinesLim (x ++ [10]) = ([dropCR x], false)) ∧
    (maxToken ≤ x.length → (∀ c ∈ x, c ≠ 10) → splitLinesLim (x ++ [10]) = ([], true)) := by
  have key : ∀ (x cur : Bytes), (∀ c ∈ x, c ≠ 10) →
      splitLinesLimAux cur (x ++ [10]) =
        if maxToken ≤ (x.reverse ++ cur).length then ([], true)
        else ([dropCR (x.reverse ++ cur).reverse], false) := by
    intro x
    induction x with
    | nil =>
      intro cur _
      by_cases h : maxToken ≤ cur.length
      · simp [splitLinesLimAux, h]
      · simp [splitLinesLimAux, h]
    | cons c x ih =>
      intro cur h
      have hc : (c == 10) = false := by simpa using h c (List.mem_cons_self ..)
      simp only [List.cons_append, splitLinesLimAux, hc, Bool.false_eq_true, ↓reduceIte]
      rw [ih (c :: cur) (fun d hd => h d (List.mem_cons_of_mem _ hd))]
      simp
  constructor
  · intro hl hn
    have := key x [] hn
    simp only [List.append_nil, List.length_reverse, List.reverse_reverse] at this
    unfold splitLinesLim; rw [this]
    have : ¬ maxToken ≤ x.length := by omega
    simp [this]
  · intro hl hn
    have := key x [] hn
    simp only [List.append_nil, List.length_reverse] at this
    unfold splitLinesLim; rw [this]; simp [hl]

/-- **files_no_leak_limited.** `files_no_leak` with the limit: a file with an over-long line ends
the whole run after the records before that line (no later file is opened), in the model exactly
as in the specification; otherwise files follow one another as before. -/
theorem files_no_leak_limited (O : Oracles) (fs : FS) (inputs : List Input) :
    ∀ (st : RState) (stdin : Bytes),
      let out := Files.runFromLim O fs st stdin inputs
      let sp := readFilesLimited O fs st.units stdin (inputs.map fun i => (i.label, i.path, i.isStdin))
      out.recs.map Rec.abs = sp.recs.map SRec.abs ∧ out.failed = sp.failed ∧ out.ioErr = sp.ioErr ∧
        out.st.units = sp.units := by
  induction inputs with
  | nil => intro st stdin; exact ⟨rfl, rfl, rfl, rfl⟩
  | cons inp rest ih =>
    intro st stdin
    simp only [Files.runFromLim, readFilesLimited, List.map_cons]
    cases hc : (if inp.isStdin = true then some stdin else fs.open inp.path) with
    | none => exact ⟨rfl, rfl, rfl, rfl⟩
    | some text =>
      simp only
      have hl := reset_linked st inp.path [(dotFile, inp.label)]
      obtain ⟨h1, h2, _, _⟩ := readLines_refines O (splitLinesLim text).1 _ _ hl
      have hread : readLimited O inp.path (CMap.assign [] dotFile inp.label false) st.units text =
          ((Spec.FormatM.readFrom O (st.reset inp.path [(dotFile, inp.label)]).fileName
              (List.foldl (fun m kv => CMap.assign m kv.1 kv.2 false) [] [(dotFile, inp.label)])
              (st.reset inp.path [(dotFile, inp.label)]).units
              ((st.reset inp.path [(dotFile, inp.label)]).line + 1) (splitLinesLim text).1).1,
           (Spec.FormatM.readFrom O (st.reset inp.path [(dotFile, inp.label)]).fileName
              (List.foldl (fun m kv => CMap.assign m kv.1 kv.2 false) [] [(dotFile, inp.label)])
              (st.reset inp.path [(dotFile, inp.label)]).units
              ((st.reset inp.path [(dotFile, inp.label)]).line + 1) (splitLinesLim text).1).2,
           if (splitLinesLim text).2 = true then
             some (tooLongMsg (st.reset inp.path [(dotFile, inp.label)]).fileName (splitLinesLim text).1.length)
           else none) := by
        unfold readLimited
        simp only [readFrom_eq]
        rw [← splitLinesLim_eq]
        rfl
      rw [hread]
      by_cases hlong : (splitLinesLim text).2 = true
      · simp only [hlong, ↓reduceIte]
        exact ⟨h1, by first | rfl | trivial, by first | rfl | trivial, h2⟩
      · simp only [hlong, Bool.false_eq_true, ↓reduceIte]
        have := ih (finalState O (st.reset inp.path [(dotFile, inp.label)]) (splitLinesLim text).1)
          (if inp.isStdin = true then [] else stdin)
        rw [h2] at this
        obtain ⟨g1, g2, g3, g4⟩ := this
        refine ⟨?_, g2, g3, g4⟩
        simp only [List.map_append]
        rw [h1, g1]

end C02
