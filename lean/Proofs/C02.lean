import Model.Fmt.Reader
import Model.Fmt.Files
import Model.Spec.Format
namespace C02
theorem placeholder : True := trivial
end C02
