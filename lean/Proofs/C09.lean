/-
C09 — Keys sort by the documented per-field orders, totally and reproducibly.
Property theorems only; helper lemmas are in Proofs/Lemmas/C09*.lean and Proofs/Lemmas/C08Inv.lean.

Model: Model/Proc/Sort.lean (`less`, the four comparators) and Model/Proc/Projection.lean
(rank maps maintained by `internRow`). `parseNum` is a parameter `pn` (any function).
`sort.Slice` is Go's standard library: it is trusted to return a sorted permutation of its input
when the comparison is a strict weak order (which `less_strict_total` establishes);
`sorted_perm_unique` then shows that the result cannot depend on the initial arrangement.
-/
import Mathlib.Order.Defs.LinearOrder
import Proofs.Lemmas.C09Order
import Proofs.Lemmas.C09Fixed

namespace C09
open Proc.Sort

/-! ### Comparators as sign functions of a rank into a linear (pre)order -/

/-- Any comparator whose sign is that of the comparison of ranks in a linear order is the sign
function of a strict weak order (the hypothesis of `less_strict_total`). -/
theorem SignOfWeakOrder.ofRank {α : Type} [LinearOrder α] (cmp : Bytes → Bytes → Int) (rk : Bytes → α)
    (hlt : ∀ a b, cmp a b < 0 ↔ rk a < rk b) (hgt : ∀ a b, 0 < cmp a b ↔ rk b < rk a) :
    SignOfWeakOrder cmp where
  refl := by
    intro a
    rcases Int.lt_trichotomy (cmp a a) 0 with h | h | h
    · exact absurd ((hlt a a).mp h) (lt_irrefl _)
    · exact h
    · exact absurd ((hgt a a).mp h) (lt_irrefl _)
  antisymm := by intro a b; rw [hlt, hgt]
  trans := by intro a b c; rw [hlt, hlt, hlt]; exact lt_trans
  eq_trans := by
    intro a b c h1 h2
    have e1 : rk a = rk b := by
      rcases lt_trichotomy (rk a) (rk b) with h | h | h
      · have := (hlt a b).mpr h; omega
      · exact h
      · have := (hgt a b).mpr h; omega
    have e2 : rk b = rk c := by
      rcases lt_trichotomy (rk b) (rk c) with h | h | h
      · have := (hlt b c).mpr h; omega
      · exact h
      · have := (hgt b c).mpr h; omega
    have e : rk a = rk c := e1.trans e2
    rcases Int.lt_trichotomy (cmp a c) 0 with h | h | h
    · exact absurd (e ▸ (hlt a c).mp h) (lt_irrefl _)
    · exact h
    · exact absurd (e ▸ (hgt a c).mp h) (lt_irrefl _)

/-! ### less is a strict total order -/

/-- What `less_strict_total` establishes about a comparison of value rows. -/
structure StrictTotalOn (flat : List Field) (lt : List Bytes → List Bytes → Bool) : Prop where
  irrefl : ∀ a, lt a a = false
  asymm : ∀ a b, lt a b = true → lt b a = false
  trans : ∀ a b c, lt a b = true → lt b c = true → lt a c = true
  /-- total on rows that differ in some flattened field (distinct keys do: `C08.key_eq_iff`) -/
  total : ∀ a b, (∃ f ∈ flat, getVal a f.idx ≠ getVal b f.idx) → lt a b = true ∨ lt b a = true
  /-- and only such rows are ever separated -/
  differs : ∀ a b, lt a b = true → ∃ f ∈ flat, getVal a f.idx ≠ getVal b f.idx

/-- **less_strict_total**: for ANY list of flattened fields and ANY per-field comparators that
are sign functions of strict weak orders (ranks into linear preorders), `less` with its string
fallback is irreflexive, asymmetric, transitive, and total on rows that differ in a flattened
field. -/
theorem less_strict_total (cmpOf : Field → Bytes → Bytes → Int) (flat : List Field)
    (hW : ∀ f ∈ flat, SignOfWeakOrder (cmpOf f)) : StrictTotalOn flat (lessBy cmpOf flat) where
  irrefl := lessBy_irrefl cmpOf flat
  asymm := lessBy_asymm cmpOf flat hW
  trans := lessBy_trans cmpOf flat hW
  total := lessBy_total cmpOf flat hW
  differs := lessBy_differs cmpOf flat

/-- Each of the four kinds of field order (`first` with any rank map, `alpha`, `num` with any
`parseNum`, `fixed` with any list) is such a comparator. -/
theorem four_kinds_are_weak_orders (pn : Bytes → NumC) (f : Field) : SignOfWeakOrder (f.cmp pn) :=
  field_cmp_weak pn f

/-- **less_strict_total**, instantiated: `less` of sort.go, for every `parseNum`, every list of
fields of the four kinds and every state of the observation-order maps. -/
theorem less_strict_total_four_kinds (pn : Bytes → NumC) (flat : List Field) :
    StrictTotalOn flat (less pn flat) :=
  less_strict_total (Field.cmp pn) flat (fun f _ => field_cmp_weak pn f)

example : less (fun _ => .err) [{ name := [], idx := 0, order := .num, ranks := [] }] [[49]] [[50]] = true := by
  decide

/-! ### Sorting is independent of the initial arrangement -/

/-- **sorted_perm_unique**: two sorted permutations of the same keys are equal, for every
comparison that is irreflexive-asymmetric and total on distinct elements. -/
theorem sorted_perm_unique {α : Type} (lt : α → α → Bool)
    (total : ∀ a b, a ≠ b → lt a b = true ∨ lt b a = true)
    (l₁ l₂ : List α) (h₁ : Sorted lt l₁) (h₂ : Sorted lt l₂) (hp : l₁.Perm l₂) : l₁ = l₂ := by
  refine List.Perm.eq_of_pairwise (le := fun x y => lt y x = false) ?_ h₁ h₂ hp
  intro a b _ _ hab hba
  apply Classical.byContradiction
  intro hne
  rcases total a b hne with h | h
  · rw [h] at hba; exact absurd hba (by simp)
  · rw [h] at hab; exact absurd hab (by simp)

/-- Whatever the initial arrangement of a slice of keys, every sorted permutation of it is the
same list — namely the reference sort `sortBy`. -/
theorem sort_independent_of_arrangement {α : Type} (lt : α → α → Bool)
    (asymm : ∀ a b, lt a b = true → lt b a = false)
    (trans : ∀ a b c, lt a b = true → lt b c = true → lt a c = true)
    (total : ∀ a b, a ≠ b → lt a b = true ∨ lt b a = true)
    (input₁ input₂ out₁ out₂ : List α) (hin : input₁.Perm input₂)
    (hs₁ : Sorted lt out₁) (hp₁ : out₁.Perm input₁)
    (hs₂ : Sorted lt out₂) (hp₂ : out₂.Perm input₂) :
    out₁ = out₂ ∧ out₁ = sortBy lt input₁ := by
  constructor
  · exact sorted_perm_unique lt total _ _ hs₁ hs₂ (hp₁.trans (hin.trans hp₂.symm))
  · exact sorted_perm_unique lt total _ _ hs₁ (sortBy_sorted lt asymm trans _)
      (hp₁.trans (sortBy_perm lt _).symm)

/-! ### The documented per-field orders -/

/-- **alpha_spec**: an `alpha` field orders values bytewise (Go string order) and separates all
distinct values. -/
theorem alpha_spec (pn : Bytes → NumC) (f : Field) (h : f.order = .alpha) (a b : Bytes) :
    (f.cmp pn a b < 0 ↔ ltBytes a b = true) ∧ (f.cmp pn a b = 0 ↔ a = b) ∧
    (0 < f.cmp pn a b ↔ ltBytes b a = true) := by
  unfold Field.cmp; rw [h]
  exact ⟨cmpBytes_lt a b, cmpBytes_eq a b, cmpBytes_gt a b⟩

/-- Bytewise order is the lexicographic order of the byte values. -/
theorem ltBytes_iff_lex (a b : Bytes) :
    ltBytes a b = true ↔ a.map UInt8.toNat < b.map UInt8.toNat := by
  induction a generalizing b with
  | nil => cases b <;> simp [ltBytes]
  | cons x xs ih =>
    cases b with
    | nil => simp [ltBytes]
    | cons y ys =>
      simp only [ltBytes, List.map_cons, List.cons_lt_cons_iff, UInt8.lt_iff_toNat_lt]
      by_cases h1 : x.toNat < y.toNat
      · simp [h1]
      · by_cases h2 : y.toNat < x.toNat
        · have : ¬ x.toNat = y.toNat := by omega
          simp [h1, h2, this]
        · have : x.toNat = y.toNat := by omega
          simp [h1, h2, this, ih]

/-- The documented rank of a value under `num`: numbers (by value) before NaN before non-numbers. -/
def numRank : NumC → Nat × Int
  | .val k => (0, k)
  | .nan => (1, 0)
  | .err => (2, 0)

/-- **num_spec**: a `num` field compares by `numRank ∘ parseNum` lexicographically — numbers
numerically, NaN after all other numbers, non-numbers last; ties exactly for equal numbers,
two NaNs, or two non-numbers (which `less` then separates bytewise). For any `parseNum`. -/
theorem num_spec (pn : Bytes → NumC) (f : Field) (h : f.order = .num) (a b : Bytes) :
    (f.cmp pn a b < 0 ↔
      (numRank (pn a)).1 < (numRank (pn b)).1 ∨
      ((numRank (pn a)).1 = (numRank (pn b)).1 ∧ (numRank (pn a)).2 < (numRank (pn b)).2)) ∧
    (f.cmp pn a b = 0 ↔ numRank (pn a) = numRank (pn b)) := by
  have hc : f.cmp pn = cmpNum pn := by unfold Field.cmp; rw [h]
  rw [hc]; unfold cmpNum
  generalize pn a = ca
  generalize pn b = cb
  cases ca with
  | err => cases cb <;> simp [numRank]
  | nan => cases cb <;> simp [numRank]
  | val x =>
    cases cb with
    | err => simp [numRank]
    | nan => simp [numRank]
    | val y =>
      simp only [numRank]
      by_cases h1 : x < y
      · simp [h1]; omega
      · by_cases h2 : y < x
        · simp [h1, h2]; omega
        · have : x = y := by omega
          simp [this]

/-- **fixed_spec**: a `fixed` field compares by position in the list, where a value listed twice
takes its LAST position and a value not in the list takes position 0 (Go map zero value)… -/
theorem fixed_spec (pn : Bytes → NumC) (f : Field) (l : List Bytes) (h : f.order = .fixed l)
    (a b : Bytes) :
    f.cmp pn a b = ((lastIdx? l a).getD 0 : Int) - ((lastIdx? l b).getD 0 : Int) := by
  unfold Field.cmp; rw [h]
  simp only [cmpRank, RankMap.get, get?_fixedMap]

/-- …so for a duplicate-free list and listed values it is exactly the listed order. -/
theorem fixed_spec_nodup (pn : Bytes → NumC) (f : Field) (l : List Bytes) (h : f.order = .fixed l)
    (hn : l.Nodup) (a b : Bytes) (ha : a ∈ l) (hb : b ∈ l) :
    (f.cmp pn a b < 0 ↔ l.idxOf a < l.idxOf b) ∧ (f.cmp pn a b = 0 ↔ a = b) := by
  rw [fixed_spec pn f l h, lastIdx?_nodup l hn a ha, lastIdx?_nodup l hn b hb]
  simp only [Option.getD_some]
  constructor
  · omega
  · constructor
    · intro e
      have : l.idxOf a = l.idxOf b := by omega
      have h1 := List.getElem_idxOf (List.idxOf_lt_length_of_mem ha)
      have h2 := List.getElem_idxOf (List.idxOf_lt_length_of_mem hb)
      rw [← h1, ← h2]
      simp [this]
    · intro e; subst e; omega

example : (fixedMap [[97], [98], [97]]) = [([97], 2), ([98], 1)] := by decide

end C09
