/-
C09 — Keys sort by the documented per-field orders, totally and reproducibly.
Property theorems only; helper lemmas are in Proofs/Lemmas/C09*.lean and Proofs/Lemmas/C08Inv.lean.

Model: Model/Proc/Sort.lean (`less`, the four comparators) and Model/Proc/Projection.lean
(rank maps maintained by `internRow`). `parseNum` is a parameter `pn` (any function).
`sort.Slice` is Go's standard library: it is trusted to return a sorted permutation of its input
when the comparison is a strict weak order (which `less_strict_total` establishes);
`sorted_perm_unique` then shows that the result cannot depend on the initial arrangement.
-/
import Mathlib.Order.Defs.LinearOrder
import Proofs.Lemmas.C09Order
import Proofs.Lemmas.C09Fixed
import Proofs.Lemmas.C09Obs
import Proofs.Lemmas.C09Num
import Proofs.C08

namespace C09
open Proc.Sort Proc.Projection

/-! ### Comparators as sign functions of a rank into a linear (pre)order -/

/-- Any comparator whose sign is that of the comparison of ranks in a linear order is the sign
function of a strict weak order (the hypothesis of `less_strict_total`). -/
theorem SignOfWeakOrder.ofRank {α : Type} [LinearOrder α] (cmp : Bytes → Bytes → Int) (rk : Bytes → α)
    (hlt : ∀ a b, cmp a b < 0 ↔ rk a < rk b) (hgt : ∀ a b, 0 < cmp a b ↔ rk b < rk a) :
    SignOfWeakOrder cmp where
  refl := by
    intro a
    rcases Int.lt_trichotomy (cmp a a) 0 with h | h | h
    · exact absurd ((hlt a a).mp h) (lt_irrefl _)
    · exact h
    · exact absurd ((hgt a a).mp h) (lt_irrefl _)
  antisymm := by intro a b; rw [hlt, hgt]
  trans := by intro a b c; rw [hlt, hlt, hlt]; exact lt_trans
  eq_trans := by
    intro a b c h1 h2
    have e1 : rk a = rk b := by
      rcases lt_trichotomy (rk a) (rk b) with h | h | h
      · have := (hlt a b).mpr h; omega
      · exact h
      · have := (hgt a b).mpr h; omega
    have e2 : rk b = rk c := by
      rcases lt_trichotomy (rk b) (rk c) with h | h | h
      · have := (hlt b c).mpr h; omega
      · exact h
      · have := (hgt b c).mpr h; omega
    have e : rk a = rk c := e1.trans e2
    rcases Int.lt_trichotomy (cmp a c) 0 with h | h | h
    · exact absurd (e ▸ (hlt a c).mp h) (lt_irrefl _)
    · exact h
    · exact absurd (e ▸ (hgt a c).mp h) (lt_irrefl _)

/-! ### less is a strict total order -/

/-- What `less_strict_total` establishes about a comparison of value rows. -/
structure StrictTotalOn (flat : List Field) (lt : List Bytes → List Bytes → Bool) : Prop where
  irrefl : ∀ a, lt a a = false
  asymm : ∀ a b, lt a b = true → lt b a = false
  trans : ∀ a b c, lt a b = true → lt b c = true → lt a c = true
  /-- total on rows that differ in some flattened field (distinct keys do: `C08.key_eq_iff`) -/
  total : ∀ a b, (∃ f ∈ flat, getVal a f.idx ≠ getVal b f.idx) → lt a b = true ∨ lt b a = true
  /-- and only such rows are ever separated -/
  differs : ∀ a b, lt a b = true → ∃ f ∈ flat, getVal a f.idx ≠ getVal b f.idx

/-- **less_strict_total**: for ANY list of flattened fields and ANY per-field comparators that
are sign functions of strict weak orders (ranks into linear preorders), `less` with its string
fallback is irreflexive, asymmetric, transitive, and total on rows that differ in a flattened
field. -/
theorem less_strict_total (cmpOf : Field → Bytes → Bytes → Int) (flat : List Field)
    (hW : ∀ f ∈ flat, SignOfWeakOrder (cmpOf f)) : StrictTotalOn flat (lessBy cmpOf flat) where
  irrefl := lessBy_irrefl cmpOf flat
  asymm := lessBy_asymm cmpOf flat hW
  trans := lessBy_trans cmpOf flat hW
  total := lessBy_total cmpOf flat hW
  differs := lessBy_differs cmpOf flat

/-- Each of the four kinds of field order (`first` with any rank map, `alpha`, `num` with any
`parseNum`, `fixed` with any list) is such a comparator. -/
theorem four_kinds_are_weak_orders (pn : Bytes → NumC) (f : Field) : SignOfWeakOrder (f.cmp pn) :=
  field_cmp_weak pn f

/-- **less_strict_total**, instantiated: `less` of sort.go, for every `parseNum`, every list of
fields of the four kinds and every state of the observation-order maps. -/
theorem less_strict_total_four_kinds (pn : Bytes → NumC) (flat : List Field) :
    StrictTotalOn flat (less pn flat) :=
  less_strict_total (Field.cmp pn) flat (fun f _ => field_cmp_weak pn f)

example : less (fun _ => .err) [{ name := [], idx := 0, order := .num, ranks := [] }] [[49]] [[50]] = true := by
  decide

/-! ### Sorting is independent of the initial arrangement -/

/-- **sorted_perm_unique**: two sorted permutations of the same keys are equal, for every
comparison that is irreflexive-asymmetric and total on distinct elements. -/
theorem sorted_perm_unique {α : Type} (lt : α → α → Bool)
    (total : ∀ a b, a ≠ b → lt a b = true ∨ lt b a = true)
    (l₁ l₂ : List α) (h₁ : Sorted lt l₁) (h₂ : Sorted lt l₂) (hp : l₁.Perm l₂) : l₁ = l₂ := by
  refine List.Perm.eq_of_pairwise (le := fun x y => lt y x = false) ?_ h₁ h₂ hp
  intro a b _ _ hab hba
  apply Classical.byContradiction
  intro hne
  rcases total a b hne with h | h
  · rw [h] at hba; exact absurd hba (by simp)
  · rw [h] at hab; exact absurd hab (by simp)

/-- Whatever the initial arrangement of a slice of keys, every sorted permutation of it is the
same list — namely the reference sort `sortBy`. -/
theorem sort_independent_of_arrangement {α : Type} (lt : α → α → Bool)
    (asymm : ∀ a b, lt a b = true → lt b a = false)
    (trans : ∀ a b c, lt a b = true → lt b c = true → lt a c = true)
    (total : ∀ a b, a ≠ b → lt a b = true ∨ lt b a = true)
    (input₁ input₂ out₁ out₂ : List α) (hin : input₁.Perm input₂)
    (hs₁ : Sorted lt out₁) (hp₁ : out₁.Perm input₁)
    (hs₂ : Sorted lt out₂) (hp₂ : out₂.Perm input₂) :
    out₁ = out₂ ∧ out₁ = sortBy lt input₁ := by
  constructor
  · exact sorted_perm_unique lt total _ _ hs₁ hs₂ (hp₁.trans (hin.trans hp₂.symm))
  · exact sorted_perm_unique lt total _ _ hs₁ (sortBy_sorted lt asymm trans _)
      (hp₁.trans (sortBy_perm lt _).symm)

/-! ### The documented per-field orders -/

/-- **alpha_spec**: an `alpha` field orders values bytewise (Go string order) and separates all
distinct values. -/
theorem alpha_spec (pn : Bytes → NumC) (f : Field) (h : f.order = .alpha) (a b : Bytes) :
    (f.cmp pn a b < 0 ↔ ltBytes a b = true) ∧ (f.cmp pn a b = 0 ↔ a = b) ∧
    (0 < f.cmp pn a b ↔ ltBytes b a = true) := by
  unfold Field.cmp; rw [h]
  exact ⟨cmpBytes_lt a b, cmpBytes_eq a b, cmpBytes_gt a b⟩

/-- Bytewise order is the lexicographic order of the byte values. -/
theorem ltBytes_iff_lex (a b : Bytes) :
    ltBytes a b = true ↔ a.map UInt8.toNat < b.map UInt8.toNat := by
  induction a generalizing b with
  | nil => cases b <;> simp [ltBytes]
  | cons x xs ih =>
    cases b with
    | nil => simp [ltBytes]
    | cons y ys =>
      simp only [ltBytes, List.map_cons, List.cons_lt_cons_iff, UInt8.lt_iff_toNat_lt]
      by_cases h1 : x.toNat < y.toNat
      · simp [h1]
      · by_cases h2 : y.toNat < x.toNat
        · have : ¬ x.toNat = y.toNat := by omega
          simp [h1, h2, this]
        · have : x.toNat = y.toNat := by omega
          simp [h1, h2, this, ih]

/-- The documented rank of a value under `num`: numbers (by value) before NaN before non-numbers. -/
def numRank : NumC → Nat × Int
  | .val k => (0, k)
  | .nan => (1, 0)
  | .err => (2, 0)

/-- **num_spec**: a `num` field compares by `numRank ∘ parseNum` lexicographically — numbers
numerically, NaN after all other numbers, non-numbers last; ties exactly for equal numbers,
two NaNs, or two non-numbers (which `less` then separates bytewise). For any `parseNum`. -/
theorem num_spec (pn : Bytes → NumC) (f : Field) (h : f.order = .num) (a b : Bytes) :
    (f.cmp pn a b < 0 ↔
      (numRank (pn a)).1 < (numRank (pn b)).1 ∨
      ((numRank (pn a)).1 = (numRank (pn b)).1 ∧ (numRank (pn a)).2 < (numRank (pn b)).2)) ∧
    (f.cmp pn a b = 0 ↔ numRank (pn a) = numRank (pn b)) := by
  have hc : f.cmp pn = cmpNum pn := by unfold Field.cmp; rw [h]
  rw [hc]; unfold cmpNum
  generalize pn a = ca
  generalize pn b = cb
  cases ca with
  | err => cases cb <;> simp [numRank]
  | nan => cases cb <;> simp [numRank]
  | val x =>
    cases cb with
    | err => simp [numRank]
    | nan => simp [numRank]
    | val y =>
      simp only [numRank]
      by_cases h1 : x < y
      · simp [h1]; omega
      · by_cases h2 : y < x
        · simp [h1, h2]; omega
        · have : x = y := by omega
          simp [this]

/-- **fixed_spec**: a `fixed` field compares by position in the list, where a value listed twice
takes its LAST position and a value not in the list takes position 0 (Go map zero value)… -/
theorem fixed_spec (pn : Bytes → NumC) (f : Field) (l : List Bytes) (h : f.order = .fixed l)
    (a b : Bytes) :
    f.cmp pn a b = ((lastIdx? l a).getD 0 : Int) - ((lastIdx? l b).getD 0 : Int) := by
  unfold Field.cmp; rw [h]
  simp only [cmpRank, RankMap.get, get?_fixedMap]

/-- …so for a duplicate-free list and listed values it is exactly the listed order. -/
theorem fixed_spec_nodup (pn : Bytes → NumC) (f : Field) (l : List Bytes) (h : f.order = .fixed l)
    (hn : l.Nodup) (a b : Bytes) (ha : a ∈ l) (hb : b ∈ l) :
    (f.cmp pn a b < 0 ↔ l.idxOf a < l.idxOf b) ∧ (f.cmp pn a b = 0 ↔ a = b) := by
  rw [fixed_spec pn f l h, lastIdx?_nodup l hn a ha, lastIdx?_nodup l hn b hb]
  simp only [Option.getD_some]
  constructor
  · omega
  · constructor
    · intro e
      have : l.idxOf a = l.idxOf b := by omega
      have h1 := List.getElem_idxOf (List.idxOf_lt_length_of_mem ha)
      have h2 := List.getElem_idxOf (List.idxOf_lt_length_of_mem hb)
      rw [← h1, ← h2]
      simp [this]
    · intro e; subst e; omega

example : (fixedMap [[97], [98], [97]]) = [([97], 2), ([98], 1)] := by decide

/-! ### The specified numeric value (Model/Spec/ParseNum.lean) -/

/-- **parseNum_spec_order**: for any assignment of specified numeric values to strings — in
particular `Spec.ParseNum.parseNum`, the exact-rational reading of float literals and SI/IEC
suffixed numbers — "numbers by exact value (−Inf, finite, +Inf) before NaN before non-numbers" is
the sign function of a strict weak order (a rank into the linear order (class, ℚ))… -/
theorem parseNum_spec_order (val : Bytes → Spec.ParseNum.SNum) :
    SignOfWeakOrder (cmpByRank fun v => Spec.ParseNum.rank (val v)) :=
  cmpByRank_weak _

/-- …hence `less` with every `num` field ordered by the SPECIFIED value (and the other kinds as in
the code) is a strict total order: an instance of `less_strict_total`. -/
theorem less_strict_total_spec_num (pn : Bytes → NumC) (flat : List Field) :
    StrictTotalOn flat (lessBy (fun f => match f.order with
      | .num => cmpByRank fun v => Spec.ParseNum.rank (Spec.ParseNum.parseNum v)
      | _ => f.cmp pn) flat) := by
  apply less_strict_total
  intro f _
  cases ho : f.order with
  | num => exact parseNum_spec_order _
  | first => simp only []; exact field_cmp_weak pn f
  | alpha => simp only []; exact field_cmp_weak pn f
  | fixed l => simp only []; exact field_cmp_weak pn f

example : Spec.ParseNum.parseNum [49, 90, 105] = .fin (mkRat (2 ^ 70) 1) := by decide +kernel

/-! ### First-observation order -/

/-- **first_order_is_observation_order**: in every reachable state of a projection, for every
flattened field with the default order — top-level fields and each individual key inside
`.config` alike — the comparator orders two keys' values by their position in the list of the
field's distinct values in order of first observation (`firstOcc` of the field's values over the
keys in creation order, "" standing for keys made before a `.config` key was first seen), and it
never reports equal for different values (so the string fallback is never reached for such a
field). For every hash function. -/
theorem first_order_is_observation_order (h : List Bytes → UInt64) (pn : Bytes → NumC) (p : Proj)
    (hr : C08.Reachable h p) (f : Field) (hf : f ∈ p.flat) (ho : f.order = .first)
    (a b : Nat) (ha : a < p.nodes.length) (hb : b < p.nodes.length) :
    (f.cmp pn (p.get a f) (p.get b f) < 0 ↔
      (firstOcc (obsSeq p f.idx)).idxOf (p.get a f) < (firstOcc (obsSeq p f.idx)).idxOf (p.get b f)) ∧
    (f.cmp pn (p.get a f) (p.get b f) = 0 ↔ p.get a f = p.get b f) := by
  have hranks := (reachable_inv2 h p hr).ranks f hf ho
  have hmem : ∀ k, k < p.nodes.length → p.get k f ∈ firstOcc (obsSeq p f.idx) := by
    intro k hk
    rw [mem_firstOcc]
    unfold obsSeq Proj.get
    rw [C08.vals_eq_getElem p k hk]
    exact List.mem_map_of_mem (List.getElem_mem hk)
  have hc : f.cmp pn = cmpRank f.ranks := by unfold Field.cmp; rw [ho]
  rw [hc]
  unfold cmpRank
  rw [hranks, get_zipIdx _ _ (hmem a ha), get_zipIdx _ _ (hmem b hb)]
  constructor
  · omega
  · constructor
    · intro e
      have e' : (firstOcc (obsSeq p f.idx)).idxOf (p.get a f) = (firstOcc (obsSeq p f.idx)).idxOf (p.get b f) := by omega
      have h1 := List.getElem_idxOf (List.idxOf_lt_length_of_mem (hmem a ha))
      have h2 := List.getElem_idxOf (List.idxOf_lt_length_of_mem (hmem b hb))
      rw [← h1, ← h2]
      simp [e']
    · intro e; rw [e]; omega

/-- **first_order_is_observation_order**, refined to the raw observation sequence over the keys:
the comparator orders two keys' values by the position of their FIRST OCCURRENCE in the sequence of
the field's values over the keys in creation order. -/
theorem first_order_is_first_occurrence (h : List Bytes → UInt64) (pn : Bytes → NumC) (p : Proj)
    (hr : C08.Reachable h p) (f : Field) (hf : f ∈ p.flat) (ho : f.order = .first)
    (a b : Nat) (ha : a < p.nodes.length) (hb : b < p.nodes.length) :
    f.cmp pn (p.get a f) (p.get b f) < 0 ↔
      (obsSeq p f.idx).idxOf (p.get a f) < (obsSeq p f.idx).idxOf (p.get b f) := by
  rw [(first_order_is_observation_order h pn p hr f hf ho a b ha hb).1]
  have hmem : ∀ k, k < p.nodes.length → p.get k f ∈ obsSeq p f.idx := by
    intro k hk
    unfold obsSeq Proj.get
    rw [C08.vals_eq_getElem p k hk]
    exact List.mem_map_of_mem (List.getElem_mem hk)
  exact firstOcc_idxOf_lt _ _ _ (hmem a ha) (hmem b hb)

theorem runProjects_reachable (h : List Bytes → UInt64) (ops : List (Env × Res)) (p : Proj)
    (hr : C08.Reachable h p) : C08.Reachable h (runProjects h p ops).1 := by
  induction ops generalizing p with
  | nil => exact hr
  | cons op rest ih =>
    obtain ⟨env, r⟩ := op
    exact ih _ (C08.Reachable.project p env r hr)

/-- …and to the stream of RESULTS: start from a projection that has no keys yet, project any
stream of results (`runProjects`; the parser state may differ from call to call). For every
flattened field with the default order, two keys compare by which of their values was seen first
in the stream, where the value of a result at the field is what the closures put into the row
("" while a `.config` key had not yet been seen: the row is then shorter). -/
theorem first_order_is_stream_order (h : List Bytes → UInt64) (pn : Bytes → NumC) (p₀ : Proj)
    (hr₀ : C08.Reachable h p₀) (hn₀ : p₀.nodes = []) (ops : List (Env × Res))
    (f : Field) (hf : f ∈ (runProjects h p₀ ops).1.flat) (ho : f.order = .first)
    (a b : Nat) (ha : a < (runProjects h p₀ ops).1.nodes.length) (hb : b < (runProjects h p₀ ops).1.nodes.length) :
    f.cmp pn ((runProjects h p₀ ops).1.get a f) ((runProjects h p₀ ops).1.get b f) < 0 ↔
      ((runProjects h p₀ ops).2.map fun row => getVal row f.idx).idxOf ((runProjects h p₀ ops).1.get a f) <
      ((runProjects h p₀ ops).2.map fun row => getVal row f.idx).idxOf ((runProjects h p₀ ops).1.get b f) := by
  have hreach := runProjects_reachable h ops p₀ hr₀
  have hobs := runProjects_obs h ops p₀ f.idx [] (by simp [obsSeq, hn₀])
  simp only [List.nil_append] at hobs
  rw [(first_order_is_observation_order h pn _ hreach f hf ho a b ha hb).1, ← hobs]
  have hmem : ∀ k, k < (runProjects h p₀ ops).1.nodes.length →
      (runProjects h p₀ ops).1.get k f ∈ (runProjects h p₀ ops).2.map fun row => getVal row f.idx := by
    intro k hk
    rw [← mem_firstOcc, hobs, mem_firstOcc]
    unfold obsSeq Proj.get
    rw [C08.vals_eq_getElem _ k hk]
    exact List.mem_map_of_mem (List.getElem_mem hk)
  exact firstOcc_idxOf_lt _ _ _ (hmem a ha) (hmem b hb)

/-- The F15 witness on the model (`.config`; results {a:1}, {a:1,b:x}, {a:2}): the key without `b`
sorts before the key with `b=x`, before and after the third result is projected. -/
def f15Witness : Bool :=
  let env : Env := { configKeys := [], exclude := [] }
  let hsh : List Bytes → UInt64 := fun _ => 0
  let cfg : Bytes := [46, 99, 111, 110, 102, 105, 103]
  match (makeProjection Parser.new newProjection { key := cfg, order := .first }).2 with
  | .ok p0 =>
    let r1 : Res := { name := [88], config := [([97], [49], true)], units := [] }
    let r2 : Res := { name := [88], config := [([97], [49], true), ([98], [120], true)], units := [] }
    let r3 : Res := { name := [88], config := [([97], [50], true)], units := [] }
    let s1 := p0.project hsh env r1
    let s2 := s1.1.project hsh env r2
    let s3 := s2.1.project hsh env r3
    s2.1.less (fun _ => .err) s1.2 s2.2 && s3.1.less (fun _ => .err) s1.2 s2.2 &&
      !(s3.1.less (fun _ => .err) s2.2 s1.2) && s3.1.flat.length == 2
  | .error _ => false

example : f15Witness = true := by decide +kernel

/-! ### Keys of a projection -/

/-- **less_strict_total** for the keys of a projection: in every reachable state `Key.Less` is
irreflexive, asymmetric, transitive, and total on distinct keys (distinct keys differ in a
flattened field by `C08.key_eq_iff`). For every hash function and every `parseNum`. -/
theorem key_less_strict_total (h : List Bytes → UInt64) (pn : Bytes → NumC) (p : Proj)
    (hr : C08.Reachable h p) :
    (∀ a, p.less pn a a = false) ∧
    (∀ a b, p.less pn a b = true → p.less pn b a = false) ∧
    (∀ a b c, p.less pn a b = true → p.less pn b c = true → p.less pn a c = true) ∧
    (∀ a b, a < p.nodes.length → b < p.nodes.length → a ≠ b →
      p.less pn a b = true ∨ p.less pn b a = true) := by
  have st := less_strict_total_four_kinds pn p.flat
  refine ⟨fun a => st.irrefl _, fun a b => st.asymm _ _, fun a b c => st.trans _ _ _, ?_⟩
  intro a b ha hb hne
  apply st.total
  apply Classical.byContradiction
  intro hno
  apply hne
  apply (C08.key_eq_iff h p hr a b ha hb).mpr
  intro f hf
  apply Classical.byContradiction
  intro hd
  exact hno ⟨f, hf, hd⟩

/-- `SortKeys` on the keys of a projection: any two sorted permutations of the same keys (taken
from any two arrangements) coincide, and coincide with the reference sort of the model. -/
theorem sortKeys_independent (h : List Bytes → UInt64) (pn : Bytes → NumC) (p : Proj)
    (hr : C08.Reachable h p) (in₁ in₂ out₁ out₂ : List Nat) (hv : ∀ k ∈ in₁, k < p.nodes.length)
    (hin : in₁.Perm in₂)
    (hs₁ : Sorted (p.less pn) out₁) (hp₁ : out₁.Perm in₁)
    (hs₂ : Sorted (p.less pn) out₂) (hp₂ : out₂.Perm in₂) :
    out₁ = out₂ ∧ out₁ = p.sortKeys pn in₁ := by
  obtain ⟨_, hasym, htrans, htotal⟩ := key_less_strict_total h pn p hr
  have hs₃ : Sorted (p.less pn) (p.sortKeys pn in₁) := sortBy_sorted _ hasym htrans _
  have hp₃ : (p.sortKeys pn in₁).Perm in₁ := sortBy_perm _ _
  have antisymm : ∀ a b, a ∈ in₁ → b ∈ in₁ → p.less pn b a = false → p.less pn a b = false → a = b := by
    intro a b ha hb h1 h2
    apply Classical.byContradiction
    intro hne
    rcases htotal a b (hv a ha) (hv b hb) hne with h | h
    · rw [h] at h2; exact absurd h2 (by simp)
    · rw [h] at h1; exact absurd h1 (by simp)
  constructor
  · refine List.Perm.eq_of_pairwise (le := fun x y => p.less pn y x = false) ?_ hs₁ hs₂
      (hp₁.trans (hin.trans hp₂.symm))
    intro a b ha hb
    exact antisymm a b (hp₁.subset ha) (hin.symm.subset (hp₂.subset hb))
  · refine List.Perm.eq_of_pairwise (le := fun x y => p.less pn y x = false) ?_ hs₁ hs₃
      (hp₁.trans hp₃.symm)
    intro a b ha hb
    exact antisymm a b (hp₁.subset ha) (hp₃.subset hb)

end C09
