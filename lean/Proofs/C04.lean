/-
C04 — measurements are normalised to base units for every value, original kept.
Property theorems only (helper lemmas: Proofs/Lemmas/C04*.lean).

Model: Model/Unit/Tidy.lean (benchunit/tidy.go, the reader's rule, unit metadata, `.unit` filter),
tokenizer Model/Unit/Parse.lean. Specification: Model/Spec/Tidy.lean.
-/
import Model.Unit.Tidy
import Model.Spec.Tidy
import Proofs.Lemmas.C04Tok
import Proofs.Lemmas.C04Sub
import Proofs.Lemmas.C04Idem
import Proofs.Lemmas.C04F64
import Proofs.Lemmas.F64Exact

namespace C04
open Unit.Tidy

/-- **tidy_fastpaths_agree** — every entry of the `switch unit` fast-path table returns exactly
what the general path (`tidyUnitUncached`) computes for that unit, bit for bit (in particular the
constant `1e-9` equals `1/1e9` in float64). Kernel evaluation of the table. -/
theorem tidy_fastpaths_agree :
    fastTable.all (fun e => tidyUnitUncached? e.1 == some e.2) = true := by decide +kernel

/-- **tidy_uncached_spec** — the general path, for ALL byte strings (valid UTF-8 or not): the edit
list built from the tokenizer's byte positions and applied last-to-first never slices out of
bounds (`some`: no run-time panic, edits do not overlap, positions stay valid while the string
changes length) and yields exactly the specification's unit and factor. -/
theorem tidy_uncached_spec (u : Bytes) : tidyUnitUncached? u = some (Spec.Tidy.tidyUnit u) := by
  unfold tidyUnitUncached?
  rw [scan_eq]
  have h := tokens_main (u.length + 1) u 0 false [] F64.one (Nat.lt_succ_self _) rfl
  simp only [List.nil_append] at h ⊢
  unfold Unit.Parse.tokens
  rw [h.1, h.2]
  rfl

theorem fastPath_mem (u : Bytes) (r : Bytes × F64.Bits) (h : fastPath u = some r) :
    (u, r) ∈ fastTable := by
  unfold fastPath at h
  cases hf : fastTable.find? (·.1 == u) with
  | none => simp [hf] at h
  | some e =>
    simp only [hf, Option.map_some, Option.some.injEq] at h
    have hm := List.mem_of_find?_eq_some hf
    have hp := List.find?_some hf
    have : e.1 = u := by simpa using hp
    rw [← this, ← h]; exact hm

theorem fastTable_spec : fastTable.all (fun e => Spec.Tidy.tidyUnit e.1 == e.2) = true := by
  decide +kernel

/-- **tidy_spec** — `tidyUnit` (fast-path switch, substring pre-filter, memoised general path)
equals the specification for ALL byte strings: every numerator component `ns` becomes `sec`,
every numerator component `MB` becomes `B`, everything else is kept byte for byte, and the factor
is `/1e9` resp. `*1e6` per replaced component, left to right. -/
theorem tidy_spec (u : Bytes) : tidyUnit u = Spec.Tidy.tidyUnit u := by
  unfold tidyUnit
  cases hf : fastPath u with
  | some r =>
    have hm := fastPath_mem u r hf
    have := List.all_eq_true.mp fastTable_spec _ hm
    simp only [beq_iff_eq] at this
    simp [this]
  | none =>
    simp only
    by_cases hc : mayNeedTidy u = true
    · simp only [hc, Bool.not_true, Bool.false_eq_true, if_false]
      unfold tidyUnitUncached
      rw [tidy_uncached_spec]; rfl
    · have hc' : mayNeedTidy u = false := by simpa using hc
      simp only [hc', Bool.not_false, if_true]
      exact (spec_noop_of_not_contains u hc').symm

/-- the measurement-level statement: `benchunit.Tidy` is the specification's `tidy` -/
theorem tidy_value_spec (v : F64.Bits) (u : Bytes) : tidy v u = Spec.Tidy.tidy v u := by
  unfold tidy Spec.Tidy.tidy
  rw [tidy_spec]

/-- **no_ns_MB_substring** — a unit that contains neither `ns` nor `MB` as a substring is left
alone with factor exactly 1 (the pre-filter is sound). -/
theorem no_ns_MB_substring (u : Bytes) (h : mayNeedTidy u = false) : tidyUnit u = (u, F64.one) := by
  rw [tidy_spec]; exact spec_noop_of_not_contains u h

example : mayNeedTidy sAllocsOp = false ∧ mayNeedTidy [66, 47, 115, 101, 99] = false := by
  decide

/-- **reader_reports_base_unit** — for every value (zero, infinities, NaN included) and every
unit the reader reports exactly what the specification demands: the unit is the specification's
base unit, the value is the written value times the factor, and the written pair is preserved in
OrigValue/OrigUnit exactly when the unit changed (decided by the unit, never by the value). -/
theorem reader_reports_base_unit (v : F64.Bits) (u : Bytes) :
    (readerValue v u).unit = (Spec.Tidy.tidyUnit u).1 ∧
    ((Spec.Tidy.tidyUnit u).1 ≠ u →
      (readerValue v u).value = F64.mul v (Spec.Tidy.tidyUnit u).2 ∧
      (readerValue v u).origValue = v ∧ (readerValue v u).origUnit = u) ∧
    ((Spec.Tidy.tidyUnit u).1 = u →
      (readerValue v u).value = v ∧ (readerValue v u).origUnit = []) := by
  unfold readerValue
  rw [tidy_value_spec]
  unfold Spec.Tidy.tidy
  simp only
  by_cases h : (Spec.Tidy.tidyUnit u).1 = u
  · simp [h]
  · simp [h]

/-- the same as one equation: the reader's record is the specification's report -/
theorem reader_is_report (v : F64.Bits) (u : Bytes) :
    ((readerValue v u).value, (readerValue v u).unit, (readerValue v u).origValue, (readerValue v u).origUnit)
      = Spec.Tidy.report v u := by
  unfold readerValue Spec.Tidy.report
  rw [tidy_value_spec]
  by_cases h : (Spec.Tidy.tidy v u).2 = u
  · simp [h]
  · simp [h]

/-- one written unit is never reported under two names: the reported unit does not depend on the
value -/
theorem reported_unit_value_independent (v w : F64.Bits) (u : Bytes) :
    (readerValue v u).unit = (readerValue w u).unit := by
  rw [(reader_reports_base_unit v u).1, (reader_reports_base_unit w u).1]

/-- **unit_filter_matches_either** — a `.unit` term selects a measurement exactly when the
pattern matches the written unit or the base unit. -/
theorem unit_filter_matches_either (q : Bytes → Bool) (v : F64.Bits) (u : Bytes) :
    unitMatch q (readerValue v u) = (q (tidyUnit u).1 || q u) := by
  unfold unitMatch readerValue tidy
  simp only
  by_cases h : (tidyUnit u).1 = u
  · simp [h]
  · have hu : u ≠ [] := by
      intro e; subst e; exact h (by decide)
    have hu' : (u != []) = true := by simpa using hu
    simp [h, hu']

/-- **tidy_idempotent_unit** — for ALL byte strings: the unit produced by `tidyUnit` is a fixed
point with factor exactly 1 (re-parsing the rewritten string finds the rewritten components:
replacements are ASCII, decoding is local, separators are untouched). -/
theorem tidy_idempotent_unit (u : Bytes) : tidyUnit (tidyUnit u).1 = ((tidyUnit u).1, F64.one) := by
  rw [tidy_spec u, tidy_spec]; exact spec_tidyUnit_idem u

/-- **reported_unit_is_base** — whatever the reader reports is expressed in a base unit: no
numerator component `ns` or `MB` is left (for every unit, every value). -/
theorem reported_unit_is_base (v : F64.Bits) (u : Bytes) :
    Spec.Tidy.isBase (readerValue v u).unit = true := by
  rw [(reader_reports_base_unit v u).1]; exact spec_tidyUnit_isBase u

/-- **passes_through_untouched** — a unit with nothing to normalise (no numerator component `ns`
or `MB`; `ns`/`MB` in the denominator or inside longer words do not count) is reported as written,
value untouched bit for bit (no multiplication by 1 even), OrigUnit = "" and OrigValue = 0. -/
theorem passes_through_untouched (v : F64.Bits) (u : Bytes) (h : Spec.Tidy.isBase u = true) :
    readerValue v u = { value := v, unit := u, origValue := 0, origUnit := [] } := by
  unfold readerValue
  rw [tidy_value_spec]
  unfold Spec.Tidy.tidy
  rw [spec_tidyUnit_of_isBase u h]
  simp

-- non-trivial instances: `op/ns`, `nsec*MBs` have nothing to normalise
example : Spec.Tidy.isBase [111, 112, 47, 110, 115] = true ∧
    Spec.Tidy.isBase [110, 115, 101, 99, 42, 77, 66, 115] = true := by decide

/-- **metadata_lookup_tidy_invariant** — a metadata lookup gives the same answer whether the
written or the base unit is named, for every map; and a field recorded from a `Unit` line naming
either form is found under both names. -/
theorem metadata_lookup_tidy_invariant (m : MetaMap) (u k : Bytes) :
    get m u k = get m (tidyUnit u).1 k ∧ getAssumption m u = getAssumption m (tidyUnit u).1 := by
  have h : (tidy F64.one (tidyUnit u).1).2 = (tidy F64.one u).2 := by
    unfold tidy; simp only; rw [tidy_idempotent_unit]
  constructor
  · unfold Unit.Tidy.get; rw [h]
  · unfold getAssumption Unit.Tidy.get; rw [h]

/-- `GetBetter` agrees for the written and the base unit whenever a `better` entry exists for the
unit (the built-in defaults are keyed by the literal name, see the remark below). -/
theorem getBetter_tidy_invariant (m : MetaMap) (u : Bytes) (h : (get m u sBetter).isSome = true) :
    getBetter m u = getBetter m (tidyUnit u).1 := by
  have hg := (metadata_lookup_tidy_invariant m u sBetter).1
  unfold getBetter
  rw [← hg]
  cases hx : get m u sBetter with
  | none => rw [hx] at h; cases h
  | some b => rfl

/-- remark (not a property violation, recorded in notes/C04.md): the built-in *defaults* of
`GetBetter` are keyed by literal unit names, so `MB/op` (base unit `B/op`) has no default while
`B/op` has. -/
theorem getBetter_default_literal :
    getBetter [] [77, 66, 47, 111, 112] = 0 ∧ getBetter [] (tidyUnit [77, 66, 47, 111, 112]).1 = -1 := by
  decide +kernel

/-- a field recorded from `Unit <w> k=v` (no earlier entry) is found when looking up `w` or the
base unit of `w`, and likewise when the line named the base unit and the lookup names `w`. -/
theorem metadata_recorded_found (m : MetaMap) (w k v : Bytes) (hnew : get m w k = none) :
    (get (addMeta m w k v).1 w k).map (·.value) = some v ∧
    (get (addMeta m w k v).1 (tidyUnit w).1 k).map (·.value) = some v ∧
    (get (addMeta m (tidyUnit w).1 k v).1 w k).map (·.value) = some v := by
  have hidem : (tidy F64.one (tidyUnit w).1).2 = (tidy F64.one w).2 := by
    unfold tidy; simp only; rw [tidy_idempotent_unit]
  have key : ∀ (m : MetaMap) (tu ou : Bytes), MetaMap.find m tu k = none →
      (MetaMap.find (m ++ [⟨tu, k, ou, v⟩]) tu k).map (·.value) = some v := by
    intro m tu ou hn
    unfold MetaMap.find at hn ⊢
    rw [List.find?_append, hn]
    simp
  unfold Unit.Tidy.get at hnew
  refine ⟨?_, ?_, ?_⟩
  · unfold addMeta Unit.Tidy.get; simp only [hnew]; exact key _ _ _ hnew
  · unfold addMeta Unit.Tidy.get; rw [hidem]; simp only [hnew]; exact key _ _ _ hnew
  · unfold addMeta Unit.Tidy.get; rw [hidem]; simp only [hnew]; exact key _ _ _ hnew

/-- **tidy_idempotent_partial** — normalising an already normalised measurement changes nothing,
for every unit (all byte strings) and every value including NaN, ±0, ±Inf and subnormals.
Proved here: the unit part in full (`tidy_idempotent_unit`: second factor is exactly 1), NaN
results are the canonical NaN (`F64.mul_nan_canon`) and stay so. Missing for the un-suffixed
theorem: the float fact `hone` (x·1.0 = x for every non-NaN x, i.e. `roundMag` is the identity on
representable values) — item 5/6 of notes/TASK-F64-lemmas.md (`F64Mono.mul_one`); it is validated
bit-exactly by the correspondence run on every case (`idem=1`, and C10's `mul` cases). -/
theorem tidy_idempotent_partial
    (hone : ∀ x : F64.Bits, F64.isNaN x = false → F64.mul x F64.one = x)
    (v : F64.Bits) (u : Bytes) : tidy (tidy v u).1 (tidy v u).2 = tidy v u := by
  unfold tidy
  simp only
  rw [tidy_idempotent_unit]
  simp only
  congr 1
  cases hn : F64.isNaN (F64.mul v (tidyUnit u).2) with
  | false => exact hone _ hn
  | true =>
    rw [F64.mul_nan_canon _ _ hn]
    exact F64.mul_nan_left _ _ (by decide)

/-- the hypothesis of `tidy_idempotent_partial` holds on the values the property names
explicitly (kernel evaluation): ±0, ±Inf, 1, the smallest subnormal, 1e-9, 1e6, 5e300 -/
example : [F64.posZero, F64.negZero, F64.posInf, F64.negInf, F64.one, 1, f1em9, f1e6, 0x7E57E4C0E3F2F5E4].all
    (fun x => F64.mul x F64.one == x) = true := by decide +kernel

/-- **tidy_idempotent** — normalising an already normalised measurement changes nothing, for
every unit (all byte strings) and every float64 value including NaN, ±0, ±Inf and subnormals.
Full strength: the float fact x·1.0 = x is `F64.mul_one` (Proofs/Lemmas/F64Exact.lean). -/
theorem tidy_idempotent (v : F64.Bits) (u : Bytes) : tidy (tidy v u).1 (tidy v u).2 = tidy v u :=
  tidy_idempotent_partial F64.mul_one v u

/-- remark (mutation sweep): an all-zero edit `{pos 0, len 0, replace ""}` — what a slice made with
length 1 instead of 0 would contain — is the identity splice and never out of bounds. -/
theorem zero_edit_is_identity (u : Bytes) : applyEdit? u ⟨0, 0, []⟩ = some u := by
  simp [applyEdit?]

end C04
