/-
C04 — measurements are normalised to base units for every value, original kept.
Property theorems only (helper lemmas: Proofs/Lemmas/C04*.lean).
-/
import Model.Unit.Tidy
import Model.Spec.Tidy

namespace C04
open Unit.Tidy

/-- **tidy_fastpaths_agree** — every entry of the `switch unit` fast-path table returns exactly
what the general path (`tidyUnitUncached`) computes for that unit, bit for bit (in particular the
constant `1e-9` equals `1/1e9` in float64). Kernel evaluation of the table. -/
theorem tidy_fastpaths_agree :
    fastTable.all (fun e => tidyUnitUncached? e.1 == some e.2) = true := by decide +kernel

end C04
