/-
C07 — any string is expressible in expression syntax; bad expressions fail cleanly.
Property theorems only (helpers in Proofs/Lemmas/C07*.lean).
-/
import Model.Proc.Tok
import Model.Proc.ParseFilter
import Model.Proc.ParseProj

namespace C07
open Proc.Tok

theorem placeholder : True := trivial

end C07
