/-
C07 — any string is expressible in expression syntax; bad expressions fail cleanly.
Property theorems only (helpers: Proofs/Lemmas/C07Tok.lean, C07Parse.lean, C07Quote.lean).

All statements quantify over every byte string, every oracle (`cx.compileOK`, `cx.isSpaceHi`),
every state of the error tracker and both tokenizer modes.
-/
import Proofs.Lemmas.C07Balance
import Proofs.Lemmas.C07GoQuote
import Proofs.Lemmas.C07Offs
import Proofs.Lemmas.C07WF

namespace C07
open Proc.Tok Proc.ParseFilter

/-! ## quoting -/

/-- **quoted_word_scan**: for every body made of items (a byte other than `"` and `\`, or `\`
followed by any byte) the end-quote scan stops exactly at the closing quote: the token is the
unquoted body, the remaining input is `rest`; the only possible failure is `strconv.Unquote`'s
own verdict on the literal. -/
theorem quoted_word_scan (cx : Ctx) (m : Bool) {body : Bytes} (h : Items body) (rest : Bytes) (e : ErrSt) :
    next cx m (cQuote :: (body ++ cQuote :: rest)) e =
      match unquote (cQuote :: (body ++ [cQuote])) with
      | some w => mkTok cx (cQuote :: (body ++ cQuote :: rest)) kQ w rest e
      | none => tokError cx (cQuote :: (body ++ cQuote :: rest)) .badEscape e := by
  rw [next_quote]
  unfold quotedWord
  simp only [List.drop_succ_cons, List.drop_zero, scanQuote_items h rest]
  cases unquote (cQuote :: (body ++ [cQuote])) <;> rfl

/-- a body ending in an escaped backslash (the shape that failed before 2efbfeb) is made of items -/
example : Items [120, cBsl, cBsl] :=
  Items.plain (by decide) (by decide) (Items.esc Items.nil)

/-- **quote_expressible**: every byte string `s` has a double-quoted Go literal (`hexQuote s`,
each byte written `\xHH`) that tokenizes, in key and in value position and whatever follows, to
exactly one quoted-word token carrying `s`.  Fully proved (scan + model of strconv.Unquote). -/
theorem quote_expressible (cx : Ctx) (m : Bool) (s rest : Bytes) (e : ErrSt) :
    next cx m (hexQuote s ++ rest) e = mkTok cx (hexQuote s ++ rest) kQ s rest e := by
  have h := quoted_word_scan cx m (items_hexBody s) rest e
  have hu := unquote_hexQuote s
  simp only [hexQuote] at hu ⊢
  have hshape : cQuote :: (s.flatMap hexEsc ++ [cQuote]) ++ rest = cQuote :: (s.flatMap hexEsc ++ cQuote :: rest) := by
    simp
  rw [hshape, h, hu]

/-- auxiliary: if the body of `strconv.Quote s` consists of items and unquotes back to `s`, then
`strconv.Quote s` tokenizes to exactly one quoted word carrying `s` (both hypotheses are theorems:
`items_quoteBody`, `unquote_goQuote`; see `go_quote_expressible`). -/
theorem quote_expressible_of_roundtrip (cx : Ctx) (m : Bool) (isPrint : Nat → Bool) (s rest : Bytes) (e : ErrSt)
    (hItems : Items (quoteBody isPrint (s.length + 1) s))
    (hRound : unquote (goQuote isPrint s) = some s) :
    next cx m (goQuote isPrint s ++ rest) e = mkTok cx (goQuote isPrint s ++ rest) kQ s rest e := by
  have h := quoted_word_scan cx m hItems rest e
  simp only [goQuote] at hRound ⊢
  have hshape : cQuote :: (quoteBody isPrint (s.length + 1) s ++ [cQuote]) ++ rest =
      cQuote :: (quoteBody isPrint (s.length + 1) s ++ cQuote :: rest) := by simp
  rw [hshape, h, hRound]

/-- non-vacuity of the hypotheses for a string with quote, backslash, newline and a non-UTF-8 byte -/
example : Items (quoteBody (fun r => 0x20 ≤ r && r < 0x7f) 6 [34, 92, 10, 0xff, 97]) ∧
    unquote (goQuote (fun r => 0x20 ≤ r && r < 0x7f) [34, 92, 10, 0xff, 97]) = some [34, 92, 10, 0xff, 97] := by
  constructor
  · exact Items.esc (Items.esc (Items.esc (Items.esc (Items.plain (by decide) (by decide)
      (Items.plain (by decide) (by decide) (Items.plain (by decide) (by decide) Items.nil))))))
  · decide +kernel

/-- **go_quote_expressible** (the real `strconv.Quote`): for EVERY byte string `s`,
`strconv.Quote(s)` — modelled rune by rune as in the Go source: `\"` `\\` always escaped, printable
runes copied, `\a \b \f \n \r \t \v`, `\xHH` for other control characters and for bytes that are
not valid UTF-8, `\uHHHH` / `\UHHHHHHHH` for other non-printable runes — tokenizes, in key and value
position and whatever follows, to exactly one quoted-word token carrying `s`.  `strconv.IsPrint` is
an arbitrary parameter; the only fact used about it is that the newline is not printable
(a raw newline is the one byte `strconv.Unquote` refuses inside double quotes).  Rests on the proved
round trip `unquote (goQuote isPrint s) = some s` (UTF-8 decode/encode lemmas in C07Utf8). -/
theorem go_quote_expressible (cx : Ctx) (m : Bool) (isPrint : Nat → Bool) (h10 : isPrint 10 = false)
    (s rest : Bytes) (e : ErrSt) :
    next cx m (goQuote isPrint s ++ rest) e = mkTok cx (goQuote isPrint s ++ rest) kQ s rest e :=
  quote_expressible_of_roundtrip cx m isPrint s rest e (items_quoteBody isPrint h10 _ s) (unquote_goQuote isPrint h10 s)

/-- `strconv.Unquote(strconv.Quote(s)) = s` for the models -/
theorem go_quote_roundtrip (isPrint : Nat → Bool) (h10 : isPrint 10 = false) (s : Bytes) :
    unquote (goQuote isPrint s) = some s := unquote_goQuote isPrint h10 s

theorem next_nil (cx : Ctx) (m : Bool) (e : ErrSt) : next cx m [] e = mkTok cx [] 0 [] [] e := by
  simp [next, nextF]

theorem next_colon (cx : Ctx) (m : Bool) (r : Bytes) (e : ErrSt) :
    next cx m (cColon :: r) e = mkTok cx (cColon :: r) cColon [cColon] r e := by
  have h : isStartOpB cColon = true := by decide
  simp [next, nextF, h]

theorem exprF_quoted_term (cx : Ctx) (isPrint : Nat → Bool) (h10 : isPrint 10 = false) (k v : Bytes) (n : Nat) :
    exprF cx (n + 4) (goQuote isPrint k ++ cColon :: goQuote isPrint v) none =
      ⟨.lit k v (offOf cx (goQuote isPrint k ++ cColon :: goQuote isPrint v)), [], none⟩ := by
  have t1 := go_quote_expressible cx false isPrint h10 k (cColon :: goQuote isPrint v) none
  have t2 := next_colon cx false (goQuote isPrint v) none
  have t3 : next cx true (goQuote isPrint v) none = mkTok cx (goQuote isPrint v) kQ v [] none := by
    simpa using go_quote_expressible cx true isPrint h10 v [] none
  have t4 := next_nil cx false none
  have k1 : (kQ == cLP) = false := by decide
  have k2 : (kQ == cDash) = false := by decide
  have k3 : (kQ == cStar) = false := by decide
  have k4 : isWord kQ = true := by decide
  have k5 : (cColon != cColon) = false := by decide
  have k6 : isValue kQ = true := by decide
  have hm : matchF cx (n + 1) (goQuote isPrint k ++ cColon :: goQuote isPrint v) none =
      ⟨.lit k v (offOf cx (goQuote isPrint k ++ cColon :: goQuote isPrint v)), [], none⟩ := by
    simp only [matchF, t1, mkTok, k1, k2, k3, k4, t2, k5, t3, k6, Bool.false_eq_true, if_false, if_true]
    simp [mkMatch, kQ, kR]
  have e1 : ((0 : UInt8) == kA) = false := by decide
  have e2 : ((0 : UInt8) == cLP || (0 : UInt8) == cDash || (0 : UInt8) == cStar || (0 : UInt8) == kW || (0 : UInt8) == kQ) = false := by decide
  have e3 : ((0 : UInt8) == cRP || (0 : UInt8) == kO || (0 : UInt8) == 0) = true := by decide
  have e4 : ((0 : UInt8) == kO) = false := by decide
  have ha : andExprF cx (n + 2) (goQuote isPrint k ++ cColon :: goQuote isPrint v) none =
      ⟨.lit k v (offOf cx (goQuote isPrint k ++ cColon :: goQuote isPrint v)), [], none⟩ := by
    simp only [andExprF, hm, andLoop, t4, mkTok, e1, e2, e3, Bool.false_eq_true, if_false, if_true, finish]
  simp only [exprF, exprLoop, ha, t4, mkTok, e4, Bool.false_eq_true, if_false, List.nil_append, finish]

/-- **quoted_term_denotes**: for ANY key `k` and ANY value `v` (all byte strings) the filter
`strconv.Quote(k) + ":" + strconv.Quote(v)` parses, and its tree is the single literal match of key
`k` against value `v` — the expression denotes exactly those strings. -/
theorem quoted_term_denotes (cx : Ctx) (isPrint : Nat → Bool) (h10 : isPrint 10 = false) (k v : Bytes)
    (hn : cx.n = (goQuote isPrint k ++ cColon :: goQuote isPrint v).length) :
    parseFilter cx (goQuote isPrint k ++ cColon :: goQuote isPrint v) = .ok (.lit k v 0) := by
  have hfuel : fuelFor (goQuote isPrint k ++ cColon :: goQuote isPrint v) =
      (5 * (goQuote isPrint k ++ cColon :: goQuote isPrint v).length + 2) + 4 := by unfold fuelFor; omega
  have hoff : offOf cx (goQuote isPrint k ++ cColon :: goQuote isPrint v) = 0 := by simp [offOf, hn]
  unfold parseFilter
  rw [hfuel, exprF_quoted_term cx isPrint h10 k v _]
  have t4 := next_nil cx false none
  have e0 : ((0 : UInt8) != 0) = false := by decide
  simp only [endCheck, t4, mkTok, e0, Bool.false_eq_true, if_false, hoff]

/-- **bare_word_ok** (full strength): a non-empty word `c :: t` none of whose runes is white space
or one of `( ) : @ ,`, not starting with `-`, `*` or `"` (nor, in value position, with `/`), and
different from `AND` and `OR`, followed by ANY delimiter as the code has it — end of text, or a
rune `r` with `unicode.IsSpace(r) || isOp(r)` (`Delim`) — tokenizes to itself and leaves exactly
the delimiter and what follows.  The only fact used about the white-space oracle: U+FFFD is not
white space (so a delimiter cannot begin with a UTF-8 continuation byte). -/
theorem bare_word_ok (cx : Ctx) (m : Bool) (c : UInt8) (t rest : Bytes) (e : ErrSt)
    (hFFFD : cx.isSpaceHi runeError = false)
    (hop : isStartOpB c = false) (hq : c ≠ cQuote) (hsl : m = true → c ≠ cSlash)
    (hr : allRunes (fun r => !stopRune cx r) (t.length + 1) (c :: t) = true)
    (hA : c :: t ≠ wAND) (hO : c :: t ≠ wOR) (hd : Delim cx rest) :
    next cx m (c :: t ++ rest) e = mkTok cx (c :: t ++ rest) kW (c :: t) rest e := by
  have hc := delim_notCont cx hFFFD hd
  have hsz := decodeRune_size c t
  have hdec : decodeRune (c :: (t ++ rest)) = decodeRune (c :: t) := by
    simpa using decodeRune_append c t rest hc
  have hr1 : (isSpaceRune cx (decodeRune (c :: t)).1 || isOpR (decodeRune (c :: t)).1) = false := by
    simp only [allRunes, Bool.and_eq_true, Bool.not_eq_true'] at hr
    simpa [stopRune] using hr.1
  have hsp : isSpaceLen cx (c :: (t ++ rest)) = 0 := by
    simp only [Bool.or_eq_false_iff] at hr1
    simp only [isSpaceLen, hdec]
    split
    · rename_i h20
      have : c = 0x20 := by simpa using h20
      subst this
      have := hr1.1
      simp [decodeRune, isSpaceRune] at this
    · simp [hr1.1]
  have hre : (m && c == cSlash) = false := by
    cases m with
    | false => rfl
    | true => simpa using hsl rfl
  have hsplit := bareSplit_delim cx rest hd hc (t.length + 1) (c :: t) (by simp) hr
    ((c :: (t ++ rest)).length + 1) (by simp; omega)
  simp only [List.cons_append] at hsplit ⊢
  simp only [next, nextF, hop, hsp, hre]
  simp only [bareWord, hsplit]
  simp [hq, hA, hO]

/-- instances of `Delim`: end of text, an ASCII blank, an operator, a multi-byte space rune -/
example (cx : Ctx) : Delim cx [] ∧ Delim cx (0x20 :: [97]) ∧ Delim cx (cColon :: [97]) ∧ Delim cx (9 :: []) :=
  ⟨Or.inl rfl, Or.inr (by simp [stopRune, decodeRune, isSpaceRune]), Or.inr (by simp [stopRune, decodeRune, isSpaceRune, isOpR, cColon]),
   Or.inr (by simp [stopRune, decodeRune, isSpaceRune])⟩

example : allRunes (fun r => !stopRune ⟨0, fun _ => true, fun _ => false⟩ r) 4 [0xC3, 0xA9, 45, 42] = true := by
  decide +kernel

/-! ## totality and error positions -/

theorem parse_total_filter (cx : Ctx) (q : Bytes) (e : ErrSt) (f : Nat) (hf : fuelFor q ≤ f) :
    exprF cx f q e = exprF cx (fuelFor q) q e := by
  have h1 : 5 * q.length + 4 < f := by unfold fuelFor at hf; omega
  have h2 : 5 * q.length + 4 < fuelFor q := by unfold fuelFor; omega
  generalize fuelFor q = F at h2 ⊢
  exact (parser_fuel cx f).1 F q e h1 h2

/-- **parse_total**: the models are total functions (structural recursion on fuel), and the fuel
handed out is never exhausted: from the amounts used by `parseFilter` / `parseProjection` / `next`
and by the inner loops upwards, the result does not depend on the fuel. -/
theorem parse_total (cx : Ctx) (q : Bytes) (e : ErrSt) :
    (∀ f, fuelFor q ≤ f → exprF cx f q e = exprF cx (fuelFor q) q e) ∧
    (∀ n fs, q.length < n → Proc.ParseProj.projLoop cx n fs q e = Proc.ParseProj.projLoop cx (q.length + 1) fs q e) ∧
    (∀ m f, q.length < f → nextF cx m f q e = next cx m q e) ∧
    (∀ off key f terms, q.length < f → listLoop cx off key f terms q e = listLoop cx off key (q.length + 1) terms q e) ∧
    (∀ n fld, q.length < n → Proc.ParseProj.fixedLoop cx n fld q e = Proc.ParseProj.fixedLoop cx (q.length + 1) fld q e) :=
  ⟨fun f hf => parse_total_filter cx q e f hf,
   fun n fs h => projLoop_fuel cx n _ fs q e h (Nat.lt_succ_self _),
   fun m f h => nextF_fuel cx m f q e h,
   fun off key f terms h => listLoop_fuel cx off key f _ terms q e h (Nat.lt_succ_self _),
   fun n fld h => fixedLoop_fuel cx n _ fld q e h (Nat.lt_succ_self _)⟩

/-- **error_offset_in_range**: a syntax error of `ParseFilter` / `ParseProjection` is positioned
inside the text: `0 ≤ off ≤ len`. -/
theorem error_offset_in_range (cx : Ctx) (q : Bytes) (err : Err) (hn : cx.n = q.length) :
    (parseFilter cx q = .error err → 0 ≤ err.off ∧ err.off ≤ q.length) ∧
    (Proc.ParseProj.parseProjection cx q = .error err → 0 ≤ err.off ∧ err.off ≤ q.length) := by
  have fin : ∀ e', ErrOK cx q none e' → e' = some err → 0 ≤ err.off ∧ err.off ≤ (q.length : Int) := by
    intro e' h he
    rcases h with h | ⟨_, q', m, h2, h3⟩
    · rw [h] at he; simp at he
    · rw [h2] at he
      simp at he
      rw [← he]
      simp only [offOf, hn]
      omega
  constructor
  · intro h
    unfold parseFilter at h
    have hr := (parser_ok cx (fuelFor q)).1 q none
    generalize exprF cx (fuelFor q) q none = r at h hr
    have hE := hr.err.trans ((endCheck_ok cx r.rest r.err).mono hr.rest_le)
    dsimp only at h
    split at h
    · rename_i x hx
      simp at h
      rw [hx] at hE
      exact fin _ hE (by rw [h])
    · simp at h
  · intro h
    have hr := projLoop_ok cx (q.length + 1) [] q none
    have hE := hr.2.trans ((endCheck_ok cx _ _).mono hr.1)
    simp only [Proc.ParseProj.parseProjection] at h
    split at h
    · rename_i x hx
      simp at h
      exact fin _ hE (by rw [hx, h])
    · simp at h

/-- **semantic_error_offset_in_range**: the errors of `NewFilter` and of
`(*ProjectionParser).Parse` — syntax errors and the semantic rejections (`.config` in a filter,
empty key, unknown order, fixed order on `.config`, `.unit` in a projection), which report the
`Off` / `KeyOff` / `OrderOff` stored in the parse tree — are positioned inside the text.
The one stored offset that can lie beyond the text, `OrderOff = KeyOff + len(key)` of a field
without `@` whose quoted key holds invalid UTF-8 (each bad byte becomes the 3-byte U+FFFD), belongs
to order `first`, which no rejection reports (`FieldOK`). -/
theorem semantic_error_offset_in_range (cx : Ctx) (q : Bytes) (err : Err) (hn : cx.n = q.length) :
    (newFilter cx q = .error err → 0 ≤ err.off ∧ err.off ≤ q.length) ∧
    (Proc.ParseProj.parse cx q = .error err → 0 ≤ err.off ∧ err.off ≤ q.length) := by
  have conv : InR cx err.off → 0 ≤ err.off ∧ err.off ≤ (q.length : Int) := by
    intro h; simp only [InR, hn] at h; exact h
  constructor
  · intro h
    unfold newFilter at h
    generalize hp : parseFilter cx q = pr at h
    cases pr with
    | error e =>
      simp at h; rw [← h]
      exact (error_offset_in_range cx q e hn).1 hp
    | ok t =>
      simp only at h
      have hoffs : OffsIn cx t := by
        unfold parseFilter at hp
        have ho := (parser_offs cx (fuelFor q)).1 q none (by omega)
        generalize exprF cx (fuelFor q) q none = r at hp ho
        dsimp only at hp
        split at hp
        · simp at hp
        · simp at hp; rw [← hp]; exact ho
      cases hc : checkFilter t with
      | none => rw [hc] at h; simp at h
      | some x =>
        rw [hc] at h; simp at h; rw [← h]
        have := checkFilter_inR cx hoffs hc
        simp only [InR, hn] at this; exact this
  · intro h
    unfold Proc.ParseProj.parse at h
    generalize hp : Proc.ParseProj.parseProjection cx q = pr at h
    cases pr with
    | error e =>
      simp at h; rw [← h]
      exact (error_offset_in_range cx q e hn).2 hp
    | ok fs =>
      simp only at h
      have hok : ∀ f, f ∈ fs → FieldOK cx f := by
        unfold Proc.ParseProj.parseProjection at hp
        have ho := projLoop_fieldsOK cx (q.length + 1) [] q none (by omega) (by intro f hf; simp at hf)
        generalize Proc.ParseProj.projLoop cx (q.length + 1) [] q none = r at hp ho
        obtain ⟨rf, rr, re⟩ := r
        dsimp only at hp ho
        split at hp
        · simp at hp
        · simp at hp; rw [← hp]; exact ho
      cases hc : Proc.ParseProj.checkFields fs with
      | none => rw [hc] at h; simp at h
      | some x =>
        rw [hc] at h; simp at h; rw [← h]
        obtain ⟨f, hf, hcf⟩ := checkFields_some hc
        have := checkField_inR cx (hok f hf) hcf
        simp only [InR, hn] at this; exact this

/-- the corner noted above is real: a quoted key of two invalid bytes (4 source bytes) unquotes to
6 bytes, so the stored `OrderOff` is 6 > 4 = len — with order `first` -/
example : (match Proc.ParseProj.parseProjection ⟨4, fun _ => true, fun _ => false⟩ [34, 0x80, 0x80, 34] with
    | .ok [f] => f.key == [0xEF, 0xBF, 0xBD, 0xEF, 0xBF, 0xBD] && f.order == oFirst && decide (f.orderOff = 6)
    | _ => false) = true := by decide +kernel

/-! ## rejections

Each rejection is stated where the construct is recognised (for every remaining input, error
tracker and fuel ≥ 1): the tracker is non-empty afterwards.  `error_is_final` turns a non-empty
tracker into the verdict of the whole parse. -/

/-- once an error is recorded it is never lost or replaced, and the parse fails with it -/
theorem error_is_final (cx : Ctx) (q : Bytes) (x : Err) :
    (∀ m, (next cx m q (some x)).err = some x) ∧
    (∀ f, (matchF cx f q (some x)).err = some x ∧ (exprF cx f q (some x)).err = some x) ∧
    ((exprF cx (fuelFor q) q none).err = some x → parseFilter cx q = .error x) ∧
    (Proc.ParseProj.parseField cx q (some x)).err = some x := by
  refine ⟨?_, ?_, ?_, ?_⟩
  · intro m; exact (next_ok cx m q (some x)).err.some
  · intro f
    exact ⟨((parser_ok cx f).2.2.2.2 q (some x)).1.err.some, ((parser_ok cx f).1 q (some x)).err.some⟩
  · intro h
    unfold parseFilter
    generalize exprF cx (fuelFor q) q none = r at h ⊢
    obtain ⟨rf, rr, re⟩ := r
    simp only at h
    subst h
    simp only [endCheck_some]
  · exact (parseField_ok cx q (some x)).1.err.some

/-- **unterminated_quote_rejected**: a quoted word whose scan finds no closing quote records an
error (and yields the EOF token), in key and value position. -/
theorem unterminated_quote_rejected (cx : Ctx) (m : Bool) (r : Bytes) (e : ErrSt) (h : scanQuote r = none) :
    (next cx m (cQuote :: r) e).err.isSome ∧ (next cx m (cQuote :: r) e).tok.kind = 0 := by
  rw [next_quote]
  unfold quotedWord
  simp only [List.drop_succ_cons, List.drop_zero, h]
  exact ⟨recErr_isSome _ _ _ _, rfl⟩

example : scanQuote [120, cBsl, cQuote] = none := by decide

/-- **unterminated_regexp_rejected**: in value position, `/` with no closing `/` at the top level
(outside brackets and parentheses, not escaped) records an error. -/
theorem unterminated_regexp_rejected (cx : Ctx) (r : Bytes) (e : ErrSt) (h : reScan r 0 0 = none) :
    (next cx true (cSlash :: r) e).err.isSome ∧ (next cx true (cSlash :: r) e).tok.kind = 0 := by
  have h1 : isStartOpB cSlash = false := by decide
  have h2 : isSpaceLen cx (cSlash :: r) = 0 := by simp [isSpaceLen, cSlash, decodeRune, isSpaceRune]
  simp only [next, nextF, h1, h2]
  simp only [regexpTok, List.drop_succ_cons, List.drop_zero, h]
  simp [tokError, mkTok, recErr_isSome]

example : reScan [91, cSlash, 97] 0 0 = none := by decide

/-- **missing_colon_rejected**: a term whose key is not followed by `:`, or whose `:` is not
followed by a value or a parenthesised list, records an error. -/
theorem missing_colon_rejected (cx : Ctx) (f : Nat) (q : Bytes) (e : ErrSt)
    (hw : isWord (next cx false q e).tok.kind = true)
    (h : (next cx false (next cx false q e).rest (next cx false q e).err).tok.kind ≠ cColon ∨
      (let v := next cx true (next cx false (next cx false q e).rest (next cx false q e).err).rest
          (next cx false (next cx false q e).rest (next cx false q e).err).err
       isValue v.tok.kind = false ∧ v.tok.kind ≠ cLP)) :
    (matchF cx (f + 1) q e).err.isSome := by
  have k1 : ((next cx false q e).tok.kind == cLP) = false := by
    simp only [isWord, Bool.or_eq_true, beq_iff_eq] at hw
    rcases hw with hw | hw <;> rw [hw] <;> decide
  have k2 : ((next cx false q e).tok.kind == cDash) = false := by
    simp only [isWord, Bool.or_eq_true, beq_iff_eq] at hw
    rcases hw with hw | hw <;> rw [hw] <;> decide
  have k3 : ((next cx false q e).tok.kind == cStar) = false := by
    simp only [isWord, Bool.or_eq_true, beq_iff_eq] at hw
    rcases hw with hw | hw <;> rw [hw] <;> decide
  simp only [matchF, k1, k2, k3, hw]
  rcases h with h | ⟨hv1, hv2⟩
  · simp [h, perr, recErr_isSome]
  · by_cases hc : (next cx false (next cx false q e).rest (next cx false q e).err).tok.kind = cColon
    · simp [hc, hv1, hv2, perr, recErr_isSome]
    · simp [hc, perr, recErr_isSome]

/-- **empty_fixed_list_rejected**: `key @ ( )` records an error. -/
theorem empty_fixed_list_rejected (cx : Ctx) (q : Bytes) (e : ErrSt)
    (hk : Proc.ParseProj.isWord (next cx false q e).tok.kind = true)
    (hat : (next cx false (next cx false q e).rest (next cx false q e).err).tok.kind = cAt)
    (hlp : (next cx false (next cx false (next cx false q e).rest (next cx false q e).err).rest
      (next cx false (next cx false q e).rest (next cx false q e).err).err).tok.kind = cLP)
    (hrp : (next cx false (next cx false (next cx false (next cx false q e).rest (next cx false q e).err).rest
      (next cx false (next cx false q e).rest (next cx false q e).err).err).rest
      (next cx false (next cx false (next cx false q e).rest (next cx false q e).err).rest
      (next cx false (next cx false q e).rest (next cx false q e).err).err).err).tok.kind = cRP) :
    (Proc.ParseProj.parseField cx q e).err.isSome := by
  have w1 : Proc.ParseProj.isWord cLP = false := by decide
  have w2 : Proc.ParseProj.isWord cRP = false := by decide
  simp only [Proc.ParseProj.parseField, hk, hat, hlp, w1, Proc.ParseProj.fixedLoop, hrp, w2]
  simp [recErr_isSome]

open Proc.ParseProj in
/-- **unknown_order_rejected**: an order name other than `alpha`, `num`, `first` (and the internal
`fixed` with a non-empty list) makes `makeProjection` fail with "unknown order"; so does the
literal name `fixed` (147e6a6). -/
theorem unknown_order_rejected (f : Field)
    (h : (f.order ≠ oFixed ∧ f.order ≠ oFirst ∧ f.order ≠ oAlpha ∧ f.order ≠ oNum) ∨
      (f.order = oFixed ∧ f.fixed = [])) :
    checkField f = some ⟨f.orderOff, .unknownOrder⟩ := by
  rcases h with ⟨h1, h2, h3, h4⟩ | ⟨h1, h2⟩
  · simp [checkField, h1, h2, h3, h4]
  · simp [checkField, h1, h2]

open Proc.ParseProj in
theorem checkFields_of_mem {fs : List Field} {f : Field} (hm : f ∈ fs) (h : checkField f ≠ none) :
    checkFields fs ≠ none := by
  induction fs with
  | nil => simp at hm
  | cons g gs ih =>
    simp only [checkFields]
    cases hg : checkField g with
    | some x => simp
    | none =>
      simp only
      rcases List.mem_cons.mp hm with rfl | hm'
      · exact absurd hg h
      · exact ih hm'

open Proc.ParseProj in
/-- **unit_in_projection_rejected**: a projection with a field whose key is `.unit` is rejected. -/
theorem unit_in_projection_rejected (cx : Ctx) (q : Bytes) (fs : List Field) (f : Field)
    (hp : parseProjection cx q = .ok fs) (hm : f ∈ fs) (hk : f.key = kUnit) :
    ∃ err, parse cx q = .error err := by
  have hne : checkField f ≠ none := by
    have d1 : (kUnit == kConfig) = false := by decide
    have d2 : (kUnit == kFullname) = false := by decide
    simp only [checkField, hk, d1, d2]
    split
    · simp
    · split
      · simp
      · simp
  have := checkFields_of_mem hm hne
  simp only [parse, hp]
  cases hc : checkFields fs with
  | none => exact absurd hc this
  | some err => exact ⟨err, rfl⟩

/-- a leaf with the given key occurs in the tree -/
inductive HasKey (key : Bytes) : Filter → Prop
  | lit (v : Bytes) (off : Int) : HasKey key (.lit key v off)
  | re (v : Bytes) (off : Int) : HasKey key (.re key v off)
  | op (o : Op) (es : List Filter) (x : Filter) : x ∈ es → HasKey key x → HasKey key (.op o es)

theorem checkList_of_mem {es : List Filter} {x : Filter} (hm : x ∈ es) (h : checkFilter x ≠ none) :
    checkFilter.checkList es ≠ none := by
  induction es with
  | nil => simp at hm
  | cons g gs ih =>
    simp only [checkFilter.checkList]
    cases hg : checkFilter g with
    | some y => simp
    | none =>
      simp only
      rcases List.mem_cons.mp hm with rfl | hm'
      · exact absurd hg h
      · exact ih hm'

theorem hasKey_config_check {t : Filter} (hk : HasKey kConfig t) : checkFilter t ≠ none := by
  have d : (kConfig == kUnit) = false := by decide
  induction hk with
  | lit v off => simp [checkFilter, checkFilter.checkKey, d]
  | re v off => simp [checkFilter, checkFilter.checkKey, d]
  | op o es x hm _ ih => simp only [checkFilter]; exact checkList_of_mem hm ih

/-- **config_in_filter_rejected**: a filter whose tree has a leaf with key `.config` (anywhere) is
rejected by `NewFilter`. -/
theorem config_in_filter_rejected (cx : Ctx) (q : Bytes) (t : Filter)
    (hp : parseFilter cx q = .ok t) (hk : HasKey kConfig t) :
    ∃ err, newFilter cx q = .error err := by
  have hne := hasKey_config_check hk
  unfold newFilter
  generalize parseFilter cx q = r at hp
  subst hp
  cases hc : checkFilter t with
  | none => exact absurd hc hne
  | some err => exact ⟨err, by simp [hc]⟩

/-! ## whole-text corollaries -/

theorem exprF_first_error (cx : Ctx) (q : Bytes) (x : Err)
    (he : (next cx false q none).err = some x) (hk : (next cx false q none).tok.kind = 0) (n : Nat) :
    (exprF cx (n + 4) q none).err = some x := by
  have e1 : ((0 : UInt8) == cLP) = false := by decide
  have e2 : ((0 : UInt8) == cDash) = false := by decide
  have e3 : ((0 : UInt8) == cStar) = false := by decide
  have e4 : isWord 0 = false := by decide
  have hm : (matchF cx (n + 1) q none).err = some x := by
    simp only [matchF, hk, e1, e2, e3, e4]
    simp [perr, he, recErr]
  have ha : (andExprF cx (n + 2) q none).err = some x := by
    simp only [andExprF]
    have := ((parser_ok cx (n + 1)).2.2.2.1 [(matchF cx (n + 1) q none).f] (matchF cx (n + 1) q none).rest
      (matchF cx (n + 1) q none).err).err
    rw [hm] at this ⊢
    exact this.some
  simp only [exprF, exprLoop]
  generalize andExprF cx (n + 2) q none = a at ha ⊢
  have hop := (next_ok cx false a.rest a.err).err
  rw [ha] at hop ⊢
  split
  · have := ((parser_ok cx (n + 2)).2.1 ([] ++ [a.f]) (next cx false a.rest (some x)).rest
      (next cx false a.rest (some x)).err).err
    rw [hop.some] at this ⊢
    exact this.some
  · exact hop.some

/-- if the very first token of a text is in error, both parsers reject the text -/
theorem first_token_error_rejects (cx : Ctx) (q : Bytes) (x : Err)
    (he : (next cx false q none).err = some x) (hk : (next cx false q none).tok.kind = 0) :
    parseFilter cx q = .error x ∧ Proc.ParseProj.parseProjection cx q = .error x := by
  constructor
  · apply (error_is_final cx q x).2.2.1
    have hfuel : fuelFor q = (5 * q.length + 2) + 4 := by unfold fuelFor; omega
    rw [hfuel]
    exact exprF_first_error cx q x he hk _
  · simp only [Proc.ParseProj.parseProjection, Proc.ParseProj.projLoop, hk]
    simp [he, endCheck_some]

/-- a text that begins with an unterminated quoted word is rejected as a filter and as a projection -/
theorem unterminated_quote_text_rejected (cx : Ctx) (r : Bytes) (h : scanQuote r = none) :
    ∃ x, parseFilter cx (cQuote :: r) = .error x ∧ Proc.ParseProj.parseProjection cx (cQuote :: r) = .error x := by
  obtain ⟨he, hk⟩ := unterminated_quote_rejected cx false r none h
  obtain ⟨x, hx⟩ := Option.isSome_iff_exists.mp he
  exact ⟨x, first_token_error_rejects cx _ x hx hk⟩

/-! ## the token stream: balance of accepted texts, errors anywhere in the text

`Lex cx δ st q ks st' q'` (Proofs/Lemmas/C07Lex.lean) is the deterministic token stream of a
text: tokens are read with `next` in the mode of the current state of the syntax's mode machine
(`stepF`: key mode; value mode for the one token after `:`; value mode inside a parenthesised value
list — `stepP`: key mode throughout), each token error-free.  Parentheses inside quoted words and
regexps are not tokens, so balance is stated on the kinds of the stream. -/

theorem endCheck_none {cx : Ctx} {q : Bytes} {e : ErrSt} (h : endCheck cx q e = none) : e = none ∧ AtEnd cx q := by
  unfold endCheck at h
  dsimp only at h
  split at h
  · have := recErr_isSome cx (next cx false q e).cur .unexpected (next cx false q e).err
    rw [h] at this; simp at this
  · rename_i hk
    have he := next_e_none h
    subst he
    exact ⟨rfl, ne_of_bne hk, h⟩

/-- **accepted_implies_balanced**: a text accepted by the filter parser (resp. the projection
parser) is, from its first byte to its end, an error-free token stream whose parentheses are
balanced (never more `)` than `(` so far, equal numbers at the end). -/
theorem accepted_implies_balanced (cx : Ctx) (q : Bytes) :
    (∀ t, parseFilter cx q = .ok t →
      ∃ ks qend, Lex cx stepF .K q ks .K qend ∧ AtEnd cx qend ∧ Balanced ks) ∧
    (∀ fs, Proc.ParseProj.parseProjection cx q = .ok fs →
      ∃ ks qend, Lex cx stepP .K q ks .K qend ∧ AtEnd cx qend ∧ Balanced ks) := by
  constructor
  · intro t h
    unfold parseFilter at h
    have hl := (parser_lex cx (fuelFor q)).1 q
    generalize exprF cx (fuelFor q) q none = r at h hl
    dsimp only at h
    split at h
    · simp at h
    · rename_i hend
      obtain ⟨hre, hat⟩ := endCheck_none hend
      obtain ⟨ks, hlex, hseg⟩ := hl hre
      exact ⟨ks, r.rest, hlex, hat, hseg.balanced⟩
  · intro fs h
    unfold Proc.ParseProj.parseProjection at h
    have hl := projLoop_lex cx (q.length + 1) [] q
    generalize Proc.ParseProj.projLoop cx (q.length + 1) [] q none = r at h hl
    obtain ⟨rf, rr, re⟩ := r
    dsimp only at h hl
    split at h
    · simp at h
    · rename_i hend
      obtain ⟨hre, hat⟩ := endCheck_none hend
      obtain ⟨ks, hlex, hseg⟩ := hl hre
      exact ⟨ks, rr, hlex, hat, hseg.balanced⟩

example : Balanced [cLP, kW, cColon, kW, cRP] ∧ ¬ Balanced [cLP, cLP, cStar, cRP] ∧ ¬ Balanced [cRP, cLP] := by
  refine ⟨by unfold Balanced; decide, by unfold Balanced; decide, by unfold Balanced; decide⟩

/-- **reached_error_rejected**: if the token stream of a text reaches, error-free, a position
where the next token (in the mode the syntax prescribes there) is in error, the text is rejected
— whatever precedes or follows.  (Contrapositive of `accepted_implies_balanced` + determinism.) -/
theorem reached_error_rejected (cx : Ctx) (q p : Bytes) (ks : List UInt8) (st : St)
    (herr : (next cx st.mode p none).err ≠ none) :
    (Lex cx stepF .K q ks st p → ∃ err, parseFilter cx q = .error err) ∧
    (Lex cx stepP .K q ks st p → ∃ err, Proc.ParseProj.parseProjection cx q = .error err) := by
  constructor
  · intro hl
    cases hp : parseFilter cx q with
    | error err => exact ⟨err, rfl⟩
    | ok t =>
      obtain ⟨ks2, qend, hl2, hat, _⟩ := (accepted_implies_balanced cx q).1 t hp
      exact absurd (lex_det hl herr hl2 hat) id
  · intro hl
    cases hp : Proc.ParseProj.parseProjection cx q with
    | error err => exact ⟨err, rfl⟩
    | ok fs =>
      obtain ⟨ks2, qend, hl2, hat, _⟩ := (accepted_implies_balanced cx q).2 fs hp
      exact absurd (lex_det hl herr hl2 hat) id

/-- **unterminated_quote_anywhere_rejected**: wherever the token stream reaches a quoted word
without closing quote, the filter (resp. projection) is rejected. -/
theorem unterminated_quote_anywhere_rejected (cx : Ctx) (q r : Bytes) (ks : List UInt8) (st : St)
    (h : scanQuote r = none) :
    (Lex cx stepF .K q ks st (cQuote :: r) → ∃ err, parseFilter cx q = .error err) ∧
    (Lex cx stepP .K q ks st (cQuote :: r) → ∃ err, Proc.ParseProj.parseProjection cx q = .error err) := by
  apply reached_error_rejected
  have := (unterminated_quote_rejected cx st.mode r none h).1
  intro h0; rw [h0] at this; simp at this

/-- **unterminated_regexp_anywhere_rejected**: wherever the token stream reaches, in value
position (after `:` or inside a value list), a `/` without top-level closing `/`, the filter is rejected. -/
theorem unterminated_regexp_anywhere_rejected (cx : Ctx) (q r : Bytes) (ks : List UInt8) (st : St)
    (hm : st.mode = true) (h : reScan r 0 0 = none) (hl : Lex cx stepF .K q ks st (cSlash :: r)) :
    ∃ err, parseFilter cx q = .error err := by
  refine (reached_error_rejected cx q (cSlash :: r) ks st ?_).1 hl
  rw [hm]
  have := (unterminated_regexp_rejected cx r none h).1
  intro h0; rw [h0] at this; simp at this

/-- leading blanks do not matter for where the stream is -/
theorem same_space (cx : Ctx) (q : Bytes) : Same cx ((0x20 : UInt8) :: q) q := by
  intro m e
  have h1 : isStartOpB (0x20 : UInt8) = false := by decide
  have h2 : isSpaceLen cx ((0x20 : UInt8) :: q) = 1 := by simp [isSpaceLen]
  have : next cx m ((0x20 : UInt8) :: q) e = nextF cx m (q.length + 1) q e := by
    simp [next, nextF, h1, h2]
  rw [this]; rfl

/-- non-vacuity: in `a:b "c` the stream reaches the unterminated `"c` after three tokens -/
example : ∃ ks st, Lex ⟨7, fun _ => true, fun _ => false⟩ stepF .K [97, 58, 98, 0x20, 34, 99] ks st [34, 99] := by
  refine ⟨_, _, Lex.cons (by decide +kernel) (by decide +kernel) (Lex.cons (by decide +kernel) (by decide +kernel)
    (Lex.cons (by decide +kernel) (by decide +kernel) (Lex.nil ?_)))⟩
  generalize hX : TokR.rest _ = X
  have : X = [0x20, 34, 99] := by rw [← hX]; decide +kernel
  rw [this]
  exact same_space _ _

/-- **accepted_tree_wellformed**: the tree of an accepted filter contains no `nil` node (Go's nil
interface, which would make `NewFilter` panic) and every NOT node has exactly one operand (which
`NewFilter`'s `subs[0]` relies on). -/
theorem accepted_tree_wellformed (cx : Ctx) (q : Bytes) (t : Filter) (h : parseFilter cx q = .ok t) : WF t := by
  unfold parseFilter at h
  have hw := (parser_wf cx (fuelFor q)).1 q none
  generalize exprF cx (fuelFor q) q none = r at h hw
  dsimp only at h
  split at h
  · simp at h
  · rename_i hend
    simp at h
    rw [← h]
    exact hw (endCheck_none hend).1

end C07
