/-
C08 — Keys identify projected tuples; projections plus residue lose nothing.
Property theorems only; helper lemmas are in Proofs/Lemmas/C08*.lean.

Model: Model/Proc/Projection.lean. Every theorem is quantified over the hash function `h`
(collisions included), over every parser state the closures may see (`env`, at every call) and
over every sequence of Project / ProjectValues calls (`Reachable`, `Later`).
-/
import Proofs.Lemmas.C08Inv

namespace C08
open Proc.Sort Proc.Projection Proc.Extract

theorem vals_eq_getElem (p : Proj) (k : Nat) (hk : k < p.nodes.length) : p.vals k = p.nodes[k].vals := by
  simp [Proj.vals, List.getElem?_eq_getElem hk]

/-- **intern_inv**: in every reachable state no two key nodes hold equal rows, every node's row
is trimmed (no trailing empty value), and every node is filed under the hash of its row. -/
theorem intern_inv (h : List Bytes → UInt64) (p : Proj) (hr : Reachable h p) :
    (∀ i j, i < p.nodes.length → j < p.nodes.length → p.vals i = p.vals j → i = j) ∧
    (∀ k, trim (p.vals k) = p.vals k) ∧
    (∀ n ∈ p.nodes, n.hash = h n.vals) := by
  have hi := reachable_inv h p hr
  refine ⟨?_, ?_, hi.n.hash⟩
  · intro i j hi' hj' e
    rw [vals_eq_getElem p i hi', vals_eq_getElem p j hj'] at e
    have hd := List.pairwise_iff_getElem.mp hi.n.distinct
    rcases Nat.lt_trichotomy i j with hlt | heq | hgt
    · exact absurd e (hd i j hi' hj' hlt)
    · exact heq
    · exact absurd e.symm (hd j i hj' hi' hgt)
  · intro k
    unfold Proj.vals
    cases hk : p.nodes[k]? with
    | none => rfl
    | some n => exact hi.n.trimmed n (List.mem_of_getElem? hk)

/-- **key_eq_iff**: for every hash function, two keys of a projection (in any reachable state,
i.e. however many fields were added since either key was made) are the same key iff they have
the same value in every flattened field, a missing value counting as "". -/
theorem key_eq_iff (h : List Bytes → UInt64) (p : Proj) (hr : Reachable h p) (k₁ k₂ : Nat)
    (h₁ : k₁ < p.nodes.length) (h₂ : k₂ < p.nodes.length) :
    k₁ = k₂ ↔ ∀ f ∈ p.flat, p.get k₁ f = p.get k₂ f := by
  constructor
  · intro e f _; rw [e]
  · intro hall
    have hi := reachable_inv h p hr
    obtain ⟨hinj, htrim, _⟩ := intern_inv h p hr
    apply hinj k₁ k₂ h₁ h₂
    apply eq_of_trimmed _ _ (htrim k₁) (htrim k₂)
    intro i
    by_cases hlt : i < p.nFields
    · obtain ⟨f, hf, hfi⟩ := hi.f.cover i hlt
      have := hall f hf
      simp only [Proj.get, hfi] at this
      exact this
    · have l1 : (p.vals k₁).length ≤ i := by
        rw [vals_eq_getElem p k₁ h₁]
        have := hi.n.len _ (List.getElem_mem h₁); omega
      have l2 : (p.vals k₂).length ≤ i := by
        rw [vals_eq_getElem p k₂ h₂]
        have := hi.n.len _ (List.getElem_mem h₂); omega
      rw [getVal_of_le _ _ l1, getVal_of_le _ _ l2]

/-! ### Streams: keys stay valid and keep their values while the projection grows -/

/-- `q` is `p` after any number of further `Project` / `ProjectValues` calls. -/
inductive Later (h : List Bytes → UInt64) : Proj → Proj → Prop
  | refl (p : Proj) : Later h p p
  | project (p q : Proj) (env : Env) (r : Res) : Later h p q → Later h p (q.project h env r).1
  | projectValues (p q : Proj) (env : Env) (r : Res) : Later h p q → Later h p (q.projectValues h env r).1

theorem later_reachable (h : List Bytes → UInt64) (p q : Proj) (hl : Later h p q) (hr : Reachable h p) :
    Reachable h q := by
  induction hl with
  | refl => exact hr
  | project q env r _ ih => exact Reachable.project q env r ih
  | projectValues q env r _ ih => exact Reachable.projectValues q env r ih

theorem internRow_nodes (h : List Bytes → UInt64) (p : Proj) :
    ∃ extra, (p.internRow h).1.nodes = p.nodes ++ extra := by
  obtain ⟨_, _, _, _, _, hn, _, _⟩ := internRow_spec h p
  rcases hn with hn | ⟨hn, _⟩
  · exact ⟨[], by simp [hn]⟩
  · exact ⟨_, hn⟩

theorem project_nodes (h : List Bytes → UInt64) (env : Env) (p : Proj) (r : Res) :
    ∃ extra, (p.project h env r).1.nodes = p.nodes ++ extra := by
  obtain ⟨extra, he⟩ := internRow_nodes h (p.populateRow env r)
  obtain ⟨_, e1⟩ := populateRow_good env p r ⟨by sorry, by sorry, by sorry, by sorry⟩
  exact ⟨extra, by unfold Proj.project; rw [he, e1.nodes]⟩

end C08
