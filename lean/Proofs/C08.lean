/-
C08 — Keys identify projected tuples; projections plus residue lose nothing.
Property theorems only; helper lemmas are in Proofs/Lemmas/C08*.lean.

Model: Model/Proc/Projection.lean. Every theorem is quantified over the hash function `h`
(collisions included), over every parser state the closures may see (`env`, at every call) and
over every sequence of Project / ProjectValues calls (`Reachable`, `Later`).
-/
import Proofs.Lemmas.C08Inv
import Proofs.Lemmas.C08Excl
import Proofs.Lemmas.C08Perm
import Proofs.Lemmas.C08Loss
import Proofs.C05
import Proofs.Lemmas.C08Val

namespace C08
open Proc.Sort Proc.Projection Proc.Extract

theorem vals_eq_getElem (p : Proj) (k : Nat) (hk : k < p.nodes.length) : p.vals k = p.nodes[k].vals := by
  simp [Proj.vals, List.getElem?_eq_getElem hk]

/-- **intern_inv**: in every reachable state no two key nodes hold equal rows, every node's row
is trimmed (no trailing empty value), and every node is filed under the hash of its row. -/
theorem intern_inv (h : List Bytes → UInt64) (p : Proj) (hr : Reachable h p) :
    (∀ i j, i < p.nodes.length → j < p.nodes.length → p.vals i = p.vals j → i = j) ∧
    (∀ k, trim (p.vals k) = p.vals k) ∧
    (∀ n ∈ p.nodes, n.hash = h n.vals) := by
  have hi := reachable_inv h p hr
  refine ⟨?_, ?_, hi.n.hash⟩
  · intro i j hi' hj' e
    rw [vals_eq_getElem p i hi', vals_eq_getElem p j hj'] at e
    have hd := List.pairwise_iff_getElem.mp hi.n.distinct
    rcases Nat.lt_trichotomy i j with hlt | heq | hgt
    · exact absurd e (hd i j hi' hj' hlt)
    · exact heq
    · exact absurd e.symm (hd j i hj' hi' hgt)
  · intro k
    unfold Proj.vals
    cases hk : p.nodes[k]? with
    | none => rfl
    | some n => exact hi.n.trimmed n (List.mem_of_getElem? hk)

/-- **key_eq_iff**: for every hash function, two keys of a projection (in any reachable state,
i.e. however many fields were added since either key was made) are the same key iff they have
the same value in every flattened field, a missing value counting as "". -/
theorem key_eq_iff (h : List Bytes → UInt64) (p : Proj) (hr : Reachable h p) (k₁ k₂ : Nat)
    (h₁ : k₁ < p.nodes.length) (h₂ : k₂ < p.nodes.length) :
    k₁ = k₂ ↔ ∀ f ∈ p.flat, p.get k₁ f = p.get k₂ f := by
  constructor
  · intro e f _; rw [e]
  · intro hall
    have hi := reachable_inv h p hr
    obtain ⟨hinj, htrim, _⟩ := intern_inv h p hr
    apply hinj k₁ k₂ h₁ h₂
    apply eq_of_trimmed _ _ (htrim k₁) (htrim k₂)
    intro i
    by_cases hlt : i < p.nFields
    · obtain ⟨f, hf, hfi⟩ := hi.f.cover i hlt
      have := hall f hf
      simp only [Proj.get, hfi] at this
      exact this
    · have l1 : (p.vals k₁).length ≤ i := by
        rw [vals_eq_getElem p k₁ h₁]
        have := hi.n.len _ (List.getElem_mem h₁); omega
      have l2 : (p.vals k₂).length ≤ i := by
        rw [vals_eq_getElem p k₂ h₂]
        have := hi.n.len _ (List.getElem_mem h₂); omega
      rw [getVal_of_le _ _ l1, getVal_of_le _ _ l2]

/-! ### Streams: keys stay valid and keep their values while the projection grows -/

/-- `q` is `p` after any number of further `Project` / `ProjectValues` calls. -/
inductive Later (h : List Bytes → UInt64) : Proj → Proj → Prop
  | refl (p : Proj) : Later h p p
  | project (p q : Proj) (env : Env) (r : Res) : Later h p q → Later h p (q.project h env r).1
  | projectValues (p q : Proj) (env : Env) (r : Res) : Later h p q → Later h p (q.projectValues h env r).1

theorem later_reachable (h : List Bytes → UInt64) (p q : Proj) (hl : Later h p q) (hr : Reachable h p) :
    Reachable h q := by
  induction hl with
  | refl => exact hr
  | project q env r _ ih => exact Reachable.project q env r ih
  | projectValues q env r _ ih => exact Reachable.projectValues q env r ih

theorem internRow_nodes (h : List Bytes → UInt64) (p : Proj) :
    ∃ extra, (p.internRow h).1.nodes = p.nodes ++ extra := by
  obtain ⟨_, _, _, _, _, hn, _, _⟩ := internRow_spec h p
  rcases hn with hn | ⟨hn, _⟩
  · exact ⟨[], by simp [hn]⟩
  · exact ⟨_, hn⟩

theorem project_nodes (h : List Bytes → UInt64) (env : Env) (p : Proj) (r : Res) (hi : Inv h p) :
    ∃ extra, (p.project h env r).1.nodes = p.nodes ++ extra := by
  obtain ⟨extra, he⟩ := internRow_nodes h (p.populateRow env r)
  obtain ⟨_, e1⟩ := populateRow_good env p r hi.f
  exact ⟨extra, by unfold Proj.project; rw [he, e1.nodes]⟩

theorem projectUnits_nodes (h : List Bytes → UInt64) (ui : Nat) (us : List Bytes) (p : Proj) :
    ∃ extra, (projectUnits h ui p us).1.nodes = p.nodes ++ extra := by
  induction us generalizing p with
  | nil => exact ⟨[], by simp [projectUnits]⟩
  | cons u rest ih =>
    simp only [projectUnits]
    obtain ⟨e1, h1⟩ := internRow_nodes h { p with row := p.row.set ui u }
    obtain ⟨e2, h2⟩ := ih ({ p with row := p.row.set ui u }.internRow h).1
    exact ⟨e1 ++ e2, by rw [h2, h1]; simp⟩

theorem projectValues_nodes (h : List Bytes → UInt64) (env : Env) (p : Proj) (r : Res) (hi : Inv h p) :
    ∃ extra, (p.projectValues h env r).1.nodes = p.nodes ++ extra := by
  obtain ⟨_, e1⟩ := populateRow_good env p r hi.f
  unfold Proj.projectValues
  dsimp only
  split
  · obtain ⟨extra, he⟩ := internRow_nodes h (p.populateRow env r)
    exact ⟨extra, by rw [he, e1.nodes]⟩
  · obtain ⟨extra, he⟩ := projectUnits_nodes h _ r.units (p.populateRow env r)
    exact ⟨extra, by rw [he, e1.nodes]⟩

theorem later_nodes (h : List Bytes → UInt64) (p q : Proj) (hl : Later h p q) (hr : Reachable h p) :
    ∃ extra, q.nodes = p.nodes ++ extra := by
  induction hl with
  | refl => exact ⟨[], by simp⟩
  | project q env r hl ih =>
    obtain ⟨e1, h1⟩ := ih
    obtain ⟨e2, h2⟩ := project_nodes h env q r (reachable_inv h q (later_reachable h p q hl hr))
    exact ⟨e1 ++ e2, by rw [h2, h1]; simp⟩
  | projectValues q env r hl ih =>
    obtain ⟨e1, h1⟩ := ih
    obtain ⟨e2, h2⟩ := projectValues_nodes h env q r (reachable_inv h q (later_reachable h p q hl hr))
    exact ⟨e1 ++ e2, by rw [h2, h1]; simp⟩

/-- Keys are never invalidated and never change their values: after any further projections
(which may add fields) an old key is still a key and `Get` returns what it returned before for
every old field; for a field added later it returns "" (the key's row is shorter). -/
theorem key_stable (h : List Bytes → UInt64) (p q : Proj) (hl : Later h p q) (hr : Reachable h p)
    (k : Nat) (hk : k < p.nodes.length) :
    k < q.nodes.length ∧ q.vals k = p.vals k ∧
    (∀ f : Field, p.nFields ≤ f.idx → q.get k f = []) := by
  obtain ⟨extra, he⟩ := later_nodes h p q hl hr
  have hk' : k < q.nodes.length := by rw [he]; simp; omega
  have hv : q.vals k = p.vals k := by
    rw [vals_eq_getElem q k hk', vals_eq_getElem p k hk]
    simp [he, List.getElem_append_left hk]
  refine ⟨hk', hv, ?_⟩
  intro f hf
  unfold Proj.get
  rw [hv, vals_eq_getElem p k hk]
  apply getVal_of_le
  have := (reachable_inv h p hr).n.len _ (List.getElem_mem hk)
  omega

/-- The key returned by `Project` is a valid key of the new state. -/
theorem project_key_valid (h : List Bytes → UInt64) (env : Env) (p : Proj) (r : Res) :
    (p.project h env r).2 < (p.project h env r).1.nodes.length := by
  obtain ⟨_, _, _, _, _, _, hk, _⟩ := internRow_spec h (p.populateRow env r)
  exact hk

/-- **key_eq_iff** over a stream: a key made at one time and a key made after any number of
further projections (with any number of new fields) are equal iff all flattened field values,
as seen in the final state, are equal. For every hash function. -/
theorem key_eq_iff_stream (h : List Bytes → UInt64) (p₀ : Proj) (hr : Reachable h p₀)
    (env₁ env₂ : Env) (r₁ r₂ : Res) (p₂ : Proj)
    (hl : Later h (p₀.project h env₁ r₁).1 p₂) :
    let k₁ := (p₀.project h env₁ r₁).2
    let p₃ := (p₂.project h env₂ r₂).1
    let k₂ := (p₂.project h env₂ r₂).2
    k₁ = k₂ ↔ ∀ f ∈ p₃.flat, p₃.get k₁ f = p₃.get k₂ f := by
  intro k₁ p₃ k₂
  have hr1 : Reachable h (p₀.project h env₁ r₁).1 := Reachable.project p₀ env₁ r₁ hr
  have hl3 : Later h (p₀.project h env₁ r₁).1 p₃ := Later.project _ p₂ env₂ r₂ hl
  have hr3 : Reachable h p₃ := later_reachable h _ _ hl3 hr1
  have hk1 := (key_stable h _ p₃ hl3 hr1 k₁ (project_key_valid h env₁ p₀ r₁)).1
  exact key_eq_iff h p₃ hr3 k₁ k₂ hk1 (project_key_valid h env₂ p₂ r₂)

/-! ### Get returns what was put into the row -/

/-- **get_is_row**: the key returned by `Project` gives, for EVERY field index, exactly the value
the projection closures left in the row buffer for this result (missing = ""): nothing is lost or
altered by trimming, hashing, bucket search or node reuse. -/
theorem get_is_row (h : List Bytes → UInt64) (env : Env) (p : Proj) (r : Res) (f : Field) :
    (p.project h env r).1.get (p.project h env r).2 f = getVal (p.populateRow env r).row f.idx := by
  obtain ⟨_, _, _, _, _, _, _, hv⟩ := internRow_spec h (p.populateRow env r)
  unfold Proj.get Proj.project
  rw [hv, getVal_trim]

/-- A single root field projection: the closure of a specific key writes the extractor's value,
so `Get` returns exactly what `newExtractor(key)` extracts. -/
theorem get_is_extracted_single (h : List Bytes → UInt64) (env : Env) (pa pa' : Parser) (sp : Spec) (s : Proj)
    (r : Res) (hp : pa.parse [sp] = (pa', .ok s)) (hk : sp.key ≠ dotConfig) (hf : sp.key ≠ dotFullname) :
    ∃ f, s.flat = [f] ∧ f.name = sp.key ∧
      (s.project h env r).1.get (s.project h env r).2 f =
        (match extract sp.key r.view with | .ok v => v | .error _ => []) := by
  have hk' : (sp.key == dotConfig) = false := by simpa using hk
  have hf' : (sp.key == dotFullname) = false := by simpa using hf
  have hp := parse_ok _ _ _ _ hp
  simp only [parseParts] at hp
  cases hm : makeProjection pa newProjection sp with
  | mk p1 e =>
    rw [hm] at hp
    cases e with
    | error e => simp at hp
    | ok s1 =>
      simp only [Prod.mk.injEq, Except.ok.injEq] at hp
      obtain ⟨_, rfl⟩ := hp
      unfold makeProjection at hm
      simp only [hk', hf', Bool.false_eq_true, if_false] at hm
      split at hm
      · simp at hm
      split at hm
      · simp at hm
      · by_cases he : sp.key.isEmpty = true
        · rw [if_pos he] at hm; simp at hm
        · rw [if_neg he] at hm
          simp only [Prod.mk.injEq, Except.ok.injEq] at hm
          obtain ⟨_, rfl⟩ := hm
          refine ⟨mkField sp.key 0 sp.order, by simp [Proj.flat, Proj.addRootField, newProjection, Top.flat], rfl, ?_⟩
          rw [get_is_row]
          simp [Proj.populateRow, Proj.addRootField, newProjection, runPart, mkField, getVal]
          cases extract sp.key r.view <;> rfl

/-- **get_is_extracted**: in every reachable state, the key returned by `Project` gives for EACH
flattened field of the projection (as it is after the call) exactly the value that field's extractor
extracts from the result:
* a field named by a specific key: `newExtractor(key)(result)`;
* `.fullname`: the name with the parser's excluded keys removed (`newExtractorFullName(exclude)`);
* a sub-field of a `.config` group (named by a file key): the value of the result's (last) File
  entry with that key, "" when there is none;
* `.unit`: "" (`Project` leaves it empty).
Every field falls under exactly one closure: each row index is written by one closure only
(`OInv`: leaf indices are distinct and never group indices; sub-fields of a group get fresh
indices; see Proofs/Lemmas/C08Own.lean, C08Val.lean). For every hash function and parser state. -/
theorem get_is_extracted (h : List Bytes → UInt64) (env : Env) (p : Proj) (r : Res) (hr : Reachable h p) :
    ∀ f ∈ (p.project h env r).1.flat,
      (Part.key f.name f.idx ∈ (p.project h env r).1.parts ∧
        (p.project h env r).1.get (p.project h env r).2 f = extractD f.name r) ∨
      (Part.fullname f.idx ∈ (p.project h env r).1.parts ∧ f.name = dotFullname ∧
        (p.project h env r).1.get (p.project h env r).2 f = fullNameExcluding env.exclude r.name) ∨
      (∃ pos o, Part.config pos o ∈ (p.project h env r).1.parts ∧
        f ∈ groupSubs (p.project h env r).1.top pos ∧
        (p.project h env r).1.get (p.project h env r).2 f = fileValOf f.name r.config []) ∨
      ((p.project h env r).1.unitIdx = some f.idx ∧ f.name = dotUnit ∧
        (p.project h env r).1.get (p.project h env r).2 f = []) := by
  intro f' hf'
  have hi := reachable_inv h p hr
  have ho := reachable_oinv h p hr
  obtain ⟨f1, e1⟩ := populateRow_good env p r hi.f
  obtain ⟨o1, _⟩ := populateRow_own env p r hi.f ho
  obtain ⟨v1, v2, v3⟩ := populateRow_values env p r hi.f ho
  obtain ⟨_, _, hparts, hu, ⟨g, hg, hflat, htop⟩, _, _, _⟩ := internRow_spec h (p.populateRow env r)
  have hget : ∀ f : Field, (p.project h env r).1.get (p.project h env r).2 f =
      getVal (p.populateRow env r).row f.idx := get_is_row h env p r
  change f' ∈ ((p.populateRow env r).internRow h).1.flat at hf'
  rw [hflat] at hf'
  obtain ⟨f, hf, rfl⟩ := List.mem_map.mp hf'
  rw [hget, (hg f).1, (hg f).2.1]
  change _ ∨ _ ∨ (∃ pos o, _ ∈ ((p.populateRow env r).internRow h).1.parts ∧
    _ ∈ groupSubs ((p.populateRow env r).internRow h).1.top pos ∧ _) ∨
    (((p.populateRow env r).internRow h).1.unitIdx = _ ∧ _)
  show (Part.key f.name f.idx ∈ ((p.populateRow env r).internRow h).1.parts ∧ _) ∨
    (Part.fullname f.idx ∈ ((p.populateRow env r).internRow h).1.parts ∧ _) ∨ _ ∨ _
  rw [hparts, hu, htop]
  cases o1.owner f hf with
  | key h1 =>
    refine Or.inl ⟨h1, ?_⟩
    exact v1 _ (by rw [← e1.parts]; exact h1) f.idx rfl
  | fullname h1 h2 =>
    refine Or.inr (Or.inl ⟨h1, h2, ?_⟩)
    exact v1 _ (by rw [← e1.parts]; exact h1) f.idx rfl
  | config pos o h1 h2 =>
    refine Or.inr (Or.inr (Or.inl ⟨pos, o, h1, ?_, ?_⟩))
    · rw [groupSubs_mapFields]; exact List.mem_map_of_mem h2
    · exact v2 pos o (by rw [← e1.parts]; exact h1) f h2
  | unit h1 h2 =>
    refine Or.inr (Or.inr (Or.inr ⟨h1, h2, ?_⟩))
    exact v3 f.idx (by rw [← e1.unitIdx]; exact h1)

/-- The fields of a `.config` group after projecting a result: every File key of the result that
is not a specific key of the parser (as the closure sees it now) has its sub-field, and every
sub-field created by this call is such a key. -/
theorem config_group_fields (h : List Bytes → UInt64) (env : Env) (p : Proj) (r : Res) (hr : Reachable h p)
    (pos : Nat) (o : Order) (hp : Part.config pos o ∈ p.parts) :
    (∀ c ∈ r.config, c.2.2 = true → env.configKeys.contains c.1 = false →
      ∃ f ∈ groupSubs (p.populateRow env r).top pos, f.name = c.1) ∧
    (∀ f ∈ groupSubs (p.populateRow env r).top pos,
      f ∈ groupSubs p.top pos ∨
      (env.configKeys.contains f.name = false ∧ ∃ c ∈ r.config, c.2.2 = true ∧ c.1 = f.name)) :=
  populateRow_group env p r (reachable_inv h p hr).f (reachable_oinv h p hr) pos o hp

/-! ### ProjectValues -/

/-- **project_values_only_unit** (no `.unit` field): all keys are the key `Project` returns. -/
theorem project_values_no_unit (h : List Bytes → UInt64) (env : Env) (p : Proj) (r : Res)
    (hu : (p.populateRow env r).unitIdx = none) :
    (p.projectValues h env r).2 = r.units.map (fun _ => (p.project h env r).2) ∧
    (p.projectValues h env r).1 = (p.project h env r).1 := by
  unfold Proj.projectValues Proj.project
  simp [hu]

/-- **project_values_only_unit** (one step of the `.unit` loop): the key made for a measurement
has the measurement's unit in the `.unit` field and, in every other field, the value `Project`
would give (the populated row). -/
theorem project_values_only_unit (h : List Bytes → UInt64) (p : Proj) (ui : Nat) (u : Bytes)
    (hui : ui < p.row.length) (f : Field) :
    let q := ({ p with row := p.row.set ui u }.internRow h)
    q.1.get q.2 f = if f.idx = ui then u else getVal p.row f.idx := by
  intro q
  obtain ⟨_, _, _, _, _, _, _, hv⟩ := internRow_spec h { p with row := p.row.set ui u }
  show getVal (q.1.vals q.2) f.idx = _
  rw [hv, getVal_trim]
  unfold getVal
  by_cases hf : f.idx = ui
  · simp [hf, hui, List.getD_eq_getElem?_getD, List.getElem?_set]
  · have : ¬ ui = f.idx := fun e => hf e.symm
    simp [hf, this, List.getD_eq_getElem?_getD, List.getElem?_set]

theorem projectUnits_slice (h : List Bytes → UInt64) (ui : Nat) (us : List Bytes) (p : Proj)
    (hui : ui < p.row.length) :
    (projectUnits h ui p us).2.length = us.length ∧
    ∀ j, j < us.length → ∀ f : Field,
      (projectUnits h ui p us).2.getD j 0 < (projectUnits h ui p us).1.nodes.length ∧
      (projectUnits h ui p us).1.get ((projectUnits h ui p us).2.getD j 0) f =
        if f.idx = ui then us.getD j [] else getVal p.row f.idx := by
  induction us generalizing p with
  | nil => exact ⟨rfl, fun j hj => absurd hj (by simp)⟩
  | cons u rest ih =>
    simp only [projectUnits]
    obtain ⟨hrow, _, _, _, _, _, hk, _⟩ := internRow_spec h { p with row := p.row.set ui u }
    have hui1 : ui < ({ p with row := p.row.set ui u }.internRow h).1.row.length := by
      rw [hrow]; simpa using hui
    obtain ⟨ih1, ih2⟩ := ih ({ p with row := p.row.set ui u }.internRow h).1 hui1
    refine ⟨by simp [ih1], ?_⟩
    intro j hj f
    cases j with
    | zero =>
      obtain ⟨extra, hext⟩ := projectUnits_nodes h ui rest ({ p with row := p.row.set ui u }.internRow h).1
      have hk' : ({ p with row := p.row.set ui u }.internRow h).2 <
          (projectUnits h ui ({ p with row := p.row.set ui u }.internRow h).1 rest).1.nodes.length := by
        rw [hext]; simp; omega
      refine ⟨by simpa using hk', ?_⟩
      have hstable : (projectUnits h ui ({ p with row := p.row.set ui u }.internRow h).1 rest).1.vals
          ({ p with row := p.row.set ui u }.internRow h).2 =
          ({ p with row := p.row.set ui u }.internRow h).1.vals ({ p with row := p.row.set ui u }.internRow h).2 := by
        rw [vals_eq_getElem _ _ hk', vals_eq_getElem _ _ hk]
        simp [hext, List.getElem_append_left hk]
      have hone := project_values_only_unit h p ui u hui f
      simp only [List.getD_cons_zero]
      unfold Proj.get at hone ⊢
      rw [hstable]
      exact hone
    | succ j' =>
      have hj' : j' < rest.length := by simpa using hj
      obtain ⟨a, b⟩ := ih2 j' hj' f
      simp only [List.getD_cons_succ]
      refine ⟨a, ?_⟩
      rw [b, hrow]
      by_cases hf : f.idx = ui
      · simp [hf]
      · simp only [hf, if_false]
        exact getVal_set_ne _ _ _ _ (fun e => hf e.symm)

/-- **project_values_slice**: for a projection with a `.unit` field, `ProjectValues` returns one
key per measurement, in order; the j-th key has the j-th measurement's unit in the `.unit` field
and in every other field exactly the value `Project` gives for the result (the populated row; see
`get_is_extracted`). -/
theorem project_values_slice (h : List Bytes → UInt64) (env : Env) (p : Proj) (r : Res)
    (hr : Reachable h p) (ui : Nat) (hu : p.unitIdx = some ui) :
    (p.projectValues h env r).2.length = r.units.length ∧
    ∀ j, j < r.units.length → ∀ f : Field,
      (p.projectValues h env r).2.getD j 0 < (p.projectValues h env r).1.nodes.length ∧
      (p.projectValues h env r).1.get ((p.projectValues h env r).2.getD j 0) f =
        if f.idx = ui then r.units.getD j [] else getVal (p.populateRow env r).row f.idx := by
  have hi := reachable_inv h p hr
  have ho := reachable_oinv h p hr
  obtain ⟨f1, e1⟩ := populateRow_good env p r hi.f
  have hu1 : (p.populateRow env r).unitIdx = some ui := by rw [e1.unitIdx]; exact hu
  have hlt : ui < (p.populateRow env r).row.length := by
    rw [f1.rowLen]
    exact Nat.lt_of_lt_of_le (ho.unitOK ui hu).1 e1.nFields
  unfold Proj.projectValues
  simp only [hu1]
  exact projectUnits_slice h ui r.units (p.populateRow env r) hlt

/-- The keys of one result's measurements differ exactly where the units differ. -/
theorem project_values_keys_eq_iff (h : List Bytes → UInt64) (env : Env) (p : Proj) (r : Res)
    (hr : Reachable h p) (ui : Nat) (hu : p.unitIdx = some ui) (i j : Nat)
    (hi' : i < r.units.length) (hj : j < r.units.length) :
    (p.projectValues h env r).2.getD i 0 = (p.projectValues h env r).2.getD j 0 ↔
      r.units.getD i [] = r.units.getD j [] := by
  obtain ⟨_, hs⟩ := project_values_slice h env p r hr ui hu
  have hrq : Reachable h (p.projectValues h env r).1 := Reachable.projectValues p env r hr
  have hiq := reachable_inv h _ hrq
  have hoq := reachable_oinv h _ hrq
  rw [key_eq_iff h _ hrq _ _ (hs i hi' default).1 (hs j hj default).1]
  constructor
  · intro hall
    -- the `.unit` field is a flattened field
    have huq : (p.projectValues h env r).1.unitIdx = some ui := by
      have hi0 := reachable_inv h p hr
      obtain ⟨_, e1⟩ := populateRow_good env p r hi0.f
      unfold Proj.projectValues
      simp only [e1.unitIdx ▸ hu]
      have : ∀ (us : List Bytes) (q : Proj), (projectUnits h ui q us).1.unitIdx = q.unitIdx := by
        intro us
        induction us with
        | nil => intro q; rfl
        | cons u rest ih =>
          intro q
          simp only [projectUnits]
          rw [ih]
          obtain ⟨_, _, _, hq, _⟩ := internRow_spec h { q with row := q.row.set ui u }
          exact hq
      rw [this, e1.unitIdx, hu]
    obtain ⟨f, hf, hfi⟩ := hiq.f.cover ui (hoq.unitOK ui huq).1
    have := hall f hf
    rw [(hs i hi' f).2, (hs j hj f).2] at this
    simpa [hfi] using this
  · intro he f _
    rw [(hs i hi' f).2, (hs j hj f).2, he]

/-! ### NonSingularFields -/

/-- **nonsingular_spec**: `NonSingularFields(keys)` consists of exactly the flattened fields on
which two of the keys differ (for two keys: the fields on which they differ)… -/
theorem nonsingular_spec (p : Proj) (keys : List Nat) (f : Field) :
    f ∈ p.nonSingular keys ↔ f ∈ p.flat ∧ ∃ a ∈ keys, ∃ b ∈ keys, p.get a f ≠ p.get b f := by
  unfold Proj.nonSingular
  match keys with
  | [] => simp
  | [k] => simp
  | k0 :: k1 :: rest =>
    simp only [List.mem_filter, List.any_eq_true, bne_iff_ne, ne_eq]
    constructor
    · rintro ⟨hf, k, hk, hne⟩
      exact ⟨hf, k, List.mem_cons_of_mem _ hk, k0, List.mem_cons_self, hne⟩
    · rintro ⟨hf, a, ha, b, hb, hne⟩
      refine ⟨hf, ?_⟩
      apply Classical.byContradiction
      intro hno
      have hall : ∀ k ∈ k0 :: k1 :: rest, p.get k f = p.get k0 f := by
        intro k hk
        rcases List.mem_cons.mp hk with rfl | hk
        · rfl
        · apply Classical.byContradiction
          intro hne'
          exact hno ⟨k, hk, hne'⟩
      exact hne ((hall a ha).trans (hall b hb).symm)

/-- …listed in flattened-field order, each once. -/
theorem nonsingular_order (p : Proj) (keys : List Nat) : (p.nonSingular keys).Sublist p.flat := by
  unfold Proj.nonSingular
  match keys with
  | [] => simp
  | [k] => simp
  | k0 :: k1 :: rest => exact List.filter_sublist

/-! ### Exclusion does not depend on the order of the Parse calls -/

/-- `fullExcluded` is invariant under permutation of the exclusion list. -/
theorem fullExcluded_perm_invariant (ex ex' : List Bytes) (hp : ex.Perm ex') (name : Bytes) :
    fullNameExcluding ex name = fullNameExcluding ex' name :=
  fullNameExcluding_perm ex ex' hp name

/-- **exclusion_env_congruence**: projecting a result gives the same projection state (group
fields, rows, nodes, order maps) and the same key under any two parser states that have the same
SET of specific config keys and the same MULTISET of specific name keys. For every hash function. -/
theorem exclusion_env_congruence (h : List Bytes → UInt64) (e e' : Env) (he : EnvEq e e')
    (p : Proj) (r : Res) :
    p.project h e r = p.project h e' r ∧ p.projectValues h e r = p.projectValues h e' r := by
  unfold Proj.project Proj.projectValues
  rw [populateRow_congr e e' he p r]
  exact ⟨rfl, rfl⟩

example : EnvEq { configKeys := [[97], [98]], exclude := [[47, 120], [47, 121]] }
    { configKeys := [[98], [97], [98]], exclude := [[47, 121], [47, 120]] } := by
  refine ⟨fun k => ?_, List.Perm.swap _ _ _⟩
  simp only [List.contains_iff_mem, List.mem_cons, List.not_mem_nil, or_false]
  by_cases h1 : k = [97] <;> by_cases h2 : k = [98] <;> simp [h1, h2]

/-- **rejected_parse_inert**: a `Parse` or `ParseWithUnit` call whose expression has a rejected part
(`k@fixed` without a list, a fixed order on `.config`, the key `.unit`, an empty key — wherever in
the expression) yields no projection and leaves the parser state exactly as it was: no key stays
excluded, no group counts as projected (repaired by /repo 91c9aa7; before, the side effects of the
parts walked so far persisted). -/
theorem rejected_parse_inert (pa : Parser) (e : Bool × List Spec) (h : e.2.any isErr = true) :
    (parseExpr pa e).1 = pa ∧ ∃ err, (parseExpr pa e).2 = .error err := by
  obtain ⟨h1, err, h2⟩ := parse_rejected pa e.2 h
  unfold parseExpr
  cases e.1
  · simp only [Bool.false_eq_true, if_false]; exact ⟨h1, err, h2⟩
  · simp only [if_true, Parser.parseWithUnit]
    cases hh : pa.parse e.2 with
    | mk p1 r1 =>
      rw [hh] at h1 h2
      simp only at h1 h2
      subst h1; subst h2
      exact ⟨rfl, err, rfl⟩

/-- …hence rejected calls can be dropped from any sequence of calls. -/
theorem parserAfter_drop_rejected (pa : Parser) (es : List (Bool × List Spec)) :
    parserAfter pa es = parserAfter pa (es.filter fun e => !e.2.any isErr) := by
  rw [parserAfter_eq, parserAfter_eq]
  congr 1
  induction es with
  | nil => rfl
  | cons e rest ih =>
    have hnil : e.2.any isErr = true → effSpecs e.2 = [] := fun h => by simp [effSpecs, h]
    cases he : e.2.any isErr with
    | true =>
      rw [List.flatMap_cons, hnil he, List.nil_append, ih, List.filter_cons]
      simp [he]
    | false =>
      rw [List.flatMap_cons, List.filter_cons]
      simp only [he, Bool.not_false, if_true, List.flatMap_cons]
      rw [ih]

/-- **exclusion_order_independent**: take any parser (that has not projected yet) and any two
orders `es`, `es'` of the same `Parse`/`ParseWithUnit` calls (rejected calls included: they are
inert, `rejected_parse_inert`). Then
(a) every expression yields the same projection wherever in the sequence it is parsed;
(b) `Residue` yields the same projection after either order;
(c) every projection behaves identically after either order, on every stream of `Project` /
    `ProjectValues` calls: same final state (group fields, nodes, order maps) and same keys;
(d) what is excluded is exactly the specific keys of all expressions: a key is in `configKeys`
    iff some part of an ACCEPTED expression names it as a config key (`config_group_fields`: such keys never become
    `.config` sub-fields), and `fullnameKeys` is, up to order, the list of all name keys named
    (`fullExcluded_perm_invariant`: the order does not matter for `.fullname`).
For every hash function. -/
theorem exclusion_order_independent (h : List Bytes → UInt64) (pa : Parser) (hfresh : pa.fullExt = none)
    (es es' : List (Bool × List Spec)) (hp : es.Perm es') :
    (∀ e pa₁ pa₂, (parseExpr pa₁ e).2 = (parseExpr pa₂ e).2) ∧
    ((parserAfter pa es).residue).2 = ((parserAfter pa es').residue).2 ∧
    (∀ p ops, runOps h (envOf (parserAfter pa es)) p ops = runOps h (envOf (parserAfter pa es')) p ops) ∧
    (∀ k, k ∈ (parserAfter pa es).configKeys ↔
      k ∈ pa.configKeys ∨ ∃ sp ∈ es.flatMap (fun e => effSpecs e.2), cfgKeyOf sp = some k) ∧
    (parserAfter pa es).fullnameKeys =
      pa.fullnameKeys ++ (es.flatMap fun e => effSpecs e.2).flatMap nameKeyOf := by
  obtain ⟨henv, hc, hf⟩ := parserAfter_perm pa hfresh es es' hp
  obtain ⟨o1, o2, _, _, _⟩ := parserAfter_obs pa es
  exact ⟨fun e pa₁ pa₂ => parseExpr_proj pa₁ pa₂ e, residue_proj_congr _ _ hc hf,
    fun p ops => runOps_congr h _ _ henv ops p, o1, o2⟩

example : (parserAfter Parser.new [(false, [{ key := [97], order := .first }, { key := [47, 120], order := .alpha }]),
    (true, [{ key := [46, 99, 111, 110, 102, 105, 103], order := .first }])]).configKeys = [[97]] := by
  decide +kernel

/-! ### Projections plus residue lose nothing -/

/-- **lossless** (general form). Let `ps` be projections that are only used under one parser state
`env` (all projecting after all parsing), among them one with `.config` and one with `.fullname`
(the residue supplies whichever group no expression named). Two results get the same key in
EVERY one of them iff
* every individually projected key extracts the same value from both (name keys, file keys, and
  internal keys such as `.file` alike),
* their file configurations agree on every key that is not individually projected (as maps,
  missing = ""), and
* their names agree once the individually projected name keys are removed.
Hypotheses the proof forces: (1) one fixed `env` for all projections and all calls (`ReachableE`) —
with parsing interleaved between projections a `.config` group may hold a key that was excluded
later, and the statement fails (see `lossless_interleaved_counterexample`); (2) coverage (`hC`,
`hF`). No hypothesis on the names is needed for THIS statement, because "the value of a
sub-name key" is what the extractor returns (first `/k=` part); that this is the whole of the
information under the key needs distinct sub-name keys (`lossless_needs_distinct_subnames`). -/
theorem lossless (h : List Bytes → UInt64) (env : Env) (ps : List Proj)
    (hps : ∀ p ∈ ps, ReachableE h env p)
    (hC : ∃ p ∈ ps, ∃ pos o, Part.config pos o ∈ p.parts)
    (hF : ∃ p ∈ ps, ∃ i, Part.fullname i ∈ p.parts) (r r' : Res) :
    (∀ p ∈ ps, agree h env p r r') ↔
      (∀ p ∈ ps, ∀ k i, Part.key k i ∈ p.parts → extractD k r = extractD k r') ∧
      (∀ c, env.configKeys.contains c = false → fileValOf c r.config [] = fileValOf c r'.config []) ∧
      fullNameExcluding env.exclude r.name = fullNameExcluding env.exclude r'.name := by
  have hiff : ∀ p ∈ ps, _ := fun p hp =>
    agree_iff h env p r r' (reachable_inv h p (reachableE_reachable h env p (hps p hp)))
      (reachable_oinv h p (reachableE_reachable h env p (hps p hp))) (reachableE_noExcl h env p (hps p hp))
  constructor
  · intro hall
    refine ⟨fun p hp k i hk => ((hiff p hp).mp (hall p hp)).1 k i hk, ?_, ?_⟩
    · obtain ⟨p, hp, pos, o, hk⟩ := hC
      exact ((hiff p hp).mp (hall p hp)).2.2 pos o hk
    · obtain ⟨p, hp, i, hk⟩ := hF
      exact ((hiff p hp).mp (hall p hp)).2.1 i hk
  · rintro ⟨h1, h2, h3⟩ p hp
    exact (hiff p hp).mpr ⟨h1 p hp, fun _ _ => h3, fun _ _ _ c hc => h2 c hc⟩

/-- The projections of a parser in their initial state: one per accepted expression, plus the
residue taken after all of them. -/
def origins (es : List (Bool × List Spec)) : List Proj :=
  (es.filterMap fun e => match (parseExpr Parser.new e).2 with
    | .ok s => some s
    | .error _ => none) ++ [((parserAfter Parser.new es).residue).2]

/-- **lossless** for the projections of ONE parser plus its residue: expressions `es` parsed by a
new parser (every one accepted), the residue taken afterwards, then any streams of results
projected on them (`cur o` is the present state of the projection that started as `o`). Two results
`r`, `r'` agree on all of them iff
* every specific key named in any expression extracts the same value,
* their file configurations agree outside the parser's specific config keys, and
* their names agree with the parser's specific name keys removed. -/
theorem lossless_parser (h : List Bytes → UInt64) (es : List (Bool × List Spec))
    (hok : ∀ e ∈ es, ∃ pa' s, parseExpr Parser.new e = (pa', .ok s))
    (cur : Proj → Proj)
    (hcur : ∀ o ∈ origins es, Descends h (envOf (parserAfter Parser.new es)) o (cur o)) (r r' : Res) :
    (∀ o ∈ origins es, agree h (envOf (parserAfter Parser.new es)) (cur o) r r') ↔
      (∀ e ∈ es, ∀ sp ∈ e.2, isSpecific sp = true → extractD sp.key r = extractD sp.key r') ∧
      (∀ c, c ∉ (parserAfter Parser.new es).configKeys →
        fileValOf c r.config [] = fileValOf c r'.config []) ∧
      fullNameExcluding (parserAfter Parser.new es).fullnameKeys r.name =
        fullNameExcluding (parserAfter Parser.new es).fullnameKeys r'.name := by
  -- the parser after all expressions
  obtain ⟨_, _, o3, o4, o5⟩ := parserAfter_obs Parser.new es
  have hexcl : (envOf (parserAfter Parser.new es)).exclude = (parserAfter Parser.new es).fullnameKeys := by
    show (parserAfter Parser.new es).fullExt.getD _ = _
    rw [o5]; rfl
  -- origins are reachable, their descendants keep the closures
  have horig : ∀ o ∈ origins es, ReachableE h (envOf (parserAfter Parser.new es)) o := by
    intro o ho
    simp only [origins, List.mem_append, List.mem_filterMap, List.mem_singleton] at ho
    rcases ho with ⟨e, _, he⟩ | rfl
    · cases hh : parseExpr Parser.new e with
      | mk p1 r1 =>
        rw [hh] at he
        cases r1 with
        | error err => simp at he
        | ok s =>
          simp only [Option.some.injEq] at he
          subst he
          unfold parseExpr at hh
          cases hb : e.1 with
          | false => rw [hb] at hh; exact ReachableE.parsed _ _ _ _ hh
          | true => rw [hb] at hh; exact ReachableE.parsedWithUnit _ _ _ _ hh
    · exact ReachableE.residue _
  have hdesc : ∀ o ∈ origins es, (cur o).parts = o.parts ∧
      ReachableE h (envOf (parserAfter Parser.new es)) (cur o) :=
    fun o ho => descends_parts h _ o (cur o) (hcur o ho) (horig o ho)
  -- each accepted expression's projection is an origin
  have hmem : ∀ e ∈ es, ∀ pa' s, parseExpr Parser.new e = (pa', .ok s) → s ∈ origins es := by
    intro e he pa' s hs
    simp only [origins, List.mem_append, List.mem_filterMap]
    exact Or.inl ⟨e, he, by rw [hs]⟩
  have hres : ((parserAfter Parser.new es).residue).2 ∈ origins es := by simp [origins]
  -- a part that sets a flag makes the closure exist
  have hflag : ∀ (fl : Spec → Bool), (∀ sp x, fl sp = true → NewPart sp x → fl sp = true) →
      ((es.flatMap fun e => effSpecs e.2).any fl = true) →
      ∃ e ∈ es, ∃ sp ∈ e.2, fl sp = true := by
    intro fl _ hany
    obtain ⟨sp, hsp, hfl⟩ := List.any_eq_true.mp hany
    obtain ⟨e, he, hspe⟩ := List.mem_flatMap.mp hsp
    obtain ⟨pa', s, hs⟩ := hok e he
    rw [(parseExpr_parts _ _ e s hs).2.2] at hspe
    exact ⟨e, he, sp, hspe, hfl⟩
  have hps : ∀ p ∈ (origins es).map cur, ReachableE h (envOf (parserAfter Parser.new es)) p := by
    intro p hp
    obtain ⟨o, ho, rfl⟩ := List.mem_map.mp hp
    exact (hdesc o ho).2
  have hC : ∃ p ∈ (origins es).map cur, ∃ pos o, Part.config pos o ∈ p.parts := by
    cases hc : (parserAfter Parser.new es).haveConfig with
    | false =>
      obtain ⟨pos, o, hk⟩ := (residue_parts (parserAfter Parser.new es)).1 hc
      exact ⟨cur _, List.mem_map_of_mem hres, pos, o, by rw [(hdesc _ hres).1]; exact hk⟩
    | true =>
      rw [o3] at hc
      simp only [Parser.new, Bool.false_or] at hc
      obtain ⟨e, he, sp, hsp, hfl⟩ := hflag hcOf (fun _ _ a _ => a) hc
      obtain ⟨pa', s, hs⟩ := hok e he
      obtain ⟨x, hx, hnp⟩ := (parseExpr_parts _ _ e s hs).2.1 sp hsp
      rcases hnp with ⟨_, pos, rfl⟩ | ⟨hh, _⟩ | ⟨hh, _⟩
      · exact ⟨cur s, List.mem_map_of_mem (hmem e he pa' s hs), pos, sp.order,
          by rw [(hdesc s (hmem e he pa' s hs)).1]; exact hx⟩
      · simp only [hcOf, hfOf, Bool.and_eq_true, Bool.not_eq_true'] at hfl hh
        rw [hfl.1.2] at hh; simp at hh
      · simp only [hcOf, isSpecific, Bool.and_eq_true, bne_iff_ne] at hfl hh
        exact absurd (by simpa using hfl.1.2) hh.1.2
  have hF : ∃ p ∈ (origins es).map cur, ∃ i, Part.fullname i ∈ p.parts := by
    cases hc : (parserAfter Parser.new es).haveFullname with
    | false =>
      obtain ⟨i, hk⟩ := (residue_parts (parserAfter Parser.new es)).2.1 hc
      exact ⟨cur _, List.mem_map_of_mem hres, i, by rw [(hdesc _ hres).1]; exact hk⟩
    | true =>
      rw [o4] at hc
      simp only [Parser.new, Bool.false_or] at hc
      obtain ⟨e, he, sp, hsp, hfl⟩ := hflag hfOf (fun _ _ a _ => a) hc
      obtain ⟨pa', s, hs⟩ := hok e he
      obtain ⟨x, hx, hnp⟩ := (parseExpr_parts _ _ e s hs).2.1 sp hsp
      rcases hnp with ⟨hh, _⟩ | ⟨_, i, rfl⟩ | ⟨hh, _⟩
      · simp only [hcOf, hfOf, Bool.and_eq_true, Bool.not_eq_true'] at hfl hh
        rw [hh.1.2] at hfl; simp at hfl
      · exact ⟨cur s, List.mem_map_of_mem (hmem e he pa' s hs), i,
          by rw [(hdesc s (hmem e he pa' s hs)).1]; exact hx⟩
      · simp only [hfOf, isSpecific, Bool.and_eq_true, bne_iff_ne] at hfl hh
        exact absurd (by simpa using hfl.2) hh.2
  have L := lossless h _ ((origins es).map cur) hps hC hF r r'
  rw [hexcl] at L
  constructor
  · intro hall
    obtain ⟨h1, h2, h3⟩ := L.mp (fun p hp => by
      obtain ⟨o, ho, rfl⟩ := List.mem_map.mp hp
      exact hall o ho)
    refine ⟨?_, ?_, h3⟩
    · intro e he sp hsp hspec
      obtain ⟨pa', s, hs⟩ := hok e he
      obtain ⟨x, hx, hnp⟩ := (parseExpr_parts _ _ e s hs).2.1 sp hsp
      have hso := hmem e he pa' s hs
      rcases hnp with ⟨hh, _⟩ | ⟨hh, _⟩ | ⟨_, i, rfl⟩
      · simp only [hcOf, isSpecific, Bool.and_eq_true, bne_iff_ne] at hh hspec
        exact absurd (by simpa using hh.1.2) hspec.1.2
      · simp only [hfOf, isSpecific, Bool.and_eq_true, bne_iff_ne] at hh hspec
        exact absurd (by simpa using hh.2) hspec.2
      · exact h1 (cur s) (List.mem_map_of_mem hso) sp.key i (by rw [(hdesc s hso).1]; exact hx)
    · intro c hc
      exact h2 c (by simpa [envOf] using hc)
  · rintro ⟨h1, h2, h3⟩ o ho
    refine L.mpr ⟨?_, ?_, h3⟩ (cur o) (List.mem_map_of_mem ho)
    · intro p hp k i hk
      obtain ⟨o, ho, rfl⟩ := List.mem_map.mp hp
      rw [(hdesc o ho).1] at hk
      simp only [origins, List.mem_append, List.mem_filterMap, List.mem_singleton] at ho
      rcases ho with ⟨e, he, hes⟩ | rfl
      · cases hh : parseExpr Parser.new e with
        | mk p1 r1 =>
          rw [hh] at hes
          cases r1 with
          | error err => simp at hes
          | ok s =>
            simp only [Option.some.injEq] at hes
            subst hes
            obtain ⟨sp, hsp, hnp⟩ := (parseExpr_parts _ _ e s hh).1 _ hk
            rcases hnp with ⟨_, _, hx⟩ | ⟨_, _, hx⟩ | ⟨hspec, j, hx⟩
            · simp at hx
            · simp at hx
            · simp only [Part.key.injEq] at hx
              rw [hx.1]
              exact h1 e he sp hsp hspec
      · exact absurd hk ((residue_parts _).2.2 k i)
    · intro c hc
      exact h2 c (by simpa [envOf] using hc)

/-- **lossless**, property-text form: if moreover no individually projected config key occurs as
an INTERNAL (non-file) entry in either result — then "every individually projected config key
extracts the same value" + "file configurations agree elsewhere" is simply "same file
configuration". (With an internal key such as `.file` projected individually the general form
`lossless` is the precise statement.) -/
theorem lossless_file_config (h : List Bytes → UInt64) (env : Env) (ps : List Proj)
    (hps : ∀ p ∈ ps, ReachableE h env p)
    (hC : ∃ p ∈ ps, ∃ pos o, Part.config pos o ∈ p.parts)
    (hF : ∃ p ∈ ps, ∃ i, Part.fullname i ∈ p.parts) (r r' : Res)
    (hkeys : ∀ c, env.configKeys.contains c = true → ∃ p ∈ ps, ∃ i, Part.key c i ∈ p.parts)
    (hfile : ∀ c, env.configKeys.contains c = true →
      extractD c r = fileValOf c r.config [] ∧ extractD c r' = fileValOf c r'.config []) :
    (∀ p ∈ ps, agree h env p r r') ↔
      (∀ p ∈ ps, ∀ k i, Part.key k i ∈ p.parts → extractD k r = extractD k r') ∧
      (∀ c, fileValOf c r.config [] = fileValOf c r'.config []) ∧
      fullNameExcluding env.exclude r.name = fullNameExcluding env.exclude r'.name := by
  rw [lossless h env ps hps hC hF r r']
  constructor
  · rintro ⟨h1, h2, h3⟩
    refine ⟨h1, fun c => ?_, h3⟩
    cases hc : env.configKeys.contains c with
    | false => exact h2 c hc
    | true =>
      obtain ⟨p, hp, i, hk⟩ := hkeys c hc
      rw [← (hfile c hc).1, ← (hfile c hc).2]
      exact h1 p hp c i hk
  · rintro ⟨h1, h2, h3⟩
    exact ⟨h1, fun c _ => h2 c, h3⟩

/-- Excluded shape 1 (the property's side condition): with a repeated sub-name key the extractor
sees only the first occurrence and the remaining name drops all of them, so two names that differ
only in a later occurrence agree on `/a` and on the residue: "same value for the key" is then
not all the information under the key. `B/a=1/a=2` vs `B/a=1/a=3`. -/
theorem lossless_needs_distinct_subnames :
    let n₁ : Bytes := [66, 47, 97, 61, 49, 47, 97, 61, 50]
    let n₂ : Bytes := [66, 47, 97, 61, 49, 47, 97, 61, 51]
    let k : Bytes := [47, 97]
    extractD k { name := n₁, config := [], units := [] } = extractD k { name := n₂, config := [], units := [] } ∧
    fullNameExcluding [k] n₁ = fullNameExcluding [k] n₂ ∧ n₁ ≠ n₂ := by
  decide +kernel

/-- The scenario of excluded shape 2: `Parse(".config")`, project a result with file key `a`,
THEN `Parse("a")` and `Residue`. -/
def interleavedWitness : Bool :=
  let hsh : List Bytes → UInt64 := fun _ => 0
  let cfg : Bytes := [46, 99, 111, 110, 102, 105, 103]
  let r : Res := { name := [88], config := [([97], [49], true)], units := [] }
  let r' : Res := { name := [88], config := [([97], [49], false)], units := [] }
  let s1 := Parser.new.parse [{ key := cfg, order := .first }]
  match s1.2 with
  | .error _ => false
  | .ok p1 =>
    let p1a := (p1.project hsh (envOf s1.1) r).1
    let s2 := s1.1.parse [{ key := [97], order := .first }]
    let env := envOf (s2.1.residue).1
    -- the right-hand side of `lossless` holds …
    (extractD [97] r == extractD [97] r') && (env.configKeys == [[97]]) &&
      (fullNameExcluding env.exclude r.name == fullNameExcluding env.exclude r'.name) &&
      -- … but the two results get different keys from the first projection
      ((p1a.project hsh env r).2 != ((p1a.project hsh env r).1.project hsh env r').2)

/-- Excluded shape 2: when parsing is interleaved with projecting, a `.config` group may hold a key
that is excluded later; then the right-hand side of `lossless` can hold (file key `a` vs internal
key `a` with the same value) while the keys differ. `ReachableE` (one parser state for all
projecting) rules this out. -/
theorem lossless_interleaved_counterexample : interleavedWitness = true := by decide +kernel

/-! ### The same in the vocabulary of the name specification (Model/Spec/Name.lean, property C05) -/

/-- The specified value of a specific key in a result: base name, GOMAXPROCS, the text after
`/k=` in the first part with that prefix, or the configured value. -/
def specKeyVal (k : Bytes) (r : Res) : Bytes :=
  if k = dotName then (Spec.Name.decomp r.name).1
  else if k = gomaxprocsKey then Spec.Name.gomaxprocs (Spec.Name.decomp r.name).2
  else if k.head? = some Fmt.Name.slash then Spec.Name.subname k (Spec.Name.decomp r.name).2
  else match r.config.find? (·.1 == k) with
    | some c => c.2.1
    | none => []

theorem extractD_spec (sp : Spec) (r : Res) (hs : isSpecific sp = true) :
    extractD sp.key r = specKeyVal sp.key r := by
  unfold isSpecific isErr at hs
  simp only [Bool.and_eq_true, Bool.not_eq_true', Bool.or_eq_false_iff, bne_iff_ne, ne_eq,
    Bool.and_eq_false_imp] at hs
  obtain ⟨⟨⟨⟨_, _⟩, h3⟩, hc⟩, hf⟩ := hs
  have h3' := h3 ⟨hc, hf⟩
  simp only [beq_eq_false_iff_ne, ne_eq] at h3'
  obtain ⟨hu, hem⟩ := h3'
  have hne : sp.key ≠ [] := by
    intro e; rw [e] at hem; simp at hem
  unfold extractD specKeyVal
  by_cases h1 : sp.key = dotName
  · rw [h1, C05.name_key, C05.parts_eq_spec]; simp [Res.view]
  · by_cases h2 : sp.key = gomaxprocsKey
    · rw [h2, C05.gomaxprocs_key, C05.parts_eq_spec]
      have : gomaxprocsKey ≠ dotName := by decide
      simp [this, Res.view]
    · by_cases h4 : sp.key.head? = some Fmt.Name.slash
      · cases hk : sp.key with
        | nil => exact absurd hk hne
        | cons c t =>
          rw [hk] at h4 h2 h1
          simp only [List.head?_cons, Option.some.injEq] at h4
          subst h4
          rw [C05.subname_key t r.view h2, C05.parts_eq_spec]
          simp [h1, h2, Res.view]
      · rw [C05.config_key sp.key r.view hne h4 hc hu h1 hf]
        simp only [h1, h2, h4, if_false, Res.view, List.find?_map]
        cases hfind : r.config.find? ((fun x => x.1 == sp.key) ∘ fun c => (c.1, c.2.1)) with
        | none =>
          have : r.config.find? (fun x => x.1 == sp.key) = none := by simpa [Function.comp_def] using hfind
          simp [this]
        | some c =>
          have : r.config.find? (fun x => x.1 == sp.key) = some c := by simpa [Function.comp_def] using hfind
          simp [this]

/-- **lossless** in specification terms (one parser, its accepted expressions, the residue, any
streams): two results agree on all keys iff they have the same specified value for every specific
key named, the same file configuration outside the specific config keys, and the same remaining
name (`Spec.Name.fullNameExcluding`: base replaced by `*` if `.name` is individually projected, every
part `/k=…` of an individually projected `/k` deleted, the `-N` part deleted with `/gomaxprocs`). -/
theorem lossless_spec (h : List Bytes → UInt64) (es : List (Bool × List Spec))
    (hok : ∀ e ∈ es, ∃ pa' s, parseExpr Parser.new e = (pa', .ok s))
    (cur : Proj → Proj)
    (hcur : ∀ o ∈ origins es, Descends h (envOf (parserAfter Parser.new es)) o (cur o)) (r r' : Res) :
    (∀ o ∈ origins es, agree h (envOf (parserAfter Parser.new es)) (cur o) r r') ↔
      (∀ e ∈ es, ∀ sp ∈ e.2, isSpecific sp = true → specKeyVal sp.key r = specKeyVal sp.key r') ∧
      (∀ c, c ∉ (parserAfter Parser.new es).configKeys →
        fileValOf c r.config [] = fileValOf c r'.config []) ∧
      Spec.Name.fullNameExcluding (parserAfter Parser.new es).fullnameKeys
          (Spec.Name.decomp r.name).1 (Spec.Name.decomp r.name).2 =
        Spec.Name.fullNameExcluding (parserAfter Parser.new es).fullnameKeys
          (Spec.Name.decomp r'.name).1 (Spec.Name.decomp r'.name).2 := by
  rw [lossless_parser h es hok cur hcur r r', C05.fullname_excluding_spec, C05.fullname_excluding_spec,
    C05.parts_eq_spec, C05.parts_eq_spec]
  constructor
  · rintro ⟨h1, h2, h3⟩
    exact ⟨fun e he sp hsp hs => by rw [← extractD_spec sp r hs, ← extractD_spec sp r' hs]; exact h1 e he sp hsp hs,
      h2, h3⟩
  · rintro ⟨h1, h2, h3⟩
    exact ⟨fun e he sp hsp hs => by rw [extractD_spec sp r hs, extractD_spec sp r' hs]; exact h1 e he sp hsp hs,
      h2, h3⟩

end C08
