/-
C08 — Keys identify projected tuples; projections plus residue lose nothing.
Property theorems only; helper lemmas are in Proofs/Lemmas/C08*.lean.

Model: Model/Proc/Projection.lean. Every theorem is quantified over the hash function `h`
(collisions included), over every parser state the closures may see (`env`, at every call) and
over every sequence of Project / ProjectValues calls (`Reachable`, `Later`).
-/
import Proofs.Lemmas.C08Inv
import Proofs.Lemmas.C08Excl

namespace C08
open Proc.Sort Proc.Projection Proc.Extract

theorem vals_eq_getElem (p : Proj) (k : Nat) (hk : k < p.nodes.length) : p.vals k = p.nodes[k].vals := by
  simp [Proj.vals, List.getElem?_eq_getElem hk]

/-- **intern_inv**: in every reachable state no two key nodes hold equal rows, every node's row
is trimmed (no trailing empty value), and every node is filed under the hash of its row. -/
theorem intern_inv (h : List Bytes → UInt64) (p : Proj) (hr : Reachable h p) :
    (∀ i j, i < p.nodes.length → j < p.nodes.length → p.vals i = p.vals j → i = j) ∧
    (∀ k, trim (p.vals k) = p.vals k) ∧
    (∀ n ∈ p.nodes, n.hash = h n.vals) := by
  have hi := reachable_inv h p hr
  refine ⟨?_, ?_, hi.n.hash⟩
  · intro i j hi' hj' e
    rw [vals_eq_getElem p i hi', vals_eq_getElem p j hj'] at e
    have hd := List.pairwise_iff_getElem.mp hi.n.distinct
    rcases Nat.lt_trichotomy i j with hlt | heq | hgt
    · exact absurd e (hd i j hi' hj' hlt)
    · exact heq
    · exact absurd e.symm (hd j i hj' hi' hgt)
  · intro k
    unfold Proj.vals
    cases hk : p.nodes[k]? with
    | none => rfl
    | some n => exact hi.n.trimmed n (List.mem_of_getElem? hk)

/-- **key_eq_iff**: for every hash function, two keys of a projection (in any reachable state,
i.e. however many fields were added since either key was made) are the same key iff they have
the same value in every flattened field, a missing value counting as "". -/
theorem key_eq_iff (h : List Bytes → UInt64) (p : Proj) (hr : Reachable h p) (k₁ k₂ : Nat)
    (h₁ : k₁ < p.nodes.length) (h₂ : k₂ < p.nodes.length) :
    k₁ = k₂ ↔ ∀ f ∈ p.flat, p.get k₁ f = p.get k₂ f := by
  constructor
  · intro e f _; rw [e]
  · intro hall
    have hi := reachable_inv h p hr
    obtain ⟨hinj, htrim, _⟩ := intern_inv h p hr
    apply hinj k₁ k₂ h₁ h₂
    apply eq_of_trimmed _ _ (htrim k₁) (htrim k₂)
    intro i
    by_cases hlt : i < p.nFields
    · obtain ⟨f, hf, hfi⟩ := hi.f.cover i hlt
      have := hall f hf
      simp only [Proj.get, hfi] at this
      exact this
    · have l1 : (p.vals k₁).length ≤ i := by
        rw [vals_eq_getElem p k₁ h₁]
        have := hi.n.len _ (List.getElem_mem h₁); omega
      have l2 : (p.vals k₂).length ≤ i := by
        rw [vals_eq_getElem p k₂ h₂]
        have := hi.n.len _ (List.getElem_mem h₂); omega
      rw [getVal_of_le _ _ l1, getVal_of_le _ _ l2]

/-! ### Streams: keys stay valid and keep their values while the projection grows -/

/-- `q` is `p` after any number of further `Project` / `ProjectValues` calls. -/
inductive Later (h : List Bytes → UInt64) : Proj → Proj → Prop
  | refl (p : Proj) : Later h p p
  | project (p q : Proj) (env : Env) (r : Res) : Later h p q → Later h p (q.project h env r).1
  | projectValues (p q : Proj) (env : Env) (r : Res) : Later h p q → Later h p (q.projectValues h env r).1

theorem later_reachable (h : List Bytes → UInt64) (p q : Proj) (hl : Later h p q) (hr : Reachable h p) :
    Reachable h q := by
  induction hl with
  | refl => exact hr
  | project q env r _ ih => exact Reachable.project q env r ih
  | projectValues q env r _ ih => exact Reachable.projectValues q env r ih

theorem internRow_nodes (h : List Bytes → UInt64) (p : Proj) :
    ∃ extra, (p.internRow h).1.nodes = p.nodes ++ extra := by
  obtain ⟨_, _, _, _, _, hn, _, _⟩ := internRow_spec h p
  rcases hn with hn | ⟨hn, _⟩
  · exact ⟨[], by simp [hn]⟩
  · exact ⟨_, hn⟩

theorem project_nodes (h : List Bytes → UInt64) (env : Env) (p : Proj) (r : Res) (hi : Inv h p) :
    ∃ extra, (p.project h env r).1.nodes = p.nodes ++ extra := by
  obtain ⟨extra, he⟩ := internRow_nodes h (p.populateRow env r)
  obtain ⟨_, e1⟩ := populateRow_good env p r hi.f
  exact ⟨extra, by unfold Proj.project; rw [he, e1.nodes]⟩

theorem projectUnits_nodes (h : List Bytes → UInt64) (ui : Nat) (us : List Bytes) (p : Proj) :
    ∃ extra, (projectUnits h ui p us).1.nodes = p.nodes ++ extra := by
  induction us generalizing p with
  | nil => exact ⟨[], by simp [projectUnits]⟩
  | cons u rest ih =>
    simp only [projectUnits]
    obtain ⟨e1, h1⟩ := internRow_nodes h { p with row := p.row.set ui u }
    obtain ⟨e2, h2⟩ := ih ({ p with row := p.row.set ui u }.internRow h).1
    exact ⟨e1 ++ e2, by rw [h2, h1]; simp⟩

theorem projectValues_nodes (h : List Bytes → UInt64) (env : Env) (p : Proj) (r : Res) (hi : Inv h p) :
    ∃ extra, (p.projectValues h env r).1.nodes = p.nodes ++ extra := by
  obtain ⟨_, e1⟩ := populateRow_good env p r hi.f
  unfold Proj.projectValues
  dsimp only
  split
  · obtain ⟨extra, he⟩ := internRow_nodes h (p.populateRow env r)
    exact ⟨extra, by rw [he, e1.nodes]⟩
  · obtain ⟨extra, he⟩ := projectUnits_nodes h _ r.units (p.populateRow env r)
    exact ⟨extra, by rw [he, e1.nodes]⟩

theorem later_nodes (h : List Bytes → UInt64) (p q : Proj) (hl : Later h p q) (hr : Reachable h p) :
    ∃ extra, q.nodes = p.nodes ++ extra := by
  induction hl with
  | refl => exact ⟨[], by simp⟩
  | project q env r hl ih =>
    obtain ⟨e1, h1⟩ := ih
    obtain ⟨e2, h2⟩ := project_nodes h env q r (reachable_inv h q (later_reachable h p q hl hr))
    exact ⟨e1 ++ e2, by rw [h2, h1]; simp⟩
  | projectValues q env r hl ih =>
    obtain ⟨e1, h1⟩ := ih
    obtain ⟨e2, h2⟩ := projectValues_nodes h env q r (reachable_inv h q (later_reachable h p q hl hr))
    exact ⟨e1 ++ e2, by rw [h2, h1]; simp⟩

/-- Keys are never invalidated and never change their values: after any further projections
(which may add fields) an old key is still a key and `Get` returns what it returned before for
every old field; for a field added later it returns "" (the key's row is shorter). -/
theorem key_stable (h : List Bytes → UInt64) (p q : Proj) (hl : Later h p q) (hr : Reachable h p)
    (k : Nat) (hk : k < p.nodes.length) :
    k < q.nodes.length ∧ q.vals k = p.vals k ∧
    (∀ f : Field, p.nFields ≤ f.idx → q.get k f = []) := by
  obtain ⟨extra, he⟩ := later_nodes h p q hl hr
  have hk' : k < q.nodes.length := by rw [he]; simp; omega
  have hv : q.vals k = p.vals k := by
    rw [vals_eq_getElem q k hk', vals_eq_getElem p k hk]
    simp [he, List.getElem_append_left hk]
  refine ⟨hk', hv, ?_⟩
  intro f hf
  unfold Proj.get
  rw [hv, vals_eq_getElem p k hk]
  apply getVal_of_le
  have := (reachable_inv h p hr).n.len _ (List.getElem_mem hk)
  omega

/-- The key returned by `Project` is a valid key of the new state. -/
theorem project_key_valid (h : List Bytes → UInt64) (env : Env) (p : Proj) (r : Res) :
    (p.project h env r).2 < (p.project h env r).1.nodes.length := by
  obtain ⟨_, _, _, _, _, _, hk, _⟩ := internRow_spec h (p.populateRow env r)
  exact hk

/-- **key_eq_iff** over a stream: a key made at one time and a key made after any number of
further projections (with any number of new fields) are equal iff all flattened field values,
as seen in the final state, are equal. For every hash function. -/
theorem key_eq_iff_stream (h : List Bytes → UInt64) (p₀ : Proj) (hr : Reachable h p₀)
    (env₁ env₂ : Env) (r₁ r₂ : Res) (p₂ : Proj)
    (hl : Later h (p₀.project h env₁ r₁).1 p₂) :
    let k₁ := (p₀.project h env₁ r₁).2
    let p₃ := (p₂.project h env₂ r₂).1
    let k₂ := (p₂.project h env₂ r₂).2
    k₁ = k₂ ↔ ∀ f ∈ p₃.flat, p₃.get k₁ f = p₃.get k₂ f := by
  intro k₁ p₃ k₂
  have hr1 : Reachable h (p₀.project h env₁ r₁).1 := Reachable.project p₀ env₁ r₁ hr
  have hl3 : Later h (p₀.project h env₁ r₁).1 p₃ := Later.project _ p₂ env₂ r₂ hl
  have hr3 : Reachable h p₃ := later_reachable h _ _ hl3 hr1
  have hk1 := (key_stable h _ p₃ hl3 hr1 k₁ (project_key_valid h env₁ p₀ r₁)).1
  exact key_eq_iff h p₃ hr3 k₁ k₂ hk1 (project_key_valid h env₂ p₂ r₂)

/-! ### Get returns what was put into the row -/

/-- **get_is_extracted_partial**: the key returned by `Project` gives, for EVERY field index,
exactly the value the projection closures wrote into the row buffer for this result (missing =
""): nothing is lost or altered by trimming, hashing, bucket search or node reuse. What is
not covered by this theorem: that the closures write, at the index of field `f`, the value of
`f`'s extractor (`Proc.Extract.extract` / `fullNameExcluding` / the file-config value) — the
closures ARE calls of those model functions (`runPart`), but the theorem that no other closure
overwrites the same index is not proved; it is checked by the correspondence run (observable
`get`) and by the specification oracle on every case. -/
theorem get_is_extracted_partial (h : List Bytes → UInt64) (env : Env) (p : Proj) (r : Res) (f : Field) :
    (p.project h env r).1.get (p.project h env r).2 f = getVal (p.populateRow env r).row f.idx := by
  obtain ⟨_, _, _, _, _, _, _, hv⟩ := internRow_spec h (p.populateRow env r)
  unfold Proj.get Proj.project
  rw [hv, getVal_trim]

/-- A single root field projection: the closure of a specific key writes the extractor's value,
so `Get` returns exactly what `newExtractor(key)` extracts. -/
theorem get_is_extracted_single (h : List Bytes → UInt64) (env : Env) (pa pa' : Parser) (sp : Spec) (s : Proj)
    (r : Res) (hp : pa.parse [sp] = (pa', .ok s)) (hk : sp.key ≠ dotConfig) (hf : sp.key ≠ dotFullname) :
    ∃ f, s.flat = [f] ∧ f.name = sp.key ∧
      (s.project h env r).1.get (s.project h env r).2 f =
        (match extract sp.key r.view with | .ok v => v | .error _ => []) := by
  have hk' : (sp.key == dotConfig) = false := by simpa using hk
  have hf' : (sp.key == dotFullname) = false := by simpa using hf
  unfold Parser.parse at hp
  simp only [parseParts] at hp
  cases hm : makeProjection pa newProjection sp with
  | mk p1 e =>
    rw [hm] at hp
    cases e with
    | error e => simp at hp
    | ok s1 =>
      simp only [Prod.mk.injEq, Except.ok.injEq] at hp
      obtain ⟨_, rfl⟩ := hp
      unfold makeProjection at hm
      simp only [hk', hf', Bool.false_eq_true, if_false] at hm
      split at hm
      · simp at hm
      split at hm
      · simp at hm
      · by_cases he : sp.key.isEmpty = true
        · rw [if_pos he] at hm; simp at hm
        · rw [if_neg he] at hm
          simp only [Prod.mk.injEq, Except.ok.injEq] at hm
          obtain ⟨_, rfl⟩ := hm
          refine ⟨mkField sp.key 0 sp.order, by simp [Proj.flat, Proj.addRootField, newProjection, Top.flat], rfl, ?_⟩
          rw [get_is_extracted_partial]
          simp [Proj.populateRow, Proj.addRootField, newProjection, runPart, mkField, getVal]
          cases extract sp.key r.view <;> rfl

/-! ### ProjectValues -/

/-- **project_values_only_unit** (no `.unit` field): all keys are the key `Project` returns. -/
theorem project_values_no_unit (h : List Bytes → UInt64) (env : Env) (p : Proj) (r : Res)
    (hu : (p.populateRow env r).unitIdx = none) :
    (p.projectValues h env r).2 = r.units.map (fun _ => (p.project h env r).2) ∧
    (p.projectValues h env r).1 = (p.project h env r).1 := by
  unfold Proj.projectValues Proj.project
  simp [hu]

/-- **project_values_only_unit** (one step of the `.unit` loop): the key made for a measurement
has the measurement's unit in the `.unit` field and, in every other field, the value `Project`
would give (the populated row). -/
theorem project_values_only_unit (h : List Bytes → UInt64) (p : Proj) (ui : Nat) (u : Bytes)
    (hui : ui < p.row.length) (f : Field) :
    let q := ({ p with row := p.row.set ui u }.internRow h)
    q.1.get q.2 f = if f.idx = ui then u else getVal p.row f.idx := by
  intro q
  obtain ⟨_, _, _, _, _, _, _, hv⟩ := internRow_spec h { p with row := p.row.set ui u }
  show getVal (q.1.vals q.2) f.idx = _
  rw [hv, getVal_trim]
  unfold getVal
  by_cases hf : f.idx = ui
  · simp [hf, hui, List.getD_eq_getElem?_getD, List.getElem?_set]
  · have : ¬ ui = f.idx := fun e => hf e.symm
    simp [hf, this, List.getD_eq_getElem?_getD, List.getElem?_set]

/-! ### NonSingularFields -/

/-- **nonsingular_spec**: `NonSingularFields(keys)` consists of exactly the flattened fields on
which two of the keys differ (for two keys: the fields on which they differ)… -/
theorem nonsingular_spec (p : Proj) (keys : List Nat) (f : Field) :
    f ∈ p.nonSingular keys ↔ f ∈ p.flat ∧ ∃ a ∈ keys, ∃ b ∈ keys, p.get a f ≠ p.get b f := by
  unfold Proj.nonSingular
  match keys with
  | [] => simp
  | [k] => simp
  | k0 :: k1 :: rest =>
    simp only [List.mem_filter, List.any_eq_true, bne_iff_ne, ne_eq]
    constructor
    · rintro ⟨hf, k, hk, hne⟩
      exact ⟨hf, k, List.mem_cons_of_mem _ hk, k0, List.mem_cons_self, hne⟩
    · rintro ⟨hf, a, ha, b, hb, hne⟩
      refine ⟨hf, ?_⟩
      apply Classical.byContradiction
      intro hno
      have hall : ∀ k ∈ k0 :: k1 :: rest, p.get k f = p.get k0 f := by
        intro k hk
        rcases List.mem_cons.mp hk with rfl | hk
        · rfl
        · apply Classical.byContradiction
          intro hne'
          exact hno ⟨k, hk, hne'⟩
      exact hne ((hall a ha).trans (hall b hb).symm)

/-- …listed in flattened-field order, each once. -/
theorem nonsingular_order (p : Proj) (keys : List Nat) : (p.nonSingular keys).Sublist p.flat := by
  unfold Proj.nonSingular
  match keys with
  | [] => simp
  | [k] => simp
  | k0 :: k1 :: rest => exact List.filter_sublist

/-! ### Exclusion does not depend on the order of the Parse calls -/

/-- `fullExcluded` is invariant under permutation of the exclusion list. -/
theorem fullExcluded_perm_invariant (ex ex' : List Bytes) (hp : ex.Perm ex') (name : Bytes) :
    fullNameExcluding ex name = fullNameExcluding ex' name :=
  fullNameExcluding_perm ex ex' hp name

/-- **exclusion_order_independent_partial**: projecting a result gives the same projection state
(group fields, rows, nodes, order maps) and the same key under any two parser states that have
the same SET of specific config keys and the same MULTISET of specific name keys — which is how
the parser states reached by two different orders of the same `Parse` calls are related (the
closures read the parser state at projection time, after all parsing). For every hash function.
Not proved in Lean (the gap): that `Parse` accumulates `configKeys` as a set-insert and
`fullnameKeys` as an append, so that permuting the calls permutes/preserves them in this sense;
this is two lines of `makeProjection` and is exercised by the correspondence run and the
specification oracle on all permutations of up to 4 expressions per case. -/
theorem exclusion_order_independent_partial (h : List Bytes → UInt64) (e e' : Env) (he : EnvEq e e')
    (p : Proj) (r : Res) :
    p.project h e r = p.project h e' r ∧ p.projectValues h e r = p.projectValues h e' r := by
  unfold Proj.project Proj.projectValues
  rw [populateRow_congr e e' he p r]
  exact ⟨rfl, rfl⟩

example : EnvEq { configKeys := [[97], [98]], exclude := [[47, 120], [47, 121]] }
    { configKeys := [[98], [97], [98]], exclude := [[47, 121], [47, 120]] } := by
  refine ⟨fun k => ?_, List.Perm.swap _ _ _⟩
  simp only [List.contains_iff_mem, List.mem_cons, List.not_mem_nil, or_false]
  by_cases h1 : k = [97] <;> by_cases h2 : k = [98] <;> simp [h1, h2]

end C08
