/-
C02 — the CLOSED reader (`Model/Fmt/ReaderClosed.lean`): the reader model with its number and
unit parameters instantiated by the models of C03 (`Num.atoi`, `Num.readerAtof`) and C04
(`Unit.Tidy.tidy`), and what the theorems of those properties then say about every record.

Imports Proofs/C03.lean and Proofs/C04.lean read-only.
-/
import Proofs.C02
import Proofs.C03
import Proofs.C04
import Model.Fmt.ReaderClosed

namespace C02
open Fmt Spec.Format

/-- **closed_reader_refines_spec.** The closed reader — bytes in, records out, no number or unit
oracle — delivers exactly the records of the specification instantiated with the same closed
oracles, up to configuration-as-map; `Config` keys are distinct; final unit metadata agree.
(The specification's stream, scoping and line grammar are independent of the model; what the
numbers and units in it *mean* is the content of `closed_values_reported` below.) -/
theorem closed_reader_refines_spec (uc : UC) (fileName text : Bytes) :
    (Reader.closed uc fileName text).map Rec.abs =
        (Spec.Format.read (closedOracles uc) fileName [] [] text).1.map SRec.abs ∧
    (∀ r, Rec.result r ∈ Reader.closed uc fileName text → (r.config.map Cfg.key).Nodup) ∧
    (finalState (closedOracles uc) (RState.zero.reset fileName []) (splitLines text)).units =
      (Spec.Format.read (closedOracles uc) fileName [] [] text).2 :=
  reader_refines_spec (closedOracles uc) fileName text

/-- the same for a sequence of files through one reused reader -/
theorem closed_files_refine_spec (uc : UC) (fs : FS) (paths : List Bytes) (allowStdin allowLabels : Bool) :
    let out := Files.closed uc fs paths allowStdin allowLabels
    let sp := readFiles (closedOracles uc) fs [] fs.stdin
      ((Files.init paths allowStdin allowLabels).map fun i => (i.label, i.path, i.isStdin))
    out.recs.map Rec.abs = sp.recs.map SRec.abs ∧ out.failed = sp.failed ∧ out.st.units = sp.units :=
  files_refine_spec (closedOracles uc) fs paths allowStdin allowLabels

/-! ### what the numbers and units of a closed benchmark line are -/

/-- The measurements `vals` reported for the value/unit fields `ms`: pairwise, each value text
`v` is read by C03's model of the reader's `atof` to some float `x` — which is C03's
*specified* value `parseFloatSpec v` whenever the reader's integer fast path answers — and what
is reported is C04's *specification* `Spec.Tidy.report x u` (base unit, value times factor,
original pair kept exactly when the unit changed). -/
inductive Reported : List Bytes → List Val → Prop
  | nil : Reported [] []
  | cons (v u : Bytes) (ms : List Bytes) (val : Val) (vals : List Val) (x : F64.Bits) :
      (Num.readerAtof v).toExcept = .ok x →
      (v ≠ [] → ∀ i, Num.atofLoop v 0 = some i → Spec.NumText.parseFloatSpec v = .ok x) →
      (val.value, val.unit, val.origValue, val.origUnit) = Spec.Tidy.report x u →
      Reported ms vals → Reported (v :: u :: ms) (val :: vals)

theorem closedAtof_ok {v : Bytes} {x : UInt64} (h : closedAtof v = .ok x) :
    (Num.readerAtof v).toExcept = .ok x := by
  unfold closedAtof at h
  unfold Num.FloatRes.toExcept
  cases he : (Num.readerAtof v).err with
  | none => rw [he] at h; simpa using h
  | some e => rw [he] at h; cases h

theorem mkVal_closed (uc : UC) (x : UInt64) (u : Bytes) :
    let val := mkVal (closedOracles uc) x u
    (val.value, val.unit, val.origValue, val.origUnit) = Spec.Tidy.report x u := by
  have h := C04.reader_is_report x u
  rw [← h]
  have e : (closedOracles uc).tidy = Unit.Tidy.tidy := rfl
  unfold mkVal Unit.Tidy.readerValue
  rw [e]
  cases Unit.Tidy.tidy x u with
  | mk a b =>
    simp only
    split <;> rfl

theorem measurements_closed (uc : UC) : ∀ (ms : List Bytes) (vals : List Val),
    measurements (closedOracles uc) ms = .ok vals → Reported ms vals
  | [], vals, h => by
    simp only [measurements] at h
    cases h; exact .nil
  | [v], vals, h => by
    simp only [measurements] at h
    cases ha : (closedOracles uc).atof v with
    | error e => rw [ha] at h; cases h
    | ok x => rw [ha] at h; cases h
  | v :: u :: ms, vals, h => by
    simp only [measurements] at h
    cases ha : (closedOracles uc).atof v with
    | error e => rw [ha] at h; simp at h
    | ok x =>
      rw [ha] at h
      simp only at h
      cases hm : measurements (closedOracles uc) ms with
      | error m => rw [hm] at h; simp at h
      | ok vs =>
        rw [hm] at h
        simp only [Except.ok.injEq] at h
        subst h
        have hx := closedAtof_ok (show closedAtof v = .ok x from ha)
        refine .cons v u ms _ vs x hx ?_ (mkVal_closed uc x u) (measurements_closed uc ms vs hm)
        intro hne i hi
        rw [← C03.atof_fast_correct v hne i hi]; exact hx

theorem closedAtoi_ok {s : Bytes} {n : Int} (h : closedAtoi s = .ok n) :
    Spec.NumText.parseIntSpec s = .ok n := by
  have hc := C03.atoi_correct s
  unfold closedAtoi at h
  cases hs : Spec.NumText.parseIntSpec s with
  | ok v =>
    have := hc.1 v hs
    rw [this] at h
    simp at h; rw [h]
  | error e =>
    have := hc.2 e hs
    cases he : (Num.atoi s).err with
    | none => exact absurd he this
    | some e' => rw [he] at h; cases h

/-- **closed_values_reported.** Whenever the closed reader accepts a benchmark line, with
`name`, `n` iterations and measurements `vals`: the line's first piece after `Benchmark` is
`name`, its next field `it` denotes exactly the integer `n` (C03's specification of `Atoi`:
`[sign] digits`, exact, within int64), and `vals` are `Reported` for the remaining fields
(C03 model/spec for each value text, C04 specification for each unit). -/
theorem closed_values_reported (uc : UC) (line name : Bytes) (n : Int) (vals : List Val)
    (h : parseBenchmarkLine (closedOracles uc) line = .ok name n vals) :
    ∃ it ms, firstAndFields uc (line.drop 9) = (name, true, it :: ms) ∧
      Spec.NumText.parseIntSpec it = .ok n ∧ Reported ms vals := by
  rw [(line_grammar (closedOracles uc) line).2.1] at h
  unfold benchLine at h
  have huc : (closedOracles uc).uc = uc := rfl
  rw [huc] at h
  cases hf : firstAndFields uc (line.drop 9) with
  | mk nm rest =>
    obtain ⟨hasSp, flds⟩ := rest
    rw [hf] at h
    cases hasSp with
    | false => simp at h
    | true =>
      cases flds with
      | nil => simp at h
      | cons it ms =>
        simp only at h
        cases ha : (closedOracles uc).atoi it with
        | error e => rw [ha] at h; simp at h
        | ok k =>
          rw [ha] at h
          simp only at h
          by_cases hme : ms.isEmpty = true
          · simp [hme] at h
          · simp only [hme, Bool.false_eq_true, ↓reduceIte] at h
            cases hm : measurements (closedOracles uc) ms with
            | error m => rw [hm] at h; simp at h
            | ok vs =>
              rw [hm] at h
              simp only [BenchOut.ok.injEq] at h
              obtain ⟨rfl, rfl, rfl⟩ := h
              exact ⟨it, ms, rfl, closedAtoi_ok (show closedAtoi it = .ok k from ha),
                measurements_closed uc ms vs hm⟩

/-- **closed_values_correctly_rounded_partial.** A value text made of decimal digits that the
reader's integer fast path accepts is reported as the correctly rounded float64 of that integer
(C03 `atof_fast_correct`). PARTIAL: for texts that fall through to `bytesconv.ParseFloat`
the value is C03's *model* `Num.readerAtof`; C03 proves its stages (`special_correct`,
`readFloat_value_partial`, `exact_path_correct_partial`, the slow path is the specification by
construction) but has no single theorem `readerAtof = parseFloatSpec`, so none is claimed here. -/
theorem closed_values_correctly_rounded_partial (v : Bytes) (hne : v ≠ []) (i : Int)
    (hi : Num.atofLoop v 0 = some i) (x : UInt64) (h : closedAtof v = .ok x) :
    Spec.NumText.parseFloatSpec v = .ok x := by
  rw [← C03.atof_fast_correct v hne i hi]; exact closedAtof_ok h

/-- Non-vacuity: `BenchmarkX 5 1500 ns/op` through the closed model, evaluated by the kernel:
5 iterations, 1.5e-6 sec/op with the written 1500 ns/op kept. -/
example : parseBenchmarkLine (closedOracles UC.ascii)
      (Bytes.ofString "BenchmarkX 5 1500 ns/op") =
    .ok [88] 5 [⟨0x3EB92A737110E454, Bytes.ofString "sec/op", 0x4097700000000000, Bytes.ofString "ns/op"⟩] := by
  decide +kernel

end C02
