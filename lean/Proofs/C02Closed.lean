/-
C02 — the CLOSED reader (`Model/Fmt/ReaderClosed.lean`): the reader model with its number and
unit parameters instantiated by the models of C03 (`Num.atoi`, `Num.readerAtof`) and C04
(`Unit.Tidy.tidy`), and what the theorems of those properties then say about every record.

Imports Proofs/C03.lean and Proofs/C04.lean read-only.
-/
import Proofs.C02
import Proofs.C03
import Proofs.C04
import Model.Fmt.ReaderClosed

namespace C02
open Fmt Spec.Format

/-- **closed_reader_refines_spec.** The closed reader — bytes in, records out, no number or unit
oracle — delivers exactly the records of the specification instantiated with the same closed
oracles, up to configuration-as-map; `Config` keys are distinct; final unit metadata agree.
(The specification's stream, scoping and line grammar are independent of the model; what the
numbers and units in it *mean* is the content of `closed_values_reported` below.) -/
theorem closed_reader_refines_spec (uc : UC) (fileName text : Bytes) :
    (Reader.closed uc fileName text).map Rec.abs =
        (Spec.Format.read (closedOracles uc) fileName [] [] text).1.map SRec.abs ∧
    (∀ r, Rec.result r ∈ Reader.closed uc fileName text → (r.config.map Cfg.key).Nodup) ∧
    (finalState (closedOracles uc) (RState.zero.reset fileName []) (splitLines text)).units =
      (Spec.Format.read (closedOracles uc) fileName [] [] text).2 :=
  reader_refines_spec (closedOracles uc) fileName text

/-- the same for a sequence of files through one reused reader -/
theorem closed_files_refine_spec (uc : UC) (fs : FS) (paths : List Bytes) (allowStdin allowLabels : Bool) :
    let out := Files.closed uc fs paths allowStdin allowLabels
    let sp := readFiles (closedOracles uc) fs [] fs.stdin
      ((Files.init paths allowStdin allowLabels).map fun i => (i.label, i.path, i.isStdin))
    out.recs.map Rec.abs = sp.recs.map SRec.abs ∧ out.failed = sp.failed ∧ out.st.units = sp.units :=
  files_refine_spec (closedOracles uc) fs paths allowStdin allowLabels

/-! ### what the numbers and units of a closed benchmark line are -/

theorem splitAtSep_mem (sp : RuneB → Bool) : ∀ (l : List RuneB) (p : List RuneB),
    p ∈ splitAtSep sp l → ∀ r ∈ p, r ∈ l
  | [], p, hp, r, hr => by
    simp only [splitAtSep, List.mem_singleton] at hp
    subst hp; simp at hr
  | a :: l, p, hp, r, hr => by
    rw [splitAtSep_eq] at hp
    rcases List.mem_cons.1 hp with h | h
    · subst h
      exact (List.takeWhile_sublist _).subset hr
    · cases hd : (a :: l).dropWhile (fun r => !sp r) with
      | nil => rw [hd] at h; simp at h
      | cons s m =>
        rw [hd] at h
        have hsub : m.length < (a :: l).length := by
          have := (List.dropWhile_sublist (fun r => !sp r) (l := a :: l)).length_le
          rw [hd] at this; simp at this ⊢; omega
        have hm := splitAtSep_mem sp m p h r hr
        have : m.Sublist (a :: l) :=
          List.Sublist.trans (List.sublist_cons_self s m) (hd ▸ List.dropWhile_sublist _)
        exact this.subset hm
termination_by l => l.length

/-- Every field of a line is a non-empty byte string. -/
theorem fields_nonempty (uc : UC) (x : Bytes) : ∀ f ∈ (firstAndFields uc x).2.2, f ≠ [] := by
  intro f hf
  unfold firstAndFields at hf
  cases hs : splitAtSep (isSp uc) (runes x) with
  | nil => rw [hs] at hf; simp at hf
  | cons p0 later =>
    rw [hs] at hf
    simp only [List.mem_map, List.mem_filter] at hf
    obtain ⟨p, ⟨hp, hne⟩, rfl⟩ := hf
    cases p with
    | nil => simp at hne
    | cons r rest =>
      have hmem : r ∈ runes x :=
        splitAtSep_mem (isSp uc) (runes x) (r :: rest) (hs ▸ List.mem_cons_of_mem _ hp) r
          (List.mem_cons_self ..)
      have := runesFrom_enc_pos x 0 r hmem
      rw [enc_cons]
      intro h0
      exact this (List.append_eq_nil_iff.1 h0).1

/-- The measurements `vals` reported for the value/unit fields `ms`: pairwise, the value text
`v` is read to a float `x` by the (fully mirrored) model of the reader's `atof`; under C03's two
hypotheses on the numeral — exponent literal below 100000 or a `Moderate` mantissa text (the
complement is known finding N3E), not in the class of finding N3 (more than 800 significant
digits) — `x` is the SPECIFIED, correctly rounded value `parseFloatSpec v`;
and what is reported is C04's SPECIFICATION `Spec.Tidy.report x u`: base unit, value times
factor, the written pair kept exactly when the unit changed. -/
inductive Reported : List Bytes → List Val → Prop
  | nil : Reported [] []
  | cons (v u : Bytes) (ms : List Bytes) (val : Val) (vals : List Val) (x : F64.Bits) :
      (Num.readerAtofMirror v).toExcept = .ok x →
      ((C03.expLit v < 100000 ∨ C03.Moderate v) → Num.inClassN3 v = false →
        Spec.NumText.parseFloatSpec v = .ok x) →
      (val.value, val.unit, val.origValue, val.origUnit) = Spec.Tidy.report x u →
      Reported ms vals → Reported (v :: u :: ms) (val :: vals)

theorem closedAtof_ok {v : Bytes} {x : UInt64} (h : closedAtof v = .ok x) :
    (Num.readerAtofMirror v).toExcept = .ok x := by
  unfold closedAtof at h
  unfold Num.FloatRes.toExcept
  cases he : (Num.readerAtofMirror v).err with
  | none => rw [he] at h; simpa using h
  | some e => rw [he] at h; cases h

theorem mkVal_closed (uc : UC) (x : UInt64) (u : Bytes) :
    let val := mkVal (closedOracles uc) x u
    (val.value, val.unit, val.origValue, val.origUnit) = Spec.Tidy.report x u := by
  have h := C04.reader_is_report x u
  rw [← h]
  have e : (closedOracles uc).tidy = Unit.Tidy.tidy := rfl
  unfold mkVal Unit.Tidy.readerValue
  rw [e]
  cases Unit.Tidy.tidy x u with
  | mk a b =>
    simp only
    split <;> rfl

theorem measurements_closed (uc : UC) : ∀ (ms : List Bytes) (vals : List Val),
    (∀ f ∈ ms, f ≠ []) → measurements (closedOracles uc) ms = .ok vals → Reported ms vals
  | [], vals, _, h => by
    simp only [measurements] at h
    cases h; exact .nil
  | [v], vals, _, h => by
    simp only [measurements] at h
    cases ha : (closedOracles uc).atof v with
    | error e => rw [ha] at h; cases h
    | ok x => rw [ha] at h; cases h
  | v :: u :: ms, vals, hne, h => by
    simp only [measurements] at h
    cases ha : (closedOracles uc).atof v with
    | error e => rw [ha] at h; simp at h
    | ok x =>
      rw [ha] at h
      simp only at h
      cases hm : measurements (closedOracles uc) ms with
      | error m => rw [hm] at h; simp at h
      | ok vs =>
        rw [hm] at h
        simp only [Except.ok.injEq] at h
        subst h
        have hx := closedAtof_ok (show closedAtof v = .ok x from ha)
        have hv : v ≠ [] := hne v (List.mem_cons_self ..)
        refine .cons v u ms _ vs x hx ?_ (mkVal_closed uc x u)
          (measurements_closed uc ms vs
            (fun f hf => hne f (List.mem_cons_of_mem _ (List.mem_cons_of_mem _ hf))) hm)
        intro hlit hN3
        rw [← C03.reader_atof_mirror_correct_ext v hv hlit hN3]; exact hx

theorem closedAtoi_ok {s : Bytes} {n : Int} (h : closedAtoi s = .ok n) :
    Spec.NumText.parseIntSpec s = .ok n := by
  have hc := C03.atoi_correct s
  unfold closedAtoi at h
  cases hs : Spec.NumText.parseIntSpec s with
  | ok v =>
    have := hc.1 v hs
    rw [this] at h
    simp at h; rw [h]
  | error e =>
    have := hc.2 e hs
    cases he : (Num.atoi s).err with
    | none => exact absurd he this
    | some e' => rw [he] at h; cases h

/-- **closed_values_reported.** Whenever the closed reader accepts a benchmark line, with
`name`, `n` iterations and measurements `vals`: the line's first piece after `Benchmark` is
`name`, its next field `it` denotes exactly the integer `n` (C03's specification of `Atoi`:
`[sign] digits`, exact, within int64 — no hypothesis), and `vals` are `Reported` for the
remaining fields. -/
theorem closed_values_reported (uc : UC) (line name : Bytes) (n : Int) (vals : List Val)
    (h : parseBenchmarkLine (closedOracles uc) line = .ok name n vals) :
    ∃ it ms, firstAndFields uc (line.drop 9) = (name, true, it :: ms) ∧
      Spec.NumText.parseIntSpec it = .ok n ∧ Reported ms vals := by
  rw [(line_grammar (closedOracles uc) line).2.1] at h
  unfold benchLine at h
  have huc : (closedOracles uc).uc = uc := rfl
  rw [huc] at h
  have hne := fields_nonempty uc (line.drop 9)
  cases hf : firstAndFields uc (line.drop 9) with
  | mk nm rest =>
    obtain ⟨hasSp, flds⟩ := rest
    rw [hf] at h hne
    cases hasSp with
    | false => simp at h
    | true =>
      cases flds with
      | nil => simp at h
      | cons it ms =>
        simp only at h hne
        cases ha : (closedOracles uc).atoi it with
        | error e => rw [ha] at h; simp at h
        | ok k =>
          rw [ha] at h
          simp only at h
          by_cases hme : ms.isEmpty = true
          · simp [hme] at h
          · simp only [hme, Bool.false_eq_true, ↓reduceIte] at h
            cases hm : measurements (closedOracles uc) ms with
            | error m => rw [hm] at h; simp at h
            | ok vs =>
              rw [hm] at h
              simp only [BenchOut.ok.injEq] at h
              obtain ⟨rfl, rfl, rfl⟩ := h
              exact ⟨it, ms, rfl, closedAtoi_ok (show closedAtoi it = .ok k from ha),
                measurements_closed uc ms vs (fun f hf => hne f (List.mem_cons_of_mem _ hf)) hm⟩

/-! ### from lines to the whole text -/

/-- Every result in the stream comes from one line: its number is the record's line number,
and the line parser produced exactly the record's name, iterations and values. -/
theorem readLines_result_origin (O : Oracles) (ls : List Bytes) :
    ∀ (st : RState) (r : Res), Rec.result r ∈ readLines O st ls →
      ∃ (i : Nat) (l : Bytes), ls[i]? = some l ∧ r.line = st.line + i + 1 ∧
        Bytes.hasPrefix l benchmarkPrefix = true ∧
        parseBenchmarkLine O l = .ok r.name r.iters r.values := by
  induction ls with
  | nil => intro st r h; simp [readLines] at h
  | cons l ls ih =>
    intro st r h
    simp only [readLines] at h
    rcases List.mem_append.1 h with h | h
    · refine ⟨0, l, rfl, ?_⟩
      unfold scanLine at h
      simp only at h
      split at h
      · rename_i hp
        split at h
        · rename_i nm it vs hb
          simp only [List.mem_singleton, Rec.result.injEq] at h
          subst h
          exact ⟨rfl, hp, hb⟩
        · simp at h
        · simp at h
      · rw [unit_guard] at h
        split at h
        · have := parseUnitLine_noResult O st.fileName (st.line + 1) st.units _ _ h
          simp [Rec.isResult] at this
        · split at h <;> simp at h
    · obtain ⟨i, l', hi, hl, hp, hb⟩ := ih _ r h
      have hline : (scanLine O st l).1.line = st.line + 1 := by
        unfold scanLine
        simp only
        split
        · split <;> rfl
        · split
          · rfl
          · split <;> rfl
      exact ⟨i + 1, l', by simpa using hi, by rw [hl, hline]; omega, hp, hb⟩

/-- **closed_values_correctly_rounded.** For EVERY input text and file name: every result the
closed reader reports stems from the line whose number it carries; that line starts with
`Benchmark`, its first piece is the reported name, its next field denotes exactly the reported
iteration count (C03 `parseIntSpec`), and the reported measurements are `Reported` for the
remaining fields — i.e. each value is the CORRECTLY ROUNDED float64 of its numeral
(`parseFloatSpec`, under exactly C03's two hypotheses on that numeral: exponent literal < 100000
or `C03.Moderate` mantissa text, and not in class N3) tidied per C04's specification. (Lines that do not parse yield a positioned
`SyntaxError` or nothing: `C03.errors_become_syntax_errors`, `reader_refines_spec`.) -/
theorem closed_values_correctly_rounded (uc : UC) (fileName text : Bytes) (r : Res)
    (hr : Rec.result r ∈ Reader.closed uc fileName text) :
    ∃ (line it : Bytes) (ms : List Bytes),
      1 ≤ r.line ∧ (splitLines text)[r.line - 1]? = some line ∧
      Bytes.hasPrefix line benchmarkPrefix = true ∧
      firstAndFields uc (line.drop 9) = (r.name, true, it :: ms) ∧
      Spec.NumText.parseIntSpec it = .ok r.iters ∧ Reported ms r.values := by
  obtain ⟨i, l, hi, hl, hp, hb⟩ := readLines_result_origin (closedOracles uc) (splitLines text) _ r hr
  obtain ⟨it, ms, hf, hit, hrep⟩ := closed_values_reported uc l r.name r.iters r.values hb
  have h0 : (RState.zero.reset fileName []).line = 0 := rfl
  rw [h0] at hl
  refine ⟨l, it, ms, by omega, ?_, hp, hf, hit, hrep⟩
  have : r.line - 1 = i := by omega
  rw [this]; exact hi

/-- **reported_value_is_scaled_numeral** (composition with C04 `tidy_spec`). A reported
measurement whose unit `u` has a different base form carries the base unit, the value
`F64.mul x factor` (one float64 multiplication of the numeral's value by the unit's factor), and
keeps the written pair; a unit already in base form is reported as written. -/
theorem reported_value_is_scaled_numeral (val : Val) (x : F64.Bits) (u : Bytes)
    (h : (val.value, val.unit, val.origValue, val.origUnit) = Spec.Tidy.report x u) :
    ((Spec.Tidy.tidyUnit u).1 ≠ u →
      val.unit = (Spec.Tidy.tidyUnit u).1 ∧ val.value = F64.mul x (Spec.Tidy.tidyUnit u).2 ∧
      val.origValue = x ∧ val.origUnit = u) ∧
    ((Spec.Tidy.tidyUnit u).1 = u →
      val.unit = u ∧ val.value = x ∧ val.origValue = 0 ∧ val.origUnit = []) := by
  unfold Spec.Tidy.report Spec.Tidy.tidy at h
  simp only at h
  constructor
  · intro hne
    have hb : ((Spec.Tidy.tidyUnit u).1 == u) = false := by simpa using hne
    simp only [hb, Bool.false_eq_true, ↓reduceIte, Prod.mk.injEq] at h
    exact ⟨h.2.1, h.1, h.2.2.1, h.2.2.2⟩
  · intro he
    have hb : ((Spec.Tidy.tidyUnit u).1 == u) = true := by simpa using he
    simp only [hb, ↓reduceIte, Prod.mk.injEq] at h
    exact ⟨h.2.1, h.1, h.2.2.1, h.2.2.2⟩

/-- Non-vacuity: `BenchmarkX 5 1500 ns/op` through the closed model, evaluated by the kernel:
5 iterations, 1.5e-6 sec/op with the written 1500 ns/op kept. -/
example : parseBenchmarkLine (closedOracles UC.ascii)
      (Bytes.ofString "BenchmarkX 5 1500 ns/op") =
    .ok [88] 5 [⟨0x3EB92A737110E454, Bytes.ofString "sec/op", 0x4097700000000000, Bytes.ofString "ns/op"⟩] := by
  decide +kernel

end C02
