/-
C15 helper lemmas: goroutine effects commute (disjoint write sets), sorted traversal hides map order.
-/
import Proofs.Lemmas.C14Tables

namespace C15L
open Tab C14L

section Run
variable {K V : Type} [DecidableEq K]

theorem runTasks_cons (init : List (K × V)) (kv : K × V) (rest : List (K × V)) :
    runTasks init (kv :: rest) = runTasks (AL.upsert kv.1 (fun _ => kv.2) init) rest := rfl

/-- a slot nobody writes keeps its value -/
theorem lookup_runTasks_untouched (init tasks : List (K × V)) (k : K) (h : ∀ v, (k, v) ∉ tasks) :
    AL.lookup k (runTasks init tasks) = AL.lookup k init := by
  induction tasks generalizing init with
  | nil => rfl
  | cons kv rest ih =>
    rw [runTasks_cons, ih]
    · have : k ≠ kv.1 := by
        intro e; apply h kv.2; rw [e]; exact List.mem_cons_self ..
      exact lookup_upsert_ne this _ _
    · intro v hv; exact h v (List.mem_cons_of_mem _ hv)

/-- a slot all of whose writers store the same value holds that value afterwards, whatever the
order of the writers (and of everybody else) -/
theorem lookup_runTasks_written (init tasks : List (K × V)) (k : K) (v : V) (hm : (k, v) ∈ tasks)
    (hdet : ∀ v', (k, v') ∈ tasks → v' = v) : AL.lookup k (runTasks init tasks) = some v := by
  induction tasks generalizing init with
  | nil => simp at hm
  | cons kv rest ih =>
    rw [runTasks_cons]
    by_cases hr : (k, v) ∈ rest
    · exact ih _ hr (fun v' hv' => hdet v' (List.mem_cons_of_mem _ hv'))
    · have hkv : kv = (k, v) := by
        rcases List.mem_cons.mp hm with e | e
        · exact e.symm
        · exact absurd e hr
      subst hkv
      rw [lookup_runTasks_untouched]
      · simp [lookup_upsert_self]
      · intro v' hv'
        have := hdet v' (List.mem_cons_of_mem _ hv')
        subst this; exact hr hv'

end Run

section Misc
variable {α β : Type}

theorem filterMap_eq_map_of_forall {f : α → Option β} {g : α → β} {l : List α}
    (h : ∀ x ∈ l, f x = some (g x)) : l.filterMap f = l.map g := by
  induction l with
  | nil => rfl
  | cons x xs ih =>
    rw [List.filterMap_cons, h x (List.mem_cons_self ..), List.map_cons, ih]
    intro y hy; exact h y (List.mem_cons_of_mem _ hy)

theorem filterMap_congr' {f g : α → Option β} {l : List α} (h : ∀ x ∈ l, f x = g x) :
    l.filterMap f = l.filterMap g := by
  induction l with
  | nil => rfl
  | cons x xs ih =>
    rw [List.filterMap_cons, List.filterMap_cons, h x (List.mem_cons_self ..), ih]
    intro y hy; exact h y (List.mem_cons_of_mem _ hy)

theorem zipIdx_fst_mem {l : List α} {x : α} {i n : Nat} (h : (x, i) ∈ l.zipIdx n) : x ∈ l := by
  induction l generalizing n with
  | nil => simp at h
  | cons y ys ih =>
    simp only [List.zipIdx_cons, List.mem_cons, Prod.mk.injEq] at h
    rcases h with ⟨rfl, _⟩ | h
    · exact List.mem_cons_self ..
    · exact List.mem_cons_of_mem _ (ih h)

/-- in a duplicate-free list the index of an element is determined by the element -/
theorem zipIdx_idx_unique {l : List α} (hn : l.Nodup) {x : α} {i j n : Nat}
    (hi : (x, i) ∈ l.zipIdx n) (hj : (x, j) ∈ l.zipIdx n) : i = j := by
  induction l generalizing n with
  | nil => simp at hi
  | cons y ys ih =>
    simp only [List.zipIdx_cons, List.mem_cons, Prod.mk.injEq] at hi hj
    rw [List.nodup_cons] at hn
    rcases hi with ⟨rfl, rfl⟩ | hi
    · rcases hj with ⟨_, rfl⟩ | hj
      · rfl
      · exact absurd (zipIdx_fst_mem hj) hn.1
    · rcases hj with ⟨rfl, rfl⟩ | hj
      · exact absurd (zipIdx_fst_mem hi) hn.1
      · exact ih hn.2 hi hj

theorem filterMap_zipIdx {γ : Type} (f : α → Option γ) (g : α × Nat → γ) (l : List α) (n : Nat)
    (h : ∀ ci ∈ l.zipIdx n, f ci.1 = some (g ci)) : l.filterMap f = (l.zipIdx n).map g := by
  induction l generalizing n with
  | nil => rfl
  | cons x xs ih =>
    rw [List.zipIdx_cons, List.map_cons, List.filterMap_cons, h (x, n) (by simp)]
    simp only
    congr 1
    apply ih
    intro ci hci; exact h ci (by rw [List.zipIdx_cons]; exact List.mem_cons_of_mem _ hci)

end Misc

end C15L
