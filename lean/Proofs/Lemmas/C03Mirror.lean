/-
C03 — the mirrored decimal slow path, part 7: `d.set` + `d.floatBits` = the specification, and the
fully mirrored `ParseFloat` (no specification inside) = `parseFloatSpec`.
-/
import Proofs.Lemmas.C03DecSet

namespace C03
open Num Spec.NumText F64

/-- no step of the slow path's run on `s` dropped a non-zero digit from the 800-digit buffer -/
def NoTrunc (s : Bytes) : Prop := ∀ d, decSet s = some d → (floatBits d).trunc = false

/-- **the mirrored slow path = the specification**: `d.set(s); d.floatBits()` returns the
recogniser's verdict and, for an accepted decimal numeral with at most 800 significant digits,
the correctly rounded value with the range rule. -/
theorem slowPathMirror_spec (s : Bytes) (hu : underscoreOK s = true)
    (hmant : ∀ p, recognise s = some p → p.mant < 10 ^ 800) (hnt : NoTrunc s) :
    (slowPathMirror s).toExcept =
      match recognise s with
      | none => .error .syntax
      | some p => if p.hex then .error .syntax else (clampP p (expGapS s)).eval := by
  obtain ⟨k1, k2, k3⟩ := decSet_spec s hu
  unfold slowPathMirror
  cases hrec : recognise s with
  | none => rw [k1 hrec]; rfl
  | some p =>
    simp only []
    cases hph : p.hex
    · obtain ⟨d, e1, e2, e3, e4, e5, e6⟩ := k3 p hrec hph (hmant p hrec)
      rw [e1]
      simp only [Bool.false_eq_true, if_false]
      have hfin := hnt d e1
      have hfb := floatBits_correct d e2 e3 hfin
      have hte : (⟨(floatBits d).bits, if (floatBits d).ovf then some NumErr.range else none⟩ : FloatRes).toExcept
          = (floatBits d).toExcept := by
        unfold FloatRes.toExcept FbRes.toExcept
        cases (floatBits d).ovf <;> rfl
      rw [hte, hfb]
      by_cases hm0 : p.mant = 0
      · rw [if_pos (e5 hm0), eval_zero (clampP p (expGapS s)) hm0, e4]; rfl
      · obtain ⟨f1, f2⟩ := e6 hm0
        rw [if_neg f1, e4]
        symm
        apply eval_of_value (clampP p (expGapS s)) (Nat.pos_of_ne_zero hm0) _ _ (decFrac_snd_pos _ _)
        rw [dval_frac, f2]
    · rw [k2 p hrec hph]; rfl

/-- the fully mirrored `ParseFloat` agrees with the specification as soon as its slow path does -/
theorem parseFloatMirror_of_slow (s : Bytes)
    (hslow : underscoreOK s = true → (slowPathMirror s).toExcept =
      match recognise s with
      | none => .error .syntax
      | some p => if p.hex then .error .syntax else (clampP p (expGapS s)).eval) :
    (parseFloatMirror s).toExcept = parseFloatSpecG (expGapS s) s := by
  unfold parseFloatMirror parseFloatSpecG
  by_cases hu : underscoreOK s = true
  swap
  · simp only [Bool.not_eq_true] at hu
    have hrec := recognise_of_not_uok s hu
    have hsp : specialSpec s = none := by
      cases h : specialSpec s with
      | none => rfl
      | some b => rw [special_underscoreOK s b h] at hu; cases hu
    simp [hu, hsp, hrec, FloatRes.toExcept]
  simp only [hu, Bool.not_true, Bool.false_eq_true, if_false]
  unfold atof64Mirror
  rw [special_eq_spec]
  cases hsp : specialSpec s with
  | some b => simp [FloatRes.toExcept]
  | none =>
    simp only []
    obtain ⟨k1, k2⟩ := readFloat_recognise s hu
    have hslowM := hslow hu
    cases hrec : recognise s with
    | none =>
      have hok := k1 hrec
      simp only [hok, Bool.and_false, Bool.false_eq_true, if_false, Bool.false_and]
      rw [hrec] at hslowM
      exact hslowM
    | some p =>
      have ha0 := k2 p hrec
      have ha := agrees_clamp _ _ _ ha0
      have hok := ha.1
      have hhx : (readFloat s).hex = p.hex := ha.2.2.1
      rw [hrec] at hslowM
      simp only [] at hslowM
      cases hph : p.hex
      · -- decimal
        have hrh : (readFloat s).hex = false := by rw [hhx, hph]
        simp only [hrh, Bool.false_and, Bool.false_eq_true, if_false, hok, Bool.true_and]
        rw [hph] at hslowM
        simp only [Bool.false_eq_true, if_false] at hslowM
        cases hfast : (if (!(readFloat s).trunc) = true then
            atof64exact (readFloat s).mant (readFloat s).exp (readFloat s).neg else none) with
        | none => simp only []; exact hslowM
        | some f =>
          simp only [FloatRes.toExcept]
          have htr : (readFloat s).trunc = false := by
            cases h : (readFloat s).trunc
            · rfl
            · rw [h] at hfast; simp at hfast
          rw [htr] at hfast
          simp only [Bool.not_false, if_true] at hfast
          have hf := atof64exact_correct _ _ _ _ hfast
          have hno := exact_no_overflow _ _ _ _ hfast
          have hev := agrees_eval (readFloat s) (clampP p (expGapS s)) ha htr
          rw [← hev, hrh]
          unfold Parsed.eval
          simp only [Bool.false_eq_true, if_false, hno, hf]
      · -- hex
        have hrh : (readFloat s).hex = true := by rw [hhx, hph]
        simp only [hrh, hok, Bool.and_self, if_true]
        cases htr : (readFloat s).trunc
        · have hm64 := ha.2.2.2.1
          have hev := agrees_eval (readFloat s) (clampP p (expGapS s)) ha htr
          rw [(atofHex_spec _ _ _ hm64).1, ← hev, hrh]
        · exact hex_trunc_eval (readFloat s) (clampP p (expGapS s)) ha hph htr

/-- **parseFloatMirror_correct (runs without truncation)** — the FULLY MIRRORED model of
`bytesconv.ParseFloat(s, 64)` returns exactly what `parseFloatSpec` says, for every byte string
whose exponent literal is below the clamp, whose mantissa has at most 800 significant digits, and
on which the slow path drops no non-zero digit.  Superseded by `parseFloatMirror_full`
(C03TrMirror), which needs no such run condition. -/
theorem parseFloatMirror_eq_spec (s : Bytes) (hlit : expLit s < 100000)
    (hmant : ∀ p, recognise s = some p → p.mant < 10 ^ 800) (hnt : NoTrunc s) :
    (parseFloatMirror s).toExcept = parseFloatSpec s := by
  rw [parseFloatMirror_of_slow s (fun hu => slowPathMirror_spec s hu hmant hnt), parseFloatSpecG_small s hlit]

end C03
