/-
C12 helper lemmas: bisectBool and the bracketing loops of the generic InvCDF (exact instance).
-/
import Proofs.Lemmas.C12Dist

namespace C12
open Stats Stats.Dists

theorem bisectLoop_spec (f : ℚ → Bool) (xtol : ℚ) : ∀ (fuel : ℕ) (low high : ℚ) (flow : Bool),
    low < high → f low = flow → f high = !flow →
    low ≤ (bisectLoop f xtol fuel low high flow).1 ∧
    (bisectLoop f xtol fuel low high flow).1 < (bisectLoop f xtol fuel low high flow).2 ∧
    (bisectLoop f xtol fuel low high flow).2 ≤ high ∧
    f (bisectLoop f xtol fuel low high flow).1 = flow ∧
    f (bisectLoop f xtol fuel low high flow).2 = !flow ∧
    (high - low ≤ xtol * 2 ^ fuel →
      (bisectLoop f xtol fuel low high flow).2 - (bisectLoop f xtol fuel low high flow).1 ≤ xtol) := by
  intro fuel
  induction fuel with
  | zero =>
    intro low high flow h hl hh
    simp only [bisectLoop]
    exact ⟨le_refl _, h, le_refl _, hl, hh, by intro hw; simpa using hw⟩
  | succ n ih =>
    intro low high flow h hl hh
    simp only [bisectLoop, sub_rat, le_rat, add_rat, div_rat, ofNat_rat, Bool.or_eq_true, eq_rat]
    by_cases hw : high - low ≤ xtol
    · rw [if_pos hw]
      exact ⟨le_refl _, h, le_refl _, hl, hh, fun _ => hw⟩
    · rw [if_neg hw]
      have hm1 : low < (high + low) / ((2 : ℕ) : ℚ) := by push_cast; linarith
      have hm2 : (high + low) / ((2 : ℕ) : ℚ) < high := by push_cast; linarith
      have hwid : ∀ n : ℕ, high - low ≤ xtol * 2 ^ (n + 1) →
          high - (high + low) / ((2 : ℕ) : ℚ) ≤ xtol * 2 ^ n ∧
          (high + low) / ((2 : ℕ) : ℚ) - low ≤ xtol * 2 ^ n := by
        intro n hwid
        have : (high - low) ≤ xtol * 2 ^ n * 2 := by rw [pow_succ] at hwid; linarith
        push_cast
        constructor <;> linarith
      generalize (high + low) / ((2 : ℕ) : ℚ) = mid at hm1 hm2 hwid ⊢
      have hne : ¬ (mid = high ∨ mid = low) := by
        rintro (e | e)
        · exact absurd e (ne_of_lt hm2)
        · exact absurd e (ne_of_gt hm1)
      rw [if_neg hne]
      by_cases hf : f mid = flow
      · have hf' : (f mid == flow) = true := by rw [hf]; simp
        rw [if_pos hf']
        obtain ⟨a, b, c, d, e, g⟩ := ih _ high flow hm2 hf hh
        exact ⟨le_trans hm1.le a, b, c, d, e, fun hw' => g (hwid n hw').1⟩
      · have hf' : ¬ (f mid == flow) = true := by
          intro hc; exact hf (by simpa using hc)
        rw [if_neg hf']
        have hmid : f mid = !flow := by
          cases hv : f mid <;> cases flow <;> simp_all
        obtain ⟨a, b, c, d, e, g⟩ := ih low _ flow hm1 hl hmid
        exact ⟨a, b, le_trans c hm2.le, d, e, fun hw' => g (hwid n hw').2⟩

/-- upward bracketing: entered with cdf hi < y, a result (a, b) satisfies cdf a < y ≤ cdf b, a < b -/
theorem bracketUp_spec (cdf : ℚ → ℚ) (y : ℚ) : ∀ (fuel : ℕ) (lo hi xd : ℚ) (a b : ℚ),
    0 < xd → cdf hi < y → bracketUp cdf y fuel lo hi (cdf hi) xd = some (a, b) →
    cdf a < y ∧ y ≤ cdf b ∧ a < b := by
  intro fuel
  induction fuel with
  | zero => intro lo hi xd a b _ _ h; simp [bracketUp] at h
  | succ n ih =>
    intro lo hi xd a b hxd hlt h
    simp only [bracketUp, lt_rat, isInf_rat, Bool.not_false, Bool.and_true, hlt, if_true, add_rat,
      mul_rat, ofNat_rat, decide_true] at h
    by_cases h2 : cdf (hi + xd) < y
    · exact ih _ _ _ a b (by positivity) h2 h
    · cases n with
      | zero => simp [bracketUp] at h
      | succ m =>
        simp only [bracketUp, lt_rat, h2, isInf_rat, Bool.not_false, Bool.and_true, if_false,
          decide_false, Bool.false_eq_true] at h
        injection h with h
        injection h with ha hb
        subst ha hb
        exact ⟨hlt, not_lt.mp h2, by linarith⟩

/-- downward bracketing: entered with y ≤ cdf lo, a result (a, b) satisfies cdf a < y ≤ cdf b, a < b -/
theorem bracketDown_spec (cdf : ℚ → ℚ) (y : ℚ) : ∀ (fuel : ℕ) (lo hi xd : ℚ) (a b : ℚ),
    0 < xd → y ≤ cdf lo → bracketDown cdf y fuel lo (cdf lo) hi xd = some (a, b) →
    cdf a < y ∧ y ≤ cdf b ∧ a < b := by
  intro fuel
  induction fuel with
  | zero => intro lo hi xd a b _ _ h; simp [bracketDown] at h
  | succ n ih =>
    intro lo hi xd a b hxd hle h
    simp only [bracketDown, le_rat, isInf_rat, Bool.not_false, Bool.and_true, hle, if_true, sub_rat,
      mul_rat, ofNat_rat, decide_true] at h
    by_cases h2 : y ≤ cdf (lo - xd)
    · exact ih _ _ _ a b (by positivity) h2 h
    · cases n with
      | zero => simp [bracketDown] at h
      | succ m =>
        simp only [bracketDown, le_rat, h2, isInf_rat, Bool.not_false, Bool.and_true, if_false,
          decide_false, Bool.false_eq_true] at h
        injection h with h
        injection h with ha hb
        subst ha hb
        exact ⟨not_le.mp h2, hle, by linarith⟩

end C12
