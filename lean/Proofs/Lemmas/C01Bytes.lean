/-
C01 helper lemmas, part 5: from lines to bytes and from `WF` to the per-record hypotheses.
* `lines_render`: splitting the rendered bytes gives the lines back (no line holds LF or ends in CR)
* `recGood_of_wf`, `unitsFresh_of_wf`
* observations: `Obs.abs (observe r) = aobsRec r` for records with distinct keys
-/
import Proofs.Lemmas.C01Tokens
import Model.Fmt.ReaderLimit

namespace C01
open Fmt Spec.RoundTrip

/-! ### lines ↔ bytes -/

/-- a line that survives `bufio.ScanLines`: no LF inside, no CR at the end -/
def Clean (l : Bytes) : Prop := Bytes.hasByte l 10 = false ∧ l.getLast? ≠ some 13

theorem dropCR_clean {l : Bytes} (h : l.getLast? ≠ some 13) : dropCR l = l := by
  unfold dropCR; simp [h]

/-- `bufio.ScanLines` over a line followed by LF -/
theorem splitLinesAux_line (R : Bytes) : ∀ (l cur : Bytes), Bytes.hasByte l 10 = false →
    splitLinesAux cur (l ++ 10 :: R) = dropCR (cur.reverse ++ l) :: splitLinesAux [] R := by
  intro l
  induction l with
  | nil => intro cur _; simp [splitLinesAux]
  | cons c l ih =>
    intro cur h
    simp only [Bytes.hasByte, List.any_cons, Bool.or_eq_false_iff] at h
    have hc : (c == 10) = false := h.1
    have := ih (c :: cur) (by simpa [Bytes.hasByte] using h.2)
    simp only [List.cons_append, splitLinesAux, hc, Bool.false_eq_true, ↓reduceIte, this]
    simp

theorem render_cons (l : Bytes) (ls : List Bytes) : render (l :: ls) = l ++ 10 :: render ls := by
  simp [render]

/-- the reader's line scanner gives back the lines that were rendered -/
theorem splitLines_render : ∀ ls : List Bytes, (∀ l ∈ ls, Clean l) → splitLines (render ls) = ls := by
  intro ls
  induction ls with
  | nil => intro _; simp [render, splitLines, splitLinesAux]
  | cons l ls ih =>
    intro h
    have hl := h l List.mem_cons_self
    have := ih (fun l' h' => h l' (List.mem_cons_of_mem _ h'))
    unfold splitLines at this ⊢
    rw [render_cons, splitLinesAux_line _ l [] hl.1, this]
    simp [dropCR_clean hl.2]

/-! ### the 64 KiB line limit of the reader (`bufio.MaxScanTokenSize`, C02's `ReaderLimit.lean`) -/

theorem splitLinesLimAux_line (R : Bytes) : ∀ (l cur : Bytes), Bytes.hasByte l 10 = false →
    cur.length + l.length < maxToken →
    splitLinesLimAux cur (l ++ 10 :: R) =
      (dropCR (cur.reverse ++ l) :: (splitLinesLimAux [] R).1, (splitLinesLimAux [] R).2) := by
  intro l
  induction l with
  | nil =>
    intro cur _ hlen
    have : ¬ maxToken ≤ cur.length := by simp at hlen; omega
    simp [splitLinesLimAux, this]
  | cons c l ih =>
    intro cur h hlen
    simp only [Bytes.hasByte, List.any_cons, Bool.or_eq_false_iff] at h
    have hc : (c == 10) = false := h.1
    have := ih (c :: cur) (by simpa [Bytes.hasByte] using h.2)
      (by simp only [List.length_cons] at hlen ⊢; omega)
    simp only [List.cons_append, splitLinesLimAux, hc, Bool.false_eq_true, ↓reduceIte, this]
    simp

/-- lines that are clean and shorter than 64 KiB come back from the limited scanner, which does
not stop with `ErrTooLong` -/
theorem splitLinesLim_render : ∀ ls : List Bytes, (∀ l ∈ ls, Clean l) → (∀ l ∈ ls, l.length < maxToken) →
    splitLinesLim (render ls) = (ls, false) := by
  intro ls
  induction ls with
  | nil => intro _ _; simp [render, splitLinesLim, splitLinesLimAux]
  | cons l ls ih =>
    intro h hlen
    have hl := h l List.mem_cons_self
    have := ih (fun l' h' => h l' (List.mem_cons_of_mem _ h')) (fun l' h' => hlen l' (List.mem_cons_of_mem _ h'))
    unfold splitLinesLim at this ⊢
    rw [render_cons, splitLinesLimAux_line _ l [] hl.1 (by simpa using hlen l List.mem_cons_self), this]
    simp [dropCR_clean hl.2]

/-! ### observations -/

/-- an observation with its file map read as a function -/
def Obs.abs : Obs → AObs
  | .result name iters vals fm => .result name iters vals (fun k => List.lookup k fm)
  | .unit o k v t => .unit o k v t
  | .err m => .err m

theorem lookup_fileMap (config : List Cfg) (hnd : (config.map Cfg.key).Nodup) (k : Bytes) :
    List.lookup k (fileMap config) = fmOf (cfgGet config) k := by
  induction config with
  | nil => simp [fileMap, fmOf, cfgGet_eq]
  | cons c cs ih =>
    simp only [List.map_cons, List.nodup_cons] at hnd
    have ih' := ih hnd.2
    unfold fmOf at ih' ⊢
    rw [cfgGet_cons]
    by_cases hk : c.key = k
    · subst hk
      have hnone : List.lookup c.key (fileMap cs) = none := by
        rw [ih']
        have : cfgGet cs c.key = none := by
          cases hh : cfgGet cs c.key with
          | none => rfl
          | some x =>
            have := (cfgGet_isSome_iff cs c.key).1 (by simp [hh])
            exact absurd this hnd.1
        simp [this]
      by_cases hf : c.file = true
      · simp [fileMap, List.filter_cons, hf, List.lookup_cons]
      · have hf' : c.file = false := by simpa using hf
        simp only [fileMap, List.filter_cons, hf', Bool.false_eq_true, ↓reduceIte] at hnone ⊢
        simp [hnone]
    · have hb : (k == c.key) = false := by simpa using fun e => hk e.symm
      by_cases hf : c.file = true
      · simp only [fileMap, List.filter_cons, hf, ↓reduceIte, List.map_cons, List.lookup_cons, hb, hk] at ih' ⊢
        exact ih'
      · have hf' : c.file = false := by simpa using hf
        simp only [fileMap, List.filter_cons, hf', Bool.false_eq_true, ↓reduceIte, hk] at ih' ⊢
        exact ih'

theorem obs_abs_rec (r : Rec)
    (hnd : ∀ res, r = .result res → (res.config.map Cfg.key).Nodup) :
    Obs.abs (observe r) = aobsRec r := by
  cases r with
  | result res =>
    simp only [observe, Obs.abs, aobsRec, AObs.result.injEq, true_and]
    funext k
    exact lookup_fileMap res.config (hnd res rfl) k
  | unit u => rfl
  | err e => rfl

theorem observeWritten_eq (h : List Rec) : observeWritten h = (kept h).map observe := by
  induction h with
  | nil => rfl
  | cons r rs ih =>
    cases r <;> simp_all [observeWritten, kept, List.filter_cons]

/-! ### from `WF` to the per-record hypotheses -/

theorem distinct_nodup : ∀ ks : List Bytes, distinct ks = true → ks.Nodup := by
  intro ks
  induction ks with
  | nil => intro _; exact List.nodup_nil
  | cons k ks ih =>
    intro h
    simp only [distinct, Bool.and_eq_true, Bool.not_eq_true', List.contains_eq_mem,
      decide_eq_false_iff_not] at h
    exact List.nodup_cons.2 ⟨h.1, ih h.2⟩

theorem written_snd (v : Val) : v.written.2 = if v.origUnit.isEmpty then v.unit else v.origUnit := by
  unfold Val.written; split <;> rfl

theorem recGood_of_ok (O : Oracles) (P : WParams) (r : Rec)
    (hnum : ∀ res, r = .result res → ResNumOK O P res) (h : recOKnoCR O r = true) : RecGood O P r := by
  cases r with
  | err e => trivial
  | unit u => exact unitGood_of_ok O u h
  | result res =>
    simp only [recOKnoCR, resOKnoCR, Bool.and_eq_true, List.all_eq_true, Bool.not_eq_true'] at h
    obtain ⟨⟨⟨⟨hd, hc⟩, hv⟩, hn⟩, hu⟩ := h
    refine ⟨distinct_nodup _ hd, fun c hcm => cfgGood_of_ok O (hc c hcm), ?_⟩
    apply benchGood_of_ok O P res (hnum res rfl) hn
    · intro he; rw [he] at hv; simp at hv
    · intro v hvm
      have := hu v hvm
      simp only [valOK, Bool.and_eq_true, Bool.not_eq_true'] at this
      rw [written_snd]
      refine ⟨?_, this.2⟩
      intro he; rw [he] at this; simp at this

theorem unitMap_get_insert (units : UnitMap) (u : UnitMeta) (a b : Bytes) :
    (units.insert u).get a b = match units.get a b with
      | some x => some x
      | none => if u.unit = a ∧ u.key = b then some u else none := by
  unfold UnitMap.get UnitMap.insert
  rw [List.find?_append]
  cases hh : units.find? (fun u => u.unit == a && u.key == b) with
  | some x => simp
  | none =>
    simp only [Option.none_or, List.find?_cons, List.find?_nil]
    by_cases hc : u.unit = a ∧ u.key = b
    · simp [hc]
    · have : (u.unit == a && u.key == b) = false := by
        simp only [Bool.and_eq_false_iff, beq_eq_false_iff_ne, ne_eq]
        by_cases h1 : u.unit = a
        · right; intro h2; exact hc ⟨h1, h2⟩
        · left; exact h1
      simp [this, hc]

theorem unitsFresh_of_distinct : ∀ (h : List Rec) (units : UnitMap),
    (∀ p ∈ unitKeys h, units.get p.1 p.2 = none) → distinctPairs (unitKeys h) = true →
    UnitsFresh units h := by
  intro h
  induction h with
  | nil => intro _ _ _; trivial
  | cons r rs ih =>
    intro units hnone hd
    cases r with
    | err e =>
      exact ih units (by simpa [unitKeys] using hnone) (by simpa [unitKeys] using hd)
    | result res =>
      exact ih units (by simpa [unitKeys] using hnone) (by simpa [unitKeys] using hd)
    | unit u =>
      have hk : unitKeys (Rec.unit u :: rs) = (u.unit, u.key) :: unitKeys rs := by simp [unitKeys]
      rw [hk] at hnone hd
      simp only [distinctPairs, Bool.and_eq_true, Bool.not_eq_true', List.contains_eq_mem,
        decide_eq_false_iff_not] at hd
      refine ⟨hnone _ List.mem_cons_self, fun fn n => ih _ ?_ hd.2⟩
      intro p hp
      rw [unitMap_get_insert, hnone p (List.mem_cons_of_mem _ hp)]
      have : ¬ (u.unit = p.1 ∧ u.key = p.2) := by
        intro ⟨h1, h2⟩
        apply hd.1
        have : p = (u.unit, u.key) := by cases p; simp_all
        rw [← this]; exact hp
      simp [this]

end C01
