/-
C10 — lifting the finite boundary table (`C10.boundary_table`, kernel evaluation at the thresholds
and their predecessors) to EVERY finite positive float64, by monotonicity:

  value a ≤ value b  →  printedK a f p ≤ printedK b f p          (`printedK_mono`)

which composes `F64.div_mono` (correctly rounded division is monotone in the dividend),
`F64.val_mono` (bit-pattern order = value order on sign-free patterns) and `C10.fmtFixed_mono`.
-/
import Proofs.C10
import Proofs.Lemmas.F64Div
import Proofs.Lemmas.F64Arith

namespace C10
open F64 Unit.Scale

/-- printing is monotone in the pattern for sign-free patterns (no division involved) -/
theorem fixedScaled_mono_bits (a b : Bits) (p : Nat) (hb : b.toNat < 2 ^ 63)
    (h : a.toNat ≤ b.toNat) : fixedScaled a p ≤ fixedScaled b p :=
  fmtFixed_mono a b p (vle_of_toNat_le a b hb h)

/-- **printedK_mono** — for finite positive a, b, factor: value a ≤ value b (cross-multiplied
`toFrac` fractions, the vocabulary of `fmtFixed_mono`) implies that the integer printed for
a/factor is ≤ the one printed for b/factor, at every precision. -/
theorem printedK_mono (a b f : Bits) (p : Nat) (ha : PosFin a) (hb : PosFin b) (hf : PosFin f)
    (h : vle a b) : printedK a f p ≤ printedK b f p := by
  unfold printedK
  exact fixedScaled_mono_bits _ _ p (div_signBit b f hb hf) (div_mono a b f ha hb hf h)

/-- the same with the order given on the bit patterns -/
theorem printedK_mono_bits (a b f : Bits) (p : Nat) (ha : PosFin a) (hb : PosFin b) (hf : PosFin f)
    (h : a.toNat ≤ b.toNat) : printedK a f p ≤ printedK b f p :=
  printedK_mono a b f p ha hb hf (vle_of_toNat_le a b hb.lt63 h)

/-- everything at or above a threshold prints at least what the threshold prints -/
theorem printedK_ge_of_ge (t x f : Bits) (p c : Nat) (ht : PosFin t) (hx : PosFin x) (hf : PosFin f)
    (hc : c ≤ printedK t f p) (h : t.toNat ≤ x.toNat) : c ≤ printedK x f p :=
  Nat.le_trans hc (printedK_mono_bits t x f p ht hx hf h)

theorem pred_toNat (t : Bits) (ht : 0 < t.toNat) : (pred t).toNat = t.toNat - 1 := by
  unfold pred
  have h1 : (1 : UInt64).toNat = 1 := by decide
  have : (1 : UInt64) ≤ t := by rw [UInt64.le_iff_toNat_le, h1]; omega
  rw [UInt64.toNat_sub_of_le _ _ this, h1]

/-- everything strictly below a threshold prints less than what `pred t` is bounded by -/
theorem printedK_lt_of_lt (t x f : Bits) (p c : Nat) (ht : PosFin (pred t)) (hx : PosFin x)
    (hf : PosFin f) (hc : printedK (pred t) f p < c) (h : x.toNat < t.toNat) :
    printedK x f p < c := by
  have h1 := pred_toNat t (by omega)
  exact Nat.lt_of_le_of_lt (printedK_mono_bits x (pred t) f p hx ht hf (by omega)) hc

/-! ### the tables consist of finite positive floats (kernel evaluation) -/

def posFinB (b : Bits) : Bool := decide (0 < b.toNat) && decide (b.toNat < 0x7FF0000000000000)

theorem posFinB_iff (b : Bits) : posFinB b = true ↔ PosFin b := by
  unfold posFinB PosFin; simp

def factorPosFin (f : Factor) : Bool :=
  posFinB f.factor && posFinB f.t100 && posFinB (pred f.t100) && posFinB f.t10 &&
  posFinB (pred f.t10) && posFinB f.t1 && posFinB (pred f.t1)

theorem tables_posFin :
    (siFactors.all factorPosFin && iecFactors.all factorPosFin &&
      sigfigs.all (fun t => posFinB t && posFinB (pred t))) = true := by decide +kernel

theorem factor_posFin (f : Factor) (hf : f ∈ siFactors ∨ f ∈ iecFactors) :
    PosFin f.factor ∧ PosFin f.t100 ∧ PosFin (pred f.t100) ∧ PosFin f.t10 ∧ PosFin (pred f.t10) ∧
    PosFin f.t1 ∧ PosFin (pred f.t1) := by
  have h := tables_posFin
  simp only [Bool.and_eq_true, List.all_eq_true] at h
  have hf' : factorPosFin f = true := by
    rcases hf with hf | hf
    · exact h.1.1 f hf
    · exact h.1.2 f hf
  unfold factorPosFin at hf'
  simp only [Bool.and_eq_true, posFinB_iff] at hf'
  obtain ⟨⟨⟨⟨⟨⟨h1, h2⟩, h3⟩, h4⟩, h5⟩, h6⟩, h7⟩ := hf'
  exact ⟨h1, h2, h3, h4, h5, h6, h7⟩

/-! ### rows of the table -/

theorem tableOK_mem (top : Nat) : ∀ (fs : List Factor), tableOK top fs = true → ∀ f ∈ fs,
    ∃ lower, rowOK f lower top = true
  | [], _, f, hf => by cases hf
  | [g], h, f, hf => by
    rw [List.mem_singleton] at hf; subst hf
    exact ⟨none, by simpa [tableOK] using h⟩
  | g :: g' :: rest, h, f, hf => by
    rw [tableOK.eq_3, Bool.and_eq_true] at h
    rcases List.mem_cons.mp hf with hf | hf
    · subst hf; exact ⟨some g', h.1⟩
    · exact tableOK_mem top (g' :: rest) h.2 f hf

/-- consecutive rows: the upper row was checked against the lower one -/
theorem tableOK_adjacent (top : Nat) : ∀ (fs : List Factor), tableOK top fs = true →
    ∀ (i : Nat) (f g : Factor), fs[i]? = some f → fs[i + 1]? = some g → rowOK f (some g) top = true
  | [], _, i, f, g, h1, _ => by simp at h1
  | [_], _, i, f, g, _, h2 => by simp at h2
  | a :: b :: rest, h, i, f, g, h1, h2 => by
    rw [tableOK.eq_3, Bool.and_eq_true] at h
    cases i with
    | zero =>
      simp only [List.getElem?_cons_zero, List.getElem?_cons_succ, Option.some.injEq, Nat.zero_add] at h1 h2
      subst h1; subst h2; exact h.1
    | succ j =>
      simp only [List.getElem?_cons_succ] at h1 h2
      exact tableOK_adjacent top (b :: rest) h.2 j f g h1 (by simpa using h2)

theorem table_si : tableOK 10000 siFactors = true := by
  have h := boundary_table
  unfold boundaryOK at h
  simp only [Bool.and_eq_true] at h
  exact h.1.1

theorem table_iec : tableOK 10240 iecFactors = true := by
  have h := boundary_table
  unfold boundaryOK at h
  simp only [Bool.and_eq_true] at h
  exact h.1.2

theorem table_sigfig : sigfigOK sigfigs 0 = true := by
  have h := boundary_table
  unfold boundaryOK at h
  simp only [Bool.and_eq_true] at h
  exact h.2

/-- what `rowOK` establishes at the six boundary points of a row -/
theorem rowOK_points (f : Factor) (lower : Option Factor) (top : Nat) (h : rowOK f lower top = true) :
    1000 ≤ printedK f.t100 f.factor 1 ∧ printedK (pred f.t100) f.factor 2 < 10000 ∧
    1000 ≤ printedK f.t10 f.factor 2 ∧ printedK (pred f.t10) f.factor 3 < 10000 ∧
    1000 ≤ printedK f.t1 f.factor 3 := by
  unfold rowOK at h
  simp only [Bool.and_eq_true, decide_eq_true_eq, ge_iff_le] at h
  obtain ⟨⟨⟨⟨⟨⟨⟨h1, h2⟩, h3⟩, h4⟩, h5⟩, _⟩, _⟩, _⟩ := h
  exact ⟨h1, h2, h3, h4, h5⟩

theorem rowOK_lower (f g : Factor) (top : Nat) (h : rowOK f (some g) top = true) :
    printedK (pred f.t1) g.factor 1 < top := by
  unfold rowOK at h
  simp only [Bool.and_eq_true, decide_eq_true_eq, ge_iff_le] at h
  exact h.1.1.2.1

/-- **row_lift** — for every row f of the SI or IEC prefix table and EVERY finite positive float x
(pattern order = value order):
  t100 ≤ x          → x/factor prints with 1 decimal  as ≥ 100.0   (k ≥ 1000)
  x < t100          → x/factor prints with 2 decimals as < 100.00  (k < 10000)
  t10 ≤ x           → x/factor prints with 2 decimals as ≥ 10.00
  x < t10           → x/factor prints with 3 decimals as < 10.000
  t1 ≤ x            → x/factor prints with 3 decimals as ≥ 1.000
so on [t10, t100) the 2-decimal rendering has exactly four significant digits, etc. -/
theorem row_lift (f : Factor) (hf : f ∈ siFactors ∨ f ∈ iecFactors) (x : Bits) (hx : PosFin x) :
    (f.t100.toNat ≤ x.toNat → 1000 ≤ printedK x f.factor 1) ∧
    (x.toNat < f.t100.toNat → printedK x f.factor 2 < 10000) ∧
    (f.t10.toNat ≤ x.toNat → 1000 ≤ printedK x f.factor 2) ∧
    (x.toNat < f.t10.toNat → printedK x f.factor 3 < 10000) ∧
    (f.t1.toNat ≤ x.toNat → 1000 ≤ printedK x f.factor 3) := by
  obtain ⟨pf, p1, p2, p3, p4, p5, _⟩ := factor_posFin f hf
  have hrow : ∃ lower top, rowOK f lower top = true := by
    rcases hf with hf | hf
    · obtain ⟨l, hl⟩ := tableOK_mem _ _ table_si f hf; exact ⟨l, _, hl⟩
    · obtain ⟨l, hl⟩ := tableOK_mem _ _ table_iec f hf; exact ⟨l, _, hl⟩
  obtain ⟨lower, top, hrow⟩ := hrow
  obtain ⟨r1, r2, r3, r4, r5⟩ := rowOK_points f lower top hrow
  exact ⟨printedK_ge_of_ge _ _ _ _ _ p1 hx pf r1, printedK_lt_of_lt _ _ _ _ _ p2 hx pf r2,
    printedK_ge_of_ge _ _ _ _ _ p3 hx pf r3, printedK_lt_of_lt _ _ _ _ _ p4 hx pf r4,
    printedK_ge_of_ge _ _ _ _ _ p5 hx pf r5⟩

/-- **row_lift_lower** — for consecutive rows f, g (g the next smaller prefix) every finite positive
x below f.t1 prints with g's factor and one decimal below the top of g's range
(< 1000.0 for SI, < 1024.0 for IEC). -/
theorem row_lift_lower (fs : List Factor) (top : Nat)
    (hfs : (fs = siFactors ∧ top = 10000) ∨ (fs = iecFactors ∧ top = 10240))
    (i : Nat) (f g : Factor) (h1 : fs[i]? = some f) (h2 : fs[i + 1]? = some g)
    (x : Bits) (hx : PosFin x) (h : x.toNat < f.t1.toNat) : printedK x g.factor 1 < top := by
  have hmf : f ∈ fs := List.mem_of_getElem? h1
  have hmg : g ∈ fs := List.mem_of_getElem? h2
  have hrow : rowOK f (some g) top = true := by
    rcases hfs with ⟨rfl, rfl⟩ | ⟨rfl, rfl⟩
    · exact tableOK_adjacent _ _ table_si i f g h1 h2
    · exact tableOK_adjacent _ _ table_iec i f g h1 h2
  have hin : ∀ k ∈ fs, k ∈ siFactors ∨ k ∈ iecFactors := by
    intro k hk
    rcases hfs with ⟨rfl, _⟩ | ⟨rfl, _⟩
    · exact Or.inl hk
    · exact Or.inr hk
  obtain ⟨_, _, _, _, _, _, p7⟩ := factor_posFin f (hin f hmf)
  obtain ⟨pg, _⟩ := factor_posFin g (hin g hmg)
  exact printedK_lt_of_lt _ _ _ _ _ p7 hx pg (rowOK_lower f g top hrow) h

/-! ### below the smallest prefix: thresholds on the quotient -/

theorem sigfigOK_get : ∀ (ts : List Bits) (i0 : Nat), sigfigOK ts i0 = true →
    ∀ (i : Nat) (t : Bits), ts[i]? = some t →
      1000 ≤ fixedScaled t (i0 + i + Generated.ScaleFacts.sigfigsBase) ∧
      fixedScaled (pred t) (i0 + i + Generated.ScaleFacts.sigfigsBase + 1) < 10000
  | [], _, _, i, t, h => by simp at h
  | a :: rest, i0, hok, i, t, h => by
    rw [sigfigOK.eq_2] at hok
    simp only [Bool.and_eq_true, decide_eq_true_eq, ge_iff_le] at hok
    cases i with
    | zero =>
      simp only [List.getElem?_cons_zero, Option.some.injEq] at h
      subst h
      exact ⟨hok.1.1, hok.1.2⟩
    | succ j =>
      simp only [List.getElem?_cons_succ] at h
      have := sigfigOK_get rest (i0 + 1) hok.2 j t h
      have e : i0 + 1 + j = i0 + (j + 1) := by omega
      rw [e] at this
      exact this

/-- **sigfig_lift** — for the i-th sub-prefix threshold t and EVERY sign-free quotient v (finite or
not): t ≤ v → v prints with i+3 decimals as ≥ 1000 units; v < t → v prints with i+4 decimals as
< 10000 units. -/
theorem sigfig_lift (i : Nat) (t : Bits) (ht : sigfigs[i]? = some t) (v : Bits) (hv : v.toNat < 2 ^ 63) :
    (t.toNat ≤ v.toNat → 1000 ≤ fixedScaled v (i + Generated.ScaleFacts.sigfigsBase)) ∧
    (v.toNat < t.toNat → fixedScaled v (i + Generated.ScaleFacts.sigfigsBase + 1) < 10000) := by
  have hmem : t ∈ sigfigs := List.mem_of_getElem? ht
  have hp := tables_posFin
  simp only [Bool.and_eq_true, List.all_eq_true, posFinB_iff] at hp
  obtain ⟨pt, ppt⟩ := hp.2 t hmem
  have hk := sigfigOK_get sigfigs 0 table_sigfig i t ht
  rw [Nat.zero_add] at hk
  constructor
  · intro h
    exact Nat.le_trans hk.1 (fixedScaled_mono_bits t v _ hv h)
  · intro h
    have e := pred_toNat t pt.1
    exact Nat.lt_of_le_of_lt (fixedScaled_mono_bits v (pred t) _ ppt.lt63 (by omega)) hk.2

/-! ### negative values: sign + the same digits -/

theorem fixedScaled_neg (b : Bits) (p : Nat) : fixedScaled (F64.neg b) p = fixedScaled b p := by
  unfold fixedScaled; rw [mant_neg, expo_neg]

theorem fixedScaled_abs (b : Bits) (p : Nat) : fixedScaled (F64.abs b) p = fixedScaled b p := by
  unfold fixedScaled; rw [mant_abs, expo_abs]

/-- **printedK_abs** — the digits printed for a finite non-zero x of either sign are those printed
for |x| (`x/f = −(|x|/f)` exactly, by symmetry of round-to-nearest-even). -/
theorem printedK_abs (x f : Bits) (p : Nat) (hx : isFinite x = true) (zx : isZero x = false)
    (hf : PosFin f) : printedK x f p = printedK (F64.abs x) f p := by
  cases hs : signBit x
  · rw [abs_of_signBit_false x hs]
  · have hp := posFin_abs x hx zx
    have e : x = F64.neg (F64.abs x) := (neg_abs_of_signBit_true x hs).symm
    unfold printedK
    conv_lhs => rw [e]
    rw [div_neg_dividend (F64.abs x) f hp.isFinite hp.isZero hf.isFinite hf.isZero, fixedScaled_neg]

/-- **printedK_mono_abs** — monotone in |x| for operands of either sign -/
theorem printedK_mono_abs (a b f : Bits) (p : Nat) (ha : isFinite a = true) (za : isZero a = false)
    (hb : isFinite b = true) (zb : isZero b = false) (hf : PosFin f)
    (h : (F64.abs a).toNat ≤ (F64.abs b).toNat) : printedK a f p ≤ printedK b f p := by
  rw [printedK_abs a f p ha za hf, printedK_abs b f p hb zb hf]
  exact printedK_mono_bits _ _ f p (posFin_abs a ha za) (posFin_abs b hb zb) hf h

/-- **row_lift_signed** — `row_lift` for every finite non-zero x of either sign, thresholds compared
with |x| (as `commonScale` does: it takes `F64.abs` of the values first). -/
theorem row_lift_signed (f : Factor) (hf : f ∈ siFactors ∨ f ∈ iecFactors) (x : Bits)
    (hx : isFinite x = true) (zx : isZero x = false) :
    (f.t100.toNat ≤ (F64.abs x).toNat → 1000 ≤ printedK x f.factor 1) ∧
    ((F64.abs x).toNat < f.t100.toNat → printedK x f.factor 2 < 10000) ∧
    (f.t10.toNat ≤ (F64.abs x).toNat → 1000 ≤ printedK x f.factor 2) ∧
    ((F64.abs x).toNat < f.t10.toNat → printedK x f.factor 3 < 10000) ∧
    (f.t1.toNat ≤ (F64.abs x).toNat → 1000 ≤ printedK x f.factor 3) := by
  have pf := (factor_posFin f hf).1
  rw [printedK_abs x f.factor 1 hx zx pf, printedK_abs x f.factor 2 hx zx pf,
    printedK_abs x f.factor 3 hx zx pf]
  exact row_lift f hf (F64.abs x) (posFin_abs x hx zx)

theorem row_lift_lower_signed (fs : List Factor) (top : Nat)
    (hfs : (fs = siFactors ∧ top = 10000) ∨ (fs = iecFactors ∧ top = 10240))
    (i : Nat) (f g : Factor) (h1 : fs[i]? = some f) (h2 : fs[i + 1]? = some g)
    (x : Bits) (hx : isFinite x = true) (zx : isZero x = false)
    (h : (F64.abs x).toNat < f.t1.toNat) : printedK x g.factor 1 < top := by
  have hmg : g ∈ fs := List.mem_of_getElem? h2
  have hin : g ∈ siFactors ∨ g ∈ iecFactors := by
    rcases hfs with ⟨rfl, _⟩ | ⟨rfl, _⟩
    · exact Or.inl hmg
    · exact Or.inr hmg
  rw [printedK_abs x g.factor 1 hx zx (factor_posFin g hin).1]
  exact row_lift_lower fs top hfs i f g h1 h2 (F64.abs x) (posFin_abs x hx zx) h

/-- **fmtFixed_neg** — a finite negative float prints as "-" followed by the text of its absolute
value. -/
theorem fmtFixed_neg (c : Bits) (hc : isFinite c = true) (hs : signBit c = false) (p : Nat) :
    fmtFixed (F64.neg c) p = "-" ++ fmtFixed c p := by
  unfold fmtFixed
  simp only [isNaN_neg, isInf_neg, isNaN_of_finite hc, isInf_of_finite hc, signBit_neg, hs,
    fixedScaled_neg, Bool.not_false, Bool.false_eq_true, if_false, if_true, String.empty_append]

/-- **format_neg** — `Scaler.Format` of −v is "-" ++ `Format` of v, for finite positive v whose
scaled quotient is finite (it always is for the table's factors unless v/factor overflows). -/
theorem format_neg (s : Scaler) (v : Bits) (hv : PosFin v) (hf : PosFin s.factor)
    (hq : isFinite (div v s.factor) = true) :
    format s (F64.neg v) = "-" ++ format s v := by
  unfold format
  rw [div_neg_dividend v s.factor hv.isFinite hv.isZero hf.isFinite hf.isZero,
    fmtFixed_neg _ hq (by rw [signBit_false_iff]; exact div_signBit v s.factor hv hf), String.append_assoc]

/-- non-trivial instance of `printedK_mono`: 1234.0 ≤ 1234.5 with factor 1000.0, two decimals -/
example : printedK 0x4093480000000000 0x408F400000000000 2 ≤ printedK 0x40934A0000000000 0x408F400000000000 2 :=
  printedK_mono_bits _ _ _ _ (by decide) (by decide) (by decide) (by decide)

end C10
