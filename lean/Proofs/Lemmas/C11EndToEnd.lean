/-
C11: end-to-end statements for ACTUAL samples. The model of `MannWhitneyUTest`, on its exact branch,
returns the doubled pair-counting statistic and the p-value of the specification computed over all
assignments of the pooled actual values:

* `exact_outcome_shape`        the shape of the outcome on the exact branch (any CDF evaluator)
* `cdfPure_isCDFOf_nullDist`   the model's CDF (for the sizes and the tie vector of the samples) is the
                               distribution function of `nullDist x1 x2`, tied or not
* `less_exact`, `greater_exact`              one-sided p-values, tied or not
* `two_sided_exact_of_untied`                two-sided p-value for samples without ties
* `two_sided_exact_of_symmetric`             two-sided p-value whenever the null distribution is symmetric
* `mannWhitney_cdf_eq` and the `…_driver` corollaries: the same for the evaluator the compiled driver
  runs (`Stats.UDist.cdf`: memo table + count table)
-/
import Model.Stats.UDist
import Model.Stats.UStat
import Model.Spec.UExact
import Proofs.Lemmas.C11Rank
import Proofs.Lemmas.C11ErrIff
import Proofs.Lemmas.C11PFormulas
import Proofs.Lemmas.C11Compose
import Proofs.Lemmas.C11TiedCompose
import Proofs.Lemmas.C11Relabel
import Proofs.Lemmas.C11Memo
import Proofs.Lemmas.C11Count
import Mathlib.Data.List.Basic
import Mathlib.Data.List.Count
import Mathlib.Data.List.Dedup
import Mathlib.Data.List.Perm.Basic
import Mathlib.Tactic.Ring
import Mathlib.Tactic.Linarith

namespace C11.E2E
open Stats Stats.UStat Spec.UExact

/-! ### lists of naturals with the same counts -/

/-- two lists of values in which every predicate holds equally often (same multiset) -/
def CountEq (d d' : List Nat) : Prop := ∀ P : Nat → Bool, d.countP P = d'.countP P

theorem CountEq.symm {d d' : List Nat} (h : CountEq d d') : CountEq d' d := fun P => (h P).symm

theorem CountEq.length_eq {d d' : List Nat} (h : CountEq d d') : d.length = d'.length := by
  have := h (fun _ => true)
  simpa using this

theorem CountEq.filter_length {d d' : List Nat} (h : CountEq d d') (P : Nat → Bool) :
    (d.filter P).length = (d'.filter P).length := by
  rw [← List.countP_eq_length_filter, ← List.countP_eq_length_filter]
  exact h P

theorem CountEq.ne_nil {d d' : List Nat} (h : CountEq d d') (hne : d ≠ []) : d' ≠ [] := by
  intro h'
  have := h.length_eq
  rw [h'] at this
  exact hne (List.length_eq_zero_iff.mp this)

theorem pLess_of_countEq {d d' : List Nat} (h : CountEq d d') (u : Nat) : pLess d u = pLess d' u := by
  unfold pLess
  rw [h.filter_length, h.length_eq]

theorem pGreater_of_countEq {d d' : List Nat} (h : CountEq d d') (u : Nat) :
    pGreater d u = pGreater d' u := by
  unfold pGreater
  rw [h.filter_length, h.length_eq]

theorem pTwoSided_of_countEq {d d' : List Nat} (h : CountEq d d') (u : Nat) :
    pTwoSided d u = pTwoSided d' u := by
  unfold pTwoSided
  rw [pLess_of_countEq h, pGreater_of_countEq h]

/-- `IsCDFOf cdf dist` only depends on the counts of `dist` -/
theorem isCDFOf_of_countP_eq (cdf : Int → Rat) {d d' : List Nat} (h : CountEq d d')
    (hc : IsCDFOf cdf d) : IsCDFOf cdf d' := by
  intro v
  rw [hc v, h.filter_length, h.length_eq]

/-! ### the null distribution under a permutation of the pool, and of the canonical pool -/

section Pool
variable {α : Type} [LinearOrder α]

theorem countEq_perm (n : Nat) {pool pool' : List α} (h : pool.Perm pool') :
    CountEq (nullDistOf n pool) (nullDistOf n pool') :=
  fun P => nullDistOf_countP_perm n h P

theorem countEq_canonical (n : Nat) (pool : List α) :
    CountEq (nullDistOf n pool)
      (nullDistOf n (poolOf (tieVectorOf ((sortF pool).dedup) pool))) :=
  fun P => nullDistOf_canonical n pool P

theorem pLess_perm (n : Nat) {pool pool' : List α} (h : pool.Perm pool') (u : Nat) :
    pLess (nullDistOf n pool) u = pLess (nullDistOf n pool') u :=
  pLess_of_countEq (countEq_perm n h) u

theorem pGreater_perm (n : Nat) {pool pool' : List α} (h : pool.Perm pool') (u : Nat) :
    pGreater (nullDistOf n pool) u = pGreater (nullDistOf n pool') u :=
  pGreater_of_countEq (countEq_perm n h) u

theorem pTwoSided_perm (n : Nat) {pool pool' : List α} (h : pool.Perm pool') (u : Nat) :
    pTwoSided (nullDistOf n pool) u = pTwoSided (nullDistOf n pool') u :=
  pTwoSided_of_countEq (countEq_perm n h) u

/-- the null distribution of the actual samples has the counts of the one of the canonical pool of
    the model's tie vector -/
theorem countEq_nullDist_poolOf (x1 x2 : List α) :
    CountEq (nullDist x1 x2) (nullDistOf x1.length (poolOf (tieVector x1 x2))) := by
  rw [tie_vector_is_run_lengths]
  exact countEq_canonical x1.length (x1 ++ x2)

/-! ### the model's `hasTies` flag and its tie vector -/

/-- the flag computed by the rank loop is the `hasTies` of the distribution for its tie vector -/
theorem model_hasTies_eq (x1 x2 : List α) :
    (ranks (labeledMerge (sortF x1) (sortF x2))).hasTies = UDist.hasTies (tieVector x1 x2) := by
  rw [Bool.eq_iff_iff, ranks_hasTies_iff]
  unfold UDist.hasTies tieVector
  rw [List.any_eq_true]
  constructor
  · rintro ⟨t, ht, h⟩
    exact ⟨t, ht, by simpa using h⟩
  · rintro ⟨t, ht, h⟩
    exact ⟨t, ht, by simpa using h⟩

theorem tieVector_length_two (x1 x2 : List α) (h1 : x1 ≠ [])
    (hne : allEqual x1 x2 = false) : 2 ≤ (tieVector x1 x2).length := by
  have hsum := ErrIff.tieVector_sum x1 x2
  have l1 : 0 < x1.length := List.length_pos_iff.mpr h1
  have h0 : (tieVector x1 x2).length ≠ 0 := by
    intro h
    rw [List.length_eq_zero_iff.mp h] at hsum
    simp at hsum
    omega
  have h1' : (tieVector x1 x2).length ≠ 1 := by
    intro h
    rw [ErrIff.allEqual_of_length_one x1 x2 h] at hne
    cases hne
  omega

/-- without ties the sorted pool has no repeated value -/
theorem sorted_pool_nodup (x1 x2 : List α) (hT : UDist.hasTies (tieVector x1 x2) = false) :
    (sortF (x1 ++ x2)).Nodup := by
  rw [List.nodup_iff_count_le_one]
  intro a
  by_cases ha : a ∈ sortF (x1 ++ x2)
  · have hmem : (sortF (x1 ++ x2)).count a ∈ tieVector x1 x2 := by
      rw [ErrIff.tieVector_eq_sorted]
      exact List.mem_map.mpr ⟨a, List.mem_dedup.mpr ha, rfl⟩
    unfold UDist.hasTies at hT
    rw [List.any_eq_false] at hT
    have := hT _ hmem
    simpa using this
  · rw [List.count_eq_zero_of_not_mem ha]
    omega

/-- without ties the reversed sorted pool is strictly decreasing -/
theorem sorted_pool_reverse_desc (x1 x2 : List α) (hT : UDist.hasTies (tieVector x1 x2) = false) :
    (sortF (x1 ++ x2)).reverse.Pairwise (· > ·) := by
  rw [List.pairwise_reverse]
  have h1 : (sortF (x1 ++ x2)).Pairwise (· ≤ ·) := sortF_sorted _
  have h2 : (sortF (x1 ++ x2)).Pairwise (· ≠ ·) := sorted_pool_nodup x1 x2 hT
  exact (h1.and h2).imp (fun h => lt_of_le_of_ne h.1 h.2)

theorem sorted_pool_reverse_perm (x1 x2 : List α) : (sortF (x1 ++ x2)).reverse.Perm (x1 ++ x2) :=
  (List.reverse_perm _).trans (sortF_perm _)

theorem sorted_pool_reverse_length (x1 x2 : List α) :
    (sortF (x1 ++ x2)).reverse.length = x1.length + x2.length := by
  rw [List.length_reverse, sortF_length, List.length_append]

theorem nullDist_ne_nil (x1 x2 : List α) : nullDist x1 x2 ≠ [] :=
  nullDistOf_ne_nil x1.length x2.length (x1 ++ x2) List.length_append

theorem twoUPairs_le (x1 x2 : List α) : twoUPairs x1 x2 ≤ 2 * (x1.length * x2.length) := by
  have := twoUPairs_swap x1 x2
  rw [Nat.mul_assoc] at this
  omega

/-- the decision on the exact branch, for rank data whose tie vector has not exactly one entry -/
theorem decide'_exact (cdf : Nat → Nat → List Nat → Int → Rat) (lim limT : Nat) (alt : Alt)
    (n1 n2 : Nat) (rs : RankState) (hb : exactBranch rs.hasTies n1 n2 lim limT = true)
    (hT : rs.T.length ≠ 1) :
    decide' cdf lim limT alt n1 n2 rs
      = .exact ((rs.twoR1 : Int) - ((n1 * (n1 + 1) : Nat) : Int))
          (exactP (cdf n1 n2 rs.T) alt ((rs.twoR1 : Int) - ((n1 * (n1 + 1) : Nat) : Int))
            (((2 * (n1 * n2) : Nat) : Int) - ((rs.twoR1 : Int) - ((n1 * (n1 + 1) : Nat) : Int)))) := by
  unfold decide'
  simp only
  rw [if_pos hb, if_neg hT]

end Pool

end C11.E2E

namespace C11
open Stats Stats.UStat Spec.UExact

section Main
variable {α : Type} [LinearOrder α]

/-! ### 1. the outcome on the exact branch -/

/-- **exact_outcome_shape.** Non-empty samples that are not all equal, on the exact branch: the
    outcome is `exact` with the doubled pair-counting statistic and the exact-branch formula over the
    CDF for the sample sizes and the tie vector — for any CDF evaluator. -/
theorem exact_outcome_shape (cdf : Nat → Nat → List Nat → Int → Rat) (lim limT : Nat)
    (x1 x2 : List α) (alt : Alt) (h1 : x1 ≠ []) (h2 : x2 ≠ [])
    (hne : Spec.UExact.allEqual x1 x2 = false)
    (hb : exactBranch (ranks (labeledMerge (sortF x1) (sortF x2))).hasTies x1.length x2.length
            lim limT = true) :
    mannWhitney cdf lim limT x1 x2 alt
      = .exact ((Spec.UExact.twoUPairs x1 x2 : Nat) : Int)
          (exactP (cdf x1.length x2.length (tieVector x1 x2)) alt
            ((Spec.UExact.twoUPairs x1 x2 : Nat) : Int)
            (((2 * (x1.length * x2.length) : Nat) : Int)
              - ((Spec.UExact.twoUPairs x1 x2 : Nat) : Int))) := by
  have l1 : 0 < x1.length := List.length_pos_iff.mpr h1
  have l2 : 0 < x2.length := List.length_pos_iff.mpr h2
  have hK := E2E.tieVector_length_two x1 x2 h1 hne
  have hu := u_is_pair_count x1 x2
  unfold twoU1 at hu
  unfold mannWhitney
  simp only
  rw [if_neg (by omega), E2E.decide'_exact cdf lim limT alt _ _ _ hb
    (by change (tieVector x1 x2).length ≠ 1; omega), hu]
  rfl

/-! ### the model's CDF is the distribution function of the null distribution of the samples -/

/-- **the CDF the model uses for the samples `x1`, `x2` is the distribution function of the doubled
    statistic over all assignments of the pooled actual values** — tied or not. -/
theorem cdfPure_isCDFOf_nullDist (x1 x2 : List α) (h1 : x1 ≠ [])
    (hne : Spec.UExact.allEqual x1 x2 = false) :
    IsCDFOf (UDist.cdfPure x1.length x2.length (tieVector x1 x2)) (Spec.UExact.nullDist x1 x2) := by
  cases hT : UDist.hasTies (tieVector x1 x2) with
  | true =>
    have hc := tied_cdf_is_cdf (tieVector x1 x2) (ErrIff.tieVector_pos x1 x2)
      (E2E.tieVector_length_two x1 x2 h1 hne) x1.length x2.length hT (ErrIff.tieVector_sum x1 x2)
    exact E2E.isCDFOf_of_countP_eq _ (E2E.countEq_nullDist_poolOf x1 x2).symm hc
  | false =>
    have hc := untied_cdf_is_cdf x1.length x2.length (tieVector x1 x2) hT
      (sortF (x1 ++ x2)).reverse (E2E.sorted_pool_reverse_length x1 x2)
      (E2E.sorted_pool_reverse_desc x1 x2 hT)
    exact E2E.isCDFOf_of_countP_eq _
      (E2E.countEq_perm x1.length (E2E.sorted_pool_reverse_perm x1 x2)) hc

/-! ### 2. one-sided p-values -/

/-- **less_exact.** On the exact branch the one-sided *less* p-value of the model is the probability
    `P(2U ≤ 2u)` over all assignments of the pooled actual values, tied or not. -/
theorem less_exact (x1 x2 : List α) (lim limT : Nat) (h1 : x1 ≠ []) (h2 : x2 ≠ [])
    (hne : Spec.UExact.allEqual x1 x2 = false)
    (hb : exactBranch (ranks (labeledMerge (sortF x1) (sortF x2))).hasTies x1.length x2.length
            lim limT = true) :
    mannWhitney Stats.UDist.cdfPure lim limT x1 x2 .less
      = .exact ((Spec.UExact.twoUPairs x1 x2 : Nat) : Int)
          (Spec.UExact.pLess (Spec.UExact.nullDist x1 x2) (Spec.UExact.twoUPairs x1 x2)) := by
  rw [exact_outcome_shape _ lim limT x1 x2 .less h1 h2 hne hb,
    less_spec _ _ (cdfPure_isCDFOf_nullDist x1 x2 h1 hne)]

/-- **greater_exact.** On the exact branch the one-sided *greater* p-value of the model is the
    probability `P(2U ≥ 2u)` over all assignments of the pooled actual values, tied or not. -/
theorem greater_exact (x1 x2 : List α) (lim limT : Nat) (h1 : x1 ≠ []) (h2 : x2 ≠ [])
    (hne : Spec.UExact.allEqual x1 x2 = false)
    (hb : exactBranch (ranks (labeledMerge (sortF x1) (sortF x2))).hasTies x1.length x2.length
            lim limT = true) :
    mannWhitney Stats.UDist.cdfPure lim limT x1 x2 .greater
      = .exact ((Spec.UExact.twoUPairs x1 x2 : Nat) : Int)
          (Spec.UExact.pGreater (Spec.UExact.nullDist x1 x2) (Spec.UExact.twoUPairs x1 x2)) := by
  rw [exact_outcome_shape _ lim limT x1 x2 .greater h1 h2 hne hb,
    greater_spec _ _ (cdfPure_isCDFOf_nullDist x1 x2 h1 hne) (E2E.nullDist_ne_nil x1 x2)]

/-! ### 5. the evaluator of the compiled driver -/

/-- the memo-table/count-table evaluator is the pure one, as functions -/
theorem cdf_eq_cdfPure_fun : Stats.UDist.cdf = Stats.UDist.cdfPure := by
  funext n1 n2 T v
  exact cdf_eq_cdfPure_of pUntied_getD_eq n1 n2 T v

/-- **the model run with the driver's evaluator is the model run with the pure recurrences** -/
theorem mannWhitney_cdf_eq (lim limT : Nat) (x1 x2 : List α) (alt : Alt) :
    mannWhitney Stats.UDist.cdf lim limT x1 x2 alt
      = mannWhitney Stats.UDist.cdfPure lim limT x1 x2 alt := by
  rw [cdf_eq_cdfPure_fun]

theorem less_exact_driver (x1 x2 : List α) (lim limT : Nat) (h1 : x1 ≠ []) (h2 : x2 ≠ [])
    (hne : Spec.UExact.allEqual x1 x2 = false)
    (hb : exactBranch (ranks (labeledMerge (sortF x1) (sortF x2))).hasTies x1.length x2.length
            lim limT = true) :
    mannWhitney Stats.UDist.cdf lim limT x1 x2 .less
      = .exact ((Spec.UExact.twoUPairs x1 x2 : Nat) : Int)
          (Spec.UExact.pLess (Spec.UExact.nullDist x1 x2) (Spec.UExact.twoUPairs x1 x2)) := by
  rw [mannWhitney_cdf_eq, less_exact x1 x2 lim limT h1 h2 hne hb]

theorem greater_exact_driver (x1 x2 : List α) (lim limT : Nat) (h1 : x1 ≠ []) (h2 : x2 ≠ [])
    (hne : Spec.UExact.allEqual x1 x2 = false)
    (hb : exactBranch (ranks (labeledMerge (sortF x1) (sortF x2))).hasTies x1.length x2.length
            lim limT = true) :
    mannWhitney Stats.UDist.cdf lim limT x1 x2 .greater
      = .exact ((Spec.UExact.twoUPairs x1 x2 : Nat) : Int)
          (Spec.UExact.pGreater (Spec.UExact.nullDist x1 x2) (Spec.UExact.twoUPairs x1 x2)) := by
  rw [mannWhitney_cdf_eq, greater_exact x1 x2 lim limT h1 h2 hne hb]

/-! ### 3./4. two-sided p-values -/

/-- **two_sided_exact_of_symmetric.** On the exact branch, IF the null distribution of the samples
    is symmetric about `n1·n2` (doubled: as many values `≤ v` as values `d` with
    `d + v ≥ 2·n1·n2`, for every `v`) THEN the two-sided value of the model is the specification's.
    (Tied or not; for tied samples the hypothesis can fail, see `two_sided_asymmetric_witness`.) -/
theorem two_sided_exact_of_symmetric (x1 x2 : List α) (lim limT : Nat) (h1 : x1 ≠ []) (h2 : x2 ≠ [])
    (hne : Spec.UExact.allEqual x1 x2 = false)
    (hb : exactBranch (ranks (labeledMerge (sortF x1) (sortF x2))).hasTies x1.length x2.length
            lim limT = true)
    (hsym : ∀ v : Nat, ((Spec.UExact.nullDist x1 x2).filter (· ≤ v)).length
      = ((Spec.UExact.nullDist x1 x2).filter
          (fun d => decide (d + v ≥ 2 * (x1.length * x2.length)))).length) :
    mannWhitney Stats.UDist.cdfPure lim limT x1 x2 .differs
      = .exact ((Spec.UExact.twoUPairs x1 x2 : Nat) : Int)
          (Spec.UExact.pTwoSided (Spec.UExact.nullDist x1 x2) (Spec.UExact.twoUPairs x1 x2)) := by
  rw [exact_outcome_shape _ lim limT x1 x2 .differs h1 h2 hne hb,
    two_sided_spec_partial _ _ (2 * (x1.length * x2.length))
      (cdfPure_isCDFOf_nullDist x1 x2 h1 hne) (E2E.nullDist_ne_nil x1 x2) hsym _
      (E2E.twoUPairs_le x1 x2)]

/-- the null distribution of samples without ties is symmetric -/
theorem nullDist_symmetric_of_untied (x1 x2 : List α)
    (hT : (ranks (labeledMerge (sortF x1) (sortF x2))).hasTies = false) (v : Nat) :
    ((Spec.UExact.nullDist x1 x2).filter (· ≤ v)).length
      = ((Spec.UExact.nullDist x1 x2).filter
          (fun d => decide (d + v ≥ 2 * (x1.length * x2.length)))).length := by
  rw [E2E.model_hasTies_eq] at hT
  have hc := E2E.countEq_perm x1.length (E2E.sorted_pool_reverse_perm x1 x2)
  have hs := nullDistOf_symmetric x1.length x2.length (sortF (x1 ++ x2)).reverse
    (E2E.sorted_pool_reverse_length x1 x2) (E2E.sorted_pool_reverse_desc x1 x2 hT) v
  rw [hc.filter_length, hc.filter_length] at hs
  exact hs

/-- **two_sided_exact_of_untied.** For samples without ties on the exact branch the two-sided value
    of the model is the specification's. -/
theorem two_sided_exact_of_untied (x1 x2 : List α) (lim limT : Nat) (h1 : x1 ≠ []) (h2 : x2 ≠ [])
    (hne : Spec.UExact.allEqual x1 x2 = false)
    (hT : (ranks (labeledMerge (sortF x1) (sortF x2))).hasTies = false)
    (hb : exactBranch (ranks (labeledMerge (sortF x1) (sortF x2))).hasTies x1.length x2.length
            lim limT = true) :
    mannWhitney Stats.UDist.cdfPure lim limT x1 x2 .differs
      = .exact ((Spec.UExact.twoUPairs x1 x2 : Nat) : Int)
          (Spec.UExact.pTwoSided (Spec.UExact.nullDist x1 x2) (Spec.UExact.twoUPairs x1 x2)) :=
  two_sided_exact_of_symmetric x1 x2 lim limT h1 h2 hne hb (nullDist_symmetric_of_untied x1 x2 hT)

theorem two_sided_exact_of_untied_driver (x1 x2 : List α) (lim limT : Nat) (h1 : x1 ≠ [])
    (h2 : x2 ≠ []) (hne : Spec.UExact.allEqual x1 x2 = false)
    (hT : (ranks (labeledMerge (sortF x1) (sortF x2))).hasTies = false)
    (hb : exactBranch (ranks (labeledMerge (sortF x1) (sortF x2))).hasTies x1.length x2.length
            lim limT = true) :
    mannWhitney Stats.UDist.cdf lim limT x1 x2 .differs
      = .exact ((Spec.UExact.twoUPairs x1 x2 : Nat) : Int)
          (Spec.UExact.pTwoSided (Spec.UExact.nullDist x1 x2) (Spec.UExact.twoUPairs x1 x2)) := by
  rw [mannWhitney_cdf_eq, two_sided_exact_of_untied x1 x2 lim limT h1 h2 hne hT hb]

theorem two_sided_exact_of_symmetric_driver (x1 x2 : List α) (lim limT : Nat) (h1 : x1 ≠ [])
    (h2 : x2 ≠ []) (hne : Spec.UExact.allEqual x1 x2 = false)
    (hb : exactBranch (ranks (labeledMerge (sortF x1) (sortF x2))).hasTies x1.length x2.length
            lim limT = true)
    (hsym : ∀ v : Nat, ((Spec.UExact.nullDist x1 x2).filter (· ≤ v)).length
      = ((Spec.UExact.nullDist x1 x2).filter
          (fun d => decide (d + v ≥ 2 * (x1.length * x2.length)))).length) :
    mannWhitney Stats.UDist.cdf lim limT x1 x2 .differs
      = .exact ((Spec.UExact.twoUPairs x1 x2 : Nat) : Int)
          (Spec.UExact.pTwoSided (Spec.UExact.nullDist x1 x2) (Spec.UExact.twoUPairs x1 x2)) := by
  rw [mannWhitney_cdf_eq, two_sided_exact_of_symmetric x1 x2 lim limT h1 h2 hne hb hsym]

end Main

end C11
