/-
C12 — what the float64 model says about the R8 interpolation `a + frac*(b-a)`.
Uses the shared float64 lemma library (F64Mono / F64Div / F64Exact, read-only).
-/
import Proofs.Lemmas.F64Exact

namespace F64

/-- a non-negative finite float: +0 or a finite positive pattern -/
def NonNegFin (t : Bits) : Prop := t = posZero ∨ PosFin t

theorem add_posFin_eq (a t : Bits) (ha : PosFin a) (ht : PosFin t) :
    add a t =
      roundMag
        (toFrac (mant a * 2 ^ (expo a - (if expo a ≤ expo t then expo a else expo t)).toNat +
                 mant t * 2 ^ (expo t - (if expo a ≤ expo t then expo a else expo t)).toNat)
          (if expo a ≤ expo t then expo a else expo t)).1
        (toFrac (mant a * 2 ^ (expo a - (if expo a ≤ expo t then expo a else expo t)).toNat +
                 mant t * 2 ^ (expo t - (if expo a ≤ expo t then expo a else expo t)).toNat)
          (if expo a ≤ expo t then expo a else expo t)).2 := by
  have hpa := ha.mant_pos
  unfold add
  simp only [ha.isNaN, ht.isNaN, ha.isInf, ht.isInf, ha.signBit, ht.signBit, Bool.or_self,
    Bool.false_eq_true, if_false, Bool.and_self]
  set e := (if expo a ≤ expo t then expo a else expo t) with he
  have hsum : ((mant a * 2 ^ (expo a - e).toNat : Nat) : Int) + ((mant t * 2 ^ (expo t - e).toNat : Nat) : Int)
      = ((mant a * 2 ^ (expo a - e).toNat + mant t * 2 ^ (expo t - e).toNat : Nat) : Int) := by
    push_cast; ring
  have hpos : 0 < mant a * 2 ^ (expo a - e).toNat + mant t * 2 ^ (expo t - e).toNat := by
    have : 0 < mant a * 2 ^ (expo a - e).toNat := Nat.mul_pos hpa (Nat.pow_pos (by decide))
    omega
  rw [hsum]
  generalize mant a * 2 ^ (expo a - e).toNat + mant t * 2 ^ (expo t - e).toNat = S at hpos ⊢
  have hne : ¬ (((S : Nat) : Int) == 0) = true := by
    simp only [beq_iff_eq]; omega
  rw [if_neg hne]
  have hnl : ¬ (((S : Nat) : Int) < 0) := by omega
  simp only [Int.natAbs_natCast, hnl, decide_false, roundRat_false]


theorem val_pos {a : Bits} (ha : PosFin a) : 0 < val a :=
  mul_pos (by exact_mod_cast ha.mant_pos) (two_zpow_pos _)

/-- a fraction whose value is at most that of the finite positive float b rounds to at most b -/
theorem roundMag_le_of_le_val (n d : Nat) (hn : 0 < n) (hd : 0 < d) (b : Bits) (hb : PosFin b)
    (h : (n : ℚ) / d ≤ val b) : (roundMag n d).toNat ≤ b.toNat := by
  have := roundMag_mono n d (toFrac (mant b) (expo b)).1 (toFrac (mant b) (expo b)).2 hn hd
    (toFrac_snd_pos _ _)
    (by rw [frac_le_iff _ _ _ _ hd (toFrac_snd_pos _ _), toFrac_ratio]; exact h)
  rwa [roundMag_self b hb] at this

/-- a fraction whose value is at least that of the finite positive float a rounds to at least a -/
theorem le_roundMag_of_val_le (n d : Nat) (hd : 0 < d) (a : Bits) (ha : PosFin a)
    (h : val a ≤ (n : ℚ) / d) : a.toNat ≤ (roundMag n d).toNat := by
  have hfp : 0 < (toFrac (mant a) (expo a)).1 := by
    rw [toFrac_eq_scaled]; exact scaled_fst_pos _ _ ha.mant_pos
  have := roundMag_mono (toFrac (mant a) (expo a)).1 (toFrac (mant a) (expo a)).2 n d hfp
    (toFrac_snd_pos _ _) hd
    (by rw [frac_le_iff _ _ _ _ (toFrac_snd_pos _ _) hd, toFrac_ratio]; exact h)
  rwa [roundMag_self a ha] at this

theorem pow_shift (m : Nat) (x e : Int) (h : e ≤ x) :
    ((m * 2 ^ (x - e).toNat : Nat) : ℚ) * (2 : ℚ) ^ e = (m : ℚ) * (2 : ℚ) ^ x := by
  have two_ne : (2 : ℚ) ≠ 0 := by norm_num
  push_cast
  rw [mul_assoc, ← zpow_natCast, ← zpow_add₀ two_ne, Int.toNat_of_nonneg (by omega)]
  congr 2; ring

/-- the exact sum: `add a t` is the correctly rounded value of val a + val t -/
theorem add_posFin_val (a t : Bits) (ha : PosFin a) (ht : PosFin t) :
    ∃ n d : Nat, 0 < n ∧ 0 < d ∧ add a t = roundMag n d ∧ (n : ℚ) / d = val a + val t := by
  refine ⟨_, _, ?_, toFrac_snd_pos _ _, add_posFin_eq a t ha ht, ?_⟩
  · rw [toFrac_eq_scaled]
    apply scaled_fst_pos
    have : 0 < mant a * 2 ^ (expo a - (if expo a ≤ expo t then expo a else expo t)).toNat :=
      Nat.mul_pos ha.mant_pos (Nat.pow_pos (by decide))
    omega
  · rw [toFrac_ratio]
    set e := (if expo a ≤ expo t then expo a else expo t) with he
    have h1 : e ≤ expo a := by rw [he]; split <;> omega
    have h2 : e ≤ expo t := by rw [he]; split <;> omega
    unfold val
    rw [← pow_shift (mant a) (expo a) e h1, ← pow_shift (mant t) (expo t) e h2]
    push_cast; ring

/-- `x + 0 = x` -/
theorem add_posZero (a : Bits) (ha : PosFin a) : add a posZero = a := by
  have hm : mant posZero = 0 := by decide
  have he : expo posZero = -1074 := by decide
  have hea : (-1074 : Int) ≤ expo a := by
    rw [expo_eq]; split <;> omega
  unfold add
  have z1 : isNaN posZero = false := by decide
  have z2 : isInf posZero = false := by decide
  have z3 : signBit posZero = false := by decide
  simp only [ha.isNaN, z1, ha.isInf, z2, ha.signBit, z3, Bool.or_self, Bool.false_eq_true,
    if_false, Bool.and_self, hm, he]
  have hle : ¬ expo a ≤ -1074 ∨ expo a = -1074 := by omega
  have hmin : (if expo a ≤ -1074 then expo a else -1074) = -1074 := by
    split <;> omega
  rw [hmin]
  simp only [Nat.zero_mul, Int.natCast_zero, Int.add_zero]
  have hpos : 0 < mant a * 2 ^ (expo a - -1074).toNat := Nat.mul_pos ha.mant_pos (Nat.pow_pos (by decide))
  generalize hS : mant a * 2 ^ (expo a - -1074).toNat = S at hpos ⊢
  have hne : ¬ (((S : Nat) : Int) == 0) = true := by simp only [beq_iff_eq]; omega
  rw [if_neg hne]
  have hnl : ¬ (((S : Nat) : Int) < 0) := by omega
  simp only [Int.natAbs_natCast, hnl, decide_false, roundRat_false]
  apply roundMag_exactQ a ha _ _ (toFrac_snd_pos _ _)
  rw [toFrac_ratio, ← hS, pow_shift (mant a) (expo a) (-1074) hea]
  rfl


/-- the exact product: `mul f x` is the correctly rounded value of val f · val x -/
theorem mul_posFin_val (f x : Bits) (hf : PosFin f) (hx : PosFin x) :
    ∃ n d : Nat, 0 < n ∧ 0 < d ∧ mul f x = roundMag n d ∧ (n : ℚ) / d = val f * val x := by
  refine ⟨(toFrac (mant f * mant x) (expo f + expo x)).1, (toFrac (mant f * mant x) (expo f + expo x)).2,
    ?_, toFrac_snd_pos _ _, ?_, ?_⟩
  · rw [toFrac_eq_scaled]
    exact scaled_fst_pos _ _ (Nat.mul_pos hf.mant_pos hx.mant_pos)
  · unfold mul
    simp only [hf.isNaN, hx.isNaN, hf.isInf, hx.isInf, hf.isZero, hx.isZero, hf.signBit, hx.signBit,
      Bool.or_self, Bool.false_eq_true, if_false, bne_self_eq_false, roundRat_false]
  · rw [toFrac_ratio]
    unfold val
    have two_ne : (2 : ℚ) ≠ 0 := by norm_num
    rw [zpow_add₀ two_ne]
    push_cast; ring

theorem nonNegFin_of_le (r x : Bits) (hx : PosFin x) (h : r.toNat ≤ x.toNat) : NonNegFin r := by
  rcases Nat.eq_zero_or_pos r.toNat with h0 | h0
  · left
    apply UInt64.toNat_inj.mp
    rw [h0]; rfl
  · right
    exact ⟨h0, lt_of_le_of_lt h hx.2⟩

/-- multiplying a finite positive float by a factor of value ≤ 1 does not increase it (and the
result is +0 or finite positive) -/
theorem mul_le_of_val_le_one (f x : Bits) (hf : PosFin f) (hx : PosFin x) (h1 : val f ≤ 1) :
    (mul f x).toNat ≤ x.toNat ∧ NonNegFin (mul f x) := by
  obtain ⟨n, d, hn, hd, he, hv⟩ := mul_posFin_val f x hf hx
  have hle : (mul f x).toNat ≤ x.toNat := by
    rw [he]
    apply roundMag_le_of_le_val n d hn hd x hx
    rw [hv]
    have := val_pos hx
    nlinarith
  exact ⟨hle, nonNegFin_of_le _ x hx hle⟩

theorem val_posZero : val posZero = 0 := by
  unfold val
  have : mant posZero = 0 := by decide
  rw [this]; simp

/-- **lower bound** — adding a non-negative finite float to a finite positive float a never
gives less than a -/
theorem le_add_nonNeg (a t : Bits) (ha : PosFin a) (ht : NonNegFin t) : a.toNat ≤ (add a t).toNat := by
  rcases ht with rfl | ht
  · rw [add_posZero a ha]
  · obtain ⟨n, d, _, hd, he, hv⟩ := add_posFin_val a t ha ht
    rw [he]
    apply le_roundMag_of_val_le n d hd a ha
    rw [hv]
    have := val_pos ht
    linarith

/-- **upper bound** — if the exact sum val a + val t does not exceed the finite positive float b,
neither does the rounded sum -/
theorem add_le_of_val_le (a t b : Bits) (ha : PosFin a) (ht : NonNegFin t) (hb : PosFin b)
    (hab : a.toNat ≤ b.toNat) (h : val a + val t ≤ val b) : (add a t).toNat ≤ b.toNat := by
  rcases ht with rfl | ht
  · rw [add_posZero a ha]; exact hab
  · obtain ⟨n, d, hn, hd, he, hv⟩ := add_posFin_val a t ha ht
    rw [he]
    apply roundMag_le_of_le_val n d hn hd b hb
    rw [hv]; exact h


/-- a zero factor gives +0 (non-negative operands) -/
theorem mul_nonNeg_zero (f x : Bits) (hf : NonNegFin f) (hx : NonNegFin x)
    (h0 : f = posZero ∨ x = posZero) : mul f x = posZero := by
  have nn : ∀ y, NonNegFin y → isNaN y = false ∧ isInf y = false ∧ signBit y = false := by
    intro y hy
    rcases hy with rfl | hy
    · decide
    · exact ⟨hy.isNaN, hy.isInf, hy.signBit⟩
  obtain ⟨f1, f2, f3⟩ := nn f hf
  obtain ⟨x1, x2, x3⟩ := nn x hx
  have hz : (isZero f || isZero x) = true := by
    rcases h0 with rfl | rfl
    · have : isZero posZero = true := by decide
      simp [this]
    · have : isZero posZero = true := by decide
      simp [this]
  unfold mul
  simp only [f1, x1, f2, x2, f3, x3, Bool.or_self, Bool.false_eq_true, if_false, hz, if_true,
    bne_self_eq_false]
  rfl


/-! ### `sub` of finite positive floats -/

theorem xor_two_pow_63 (x : Nat) (h : x < 2 ^ 63) : x ^^^ 2 ^ 63 = x + 2 ^ 63 := by
  apply Nat.eq_of_testBit_eq
  intro i
  rw [Nat.testBit_xor, Nat.testBit_two_pow, Nat.add_comm]
  rcases Nat.lt_trichotomy i 63 with hi | hi | hi
  · rw [Nat.testBit_two_pow_add_gt hi]
    have : ¬ (63 = i) := by omega
    simp [this]
  · subst hi
    rw [Nat.testBit_two_pow_add_eq, Nat.testBit_lt_two_pow h]
    simp
  · have h1 : x < 2 ^ i := lt_of_lt_of_le h (Nat.pow_le_pow_right (by decide) (by omega))
    have h2 : 2 ^ 63 + x < 2 ^ i := by
      have : 2 ^ 64 ≤ 2 ^ i := Nat.pow_le_pow_right (by decide) (by omega)
      omega
    rw [Nat.testBit_lt_two_pow h1, Nat.testBit_lt_two_pow h2]
    have : ¬ (63 = i) := by omega
    simp [this]

theorem neg_toNat (a : Bits) (h : a.toNat < 2 ^ 63) : (neg a).toNat = a.toNat + 2 ^ 63 := by
  unfold neg
  rw [UInt64.toNat_xor]
  have : (0x8000000000000000 : UInt64).toNat = 2 ^ 63 := by decide
  rw [this, xor_two_pow_63 _ h]

theorem neg_fields (a : Bits) (ha : PosFin a) :
    expField (neg a) = expField a ∧ fracField (neg a) = fracField a ∧ signBit (neg a) = true := by
  have hn := neg_toNat a ha.lt63
  have hlt := ha.lt63
  refine ⟨?_, ?_, ?_⟩
  · rw [expField_eq, expField_eq, hn]; omega
  · rw [fracField_eq, fracField_eq, hn]; omega
  · by_contra hc
    have : signBit (neg a) = false := by simpa using hc
    rw [signBit_false_iff, hn] at this
    omega

/-- `b - a` for finite positive floats with val a < val b is the correctly rounded exact difference -/
theorem sub_posFin_val (b a : Bits) (hb : PosFin b) (ha : PosFin a) (hlt : val a < val b) :
    ∃ n d : Nat, 0 < n ∧ 0 < d ∧ sub b a = roundMag n d ∧ (n : ℚ) / d = val b - val a := by
  obtain ⟨fe, ff, fs⟩ := neg_fields a ha
  have hm : mant (neg a) = mant a := by unfold mant; rw [fe, ff]
  have hx : expo (neg a) = expo a := by unfold expo; rw [fe]
  have hnan : isNaN (neg a) = false := by
    have := ha.isNaN; unfold isNaN at this ⊢; rw [fe, ff]; exact this
  have hinf : isInf (neg a) = false := by
    have := ha.isInf; unfold isInf at this ⊢; rw [fe, ff]; exact this
  set e := (if expo b ≤ expo a then expo b else expo a) with he
  have h1 : e ≤ expo b := by rw [he]; split <;> omega
  have h2 : e ≤ expo a := by rw [he]; split <;> omega
  -- the aligned integers
  have hval : ((mant b * 2 ^ (expo b - e).toNat : Nat) : ℚ) * (2 : ℚ) ^ e
      - ((mant a * 2 ^ (expo a - e).toNat : Nat) : ℚ) * (2 : ℚ) ^ e = val b - val a := by
    rw [pow_shift _ _ _ h1, pow_shift _ _ _ h2]; rfl
  have hgt : mant a * 2 ^ (expo a - e).toNat < mant b * 2 ^ (expo b - e).toNat := by
    have hp := two_zpow_pos e
    have : (0 : ℚ) < ((mant b * 2 ^ (expo b - e).toNat : Nat) : ℚ) * (2 : ℚ) ^ e
        - ((mant a * 2 ^ (expo a - e).toNat : Nat) : ℚ) * (2 : ℚ) ^ e := by rw [hval]; linarith
    have h3 : ((mant a * 2 ^ (expo a - e).toNat : Nat) : ℚ) < ((mant b * 2 ^ (expo b - e).toNat : Nat) : ℚ) := by
      nlinarith
    exact_mod_cast h3
  generalize hIA : mant b * 2 ^ (expo b - e).toNat = IA at hval hgt
  generalize hIB : mant a * 2 ^ (expo a - e).toNat = IB at hval hgt
  refine ⟨(toFrac (IA - IB) e).1, (toFrac (IA - IB) e).2, ?_, toFrac_snd_pos _ _, ?_, ?_⟩
  · rw [toFrac_eq_scaled]; exact scaled_fst_pos _ _ (by omega)
  · unfold sub
    simp only [ha.isNaN, Bool.false_eq_true, if_false]
    unfold add
    simp only [hb.isNaN, hnan, hb.isInf, hinf, hb.signBit, fs, hm, hx, Bool.or_self,
      Bool.false_eq_true, if_false, if_true, ← he, hIA, hIB]
    have hs : ((IA : Nat) : Int) + -((IB : Nat) : Int) = ((IA - IB : Nat) : Int) := by omega
    rw [hs]
    have hne : ¬ ((((IA - IB : Nat) : Int)) == 0) = true := by simp only [beq_iff_eq]; omega
    rw [if_neg hne]
    have hnl : ¬ ((((IA - IB : Nat) : Int)) < 0) := by omega
    simp only [Int.natAbs_natCast, hnl, decide_false, roundRat_false]
  · rw [toFrac_ratio, ← hval]
    have : ((IA - IB : Nat) : ℚ) = (IA : ℚ) - (IB : ℚ) := by
      rw [Nat.cast_sub (le_of_lt hgt)]
    rw [this]; ring

end F64
