/-
Lemmas about round-half-even on naturals (`F64.rne`), used for decimal printing (C10) and,
through `roundMag`, for float arithmetic.
-/
import Model.Base.F64

namespace F64

theorem rne_def (n d : Nat) :
    rne n d = if 2 * (n % d) > d ∨ (2 * (n % d) = d ∧ (n / d) % 2 = 1) then n / d + 1 else n / d := by
  unfold rne
  simp only [Bool.or_eq_true, decide_eq_true_eq, Bool.and_eq_true, beq_iff_eq]

/-- The rounded value is within half a unit: `2·|k·d − n| ≤ d`. -/
theorem rne_half_unit (n d : Nat) (hd : 0 < d) :
    2 * ((rne n d : Int) * d - n).natAbs ≤ d := by
  have hdiv := Nat.div_add_mod n d
  have hmod := Nat.mod_lt n hd
  rw [rne_def]
  generalize hq : n / d = q at *
  generalize hr : n % d = r at *
  have hn : (n : Int) = d * q + r := by exact_mod_cast hdiv.symm
  have hdq : (d : Int) * q = q * d := Int.mul_comm _ _
  split
  · rename_i h
    have e : ((q + 1 : Nat) : Int) * d - n = d - r := by
      rw [hn]; push_cast; rw [Int.add_mul]; omega
    rw [e]; omega
  · rename_i h
    have e : ((q : Nat) : Int) * d - n = -(r : Int) := by
      rw [hn]; omega
    rw [e]; omega

/-- Scaling numerator and denominator by the same positive factor does not change the result. -/
theorem rne_scale (n d c : Nat) (hc : 0 < c) : rne (n * c) (d * c) = rne n d := by
  rw [rne_def, rne_def, Nat.mul_div_mul_right _ _ hc, Nat.mul_mod_mul_right]
  have h1 : 2 * (n % d * c) > d * c ↔ 2 * (n % d) > d := by
    rw [← Nat.mul_assoc]; exact Nat.mul_lt_mul_right hc
  have h2 : 2 * (n % d * c) = d * c ↔ 2 * (n % d) = d := by
    rw [← Nat.mul_assoc]; exact Nat.mul_right_cancel_iff hc
  simp only [h1, h2]

/-- Monotone in the numerator. -/
theorem rne_mono (n n' d : Nat) (hd : 0 < d) (h : n ≤ n') : rne n d ≤ rne n' d := by
  rw [rne_def, rne_def]
  have hq : n / d ≤ n' / d := Nat.div_le_div_right h
  have e1 := Nat.div_add_mod n d
  have e2 := Nat.div_add_mod n' d
  have m1 := Nat.mod_lt n hd
  have m2 := Nat.mod_lt n' hd
  rcases Nat.lt_or_eq_of_le hq with hlt | heq
  · split <;> split <;> omega
  · -- same quotient: remainders are ordered
    have hr : n % d ≤ n' % d := by
      have : d * (n / d) = d * (n' / d) := by rw [heq]
      omega
    split <;> split <;> omega

/-- Monotone in the rational value: n/d ≤ n'/d' → rne n d ≤ rne n' d'. -/
theorem rne_mono_rat (n d n' d' : Nat) (hd : 0 < d) (hd' : 0 < d') (h : n * d' ≤ n' * d) :
    rne n d ≤ rne n' d' := by
  rw [← rne_scale n d d' hd', ← rne_scale n' d' d hd, Nat.mul_comm d' d]
  exact rne_mono _ _ _ (Nat.mul_pos hd hd') h

end F64
