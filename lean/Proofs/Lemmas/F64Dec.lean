/-
Decimal side: `ofDecimal` as `roundQ` of the decimal value, monotonicity, exactness, the
round-trip lemma `parse_of_within_half_ulp`, and `fmtFixed_reads_back_partial`.
-/
import Proofs.Lemmas.F64Arith

namespace F64

/-- the rational denoted by sign, decimal mantissa and decimal exponent -/
def decVal (neg : Bool) (m : Nat) (e : Int) : ℚ :=
  if neg then -((m : ℚ) * (10 : ℚ) ^ e) else (m : ℚ) * (10 : ℚ) ^ e

theorem ten_zpow_pos (k : Int) : (0 : ℚ) < (10 : ℚ) ^ k := zpow_pos (by norm_num) k

/-- **ofDecimal_eq** — correctly rounded decimal → binary conversion is `roundQ` of the decimal value. -/
theorem ofDecimal_eq (neg : Bool) (m : Nat) (e : Int) (hm : 0 < m) :
    ofDecimal neg m e = roundQ (decVal neg m e) := by
  unfold ofDecimal decVal
  have hb : (m == 0) = false := by simp; omega
  simp only [hb, Bool.false_eq_true, if_false]
  by_cases he : e ≥ 0
  · simp only [he, if_true]
    obtain ⟨k, rfl⟩ := Int.eq_ofNat_of_zero_le he
    rw [roundRat_eq_roundQ _ _ _ (Nat.mul_pos hm (Nat.pow_pos (by decide))) (by decide)]
    simp [zpow_natCast]
  · simp only [he, if_false]
    obtain ⟨k, hk⟩ := Int.eq_ofNat_of_zero_le (by omega : 0 ≤ -e)
    have he' : e = -(k : Int) := by omega
    subst he'
    rw [roundRat_eq_roundQ _ _ _ hm (Nat.pow_pos (by decide))]
    simp [zpow_neg, zpow_natCast, div_eq_mul_inv]

theorem decVal_zero (neg : Bool) (e : Int) : decVal neg 0 e = 0 := by
  unfold decVal; cases neg <;> simp

theorem sval_ofDecimal (neg : Bool) (m : Nat) (e : Int) :
    sval (ofDecimal neg m e) = sval (roundQ (decVal neg m e)) := by
  rcases Nat.eq_zero_or_pos m with h | h
  · subst h
    have : ofDecimal neg 0 e = zero neg := by unfold ofDecimal; simp
    rw [this, sval_zero, decVal_zero, roundQ_zero, sval_posZero]
  · rw [ofDecimal_eq neg m e h]

theorem ofDecimal_isNaN (neg : Bool) (m : Nat) (e : Int) : isNaN (ofDecimal neg m e) = false := by
  rcases Nat.eq_zero_or_pos m with h | h
  · subst h
    have : ofDecimal neg 0 e = zero neg := by unfold ofDecimal; simp
    rw [this]; cases neg <;> decide
  · rw [ofDecimal_eq neg m e h]; exact roundQ_isNaN _

/-- **ofDecimal_mono** — parsing is monotone in the decimal value. -/
theorem ofDecimal_mono (n1 : Bool) (m1 : Nat) (e1 : Int) (n2 : Bool) (m2 : Nat) (e2 : Int)
    (h : decVal n1 m1 e1 ≤ decVal n2 m2 e2) :
    sval (ofDecimal n1 m1 e1) ≤ sval (ofDecimal n2 m2 e2) := by
  rw [sval_ofDecimal, sval_ofDecimal]; exact roundQ_mono _ _ h

theorem ofDecimal_mono_le (n1 : Bool) (m1 : Nat) (e1 : Int) (n2 : Bool) (m2 : Nat) (e2 : Int)
    (h : decVal n1 m1 e1 ≤ decVal n2 m2 e2) : le (ofDecimal n1 m1 e1) (ofDecimal n2 m2 e2) = true := by
  rw [le_iff_sval _ _ (ofDecimal_isNaN _ _ _) (ofDecimal_isNaN _ _ _)]
  exact ofDecimal_mono _ _ _ _ _ _ h

/-- **ofDecimal_exact** — a decimal that denotes exactly the value of a finite non-zero float parses
to that float. -/
theorem ofDecimal_exact (x : Bits) (hx : isFinite x = true) (zx : isZero x = false)
    (neg : Bool) (m : Nat) (e : Int) (h : decVal neg m e = sval x) : ofDecimal neg m e = x := by
  have hm : 0 < m := by
    rcases Nat.eq_zero_or_pos m with h0 | h0
    · subst h0; rw [decVal_zero] at h
      have := (sval_eq_zero_iff x).mp h.symm; rw [zx] at this; cases this
    · exact h0
  rw [ofDecimal_eq neg m e hm, h, roundQ_exact x hx zx]

/-- **parse_of_within_half_ulp** — a decimal inside the rounding interval of the finite positive
float x parses to x (and with a minus sign to −x). -/
theorem parse_of_within_half_ulp (x : Bits) (hx : PosFin x) (m : Nat) (e : Int)
    (h : InRound x ((m : ℚ) * (10 : ℚ) ^ e)) :
    ofDecimal false m e = x ∧ ofDecimal true m e = neg x := by
  have hq := inRound_pos x hx _ h
  have hm : 0 < m := by
    rcases Nat.eq_zero_or_pos m with h0 | h0
    · subst h0; simp at hq
    · exact h0
  constructor
  · rw [ofDecimal_eq false m e hm]; unfold decVal
    simp only [Bool.false_eq_true, if_false]
    exact roundQ_of_inRound x hx _ h
  · rw [ofDecimal_eq true m e hm]; unfold decVal
    simp only [if_true]
    exact roundQ_neg_of_inRound x hx _ h

/-- signed form: for a finite non-zero x of either sign -/
theorem parse_of_inRound (x : Bits) (hx : isFinite x = true) (zx : isZero x = false) (m : Nat) (e : Int)
    (h : InRound (abs x) ((m : ℚ) * (10 : ℚ) ^ e)) : ofDecimal (signBit x) m e = x := by
  have hp := posFin_abs x hx zx
  obtain ⟨h1, h2⟩ := parse_of_within_half_ulp (abs x) hp m e h
  cases hs : signBit x
  · rw [h1, abs_of_signBit_false x hs]
  · rw [h2, neg_abs_of_signBit_true x hs]

/-- a sufficient metric condition: closer to `val x` than half the gap to the nearer neighbour
(`lowGap x · 2^expo x` — ¼ ulp at a power of two, ½ ulp elsewhere) -/
theorem inRound_of_abs_lt (x : Bits) (q : ℚ)
    (h : |q - val x| < lowGap x * (2 : ℚ) ^ (expo x)) : InRound x q := by
  have two_ne : (2 : ℚ) ≠ 0 := by norm_num
  have hp := two_zpow_pos (expo x)
  have hn := two_zpow_pos (-expo x)
  have hgap : lowGap x ≤ 1 / 2 := by unfold lowGap; split <;> norm_num
  have e1 : (2 : ℚ) ^ (expo x) * (2 : ℚ) ^ (-expo x) = 1 := by
    rw [← zpow_add₀ two_ne, add_neg_cancel, zpow_zero]
  have hv : val x * (2 : ℚ) ^ (-expo x) = mant x := by
    unfold val; rw [mul_assoc, e1, _root_.mul_one]
  have key : |q * (2 : ℚ) ^ (-expo x) - mant x| < lowGap x := by
    rw [← hv, ← sub_mul, abs_mul, abs_of_pos hn]
    have := mul_lt_mul_of_pos_right h hn
    rwa [mul_assoc, e1, _root_.mul_one] at this
  rw [abs_lt] at key
  exact ⟨Or.inl (by linarith [key.1]), Or.inl (by linarith [key.2])⟩

/-! ### reading back fixed-precision output -/

theorem fixedScaled_errQ (x : Bits) (p : Nat) :
    |(fixedScaled x p : ℚ) * (10 : ℚ) ^ (-(p : Int)) - val x| ≤ (10 : ℚ) ^ (-(p : Int)) / 2 := by
  unfold fixedScaled
  have hd := toFrac_snd_pos (mant x) (expo x)
  have h := rne_errQ ((toFrac (mant x) (expo x)).1 * 10 ^ p) (toFrac (mant x) (expo x)).2 hd
  have hv : (((toFrac (mant x) (expo x)).1 * 10 ^ p : Nat) : ℚ) / ((toFrac (mant x) (expo x)).2 : ℚ)
      = val x * (10 : ℚ) ^ p := by
    unfold val; rw [← toFrac_ratio]; push_cast; ring
  rw [hv] at h
  have h10 : (0 : ℚ) < (10 : ℚ) ^ p := pow_pos (by norm_num) p
  have e : (10 : ℚ) ^ (-(p : Int)) = ((10 : ℚ) ^ p)⁻¹ := by rw [zpow_neg, zpow_natCast]
  rw [e]
  generalize (rne ((toFrac (mant x) (expo x)).1 * 10 ^ p) (toFrac (mant x) (expo x)).2 : ℚ) = k at h ⊢
  have : k * ((10 : ℚ) ^ p)⁻¹ - val x = (k - val x * (10 : ℚ) ^ p) * ((10 : ℚ) ^ p)⁻¹ := by
    field_simp
  rw [this, abs_mul, abs_of_pos (inv_pos.mpr h10)]
  have := mul_le_mul_of_nonneg_right h (inv_pos.mpr h10).le
  linarith

/-- **fmtFixed_reads_back_partial** — if half a unit of the last printed decimal place is smaller
than half the gap from x to its nearer neighbour, the number printed by `fmtFixed x p`
(sign, integer `fixedScaled x p`, exponent −p) parses back to x.
Partial: stated on the parsed numeral (sign, mantissa, exponent), not on the character string. -/
theorem fmtFixed_reads_back_partial (x : Bits) (hx : isFinite x = true) (zx : isZero x = false) (p : Nat)
    (h : (10 : ℚ) ^ (-(p : Int)) / 2 < lowGap x * (2 : ℚ) ^ (expo x)) :
    ofDecimal (signBit x) (fixedScaled x p) (-(p : Int)) = x := by
  apply parse_of_inRound x hx zx
  apply inRound_of_abs_lt
  have e1 : fixedScaled (abs x) p = fixedScaled x p := by
    unfold fixedScaled; rw [mant_abs, expo_abs]
  have hl : lowGap (abs x) = lowGap x := by unfold lowGap; rw [mant_abs, expo_abs]
  rw [val_abs, hl, expo_abs]
  exact lt_of_le_of_lt (fixedScaled_errQ x p) h

/-- instances: "0.5" and a 20-digit decimal just above 0.5 both parse to 0.5 -/
theorem sval_half : sval 0x3FE0000000000000 = 1 / 2 := by
  unfold sval val
  rw [show signBit 0x3FE0000000000000 = false by decide, show mant 0x3FE0000000000000 = 2 ^ 52 by decide,
    show expo 0x3FE0000000000000 = -53 by decide]
  norm_num
example : ofDecimal false 5 (-1) = 0x3FE0000000000000 :=
  ofDecimal_exact _ (by decide) (by decide) false 5 (-1) (by rw [sval_half]; unfold decVal; norm_num)
example : ofDecimal false 50000000000000000001 (-20) = 0x3FE0000000000000 := by decide +kernel

end F64
