/-
C03 helper lemmas for `exact_path_correct`: `roundMag` depends only on the value of its
fraction; construction of the float with a given normalised (mantissa, exponent); integers
below 2^53 convert exactly; sign handling; `F64.mul` / `F64.div` of exact operands.
Built on the read-only float64 lemma library Proofs/Lemmas/F64{Round,Mono,Div,Exact}.lean.
-/
import Proofs.Lemmas.F64Exact
import Model.Num.Atof

namespace F64

/-- **roundMag_congr** — `roundMag` depends only on the rational value n/d. -/
theorem roundMag_congr (n d n' d' : Nat) (hd : 0 < d) (hd' : 0 < d') (h : n * d' = n' * d) :
    roundMag n d = roundMag n' d' := by
  rcases Nat.eq_zero_or_pos n with h0 | hn
  · subst h0
    have : n' = 0 := by
      rcases Nat.eq_zero_or_pos n' with h1 | h1
      · exact h1
      · have := Nat.mul_pos h1 hd; omega
    subst this; simp [roundMag]
  · have hn' : 0 < n' := by
      rcases Nat.eq_zero_or_pos n' with h1 | h1
      · subst h1; have := Nat.mul_pos hn hd'; omega
      · exact h1
    have a := roundMag_mono n d n' d' hn hd hd' (by omega)
    have b := roundMag_mono n' d' n d hn' hd' hd (by omega)
    rw [← UInt64.toNat_inj]; omega

/-- the same over ℚ -/
theorem roundMag_congrQ (n d n' d' : Nat) (hd : 0 < d) (hd' : 0 < d')
    (h : (n : ℚ) / d = (n' : ℚ) / d') : roundMag n d = roundMag n' d' := by
  apply roundMag_congr n d n' d' hd hd'
  have hdq : (d : ℚ) ≠ 0 := by exact_mod_cast hd.ne'
  have hdq' : (d' : ℚ) ≠ 0 := by exact_mod_cast hd'.ne'
  rw [div_eq_div_iff hdq hdq'] at h
  exact_mod_cast h

/-! ### the float with normalised mantissa M ∈ [2^52, 2^53) and exponent E ∈ [−1074, 971] -/

def normalBits (M : Nat) (E : Int) : Bits := UInt64.ofNat ((E + 1074).toNat * 2 ^ 52 + M)

theorem normalBits_spec (M : Nat) (E : Int) (hM1 : 2 ^ 52 ≤ M) (hM2 : M < 2 ^ 53)
    (hE1 : -1074 ≤ E) (hE2 : E ≤ 971) :
    PosFin (normalBits M E) ∧ mant (normalBits M E) = M ∧ expo (normalBits M E) = E := by
  have ht : (normalBits M E).toNat = (E + 1074).toNat * 2 ^ 52 + M := by
    unfold normalBits
    rw [UInt64.toNat_ofNat']
    apply Nat.mod_eq_of_lt
    have : (E + 1074).toNat ≤ 2045 := by omega
    have := Nat.mul_le_mul_right (2 ^ 52) this
    omega
  have hk : (E + 1074).toNat ≤ 2045 := by omega
  generalize hkk : (E + 1074).toNat = k at *
  have hEk : E = (k : Int) - 1074 := by omega
  have hexp : expField (normalBits M E) = k + 1 := by
    rw [expField_eq, ht]; omega
  have hfrac : fracField (normalBits M E) = M - 2 ^ 52 := by
    rw [fracField_eq, ht]; omega
  refine ⟨⟨by rw [ht]; omega, by rw [ht]; omega⟩, ?_, ?_⟩
  · rw [mant_eq, hexp, hfrac]; simp; omega
  · rw [expo_eq, hexp]; simp; omega

theorem val_normalBits (M : Nat) (E : Int) (hM1 : 2 ^ 52 ≤ M) (hM2 : M < 2 ^ 53)
    (hE1 : -1074 ≤ E) (hE2 : E ≤ 971) : val (normalBits M E) = (M : ℚ) * (2 : ℚ) ^ E := by
  obtain ⟨_, h1, h2⟩ := normalBits_spec M E hM1 hM2 hE1 hE2
  unfold val; rw [h1, h2]

/-- a fraction whose value is M·2^E (normalised, in range) rounds to exactly that float -/
theorem roundMag_normal (n d : Nat) (hd : 0 < d) (M : Nat) (E : Int) (hM1 : 2 ^ 52 ≤ M) (hM2 : M < 2 ^ 53)
    (hE1 : -1074 ≤ E) (hE2 : E ≤ 971) (h : (n : ℚ) / d = (M : ℚ) * (2 : ℚ) ^ E) :
    roundMag n d = normalBits M E :=
  roundMag_exactQ _ (normalBits_spec M E hM1 hM2 hE1 hE2).1 n d hd
    (by rw [val_normalBits M E hM1 hM2 hE1 hE2]; exact h)

/-- **positive integers below 2^53 convert exactly**: there is a finite positive float whose
value is m, and rounding m (in any representation) gives it. -/
theorem exists_float_of_nat (m : Nat) (h0 : 0 < m) (h53 : m < 2 ^ 53) :
    ∃ x, PosFin x ∧ val x = (m : ℚ) ∧ ∀ n d : Nat, 0 < d → (n : ℚ) / d = m → roundMag n d = x := by
  have hne : m ≠ 0 := by omega
  have hl1 := Nat.log2_self_le hne
  have hl2 := @Nat.lt_log2_self m
  have hl : m.log2 < 53 := (Nat.log2_lt hne).mpr h53
  generalize m.log2 = l at *
  let k := 52 - l
  have hk : l + k = 52 := by omega
  have hM1 : 2 ^ 52 ≤ m * 2 ^ k := by
    calc 2 ^ 52 = 2 ^ l * 2 ^ k := by rw [← Nat.pow_add, hk]
      _ ≤ m * 2 ^ k := Nat.mul_le_mul_right _ hl1
  have hM2 : m * 2 ^ k < 2 ^ 53 := by
    calc m * 2 ^ k < 2 ^ (l + 1) * 2 ^ k := Nat.mul_lt_mul_of_pos_right hl2 (Nat.pow_pos (by decide))
      _ = 2 ^ 53 := by rw [← Nat.pow_add]; congr 1; omega
  have hv : ((m * 2 ^ k : Nat) : ℚ) * (2 : ℚ) ^ (-(k : Int)) = m := by
    push_cast
    rw [mul_assoc, zpow_neg, zpow_natCast, mul_inv_cancel₀ (by positivity), _root_.mul_one]
  refine ⟨normalBits (m * 2 ^ k) (-(k : Int)), (normalBits_spec _ _ hM1 hM2 (by omega) (by omega)).1, ?_, ?_⟩
  · rw [val_normalBits _ _ hM1 hM2 (by omega) (by omega)]; exact hv
  · intro n d hd h
    exact roundMag_normal n d hd _ _ hM1 hM2 (by omega) (by omega) (by rw [h, hv])

/-! ### sign -/

/-- what `roundRat` does with the sign -/
def signed (s : Bool) (y : Bits) : Bits := if s then y ||| negZero else y

theorem roundRat_eq_signed (s : Bool) (n d : Nat) : roundRat s n d = signed s (roundMag n d) := rfl

theorem xor_negZero_toNat (y : Bits) (hy : y.toNat < 2 ^ 63) : (y ^^^ negZero).toNat = 2 ^ 63 + y.toNat := by
  rw [UInt64.toNat_xor]
  have hz : negZero.toNat = 2 ^ 63 := by decide
  rw [hz]
  have : y.toNat ^^^ 2 ^ 63 = y.toNat ||| 2 ^ 63 := by
    apply Nat.eq_of_testBit_eq
    intro i
    rw [Nat.testBit_xor, Nat.testBit_or, Nat.testBit_two_pow]
    by_cases hi : 63 = i
    · subst hi
      have : y.toNat.testBit 63 = false := Nat.testBit_lt_two_pow hy
      simp [this]
    · simp [hi]
  rw [this, Nat.or_comm]
  have := Nat.two_pow_add_eq_or_of_lt hy 1
  rw [Nat.mul_one] at this
  exact this.symm

theorem neg_eq_signed (y : Bits) (hy : y.toNat < 2 ^ 63) : neg y = signed true y := by
  unfold neg signed
  simp only [if_true]
  rw [← UInt64.toNat_inj, or_negZero_toNat y hy]
  exact xor_negZero_toNat y hy

/-- setting the sign bit changes neither the exponent field nor the fraction field -/
theorem signed_fields (s : Bool) (y : Bits) (hy : y.toNat < 2 ^ 63) :
    expField (signed s y) = expField y ∧ fracField (signed s y) = fracField y ∧ signBit (signed s y) = s := by
  cases s
  · exact ⟨rfl, rfl, (signBit_false_iff y).mpr hy⟩
  · have ht : (signed true y).toNat = 2 ^ 63 + y.toNat := or_negZero_toNat y hy
    refine ⟨?_, ?_, ?_⟩
    · rw [expField_eq, expField_eq, ht]; omega
    · rw [fracField_eq, fracField_eq, ht]; omega
    · cases h : signBit (signed true y)
      · have := (signBit_false_iff _).mp h; omega
      · rfl

theorem signed_class (s : Bool) (y : Bits) (hy : PosFin y) :
    isNaN (signed s y) = false ∧ isInf (signed s y) = false ∧ isZero (signed s y) = false ∧
    mant (signed s y) = mant y ∧ expo (signed s y) = expo y ∧ signBit (signed s y) = s := by
  obtain ⟨h1, h2, h3⟩ := signed_fields s y hy.lt63
  have a := hy.isNaN; have b := hy.isInf; have c := hy.isZero
  unfold isNaN at a ⊢; unfold isInf at b ⊢; unfold isZero at c ⊢; unfold mant expo
  rw [h1, h2]
  exact ⟨a, b, c, rfl, rfl, h3⟩

/-! ### one multiplication / division of finite non-zero operands -/

theorem mul_signed (s : Bool) (y b : Bits) (hy : PosFin y) (hb : PosFin b) :
    mul (signed s y) b =
      signed s (roundMag (toFrac (mant y * mant b) (expo y + expo b)).1 (toFrac (mant y * mant b) (expo y + expo b)).2) := by
  obtain ⟨a1, a2, a3, a4, a5, a6⟩ := signed_class s y hy
  unfold mul
  simp only [a1, a2, a3, a4, a5, a6, hb.isNaN, hb.isInf, hb.isZero, hb.signBit, Bool.or_self,
    Bool.false_eq_true, if_false, Bool.bne_false]
  rfl

theorem div_signed (s : Bool) (y b : Bits) (hy : PosFin y) (hb : PosFin b) :
    div (signed s y) b =
      signed s (roundMag (scaled (mant y) (mant b) (expo y - expo b)).1 (scaled (mant y) (mant b) (expo y - expo b)).2) := by
  obtain ⟨a1, a2, a3, a4, a5, a6⟩ := signed_class s y hy
  unfold div
  simp only [a1, a2, a3, a4, a5, a6, hb.isNaN, hb.isInf, hb.isZero, hb.signBit, Bool.or_self,
    Bool.false_eq_true, if_false, Bool.bne_false, roundRat_eq_signed]
  simp only [scaled_fst, scaled_snd]
  split
  · rename_i h
    have : (-(expo y - expo b)).toNat = 0 := by omega
    rw [this]; simp
  · rename_i h
    have : (expo y - expo b).toNat = 0 := by omega
    rw [this]; simp

/-- value of the exact product fraction -/
theorem mul_frac_val (y b : Bits) :
    (((toFrac (mant y * mant b) (expo y + expo b)).1 : Nat) : ℚ) / ((toFrac (mant y * mant b) (expo y + expo b)).2 : Nat)
      = val y * val b := by
  rw [toFrac_ratio]; unfold val
  rw [zpow_add₀ (by norm_num : (2 : ℚ) ≠ 0)]; push_cast; ring

/-- value of the exact quotient fraction -/
theorem div_frac_val (y b : Bits) (hb : PosFin b) :
    (((scaled (mant y) (mant b) (expo y - expo b)).1 : Nat) : ℚ) / ((scaled (mant y) (mant b) (expo y - expo b)).2 : Nat)
      = val y / val b := by
  rw [scaled_ratio]; unfold val
  have hm : ((mant b : Nat) : ℚ) ≠ 0 := by exact_mod_cast hb.mant_pos.ne'
  have h2 : ((2 : ℚ) ^ expo b) ≠ 0 := (two_zpow_pos _).ne'
  rw [zpow_sub₀ (by norm_num : (2 : ℚ) ≠ 0)]
  field_simp

end F64
