/-
C11: normal-approximation ingredients, telescoping of the tied PMF/CDF wrappers, the N5 witness.
-/
import Model.Stats.UDist
import Model.Stats.UStat
import Model.Spec.UExact
import Proofs.Lemmas.C11Basic
import Mathlib.Algebra.BigOperators.Intervals
import Mathlib.Algebra.Order.Field.Rat
import Mathlib.Tactic.Ring
import Mathlib.Tactic.Linarith
import Mathlib.Tactic.FieldSimp

namespace C11
open Stats Stats.UStat Stats.UDist

/-! ### normal approximation -/

theorem tieCorrection_eq (T : List Nat) : tieCorrection T = (T.map fun t => t * t * t - t).sum := by
  unfold tieCorrection
  have h : ∀ (l : List Nat) (a : Nat),
      l.foldl (fun acc t => acc + (t * t * t - t)) a = a + (l.map fun t => t * t * t - t).sum := by
    intro l; induction l with
    | nil => intro a; simp
    | cons x xs ih => intro a; simp [List.foldl_cons, ih]; omega
  rw [h]; simp

/-- the model's μ, σ² and continuity-corrected numerator are the textbook ones (as exact rationals):
    σ² = n1·n2/12·((N+1) − Σ(t³−t)/(N(N−1))); numerator 2(U−μ) moved ½ toward the mean (two-sided),
    +½ (less), −½ (greater) -/
theorem approx_formula (twoU n1 n2 : Nat) (T : List Nat) :
    sigma2 n1 n2 T = Spec.UExact.sigma2 n1 n2 ((T.map fun t => t * t * t - t).sum) ∧
    twoNumer .less (twoU : Int) n1 n2 = Spec.UExact.twoNumerLess twoU n1 n2 ∧
    twoNumer .greater (twoU : Int) n1 n2 = Spec.UExact.twoNumerGreater twoU n1 n2 ∧
    twoNumer .differs (twoU : Int) n1 n2 = Spec.UExact.twoNumerTwoSided twoU n1 n2 := by
  refine ⟨?_, rfl, rfl, ?_⟩
  · unfold sigma2 Spec.UExact.sigma2
    rw [tieCorrection_eq]
    ring
  · unfold twoNumer Spec.UExact.twoNumerTwoSided
    simp only
    split_ifs <;> omega

/-! ### PMF / CDF wrappers of the tied distribution: the CDF accumulates the PMF -/

theorem pmfPure_tied (n1 n2 : Nat) (T : List Nat) (hT : UDist.hasTies T = true) (v : Nat)
    (hv : v ≤ 2 * (n1 * n2)) :
    pmfPure n1 n2 T (v : Int)
      = (((A T T.length n1 v : Nat) : Rat) - ((A T T.length n1 ((v : Int) - 1) : Nat) : Rat))
          / ((choose (n1 + n2) n1 : Nat) : Rat) := by
  unfold pmfPure pmfWith
  have h1 : ¬ ((v : Int) < 0 ∨ (v : Int) ≥ 1 + 2 * ((n1 * n2 : Nat) : Int)) := by push_cast; omega
  rw [if_neg h1, if_pos hT]
  push_cast
  rfl

/-- telescoping: Σ_{v ≤ u} PMF(v) = (A(u) − A(−1)) / C(N, n1) -/
theorem pmf_prefix_sum_tied (n1 n2 : Nat) (T : List Nat) (hT : UDist.hasTies T = true) (u : Nat)
    (hu : u ≤ 2 * (n1 * n2)) :
    ∑ v ∈ Finset.range (u + 1), pmfPure n1 n2 T (v : Int)
      = (((A T T.length n1 u : Nat) : Rat) - ((A T T.length n1 (-1) : Nat) : Rat))
          / ((choose (n1 + n2) n1 : Nat) : Rat) := by
  induction u with
  | zero =>
    rw [Finset.sum_range_one, pmfPure_tied n1 n2 T hT 0 (by omega)]
    simp
  | succ u ih =>
    rw [Finset.sum_range_succ, ih (by omega), pmfPure_tied n1 n2 T hT (u + 1) hu]
    have : ((u + 1 : Nat) : Int) - 1 = (u : Int) := by push_cast; ring
    rw [this]
    ring

/-- **the distribution function accumulates the mass function** (tied wrappers): for 0 ≤ 2U < 2·n1·n2,
    CDF(U) = A(−1)/C + Σ_{v ≤ 2U} PMF(v/2); `A(−1)` is the count of assignments with 2U ≤ −1 (zero
    once the recurrence is known exact) -/
theorem cdf_is_prefix_sum_tied (n1 n2 : Nat) (T : List Nat) (hT : UDist.hasTies T = true) (u : Nat)
    (hu : u < 2 * (n1 * n2)) :
    cdfPure n1 n2 T (u : Int)
      = ((A T T.length n1 (-1) : Nat) : Rat) / ((choose (n1 + n2) n1 : Nat) : Rat)
        + ∑ v ∈ Finset.range (u + 1), pmfPure n1 n2 T (v : Int) := by
  rw [pmf_prefix_sum_tied n1 n2 T hT u (by omega)]
  unfold cdfPure cdfWith
  have h1 : ¬ ((u : Int) < 0) := by omega
  have h2 : ¬ ((u : Int) ≥ 2 * ((n1 * n2 : Nat) : Int)) := by push_cast; omega
  rw [if_neg h1, if_neg h2, if_pos hT]
  ring

/-- the mass function sums to 1 once the table is exact at the two ends (A(−1) = 0, A(2n1n2) = C) -/
theorem pmf_sums_to_one_tied_partial (n1 n2 : Nat) (T : List Nat) (hT : UDist.hasTies T = true)
    (hlo : A T T.length n1 (-1) = 0)
    (hhi : A T T.length n1 ((2 * (n1 * n2) : Nat) : Int) = choose (n1 + n2) n1)
    (hC : choose (n1 + n2) n1 ≠ 0) :
    ∑ v ∈ Finset.range (2 * (n1 * n2) + 1), pmfPure n1 n2 T (v : Int) = 1 := by
  rw [pmf_prefix_sum_tied n1 n2 T hT _ (le_refl _), hlo, hhi]
  have : ((choose (n1 + n2) n1 : Nat) : Rat) ≠ 0 := by exact_mod_cast hC
  simp [this]

/-! ### N5: the two-sided formula is wrong for an asymmetric tie pattern -/

def Outcome.p? : Outcome → Option Rat
  | .exact _ p => some p
  | _ => none

theorem n5_merge1 : labeledMerge (sortF [(1 : Int), 2]) (sortF [2]) = [(1, true), (2, false), (2, true)] := by
  simp [sortF, insertSorted, labeledMerge]
theorem n5_merge2 : labeledMerge (sortF [(2 : Int)]) (sortF [1, 2]) = [(1, false), (2, false), (2, true)] := by
  simp [sortF, insertSorted, labeledMerge]

/-- **N5 witness.** x1 = {1,2}, x2 = {2}: the model of the current code answers 4/3 for the two-sided
    test and 2/3 when the samples are swapped, while the specification (twice the smaller one-sided
    value, capped at 1) is 1 both ways: the value is outside [0,1] and not swap-invariant. -/
theorem two_sided_asymmetric_witness :
    Outcome.p? (mannWhitney cdfPure 50 25 [(1 : Int), 2] [2] .differs) = some ((4 : Rat) / 3) ∧
    Outcome.p? (mannWhitney cdfPure 50 25 [(2 : Int)] [1, 2] .differs) = some ((2 : Rat) / 3) ∧
    Spec.UExact.pTwoSided (Spec.UExact.nullDist [(1 : Int), 2] [2]) (Spec.UExact.twoUPairs [(1 : Int), 2] [2]) = 1 ∧
    Spec.UExact.pTwoSided (Spec.UExact.nullDist [(2 : Int)] [1, 2]) (Spec.UExact.twoUPairs [(2 : Int)] [1, 2]) = 1 := by
  refine ⟨?_, ?_, ?_, ?_⟩
  · unfold mannWhitney; rw [n5_merge1]; decide +kernel
  · unfold mannWhitney; rw [n5_merge2]; decide +kernel
  · decide +kernel
  · decide +kernel

end C11
