/-
C18 helper: contributions in canonical form (samples as sorted multisets).  The canonical
contribution of a test key is the same for two builders fed the same measurements in different
orders (under W1, W2), so the canonical contribution lists of a table are permutations of each
other; and the order-independence conditions `CDet` on a contribution list follow from the
well-formedness of the measurements.
-/
import Proofs.Lemmas.C18Keys

namespace C18
open Series

def canonC (c : Contrib) : Contrib := { c with num := sortBits c.num, den := c.den.map sortBits }

theorem canonC_key (c : Contrib) : (canonC c).key = c.key := rfl

theorem bhash_perm (o : Opts) {evs1 evs2 : List Ev} (hp : evs1.Perm evs2)
    (w2 : ∀ x ∈ evs1, ∀ y ∈ evs1, x.isDen o = true → y.isDen o = true → x.trial = y.trial → x.dh = y.dh)
    (k : TrialKey) : Spec.Series.bhash o evs1 k = Spec.Series.bhash o evs2 k := by
  unfold Spec.Series.bhash Spec.Series.trialBase
  have p := hp.filter (fun e => e.isDen o && decide (e.trial = k))
  cases h1 : evs1.filter (fun e => e.isDen o && decide (e.trial = k)) with
  | nil => rw [h1] at p; rw [p.symm.eq_nil]
  | cons x l =>
    cases h2 : evs2.filter (fun e => e.isDen o && decide (e.trial = k)) with
    | nil => rw [h1, h2] at p; exact absurd p.length_eq (by simp)
    | cons y l' =>
      have hx : x ∈ evs1.filter (fun e => e.isDen o && decide (e.trial = k)) := by rw [h1]; simp
      have hy : y ∈ evs1.filter (fun e => e.isDen o && decide (e.trial = k)) := by
        apply p.mem_iff.mpr; rw [h2]; simp
      obtain ⟨hx1, hx2⟩ := List.mem_filter.mp hx
      obtain ⟨hy1, hy2⟩ := List.mem_filter.mp hy
      simp only [Bool.and_eq_true, decide_eq_true_eq] at hx2 hy2
      have := w2 x hx1 y hy1 hx2.1 hy2.1 (hx2.2.trans hy2.2.symm)
      simp [this]

/-! ### the fields of a contribution, in terms of a measurement that produced its key -/

theorem mkC_bhash (env : Env) (o : Opts) (evs : List Ev) (key : TrialKey × Bytes) :
    (mkC env (build o evs) key).bhash = Spec.Series.bhash o evs key.1 := by
  unfold mkC contribOf Spec.Series.bhash
  simp only
  rw [base_exact]; rfl

theorem mkC_ser (env : Env) (o : Opts) (evs : List Ev)
    (w1 : ∀ x ∈ evs, ∀ y ∈ evs, x.isNum o = true → y.isNum o = true → x.nh = y.nh →
      normD env x.ser = normD env y.ser)
    (e : Ev) (he : e ∈ evs) (hn : e.isNum o = true) :
    (mkC env (build o evs) (e.trial, e.nh)).ser = normD env e.ser := by
  have hpres := (test_present_iff o evs (e.trial, e.nh)).mpr ⟨e, he, hn, rfl⟩
  obtain ⟨s, hs⟩ := Option.isSome_iff_exists.mp (hto_present o evs (e.trial, e.nh) hpres)
  obtain ⟨e', he', hn', hh, hs'⟩ := hto_sound o evs e.nh s hs
  unfold mkC contribOf
  simp only [hs, Option.getD_some]
  rw [← hs']
  exact w1 e' he' e he hn' hn hh

theorem option_map_getD {α β} (f : α → β) (d : α) {o1 o2 : Option α} (h : o1.map f = o2.map f) :
    f (o1.getD d) = f (o2.getD d) := by
  cases o1 <;> cases o2 <;> simp_all

/-- the canonical contribution of a key does not depend on the insertion order -/
theorem canon_mkC_eq (env : Env) (o : Opts) (pol : Policy) {evs1 evs2 : List Ev} (hp : evs1.Perm evs2)
    (hw : WFp env o pol evs1) (e : Ev) (he : e ∈ evs1) (hn : e.isNum o = true) :
    canonC (mkC env (build o evs1) (e.trial, e.nh)) = canonC (mkC env (build o evs2) (e.trial, e.nh)) := by
  have w1' : ∀ x ∈ evs2, ∀ y ∈ evs2, x.isNum o = true → y.isNum o = true → x.nh = y.nh →
      normD env x.ser = normD env y.ser :=
    fun x hx y hy => hw.w1 x (hp.mem_iff.mpr hx) y (hp.mem_iff.mpr hy)
  have hser : (mkC env (build o evs1) (e.trial, e.nh)).ser = (mkC env (build o evs2) (e.trial, e.nh)).ser := by
    rw [mkC_ser env o evs1 hw.w1 e he hn, mkC_ser env o evs2 w1' e (hp.mem_iff.mp he) hn]
  have hbh : (mkC env (build o evs1) (e.trial, e.nh)).bhash = (mkC env (build o evs2) (e.trial, e.nh)).bhash := by
    rw [mkC_bhash, mkC_bhash]; exact bhash_perm o hp hw.w2 _
  obtain ⟨ht, hb⟩ := cells_perm o evs1 evs2 hp
  have hnum : sortBits (mkC env (build o evs1) (e.trial, e.nh)).num =
      sortBits (mkC env (build o evs2) (e.trial, e.nh)).num := by
    unfold mkC contribOf
    exact option_map_getD sortBits [] (ht (e.trial, e.nh))
  have hden : (mkC env (build o evs1) (e.trial, e.nh)).den.map sortBits =
      (mkC env (build o evs2) (e.trial, e.nh)).den.map sortBits := by
    unfold mkC contribOf
    simp only [Option.map_map]
    exact hb e.trial
  show Contrib.mk _ _ _ _ _ _ _ = Contrib.mk _ _ _ _ _ _ _
  simp only [Contrib.mk.injEq]
  exact ⟨rfl, hser, rfl, hnum, hden, rfl, hbh⟩

/-- the canonical contribution lists of a table are permutations of each other, whatever the
insertion orders and the iteration orders -/
theorem contribs_canon_perm (env : Env) (o : Opts) (pol : Policy) {evs1 evs2 : List Ev} (hp : evs1.Perm evs2)
    (hw : WFp env o pol evs1) (it1 it2 : Iter) (hv1 : it1.Valid) (hv2 : it2.Valid) (t : TKey) :
    ((contribs env it1 (build o evs1) t).map canonC).Perm ((contribs env it2 (build o evs2) t).map canonC) := by
  rw [contribs_eq_map env o evs1 it1 hv1, contribs_eq_map env o evs2 it2 hv2, List.map_map, List.map_map]
  have hk := keyList_perm o evs1 evs2 hp it1 it2 hv1 hv2 t
  have hc : (keyList it1 (build o evs1) t).map (canonC ∘ mkC env (build o evs1)) =
      (keyList it1 (build o evs1) t).map (canonC ∘ mkC env (build o evs2)) := by
    apply List.map_congr_left
    intro key hkey
    obtain ⟨e, he, hn, _, rfl⟩ := (mem_keyList o evs1 it1 hv1 t key).mp hkey
    exact canon_mkC_eq env o pol hp hw e he hn
  rw [hc]
  exact hk.map _

/-! ### the conditions under which the rearrangement loop is order independent -/

structure CDet (pol : Policy) (cs : List Contrib) : Prop where
  hp1 : ∀ x ∈ cs, ∀ y ∈ cs, x.ser = y.ser →
    x.hash = y.hash ∧ (x.bhash = y.bhash ∨ x.bhash = [] ∨ y.bhash = [])
  dates : pol = .replace → ∀ x ∈ cs, ∀ y ∈ cs, x.key = y.key → x.date = y.date → x = y
  heard : pol = .combine → ∀ x ∈ cs, x.bhash ≠ [] →
    ∃ c ∈ cs, c.ser = x.ser ∧ ∀ d ∈ cs, d.key = c.key → d.bhash ≠ []

theorem CDet.perm {pol : Policy} {cs cs' : List Contrib} (h : CDet pol cs) (p : cs.Perm cs') : CDet pol cs' := by
  refine ⟨?_, ?_, ?_⟩
  · intro x hx y hy; exact h.hp1 x (p.mem_iff.mpr hx) y (p.mem_iff.mpr hy)
  · intro hpol x hx y hy; exact h.dates hpol x (p.mem_iff.mpr hx) y (p.mem_iff.mpr hy)
  · intro hpol x hx hb
    obtain ⟨c, hc, h1, h2⟩ := h.heard hpol x (p.mem_iff.mpr hx) hb
    exact ⟨c, p.mem_iff.mp hc, h1, fun d hd => h2 d (p.mem_iff.mpr hd)⟩

theorem CDet.canon {pol : Policy} {cs : List Contrib} (h : CDet pol cs) : CDet pol (cs.map canonC) := by
  refine ⟨?_, ?_, ?_⟩
  · intro x hx y hy
    obtain ⟨x', hx', rfl⟩ := List.mem_map.mp hx
    obtain ⟨y', hy', rfl⟩ := List.mem_map.mp hy
    exact h.hp1 x' hx' y' hy'
  · intro hpol x hx y hy hk hd
    obtain ⟨x', hx', rfl⟩ := List.mem_map.mp hx
    obtain ⟨y', hy', rfl⟩ := List.mem_map.mp hy
    rw [h.dates hpol x' hx' y' hy' hk hd]
  · intro hpol x hx hb
    obtain ⟨x', hx', rfl⟩ := List.mem_map.mp hx
    obtain ⟨c, hc, h1, h2⟩ := h.heard hpol x' hx' hb
    refine ⟨canonC c, List.mem_map.mpr ⟨c, hc, rfl⟩, h1, ?_⟩
    intro d hd hk
    obtain ⟨d', hd', rfl⟩ := List.mem_map.mp hd
    exact h2 d' hd' hk

/-- the contributions of a table built from well-formed measurements satisfy `CDet` -/
theorem cdet_of_wf (env : Env) (o : Opts) (pol : Policy) (evs : List Ev) (hw : WFp env o pol evs)
    (it : Iter) (hv : it.Valid) (t : TKey) : CDet pol (contribs env it (build o evs) t) := by
  rw [contribs_eq_map env o evs it hv]
  -- every member comes from a numerator measurement of the table
  have hmem : ∀ c ∈ (keyList it (build o evs) t).map (mkC env (build o evs)),
      ∃ e ∈ evs, e.isNum o = true ∧ e.tkey = t ∧ c = mkC env (build o evs) (e.trial, e.nh) := by
    intro c hc
    obtain ⟨key, hkey, rfl⟩ := List.mem_map.mp hc
    obtain ⟨e, he, hn, ht, rfl⟩ := (mem_keyList o evs it hv t key).mp hkey
    exact ⟨e, he, hn, ht, rfl⟩
  have hback : ∀ e ∈ evs, e.isNum o = true → e.tkey = t →
      mkC env (build o evs) (e.trial, e.nh) ∈ (keyList it (build o evs) t).map (mkC env (build o evs)) := by
    intro e he hn ht
    exact List.mem_map.mpr ⟨_, (mem_keyList o evs it hv t _).mpr ⟨e, he, hn, ht, rfl⟩, rfl⟩
  refine ⟨?_, ?_, ?_⟩
  · intro x hx y hy hs
    obtain ⟨ex, hex, nx, tx, rfl⟩ := hmem x hx
    obtain ⟨ey, hey, ny, ty, rfl⟩ := hmem y hy
    rw [mkC_ser env o evs hw.w1 ex hex nx, mkC_ser env o evs hw.w1 ey hey ny] at hs
    have := hw.w3 ex hex ey hey nx ny (tx.trans ty.symm) hs
    rw [mkC_bhash, mkC_bhash]
    exact this
  · intro hpol x hx y hy hk hd
    obtain ⟨ex, hex, nx, tx, rfl⟩ := hmem x hx
    obtain ⟨ey, hey, ny, ty, rfl⟩ := hmem y hy
    have hk' : ((mkC env (build o evs) (ex.trial, ex.nh)).bench, (mkC env (build o evs) (ex.trial, ex.nh)).ser) =
        ((mkC env (build o evs) (ey.trial, ey.nh)).bench, (mkC env (build o evs) (ey.trial, ey.nh)).ser) := hk
    rw [mkC_ser env o evs hw.w1 ex hex nx, mkC_ser env o evs hw.w1 ey hey ny] at hk'
    simp only [Prod.mk.injEq] at hk'
    obtain ⟨hb, hs⟩ := hk'
    have hb : ex.bench = ey.bench := hb
    have hd : normD env ex.exp = normD env ey.exp := hd
    have hexp := hw.w4 hpol ex hex ey hey nx ny (tx.trans ty.symm) hb hs hd
    have hnh := (hw.w3 ex hex ey hey nx ny (tx.trans ty.symm) hs).1
    have htr : ex.trial = ey.trial := by
      unfold Ev.trial; rw [tx, ty, hb, hexp]
    rw [htr, hnh]
  · intro hpol x hx hb
    obtain ⟨ex, hex, nx, tx, rfl⟩ := hmem x hx
    rw [mkC_bhash] at hb
    obtain ⟨c, hc, nc, tc, sc, hall⟩ := hw.w3c hpol ex hex nx hb
    refine ⟨mkC env (build o evs) (c.trial, c.nh), hback c hc nc (tc.trans tx), ?_, ?_⟩
    · rw [mkC_ser env o evs hw.w1 c hc nc, mkC_ser env o evs hw.w1 ex hex nx]; exact sc
    · intro d hd hk
      obtain ⟨ed, hed, nd, td, rfl⟩ := hmem d hd
      have hk' : ((mkC env (build o evs) (ed.trial, ed.nh)).bench, (mkC env (build o evs) (ed.trial, ed.nh)).ser) =
          ((mkC env (build o evs) (c.trial, c.nh)).bench, (mkC env (build o evs) (c.trial, c.nh)).ser) := hk
      rw [mkC_ser env o evs hw.w1 ed hed nd, mkC_ser env o evs hw.w1 c hc nc] at hk'
      simp only [Prod.mk.injEq] at hk'
      rw [mkC_bhash]
      exact hall ed hed nd (td.trans (tc.trans tx).symm) hk'.2 hk'.1

end C18
