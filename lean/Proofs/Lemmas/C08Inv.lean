/-
Helper lemmas for C08: the invariant of a Projection (field index space, key nodes) and its
preservation by populateRow / internRow / Project / ProjectValues.
-/
import Proofs.Lemmas.C08Trim

namespace C08
open Proc.Sort Proc.Projection Proc.Extract

/-! ### Field structure -/

def isGroupAt (top : List Top) (pos : Nat) : Prop := ∃ n subs, top[pos]? = some (Top.group n subs)

theorem flat_mapFields (g : Field → Field) (top : List Top) :
    (top.map (Top.mapFields g)).flatMap Top.flat = (top.flatMap Top.flat).map g := by
  induction top with
  | nil => rfl
  | cons t rest ih =>
    cases t <;> simp [Top.mapFields, Top.flat, List.flatMap_cons, ih]

theorem isGroupAt_mapFields (g : Field → Field) (top : List Top) (pos : Nat) :
    isGroupAt (top.map (Top.mapFields g)) pos ↔ isGroupAt top pos := by
  unfold isGroupAt
  rw [List.getElem?_map]
  cases h : top[pos]? with
  | none => simp
  | some t => cases t <;> simp [Top.mapFields]

theorem isGroupAt_addSubAt (top : List Top) (pos : Nat) (fld : Field) (q : Nat) :
    isGroupAt (addSubAt top pos fld) q ↔ isGroupAt top q := by
  induction top generalizing pos q with
  | nil => simp [addSubAt]
  | cons t rest ih =>
    cases pos with
    | zero =>
      cases t with
      | leaf f => simp [addSubAt]
      | group n subs =>
        cases q with
        | zero => simp [addSubAt, isGroupAt]
        | succ q' => simp [addSubAt, isGroupAt]
    | succ pos' =>
      cases q with
      | zero => simp [addSubAt, isGroupAt]
      | succ q' =>
        have := ih pos' q'
        simpa [addSubAt, isGroupAt] using this

theorem mem_flat_addSubAt (top : List Top) (pos : Nat) (fld : Field) (hg : isGroupAt top pos) (f : Field) :
    f ∈ (addSubAt top pos fld).flatMap Top.flat ↔ f ∈ top.flatMap Top.flat ∨ f = fld := by
  induction top generalizing pos with
  | nil => obtain ⟨n, s, h⟩ := hg; simp at h
  | cons t rest ih =>
    cases pos with
    | zero =>
      obtain ⟨n, s, h⟩ := hg
      simp at h
      subst h
      simp only [addSubAt, List.flatMap_cons, Top.flat, List.mem_append, List.mem_singleton]
      constructor
      · rintro ((h | h) | h)
        · exact Or.inl (Or.inl h)
        · exact Or.inr h
        · exact Or.inl (Or.inr h)
      · rintro ((h | h) | h)
        · exact Or.inl (Or.inl h)
        · exact Or.inr h
        · exact Or.inl (Or.inr h)
    | succ pos' =>
      have hg' : isGroupAt rest pos' := by
        obtain ⟨n, s, h⟩ := hg
        exact ⟨n, s, by simpa using h⟩
      have := ih pos' hg'
      simp only [addSubAt, List.flatMap_cons, List.mem_append, this]
      constructor
      · rintro (h | h | h)
        · exact Or.inl (Or.inl h)
        · exact Or.inl (Or.inr h)
        · exact Or.inr h
      · rintro ((h | h) | h)
        · exact Or.inl h
        · exact Or.inr (Or.inl h)
        · exact Or.inr (Or.inr h)

/-- The field index space: the row buffer has one slot per index, the flattened fields cover
exactly the indices below `nFields`, every `.config` closure has its group. -/
structure FInv (p : Proj) : Prop where
  rowLen : p.row.length = p.nFields
  cover : ∀ i, i < p.nFields → ∃ f ∈ p.flat, f.idx = i
  bound : ∀ f ∈ p.flat, f.idx < p.nFields
  groups : ∀ pos o, Part.config pos o ∈ p.parts → isGroupAt p.top pos

/-- `q` is `p` after some row writes and field additions. -/
structure Ext (p q : Proj) : Prop where
  nodes : q.nodes = p.nodes
  parts : q.parts = p.parts
  unitIdx : q.unitIdx = p.unitIdx
  nFields : p.nFields ≤ q.nFields
  grp : ∀ pos, isGroupAt q.top pos ↔ isGroupAt p.top pos
  /-- every flattened field of `q` is a field of `p`, or was created since: then its index is
  beyond the old index space and its observation-order map starts as the `.config` closure
  initialises it -/
  flatNew : ∀ f ∈ q.flat, f ∈ p.flat ∨
    (p.nFields ≤ f.idx ∧ (f.order = .first → f.ranks = if p.nodes.isEmpty then [] else [([], 0)]))

theorem Ext.refl (p : Proj) : Ext p p :=
  ⟨rfl, rfl, rfl, Nat.le_refl _, fun _ => Iff.rfl, fun _ hf => Or.inl hf⟩

theorem Ext.trans {p q r : Proj} (h1 : Ext p q) (h2 : Ext q r) : Ext p r :=
  ⟨h2.nodes.trans h1.nodes, h2.parts.trans h1.parts, h2.unitIdx.trans h1.unitIdx,
   Nat.le_trans h1.nFields h2.nFields, fun pos => (h2.grp pos).trans (h1.grp pos),
   fun f hf => by
     rcases h2.flatNew f hf with hq | ⟨hq1, hq2⟩
     · exact h1.flatNew f hq
     · refine Or.inr ⟨Nat.le_trans h1.nFields hq1, ?_⟩
       rw [← h1.nodes]; exact hq2⟩

theorem setRow_FInv (p : Proj) (i : Nat) (v : Bytes) (h : FInv p) :
    FInv { p with row := p.row.set i v } :=
  ⟨by simpa using h.rowLen, h.cover, h.bound, h.groups⟩

theorem setRow_Ext (p : Proj) (i : Nat) (v : Bytes) : Ext p { p with row := p.row.set i v } :=
  ⟨rfl, rfl, rfl, Nat.le_refl _, fun _ => Iff.rfl, fun _ hf => Or.inl hf⟩

theorem addSubField_FInv (p : Proj) (pos : Nat) (name : Bytes) (o : Order) (h : FInv p)
    (hg : isGroupAt p.top pos) : FInv (p.addSubField pos name o).1 := by
  constructor
  · simp [Proj.addSubField, h.rowLen]
  · intro i hi
    simp only [Proj.addSubField] at hi
    by_cases hlt : i < p.nFields
    · obtain ⟨f, hf, hfi⟩ := h.cover i hlt
      exact ⟨f, (mem_flat_addSubAt _ _ _ hg f).mpr (Or.inl hf), hfi⟩
    · refine ⟨mkSubField name p.nFields o (!p.nodes.isEmpty), (mem_flat_addSubAt _ _ _ hg _).mpr (Or.inr rfl), ?_⟩
      have : i = p.nFields := by omega
      rw [this]
      unfold mkSubField mkField
      cases o <;> rfl
  · intro f hf
    simp only [Proj.addSubField, Proj.flat] at hf ⊢
    rcases (mem_flat_addSubAt _ _ _ hg f).mp hf with hf | rfl
    · have := h.bound f hf; omega
    · unfold mkSubField mkField
      cases o <;> simp
  · intro q o' hq
    exact (isGroupAt_addSubAt _ _ _ _).mpr (h.groups q o' hq)

theorem addSubField_Ext (p : Proj) (pos : Nat) (name : Bytes) (o : Order) (hg : isGroupAt p.top pos) :
    Ext p (p.addSubField pos name o).1 :=
  ⟨rfl, rfl, rfl, by simp [Proj.addSubField], fun q => isGroupAt_addSubAt _ _ _ q,
   fun f hf => by
     simp only [Proj.addSubField, Proj.flat] at hf
     rcases (mem_flat_addSubAt _ _ _ hg f).mp hf with hf | rfl
     · exact Or.inl hf
     · refine Or.inr ⟨?_, ?_⟩
       · unfold mkSubField mkField; cases o <;> simp
       · intro ho
         unfold mkSubField mkField at ho ⊢
         cases o with
         | first => cases p.nodes.isEmpty <;> simp
         | alpha => simp at ho
         | num => simp at ho
         | fixed l => simp at ho⟩

theorem configStep_good (env : Env) (pos : Nat) (o : Order) (p : Proj) (cfg : Bytes × Bytes × Bool)
    (h : FInv p) (hg : isGroupAt p.top pos) :
    FInv (configStep env pos o p cfg) ∧ Ext p (configStep env pos o p cfg) := by
  unfold configStep
  split
  · exact ⟨h, Ext.refl p⟩
  · split
    · exact ⟨setRow_FInv p _ _ h, setRow_Ext p _ _⟩
    · split
      · exact ⟨h, Ext.refl p⟩
      · exact ⟨setRow_FInv _ _ _ (addSubField_FInv p pos _ o h hg),
          (addSubField_Ext p pos _ o hg).trans (setRow_Ext _ _ _)⟩

theorem configFold_good (env : Env) (pos : Nat) (o : Order) (cfgs : List (Bytes × Bytes × Bool)) (p : Proj)
    (h : FInv p) (hg : isGroupAt p.top pos) :
    FInv (cfgs.foldl (configStep env pos o) p) ∧ Ext p (cfgs.foldl (configStep env pos o) p) := by
  induction cfgs generalizing p with
  | nil => exact ⟨h, Ext.refl p⟩
  | cons c rest ih =>
    obtain ⟨h1, e1⟩ := configStep_good env pos o p c h hg
    obtain ⟨h2, e2⟩ := ih _ h1 ((e1.grp pos).mpr hg)
    exact ⟨h2, e1.trans e2⟩

theorem runPart_good (env : Env) (r : Res) (p : Proj) (part : Part) (h : FInv p) (hp : part ∈ p.parts) :
    FInv (runPart env r p part) ∧ Ext p (runPart env r p part) := by
  cases part with
  | config pos o => exact configFold_good env pos o r.config p h (h.groups pos o hp)
  | fullname idx => exact ⟨setRow_FInv p _ _ h, setRow_Ext p _ _⟩
  | key k idx => exact ⟨setRow_FInv p _ _ h, setRow_Ext p _ _⟩

theorem partsFold_good (env : Env) (r : Res) (parts : List Part) (p : Proj) (h : FInv p)
    (hsub : ∀ x ∈ parts, x ∈ p.parts) :
    FInv (parts.foldl (runPart env r) p) ∧ Ext p (parts.foldl (runPart env r) p) := by
  induction parts generalizing p with
  | nil => exact ⟨h, Ext.refl p⟩
  | cons x rest ih =>
    obtain ⟨h1, e1⟩ := runPart_good env r p x h (hsub x (by simp))
    obtain ⟨h2, e2⟩ := ih _ h1 (fun y hy => by rw [e1.parts]; exact hsub y (by simp [hy]))
    exact ⟨h2, e1.trans e2⟩

theorem populateRow_good (env : Env) (p : Proj) (r : Res) (h : FInv p) :
    FInv (p.populateRow env r) ∧ Ext p (p.populateRow env r) := by
  unfold Proj.populateRow
  have h0 : FInv { p with row := p.row.map fun _ => [] } :=
    ⟨by simpa using h.rowLen, h.cover, h.bound, h.groups⟩
  have e0 : Ext p { p with row := p.row.map fun _ => [] } :=
    ⟨rfl, rfl, rfl, Nat.le_refl _, fun _ => Iff.rfl, fun _ hf => Or.inl hf⟩
  obtain ⟨h1, e1⟩ := partsFold_good env r p.parts _ h0 (fun x hx => hx)
  exact ⟨h1, e0.trans e1⟩

/-! ### Key nodes -/

structure NInv (h : List Bytes → UInt64) (p : Proj) : Prop where
  hash : ∀ n ∈ p.nodes, n.hash = h n.vals
  trimmed : ∀ n ∈ p.nodes, trim n.vals = n.vals
  distinct : p.nodes.Pairwise fun a b => a.vals ≠ b.vals
  len : ∀ n ∈ p.nodes, n.vals.length ≤ p.nFields

theorem NInv_of_Ext (h : List Bytes → UInt64) {p q : Proj} (e : Ext p q) (hn : NInv h p) : NInv h q :=
  ⟨by rw [e.nodes]; exact hn.hash, by rw [e.nodes]; exact hn.trimmed, by rw [e.nodes]; exact hn.distinct,
   by rw [e.nodes]; intro n hm; exact Nat.le_trans (hn.len n hm) e.nFields⟩

/-- The full invariant of a Projection. -/
structure Inv (h : List Bytes → UInt64) (p : Proj) : Prop where
  f : FInv p
  n : NInv h p

theorem observeField_same (row : List Bytes) (f : Field) :
    (observeField row f).idx = f.idx ∧ (observeField row f).name = f.name ∧
    (observeField row f).order = f.order := by
  unfold observeField
  split <;> exact ⟨rfl, rfl, rfl⟩

/-- What `internRow` does: the row buffer, field indices and closures are untouched; the nodes
are extended by at most the trimmed row; the key is the node holding the trimmed row. -/
theorem internRow_spec (h : List Bytes → UInt64) (p : Proj) :
    let q := (p.internRow h).1
    let k := (p.internRow h).2
    q.row = p.row ∧ q.nFields = p.nFields ∧ q.parts = p.parts ∧ q.unitIdx = p.unitIdx ∧
    (∃ g : Field → Field, (∀ f, (g f).idx = f.idx ∧ (g f).name = f.name ∧ (g f).order = f.order) ∧
      q.flat = p.flat.map g ∧ q.top = p.top.map (Top.mapFields g)) ∧
    ((q.nodes = p.nodes) ∨
      (q.nodes = p.nodes ++ [{ hash := h (trim p.row), vals := trim p.row }] ∧
        ∀ n ∈ p.nodes, ¬ (n.hash = h (trim p.row) ∧ n.vals = trim p.row))) ∧
    k < q.nodes.length ∧ q.vals k = trim p.row := by
  simp only [Proj.internRow]
  cases hf : findNode p.nodes (h (trim p.row)) (trim p.row) 0 with
  | some k =>
    obtain ⟨_, n, hn, hv⟩ := findNode_some _ _ _ _ _ hf
    simp only [Nat.sub_zero] at hn
    refine ⟨rfl, rfl, rfl, rfl, ⟨id, fun f => ⟨rfl, rfl, rfl⟩, by simp, ?_⟩, Or.inl rfl, ?_, ?_⟩
    · have : (Top.mapFields id) = id := by funext t; cases t <;> simp [Top.mapFields]
      simp [this]
    · have := List.getElem?_eq_some_iff.mp hn
      exact this.1
    · simp [Proj.vals, hn, hv]
  | none =>
    have hnone := findNode_none _ _ _ _ hf
    refine ⟨rfl, rfl, rfl, rfl, ⟨observeField (trim p.row), observeField_same _, ?_, rfl⟩,
      Or.inr ⟨rfl, hnone⟩, by simp, ?_⟩
    · simp only [Proj.flat]; exact flat_mapFields _ _
    · simp [Proj.vals]

theorem internRow_inv (h : List Bytes → UInt64) (p : Proj) (hi : Inv h p) : Inv h (p.internRow h).1 := by
  obtain ⟨hrow, hnf, hparts, _, ⟨g, hg, hflat, htop⟩, hnodes, _, _⟩ := internRow_spec h p
  constructor
  · constructor
    · rw [hrow, hnf]; exact hi.f.rowLen
    · intro i hlt
      rw [hnf] at hlt
      obtain ⟨f, hf, hfi⟩ := hi.f.cover i hlt
      exact ⟨g f, by rw [hflat]; exact List.mem_map_of_mem hf, by rw [(hg f).1]; exact hfi⟩
    · intro f hf
      rw [hflat] at hf
      obtain ⟨f0, hf0, rfl⟩ := List.mem_map.mp hf
      rw [(hg f0).1, hnf]; exact hi.f.bound f0 hf0
    · intro pos o hp
      rw [hparts] at hp
      rw [htop]
      exact (isGroupAt_mapFields _ _ _).mpr (hi.f.groups pos o hp)
  · rcases hnodes with hn | ⟨hn, hnew⟩
    · exact ⟨by rw [hn]; exact hi.n.hash, by rw [hn]; exact hi.n.trimmed, by rw [hn]; exact hi.n.distinct,
        by rw [hn, hnf]; exact hi.n.len⟩
    · constructor
      · rw [hn]; intro n hm
        rcases List.mem_append.mp hm with hm | hm
        · exact hi.n.hash n hm
        · simp at hm; subst hm; rfl
      · rw [hn]; intro n hm
        rcases List.mem_append.mp hm with hm | hm
        · exact hi.n.trimmed n hm
        · simp at hm; subst hm; exact trim_idem _
      · rw [hn, List.pairwise_append]
        refine ⟨hi.n.distinct, by simp, ?_⟩
        intro a ha b hb
        simp at hb; subst hb
        intro e
        exact hnew a ha ⟨by rw [hi.n.hash a ha, e], e⟩
      · rw [hn, hnf]; intro n hm
        rcases List.mem_append.mp hm with hm | hm
        · exact hi.n.len n hm
        · simp at hm; subst hm
          have := trim_length_le p.row
          rw [hi.f.rowLen] at this
          exact this

theorem populateRow_inv (h : List Bytes → UInt64) (env : Env) (p : Proj) (r : Res) (hi : Inv h p) :
    Inv h (p.populateRow env r) := by
  obtain ⟨h1, e1⟩ := populateRow_good env p r hi.f
  exact ⟨h1, NInv_of_Ext h e1 hi.n⟩

theorem project_inv (h : List Bytes → UInt64) (env : Env) (p : Proj) (r : Res) (hi : Inv h p) :
    Inv h (p.project h env r).1 :=
  internRow_inv h _ (populateRow_inv h env p r hi)

theorem projectUnits_inv (h : List Bytes → UInt64) (ui : Nat) (us : List Bytes) (p : Proj) (hi : Inv h p) :
    Inv h (projectUnits h ui p us).1 := by
  induction us generalizing p with
  | nil => exact hi
  | cons u rest ih =>
    simp only [projectUnits]
    apply ih
    apply internRow_inv
    exact ⟨setRow_FInv p _ _ hi.f, NInv_of_Ext h (setRow_Ext p _ _) hi.n⟩

theorem projectValues_inv (h : List Bytes → UInt64) (env : Env) (p : Proj) (r : Res) (hi : Inv h p) :
    Inv h (p.projectValues h env r).1 := by
  unfold Proj.projectValues
  have h1 := populateRow_inv h env p r hi
  dsimp only
  split
  · exact internRow_inv h _ h1
  · exact projectUnits_inv h _ _ _ h1

/-! ### Parsing yields a projection that satisfies the invariant -/

theorem flat_append (a b : List Top) : (a ++ b).flatMap Top.flat = a.flatMap Top.flat ++ b.flatMap Top.flat := by
  simp [List.flatMap_append]

theorem isGroupAt_append_left (top : List Top) (t : Top) (pos : Nat) (h : isGroupAt top pos) :
    isGroupAt (top ++ [t]) pos := by
  obtain ⟨n, s, hh⟩ := h
  have hlt : pos < top.length := by
    rcases Nat.lt_or_ge pos top.length with h | h
    · exact h
    · rw [List.getElem?_eq_none h] at hh; simp at hh
  exact ⟨n, s, by rw [List.getElem?_append_left hlt]; exact hh⟩

theorem addRootField_FInv (p : Proj) (name : Bytes) (o : Order) (h : FInv p) :
    FInv (p.addRootField name o).1 := by
  constructor
  · simp [Proj.addRootField, h.rowLen]
  · intro i hi
    simp only [Proj.addRootField] at hi
    by_cases hlt : i < p.nFields
    · obtain ⟨f, hf, hfi⟩ := h.cover i hlt
      exact ⟨f, by simp only [Proj.addRootField, Proj.flat, flat_append]; exact List.mem_append_left _ hf, hfi⟩
    · refine ⟨mkField name p.nFields o, ?_, ?_⟩
      · simp [Proj.addRootField, Proj.flat, flat_append, Top.flat]
      · simp [mkField]; omega
  · intro f hf
    simp only [Proj.addRootField, Proj.flat, flat_append, List.mem_append] at hf ⊢
    rcases hf with hf | hf
    · have := h.bound f hf; omega
    · simp [Top.flat] at hf; subst hf; simp [mkField]
  · intro q o' hq
    exact isGroupAt_append_left _ _ _ (h.groups q o' hq)

theorem makeProjection_FInv (pa : Parser) (s : Proj) (sp : Spec) (pa' : Parser) (s' : Proj)
    (h : FInv s) (hm : makeProjection pa s sp = (pa', .ok s')) : FInv s' ∧ s'.nodes = s.nodes := by
  unfold makeProjection at hm
  split at hm
  · simp at hm
  split at hm
  · split at hm
    · simp at hm
    · simp only [Proj.addGroup, Prod.mk.injEq, Except.ok.injEq] at hm
      obtain ⟨_, rfl⟩ := hm
      refine ⟨⟨h.rowLen, ?_, ?_, ?_⟩, rfl⟩
      · intro i hi
        obtain ⟨f, hf, hfi⟩ := h.cover i hi
        exact ⟨f, by simp only [Proj.flat, flat_append]; exact List.mem_append_left _ hf, hfi⟩
      · intro f hf
        simp only [Proj.flat, flat_append, List.mem_append] at hf
        rcases hf with hf | hf
        · exact h.bound f hf
        · simp [Top.flat] at hf
      · intro q o' hq
        simp only [List.mem_append, List.mem_singleton] at hq
        rcases hq with hq | hq
        · exact isGroupAt_append_left _ _ _ (h.groups q o' hq)
        · injection hq with hq1 hq2
          subst hq1
          exact ⟨dotConfig, [], by simp⟩
  · split at hm
    · simp only [Prod.mk.injEq, Except.ok.injEq] at hm
      obtain ⟨_, rfl⟩ := hm
      have := addRootField_FInv s dotFullname sp.order h
      exact ⟨⟨this.rowLen, this.cover, this.bound, fun q o' hq => by
        simp only [List.mem_append, List.mem_singleton] at hq
        rcases hq with hq | hq
        · exact this.groups q o' hq
        · simp at hq⟩, rfl⟩
    · split at hm
      · simp at hm
      · dsimp only at hm
        by_cases he : sp.key.isEmpty = true
        · rw [if_pos he] at hm; simp at hm
        · rw [if_neg he] at hm
          simp only [Prod.mk.injEq, Except.ok.injEq] at hm
          obtain ⟨_, rfl⟩ := hm
          have := addRootField_FInv s sp.key sp.order h
          exact ⟨⟨this.rowLen, this.cover, this.bound, fun q o' hq => by
            simp only [List.mem_append, List.mem_singleton] at hq
            rcases hq with hq | hq
            · exact this.groups q o' hq
            · simp at hq⟩, rfl⟩

theorem parseParts_FInv (specs : List Spec) (pa : Parser) (s : Proj) (pa' : Parser) (s' : Proj)
    (h : FInv s) (hm : parseParts pa s specs = (pa', .ok s')) : FInv s' ∧ s'.nodes = s.nodes := by
  induction specs generalizing pa s with
  | nil => simp [parseParts] at hm; obtain ⟨_, rfl⟩ := hm; exact ⟨h, rfl⟩
  | cons sp rest ih =>
    unfold parseParts at hm
    split at hm
    · rename_i p1 s1 heq
      obtain ⟨h1, n1⟩ := makeProjection_FInv pa s sp p1 s1 h heq
      obtain ⟨h2, n2⟩ := ih p1 s1 h1 hm
      exact ⟨h2, n2.trans n1⟩
    · simp at hm

theorem newProjection_FInv : FInv newProjection :=
  ⟨rfl, by intro i hi; simp [newProjection] at hi, by intro f hf; simp [newProjection, Proj.flat] at hf,
   by intro q o hq; simp [newProjection] at hq⟩

theorem Inv_of_FInv_nil (h : List Bytes → UInt64) (p : Proj) (hf : FInv p) (hn : p.nodes = []) : Inv h p :=
  ⟨hf, ⟨by simp [hn], by simp [hn], by simp [hn], by simp [hn]⟩⟩

/-- A successful `Parse` is the walk over the parts. -/
theorem parse_ok (pa : Parser) (specs : List Spec) (pa' : Parser) (s : Proj)
    (hm : pa.parse specs = (pa', .ok s)) : parseParts pa newProjection specs = (pa', .ok s) := by
  unfold Parser.parse at hm
  cases hh : parseParts pa newProjection specs with
  | mk p1 r1 =>
    rw [hh] at hm
    cases r1 with
    | ok s1 => simpa using hm
    | error e => simp at hm

theorem parse_inv (h : List Bytes → UInt64) (pa : Parser) (specs : List Spec) (pa' : Parser) (s : Proj)
    (hm : pa.parse specs = (pa', .ok s)) : Inv h s := by
  obtain ⟨hf, hn⟩ := parseParts_FInv specs pa newProjection pa' s newProjection_FInv (parse_ok _ _ _ _ hm)
  exact Inv_of_FInv_nil h s hf (by rw [hn]; rfl)

theorem parseWithUnit_inv (h : List Bytes → UInt64) (pa : Parser) (specs : List Spec) (pa' : Parser) (s : Proj)
    (hm : pa.parseWithUnit specs = (pa', .ok s)) : Inv h s := by
  unfold Parser.parseWithUnit at hm
  split at hm
  · rename_i p1 s1 heq
    have hi := parse_inv h pa specs p1 s1 heq
    simp only [Prod.mk.injEq, Except.ok.injEq] at hm
    obtain ⟨_, rfl⟩ := hm
    have := addRootField_FInv s1 dotUnit .first hi.f
    exact Inv_of_FInv_nil h _ ⟨this.rowLen, this.cover, this.bound, this.groups⟩
      (by simp [Proj.addRootField]; exact List.eq_nil_of_length_eq_zero (by
        have := hi.n.len; cases hn : s1.nodes with
        | nil => rfl
        | cons a b =>
          obtain ⟨hf, hnodes⟩ := parseParts_FInv specs pa newProjection p1 s1 newProjection_FInv (parse_ok _ _ _ _ heq)
          rw [hnodes] at hn; simp [newProjection] at hn))
  · rename_i hne
    cases hp : pa.parse specs with
    | mk p1 e =>
      cases e with
      | ok s1 => exact absurd hp (hne p1 s1)
      | error e => rw [hp] at hm; simp at hm

/-- One optional `makeProjection` step of `Residue`. -/
theorem residue_step (st : Parser × Proj) (sp : Spec) (hf : FInv st.2) (hn : st.2.nodes = []) :
    FInv (residueStep st sp).2 ∧ (residueStep st sp).2.nodes = [] := by
  unfold residueStep
  cases hm : makeProjection st.1 st.2 sp with
  | mk p e =>
    cases e with
    | ok s' =>
      obtain ⟨h1, h2⟩ := makeProjection_FInv st.1 st.2 sp p s' hf hm
      exact ⟨h1, by simp [h2, hn]⟩
    | error e => exact ⟨hf, hn⟩

theorem residue_FInv_nodes (pa : Parser) : FInv (pa.residue).2 ∧ (pa.residue).2.nodes = [] := by
  unfold Parser.residue
  have h0 : FInv (pa, newProjection).2 ∧ (pa, newProjection).2.nodes = [] := ⟨newProjection_FInv, rfl⟩
  have h1 : ∀ st : Parser × Proj, FInv st.2 ∧ st.2.nodes = [] → ∀ (b : Bool) (sp : Spec),
      FInv (if b then residueStep st sp else st).2 ∧ (if b then residueStep st sp else st).2.nodes = [] := by
    intro st hst b sp
    cases b
    · simpa using hst
    · simpa using residue_step st sp hst.1 hst.2
  have h2 := h1 _ h0 (!pa.haveConfig) { key := dotConfig, order := .first }
  have h3 := h1 _ h2 (!(if (!pa.haveConfig) = true then residueStep (pa, newProjection) { key := dotConfig, order := .first } else (pa, newProjection)).1.haveFullname) { key := dotFullname, order := .first }
  exact h3

theorem residue_inv (h : List Bytes → UInt64) (pa : Parser) : Inv h (pa.residue).2 :=
  Inv_of_FInv_nil h _ (residue_FInv_nodes pa).1 (residue_FInv_nodes pa).2

/-- The states a Projection can be in: produced by `Parse`, `ParseWithUnit` or `Residue` of any
parser state, then any sequence of `Project` / `ProjectValues` calls, each under any state of
the parser (`env`). -/
inductive Reachable (h : List Bytes → UInt64) : Proj → Prop
  | parsed (pa : Parser) (specs : List Spec) (pa' : Parser) (s : Proj) :
      pa.parse specs = (pa', .ok s) → Reachable h s
  | parsedWithUnit (pa : Parser) (specs : List Spec) (pa' : Parser) (s : Proj) :
      pa.parseWithUnit specs = (pa', .ok s) → Reachable h s
  | residue (pa : Parser) : Reachable h (pa.residue).2
  | project (p : Proj) (env : Env) (r : Res) : Reachable h p → Reachable h (p.project h env r).1
  | projectValues (p : Proj) (env : Env) (r : Res) : Reachable h p → Reachable h (p.projectValues h env r).1

theorem reachable_inv (h : List Bytes → UInt64) (p : Proj) (hr : Reachable h p) : Inv h p := by
  induction hr with
  | parsed pa specs pa' s hm => exact parse_inv h pa specs pa' s hm
  | parsedWithUnit pa specs pa' s hm => exact parseWithUnit_inv h pa specs pa' s hm
  | residue pa => exact residue_inv h pa
  | project p env r _ ih => exact project_inv h env p r ih
  | projectValues p env r _ ih => exact projectValues_inv h env p r ih

end C08
