/-
C11: the null distribution of the specification depends only on the tie pattern of the pooled
sample — not on the order in which the pool is listed (goal 1), not on the actual values (goal 2) —
so it is the distribution of the canonical pool `poolOf T` for the tie vector `T` of the pool
(goal 3); basic facts about that `T` (goal 4).
-/
import Model.Stats.UStat
import Model.Spec.UExact
import Proofs.Lemmas.C11Rank
import Proofs.Lemmas.C11Groups
import Proofs.Lemmas.C11GroupsEnum
import Proofs.Lemmas.C11Untied
import Proofs.Lemmas.C11Compose
import Mathlib.Order.Defs.LinearOrder
import Mathlib.Order.Basic
import Mathlib.Data.List.Perm.Basic
import Mathlib.Data.List.Dedup
import Mathlib.Tactic.Ring
import Mathlib.Tactic.Linarith

namespace C11
namespace Relabel
open Spec.UExact Stats.UStat

/-! ### goal 1: the order of the pool does not matter -/

/-- a predicate on (chosen, rest) that only looks at the two multisets -/
def PermInv {α : Type} (Q : List α × List α → Bool) : Prop :=
  ∀ p q : List α × List α, p.1.Perm q.1 → p.2.Perm q.2 → Q p = Q q

theorem permInv_cons1 {α : Type} (a : α) {Q : List α × List α → Bool} (hQ : PermInv Q) :
    PermInv (fun p => Q (a :: p.1, p.2)) :=
  fun _ _ h1 h2 => hQ _ _ (h1.cons a) h2

theorem permInv_cons2 {α : Type} (a : α) {Q : List α × List α → Bool} (hQ : PermInv Q) :
    PermInv (fun p => Q (p.1, a :: p.2)) :=
  fun _ _ h1 h2 => hQ _ _ h1 (h2.cons a)

theorem countP_splits_zero {α : Type} (l : List α) (Q : List α × List α → Bool) :
    (splits 0 l).countP Q = if Q ([], l) = true then 1 else 0 := by
  rw [GroupsEnum.splits_zero, List.countP_singleton]

theorem countP_splits_cons {α : Type} (n : Nat) (a : α) (l : List α) (Q : List α × List α → Bool) :
    (splits (n + 1) (a :: l)).countP Q
      = (splits n l).countP (fun p => Q (a :: p.1, p.2))
        + (splits (n + 1) l).countP (fun p => Q (p.1, a :: p.2)) := by
  rw [splits, List.countP_append, List.countP_map, List.countP_map]
  rfl

theorem countP_splits_perm {α : Type} {l l' : List α} (h : l.Perm l') :
    ∀ (n : Nat) (Q : List α × List α → Bool), PermInv Q →
      (splits n l).countP Q = (splits n l').countP Q := by
  induction h with
  | nil => intro n Q _; rfl
  | cons a h ih =>
    intro n Q hQ
    cases n with
    | zero =>
      rename_i l₁ l₂
      have e : Q ([], a :: l₁) = Q ([], a :: l₂) :=
        hQ ([], a :: l₁) ([], a :: l₂) (List.Perm.refl _) (h.cons a)
      rw [countP_splits_zero, countP_splits_zero, e]
    | succ n =>
      rw [countP_splits_cons, countP_splits_cons, ih n _ (permInv_cons1 a hQ),
        ih (n + 1) _ (permInv_cons2 a hQ)]
  | swap a b l =>
    intro n Q hQ
    have e11 : (fun p : List α × List α => Q (b :: a :: p.1, p.2))
        = (fun p => Q (a :: b :: p.1, p.2)) :=
      funext fun p => hQ (_, p.2) (_, p.2) (List.Perm.swap a b p.1) (List.Perm.refl _)
    have e22 : (fun p : List α × List α => Q (p.1, b :: a :: p.2))
        = (fun p => Q (p.1, a :: b :: p.2)) :=
      funext fun p => hQ (p.1, _) (p.1, _) (List.Perm.refl _) (List.Perm.swap a b p.2)
    match n with
    | 0 =>
      have e : Q ([], b :: a :: l) = Q ([], a :: b :: l) :=
        hQ ([], b :: a :: l) ([], a :: b :: l) (List.Perm.refl _) (List.Perm.swap a b l)
      rw [countP_splits_zero, countP_splits_zero, e]
    | 1 =>
      rw [countP_splits_cons, countP_splits_cons, countP_splits_cons, countP_splits_cons,
        countP_splits_zero, countP_splits_zero, countP_splits_zero, countP_splits_zero]
      simp only [e22]
      omega
    | n + 2 =>
      rw [countP_splits_cons, countP_splits_cons, countP_splits_cons, countP_splits_cons,
        countP_splits_cons, countP_splits_cons]
      simp only [e11, e22]
      omega
  | trans _ _ ih1 ih2 =>
    intro n Q hQ
    rw [ih1 n Q hQ, ih2 n Q hQ]

/-! ### goal 2: the values do not matter, only their order -/

theorem splits_map {α β : Type} (f : α → β) (l : List α) :
    ∀ n, splits n (l.map f) = (splits n l).map (fun p => (p.1.map f, p.2.map f)) := by
  induction l with
  | nil => intro n; cases n <;> rfl
  | cons a l ih =>
    intro n
    cases n with
    | zero => rfl
    | succ n =>
      simp only [List.map_cons, splits, ih, List.map_append, List.map_map]
      rfl

section Pair
variable {α β : Type} [LinearOrder α] [LinearOrder β]

theorem pairW_map_mono (f : α → β) (a b : α) (h1 : a < b ↔ f a < f b) (h2 : b < a ↔ f b < f a) :
    pairW (f a) (f b) = pairW a b := by
  rcases lt_trichotomy a b with h | h | h
  · rw [pairW_lt h, pairW_lt (h1.1 h)]
  · subst h; rw [pairW_self, pairW_self]
  · rw [pairW_gt h, pairW_gt (h2.1 h)]

theorem pairW_map_anti (g : α → β) (a b : α) (h1 : a < b ↔ g b < g a) (h2 : b < a ↔ g a < g b) :
    pairW (g a) (g b) + pairW a b = 2 := by
  rcases lt_trichotomy a b with h | h | h
  · rw [pairW_lt h, pairW_gt (h1.1 h)]
  · subst h; rw [pairW_self, pairW_self]
  · rw [pairW_gt h, pairW_lt (h2.1 h)]

theorem twoUPairs_map_eq (f : α → β) (xs ys : List α)
    (h : ∀ a ∈ xs, ∀ b ∈ ys, pairW (f a) (f b) = pairW a b) :
    twoUPairs (xs.map f) (ys.map f) = twoUPairs xs ys := by
  unfold twoUPairs
  rw [List.map_map]
  congr 1
  apply List.map_congr_left
  intro a ha
  simp only [Function.comp, List.map_map]
  congr 1
  apply List.map_congr_left
  intro b hb
  exact h a ha b hb

theorem row_map_anti (g : α → β) (a : α) (ys : List α)
    (h : ∀ b ∈ ys, pairW (g a) (g b) + pairW a b = 2) :
    ((ys.map g).map fun b => pairW (g a) b).sum + (ys.map fun b => pairW a b).sum
      = 2 * ys.length := by
  induction ys with
  | nil => rfl
  | cons b ys ih =>
    have h0 := h b List.mem_cons_self
    have h1 := ih (fun b' hb' => h b' (List.mem_cons_of_mem _ hb'))
    simp only [List.map_cons, List.sum_cons, List.length_cons]
    omega

theorem twoUPairs_map_anti (g : α → β) (xs ys : List α)
    (h : ∀ a ∈ xs, ∀ b ∈ ys, pairW (g a) (g b) + pairW a b = 2) :
    twoUPairs (xs.map g) (ys.map g) + twoUPairs xs ys = 2 * xs.length * ys.length := by
  induction xs with
  | nil => simp [twoUPairs_nil_left]
  | cons a xs ih =>
    have h0 := row_map_anti g a ys (h a List.mem_cons_self)
    have h1 := ih (fun a' ha' => h a' (List.mem_cons_of_mem _ ha'))
    rw [List.map_cons, twoUPairs_cons_left, twoUPairs_cons_left, List.length_cons]
    have e : 2 * (xs.length + 1) * ys.length = 2 * xs.length * ys.length + 2 * ys.length := by ring
    omega

end Pair

/-! ### goal 3: run-length decoding of a sorted list -/

section Decode
variable {α : Type} [LinearOrder α]

/-- a sorted non-empty list starts with a run of its head, followed by larger values -/
theorem sorted_head_run (a : α) (S : List α) (h : (a :: S).Pairwise (· ≤ ·)) :
    ∃ A B, a :: S = A ++ B ∧ (∀ x ∈ A, x = a) ∧ A ≠ [] ∧ (∀ b ∈ B, a < b) ∧
      B.Pairwise (· ≤ ·) ∧ B.length ≤ S.length := by
  induction S with
  | nil => exact ⟨[a], [], rfl, by simp, by simp, by simp, List.Pairwise.nil, le_refl _⟩
  | cons b S ih =>
    rw [List.pairwise_cons] at h
    by_cases hba : b = a
    · subst hba
      obtain ⟨A, B, hAB, hA, _, hB, hBs, hlen⟩ := ih h.2
      refine ⟨b :: A, B, by rw [hAB]; rfl, ?_, by simp, hB, hBs, ?_⟩
      · intro x hx
        rcases List.mem_cons.mp hx with rfl | hx
        · rfl
        · exact hA x hx
      · simp only [List.length_cons]; omega
    · have hab : a < b := lt_of_le_of_ne (h.1 b List.mem_cons_self) (Ne.symm hba)
      refine ⟨[a], b :: S, rfl, by simp, by simp, ?_, h.2, le_refl _⟩
      intro x hx
      rcases List.mem_cons.mp hx with rfl | hx
      · exact hab
      · exact lt_of_lt_of_le hab ((List.pairwise_cons.mp h.2).1 x hx)

/-- replacing every value of a sorted list by its index among the distinct values gives the
    canonical pool of the run lengths -/
theorem map_idx_eq_poolFrom : ∀ (k : Nat) (S : List α), S.length ≤ k → S.Pairwise (· ≤ ·) →
    ∀ v, S.map (fun x => v + S.dedup.idxOf x) = GroupsEnum.poolFrom v (tv S) := by
  intro k
  induction k with
  | zero =>
    intro S hl _ v
    have : S = [] := List.length_eq_zero_iff.mp (Nat.le_zero.mp hl)
    subst this
    rfl
  | succ k ih =>
    intro S hl hs v
    match S, hl, hs with
    | [], _, _ => rfl
    | a :: S, hl, hs =>
      obtain ⟨A, B, hAB, hA, hne, hB, hBs, hlen⟩ := sorted_head_run a S hs
      rw [hAB, tv_run a A B hA hne hB, dedup_run a A B hA hne hB, GroupsEnum.poolFrom,
        List.map_append]
      have hk : B.length ≤ k := by simp only [List.length_cons] at hl; omega
      congr 1
      · rw [List.eq_replicate_iff]
        refine ⟨List.length_map _, ?_⟩
        intro y hy
        obtain ⟨x, hx, rfl⟩ := List.mem_map.mp hy
        rw [hA x hx, List.idxOf_cons_self]
        rfl
      · rw [← ih B hk hBs (v + 1)]
        apply List.map_congr_left
        intro x hx
        rw [List.idxOf_cons_ne _ (ne_of_lt (hB x hx))]
        omega

theorem dedup_strict (S : List α) (h : S.Pairwise (· ≤ ·)) : S.dedup.Pairwise (· < ·) := by
  have h1 : S.dedup.Pairwise (· ≤ ·) := h.sublist (List.dedup_sublist S)
  have h2 : S.dedup.Pairwise (· ≠ ·) := List.nodup_dedup S
  exact (h1.and h2).imp (fun h => lt_of_le_of_ne h.1 h.2)

/-- the index in a strictly increasing list is strictly monotone -/
theorem idxOf_lt_iff (D : List α) (hD : D.Pairwise (· < ·)) :
    ∀ a ∈ D, ∀ b ∈ D, (a < b ↔ D.idxOf a < D.idxOf b) := by
  induction D with
  | nil => intro a ha; cases ha
  | cons d D ih =>
    rw [List.pairwise_cons] at hD
    intro a ha b hb
    rcases List.mem_cons.mp ha with rfl | ha' <;> rcases List.mem_cons.mp hb with rfl | hb'
    · simp
    · have := hD.1 b hb'
      rw [List.idxOf_cons_self, List.idxOf_cons_ne _ (ne_of_lt this)]
      simp [this]
    · have := hD.1 a ha'
      rw [List.idxOf_cons_self, List.idxOf_cons_ne _ (ne_of_lt this)]
      simp [le_of_lt this]
    · rw [List.idxOf_cons_ne _ (ne_of_lt (hD.1 a ha')), List.idxOf_cons_ne _ (ne_of_lt (hD.1 b hb')),
        ih hD.2 a ha' b hb']
      omega

theorem poolFrom_length (T : List Nat) : ∀ v, (GroupsEnum.poolFrom v T).length = T.sum := by
  induction T with
  | nil => intro v; rfl
  | cons t ts ih =>
    intro v
    rw [GroupsEnum.poolFrom, List.length_append, List.length_replicate, ih, List.sum_cons]

/-- the tie vector of a pool, as computed by the code, in terms of the sorted pool alone -/
theorem tieVectorOf_sortF (pool : List α) :
    tieVectorOf ((sortF pool).dedup) pool = tv (sortF pool) :=
  tieVectorOf_perm _ (sortF_perm pool).symm

/-- the sorted pool, relabelled by rank among the distinct values, is the canonical pool -/
theorem sortF_relabel (pool : List α) :
    (sortF pool).map (fun x => 0 + (sortF pool).dedup.idxOf x)
      = poolOf (tieVectorOf ((sortF pool).dedup) pool) := by
  rw [tieVectorOf_sortF, GroupsEnum.poolOf_eq]
  exact map_idx_eq_poolFrom _ _ (le_refl _) (sortF_sorted pool) 0

end Decode

end Relabel

open Spec.UExact Stats.UStat

/-! ### GOAL 1 -/

/-- the number of assignments whose doubled statistic satisfies `P` does not depend on the order in
    which the pooled sample is listed -/
theorem nullDistOf_countP_perm {α : Type} [LinearOrder α] (n : Nat) {pool pool' : List α}
    (h : pool.Perm pool') (P : Nat → Bool) :
    (Spec.UExact.nullDistOf n pool).countP P = (Spec.UExact.nullDistOf n pool').countP P := by
  unfold nullDistOf
  rw [List.countP_map, List.countP_map]
  refine Relabel.countP_splits_perm h n _ ?_
  intro p q h1 h2
  show P (twoUPairs p.1 p.2) = P (twoUPairs q.1 q.2)
  rw [twoUPairs_perm_left h1, twoUPairs_perm_right _ h2]

/-! ### GOAL 2 -/

/-- relabelling the pooled values by a map that is strictly increasing on them leaves the null
    distribution unchanged (as a list, assignment by assignment) -/
theorem nullDistOf_map_of_strictMonoOn {α β : Type} [LinearOrder α] [LinearOrder β] (f : α → β)
    (n : Nat) (pool : List α) (hf : ∀ a ∈ pool, ∀ b ∈ pool, (a < b ↔ f a < f b)) :
    Spec.UExact.nullDistOf n (pool.map f) = Spec.UExact.nullDistOf n pool := by
  unfold nullDistOf
  rw [Relabel.splits_map, List.map_map]
  apply List.map_congr_left
  intro p hp
  obtain ⟨h1, h2, _, _⟩ := splits_mem_props n pool p hp
  exact Relabel.twoUPairs_map_eq f p.1 p.2 (fun a ha b hb =>
    Relabel.pairW_map_mono f a b (hf a (h1 a ha) b (h2 b hb)) (hf b (h2 b hb) a (h1 a ha)))

/-- relabelling by a map that is strictly decreasing on the pooled values mirrors every value of
    the null distribution: `d ↦ 2·n·(N − n) − d` -/
theorem nullDistOf_map_of_strictAntiOn {α β : Type} [LinearOrder α] [LinearOrder β] (g : α → β)
    (n : Nat) (pool : List α) (hg : ∀ a ∈ pool, ∀ b ∈ pool, (a < b ↔ g b < g a)) :
    Spec.UExact.nullDistOf n (pool.map g)
      = (Spec.UExact.nullDistOf n pool).map (fun d => 2 * n * (pool.length - n) - d) := by
  unfold nullDistOf
  rw [Relabel.splits_map, List.map_map, List.map_map]
  apply List.map_congr_left
  intro p hp
  obtain ⟨h1, h2, h3, h4⟩ := splits_mem_props n pool p hp
  have key := Relabel.twoUPairs_map_anti g p.1 p.2 (fun a ha b hb =>
    Relabel.pairW_map_anti g a b (hg a (h1 a ha) b (h2 b hb)) (hg b (h2 b hb) a (h1 a ha)))
  have e : p.2.length = pool.length - n := by omega
  rw [h3, e] at key
  simp only [Function.comp]
  omega

/-! ### GOAL 3 -/

/-- the null distribution of a pooled sample is that of the canonical pool of its tie vector
    (the `T` of `tie_vector_is_run_lengths`, with `pool = x1 ++ x2`) -/
theorem nullDistOf_canonical {α : Type} [LinearOrder α] (n : Nat) (pool : List α) (P : Nat → Bool) :
    (Spec.UExact.nullDistOf n pool).countP P
      = (Spec.UExact.nullDistOf n
          (poolOf (Spec.UExact.tieVectorOf ((Stats.UStat.sortF pool).dedup) pool))).countP P := by
  rw [← Relabel.sortF_relabel pool, nullDistOf_countP_perm n (sortF_perm pool).symm P]
  congr 1
  symm
  apply nullDistOf_map_of_strictMonoOn
  intro a ha b hb
  have hD := Relabel.dedup_strict _ (sortF_sorted pool)
  rw [Relabel.idxOf_lt_iff _ hD a (List.mem_dedup.mpr ha) b (List.mem_dedup.mpr hb)]
  omega

theorem nullDistOf_length_canonical {α : Type} [LinearOrder α] (n : Nat) (pool : List α) :
    (Spec.UExact.nullDistOf n pool).length
      = (Spec.UExact.nullDistOf n
          (poolOf (Spec.UExact.tieVectorOf ((Stats.UStat.sortF pool).dedup) pool))).length := by
  have := nullDistOf_canonical n pool (fun _ => true)
  rwa [List.countP_true] at this

theorem nullDistOf_filter_le_canonical {α : Type} [LinearOrder α] (n : Nat) (pool : List α) (u : Nat) :
    ((Spec.UExact.nullDistOf n pool).filter (· ≤ u)).length
      = ((Spec.UExact.nullDistOf n
          (poolOf (Spec.UExact.tieVectorOf ((Stats.UStat.sortF pool).dedup) pool))).filter (· ≤ u)).length := by
  rw [← List.countP_eq_length_filter, ← List.countP_eq_length_filter]
  exact nullDistOf_canonical n pool _

theorem nullDistOf_filter_ge_canonical {α : Type} [LinearOrder α] (n : Nat) (pool : List α) (u : Nat) :
    ((Spec.UExact.nullDistOf n pool).filter (· ≥ u)).length
      = ((Spec.UExact.nullDistOf n
          (poolOf (Spec.UExact.tieVectorOf ((Stats.UStat.sortF pool).dedup) pool))).filter (· ≥ u)).length := by
  rw [← List.countP_eq_length_filter, ← List.countP_eq_length_filter]
  exact nullDistOf_canonical n pool _

theorem pLess_canonical {α : Type} [LinearOrder α] (n : Nat) (pool : List α) (u : Nat) :
    Spec.UExact.pLess (Spec.UExact.nullDistOf n pool) u
      = Spec.UExact.pLess (Spec.UExact.nullDistOf n
          (poolOf (Spec.UExact.tieVectorOf ((Stats.UStat.sortF pool).dedup) pool))) u := by
  unfold pLess
  rw [nullDistOf_filter_le_canonical, nullDistOf_length_canonical]

theorem pGreater_canonical {α : Type} [LinearOrder α] (n : Nat) (pool : List α) (u : Nat) :
    Spec.UExact.pGreater (Spec.UExact.nullDistOf n pool) u
      = Spec.UExact.pGreater (Spec.UExact.nullDistOf n
          (poolOf (Spec.UExact.tieVectorOf ((Stats.UStat.sortF pool).dedup) pool))) u := by
  unfold pGreater
  rw [nullDistOf_filter_ge_canonical, nullDistOf_length_canonical]

theorem pTwoSided_canonical {α : Type} [LinearOrder α] (n : Nat) (pool : List α) (u : Nat) :
    Spec.UExact.pTwoSided (Spec.UExact.nullDistOf n pool) u
      = Spec.UExact.pTwoSided (Spec.UExact.nullDistOf n
          (poolOf (Spec.UExact.tieVectorOf ((Stats.UStat.sortF pool).dedup) pool))) u := by
  unfold pTwoSided
  rw [pLess_canonical, pGreater_canonical]

/-! ### GOAL 4: facts about the tie vector -/

theorem canonicalT_length {α : Type} [LinearOrder α] (pool : List α) :
    (Spec.UExact.tieVectorOf ((Stats.UStat.sortF pool).dedup) pool).length
      = ((Stats.UStat.sortF pool).dedup).length := by
  unfold tieVectorOf
  rw [List.length_map]

theorem canonicalT_pos {α : Type} [LinearOrder α] (pool : List α) :
    ∀ t ∈ Spec.UExact.tieVectorOf ((Stats.UStat.sortF pool).dedup) pool, 0 < t := by
  intro t ht
  unfold tieVectorOf at ht
  obtain ⟨a, ha, rfl⟩ := List.mem_map.mp ht
  have hmem : a ∈ pool := (sortF_perm pool).mem_iff.mp (List.mem_dedup.mp ha)
  exact List.length_pos_of_mem (List.mem_filter.mpr ⟨hmem, by simp⟩)

theorem canonicalT_sum {α : Type} [LinearOrder α] (pool : List α) :
    (Spec.UExact.tieVectorOf ((Stats.UStat.sortF pool).dedup) pool).sum = pool.length := by
  have h := congrArg List.length (Relabel.sortF_relabel pool)
  rw [List.length_map, sortF_length, GroupsEnum.poolOf_eq, Relabel.poolFrom_length] at h
  exact h.symm

/-- the canonical pool has the same size as the pool -/
theorem poolOf_canonical_length {α : Type} [LinearOrder α] (pool : List α) :
    (poolOf (Spec.UExact.tieVectorOf ((Stats.UStat.sortF pool).dedup) pool)).length = pool.length := by
  rw [GroupsEnum.poolOf_eq, Relabel.poolFrom_length, canonicalT_sum]

end C11
