/-
C18 helper: on a sorted list of rationals, low ≤ centre ≤ high for `summarize`, under the
hypothesis 2·N·p ≤ N − 1 that the low side needs (the high side holds for every p ∈ [0, ½]).
-/
import Proofs.Lemmas.C18Boot

namespace C18
open Series.Boot

theorem summarize_low (a : List Rat) (conf : Rat) :
    (summarize rat a conf).low = percentile rat a ((1 - conf) / 2) := by
  simp [summarize]

theorem summarize_high (a : List Rat) (conf : Rat) :
    (summarize rat a conf).high = percentile rat a (1 - (1 - conf) / 2) := by
  simp [summarize]

theorem summarize_center (a : List Rat) (conf : Rat) :
    (summarize rat a conf).center = median rat a := rfl

/-- low ≤ centre, for 0 ≤ p and 2·N·p ≤ N − 1 -/
theorem low_le_median {a : List Rat} {p : Rat} (hm : Mono a) (hne : a ≠ []) (hp0 : 0 ≤ p)
    (hN3 : 2 * ((a.length : Rat) * p) ≤ (a.length : Rat) - 1) :
    percentile rat a p ≤ median rat a := by
  have hn : 0 < a.length := List.length_pos_iff.mpr hne
  have hnq : (1 : Rat) ≤ (a.length : Rat) := by exact_mod_cast hn
  obtain ⟨hmed, _⟩ := median_bounds hm hne
  rcases eq_or_lt_of_le hp0 with h0 | hpos
  · -- p = 0
    rw [← h0, percentile_zero hne]
    exact le_trans (hm 0 _ (Nat.zero_le _) (by omega)) hmed
  · have hp1 : p < 1 := by
      by_contra hc
      have : (a.length : Rat) * 1 ≤ (a.length : Rat) * p :=
        mul_le_mul_of_nonneg_left (not_lt.mp hc) (by linarith)
      linarith
    obtain ⟨hilt, _, hcase⟩ := percentile_bounds hm hne hpos hp1
    have hf0 : 0 ≤ (a.length : Rat) * p := mul_nonneg (by linarith) hp0
    have hi1 := floor_toNat_le hf0
    generalize hi : ((a.length : Rat) * p).floor.toNat = i at *
    rcases hcase with heq | ⟨hi2, hx, heq⟩
    · -- no interpolation: a[i] with i ≤ (N-1)/2
      rw [heq]
      have h2 : (2 : Rat) * (i : Rat) ≤ (a.length : Rat) - 1 := by linarith
      have h3 : 2 * i + 1 ≤ a.length := by
        have : (2 : Rat) * (i : Rat) + 1 ≤ (a.length : Rat) := by linarith
        exact_mod_cast this
      exact le_trans (hm i _ (by omega) (by omega)) hmed
    · rw [heq]
      have hle : g a i ≤ g a (i + 1) := hm i (i + 1) (Nat.le_succ _) hi2
      have hx1 : (a.length : Rat) * p - (i : Rat) ≤ 1 / 2 + ((a.length : Rat) - 1) / 2 - (i : Rat) - 1 / 2 := by
        linarith
      -- 2i < N − 1
      have h3 : 2 * i + 2 ≤ a.length := by
        have : (2 : Rat) * (i : Rat) + 1 < (a.length : Rat) := by linarith
        have : 2 * i + 1 < a.length := by exact_mod_cast this
        omega
      rcases Nat.lt_or_ge (2 * i + 2) a.length with hlt | hge
      · -- i + 1 ≤ (N-1)/2 : the interpolation is at most a[i+1]
        have hxlt : (a.length : Rat) * p - (i : Rat) < 1 := by
          have := lt_floor_toNat_succ hf0
          rw [hi] at this
          linarith
        have h4 : g a i * (1 - ((a.length : Rat) * p - (i : Rat))) + g a (i + 1) * ((a.length : Rat) * p - (i : Rat))
            ≤ g a (i + 1) := by nlinarith
        exact le_trans h4 (le_trans (hm (i + 1) _ (by omega) (by omega)) hmed)
      · -- N = 2i + 2: the median is the mean of a[i], a[i+1] and x ≤ ½
        have hN : a.length = 2 * i + 2 := by omega
        have he : a.length % 2 = 0 := by omega
        rw [median_even he]
        have e1 : a.length / 2 = i + 1 := by omega
        have e2 : a.length / 2 - 1 = i := by omega
        rw [e2, e1]
        have hNq : (a.length : Rat) = 2 * (i : Rat) + 2 := by rw [hN]; push_cast; ring
        have hxh : (a.length : Rat) * p - (i : Rat) ≤ 1 / 2 := by linarith
        rw [le_div_iff₀ (by norm_num)]
        nlinarith

/-- centre ≤ high, for ½ ≤ q ≤ 1 -/
theorem median_le_high {a : List Rat} {q : Rat} (hm : Mono a) (hne : a ≠ []) (hq0 : 1 / 2 ≤ q) (hq1 : q ≤ 1) :
    median rat a ≤ percentile rat a q := by
  have hn : 0 < a.length := List.length_pos_iff.mpr hne
  have hnq : (1 : Rat) ≤ (a.length : Rat) := by exact_mod_cast hn
  obtain ⟨_, hmed⟩ := median_bounds hm hne
  rcases eq_or_lt_of_le hq1 with h1 | hlt
  · rw [h1, percentile_one hne]
    exact le_trans hmed (hm _ _ (by omega) (by omega))
  · have hpos : 0 < q := by linarith
    obtain ⟨hilt, hlow, _⟩ := percentile_bounds hm hne hpos hlt
    have hf0 : 0 ≤ (a.length : Rat) * q := mul_nonneg (by linarith) (le_of_lt hpos)
    have hi2 := lt_floor_toNat_succ hf0
    generalize hi : ((a.length : Rat) * q).floor.toNat = i at *
    have hhalf : (2 : Rat) * ((a.length / 2 : Nat) : Rat) ≤ (a.length : Rat) := by
      have : 2 * (a.length / 2) ≤ a.length := by omega
      exact_mod_cast this
    have hfq : (a.length : Rat) / 2 ≤ (a.length : Rat) * q := by
      have : (a.length : Rat) * (1 / 2) ≤ (a.length : Rat) * q := mul_le_mul_of_nonneg_left hq0 (by linarith)
      linarith
    have : ((a.length / 2 : Nat) : Rat) < (i : Rat) + 1 := by linarith
    have hge : a.length / 2 ≤ i := by
      have : a.length / 2 < i + 1 := by exact_mod_cast this
      omega
    exact le_trans hmed (le_trans (hm _ _ hge hilt) hlow)

end C18
