/-
Helper lemmas for C08 `get_is_extracted`: every row index is written by exactly one projection
closure ("ownership"); fields of a `.config` group get fresh indices.
Part 1: group sub-fields, the ownership invariant `OInv`, its preservation.
-/
import Proofs.Lemmas.C08Inv

namespace C08
open Proc.Sort Proc.Projection Proc.Extract

/-! ### groupSubs -/

theorem getElem?_addSubAt (top : List Top) (pos : Nat) (fld : Field) (q : Nat) :
    (addSubAt top pos fld)[q]? =
      if q = pos then
        (match top[pos]? with
         | some (.group n s) => some (.group n (s ++ [fld]))
         | x => x)
      else top[q]? := by
  induction top generalizing pos q with
  | nil => simp [addSubAt]
  | cons t rest ih =>
    cases pos with
    | zero =>
      cases t with
      | leaf f => cases q <;> simp [addSubAt]
      | group n subs => cases q <;> simp [addSubAt]
    | succ pos' =>
      cases q with
      | zero => simp [addSubAt]
      | succ q' =>
        have := ih pos' q'
        simp only [addSubAt, List.getElem?_cons_succ, this, Nat.add_right_cancel_iff]

theorem groupSubs_addSubAt_same (top : List Top) (pos : Nat) (fld : Field) (hg : isGroupAt top pos) :
    groupSubs (addSubAt top pos fld) pos = groupSubs top pos ++ [fld] := by
  obtain ⟨n, s, h⟩ := hg
  simp [groupSubs, getElem?_addSubAt, h]

theorem groupSubs_addSubAt_ne (top : List Top) (pos : Nat) (fld : Field) (q : Nat) (hq : q ≠ pos) :
    groupSubs (addSubAt top pos fld) q = groupSubs top q := by
  simp [groupSubs, getElem?_addSubAt, hq]

theorem groupSubs_mapFields (g : Field → Field) (top : List Top) (pos : Nat) :
    groupSubs (top.map (Top.mapFields g)) pos = (groupSubs top pos).map g := by
  unfold groupSubs
  rw [List.getElem?_map]
  cases h : top[pos]? with
  | none => simp
  | some t => cases t <;> simp [Top.mapFields]

theorem groupSubs_mem_flat (top : List Top) (pos : Nat) (f : Field) (h : f ∈ groupSubs top pos) :
    f ∈ top.flatMap Top.flat := by
  unfold groupSubs at h
  cases ht : top[pos]? with
  | none => simp [ht] at h
  | some t =>
    cases t with
    | leaf g => simp [ht] at h
    | group n subs =>
      simp [ht] at h
      exact List.mem_flatMap.mpr ⟨.group n subs, List.mem_of_getElem? ht, by simpa [Top.flat] using h⟩

theorem groupSubs_of_not_group (top : List Top) (pos : Nat) (h : ¬ isGroupAt top pos) : groupSubs top pos = [] := by
  unfold groupSubs
  cases ht : top[pos]? with
  | none => rfl
  | some t =>
    cases t with
    | leaf g => rfl
    | group n subs => exact absurd ⟨n, subs, ht⟩ h

theorem groupSubs_append_lt (top : List Top) (t : Top) (pos : Nat) (h : pos < top.length) :
    groupSubs (top ++ [t]) pos = groupSubs top pos := by
  unfold groupSubs; rw [List.getElem?_append_left h]

theorem groupSubs_append_leaf (top : List Top) (f : Field) (pos : Nat) :
    groupSubs (top ++ [.leaf f]) pos = groupSubs top pos := by
  rcases Nat.lt_or_ge pos top.length with h | h
  · exact groupSubs_append_lt top _ pos h
  · have h1 : top[pos]? = none := List.getElem?_eq_none h
    unfold groupSubs
    rw [List.getElem?_append_right h, h1]
    cases hp : pos - top.length <;> simp

theorem groupSubs_append_group (top : List Top) (n : Bytes) (pos : Nat) :
    groupSubs (top ++ [.group n []]) pos = groupSubs top pos := by
  rcases Nat.lt_or_ge pos top.length with h | h
  · exact groupSubs_append_lt top _ pos h
  · have h1 : top[pos]? = none := List.getElem?_eq_none h
    unfold groupSubs
    rw [List.getElem?_append_right h, h1]
    cases hp : pos - top.length <;> simp

/-- `i` is the index of a sub-field of the group at `pos`. -/
def groupIdxAt (top : List Top) (pos : Nat) (i : Nat) : Prop := ∃ f ∈ groupSubs top pos, f.idx = i

/-- `i` is the index of a sub-field of some group. -/
def groupIdx (top : List Top) (i : Nat) : Prop := ∃ pos, groupIdxAt top pos i

def leafIdx : Part → Option Nat
  | .key _ i => some i
  | .fullname i => some i
  | .config _ _ => none

def cfgPos : Part → Option Nat
  | .config pos _ => some pos
  | _ => none

/-- Which closure (or `ParseWithUnit`) is responsible for a flattened field. -/
inductive Owner (p : Proj) (f : Field) : Prop
  | key : Part.key f.name f.idx ∈ p.parts → Owner p f
  | fullname : Part.fullname f.idx ∈ p.parts → f.name = dotFullname → Owner p f
  | config (pos : Nat) (o : Order) : Part.config pos o ∈ p.parts → f ∈ groupSubs p.top pos → Owner p f
  | unit : p.unitIdx = some f.idx → f.name = dotUnit → Owner p f

/-- The ownership invariant. -/
structure OInv (p : Proj) : Prop where
  leafBound : ∀ part ∈ p.parts, ∀ i, leafIdx part = some i → i < p.nFields ∧ ¬ groupIdx p.top i
  leafNodup : (p.parts.filterMap leafIdx).Nodup
  cfgNodup : (p.parts.filterMap cfgPos).Nodup
  subsInj : ∀ pos₁ pos₂ f g, f ∈ groupSubs p.top pos₁ → g ∈ groupSubs p.top pos₂ → f.idx = g.idx →
    pos₁ = pos₂ ∧ f = g
  subsNames : ∀ pos f g, f ∈ groupSubs p.top pos → g ∈ groupSubs p.top pos → f.name = g.name → f = g
  unitOK : ∀ ui, p.unitIdx = some ui →
    ui < p.nFields ∧ ¬ groupIdx p.top ui ∧ ui ∉ p.parts.filterMap leafIdx
  owner : ∀ f ∈ p.flat, Owner p f

theorem mkSubField_idx (name : Bytes) (idx : Nat) (o : Order) (b : Bool) : (mkSubField name idx o b).idx = idx := by
  unfold mkSubField mkField; cases o <;> rfl

theorem mkSubField_name (name : Bytes) (idx : Nat) (o : Order) (b : Bool) : (mkSubField name idx o b).name = name := by
  unfold mkSubField mkField; cases o <;> rfl

theorem mem_groupSubs_addSubAt (top : List Top) (pos : Nat) (fld : Field) (hg : isGroupAt top pos) (q : Nat)
    (f : Field) :
    f ∈ groupSubs (addSubAt top pos fld) q ↔ f ∈ groupSubs top q ∨ (q = pos ∧ f = fld) := by
  by_cases hq : q = pos
  · subst hq
    rw [groupSubs_addSubAt_same top q fld hg]
    simp
  · rw [groupSubs_addSubAt_ne top pos fld q hq]
    simp [hq]

theorem Owner_mono {p q : Proj} {f : Field} (hp : ∀ x ∈ p.parts, x ∈ q.parts) (hu : p.unitIdx ≠ none → q.unitIdx = p.unitIdx)
    (hs : ∀ pos, f ∈ groupSubs p.top pos → f ∈ groupSubs q.top pos) (h : Owner p f) : Owner q f := by
  cases h with
  | key h1 => exact Owner.key (hp _ h1)
  | fullname h1 h2 => exact Owner.fullname (hp _ h1) h2
  | config pos o h1 h2 => exact Owner.config pos o (hp _ h1) (hs pos h2)
  | unit h1 h2 => exact Owner.unit (by rw [hu (by rw [h1]; simp)]; exact h1) h2

theorem Owner_congr {p q : Proj} {f : Field} (hp : q.parts = p.parts) (hu : q.unitIdx = p.unitIdx)
    (hs : ∀ pos, f ∈ groupSubs p.top pos → f ∈ groupSubs q.top pos) (h : Owner p f) : Owner q f :=
  Owner_mono (fun x hx => by rw [hp]; exact hx) (fun _ => hu) hs h

theorem setRow_OInv (p : Proj) (row : List Bytes) (h : OInv p) : OInv { p with row := row } :=
  ⟨h.leafBound, h.leafNodup, h.cfgNodup, h.subsInj, h.subsNames, h.unitOK,
   fun f hf => Owner_congr (p := p) (q := { p with row := row }) rfl rfl (fun _ hh => hh) (h.owner f hf)⟩

theorem subs_bound (p : Proj) (hf : FInv p) (pos : Nat) (f : Field) (h : f ∈ groupSubs p.top pos) :
    f.idx < p.nFields :=
  hf.bound f (groupSubs_mem_flat p.top pos f h)

theorem addSubField_OInv (p : Proj) (pos : Nat) (name : Bytes) (o : Order) (hf : FInv p) (ho : OInv p)
    (hg : isGroupAt p.top pos) (hpart : Part.config pos o ∈ p.parts)
    (hnew : ∀ f ∈ groupSubs p.top pos, f.name ≠ name) : OInv (p.addSubField pos name o).1 := by
  have hm := mem_groupSubs_addSubAt p.top pos (mkSubField name p.nFields o (!p.nodes.isEmpty)) hg
  have hfi := mkSubField_idx name p.nFields o (!p.nodes.isEmpty)
  have hfn := mkSubField_name name p.nFields o (!p.nodes.isEmpty)
  have hnotgrp : ∀ i, i < p.nFields → ¬ groupIdx p.top i → ¬ groupIdx (p.addSubField pos name o).1.top i := by
    intro i hi hng ⟨q, f, hfm, hfe⟩
    simp only [Proj.addSubField] at hfm
    rcases (hm q f).mp hfm with h1 | ⟨_, h1⟩
    · exact hng ⟨q, f, h1, hfe⟩
    · rw [h1, hfi] at hfe; omega
  constructor
  · intro part hp i hi
    obtain ⟨h1, h2⟩ := ho.leafBound part hp i hi
    exact ⟨by simp only [Proj.addSubField]; omega, hnotgrp i h1 h2⟩
  · exact ho.leafNodup
  · exact ho.cfgNodup
  · intro pos₁ pos₂ f g hf1 hg1 he
    simp only [Proj.addSubField] at hf1 hg1
    rcases (hm pos₁ f).mp hf1 with a | ⟨a1, a2⟩ <;> rcases (hm pos₂ g).mp hg1 with b | ⟨b1, b2⟩
    · exact ho.subsInj pos₁ pos₂ f g a b he
    · have := subs_bound p hf pos₁ f a
      rw [b2, hfi] at he; omega
    · have := subs_bound p hf pos₂ g b
      rw [a2, hfi] at he; omega
    · exact ⟨a1.trans b1.symm, a2.trans b2.symm⟩
  · intro q f g hf1 hg1 he
    simp only [Proj.addSubField] at hf1 hg1
    rcases (hm q f).mp hf1 with a | ⟨a1, a2⟩ <;> rcases (hm q g).mp hg1 with b | ⟨b1, b2⟩
    · exact ho.subsNames q f g a b he
    · subst b1; rw [b2, hfn] at he; exact absurd he (hnew f a)
    · subst a1; rw [a2, hfn] at he; exact absurd he.symm (hnew g b)
    · exact a2.trans b2.symm
  · intro ui hu
    obtain ⟨h1, h2, h3⟩ := ho.unitOK ui hu
    exact ⟨by simp only [Proj.addSubField]; omega, hnotgrp ui h1 h2, h3⟩
  · intro f hff
    simp only [Proj.addSubField, Proj.flat] at hff
    rcases (mem_flat_addSubAt _ _ _ hg f).mp hff with h1 | h1
    · exact Owner_congr (p := p) rfl rfl (fun q hh => (hm q f).mpr (Or.inl hh)) (ho.owner f h1)
    · exact Owner.config pos o hpart ((hm pos f).mpr (Or.inr ⟨rfl, h1⟩))

/-- Group sub-fields only grow, and new ones get indices beyond the old index space. -/
structure GExt (p q : Proj) : Prop where
  mono : ∀ pos f, f ∈ groupSubs p.top pos → f ∈ groupSubs q.top pos
  fresh : ∀ pos f, f ∈ groupSubs q.top pos → f ∈ groupSubs p.top pos ∨ p.nFields ≤ f.idx

theorem GExt.refl (p : Proj) : GExt p p := ⟨fun _ _ h => h, fun _ _ h => Or.inl h⟩

theorem GExt.trans {p q r : Proj} (h1 : GExt p q) (h2 : GExt q r) (hn : p.nFields ≤ q.nFields) : GExt p r :=
  ⟨fun pos f h => h2.mono pos f (h1.mono pos f h),
   fun pos f h => by
     rcases h2.fresh pos f h with a | a
     · exact h1.fresh pos f a
     · exact Or.inr (Nat.le_trans hn a)⟩

theorem configStep_own (env : Env) (pos : Nat) (o : Order) (p : Proj) (cfg : Bytes × Bytes × Bool)
    (hf : FInv p) (ho : OInv p) (hg : isGroupAt p.top pos) (hpart : Part.config pos o ∈ p.parts) :
    OInv (configStep env pos o p cfg) ∧ GExt p (configStep env pos o p cfg) := by
  unfold configStep
  split
  · exact ⟨ho, GExt.refl p⟩
  · split
    · exact ⟨setRow_OInv p _ ho, ⟨fun _ _ h => h, fun _ _ h => Or.inl h⟩⟩
    · rename_i hfind
      split
      · exact ⟨ho, GExt.refl p⟩
      · have hnew : ∀ f ∈ groupSubs p.top pos, f.name ≠ cfg.1 := by
          intro f hfm he
          have := List.find?_eq_none.mp hfind f hfm
          simp [he] at this
        refine ⟨setRow_OInv _ _ (addSubField_OInv p pos cfg.1 o hf ho hg hpart hnew), ?_, ?_⟩
        · intro q f hh
          exact (mem_groupSubs_addSubAt p.top pos _ hg q f).mpr (Or.inl hh)
        · intro q f hh
          simp only [Proj.addSubField] at hh
          rcases (mem_groupSubs_addSubAt p.top pos _ hg q f).mp hh with a | ⟨_, a⟩
          · exact Or.inl a
          · exact Or.inr (by rw [a, mkSubField_idx]; exact Nat.le_refl _)

theorem configFold_own (env : Env) (pos : Nat) (o : Order) (cfgs : List (Bytes × Bytes × Bool)) (p : Proj)
    (hf : FInv p) (ho : OInv p) (hg : isGroupAt p.top pos) (hpart : Part.config pos o ∈ p.parts) :
    OInv (cfgs.foldl (configStep env pos o) p) ∧ GExt p (cfgs.foldl (configStep env pos o) p) := by
  induction cfgs generalizing p with
  | nil => exact ⟨ho, GExt.refl p⟩
  | cons c rest ih =>
    obtain ⟨f1, e1⟩ := configStep_good env pos o p c hf hg
    obtain ⟨o1, g1⟩ := configStep_own env pos o p c hf ho hg hpart
    obtain ⟨o2, g2⟩ := ih _ f1 o1 ((e1.grp pos).mpr hg) (by rw [e1.parts]; exact hpart)
    exact ⟨o2, g1.trans g2 e1.nFields⟩

theorem runPart_own (env : Env) (r : Res) (p : Proj) (part : Part) (hf : FInv p) (ho : OInv p)
    (hp : part ∈ p.parts) : OInv (runPart env r p part) ∧ GExt p (runPart env r p part) := by
  cases part with
  | config pos o => exact configFold_own env pos o r.config p hf ho (hf.groups pos o hp) hp
  | fullname idx => exact ⟨setRow_OInv p _ ho, ⟨fun _ _ h => h, fun _ _ h => Or.inl h⟩⟩
  | key k idx => exact ⟨setRow_OInv p _ ho, ⟨fun _ _ h => h, fun _ _ h => Or.inl h⟩⟩

theorem partsFold_own (env : Env) (r : Res) (parts : List Part) (p : Proj) (hf : FInv p) (ho : OInv p)
    (hsub : ∀ x ∈ parts, x ∈ p.parts) :
    OInv (parts.foldl (runPart env r) p) ∧ GExt p (parts.foldl (runPart env r) p) := by
  induction parts generalizing p with
  | nil => exact ⟨ho, GExt.refl p⟩
  | cons x rest ih =>
    obtain ⟨f1, e1⟩ := runPart_good env r p x hf (hsub x (by simp))
    obtain ⟨o1, g1⟩ := runPart_own env r p x hf ho (hsub x (by simp))
    obtain ⟨o2, g2⟩ := ih _ f1 o1 (fun y hy => by rw [e1.parts]; exact hsub y (by simp [hy]))
    exact ⟨o2, g1.trans g2 e1.nFields⟩

theorem populateRow_own (env : Env) (p : Proj) (r : Res) (hf : FInv p) (ho : OInv p) :
    OInv (p.populateRow env r) ∧ GExt p (p.populateRow env r) := by
  unfold Proj.populateRow
  have h0 : FInv { p with row := p.row.map fun _ => [] } :=
    ⟨by simpa using hf.rowLen, hf.cover, hf.bound, hf.groups⟩
  obtain ⟨o1, g1⟩ := partsFold_own env r p.parts { p with row := p.row.map fun _ => [] } h0
    (setRow_OInv p _ ho) (fun x hx => hx)
  exact ⟨o1, ⟨g1.mono, g1.fresh⟩⟩

/-! ### internRow, parsing -/

theorem OInv_map (p q : Proj) (g : Field → Field)
    (hg : ∀ f, (g f).idx = f.idx ∧ (g f).name = f.name ∧ (g f).order = f.order)
    (htop : q.top = p.top.map (Top.mapFields g)) (hflat : q.flat = p.flat.map g)
    (hparts : q.parts = p.parts) (hnf : q.nFields = p.nFields) (hu : q.unitIdx = p.unitIdx)
    (ho : OInv p) : OInv q := by
  have hsubs : ∀ pos, groupSubs q.top pos = (groupSubs p.top pos).map g := by
    intro pos; rw [htop, groupSubs_mapFields]
  have hgi : ∀ i, groupIdx q.top i → groupIdx p.top i := by
    rintro i ⟨pos, f', hf', he⟩
    rw [hsubs] at hf'
    obtain ⟨f, hf, rfl⟩ := List.mem_map.mp hf'
    exact ⟨pos, f, hf, by rw [← (hg f).1]; exact he⟩
  constructor
  · intro part hp i hi
    rw [hparts] at hp
    obtain ⟨h1, h2⟩ := ho.leafBound part hp i hi
    exact ⟨by rw [hnf]; exact h1, fun h => h2 (hgi i h)⟩
  · rw [hparts]; exact ho.leafNodup
  · rw [hparts]; exact ho.cfgNodup
  · intro pos₁ pos₂ f' g' hf' hg' he
    rw [hsubs] at hf' hg'
    obtain ⟨f, hf, rfl⟩ := List.mem_map.mp hf'
    obtain ⟨g0, hg0, rfl⟩ := List.mem_map.mp hg'
    rw [(hg f).1, (hg g0).1] at he
    obtain ⟨e1, e2⟩ := ho.subsInj pos₁ pos₂ f g0 hf hg0 he
    exact ⟨e1, by rw [e2]⟩
  · intro pos f' g' hf' hg' he
    rw [hsubs] at hf' hg'
    obtain ⟨f, hf, rfl⟩ := List.mem_map.mp hf'
    obtain ⟨g0, hg0, rfl⟩ := List.mem_map.mp hg'
    rw [(hg f).2.1, (hg g0).2.1] at he
    rw [ho.subsNames pos f g0 hf hg0 he]
  · intro ui hui
    rw [hu] at hui
    obtain ⟨h1, h2, h3⟩ := ho.unitOK ui hui
    exact ⟨by rw [hnf]; exact h1, fun h => h2 (hgi ui h), by rw [hparts]; exact h3⟩
  · intro f' hf'
    rw [hflat] at hf'
    obtain ⟨f, hf, rfl⟩ := List.mem_map.mp hf'
    cases ho.owner f hf with
    | key h1 => exact Owner.key (by rw [hparts, (hg f).1, (hg f).2.1]; exact h1)
    | fullname h1 h2 => exact Owner.fullname (by rw [hparts, (hg f).1]; exact h1) (by rw [(hg f).2.1]; exact h2)
    | config pos o h1 h2 =>
      exact Owner.config pos o (by rw [hparts]; exact h1) (by rw [hsubs]; exact List.mem_map_of_mem h2)
    | unit h1 h2 => exact Owner.unit (by rw [hu, (hg f).1]; exact h1) (by rw [(hg f).2.1]; exact h2)

theorem internRow_OInv (h : List Bytes → UInt64) (p : Proj) (ho : OInv p) : OInv (p.internRow h).1 := by
  obtain ⟨_, hnf, hparts, hu, ⟨g, hg, hflat, htop⟩, _, _, _⟩ := internRow_spec h p
  exact OInv_map p _ g hg htop hflat hparts hnf hu ho

theorem cfgPos_lt (s : Proj) (hf : FInv s) : ∀ x ∈ s.parts.filterMap cfgPos, x < s.top.length := by
  intro x hx
  obtain ⟨part, hp, he⟩ := List.mem_filterMap.mp hx
  cases part with
  | config pos o =>
    simp [cfgPos] at he; subst he
    obtain ⟨n, sub, hh⟩ := hf.groups pos o hp
    rcases Nat.lt_or_ge pos s.top.length with h | h
    · exact h
    · rw [List.getElem?_eq_none h] at hh; simp at hh
  | fullname i => simp [cfgPos] at he
  | key k i => simp [cfgPos] at he

theorem leafIdx_lt (s : Proj) (ho : OInv s) : ∀ x ∈ s.parts.filterMap leafIdx, x < s.nFields := by
  intro x hx
  obtain ⟨part, hp, he⟩ := List.mem_filterMap.mp hx
  exact (ho.leafBound part hp x he).1

/-- `addField(root, name)` + a leaf closure for it (`part` is `.key name idx` or `.fullname idx`). -/
theorem addLeaf_OInv (s : Proj) (name : Bytes) (o : Order) (part : Part) (hf : FInv s) (ho : OInv s)
    (hleaf : leafIdx part = some s.nFields)
    (hown : ∀ q : Proj, part ∈ q.parts → Owner q (mkField name s.nFields o)) :
    OInv { (s.addRootField name o).1 with parts := (s.addRootField name o).1.parts ++ [part] } := by
  have hgi : ∀ i, groupIdx (s.top ++ [.leaf (mkField name s.nFields o)]) i ↔ groupIdx s.top i := by
    intro i; unfold groupIdx groupIdxAt
    simp only [groupSubs_append_leaf]
  have hcfg : cfgPos part = none := by
    cases part <;> simp [leafIdx, cfgPos] at hleaf ⊢
  constructor
  · intro x hx i hi
    simp only [Proj.addRootField, List.mem_append, List.mem_singleton] at hx ⊢
    rcases hx with hx | hx
    · obtain ⟨h1, h2⟩ := ho.leafBound x hx i hi
      exact ⟨by omega, fun h => h2 ((hgi i).mp h)⟩
    · subst hx
      rw [hleaf] at hi; injection hi with hi; subst hi
      refine ⟨by omega, fun h => ?_⟩
      obtain ⟨pos, f, hfm, he⟩ := (hgi _).mp h
      have := subs_bound s hf pos f hfm
      omega
  · simp only [Proj.addRootField, List.filterMap_append, List.filterMap_cons, hleaf, List.filterMap_nil]
    rw [List.nodup_append]
    refine ⟨ho.leafNodup, by simp, ?_⟩
    intro a ha b hb
    simp at hb; subst hb
    have := leafIdx_lt s ho a ha
    omega
  · simp only [Proj.addRootField, List.filterMap_append, List.filterMap_cons, hcfg, List.filterMap_nil,
      List.append_nil]
    exact ho.cfgNodup
  · intro pos₁ pos₂ f g h1 h2 he
    simp only [Proj.addRootField, groupSubs_append_leaf] at h1 h2
    exact ho.subsInj pos₁ pos₂ f g h1 h2 he
  · intro pos f g h1 h2 he
    simp only [Proj.addRootField, groupSubs_append_leaf] at h1 h2
    exact ho.subsNames pos f g h1 h2 he
  · intro ui hu
    simp only [Proj.addRootField] at hu
    obtain ⟨h1, h2, h3⟩ := ho.unitOK ui hu
    refine ⟨by simp only [Proj.addRootField]; omega, fun h => h2 ((hgi ui).mp h), ?_⟩
    simp only [Proj.addRootField, List.filterMap_append, List.filterMap_cons, hleaf, List.filterMap_nil,
      List.mem_append, List.mem_singleton, not_or]
    exact ⟨h3, by omega⟩
  · intro f hff
    simp only [Proj.addRootField, Proj.flat, flat_append, List.mem_append] at hff
    rcases hff with hff | hff
    · refine Owner_mono (p := s) ?_ (fun _ => rfl) ?_ (ho.owner f hff)
      · intro x hx; simp only [Proj.addRootField]; exact List.mem_append_left _ hx
      · intro pos hh; simp only [Proj.addRootField, groupSubs_append_leaf]; exact hh
    · simp [Top.flat] at hff
      subst hff
      exact hown _ (by simp [Proj.addRootField])

theorem makeProjection_OInv (pa : Parser) (s : Proj) (sp : Spec) (pa' : Parser) (s' : Proj)
    (hf : FInv s) (ho : OInv s) (hm : makeProjection pa s sp = (pa', .ok s')) :
    OInv s' ∧ s'.unitIdx = s.unitIdx := by
  unfold makeProjection at hm
  split at hm
  · simp at hm
  split at hm
  · split at hm
    · simp at hm
    · simp only [Proj.addGroup, Prod.mk.injEq, Except.ok.injEq] at hm
      obtain ⟨_, rfl⟩ := hm
      have hgi : ∀ i, groupIdx (s.top ++ [.group dotConfig []]) i ↔ groupIdx s.top i := by
        intro i; unfold groupIdx groupIdxAt
        simp only [groupSubs_append_group]
      refine ⟨⟨?_, ?_, ?_, ?_, ?_, ?_, ?_⟩, rfl⟩
      · intro x hx i hi
        simp only [List.mem_append, List.mem_singleton] at hx
        rcases hx with hx | hx
        · obtain ⟨h1, h2⟩ := ho.leafBound x hx i hi
          exact ⟨h1, fun h => h2 ((hgi i).mp h)⟩
        · subst hx; simp [leafIdx] at hi
      · simp only [List.filterMap_append, List.filterMap_cons, leafIdx, List.filterMap_nil, List.append_nil]
        exact ho.leafNodup
      · simp only [List.filterMap_append, List.filterMap_cons, cfgPos, List.filterMap_nil]
        rw [List.nodup_append]
        refine ⟨ho.cfgNodup, by simp, ?_⟩
        intro a ha b hb
        simp at hb; subst hb
        have := cfgPos_lt s hf a ha
        omega
      · intro pos₁ pos₂ f g h1 h2 he
        simp only [groupSubs_append_group] at h1 h2
        exact ho.subsInj pos₁ pos₂ f g h1 h2 he
      · intro pos f g h1 h2 he
        simp only [groupSubs_append_group] at h1 h2
        exact ho.subsNames pos f g h1 h2 he
      · intro ui hu
        obtain ⟨h1, h2, h3⟩ := ho.unitOK ui hu
        refine ⟨h1, fun h => h2 ((hgi ui).mp h), ?_⟩
        simp only [List.filterMap_append, List.filterMap_cons, leafIdx, List.filterMap_nil, List.append_nil]
        exact h3
      · intro f hff
        simp only [Proj.flat, flat_append, List.mem_append] at hff
        rcases hff with hff | hff
        · refine Owner_mono (p := s) ?_ (fun _ => rfl) ?_ (ho.owner f hff)
          · intro x hx; exact List.mem_append_left _ hx
          · intro pos hh; simp only [groupSubs_append_group]; exact hh
        · simp [Top.flat] at hff
  · split at hm
    · simp only [Prod.mk.injEq, Except.ok.injEq] at hm
      obtain ⟨_, rfl⟩ := hm
      exact ⟨addLeaf_OInv s dotFullname sp.order (.fullname s.nFields) hf ho rfl
        (fun q hq => Owner.fullname hq rfl), rfl⟩
    · split at hm
      · simp at hm
      · dsimp only at hm
        by_cases he : sp.key.isEmpty = true
        · rw [if_pos he] at hm; simp at hm
        · rw [if_neg he] at hm
          simp only [Prod.mk.injEq, Except.ok.injEq] at hm
          obtain ⟨_, rfl⟩ := hm
          exact ⟨addLeaf_OInv s sp.key sp.order (.key sp.key s.nFields) hf ho rfl
            (fun q hq => Owner.key hq), rfl⟩

theorem newProjection_OInv : OInv newProjection := by
  refine ⟨?_, by simp [newProjection], by simp [newProjection], ?_, ?_, ?_, ?_⟩
  · intro x hx; simp [newProjection] at hx
  · intro a b f g hf; simp [newProjection, groupSubs] at hf
  · intro a f g hf; simp [newProjection, groupSubs] at hf
  · intro ui hu; simp [newProjection] at hu
  · intro f hf; simp [newProjection, Proj.flat] at hf

theorem parseParts_OInv (specs : List Spec) (pa : Parser) (s : Proj) (pa' : Parser) (s' : Proj)
    (hf : FInv s) (ho : OInv s) (hm : parseParts pa s specs = (pa', .ok s')) :
    OInv s' ∧ s'.unitIdx = s.unitIdx := by
  induction specs generalizing pa s with
  | nil => simp [parseParts] at hm; obtain ⟨_, rfl⟩ := hm; exact ⟨ho, rfl⟩
  | cons sp rest ih =>
    unfold parseParts at hm
    split at hm
    · rename_i p1 s1 heq
      obtain ⟨o1, u1⟩ := makeProjection_OInv pa s sp p1 s1 hf ho heq
      obtain ⟨f1, _⟩ := makeProjection_FInv pa s sp p1 s1 hf heq
      obtain ⟨o2, u2⟩ := ih p1 s1 f1 o1 hm
      exact ⟨o2, u2.trans u1⟩
    · simp at hm

theorem parse_OInv (pa : Parser) (specs : List Spec) (pa' : Parser) (s : Proj)
    (hm : pa.parse specs = (pa', .ok s)) : OInv s ∧ s.unitIdx = none :=
  parseParts_OInv specs pa newProjection pa' s newProjection_FInv newProjection_OInv (parse_ok _ _ _ _ hm)

theorem parseWithUnit_OInv (pa : Parser) (specs : List Spec) (pa' : Parser) (s : Proj)
    (hm : pa.parseWithUnit specs = (pa', .ok s)) : OInv s := by
  unfold Parser.parseWithUnit at hm
  split at hm
  · rename_i p1 s1 heq
    obtain ⟨ho, hu⟩ := parse_OInv pa specs p1 s1 heq
    obtain ⟨hf, _⟩ := parseParts_FInv specs pa newProjection p1 s1 newProjection_FInv (parse_ok _ _ _ _ heq)
    simp only [Prod.mk.injEq, Except.ok.injEq] at hm
    obtain ⟨_, rfl⟩ := hm
    have hgi : ∀ i, groupIdx (s1.top ++ [.leaf (mkField dotUnit s1.nFields .first)]) i ↔ groupIdx s1.top i := by
      intro i; unfold groupIdx groupIdxAt
      simp only [groupSubs_append_leaf]
    constructor
    · intro x hx i hi
      simp only [Proj.addRootField] at hx ⊢
      obtain ⟨h1, h2⟩ := ho.leafBound x hx i hi
      exact ⟨by omega, fun h => h2 ((hgi i).mp h)⟩
    · exact ho.leafNodup
    · exact ho.cfgNodup
    · intro pos₁ pos₂ f g h1 h2 he
      simp only [Proj.addRootField, groupSubs_append_leaf] at h1 h2
      exact ho.subsInj pos₁ pos₂ f g h1 h2 he
    · intro pos f g h1 h2 he
      simp only [Proj.addRootField, groupSubs_append_leaf] at h1 h2
      exact ho.subsNames pos f g h1 h2 he
    · intro ui hui
      simp only [Proj.addRootField, Option.some.injEq] at hui
      subst hui
      refine ⟨by simp [Proj.addRootField], fun h => ?_, fun h => ?_⟩
      · obtain ⟨pos, f, hfm, he⟩ := (hgi _).mp h
        have := subs_bound s1 hf pos f hfm
        omega
      · have := leafIdx_lt s1 ho _ h
        omega
    · intro f hff
      simp only [Proj.addRootField, Proj.flat, flat_append, List.mem_append] at hff
      rcases hff with hff | hff
      · refine Owner_mono (p := s1) (fun x hx => hx) (fun hne => absurd hu hne) ?_ (ho.owner f hff)
        intro pos hh; simp only [Proj.addRootField, groupSubs_append_leaf]; exact hh
      · simp [Top.flat] at hff
        subst hff
        exact Owner.unit rfl rfl
  · rename_i hne
    cases hp : pa.parse specs with
    | mk p1 e =>
      cases e with
      | ok s1 => exact absurd hp (hne p1 s1)
      | error e => rw [hp] at hm; simp at hm

theorem residue_OInv (pa : Parser) : OInv (pa.residue).2 := by
  unfold Parser.residue
  have h1 : ∀ st : Parser × Proj, FInv st.2 ∧ OInv st.2 → ∀ (b : Bool) (sp : Spec),
      FInv (if b then residueStep st sp else st).2 ∧ OInv (if b then residueStep st sp else st).2 := by
    intro st hst b sp
    cases b
    · simpa using hst
    · simp only [if_true]
      unfold residueStep
      cases hm : makeProjection st.1 st.2 sp with
      | mk p e =>
        cases e with
        | ok s' =>
          exact ⟨(makeProjection_FInv st.1 st.2 sp p s' hst.1 hm).1,
                 (makeProjection_OInv st.1 st.2 sp p s' hst.1 hst.2 hm).1⟩
        | error e => exact hst
  have h0 : FInv (pa, newProjection).2 ∧ OInv (pa, newProjection).2 := ⟨newProjection_FInv, newProjection_OInv⟩
  have h2 := h1 _ h0 (!pa.haveConfig) { key := dotConfig, order := .first }
  exact (h1 _ h2 (!(if (!pa.haveConfig) = true then residueStep (pa, newProjection) { key := dotConfig, order := .first } else (pa, newProjection)).1.haveFullname) { key := dotFullname, order := .first }).2

theorem project_OInv (h : List Bytes → UInt64) (env : Env) (p : Proj) (r : Res) (hf : FInv p) (ho : OInv p) :
    OInv (p.project h env r).1 :=
  internRow_OInv h _ (populateRow_own env p r hf ho).1

theorem projectUnits_OInv (h : List Bytes → UInt64) (ui : Nat) (us : List Bytes) (p : Proj) (ho : OInv p) :
    OInv (projectUnits h ui p us).1 := by
  induction us generalizing p with
  | nil => exact ho
  | cons u rest ih =>
    simp only [projectUnits]
    exact ih _ (internRow_OInv h _ (setRow_OInv p _ ho))

theorem projectValues_OInv (h : List Bytes → UInt64) (env : Env) (p : Proj) (r : Res) (hf : FInv p) (ho : OInv p) :
    OInv (p.projectValues h env r).1 := by
  have h1 := (populateRow_own env p r hf ho).1
  unfold Proj.projectValues
  dsimp only
  split
  · exact internRow_OInv h _ h1
  · exact projectUnits_OInv h _ _ _ h1

theorem reachable_oinv (h : List Bytes → UInt64) (p : Proj) (hr : Reachable h p) : OInv p := by
  induction hr with
  | parsed pa specs pa' s hm => exact (parse_OInv pa specs pa' s hm).1
  | parsedWithUnit pa specs pa' s hm => exact parseWithUnit_OInv pa specs pa' s hm
  | residue pa => exact residue_OInv pa
  | project p env r hr ih => exact project_OInv h env p r (reachable_inv h p hr).f ih
  | projectValues p env r hr ih => exact projectValues_OInv h env p r (reachable_inv h p hr).f ih

end C08
