/-
C14 helper lemmas: sorting by rank, ToTables, summarizeCol, non-singular residue fields.
-/
import Proofs.Lemmas.C14Build

namespace C14L
open Tab

/-! ### sortKeys -/
section SortK
variable {α : Type} (rank : α → Nat)

theorem insertBy_perm (x : α) (l : List α) : (insertBy rank x l).Perm (x :: l) := by
  induction l with
  | nil => simp [insertBy]
  | cons y ys ih =>
    unfold insertBy
    split
    · exact List.Perm.refl _
    · exact (List.Perm.cons y ih).trans (List.Perm.swap x y ys)

theorem sortKeys_perm (l : List α) : (sortKeys rank l).Perm l := by
  induction l with
  | nil => simp [sortKeys]
  | cons x xs ih => exact (insertBy_perm rank x _).trans (List.Perm.cons x ih)

theorem mem_sortKeys (x : α) (l : List α) : x ∈ sortKeys rank l ↔ x ∈ l :=
  (sortKeys_perm rank l).mem_iff

theorem insertBy_sorted (x : α) (l : List α) (h : l.Pairwise fun a b => rank a ≤ rank b) :
    (insertBy rank x l).Pairwise fun a b => rank a ≤ rank b := by
  induction l with
  | nil => simp [insertBy]
  | cons y ys ih =>
    unfold insertBy
    split
    · rename_i hxy
      refine List.Pairwise.cons ?_ h
      intro b hb
      rcases List.mem_cons.mp hb with rfl | hb
      · exact hxy
      · exact Nat.le_trans hxy (List.rel_of_pairwise_cons h hb)
    · rename_i hxy
      refine List.Pairwise.cons ?_ (ih h.tail)
      intro b hb
      rcases List.mem_cons.mp ((insertBy_perm rank x ys).mem_iff.mp hb) with rfl | hb
      · omega
      · exact List.rel_of_pairwise_cons h hb

theorem sortKeys_sorted (l : List α) : (sortKeys rank l).Pairwise fun a b => rank a ≤ rank b := by
  induction l with
  | nil => simp [sortKeys]
  | cons x xs ih => exact insertBy_sorted rank x _ ih

/-- the sorted order does not depend on the order in which the keys arrive, as long as the rank
(the position `Key.Less` gives) separates the keys present -/
theorem sortKeys_eq_of_perm {l l' : List α} (hp : l.Perm l')
    (hinj : ∀ a b, a ∈ l → b ∈ l → rank a = rank b → a = b) : sortKeys rank l = sortKeys rank l' := by
  apply List.Perm.eq_of_pairwise (le := fun a b => rank a ≤ rank b)
  · intro a b ha hb h1 h2
    exact hinj a b ((mem_sortKeys rank a l).mp ha) (hp.mem_iff.mpr ((mem_sortKeys rank b l').mp hb))
      (Nat.le_antisymm h1 h2)
  · exact sortKeys_sorted rank l
  · exact sortKeys_sorted rank l'
  · exact (sortKeys_perm rank l).trans (hp.trans (sortKeys_perm rank l').symm)

theorem sortKeys_head_min {l : List α} {c0 : α} (h : (sortKeys rank l).head? = some c0) :
    c0 ∈ l ∧ ∀ c ∈ l, rank c0 ≤ rank c := by
  have hs := sortKeys_sorted rank l
  cases hl : sortKeys rank l with
  | nil => simp [hl] at h
  | cons x xs =>
    simp [hl] at h; subst h
    rw [hl] at hs
    refine ⟨(mem_sortKeys rank x l).mp (by simp [hl]), ?_⟩
    intro c hc
    have : c ∈ x :: xs := by rw [← hl]; exact (mem_sortKeys rank c l).mpr hc
    rcases List.mem_cons.mp this with rfl | hm
    · exact Nat.le_refl _
    · exact List.rel_of_pairwise_cons hs hm

theorem sortKeys_nodup {l : List α} (h : l.Nodup) : (sortKeys rank l).Nodup :=
  (sortKeys_perm rank l).nodup_iff.mpr h

end SortK

/-! ### maps over association lists -/
section MapAL
variable {α β γ : Type} [DecidableEq α]

theorem lookup_map_values (g : α → β → γ) (k : α) (l : List (α × β)) :
    AL.lookup k (l.map fun kc => (kc.1, g kc.1 kc.2)) = (AL.lookup k l).map (g k) := by
  induction l with
  | nil => simp [AL.lookup]
  | cons kv rest ih =>
    obtain ⟨k', v⟩ := kv
    by_cases h : k' = k
    · subst h; simp [AL.lookup]
    · simp [AL.lookup, h, ih]

theorem keys_map_values (g : α → β → γ) (l : List (α × β)) :
    AL.keys (l.map fun kc => (kc.1, g kc.1 kc.2)) = AL.keys l := by
  simp [AL.keys, List.map_map, Function.comp_def]

end MapAL

/-! ### sort.Float64s is a permutation -/

theorem insertF_perm (x : F64.Bits) (l : List F64.Bits) : (insertF x l).Perm (x :: l) := by
  induction l with
  | nil => simp [insertF]
  | cons y ys ih =>
    unfold insertF
    split
    · exact (List.Perm.cons y ih).trans (List.Perm.swap x y ys)
    · exact List.Perm.refl _

theorem sortFloats_perm (l : List F64.Bits) : (sortFloats l).Perm l := by
  induction l with
  | nil => simp [sortFloats]
  | cons x xs ih => exact (insertF_perm x _).trans (List.Perm.cons x ih)

/-! ### non-singular fields -/

open Spec.Cells in
theorem nonSingular_eq_varying (n : Nat) (keys : List (List Bytes)) : nonSingular n keys = varying n keys := by
  unfold nonSingular varying
  match keys with
  | [] => simp
  | [k] => simp
  | k0 :: k1 :: rest =>
    simp only
    apply List.filter_congr
    intro i _
    rw [Bool.eq_iff_iff]
    simp only [List.any_eq_true, bne_iff_ne, ne_eq]
    constructor
    · rintro ⟨k, hk, hne⟩
      exact ⟨k, List.mem_cons_of_mem _ hk, k0, List.mem_cons_self .., hne⟩
    · rintro ⟨a, ha, b, hb, hne⟩
      by_cases h1 : getField a i = getField k0 i
      · have h2 : getField b i ≠ getField k0 i := fun e => hne (h1.trans e.symm)
        rcases List.mem_cons.mp hb with rfl | hb'
        · exact absurd rfl h2
        · exact ⟨b, hb', h2⟩
      · rcases List.mem_cons.mp ha with rfl | ha'
        · exact absurd rfl h1
        · exact ⟨a, ha', h1⟩

open Spec.Cells in
theorem varying_congr (n : Nat) {g g' : List (List Bytes)} (h : ∀ z, z ∈ g ↔ z ∈ g') :
    varying n g = varying n g' := by
  unfold varying
  apply List.filter_congr
  intro i _
  rw [Bool.eq_iff_iff]
  simp only [List.any_eq_true]
  constructor
  · rintro ⟨a, ha, b, hb, hne⟩; exact ⟨a, (h a).mp ha, b, (h b).mp hb, hne⟩
  · rintro ⟨a, ha, b, hb, hne⟩; exact ⟨a, (h a).mpr ha, b, (h b).mpr hb, hne⟩

theorem residueWarning_congr (names : List Bytes) {g g' : List (List Bytes)} (h : ∀ z, z ∈ g ↔ z ∈ g') :
    residueWarning names g = residueWarning names g' := by
  unfold residueWarning
  rw [nonSingular_eq_varying, nonSingular_eq_varying, varying_congr _ h]

/-! ### summarizeCol accumulators -/

section Col
variable {κ : Type} [DecidableEq κ]

/-- centres of the cells of a column, in row order -/
def colCentres (rows : List κ) (cells : List ((κ × κ) × OCell κ)) (col : κ) : List F64.Bits :=
  rows.filterMap fun r => (AL.lookup (r, col) cells).map (·.summary.center)

/-- (centre, baseline centre) of the cells of a column that have a baseline, in row order -/
def colPairs (rows : List κ) (cells : List ((κ × κ) × OCell κ)) (col : κ) : List (F64.Bits × F64.Bits) :=
  rows.filterMap fun r =>
    (AL.lookup (r, col) cells).bind fun cell =>
      cell.baseline.bind fun bk => (AL.lookup bk cells).map fun bc => (cell.summary.center, bc.summary.center)

theorem colStep_foldl (cells : List ((κ × κ) × OCell κ)) (col : κ) (rows : List κ) (acc : ColAcc) :
    let r := rows.foldl (colStep cells col) acc
    r.summaries = acc.summaries ++ colCentres rows cells col ∧
    r.ratios = acc.ratios ++ (colPairs rows cells col).map (fun p => (ratioOf p.1 p.2).getD F64.posZero) ∧
    r.badRatio = (acc.badRatio || (colPairs rows cells col).any fun p => (ratioOf p.1 p.2).isNone) := by
  induction rows generalizing acc with
  | nil => simp [colCentres, colPairs]
  | cons r rest ih =>
    simp only [List.foldl_cons]
    have := ih (colStep cells col acc r)
    simp only at this
    obtain ⟨h1, h2, h3⟩ := this
    rw [h1, h2, h3]
    unfold colStep colCentres colPairs
    simp only [List.filterMap_cons]
    cases hl : AL.lookup (r, col) cells with
    | none => simp
    | some cell =>
      cases hb : cell.baseline with
      | none => simp [hb]
      | some bk =>
        cases hbc : AL.lookup bk cells with
        | none => simp [hb, hbc]
        | some bc =>
          cases hr : ratioOf cell.summary.center bc.summary.center with
          | none => simp [hb, hbc, hr]
          | some x => simp [hb, hbc, hr]

end Col

end C14L
